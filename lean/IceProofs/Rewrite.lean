import IceModel.Rewrite
import IceSpec.C19
/-!
# Lemmas for C19: the model's compiled lookup equals the documented precedence with the two
as-coded clauses (`asCodedClauses`), for every rule list and key; and when the as-coded clauses agree
with the documented ones.

Route: both sides are mapped to a list of `Hit`s (one per rule in scope) and to one declarative
resolution of such a list (`resolveDecl`).
-/
set_option linter.unusedSimpArgs false
namespace IceProofs.Rewrite
open IceModel.Rewrite IceSpec.C19

/-! ## Generic list facts -/

theorem foldl_max_ge_init {α : Type} (f : α → Nat) (l : List α) (m : Nat) :
    m ≤ l.foldl (fun m r => max m (f r)) m := by
  induction l generalizing m with
  | nil => simp
  | cons x xs ih => simp only [List.foldl_cons]; exact Nat.le_trans (Nat.le_max_left _ _) (ih _)

theorem foldl_max_ge_mem {α : Type} (f : α → Nat) (l : List α) (m : Nat) (x : α) (hx : x ∈ l) :
    f x ≤ l.foldl (fun m r => max m (f r)) m := by
  induction l generalizing m with
  | nil => cases hx
  | cons y ys ih =>
    simp only [List.foldl_cons]
    rcases List.mem_cons.mp hx with h | h
    · subst h; exact Nat.le_trans (Nat.le_max_right _ _) (foldl_max_ge_init f ys _)
    · exact ih _ h

theorem foldl_max_mono {α : Type} (f : α → Nat) (l : List α) (m m' : Nat) (h : m ≤ m') :
    l.foldl (fun m r => max m (f r)) m ≤ l.foldl (fun m r => max m (f r)) m' := by
  induction l generalizing m m' with
  | nil => simpa
  | cons y ys ih => simp only [List.foldl_cons]; apply ih; omega

/-- The fold of `max` is either its initial value or attained by a member. -/
theorem foldl_max_attained {α : Type} (f : α → Nat) (l : List α) (m : Nat) :
    l.foldl (fun m r => max m (f r)) m = m ∨ ∃ x ∈ l, f x = l.foldl (fun m r => max m (f r)) m := by
  induction l generalizing m with
  | nil => simp
  | cons y ys ih =>
    simp only [List.foldl_cons]
    rcases ih (max m (f y)) with h | ⟨x, hx, hfx⟩
    · rw [h]
      rcases Nat.le_total m (f y) with h' | h'
      · right; exact ⟨y, List.mem_cons_self, by rw [Nat.max_eq_right h']⟩
      · left; exact Nat.max_eq_left h'
    · right; exact ⟨x, List.mem_cons_of_mem _ hx, hfx⟩

theorem foldl_max_congr {α : Type} (f g : α → Nat) (l : List α) (m : Nat) (h : ∀ x ∈ l, f x = g x) :
    l.foldl (fun m r => max m (f r)) m = l.foldl (fun m r => max m (g r)) m := by
  induction l generalizing m with
  | nil => rfl
  | cons y ys ih =>
    simp only [List.foldl_cons]
    rw [h y List.mem_cons_self]
    exact ih _ (fun x hx => h x (List.mem_cons_of_mem _ hx))

theorem find?_congr' {α : Type} (p q : α → Bool) (l : List α) (h : ∀ x ∈ l, p x = q x) :
    l.find? p = l.find? q := by
  induction l with
  | nil => rfl
  | cons y ys ih =>
    simp only [List.find?_cons]
    rw [h y List.mem_cons_self, ih (fun x hx => h x (List.mem_cons_of_mem _ hx))]

theorem filter_congr' {α : Type} (p q : α → Bool) (l : List α) (h : ∀ x ∈ l, p x = q x) :
    l.filter p = l.filter q := by
  induction l with
  | nil => rfl
  | cons y ys ih =>
    simp only [List.filter_cons]
    rw [h y List.mem_cons_self, ih (fun x hx => h x (List.mem_cons_of_mem _ hx))]

/-! ## Hits and their resolution -/

def _root_.IceModel.Rewrite.Hit.isExplicit : Hit → Bool
  | .explicit _ _ => true
  | .ca _ _ _ => false

def _root_.IceModel.Rewrite.Hit.rank : Hit → Nat
  | .explicit _ _ => 0
  | .ca _ _ r => r

def _root_.IceModel.Rewrite.Hit.res : Hit → Res
  | .explicit ips m => { ips := ips, matched := true, mode := m }
  | .ca ips m _ => { ips := ips, matched := true, mode := m }

/-- The loop of `evaluateRewriteRules` over hits. -/
def resolveLoop : List Hit → Option (List IP × Nat × Nat) → Res
  | [], none => Res.noMatch
  | [], some (ips, mode, _) => { ips := ips, matched := true, mode := mode }
  | .explicit ips mode :: _, _ => { ips := ips, matched := true, mode := mode }
  | .ca ips mode spec :: hs, none => resolveLoop hs (some (ips, mode, spec))
  | .ca ips mode spec :: hs, some (bi, bm, bs) =>
    if spec > bs then resolveLoop hs (some (ips, mode, spec)) else resolveLoop hs (some (bi, bm, bs))

def topHit (hs : List Hit) : Nat := hs.foldl (fun m h => max m h.rank) 0

/-- Declarative resolution: first explicit hit, else the first hit of maximal rank. -/
def resolveDecl (hs : List Hit) : Res :=
  match hs.find? Hit.isExplicit with
  | some h => h.res
  | none =>
    match hs.find? (fun h => h.rank == topHit hs) with
    | some h => h.res
    | none => Res.noMatch

theorem find_isExplicit_explicit (i : List IP) (m : Nat) (hs : List Hit) :
    (Hit.explicit i m :: hs).find? Hit.isExplicit = some (.explicit i m) := by
  simp [Hit.isExplicit]

theorem find_isExplicit_ca (i : List IP) (m r : Nat) (hs : List Hit) :
    (Hit.ca i m r :: hs).find? Hit.isExplicit = hs.find? Hit.isExplicit := by
  simp [Hit.isExplicit]

theorem resolveDecl_explicit_cons (i : List IP) (m : Nat) (hs : List Hit) :
    resolveDecl (.explicit i m :: hs) = { ips := i, matched := true, mode := m } := by
  unfold resolveDecl; rw [find_isExplicit_explicit]; rfl

theorem resolveDecl_ca_explicit_cons (bi : List IP) (bm bs : Nat) (i : List IP) (m : Nat) (hs : List Hit) :
    resolveDecl (.ca bi bm bs :: .explicit i m :: hs) = { ips := i, matched := true, mode := m } := by
  unfold resolveDecl; rw [find_isExplicit_ca, find_isExplicit_explicit]; rfl

theorem resolveDecl_absorb (bi : List IP) (bm bs : Nat) (xi : List IP) (xm xs : Nat) (hs : List Hit) :
    resolveDecl (.ca bi bm bs :: .ca xi xm xs :: hs)
      = resolveDecl ((if xs > bs then Hit.ca xi xm xs else Hit.ca bi bm bs) :: hs) := by
  have htop : topHit (.ca bi bm bs :: .ca xi xm xs :: hs)
      = topHit ((if xs > bs then Hit.ca xi xm xs else Hit.ca bi bm bs) :: hs) := by
    unfold topHit
    simp only [List.foldl_cons, Hit.rank]
    congr 1
    by_cases h : xs > bs <;> simp [h, Hit.rank] <;> omega
  have hb : bs ≤ topHit (.ca bi bm bs :: .ca xi xm xs :: hs) :=
    foldl_max_ge_mem Hit.rank _ 0 (.ca bi bm bs) List.mem_cons_self
  have hx : xs ≤ topHit (.ca bi bm bs :: .ca xi xm xs :: hs) :=
    foldl_max_ge_mem Hit.rank _ 0 (.ca xi xm xs) (List.mem_cons_of_mem _ List.mem_cons_self)
  unfold resolveDecl
  rw [← htop]
  generalize topHit (.ca bi bm bs :: .ca xi xm xs :: hs) = T at hb hx
  by_cases hgt : xs > bs
  · simp only [hgt, if_true, List.find?_cons, Hit.isExplicit, Hit.rank]
    have : (bs == T) = false := by simp; omega
    simp [this]
  · simp only [hgt, if_false, List.find?_cons, Hit.isExplicit, Hit.rank]
    by_cases hbT : bs = T
    · simp [hbT]
    · have h1 : (bs == T) = false := by simp [hbT]
      have h2 : (xs == T) = false := by simp; omega
      simp [h1, h2]

theorem resolveLoop_eq_decl (hs : List Hit) (best : Option (List IP × Nat × Nat)) :
    resolveLoop hs best
      = resolveDecl ((match best with
          | some (i, m, s) => [Hit.ca i m s]
          | none => []) ++ hs) := by
  induction hs generalizing best with
  | nil =>
    cases best with
    | none => simp [resolveLoop, resolveDecl]
    | some b =>
      obtain ⟨i, m, s⟩ := b
      simp [resolveLoop, resolveDecl, Hit.isExplicit, Hit.rank, topHit, Hit.res]
  | cons h hs ih =>
    cases h with
    | explicit ips mode =>
      cases best with
      | none => simp [resolveLoop, resolveDecl_explicit_cons]
      | some b =>
        obtain ⟨i, m, s⟩ := b
        simp [resolveLoop, resolveDecl_ca_explicit_cons]
    | ca ips mode spec =>
      cases best with
      | none =>
        simp only [resolveLoop]
        rw [ih]
        simp
      | some b =>
        obtain ⟨i, m, s⟩ := b
        simp only [resolveLoop]
        have := resolveDecl_absorb i m s ips mode spec hs
        simp only [List.singleton_append, List.cons_append, List.nil_append] at *
        rw [this]
        split
        · rw [ih]; simp
        · rw [ih]; simp

/-! ## The model's loop as a resolution of hits -/

theorem evalLoop_eq_resolveLoop (ip : IP) (iface : String) (crs : List CRule)
    (best : Option (List IP × Nat × Nat)) :
    evalLoop ip iface crs best = resolveLoop (crs.filterMap (ruleHit ip iface)) best := by
  induction crs generalizing best with
  | nil => cases best <;> simp [evalLoop, resolveLoop]
  | cons r rs ih =>
    simp only [List.filterMap_cons, evalLoop]
    cases hm : ruleHit ip iface r with
    | none => simp only []; exact ih best
    | some h =>
      cases h with
      | explicit exts mode => simp only [resolveLoop]
      | ca sole mode spec =>
        cases best with
        | none => simp only [resolveLoop]; exact ih _
        | some b =>
          obtain ⟨bi, bm, bs⟩ := b
          simp only [resolveLoop]
          split <;> exact ih _

theorem evaluate_eq_decl (crs : List CRule) (ip : IP) (iface : String) :
    evaluate crs ip iface = resolveDecl (crs.filterMap (ruleHit ip iface)) := by
  unfold evaluate
  rw [evalLoop_eq_resolveLoop, resolveLoop_eq_decl]
  simp

/-! ## The documented lookup (any clause set) as a resolution of hits -/

def toCa (c : Clauses) (k : Key) (r : Rule) : Hit :=
  .ca ((c.caIPs r k).getD []) (docMode r) (c.rank r k)

/-- What one source rule contributes under the clause set `c`. -/
def hitS (c : Clauses) (k : Key) (r : Rule) : Option Hit :=
  if isExplicit r k then some (.explicit (externals r) (docMode r))
  else if isCatchAllWith c r k then some (toCa c k r) else none

theorem find_explicit_hitS (c : Clauses) (k : Key) (rules : List Rule) :
    (rules.filterMap (hitS c k)).find? Hit.isExplicit
      = (rules.find? (fun r => isExplicit r k)).map (fun r => Hit.explicit (externals r) (docMode r)) := by
  induction rules with
  | nil => rfl
  | cons r rs ih =>
    simp only [List.filterMap_cons, List.find?_cons, hitS]
    by_cases he : isExplicit r k = true
    · simp [he, Hit.isExplicit]
    · simp only [he]
      by_cases hc : isCatchAllWith c r k = true
      · simp [hc, toCa, Hit.isExplicit, ih]
      · simp [hc, ih]

theorem filterMap_hitS_noExplicit (c : Clauses) (k : Key) (rules : List Rule)
    (h : ∀ r ∈ rules, isExplicit r k = false) :
    rules.filterMap (hitS c k) = (rules.filter (fun r => isCatchAllWith c r k)).map (toCa c k) := by
  induction rules with
  | nil => rfl
  | cons r rs ih =>
    have hr := h r List.mem_cons_self
    have ih' := ih (fun x hx => h x (List.mem_cons_of_mem _ hx))
    simp only [List.filterMap_cons, List.filter_cons, hitS, hr]
    by_cases hc : isCatchAllWith c r k = true
    · simp [hc, ih']
    · simp [hc, ih']

theorem topHit_map_toCa (c : Clauses) (k : Key) (l : List Rule) :
    topHit (l.map (toCa c k)) = topRank c k l := by
  unfold topHit topRank
  rw [List.foldl_map]
  rfl

theorem lookupWith_eq_decl (c : Clauses) (rules : List Rule) (k : Key) :
    lookupWith c rules k = resolveDecl (rules.filterMap (hitS c k)) := by
  unfold lookupWith resolveDecl
  rw [find_explicit_hitS]
  cases he : rules.find? (fun r => isExplicit r k) with
  | some r => simp [Hit.res]
  | none =>
    have hall : ∀ r ∈ rules, isExplicit r k = false := by
      intro r hr
      have := List.find?_eq_none.mp he r hr
      simpa using this
    simp only [Option.map_none]
    rw [filterMap_hitS_noExplicit c k rules hall, topHit_map_toCa, List.find?_map]
    cases hf : List.find? (fun r => c.rank r k == topRank c k (List.filter (fun r => isCatchAllWith c r k) rules))
        (List.filter (fun r => isCatchAllWith c r k) rules) with
    | some r =>
      have : List.find? ((fun h => h.rank == topRank c k (List.filter (fun r => isCatchAllWith c r k) rules)) ∘ toCa c k)
          (List.filter (fun r => isCatchAllWith c r k) rules) = some r := by
        rw [← hf]; rfl
      simp [this, toCa, Hit.res]
    | none =>
      have : List.find? ((fun h => h.rank == topRank c k (List.filter (fun r => isCatchAllWith c r k) rules)) ∘ toCa c k)
          (List.filter (fun r => isCatchAllWith c r k) rules) = none := by
        rw [← hf]; rfl
      simp [this]

/-! ## Model vocabulary = spec vocabulary -/

theorem netIsV4_eq (n : Nat) : netIsV4 n = (famOfNet? n == some true) := by
  unfold netIsV4 famOfNet?
  split <;> simp_all
theorem netIsV6_eq (n : Nat) : netIsV6 n = (famOfNet? n == some false) := by
  unfold netIsV6 famOfNet?
  split <;> simp_all
theorem allow4_eq (r : Rule) : allow4 r = netsAllow r true := by
  unfold allow4 netsAllow
  rw [show netIsV4 = (fun n => famOfNet? n == some true) from funext netIsV4_eq]
theorem allow6_eq (r : Rule) : allow6 r = netsAllow r false := by
  unfold allow6 netsAllow
  rw [show netIsV6 = (fun n => famOfNet? n == some false) from funext netIsV6_eq]
theorem effType_eq (r : Rule) : effType r = docType r := rfl
theorem effMode_eq (r : Rule) : effMode r = docMode r := by
  unfold effMode docMode defaultMode
  rw [effType_eq]
  by_cases h : r.mode = 0
  · simp only [h, if_true, ne_eq, not_true_eq_false, if_false]
    unfold docType
    by_cases h2 : r.ctype = 0
    · simp [h2]
    · simp only [h2, if_false]
      by_cases h3 : r.ctype = 1 <;> simp [h2, h3]
  · simp [h]
theorem extIPs_eq (r : Rule) : extIPs r = externals r := by
  unfold extIPs externals
  congr 1

/-! ## One rule: compiled form vs. as-coded documentation -/

/-- `added = false` in `addExternalMappings` ⇔ every external is targeted at a family that is not allowed. -/
theorem starvedAll_eq (a4 a6 : Bool) (cidr : Option CIDR) (exts : List IP) :
    ((soleFor a4 a6 cidr exts true).isEmpty && (soleFor a4 a6 cidr exts false).isEmpty)
      = exts.all (fun e => !(isFamilyAllowed a4 a6 (targetFam cidr e))) := by
  unfold soleFor
  induction exts with
  | nil => rfl
  | cons e es ih =>
    simp only [List.filter_cons, List.all_cons]
    rw [← ih]
    cases targetFam cidr e <;> cases a4 <;> cases a6 <;> simp [isFamilyAllowed]

theorem isFamilyAllowed_eq (r : Rule) (fam : Bool) :
    isFamilyAllowed (allow4 r) (allow6 r) fam = netsAllow r fam := by
  cases fam <;> simp [isFamilyAllowed, allow4_eq, allow6_eq]

theorem rank_eq (r : Rule) :
    rank r = if r.iface = "" then (if hasCIDR r then 1 else 0) else (if hasCIDR r then 3 else 2) := by
  unfold rank
  by_cases h1 : r.iface = ""
  · have hb : (r.iface != "") = false := by simp [h1]
    rw [hb]; cases hasCIDR r <;> simp [h1]
  · have hb : (r.iface != "") = true := by simp [h1]
    rw [hb]; cases hasCIDR r <;> simp [h1]

theorem rank_le (r : Rule) : rank r ≤ 3 := by
  rw [rank_eq]; (repeat' split) <;> omega

theorem spec_eq_rankF3 (r : Rule) (k : Key) :
    catchAllSpecificity r.iface (cidrOpt r).isSome k.iface = rankF3 r k := by
  have hc : (cidrOpt r).isSome = hasCIDR r := by
    unfold cidrOpt hasCIDR; cases r.cidr <;> rfl
  rw [hc]
  unfold catchAllSpecificity rankF3
  rw [rank_eq]
  by_cases h1 : r.iface = "" <;> by_cases h2 : k.iface = "" <;> cases hasCIDR r <;> simp [h1, h2]

/-- `ruleHit` on the compiled form of `r`, in terms of `r` itself. -/
def hitOf (r : Rule) (ip : IP) (iface : String) : Option Hit :=
  if r.iface ≠ "" ∧ r.iface ≠ iface then none
  else if cidrExcludes (cidrOpt r) ip then none
  else
    if (famMap r ip.v4).valid then
      mapHit (famMap r ip.v4) ip (effMode r) (catchAllSpecificity r.iface (cidrOpt r).isSome iface)
    else none

theorem buildRule_hit (r : Rule) (ip : IP) (iface : String) :
    (buildRule r).bind (fun p => ruleHit ip iface p.2) = hitOf r ip iface := by
  unfold buildRule hitOf
  by_cases hv : ((famMap r true).valid || (famMap r false).valid) = true
  · simp only [hv, if_true, Option.bind_some, ruleHit, ruleMappingForLookup]
    have hf : (if ip.v4 = true then famMap r true else famMap r false) = famMap r ip.v4 := by
      cases ip.v4 <;> simp
    simp only [hf]
    by_cases h1 : r.iface ≠ "" ∧ r.iface ≠ iface
    · simp [h1]
    · simp only [h1, if_false]
      generalize cidrExcludes (cidrOpt r) ip = cb
      cases cb
      · by_cases h3 : (famMap r ip.v4).valid = true
        · simp [h3]
        · simp [h3]
      · simp
  · simp only [hv, Option.bind_none]
    have hn : (famMap r ip.v4).valid = false := by
      simp only [Bool.or_eq_true, not_or, Bool.not_eq_true] at hv
      cases ip.v4 <;> simp [hv.1, hv.2]
    simp [hn]

theorem ifaceOK_iff (r : Rule) (k : Key) : ifaceOK r k = true ↔ ¬(r.iface ≠ "" ∧ r.iface ≠ k.iface) := by
  unfold ifaceOK
  by_cases h1 : r.iface = "" <;> by_cases h2 : r.iface = k.iface <;> simp [h1, h2]

theorem cidrOK_eq (r : Rule) (k : Key) : cidrOK r k = !cidrExcludes (cidrOpt r) k.ip := by
  unfold cidrOK cidrExcludes cidrOpt
  cases r.cidr <;> simp

theorem inScope_eq (r : Rule) (k : Key) (hct : docType r = k.ct) :
    inScope r k = (ifaceOK r k && !cidrExcludes (cidrOpt r) k.ip && isFamilyAllowed (allow4 r) (allow6 r) k.ip.v4) := by
  unfold inScope
  rw [cidrOK_eq, isFamilyAllowed_eq]
  simp [hct]

theorem hitS_type_mismatch (c : Clauses) (r : Rule) (k : Key) (h : docType r ≠ k.ct) : hitS c k r = none := by
  have : inScope r k = false := by unfold inScope; simp [h]
  unfold hitS isExplicit isCatchAllWith
  simp [this]

theorem hitOf_local (r : Rule) (k : Key) (l : IP) (hct : docType r = k.ct) (hl : r.loc = .ok l) :
    hitOf r k.ip k.iface = hitS asCodedClauses k r := by
  have hca : isCatchAllWith asCodedClauses r k = false := by
    unfold isCatchAllWith asCodedClauses f3Clauses catchAllIPs
    simp [hl]
  unfold hitOf hitS
  rw [hca]
  unfold isExplicit
  rw [inScope_eq r k hct]
  have hfm : famMap r k.ip.v4 = pinMap (allow4 r) (allow6 r) l (extIPs r) k.ip.v4 := by
    unfold famMap; rw [hl]
  rw [hfm, hl]
  by_cases h1 : r.iface ≠ "" ∧ r.iface ≠ k.iface
  · have : ifaceOK r k = false := by
      cases h : ifaceOK r k
      · rfl
      · exact absurd h1 ((ifaceOK_iff r k).mp h)
    simp [h1, this]
  · have hi : ifaceOK r k = true := (ifaceOK_iff r k).mpr h1
    simp only [h1, if_false, hi, Bool.true_and]
    cases hce : cidrExcludes (cidrOpt r) k.ip
    · simp only [Bool.false_eq_true, if_false, Bool.not_false, Bool.true_and]
      unfold pinMap
      by_cases hlk : l = k.ip
      · subst hlk
        cases ha : isFamilyAllowed (allow4 r) (allow6 r) k.ip.v4
        · simp [ha]
        · simp [ha, mapHit, pinLookup, extIPs_eq, effMode_eq]
      · have hne : (LocTok.ok l == LocTok.ok k.ip) = false := by simp [hlk]
        simp only [hne, Bool.and_false, Bool.false_eq_true, if_false]
        by_cases hc : (isFamilyAllowed (allow4 r) (allow6 r) l.v4 && l.v4 == k.ip.v4) = true
        · simp [hc, mapHit, pinLookup, hlk]
        · simp [hc]
    · simp

/-- What the mapping of family `fam` of a rule without `Local` offers: `none` = invalid. -/
def caAbs (a4 a6 : Bool) (cidr : Option CIDR) (exts : List IP) (fam : Bool) : Option (List IP) :=
  if exts.isEmpty then
    (if isFamilyAllowed a4 a6 fam then some [] else none)
  else if (soleFor a4 a6 cidr exts fam).isEmpty then none else some (soleFor a4 a6 cidr exts fam)

theorem catchAllMap_abs (a4 a6 : Bool) (cidr : Option CIDR) (exts : List IP) (fam : Bool) (m s : Nat) (ip : IP) :
    (if (catchAllMap a4 a6 cidr exts fam).valid then mapHit (catchAllMap a4 a6 cidr exts fam) ip m s else none)
      = (caAbs a4 a6 cidr exts fam).map (fun l => Hit.ca l m s) := by
  unfold catchAllMap caAbs
  by_cases h : exts.isEmpty = true
  · simp only [h, if_true]
    cases isFamilyAllowed a4 a6 fam <;> simp [mapHit, pinLookup]
  · simp only [h, if_false]
    by_cases h2 : (soleFor a4 a6 cidr exts fam).isEmpty = true
    · simp [h2]
    · simp [h2, mapHit, pinLookup]

/-- /repo d6a4f83: externals named, every one skipped (`added = false`) ⇒ neither family has a mapping (the rule
is not registered); the External list empty ⇒ every allowed family is a valid empty catch-all -/
theorem catchAllMap_starved (a4 a6 : Bool) (cidr : Option CIDR) (exts : List IP) (hne : exts ≠ [])
    (h : exts.all (fun e => !(isFamilyAllowed a4 a6 (targetFam cidr e))) = true) (fam : Bool) :
    catchAllMap a4 a6 cidr exts fam = {} := by
  have hs := starvedAll_eq a4 a6 cidr exts
  rw [h] at hs
  simp only [Bool.and_eq_true] at hs
  have : (soleFor a4 a6 cidr exts fam).isEmpty = true := by cases fam; exact hs.2; exact hs.1
  have hl : soleFor a4 a6 cidr exts fam = [] := List.isEmpty_iff.mp this
  unfold catchAllMap
  have he : exts.isEmpty = false := by cases exts; exact absurd rfl hne; rfl
  simp [he, hl]

theorem filterMap_isEmpty_of_all_some {α β : Type} (f : α → Option β) (l : List α)
    (h : l.any (fun t => (f t).isNone) = false) : (l.filterMap f).isEmpty = l.isEmpty := by
  cases l with
  | nil => rfl
  | cons t ts =>
    simp only [List.any_cons, Bool.or_eq_false_iff] at h
    cases hf : f t with
    | none => simp [hf] at h
    | some b => simp [List.filterMap_cons, hf]

theorem tokens_ext (r : Rule) (hv : tokensInvalid r = false) : (extIPs r).isEmpty = r.ext.isEmpty := by
  unfold tokensInvalid at hv
  simp only [Bool.or_eq_false_iff] at hv
  exact filterMap_isEmpty_of_all_some tokIP? r.ext hv.2

/-- every External string parsed ⇒ `extIPs r` is as long as the External list as given: the model's test
`(extIPs r).isEmpty` IS the code's `len(rule.External) == 0` wherever `catchAllMap` is reached -/
theorem extIPs_length (r : Rule) (hv : tokensInvalid r = false) : (extIPs r).length = r.ext.length := by
  unfold tokensInvalid at hv
  simp only [Bool.or_eq_false_iff] at hv
  have h := hv.2
  unfold extIPs
  generalize r.ext = l at h
  induction l with
  | nil => rfl
  | cons t ts ih =>
    simp only [List.any_cons, Bool.or_eq_false_iff] at h
    cases t with
    | ok ip => simp [List.filterMap_cons, tokIP?, ih h.2]
    | bad => simp [tokIP?] at h
    | blank => simp [tokIP?] at h

theorem hasCIDR_eq (r : Rule) : hasCIDR r = (cidrOpt r).isSome := by
  unfold cidrOpt hasCIDR; cases r.cidr <;> rfl

theorem caAbs_spec (r : Rule) (k : Key) (hl : r.loc = .none) (hv : tokensInvalid r = false)
    (hce : cidrExcludes (cidrOpt r) k.ip = false) :
    caAbs (allow4 r) (allow6 r) (cidrOpt r) (extIPs r) k.ip.v4
      = if isFamilyAllowed (allow4 r) (allow6 r) k.ip.v4 then catchAllIPs r k else none := by
  have hext := tokens_ext r hv
  unfold caAbs catchAllIPs
  rw [hl, hasCIDR_eq, ← extIPs_eq, ← hext]
  cases he : (extIPs r).isEmpty with
  | true => cases isFamilyAllowed (allow4 r) (allow6 r) k.ip.v4 <;> simp
  | false =>
    simp only [Bool.false_eq_true, if_false]
    cases hc : cidrOpt r with
    | none =>
      cases ha : isFamilyAllowed (allow4 r) (allow6 r) k.ip.v4
      · have : soleFor (allow4 r) (allow6 r) none (extIPs r) k.ip.v4 = [] := by
          unfold soleFor; simp [ha]
        simp [this]
      · have : soleFor (allow4 r) (allow6 r) none (extIPs r) k.ip.v4
            = (extIPs r).filter (fun e => e.v4 == k.ip.v4) := by
          unfold soleFor; simp [ha, targetFam]
        simp [this]
    | some c =>
      have hcv : c.v4 = k.ip.v4 := by
        unfold cidrExcludes at hce; rw [hc] at hce
        simp only [Bool.not_eq_false'] at hce
        unfold CIDR.contains at hce
        simp only [Bool.and_eq_true, beq_iff_eq] at hce
        exact hce.1
      cases ha : isFamilyAllowed (allow4 r) (allow6 r) k.ip.v4
      · have : soleFor (allow4 r) (allow6 r) (some c) (extIPs r) k.ip.v4 = [] := by
          unfold soleFor; simp [ha]
        simp [this]
      · have hs : soleFor (allow4 r) (allow6 r) (some c) (extIPs r) k.ip.v4 = extIPs r := by
          unfold soleFor; simp [ha, targetFam, hcv]
        have : extIPs r ≠ [] := by intro h; rw [h] at he; simp at he
        simp [hs, he, this]

theorem hitOf_catchAll (r : Rule) (k : Key) (hct : docType r = k.ct) (hl : r.loc = .none)
    (hv : tokensInvalid r = false) :
    hitOf r k.ip k.iface = hitS asCodedClauses k r := by
  have hex : isExplicit r k = false := by unfold isExplicit; simp [hl]
  unfold hitOf hitS
  rw [hex]
  unfold isCatchAllWith
  rw [inScope_eq r k hct]
  have hfm : famMap r k.ip.v4 = catchAllMap (allow4 r) (allow6 r) (cidrOpt r) (extIPs r) k.ip.v4 := by
    unfold famMap; rw [hl]
  rw [hfm]
  by_cases h1 : r.iface ≠ "" ∧ r.iface ≠ k.iface
  · have : ifaceOK r k = false := by
      cases h : ifaceOK r k
      · rfl
      · exact absurd h1 ((ifaceOK_iff r k).mp h)
    simp [h1, this]
  · have hi : ifaceOK r k = true := (ifaceOK_iff r k).mpr h1
    simp only [h1, if_false, hi, Bool.true_and]
    cases hce : cidrExcludes (cidrOpt r) k.ip
    · simp only [Bool.false_eq_true, if_false, Bool.not_false, Bool.true_and]
      rw [catchAllMap_abs, caAbs_spec r k hl hv hce, spec_eq_rankF3, effMode_eq]
      cases ha : isFamilyAllowed (allow4 r) (allow6 r) k.ip.v4
      · simp
      · simp only [if_true, Bool.true_and]
        show _ = if (asCodedClauses.caIPs r k).isSome = true then some (toCa asCodedClauses k r) else none
        have : asCodedClauses.caIPs r k = catchAllIPs r k := rfl
        rw [this]
        cases hq : catchAllIPs r k with
        | none => simp
        | some l => simp [toCa, this, hq, asCodedClauses, f3Clauses]
    · simp

/-- /repo d6a4f83 (F15 fixed): a starved rule that compiles is not registered. -/
theorem compileRule_starved (r : Rule) (hs : starved r = true) (o : Option (Nat × CRule))
    (h : compileRule r = .ok o) : o = none := by
  unfold starved at hs
  simp only [Bool.and_eq_true, beq_iff_eq, Bool.not_eq_true'] at hs
  obtain ⟨⟨⟨hl, hne⟩, hnc⟩, hall⟩ := hs
  unfold compileRule at h
  by_cases h3 : effType r = 3
  · simp [h3] at h
  · rw [if_neg h3] at h
    by_cases hin : (!allow4 r && !allow6 r) = true
    · rw [if_pos hin] at h; injection h with h; exact h.symm
    · rw [if_neg hin] at h
      by_cases hv : tokensInvalid r = true
      · rw [if_pos hv] at h; cases h
      · rw [if_neg hv] at h
        injection h with h
        subst h
        have hv' : tokensInvalid r = false := by simpa using hv
        have hc : cidrOpt r = none := by
          unfold hasCIDR at hnc
          unfold cidrOpt
          cases hcc : r.cidr <;> simp [hcc] at hnc ⊢
        have hex : extIPs r ≠ [] := by
          intro he
          have := tokens_ext r hv'
          rw [he, hne] at this
          simp at this
        have hall' : (extIPs r).all (fun e => !(isFamilyAllowed (allow4 r) (allow6 r) (targetFam none e))) = true := by
          rw [extIPs_eq]
          have : (fun e : IP => !(isFamilyAllowed (allow4 r) (allow6 r) (targetFam none e)))
              = (fun e : IP => !netsAllow r e.v4) := by
            funext e; simp [targetFam, isFamilyAllowed_eq]
          rw [this]; exact hall
        have hfm : ∀ fam, famMap r fam = {} := by
          intro fam
          unfold famMap
          rw [hl, hc]
          exact catchAllMap_starved _ _ _ _ hex hall' fam
        unfold buildRule
        rw [hfm true, hfm false]
        rfl

theorem tokens_loc_bad (r : Rule) (hl : r.loc = .bad) : tokensInvalid r = true := by
  unfold tokensInvalid; simp [hl]

/-- One rule: its compiled form contributes to a lookup exactly what the as-coded reading of the
documentation says. -/
theorem compileRule_hit (r : Rule) (o : Option (Nat × CRule)) (h : compileRule r = .ok o) (k : Key) :
    o.bind (fun p => if p.1 == k.ct then ruleHit k.ip k.iface p.2 else none) = hitS asCodedClauses k r := by
  unfold compileRule at h
  by_cases h3 : effType r = 3
  · simp [h3] at h
  · rw [if_neg h3] at h
    by_cases hin : (!allow4 r && !allow6 r) = true
    · rw [if_pos hin] at h
      injection h with h
      subst h
      -- inert rule: in scope of nothing
      have h4 : netsAllow r true = false := by rw [← allow4_eq]; simp at hin; exact hin.1
      have h6 : netsAllow r false = false := by rw [← allow6_eq]; simp at hin; exact hin.2
      have : inScope r k = false := by
        unfold inScope; cases k.ip.v4 <;> simp [h4, h6]
      unfold hitS isExplicit isCatchAllWith
      simp [this]
    · rw [if_neg hin] at h
      by_cases hv : tokensInvalid r = true
      · rw [if_pos hv] at h; cases h
      · rw [if_neg hv] at h
        injection h with h
        have hv' : tokensInvalid r = false := by simpa using hv
        subst h
        by_cases hct : docType r = k.ct
        · have hb : (buildRule r).bind (fun p => if p.1 == k.ct then ruleHit k.ip k.iface p.2 else none)
              = (buildRule r).bind (fun p => ruleHit k.ip k.iface p.2) := by
            unfold buildRule
            split
            · simp [effType_eq, hct]
            · rfl
          rw [hb, buildRule_hit]
          cases hl : r.loc with
          | none => exact hitOf_catchAll r k hct hl hv'
          | ok l => exact hitOf_local r k l hct hl
          | bad => rw [tokens_loc_bad r hl] at hv'; cases hv'
        · rw [hitS_type_mismatch _ r k hct]
          unfold buildRule
          split
          · have : (effType r == k.ct) = false := by rw [effType_eq]; simp [hct]
            simp only [Option.bind_some, this]
            rfl
          · rfl


/-! ## All rules -/

theorem rulesFor_append (a b : Mapper) (ct : Nat) : rulesFor (a ++ b) ct = rulesFor a ct ++ rulesFor b ct := by
  unfold rulesFor; simp

theorem filterMap_cons_toList {α β : Type} (f : α → Option β) (x : α) (xs : List α) :
    (x :: xs).filterMap f = (f x).toList ++ xs.filterMap f := by
  simp only [List.filterMap_cons]
  cases f x <;> simp

theorem rulesFor_toList_hit (o : Option (Nat × CRule)) (ct : Nat) (ip : IP) (iface : String) :
    (rulesFor o.toList ct).filterMap (ruleHit ip iface)
      = (o.bind (fun p => if p.1 == ct then ruleHit ip iface p.2 else none)).toList := by
  cases o with
  | none => rfl
  | some p =>
    unfold rulesFor
    by_cases h : (p.1 == ct) = true
    · have h' : p.1 = ct := by simpa using h
      simp only [h, h', List.filter_cons, List.filter_nil, if_true, List.map_cons, List.map_nil, Option.bind_some,
        beq_self_eq_true, Option.toList]
      cases hrh : ruleHit ip iface p.2 <;> simp [List.filterMap_cons, hrh]
    · have h' : ¬ p.1 = ct := by simpa using h
      simp [h, h']

/-- The hits of the compiled mapper for a key are the as-coded hits of the source rules, in order. -/
theorem compileAll_hits (rules : List Rule) (m : Mapper) (h : compileAll rules = .ok m) (k : Key) :
    (rulesFor m k.ct).filterMap (ruleHit k.ip k.iface) = rules.filterMap (hitS asCodedClauses k) := by
  induction rules generalizing m with
  | nil =>
    unfold compileAll at h
    injection h with h; subst h; rfl
  | cons r rs ih =>
    unfold compileAll at h
    cases hc : compileRule r with
    | error e => rw [hc] at h; cases h
    | ok o =>
      rw [hc] at h
      simp only [] at h
      cases hr : compileAll rs with
      | error e => rw [hr] at h; cases h
      | ok l =>
        rw [hr] at h
        injection h with h
        subst h
        rw [rulesFor_append, List.filterMap_append, rulesFor_toList_hit, compileRule_hit r o hc k,
          ih l hr, filterMap_cons_toList]

/-- THEOREM A. For every rule list that compiles and every key, the model's lookup equals the
documented precedence read with the two as-coded clauses. -/
theorem evaluate_eq_asCoded (rules : List Rule) (m : Mapper) (h : compileAll rules = .ok m) (k : Key) :
    evaluate (rulesFor m k.ct) k.ip k.iface = lookupWith asCodedClauses rules k := by
  rw [evaluate_eq_decl, compileAll_hits rules m h k, lookupWith_eq_decl]

/-! ## When the as-coded clauses are the documented ones -/

theorem filterMap_congr' {α β : Type} (f g : α → Option β) (l : List α) (h : ∀ x ∈ l, f x = g x) :
    l.filterMap f = l.filterMap g := by
  induction l with
  | nil => rfl
  | cons y ys ih =>
    simp only [List.filterMap_cons]
    rw [h y List.mem_cons_self, ih (fun x hx => h x (List.mem_cons_of_mem _ hx))]

theorem lookupWith_congr (c c' : Clauses) (rules : List Rule) (k : Key)
    (h : ∀ r ∈ rules, c.rank r k = c'.rank r k ∧ c.caIPs r k = c'.caIPs r k) :
    lookupWith c rules k = lookupWith c' rules k := by
  rw [lookupWith_eq_decl, lookupWith_eq_decl]
  congr 1
  apply filterMap_congr'
  intro r hr
  obtain ⟨h1, h2⟩ := h r hr
  unfold hitS isCatchAllWith toCa
  rw [h1, h2]

/-- B1: since /repo d6a4f83 (F15 fixed) the as-coded clauses ARE the F3 clauses, for every rule list. -/
theorem asCoded_eq_f3 (rules : List Rule) (k : Key) :
    lookupWith asCodedClauses rules k = lookupWith f3Clauses rules k := rfl

theorem find?_all_true {α : Type} (p : α → Bool) (l : List α) (h : ∀ x ∈ l, p x = true) :
    l.find? p = l.head? := by
  cases l with
  | nil => rfl
  | cons x xs => simp [List.find?_cons, h x List.mem_cons_self]

theorem rankF3_eq (r : Rule) (k : Key) :
    rankF3 r k = if r.iface = "" ∧ k.iface ≠ "" then 0 else rank r := by
  unfold rankF3
  by_cases h1 : r.iface = "" <;> by_cases h2 : k.iface = "" <;> simp [h1, h2]

theorem rank_ge2_iff (r : Rule) : 2 ≤ rank r ↔ r.iface ≠ "" := by
  rw [rank_eq]
  by_cases h : r.iface = "" <;> simp [h] <;> split <;> omega

/-- The F3 ranking picks the same rule as the documented ranking, outside the F3 shape. -/
theorem find_rankF3_eq (cs : List Rule) (k : Key)
    (hg : ¬(k.iface ≠ "" ∧ topRank docClauses k cs = 1 ∧ ∃ g, cs.head? = some g ∧ rank g = 0)) :
    cs.find? (fun r => rankF3 r k == topRank f3Clauses k cs)
      = cs.find? (fun r => rank r == topRank docClauses k cs) := by
  by_cases hk : k.iface = ""
  · have hpt : ∀ r ∈ cs, rankF3 r k = rank r := by
      intro r _; rw [rankF3_eq]; simp [hk]
    have ht : topRank f3Clauses k cs = topRank docClauses k cs := by
      unfold topRank; exact foldl_max_congr _ _ cs 0 hpt
    rw [ht]
    apply find?_congr'
    intro r hr; rw [hpt r hr]
  · have hF : ∀ r, rankF3 r k = if r.iface = "" then 0 else rank r := by
      intro r; rw [rankF3_eq]; simp [hk]
    have hT : ∀ r ∈ cs, rank r ≤ topRank docClauses k cs := fun r hr =>
      foldl_max_ge_mem (fun r => rank r) cs 0 r hr
    have hT3 : ∀ r ∈ cs, rankF3 r k ≤ topRank f3Clauses k cs := fun r hr =>
      foldl_max_ge_mem (fun r => rankF3 r k) cs 0 r hr
    by_cases h2 : 2 ≤ topRank docClauses k cs
    · -- an interface-scoped rule is present: both rankings agree on who is on top
      have ht : topRank f3Clauses k cs = topRank docClauses k cs := by
        apply Nat.le_antisymm
        · rcases foldl_max_attained (fun r => rankF3 r k) cs 0 with h0 | ⟨x, hx, hfx⟩
          · unfold topRank; simp only [f3Clauses]; rw [h0]; exact Nat.zero_le _
          · have : rankF3 x k ≤ rank x := by rw [hF]; split <;> omega
            have := hT x hx
            unfold topRank at *; simp only [f3Clauses, docClauses] at *; omega
        · rcases foldl_max_attained (fun r => rank r) cs 0 with h0 | ⟨x, hx, hfx⟩
          · unfold topRank at h2; simp only [docClauses] at h2; omega
          · have hx2 : 2 ≤ rank x := by unfold topRank at h2; simp only [docClauses] at h2; omega
            have hxi : x.iface ≠ "" := (rank_ge2_iff x).mp hx2
            have : rankF3 x k = rank x := by rw [hF]; simp [hxi]
            have := hT3 x hx
            unfold topRank at *; simp only [f3Clauses, docClauses] at *; omega
      rw [ht]
      apply find?_congr'
      intro r hr
      rw [hF]
      by_cases hri : r.iface = ""
      · have : rank r ≤ 1 := by
          by_cases hh : 2 ≤ rank r
          · exact absurd hri ((rank_ge2_iff r).mp hh)
          · omega
        simp only [hri, if_true]
        have h1 : (0 == topRank docClauses k cs) = false := by simp; omega
        have h3 : (rank r == topRank docClauses k cs) = false := by simp; omega
        rw [h1, h3]
      · simp [hri]
    · -- no interface-scoped rule: the F3 ranking is flat, the first candidate wins
      have hle : topRank docClauses k cs ≤ 1 := by omega
      have hflat : ∀ r ∈ cs, rankF3 r k = 0 := by
        intro r hr
        have : rank r ≤ 1 := Nat.le_trans (hT r hr) hle
        have hri : r.iface = "" := by
          by_cases h : r.iface = ""
          · exact h
          · have := (rank_ge2_iff r).mpr h; omega
        rw [hF]; simp [hri]
      have ht3 : topRank f3Clauses k cs = 0 := by
        rcases foldl_max_attained (fun r => rankF3 r k) cs 0 with h0 | ⟨x, hx, hfx⟩
        · exact h0
        · have := hflat x hx
          unfold topRank; simp only [f3Clauses]; omega
      rw [ht3, find?_all_true _ cs (fun r hr => by simp [hflat r hr])]
      cases cs with
      | nil => rfl
      | cons g rest =>
        have hg1 : rank g ≤ topRank docClauses k (g :: rest) := hT g List.mem_cons_self
        by_cases h0 : topRank docClauses k (g :: rest) = 0
        · have : rank g = 0 := by omega
          simp [List.find?_cons, this, h0]
        · have h1 : topRank docClauses k (g :: rest) = 1 := by omega
          have hg0 : rank g ≠ 0 := by
            intro hz
            exact hg ⟨hk, h1, g, rfl, hz⟩
          have : rank g = 1 := by omega
          simp [List.find?_cons, this, h1]

/-- B2: outside the F3 region the F3 ranking yields the documented result. -/
theorem f3_eq_documented (rules : List Rule) (k : Key) (h : f3Region rules k = false) :
    lookupWith f3Clauses rules k = documented rules k := by
  unfold documented lookupWith
  cases he : rules.find? (fun r => isExplicit r k) with
  | some r => rfl
  | none =>
    simp only []
    have hguard : ¬(k.iface ≠ "" ∧ topRank docClauses k (rules.filter (fun r => isCatchAllWith docClauses r k)) = 1
        ∧ ∃ g, (rules.filter (fun r => isCatchAllWith docClauses r k)).head? = some g ∧ rank g = 0) := by
      rintro ⟨h1, h2, g, h3, h4⟩
      unfold f3Region isCatchAll at h
      simp only [he, h3, h4, h2] at h
      simp [h1] at h
    have hf := find_rankF3_eq _ k hguard
    change (match (rules.filter (fun r => isCatchAllWith docClauses r k)).find?
        (fun r => rankF3 r k == topRank f3Clauses k (rules.filter (fun r => isCatchAllWith docClauses r k))) with
      | some r => ({ ips := (catchAllIPs r k).getD [], matched := true, mode := docMode r } : Res)
      | none => Res.noMatch) = _
    rw [hf]
    rfl

/-- THEOREM B. Outside the carved-out defect (F3) the as-coded reading IS the documentation. -/
theorem asCoded_eq_documented (rules : List Rule) (k : Key)
    (hf : f3Region rules k = false) :
    lookupWith asCodedClauses rules k = documented rules k := by
  rw [asCoded_eq_f3 rules k, f3_eq_documented rules k hf]

/-- With an interface name in the key and no interface-scoped candidate, the F3 ranking is flat:
the first candidate wins. -/
theorem find_rankF3_flat (cs : List Rule) (k : Key) (hk : k.iface ≠ "") (hle : topRank docClauses k cs ≤ 1) :
    cs.find? (fun r => rankF3 r k == topRank f3Clauses k cs) = cs.head? := by
  have hT : ∀ r ∈ cs, rank r ≤ topRank docClauses k cs := fun r hr =>
    foldl_max_ge_mem (fun r => rank r) cs 0 r hr
  have hflat : ∀ r ∈ cs, rankF3 r k = 0 := by
    intro r hr
    have : rank r ≤ 1 := Nat.le_trans (hT r hr) hle
    have hri : r.iface = "" := by
      by_cases h : r.iface = ""
      · exact h
      · have := (rank_ge2_iff r).mpr h; omega
    rw [rankF3_eq]; simp [hri, hk]
  have ht3 : topRank f3Clauses k cs = 0 := by
    rcases foldl_max_attained (fun r => rankF3 r k) cs 0 with h0 | ⟨x, hx, hfx⟩
    · exact h0
    · have := hflat x hx
      unfold topRank; simp only [f3Clauses]; omega
  rw [ht3, find?_all_true _ cs (fun r hr => by simp [hflat r hr])]

/-- Inside the F3 region: the code (F3 ranking) answers with the FIRST matching catch-all, a global
one, while the documentation demands the first CIDR-only one. -/
theorem f3_region_exact (rules : List Rule) (k : Key) (h : f3Region rules k = true) :
    ∃ g c, g ∈ rules ∧ c ∈ rules ∧ isCatchAll g k = true ∧ isCatchAll c k = true ∧ rank g = 0 ∧ rank c = 1 ∧
      lookupWith f3Clauses rules k = { ips := (catchAllIPs g k).getD [], matched := true, mode := docMode g } ∧
      documented rules k = { ips := (catchAllIPs c k).getD [], matched := true, mode := docMode c } := by
  unfold f3Region at h
  simp only [Bool.and_eq_true, bne_iff_ne, ne_eq, Option.isNone_iff_eq_none, beq_iff_eq] at h
  obtain ⟨⟨⟨hk, he⟩, hT⟩, hh⟩ := h
  generalize hcs : rules.filter (fun r => isCatchAll r k) = cs at hT hh
  cases cs with
  | nil => simp at hh
  | cons g rest =>
    simp only [List.head?_cons, beq_iff_eq] at hh
    have hgmem : g ∈ rules.filter (fun r => isCatchAll r k) := by rw [hcs]; exact List.mem_cons_self
    obtain ⟨hgr, hgc⟩ := List.mem_filter.mp hgmem
    -- the documented winner
    have hne : (g :: rest).find? (fun r => rank r == topRank docClauses k (g :: rest)) ≠ none := by
      intro hnone
      rcases foldl_max_attained (fun r => rank r) (g :: rest) 0 with h0 | ⟨x, hx, hfx⟩
      · unfold topRank at hT; simp only [docClauses] at hT; omega
      · have := List.find?_eq_none.mp hnone x hx
        apply this
        simp only [beq_iff_eq]
        unfold topRank; simp only [docClauses]; exact hfx
    cases hfc : (g :: rest).find? (fun r => rank r == topRank docClauses k (g :: rest)) with
    | none => exact absurd hfc hne
    | some c =>
      have hcr : rank c = 1 := by
        have := List.find?_some hfc
        simp only [beq_iff_eq] at this; omega
      have hcmem : c ∈ rules.filter (fun r => isCatchAll r k) := by
        rw [hcs]; exact List.mem_of_find?_eq_some hfc
      obtain ⟨hcr', hcc⟩ := List.mem_filter.mp hcmem
      refine ⟨g, c, hgr, hcr', hgc, hcc, hh, hcr, ?_, ?_⟩
      · unfold lookupWith
        rw [he]
        simp only []
        change (match (rules.filter (fun r => isCatchAll r k)).find?
            (fun r => rankF3 r k == topRank f3Clauses k (rules.filter (fun r => isCatchAll r k))) with
          | some r => ({ ips := (catchAllIPs r k).getD [], matched := true, mode := docMode r } : Res)
          | none => Res.noMatch) = _
        rw [hcs, find_rankF3_flat (g :: rest) k hk (by omega)]
        rfl
      · unfold documented lookupWith
        rw [he]
        simp only []
        change (match (rules.filter (fun r => isCatchAll r k)).find?
            (fun r => rank r == topRank docClauses k (rules.filter (fun r => isCatchAll r k))) with
          | some r => ({ ips := (catchAllIPs r k).getD [], matched := true, mode := docMode r } : Res)
          | none => Res.noMatch) = _
        rw [hcs, hfc]


end IceProofs.Rewrite
