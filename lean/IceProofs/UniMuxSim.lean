import IceProofs.UniMux
import IceSpec.C12Uni
/-!
The model of the universal mux against the monitor `IceSpec.C12Uni`: on every trace of the model the
monitor's base part (its `IceSpec.C12` history of the embedded mux) stays in the simulation relation `Sim`
with the embedded mux's state, and NO verdict is a clause of the base monitor — whatever the monitor
objects to on a model trace is a clause about the universal layer (`uni_consume` / `uni_both` /
`uni_answer`).
-/
namespace IceProofs.UniMux
open IceModel.UdpMux IceModel.UniMux IceProofs.UdpMux
open IceSpec.C12Uni (UState Verdict ofBase wokeV overdueV unansweredV noLearnV inboundV)

/-- the verdict is not a clause of the base monitor -/
def notBase : Verdict → Prop
  | .base _ => False
  | _ => True

theorem notBase_orElse (a b : Verdict) (ha : notBase a) (hb : notBase b) : notBase (a.orElse b) := by
  cases a with
  | ok => exact hb
  | base w => exact ha.elim
  | uni w => exact trivial

theorem notBase_ofBase_none : notBase (ofBase none) := trivial

theorem wokeV_base (s : UState) (l : List (Nat × WRes)) : (wokeV s l).1.base = s.base := by
  induction l generalizing s with
  | nil => rfl
  | cons p rest ih =>
    obtain ⟨w, r⟩ := p
    unfold wokeV
    exact ih _

theorem wokeV_notBase (s : UState) (l : List (Nat × WRes)) : notBase (wokeV s l).2 := by
  induction l generalizing s with
  | nil => exact trivial
  | cons p rest ih =>
    obtain ⟨w, r⟩ := p
    unfold wokeV
    refine notBase_orElse _ _ ?_ (ih _)
    split
    · trivial
    · split
      · trivial
      · cases r with
        | ok a => dsimp only []; split <;> trivial
        | timeout => dsimp only []; split <;> trivial
        | noMap => trivial
        | writeErr => trivial

theorem overdueV_notBase (s : UState) : notBase (overdueV s) := by
  unfold overdueV; split <;> trivial

theorem unansweredV_notBase (s : UState) (e : IceSpec.C12.EP) : notBase (unansweredV s e) := by
  unfold unansweredV; split <;> trivial

theorem noLearnV_notBase (fx : Fx) : notBase (noLearnV fx) := by
  unfold noLearnV; split <;> trivial

theorem recordedV_notBase (src : Addr) (v : Nat) (key : Addr) (v' : Nat) :
    notBase (IceSpec.C12Uni.recordedV src v key v') := by
  unfold IceSpec.C12Uni.recordedV
  split
  · trivial
  · split <;> trivial

theorem inboundV_notBase (s : UState) (src : Addr) (k : Kind) (x : XView) (o : Out) (fx : Fx)
    (h : IceSpec.C12.inboundVerdict s.base src k o = none) : notBase (inboundV s src k x o fx) := by
  unfold inboundV
  dsimp only []
  rw [h]
  split
  · split
    · split <;> trivial
    · refine notBase_orElse _ _ trivial ?_
      split
      · split <;> trivial
      · trivial
  · split
    · trivial
    · split
      · split
        · trivial
        · split
          · trivial
          · cases o <;> trivial
      · exact notBase_orElse _ _ trivial (recordedV_notBase _ _ _ _)

theorem baseStep_inbound_snd (s : IceSpec.C12.SState) (src : Addr) (k : Kind) (pid : Nat) (o : Out) :
    (IceSpec.C12.step s (.inbound src k pid) o).2 = IceSpec.C12.inboundVerdict s src k o := by
  cases o <;> rfl

/-! ## the monitor's step, by kind of operation -/

/-- the discovery calls and the clock: the base history is untouched, the verdict is about the layer -/
theorem mstep_xorStart (s : UState) (srv : Addr) (d : Nat) (o : UOut) :
    (IceSpec.C12Uni.step s (.xorStart srv d) o).1.base = s.base ∧ notBase (IceSpec.C12Uni.step s (.xorStart srv d) o).2 := by
  obtain ⟨main, fx⟩ := o
  cases main with
  | started w sent =>
    unfold IceSpec.C12Uni.step
    dsimp only []
    refine ⟨by rw [wokeV_base], ?_⟩
    refine notBase_orElse _ _ (by split <;> trivial) (notBase_orElse _ _ (noLearnV_notBase fx)
      (notBase_orElse _ _ (wokeV_notBase _ _) (overdueV_notBase _)))
  | base o => exact ⟨rfl, trivial⟩
  | ticked => exact ⟨rfl, trivial⟩

theorem mstep_tick (s : UState) (dt : Nat) (o : UOut) :
    (IceSpec.C12Uni.step s (.tick dt) o).1.base = s.base ∧ notBase (IceSpec.C12Uni.step s (.tick dt) o).2 := by
  obtain ⟨main, fx⟩ := o
  cases main with
  | ticked =>
    unfold IceSpec.C12Uni.step
    dsimp only []
    refine ⟨by rw [wokeV_base], ?_⟩
    exact notBase_orElse _ _ (noLearnV_notBase fx) (notBase_orElse _ _ (wokeV_notBase _ _) (overdueV_notBase _))
  | base o => exact ⟨rfl, trivial⟩
  | started w sent => exact ⟨rfl, trivial⟩

theorem mstep_inbound (s : UState) (src : Addr) (k : Kind) (x : XView) (pid : Nat) (o : Out) (fx : Fx) :
    (IceSpec.C12Uni.step s (.inbound src k x pid) { main := .base o, fx := fx }).1.base
        = (IceSpec.C12.step s.base (.inbound src k pid) o).1
    ∧ ((IceSpec.C12.step s.base (.inbound src k pid) o).2 = none →
        notBase (IceSpec.C12Uni.step s (.inbound src k x pid) { main := .base o, fx := fx }).2) := by
  unfold IceSpec.C12Uni.step
  dsimp only []
  constructor
  · rw [wokeV_base]
    split <;> rfl
  · intro h
    rw [baseStep_inbound_snd] at h
    refine notBase_orElse _ _ (inboundV_notBase s src k x o fx h) (notBase_orElse _ _ (wokeV_notBase _ _)
      (notBase_orElse _ _ ?_ (overdueV_notBase _)))
    split
    · exact unansweredV_notBase _ _
    · trivial

theorem mstep_getConnForURL (s : UState) (u url : Name) (v6 : Bool) (o : Out) (fx : Fx) :
    (IceSpec.C12Uni.step s (.getConnForURL u url v6) { main := .base o, fx := fx }).1.base
        = (IceSpec.C12.step s.base (.getConn (u ++ url) v6) o).1
    ∧ ((IceSpec.C12.step s.base (.getConn (u ++ url) v6) o).2 = none →
        notBase (IceSpec.C12Uni.step s (.getConnForURL u url v6) { main := .base o, fx := fx }).2) := by
  unfold IceSpec.C12Uni.step
  dsimp only []
  constructor
  · rw [wokeV_base]
  · intro h
    rw [h]
    exact notBase_orElse _ _ trivial (notBase_orElse _ _ (noLearnV_notBase fx)
      (notBase_orElse _ _ (wokeV_notBase _ _) (overdueV_notBase _)))

theorem mstep_base (s : UState) (op : Op) (o : Out) (fx : Fx) :
    (IceSpec.C12Uni.step s (.base op) { main := .base o, fx := fx }).1.base = (IceSpec.C12.step s.base op o).1
    ∧ ((IceSpec.C12.step s.base op o).2 = none →
        notBase (IceSpec.C12Uni.step s (.base op) { main := .base o, fx := fx }).2) := by
  unfold IceSpec.C12Uni.step
  dsimp only []
  constructor
  · rw [wokeV_base]
  · intro h
    refine notBase_orElse _ _ ?_ (notBase_orElse _ _ (wokeV_notBase _ _) (overdueV_notBase _))
    cases op with
    | inbound src k pid =>
      dsimp only []
      split
      · rw [baseStep_inbound_snd] at h
        exact inboundV_notBase s src k _ o fx h
      · rw [h]; trivial
    | getConn u v6 => dsimp only []; rw [h]; exact notBase_orElse _ _ trivial (noLearnV_notBase fx)
    | writeTo hh dst => dsimp only []; rw [h]; exact notBase_orElse _ _ trivial (noLearnV_notBase fx)
    | removeByUfrag u => dsimp only []; rw [h]; exact notBase_orElse _ _ trivial (noLearnV_notBase fx)
    | closeHandle hh => dsimp only []; rw [h]; exact notBase_orElse _ _ trivial (noLearnV_notBase fx)
    | watcherRun c => dsimp only []; rw [h]; exact notBase_orElse _ _ trivial (noLearnV_notBase fx)
    | closeMux => dsimp only []; rw [h]; exact notBase_orElse _ _ trivial (noLearnV_notBase fx)
    | read hh => dsimp only []; rw [h]; exact notBase_orElse _ _ trivial (noLearnV_notBase fx)

/-! ## the model's outputs -/

theorem uout_eta (o : UOut) : o = { main := o.main, fx := o.fx } := rfl

theorem step_main_base (m : UMux) (op : Op) :
    (IceModel.UniMux.step m (.base op)).2.main = .base (IceModel.UdpMux.step m.base op).2 := by
  cases op with
  | inbound src k pid => exact inbound_main m src k _ pid
  | getConn u v6 => rfl
  | writeTo h dst => rfl
  | removeByUfrag u => rfl
  | closeHandle h => rfl
  | watcherRun c => rfl
  | closeMux => rfl
  | read h => rfl

theorem base_run_one (b : Mux) (op : Op) : (IceModel.UdpMux.run b [op]).1 = (IceModel.UdpMux.step b op).1 := rfl

/-- one step of the model against one step of the monitor -/
theorem usim_step (m : UMux) (s : UState) (hi : Inv m.base) (hs : Sim m.base s.base) (op : UOp) :
    Sim (IceModel.UniMux.step m op).1.base (IceSpec.C12Uni.step s op (IceModel.UniMux.step m op).2).1.base
    ∧ notBase (IceSpec.C12Uni.step s op (IceModel.UniMux.step m op).2).2 := by
  cases op with
  | base op =>
    obtain ⟨h1, h2⟩ := sim_step m.base s.base hi hs op
    rw [step_base]
    have hm := step_main_base m op
    generalize (IceModel.UniMux.step m (.base op)).2 = O at hm ⊢
    obtain ⟨main, fx⟩ := O
    dsimp only [] at hm
    subst hm
    obtain ⟨k1, k2⟩ := mstep_base s op (IceModel.UdpMux.step m.base op).2 fx
    rw [k1]
    exact ⟨h1, k2 h2⟩
  | inbound src k x pid =>
    obtain ⟨h1, h2⟩ := sim_step m.base s.base hi hs (.inbound src k pid)
    rw [step_base]
    have hm : (IceModel.UniMux.step m (.inbound src k x pid)).2.main = .base (IceModel.UdpMux.step m.base (.inbound src k pid)).2 :=
      inbound_main m src k x pid
    generalize (IceModel.UniMux.step m (.inbound src k x pid)).2 = O at hm ⊢
    obtain ⟨main, fx⟩ := O
    dsimp only [] at hm
    subst hm
    obtain ⟨k1, k2⟩ := mstep_inbound s src k x pid (IceModel.UdpMux.step m.base (.inbound src k pid)).2 fx
    rw [k1]
    exact ⟨h1, k2 h2⟩
  | getConnForURL u url v6 =>
    obtain ⟨h1, h2⟩ := sim_step m.base s.base hi hs (.getConn (u ++ url) v6)
    rw [step_base]
    obtain ⟨k1, k2⟩ := mstep_getConnForURL s u url v6 (IceModel.UdpMux.step m.base (.getConn (u ++ url) v6)).2 {}
    exact ⟨by rw [show (IceModel.UniMux.step m (.getConnForURL u url v6)).2
                  = { main := .base (IceModel.UdpMux.step m.base (.getConn (u ++ url) v6)).2, fx := {} } from rfl, k1]; exact h1,
           k2 h2⟩
  | xorStart srv d =>
    rw [step_base]
    obtain ⟨k1, k2⟩ := mstep_xorStart s srv d (IceModel.UniMux.step m (.xorStart srv d)).2
    rw [k1]
    exact ⟨hs, k2⟩
  | tick dt =>
    rw [step_base]
    obtain ⟨k1, k2⟩ := mstep_tick s dt (IceModel.UniMux.step m (.tick dt)).2
    rw [k1]
    exact ⟨hs, k2⟩

theorem inv_ustep (m : UMux) (hi : Inv m.base) (op : UOp) : Inv (IceModel.UniMux.step m op).1.base := by
  rw [step_base]
  cases op with
  | base op => exact inv_step _ hi op
  | inbound src k x pid => exact inv_step _ hi (.inbound src k pid)
  | getConnForURL u url v6 => exact inv_step _ hi (.getConn (u ++ url) v6)
  | xorStart srv d => exact hi
  | tick dt => exact hi

/-- every run of the model: invariants, simulation of the embedded mux, and no base clause -/
theorem usim_run (ops : List UOp) : ∀ (m : UMux) (s : UState), Inv m.base → Sim m.base s.base →
    Inv (IceModel.UniMux.run m ops).1.base
    ∧ Sim (IceModel.UniMux.run m ops).1.base (IceSpec.C12Uni.stateAfter s (IceModel.UniMux.run m ops).2).base
    ∧ ∀ v ∈ IceSpec.C12Uni.verdicts s (IceModel.UniMux.run m ops).2, notBase v := by
  induction ops with
  | nil => intro m s hi hs; exact ⟨hi, hs, by simp [IceModel.UniMux.run, IceSpec.C12Uni.verdicts]⟩
  | cons op ops ih =>
    intro m s hi hs
    rw [run_cons]
    obtain ⟨h1, h2⟩ := usim_step m s hi hs op
    obtain ⟨i1, i2, i3⟩ := ih _ _ (inv_ustep m hi op) h1
    refine ⟨i1, i2, ?_⟩
    intro v hv
    simp only [IceSpec.C12Uni.verdicts, List.mem_cons] at hv
    rcases hv with hv | hv
    · rw [hv]; exact h2
    · exact i3 v hv

end IceProofs.UniMux
