import IceProofs.Sys2C01LiveDisc3
/-!
# C01 liveness, layer 21 — the controlled agent converges through its OWN retransmission (quiet network; round 4, (b))

The controlling agent `c` is selected, the controlled agent `d = !c` is not, and `d`'s nomination-triggered check was
LOST (`NomSeenD ∧ ¬ DPYD`, excluded by `ReadyF`).  On a quiet network nothing happens until `d`'s timer fires; that tick
re-sends the check on the pair marked `nomOnSuccess` (`cld_tick_ping_pend`), which is `DPY` in the state after the
advance, and `converge_fair_from` takes over from there.
-/
namespace IceProofs.C01Live
open IceModel.AgentCore IceModel.Sys2 IceProofs.Sys2Run IceProofs.C01 IceProofs.Agent IceProofs.C03

section
variable {T0 H T t : Nat} {a : Agent}

/-- `cld_tick_ping` with the transaction: stamped with the time `t` the tick was due, it survives the catch-up ticks -/
theorem cld_tick_ping_pend (hg : Good T0 H a) (hT : T ≤ H) (htk : a.nextTick = some t) (hle : t ≤ T) (hc : a.controlling = false)
    (hs : a.selected = none) (hy : T - t < maxBindingRequestTimeout)
    {p0 : Pair} (hp0 : p0 ∈ a.checklist) (hst : p0.state = .waiting ∨ p0.state = .inProgress)
    (hb : p0.reqCount ≤ a.cfg.maxBindingRequests) {l r : Cand} (hl : a.localOf p0.l = some l) (hr : a.remoteOf p0.r = some r) :
    ∃ m, Out.dgram l.addr r.addr m ∈ (step a (.advance T)).2 ∧ IsReq a false m ∧
      (step a (.advance T)).1.pending.find? (·.tid == m.tid) = some (pendOf m.tid l.addr r.addr r.net false t) := by
  obtain ⟨x, e1, e2, _⟩ := tick_eq hg (Nat.le_trans hle hT) htk
  obtain ⟨m, q1, q2, q3⟩ := pingAll_emits (withCS a x) t ⟨hg.linv.ids.le, hg.linv.ids.uniq⟩ hg.linv.pendOK p0 hp0 hst hb l r hl hr
  obtain ⟨j1, j2, _, _⟩ := jump_split hg hT htk hle
  refine ⟨m, j1 _ ?_, q2.of_withCS, j2.pend _ _ ?_ hy (by simp)⟩
  · rw [e1, cc_cld (withCS a x) t hc hg.full hs]; exact q1
  · rw [e2, cc_cld (withCS a x) t hc hg.full hs]; exact q3

end

section
variable {nat blocked : List (Nat × Nat)} {SLA SLB SR : Nat → Prop} {liteA liteB : Bool} {T0 H J L : Nat} {c : Bool}

/-- a quiet network up to the controlled agent's tick -/
structure QuietC (c : Bool) (td : Nat) (s : Sys) : Prop where
  und : ∀ dg ∈ s.inflight, Undeliv s dg
  tick : (s.agent (!c)).nextTick = some td
  now : s.now ≤ td

/-- **nothing happens before the advance that reaches the controlled agent's tick** -/
theorem quiet_prefix {s : Sys} {es : List SysEv} {td tc : Nat} (h : FInv nat blocked SLA SLB SR liteA liteB T0 H J c s)
    (hs : SufOK c H J s es) (w : QuietC c td s) (htc : (s.agent c).nextTick = some tc) (hle : td ≤ tc)
    (hend : td < (Sys.runs s es).now) :
    ∃ e1 T e2, es = e1 ++ SysEv.advance T :: e2 ∧ (∀ x, (Sys.runs s e1).agent x = s.agent x) ∧ SameNet s (Sys.runs s e1) ∧
      (Sys.runs s e1).now ≤ T ∧ td ≤ T ∧ T ≤ tc + J ∧ T ≤ H := by
  induction es generalizing s with
  | nil => exact absurd hend (by have := w.now; show ¬ td < s.now; omega)
  | cons e es ih =>
    have step_of : ∀ s', Sys.run s e = s' → (∀ x, s'.agent x = s.agent x) → SameNet s s' →
        FInv nat blocked SLA SLB SR liteA liteB T0 H J c s' → QuietC c td s' →
        ∃ e1 T e2, e :: es = e1 ++ SysEv.advance T :: e2 ∧ (∀ x, (Sys.runs s e1).agent x = s.agent x) ∧
          SameNet s (Sys.runs s e1) ∧ (Sys.runs s e1).now ≤ T ∧ td ≤ T ∧ T ≤ tc + J ∧ T ≤ H := by
      intro s' hrun hag hnet h' w'
      have hend' : td < (Sys.runs (Sys.run s e) es).now := hend
      have hs2 := hs.2
      rw [hrun] at hend' hs2
      obtain ⟨e1, T, e2, q1, q2, q3, q4⟩ := ih h' hs2 w' (by rw [hag c]; exact htc) hend'
      refine ⟨e :: e1, T, e2, by rw [q1]; rfl, ?_, ?_, ?_⟩
      · intro x
        show (Sys.runs (Sys.run s e) e1).agent x = _
        rw [hrun, q2 x, hag x]
      · show SameNet s (Sys.runs (Sys.run s e) e1)
        rw [hrun]
        exact ⟨q3.1.trans hnet.1, q3.2.1.trans hnet.2.1, fun x => (q3.2.2 x).trans (hnet.2.2 x)⟩
      · show (Sys.runs (Sys.run s e) e1).now ≤ T ∧ _
        rw [hrun]; exact q4
    rcases ev_view hs.1 with e' | ⟨k, keep, hd, hk, e'⟩ | ⟨T, t1, hev, hleT, hH, ht1, hT, e'⟩
    · exact step_of s e' (fun _ => rfl) ⟨rfl, rfl, fun _ => rfl⟩ h w
    · obtain ⟨h1, eff, _⟩ := h.deliver keep hk
      rw [← e'] at h1 eff
      have hmem : hd ∈ s.inflight := List.mem_of_getElem? hk
      rcases eff.cases with ⟨hfl, hag, _⟩ | ⟨y, m, _, hown, hnb, _⟩
      · have hu : ∀ y, (Sys.run s e).unmapped y = s.unmapped y := fun y => by simp [Sys.unmapped, eff.net.1]
        refine step_of _ rfl hag eff.net h1 ⟨?_, by rw [hag (!c)]; exact w.tick, by rw [eff.now]; exact w.now⟩
        intro dg hdg
        rw [hfl] at hdg
        have := w.und dg (mem_of_mem_restOf hdg)
        unfold Undeliv at this ⊢
        rw [eff.net.2.1, eff.net.2.2, hu]
        exact this
      · rcases w.und hd hmem with hw | hw
        · exact absurd hw hnb
        · rw [hown] at hw; cases hw
    · rw [htc] at ht1
      cases ht1
      rcases Nat.lt_or_ge T td with hlt | hge
      · obtain ⟨h1, eff, _, _, _⟩ := h.advance hleT hH htc hT
        rw [← e'] at h1 eff
        have hu : ∀ y, (Sys.run s e).unmapped y = s.unmapped y := fun y => by simp [Sys.unmapped, eff.net.1]
        have hdq : step (s.agent (!c)) (.advance T) = (s.agent (!c), []) := step_advance_early (h.ok.good (!c)) w.tick hlt
        have hcq : step (s.agent c) (.advance T) = (s.agent c, []) := step_advance_early (h.ok.good c) htc (by omega)
        have hab : step s.a (.advance T) = (s.a, []) ∧ step s.b (.advance T) = (s.b, []) := by
          cases c
          · exact ⟨hcq, hdq⟩
          · exact ⟨hdq, hcq⟩
        have hfl : (Sys.run s e).inflight = s.inflight := by
          rw [eff.flight, hab.1, hab.2]
          simp [dgramsOf]
        have hag : ∀ x, (Sys.run s e).agent x = s.agent x := by
          intro x
          rw [eff.agent x]
          by_cases hx : x = c
          · subst hx; rw [hcq]
          · rw [bool_ne_eq_not hx, hdq]
        refine step_of _ rfl hag eff.net h1 ⟨?_, by rw [hag (!c)]; exact w.tick, by rw [eff.now]; exact Nat.le_of_lt hlt⟩
        intro dg hdg
        rw [hfl] at hdg
        have := w.und dg hdg
        unfold Undeliv at this ⊢
        rw [eff.net.2.1, eff.net.2.2, hu]
        exact this
      · subst hev
        exact ⟨[], T, es, rfl, fun _ => rfl, ⟨rfl, rfl, fun _ => rfl⟩, hleT, hge, hT, hH⟩

theorem Slot.adv {T : Nat} {s s' : Sys} (h : SysOK nat blocked SLA SLB SR liteA liteB T0 H c s) (he : AdvEffect T0 T s s')
    {x : Bool} {la ra : Nat} {nomOn : Bool} (hsl : Slot s x la ra nomOn) : Slot s' x la ra nomOn := by
  obtain ⟨l, r, p, h1, h2, h3, h4⟩ := hsl
  obtain ⟨l', hl', el⟩ := (he.lk x).localByAddr h1
  obtain ⟨r', hr', er⟩ := (he.lk x).findRemote h2
  obtain ⟨p', hp', kp⟩ := (he.lk x).findPair (endsOK_of_c06 (h.c06 x) (h.good x).open_) el er.key h3
  exact ⟨l', r', p', hl', hr', hp', fun hn => (h4 hn).elim
    (fun hm => (kp.nomOn hm).imp (fun y => y) (fun f => f (h.good x).linv)) (fun hs => Or.inr ((he.lk x).sel hs))⟩

/-- the quiet start of a retransmission: `c` selected, `d` not; `d`'s pair `la → ra` on a `Link`, marked `nomOnSuccess`,
under budget; nothing deliverable in flight -/
structure RetxW (c : Bool) (la ra td : Nat) (s : Sys) : Prop where
  q : QuietC c td s
  selC : Sel s c
  selD : (s.agent (!c)).selected = none
  link : Link s (!c) la ra
  slot : Slot s (!c) la ra true
  pair : ∃ p ∈ (s.agent (!c)).checklist, (p.state = .waiting ∨ p.state = .inProgress) ∧
    p.reqCount ≤ (s.agent (!c)).cfg.maxBindingRequests ∧
    ∃ l r, (s.agent (!c)).localOf p.l = some l ∧ (s.agent (!c)).remoteOf p.r = some r ∧ l.addr = la ∧ r.addr = ra

/-- **convergence through the controlled agent's own retransmission** -/
theorem retx_converge {s : Sys} {es : List SysEv} {la ra td tc : Nat} (h : FInv nat blocked SLA SLB SR liteA liteB T0 H J c s)
    (hs : SufOK c H J s es) (hf : FairL L s es) (hL : J + 2 * L < maxBindingRequestTimeout) (hJ : J + 2 * L < 2000000000)
    (w : RetxW c la ra td s) (htc : (s.agent c).nextTick = some tc) (hle : td ≤ tc)
    (hend : validBound c L J (tc + J) s < (Sys.runs s es).now) :
    ∀ x, Sel (Sys.runs s es) x ∧ ((Sys.runs s es).agent x).connState = .connected := by
  have hmb : maxBindingRequestTimeout = 4000000000 := rfl
  obtain ⟨tc', htc', l1, l2⟩ := h.tick
  rw [htc] at htc'; cases htc'
  have hmax := Nat.le_max_left (tc + J) (nomTime c s)
  have hendtd : td < (Sys.runs s es).now := by unfold validBound at hend; omega
  obtain ⟨e1, T, e2, q1, hag, hnet, hn1, hge, hTJ, hTH⟩ := quiet_prefix h hs w.q htc hle hendtd
  subst q1
  obtain ⟨h1, h2, hs2, hrun⟩ := split_ev h hs
  have hagd : (Sys.runs s e1).agent (!c) = s.agent (!c) := hag (!c)
  have htc1 : ((Sys.runs s e1).agent c).nextTick = some tc := by rw [hag c]; exact htc
  obtain ⟨_, eff, _, _, _⟩ := h1.advance hn1 hTH htc1 hTJ
  have hnowd := w.q.now
  have hy : T - td < maxBindingRequestTimeout := by omega
  obtain ⟨p, hp, hst, hb, l, r, hl, hr, ela, era⟩ := w.pair
  have hgd := h1.ok.good (!c)
  have hctl : ((Sys.runs s e1).agent (!c)).controlling = false := by rw [h1.ok.paired.role]; cases c <;> rfl
  obtain ⟨m, hout, hreq, hpend⟩ := cld_tick_ping_pend hgd hTH (by rw [hagd]; exact w.q.tick) hge hctl
    (by rw [hagd]; exact w.selD) hy (by rw [hagd]; exact hp) hst (by rw [hagd]; exact hb)
    (by rw [hagd]; exact hl) (by rw [hagd]; exact hr)
  have hrnet : r.net = 0 := by
    have hr' : ((Sys.runs s e1).agent (!c)).remoteOf p.r = some r := by rw [hagd]; exact hr
    exact (hgd.linv.remOK.1 r (remoteOf_mem hr')).1
  rw [ela, era] at hout hpend
  have hslot1 : Slot (Sys.runs s e1) (!c) la ra true := by unfold Slot; rw [hagd]; exact w.slot
  have hob : Ob ((Sys.runs s e1).advance T).1 (!c) m.tid la ra false true td :=
    ⟨eff.net.link (hnet.link w.link), ⟨pendOf m.tid la ra r.net false td, by rw [eff.agent (!c)]; exact hpend, rfl, rfl, hrnet, rfl, rfl, rfl⟩,
      Slot.adv h1.ok eff hslot1, by rw [eff.now]; exact hy⟩
  have hin : ({ src := la, dst := ra, p := .stun m } : Dgram) ∈ ((Sys.runs s e1).advance T).1.inflight := by
    rw [eff.flight]
    have := mem_dgramsOf_of_dgram hout
    cases c
    · exact List.mem_append_right _ this
    · exact List.mem_append_left _ (List.mem_append_right _ this)
  have hdpy : DPY c L ((Sys.runs s e1).advance T).1 :=
    Or.inr ⟨m.tid, la, ra, td, Or.inr ⟨hob, _, hin, rfl, rfl, m, rfl, hreq.congr (eff.ids (!c)), rfl⟩, by rw [eff.now]; omega⟩
  have hsplit : e1 ++ SysEv.advance T :: e2 = (e1 ++ [SysEv.advance T]) ++ e2 := by simp
  have hs' : SufOK c H J s (e1 ++ [SysEv.advance T]) := by have := hs; rw [hsplit] at this; exact this.head
  have hr2 : Sys.runs s (e1 ++ [SysEv.advance T]) = ((Sys.runs s e1).advance T).1 := by rw [Sys.runs_append]; rfl
  have hsel2 : Sel ((Sys.runs s e1).advance T).1 c := by rw [← hr2]; exact sel_runs h hs' w.selC
  have hN : nomTime c ((Sys.runs s e1).advance T).1 = nomTime c s := by
    obtain ⟨st1, st2⟩ := static_runs h hs' c
    rw [hr2] at st1 st2
    unfold nomTime; rw [st1, st2]
  rw [hrun]
  refine converge_fair_from (B := tc + J) h2 hs2 hf.after_ev hL (fun _ => hdpy)
    (ValidBy.of_split (e1 := []) (e2 := e2) (Or.inr hsel2) (by show ((Sys.runs s e1).advance T).1.now ≤ _; rw [eff.now]; exact hTJ)) ?_
  rw [← hrun]
  unfold validBound at hend ⊢
  show max (tc + J) (nomTime c ((Sys.runs s e1).advance T).1) + _ + _ + _ < _
  rw [hN]
  exact hend

/-! ## the start condition -/

/-- `ReadyF` without the clause `¬ NomSeenD ∨ DPYD` (provenance of an existing selection of the controlling agent) -/
def ReadyF0 (pre : List SysEv) (c : Bool) (T0 H : Nat) (s : Sys) : Prop :=
  s.hasB = true ∧ (∀ x, (s.agent x).controlling = (x == c)) ∧
  (∀ x, (s.agent x).remoteUfrag = (s.agent (!x)).localUfrag) ∧ (∀ x, (s.agent x).remotePwd = (s.agent (!x)).localPwd) ∧
  s.a.localPwd ≠ s.b.localPwd ∧ Disj s ∧
  (∀ x, GoodD T0 H (s.agent x)) ∧
  (∀ d ∈ s.inflight, DgOKd s d) ∧ FilterOK s ∧
  PendAgreeD s c ∧
  T0 ≤ s.now ∧ s.now ≤ H ∧ TickSoon s.now (s.agent c) ∧
  (∀ la ∈ localAddrsOf c pre, ∀ x ∈ localAddrsOf c pre, (x, mappedL s.nat la) ∈ s.blocked) ∧
  (∀ x ∈ localAddrsOf (!c) pre, ((s.agent (!c)).localByAddr x).isSome = true)

instance (pre : List SysEv) (c : Bool) (T0 H : Nat) (s : Sys) : Decidable (ReadyF0 pre c T0 H s) := by
  unfold ReadyF0 Disj FilterOK
  infer_instance

theorem ReadyF.readyF0 {pre : List SysEv} {c : Bool} {T0 H L : Nat} {s : Sys} (h : ReadyF pre c T0 H L s) :
    ReadyF0 pre c T0 H s := by
  obtain ⟨r1, r2, r3, r4, r5, r6, r7, r8, r9, r10, _, r12, r13, r14, r15, r16⟩ := h
  exact ⟨r1, r2, r3, r4, r5, r6, r7, r8, r9, r10, r12, r13, r14, r15, r16⟩

/-- a reachable state satisfying `ReadyF0` satisfies the invariant of a fair suffix -/
theorem ready_finv0 {s0 : Sys} {pre : List SysEv} (hi : Sys.Init s0) (hf : FreshSel s0) (hs : LocalsSane s0.nat pre)
    {c : Bool} {T0 H J : Nat} (hr : ReadyF0 pre c T0 H (Sys.runs s0 pre))
    (hfuel : J < 99998 * Config.minInterval ((Sys.runs s0 pre).agent c).cfg) (hj : J < maxBindingRequestTimeout) :
    FInv s0.nat s0.blocked (SLof s0.nat pre false) (SLof s0.nat pre true) (SRof s0.nat pre) s0.a.cfg.lite s0.b.cfg.lite
      T0 H J c (Sys.runs s0 pre) := by
  obtain ⟨r1, r2, r3, r4, r5, r6, r7, r8, r9, r10, r12, r13, r14, r15, r16⟩ := hr
  obtain ⟨tn, tb, _⟩ := Sys.runs_topology s0 pre
  refine ⟨⟨reach_inv hi hs (fun e he => he), ⟨SLof_sane, SLof_SRof, ?_, ?_⟩, c06_runs (c06_init hi hf) pre,
    fun x => (r7 x).good, ⟨r1, r2, r3, r4, r5, r6⟩, fun d hd => (r8 d hd).ok, r9, r10.agree, r12, r13⟩, ?_, hfuel, hj⟩
  · intro la x hla hx
    have : ∀ y, (if c then SLof s0.nat pre true else SLof s0.nat pre false) y → y ∈ localAddrsOf c pre := by
      intro y hy; cases c <;> exact hy.2
    have := r15 la (this la hla) x (this x hx)
    rw [tn, tb] at this
    exact this
  · intro x hx
    have : x ∈ localAddrsOf (!c) pre := by cases c <;> exact hx.2
    exact r16 x this
  · unfold TickSoon at r14
    cases ht : ((Sys.runs s0 pre).agent c).nextTick with
    | none => rw [ht] at r14; exact r14.elim
    | some t => rw [ht] at r14; exact ⟨t, rfl, r14.1, r14.2⟩

/-- **the quiet start condition of a retransmission** (decidable): the controlling agent is selected, the controlled
agent `!c` is not; nothing in flight is deliverable (its nomination-triggered check was lost); its timer is due not later
than the controlling agent's; it has a pair Waiting / In-Progress within its request budget on a `Link`, and responses
on that route are looked up to a pair marked `nomOnSuccess` (`SlotD … true`) -/
def RetxD (c : Bool) (s : Sys) : Prop :=
  (∀ dg ∈ s.inflight, Undeliv s dg) ∧ Sel s c ∧ (s.agent (!c)).selected = none ∧
  (match (s.agent (!c)).nextTick, (s.agent c).nextTick with
    | some td, some tc => s.now ≤ td ∧ td ≤ tc
    | _, _ => False) ∧
  ∃ p ∈ (s.agent (!c)).checklist, (p.state = .waiting ∨ p.state = .inProgress) ∧
    p.reqCount ≤ (s.agent (!c)).cfg.maxBindingRequests ∧
    match (s.agent (!c)).localOf p.l, (s.agent (!c)).remoteOf p.r with
    | some l, some r => Link s (!c) l.addr r.addr ∧ SlotD s (!c) l.addr r.addr true
    | _, _ => False

instance (c : Bool) (s : Sys) : Decidable (RetxD c s) := by
  unfold RetxD
  refine @instDecidableAnd _ _ _ (@instDecidableAnd _ _ _ (@instDecidableAnd _ _ _ (@instDecidableAnd _ _ ?_ ?_)))
  · split <;> infer_instance
  · refine @List.decidableBEx _ _ (fun p => ?_) _
    refine @instDecidableAnd _ _ _ (@instDecidableAnd _ _ _ ?_)
    split <;> infer_instance

theorem retx_converge_D {s : Sys} {es : List SysEv} (h : FInv nat blocked SLA SLB SR liteA liteB T0 H J c s)
    (hs : SufOK c H J s es) (hf : FairL L s es) (hL : J + 2 * L < maxBindingRequestTimeout) (hJ : J + 2 * L < 2000000000)
    (hd : RetxD c s) (hend : validBound c L J (ctlTick c s + J) s < (Sys.runs s es).now) :
    ∀ x, Sel (Sys.runs s es) x ∧ ((Sys.runs s es).agent x).connState = .connected := by
  obtain ⟨h1, hsc, h2, h3, p, hp, hst, hb, h4⟩ := hd
  cases htd : (s.agent (!c)).nextTick with
  | none => rw [htd] at h3; exact h3.elim
  | some td =>
    cases htc : (s.agent c).nextTick with
    | none => rw [htd, htc] at h3; exact h3.elim
    | some tc =>
      rw [htd, htc] at h3
      have e : ctlTick c s = tc := by unfold ctlTick; rw [htc]; rfl
      rw [e] at hend
      cases hl : (s.agent (!c)).localOf p.l with
      | none => rw [hl] at h4; exact h4.elim
      | some l =>
        cases hr : (s.agent (!c)).remoteOf p.r with
        | none => rw [hl, hr] at h4; exact h4.elim
        | some r =>
          rw [hl, hr] at h4
          exact retx_converge h hs hf hL hJ ⟨⟨h1, htd, h3.1⟩, hsc, h2, h4.1, h4.2.slot, p, hp, hst, hb, l, r, hl, hr, rfl, rfl⟩
            htc h3.2 hend

end

end IceProofs.C01Live
