import IceProofs.AgentC07Inv
import IceProofs.AgentInboundData
/-!
# C07 data plane: `bestBy`, `Conn.Write`, `Conn.WriteToPair`, inbound payloads, `Conn.Read`

Exact effect of the four data-plane events of `step` on state and outputs.
-/
namespace IceProofs.AgentC07
open IceModel.AgentCore

/-! ## `bestBy`: highest priority among the admissible pairs, first in list order among equals -/

/-- `b` sits in `l`, is admissible, is strictly better than every admissible pair before it and at
least as good as every admissible pair after it. -/
def IsBest (prio : Pair → Nat) (ok : Pair → Bool) (l : List Pair) (b : Pair) : Prop :=
  ∃ pre post, l = pre ++ b :: post ∧ ok b = true ∧ (∀ p ∈ pre, ok p = true → prio p < prio b) ∧
    (∀ p ∈ post, ok p = true → prio p ≤ prio b)

/-- the loop body of `bestBy` -/
def bestStep (prio : Pair → Nat) (ok : Pair → Bool) (best : Option Pair) (p : Pair) : Option Pair :=
  if !ok p then best else
    match best with
    | none => some p
    | some b => if prio b < prio p then some p else some b

theorem bestBy_eq (a : Agent) (ok : Pair → Bool) :
    a.bestBy ok = a.checklist.foldl (bestStep a.pairPrio ok) none := rfl

def BestSpec (prio : Pair → Nat) (ok : Pair → Bool) (l : List Pair) : Option Pair → Prop
  | none => ∀ p ∈ l, ok p = false
  | some b => IsBest prio ok l b

theorem bestStep_spec (prio : Pair → Nat) (ok : Pair → Bool) (l : List Pair) (acc : Option Pair) (x : Pair)
    (h : BestSpec prio ok l acc) : BestSpec prio ok (l ++ [x]) (bestStep prio ok acc x) := by
  unfold bestStep
  by_cases hx : ok x = true
  · simp only [hx, Bool.not_true, Bool.false_eq_true, if_false]
    cases acc with
    | none =>
      refine ⟨l, [], rfl, hx, fun p hp hok => ?_, fun p hp => by cases hp⟩
      have := h p hp
      rw [this] at hok
      cases hok
    | some b =>
      obtain ⟨pre, post, e, hb, h1, h2⟩ := h
      dsimp only
      split
      · rename_i hlt
        refine ⟨l, [], rfl, hx, fun p hp hok => ?_, fun p hp => by cases hp⟩
        rw [e] at hp
        rcases List.mem_append.mp hp with hp | hp
        · exact Nat.lt_trans (h1 p hp hok) hlt
        · rcases List.mem_cons.mp hp with rfl | hp
          · exact hlt
          · exact Nat.lt_of_le_of_lt (h2 p hp hok) hlt
      · rename_i hge
        refine ⟨pre, post ++ [x], by rw [e]; simp, hb, h1, fun p hp hok => ?_⟩
        rcases List.mem_append.mp hp with hp | hp
        · exact h2 p hp hok
        · rw [List.mem_singleton.mp hp]; exact Nat.le_of_not_lt hge
  · have hx' : ok x = false := by simpa using hx
    simp only [hx', Bool.not_false, if_true]
    cases acc with
    | none =>
      intro p hp
      rcases List.mem_append.mp hp with hp | hp
      · exact h p hp
      · rw [List.mem_singleton.mp hp]; exact hx'
    | some b =>
      obtain ⟨pre, post, e, hb, h1, h2⟩ := h
      refine ⟨pre, post ++ [x], by rw [e]; simp, hb, h1, fun p hp hok => ?_⟩
      rcases List.mem_append.mp hp with hp | hp
      · exact h2 p hp hok
      · rw [List.mem_singleton.mp hp, hx'] at hok; cases hok

theorem foldl_bestStep_spec (prio : Pair → Nat) (ok : Pair → Bool) (l pre : List Pair) (acc : Option Pair)
    (h : BestSpec prio ok pre acc) : BestSpec prio ok (pre ++ l) (l.foldl (bestStep prio ok) acc) := by
  induction l generalizing pre acc with
  | nil => simpa using h
  | cons x l ih =>
    rw [List.foldl_cons]
    have := ih (pre ++ [x]) _ (bestStep_spec prio ok pre acc x h)
    simpa using this

/-- `bestBy ok` returns nothing iff no listed pair is admissible; otherwise the pair it returns is the
first pair of highest `pairPrio` among the admissible ones. -/
theorem bestBy_spec (a : Agent) (ok : Pair → Bool) : BestSpec a.pairPrio ok a.checklist (a.bestBy ok) := by
  rw [bestBy_eq]
  have := foldl_bestStep_spec a.pairPrio ok a.checklist [] none (fun p hp => by cases hp)
  simpa using this

/-- the characterisation determines the pair (as a position of the list): two witnesses coincide -/
theorem IsBest_unique {prio : Pair → Nat} {ok : Pair → Bool} {l : List Pair} {b b' : Pair}
    (h : IsBest prio ok l b) (h' : IsBest prio ok l b') : b = b' := by
  obtain ⟨pre, post, e, hb, h1, h2⟩ := h
  obtain ⟨pre', post', e', hb', h1', h2'⟩ := h'
  rw [e] at e'
  rcases List.append_eq_append_iff.mp e' with ⟨m, rfl, em⟩ | ⟨m, rfl, em⟩
  · -- pre' = pre ++ m
    cases m with
    | nil => simp at em; exact em.1
    | cons y m =>
      simp at em
      obtain ⟨rfl, rfl⟩ := em
      -- b ∈ pre', b' ∈ post
      have l1 := h1' b (List.mem_append_right _ List.mem_cons_self) hb
      have l2 := h2 b' (List.mem_append_right _ List.mem_cons_self) hb'
      omega
  · cases m with
    | nil => simp at em; exact em.1.symm
    | cons y m =>
      simp at em
      obtain ⟨rfl, rfl⟩ := em
      have l1 := h1 b' (List.mem_append_right _ List.mem_cons_self) hb'
      have l2 := h2' b (List.mem_append_right _ List.mem_cons_self) hb
      omega

theorem bestBy_eq_some_iff (a : Agent) (ok : Pair → Bool) (b : Pair) :
    a.bestBy ok = some b ↔ IsBest a.pairPrio ok a.checklist b := by
  have h := bestBy_spec a ok
  constructor
  · intro e; rw [e] at h; exact h
  · intro hb
    cases hbb : a.bestBy ok with
    | none =>
      rw [hbb] at h
      obtain ⟨pre, post, e, hok, _, _⟩ := hb
      have := h b (by rw [e]; exact List.mem_append_right _ List.mem_cons_self)
      rw [this] at hok; cases hok
    | some b' =>
      rw [hbb] at h
      rw [IsBest_unique h hb]

theorem bestBy_eq_none_iff (a : Agent) (ok : Pair → Bool) :
    a.bestBy ok = none ↔ ∀ p ∈ a.checklist, ok p = false := by
  have h := bestBy_spec a ok
  constructor
  · intro e; rw [e] at h; exact h
  · intro hn
    cases hbb : a.bestBy ok with
    | none => rfl
    | some b =>
      rw [hbb] at h
      obtain ⟨pre, post, e, hok, _, _⟩ := h
      have := hn b (by rw [e]; exact List.mem_append_right _ List.mem_cons_self)
      rw [this] at hok; cases hok

/-! ## `Conn.Write` / `Conn.WriteToPair` -/

/-- the pair `Conn.Write` sends on: the selected pair, else the best validated pair -/
def route (a : Agent) : Option Pair := (a.selected.bind a.pairById).orElse fun _ => a.bestValid

theorem route_selected (a : Agent) (id : Nat) (p : Pair) (h1 : a.selected = some id) (h2 : a.pairById id = some p) :
    route a = some p := by
  unfold route; rw [h1]; simp [h2]

theorem route_unselected (a : Agent) (h : a.selected.bind a.pairById = none) : route a = a.bestValid := by
  unfold route; rw [h]; rfl

/-- state after an accepted send of `len` bytes on pair `pid` through local candidate `luid` -/
def wrote (a : Agent) (now pid luid len : Nat) : Agent :=
  if len > 0 then
    (a.seenLocalSent luid now).modPair pid fun p => { p with pktSent := p.pktSent + 1, bytesSent := p.bytesSent + len }
  else a.seenLocalSent luid now

theorem writeVia_ok (a : Agent) (now : Nat) (p : Pair) (len : Nat) (l r : Cand)
    (h1 : a.localOf p.l = some l) (h2 : a.remoteOf p.r = some r) :
    a.writeVia now p len = (wrote a now p.id l.uid len, [.data l.addr r.addr len, .res s!"ok:{len}"]) := by
  unfold Agent.writeVia wrote
  rw [h1, h2]

theorem writeVia_err (a : Agent) (now : Nat) (p : Pair) (len : Nat)
    (h : a.localOf p.l = none ∨ a.remoteOf p.r = none) :
    a.writeVia now p len = (a, [.res "err:nopairs"]) := by
  unfold Agent.writeVia
  rcases h with h | h
  · rw [h]
  · rw [h]; cases a.localOf p.l <;> rfl

theorem write_closed (a : Agent) (now len : Nat) (s : Bool) (h : a.closed = true) :
    step a (.write now len s) = (a, [.res "err:closed"]) := by
  show a.write now len s = _
  unfold Agent.write; rw [if_pos h]

theorem write_stun (a : Agent) (now len : Nat) (h : a.closed = false) :
    step a (.write now len true) = (a, [.res "err:stun"]) := by
  show a.write now len true = _
  unfold Agent.write; simp [h]

theorem write_noroute (a : Agent) (now len : Nat) (h : a.closed = false) (hr : route a = none) :
    step a (.write now len false) = (a, [.res "err:nopairs"]) := by
  show a.write now len false = _
  unfold Agent.write
  have hr' := hr
  simp only [route, Option.orElse_eq_or] at hr'
  simp [h, hr']

theorem write_routed (a : Agent) (now len : Nat) (p : Pair) (h : a.closed = false) (hr : route a = some p) :
    step a (.write now len false) =
      ({ (a.writeVia now p len).1 with connBytesSent := (a.writeVia now p len).1.connBytesSent + len },
       (a.writeVia now p len).2) := by
  show a.write now len false = _
  unfold Agent.write
  have hr' := hr
  simp only [route, Option.orElse_eq_or] at hr'
  simp [h, hr']

theorem writeToPair_closed (a : Agent) (now id len : Nat) (s : Bool) (h : a.closed = true) :
    step a (.writeToPair now id len s) = (a, [.res "err:closed"]) := by
  show a.writeToPair now id len s = _
  unfold Agent.writeToPair; rw [if_pos h]

theorem writeToPair_stun (a : Agent) (now id len : Nat) (h : a.closed = false) :
    step a (.writeToPair now id len true) = (a, [.res "err:stun"]) := by
  show a.writeToPair now id len true = _
  unfold Agent.writeToPair; simp [h]

theorem writeToPair_notfound (a : Agent) (now id len : Nat) (h : a.closed = false) (hp : a.pairById id = none) :
    step a (.writeToPair now id len false) = (a, [.res "err:notfound"]) := by
  show a.writeToPair now id len false = _
  unfold Agent.writeToPair; simp [h, hp]

theorem writeToPair_notsucceeded (a : Agent) (now id len : Nat) (p : Pair) (h : a.closed = false)
    (hp : a.pairById id = some p) (hs : p.state ≠ .succeeded) :
    step a (.writeToPair now id len false) = (a, [.res "err:notsucceeded"]) := by
  show a.writeToPair now id len false = _
  unfold Agent.writeToPair; simp [h, hp, hs]

theorem writeToPair_routed (a : Agent) (now id len : Nat) (p : Pair) (h : a.closed = false)
    (hp : a.pairById id = some p) (hs : p.state = .succeeded) :
    step a (.writeToPair now id len false) = a.writeVia now p len := by
  show a.writeToPair now id len false = _
  unfold Agent.writeToPair; simp [h, hp, hs]


/-! ## Inbound payloads and `Conn.Read` -/

/-- the receiving candidate's cache entry for `src`, if any (`validateSTUNTrafficCache`) -/
def cacheHit (a : Agent) (l : Cand) (src : Nat) : Option (Nat × Nat × Nat) :=
  a.caches.find? fun (lu, s, _) => lu == l.uid && s == src

/-- source validation of a non-STUN payload arriving on `l` from `src` -/
def accepts (a : Agent) (l : Cand) (src : Nat) : Bool :=
  (cacheHit a l src).isSome || (a.findRemote l.net src).isSome

/-- the counter update of an accepted payload on the currently selected pair -/
def recvBump (a : Agent) (len : Nat) : List Pair :=
  if len > 0 then
    match a.selected with
    | some id => updPair a.checklist id fun p => { p with pktRecv := p.pktRecv + 1, bytesRecv := p.bytesRecv + len }
    | none => a.checklist
  else a.checklist

/-- what an accepted payload does -/
structure Recvd (a b : Agent) (l : Cand) (src len : Nat) : Prop where
  rx : b.rx = a.rx ++ [len]
  sent : b.connBytesSent = a.connBytesSent
  recv : b.connBytesRecv = a.connBytesRecv
  npid : b.nextPairID = a.nextPairID
  sel : b.selected = a.selected
  closed : b.closed = a.closed
  nuid : b.nextUid = a.nextUid
  locals : b.locals = a.locals
  remotes : b.remotes.map ckey = a.remotes.map ckey
  checklist : b.checklist = recvBump a len
  caches : b.caches = a.caches ∨
    ∃ r, a.findRemote l.net src = some r ∧ b.caches = a.caches ++ [(l.uid, src, r.uid)]

/-- what a payload from a known source that does NOT fit into the receive buffer does: the source check has
refreshed the remote candidate's liveness and (first time) cached the source; nothing is queued, no counter moves -/
structure Dropped (a b : Agent) (l : Cand) (src : Nat) : Prop where
  rx : b.rx = a.rx
  sent : b.connBytesSent = a.connBytesSent
  recv : b.connBytesRecv = a.connBytesRecv
  npid : b.nextPairID = a.nextPairID
  sel : b.selected = a.selected
  closed : b.closed = a.closed
  nuid : b.nextUid = a.nextUid
  locals : b.locals = a.locals
  remotes : b.remotes.map ckey = a.remotes.map ckey
  checklist : b.checklist = a.checklist
  caches : b.caches = a.caches ∨
    ∃ r, a.findRemote l.net src = some r ∧ b.caches = a.caches ++ [(l.uid, src, r.uid)]

open IceProofs.InboundData in
theorem validated_of_accepts (a : Agent) (now : Nat) (l : Cand) (src : Nat) (h : accepts a l src = true) :
    ∃ b, validated a now l src = some b ∧ Dropped a b l src := by
  unfold accepts cacheHit at h
  unfold validated
  cases hc : a.caches.find? (fun (lu, s, _) => lu == l.uid && s == src) with
  | some e =>
    obtain ⟨lu, s, ru⟩ := e
    exact ⟨_, rfl, ⟨rfl, rfl, rfl, rfl, rfl, rfl, rfl, rfl, map_ckey_updCand _ _ _ (fun _ => rfl), rfl, Or.inl rfl⟩⟩
  | none =>
    cases hr : a.findRemote l.net src with
    | some r =>
      exact ⟨_, rfl, ⟨rfl, rfl, rfl, rfl, rfl, rfl, rfl, rfl, map_ckey_updCand _ _ _ (fun _ => rfl), rfl,
        Or.inr ⟨r, hr, rfl⟩⟩⟩
    | none =>
      have hc' : a.caches.find? (fun x => match x with | (lu, s, _) => lu == l.uid && s == src) = none := hc
      rw [hc', hr] at h
      simp at h

open IceProofs.InboundData in
theorem validated_none (a : Agent) (now : Nat) (l : Cand) (src : Nat) (h : accepts a l src = false) :
    validated a now l src = none := by
  unfold accepts cacheHit at h
  simp only [Bool.or_eq_false_iff, Option.isSome_eq_false_iff, Option.isNone_iff_eq_none] at h
  unfold validated
  have hc : a.caches.find? (fun (lu, s, _) => lu == l.uid && s == src) = none := h.1
  rw [hc, h.2]

theorem inboundData_reject (a : Agent) (now : Nat) (l : Cand) (src len : Nat) (h : accepts a l src = false) :
    a.inboundData now l src len = (a, []) := by
  rw [IceProofs.InboundData.inboundData_eq, validated_none a now l src h]

/-- the payload fits: queued and credited -/
theorem inboundData_accept (a : Agent) (now : Nat) (l : Cand) (src len : Nat) (h : accepts a l src = true)
    (hf : rxFits a.rx len = true) :
    (a.inboundData now l src len).2 = [] ∧ Recvd a (a.inboundData now l src len).1 l src len := by
  obtain ⟨b, hv, d⟩ := validated_of_accepts a now l src h
  rw [IceProofs.InboundData.inboundData_eq, hv]
  simp only [d.rx, hf, if_true]
  refine ⟨trivial, ?_⟩
  have hq : (b.enqueue len).checklist = recvBump a len := by
    unfold Agent.enqueue recvBump
    simp only
    rw [← d.sel, ← d.checklist]
    by_cases hl : len > 0
    · simp only [hl, if_true]
      cases hs : b.selected <;> simp [Agent.modPair]
    · simp only [hl, if_false]
  have hrest : (b.enqueue len).connBytesSent = b.connBytesSent ∧ (b.enqueue len).connBytesRecv = b.connBytesRecv ∧
      (b.enqueue len).nextPairID = b.nextPairID ∧ (b.enqueue len).selected = b.selected ∧
      (b.enqueue len).closed = b.closed ∧ (b.enqueue len).nextUid = b.nextUid ∧ (b.enqueue len).locals = b.locals ∧
      (b.enqueue len).remotes = b.remotes ∧ (b.enqueue len).caches = b.caches := by
    unfold Agent.enqueue
    simp only
    split
    · split <;> exact ⟨rfl, rfl, rfl, rfl, rfl, rfl, rfl, rfl, rfl⟩
    · exact ⟨rfl, rfl, rfl, rfl, rfl, rfl, rfl, rfl, rfl⟩
  obtain ⟨e1, e2, e3, e4, e5, e6, e7, e8, e9⟩ := hrest
  exact ⟨by rw [IceProofs.InboundData.enqueue_rx, d.rx], e1.trans d.sent, e2.trans d.recv, e3.trans d.npid,
    e4.trans d.sel, e5.trans d.closed, e6.trans d.nuid, e7.trans d.locals, by rw [e8]; exact d.remotes, hq,
    by rw [e9]; exact d.caches⟩

/-- the payload does not fit (`packetio.ErrFull`): dropped -/
theorem inboundData_full (a : Agent) (now : Nat) (l : Cand) (src len : Nat) (h : accepts a l src = true)
    (hf : rxFits a.rx len = false) :
    (a.inboundData now l src len).2 = [] ∧ Dropped a (a.inboundData now l src len).1 l src := by
  obtain ⟨b, hv, d⟩ := validated_of_accepts a now l src h
  rw [IceProofs.InboundData.inboundData_eq, hv]
  simp only [d.rx, hf, Bool.false_eq_true, if_false]
  exact ⟨trivial, d⟩

theorem step_inboundData_drop (a : Agent) (now la src len : Nat) (stun : Bool)
    (h : a.closed = true ∨ a.started = false ∨ stun = true ∨ a.localByAddr la = none) :
    step a (.inboundData now la src len stun) = (a, []) := by
  unfold step
  dsimp only
  split
  · rfl
  · rename_i hn
    rcases h with h | h | h | h
    · simp [h] at hn
    · simp [h] at hn
    · simp [h] at hn
    · rw [h]

theorem step_inboundData (a : Agent) (now la src len : Nat) (l : Cand) (hc : a.closed = false)
    (hs : a.started = true) (hl : a.localByAddr la = some l) :
    step a (.inboundData now la src len false) = a.inboundData now l src len := by
  unfold step
  simp [hc, hs, hl]

theorem step_read_closed (a : Agent) (cap : Nat) (h : a.closed = true) : step a (.read cap) = (a, [.res "err:closed"]) := by
  unfold step; simp [h]

theorem step_read_empty (a : Agent) (cap : Nat) (h : a.closed = false) (hr : a.rx = []) :
    step a (.read cap) = (a, [.res "empty"]) := by
  unfold step; simp [h, hr]

/-- the general case: the head datagram is consumed whole, `min n cap` bytes are returned and counted -/
theorem step_read_some (a : Agent) (cap n : Nat) (rest : List Nat) (h : a.closed = false) (hr : a.rx = n :: rest) :
    step a (.read cap) = ({ a with rx := rest, connBytesRecv := a.connBytesRecv + min n cap },
      [.res (if cap < n then s!"short:{cap}" else s!"read:{n}")]) := by
  unfold step; simp [h, hr]

/-- a buffer that is large enough: the whole datagram is returned and counted -/
theorem step_read_full (a : Agent) (cap n : Nat) (rest : List Nat) (h : a.closed = false) (hr : a.rx = n :: rest) (hn : n ≤ cap) :
    step a (.read cap) = ({ a with rx := rest, connBytesRecv := a.connBytesRecv + n }, [.res s!"read:{n}"]) := by
  rw [step_read_some a cap n rest h hr, Nat.min_eq_left hn, if_neg (by omega)]

/-- a short buffer (`io.ErrShortBuffer`): the datagram is consumed whole, `cap` bytes are returned and counted -/
theorem step_read_short (a : Agent) (cap n : Nat) (rest : List Nat) (h : a.closed = false) (hr : a.rx = n :: rest) (hn : cap < n) :
    step a (.read cap) = ({ a with rx := rest, connBytesRecv := a.connBytesRecv + cap }, [.res s!"short:{cap}"]) := by
  rw [step_read_some a cap n rest h hr, Nat.min_eq_right (by omega), if_pos hn]


end IceProofs.AgentC07
