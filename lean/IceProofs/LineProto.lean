import IceSpec.LineProto
import Std.Data.String.ToNat
/-!
# Reading back what was printed: the reusable lemmas of the line protocol

`Nat` printing (`toString`) against `String.toNat?`, `joinC` against `splitC` over separator-free tokens.
-/
namespace IceProofs.LineProto
open IceSpec.LineProto

theorem toNat?_toString (n : Nat) : (toString n).toNat? = some n := Nat.toNat?_repr n

theorem toString_ne_empty (n : Nat) : toString n ≠ "" := Nat.repr_ne_empty

/-- a printed number contains only digits -/
theorem not_mem_toString (n : Nat) (c : Char) (hc : c.isDigit = false) : c ∉ (toString n).toList := by
  intro h
  have h' : c ∈ Nat.toDigits 10 n := by
    have : (toString n).toList = Nat.toDigits 10 n := Nat.toList_repr
    rwa [this] at h
  have := Nat.isDigit_of_mem_toDigits (by omega) (by omega) h'
  rw [hc] at this; cases this

theorem free_toString (n : Nat) (c : Char) (hc : c.isDigit = false) : free c (toString n) = true := by
  simp only [free, Bool.not_eq_true', List.contains_eq_mem, decide_eq_false_iff_not]
  exact not_mem_toString n c hc

theorem free_iff (c : Char) (s : String) : free c s = true ↔ c ∉ s.toList := by
  simp [free]

/-- THE split/join lemma: a non-empty list of separator-free tokens is read back -/
theorem splitC_joinC (c : Char) (l : List String) (hne : l ≠ []) (h : ∀ s ∈ l, c ∉ s.toList) :
    splitC (joinC c l) c = l := by
  unfold splitC joinC
  rw [String.toList_intercalate, String.toList_singleton, List.splitOn_intercalate]
  · simp [List.map_map]
  · intro x hx
    obtain ⟨s, hs, rfl⟩ := List.mem_map.mp hx
    exact h s hs
  · simpa using hne

theorem joinC_nil (c : Char) : joinC c [] = "" := rfl

theorem joinC_pair (c : Char) (a b : String) : joinC c [a, b] = a ++ String.singleton c ++ b := rfl

theorem splitC_single (c : Char) (s : String) (h : c ∉ s.toList) : splitC s c = [s] := by
  have := splitC_joinC c [s] (by simp) (by simpa using h)
  simpa [joinC] using this

/-- the join of a non-empty list whose first token is not empty is not empty -/
theorem joinC_ne_empty (c : Char) (l : List String) (hne : l ≠ []) (h : ∀ s ∈ l, c ∉ s.toList)
    (h0 : ∀ s ∈ l, s ≠ "") : joinC c l ≠ "" := by
  intro he
  have h1 := splitC_joinC c l hne h
  rw [he] at h1
  have h2 : splitC "" c = [""] := by simp [splitC]
  rw [h2] at h1
  have : "" ∈ l := by rw [← h1]; simp
  exact h0 "" this rfl

theorem mapM_toNat?_map_toString (l : List Nat) : (l.map toString).mapM String.toNat? = some l := by
  induction l with
  | nil => rfl
  | cons a l ih => simp [List.mapM_cons, ih]

/-- a printed list of numbers is read back (`c` any non-digit) -/
theorem parseNats_printNats (c : Char) (hc : c.isDigit = false) (l : List Nat) :
    parseNats c (printNats c l) = some l := by
  unfold parseNats printNats
  cases l with
  | nil => simp [joinC_nil]
  | cons a l =>
    have hfree : ∀ s ∈ (a :: l).map toString, c ∉ s.toList := by
      intro s hs
      obtain ⟨n, _, rfl⟩ := List.mem_map.mp hs
      exact not_mem_toString n c hc
    have hne : joinC c ((a :: l).map toString) ≠ "" := by
      apply joinC_ne_empty c _ (by simp) hfree
      intro s hs
      obtain ⟨n, _, rfl⟩ := List.mem_map.mp hs
      exact toString_ne_empty n
    rw [if_neg hne, splitC_joinC c _ (by simp) hfree]
    exact mapM_toNat?_map_toString (a :: l)

/-- the same without the empty-text case, for a non-empty list -/
theorem splitC_printNats (c : Char) (hc : c.isDigit = false) (l : List Nat) (hne : l ≠ []) :
    (splitC (printNats c l) c).mapM String.toNat? = some l := by
  unfold printNats
  rw [splitC_joinC c _ (by simpa using hne)]
  · exact mapM_toNat?_map_toString l
  · intro s hs
    obtain ⟨n, _, rfl⟩ := List.mem_map.mp hs
    exact not_mem_toString n c hc

theorem dropPre_append (p s : List Char) : dropPre p (p ++ s) = some s := by
  induction p with
  | nil => rfl
  | cons a p ih => simp [dropPre, ih]

theorem tagged_append (pre s : String) : tagged pre (pre ++ s) = some s := by
  simp [tagged, String.toList_append, dropPre_append]

end IceProofs.LineProto
