import IceProofs.CloseSysMu4
/-! # CloseSys — corollaries used by the property theorems -/
namespace IceProofs.CloseSys
open IceModel.CloseSys

theorem reach_step_trans {s0 s s' : State} (h : Reach s0 s) (h' : Reach s s') : Reach s0 s' := by
  induction h' with
  | init => exact h
  | step a _ hs ih => exact .step a ih hs

theorem reach_run {s s' : State} {acts : List Action} (h : run s acts = some s') : Reach s s' := by
  induction acts generalizing s with
  | nil => simp [run] at h; subst h; exact .init
  | cons a as ih =>
    simp only [run] at h
    split at h
    · rename_i s1 hs
      exact reach_step_trans (.step a .init hs) (ih h)
    · simp at h

theorem delStep_done {s s' : State} {fin : Bool} (h : delStep s = some (s', fin)) : s'.done = s.done := by
  rcases delStep_cases h with ⟨_, rfl, _⟩ | ⟨_, c, cd, _, rfl | ⟨_, _, rfl⟩⟩ <;> rfl

theorem loopStep_done {s s' : State} (hs : loopStep s = some s') : s'.done = s.done := by
  unfold loopStep at hs
  split at hs
  · split at hs
    · obtain rfl := Option.some.inj hs; rfl
    · simp at hs
  · obtain rfl := Option.some.inj hs; rfl
  · simp only at hs
    split at hs
    · split at hs
      · obtain rfl := Option.some.inj hs; rfl
      · simp at hs
    · obtain rfl := Option.some.inj hs; rfl
    · obtain rfl := Option.some.inj hs; rfl
    · obtain rfl := Option.some.inj hs; simp
    · split at hs
      · split at hs
        · obtain rfl := Option.some.inj hs; simp
        · obtain rfl := Option.some.inj hs; rfl
      · obtain rfl := Option.some.inj hs; rfl
    · obtain rfl := Option.some.inj hs; simp
    · obtain rfl := Option.some.inj hs; rfl
    · obtain rfl := Option.some.inj hs; rfl
  · split at hs
    · simp at hs
    · rename_i hd; obtain rfl := Option.some.inj hs; exact (delStep_done hd :)
  · obtain rfl := Option.some.inj hs; simp
  · split at hs
    · obtain rfl := Option.some.inj hs; rfl
    · simp at hs
  · split at hs
    · simp at hs
    · rename_i hd; obtain rfl := Option.some.inj hs; exact (delStep_done hd :)
  · obtain rfl := Option.some.inj hs; rfl
  · obtain rfl := Option.some.inj hs; rfl
  · obtain rfl := Option.some.inj hs; simp
  · obtain rfl := Option.some.inj hs; rfl
  · simp at hs

theorem callStep_done {s s1 : State} {t : Tid} {th th' : Th} {alt : Bool} (hd : s.done = true)
    (hs : callStep s t th alt = some (s1, th')) : s1.done = s.done := by
  unfold callStep at hs
  (repeat' split at hs) <;> first
    | (simp at hs; done)
    | (obtain ⟨rfl, _⟩ := Prod.mk.inj (Option.some.inj hs); first | rfl | (simp_all; done) | simp [abortCand, setNdone])

/-- `done` stays closed. -/
theorem step_done {s s' : State} {a : Action} (hd : s.done = true) (hs : step s a = some s') :
    s'.done = s.done := by
  unfold step at hs
  split at hs
  · exact loopStep_done hs
  · rename_i t alt
    unfold thStep at hs
    split at hs
    · simp at hs
    · split at hs
      · simp at hs
      · split at hs
        · simp at hs
        · split at hs
          · obtain rfl := Option.some.inj hs; simp
          · split at hs
            · simp at hs
            · rename_i hc; obtain rfl := Option.some.inj hs; simp [callStep_done hd hc]
    · split at hs
      · simp at hs
      · split at hs
        · simp at hs
        · split at hs
          · split at hs
            · obtain rfl := Option.some.inj hs; rfl
            · obtain rfl := Option.some.inj hs; simp
          · split at hs
            · simp at hs
            · rename_i hc; obtain rfl := Option.some.inj hs; simp [callStep_done hd hc]
  · rename_i c alt
    unfold rlStep at hs
    (repeat' split at hs) <;> first
      | (simp at hs; done)
      | (obtain rfl := Option.some.inj hs; first | rfl | simp_all)
  · unfold envStep at hs
    (repeat' split at hs) <;> first
      | (simp at hs; done)
      | (obtain rfl := Option.some.inj hs; first | rfl | simp)



theorem done_mono {s s' : State} {a : Action} (hd : s.done = true) (hs : step s a = some s') : s'.done = true := by
  rw [step_done hd hs]; exact hd

theorem delStep_closeRet {s s' : State} {fin : Bool} (h : delStep s = some (s', fin)) : s'.closeRet = s.closeRet := by
  rcases delStep_cases h with ⟨_, rfl, _⟩ | ⟨_, c, cd, _, rfl | ⟨_, _, rfl⟩⟩ <;> rfl

theorem loopStep_closeRet {s s' : State} (hs : loopStep s = some s') : s'.closeRet = s.closeRet := by
  unfold loopStep at hs
  split at hs
  · split at hs
    · obtain rfl := Option.some.inj hs; rfl
    · simp at hs
  · obtain rfl := Option.some.inj hs; rfl
  · simp only at hs
    split at hs
    · split at hs
      · obtain rfl := Option.some.inj hs; rfl
      · simp at hs
    · obtain rfl := Option.some.inj hs; rfl
    · obtain rfl := Option.some.inj hs; rfl
    · obtain rfl := Option.some.inj hs; simp
    · split at hs
      · split at hs
        · obtain rfl := Option.some.inj hs; simp
        · obtain rfl := Option.some.inj hs; rfl
      · obtain rfl := Option.some.inj hs; rfl
    · obtain rfl := Option.some.inj hs; simp
    · obtain rfl := Option.some.inj hs; rfl
    · obtain rfl := Option.some.inj hs; rfl
  · split at hs
    · simp at hs
    · rename_i hd; obtain rfl := Option.some.inj hs; exact (delStep_closeRet hd :)
  · obtain rfl := Option.some.inj hs; simp
  · split at hs
    · obtain rfl := Option.some.inj hs; rfl
    · simp at hs
  · split at hs
    · simp at hs
    · rename_i hd; obtain rfl := Option.some.inj hs; exact (delStep_closeRet hd :)
  · obtain rfl := Option.some.inj hs; rfl
  · obtain rfl := Option.some.inj hs; rfl
  · obtain rfl := Option.some.inj hs; simp
  · obtain rfl := Option.some.inj hs; rfl
  · simp at hs

theorem callStep_closeRet {s s1 : State} {t : Tid} {th th' : Th} {alt : Bool} (hd : s.closeRet = true)
    (hs : callStep s t th alt = some (s1, th')) : s1.closeRet = s.closeRet := by
  unfold callStep at hs
  (repeat' split at hs) <;> first
    | (simp at hs; done)
    | (obtain ⟨rfl, _⟩ := Prod.mk.inj (Option.some.inj hs); first | rfl | (simp_all; done) | simp [abortCand, setNdone])

/-- the ghost flag `closeRet` is never reset. -/
theorem step_closeRet {s s' : State} {a : Action} (hd : s.closeRet = true) (hs : step s a = some s') :
    s'.closeRet = s.closeRet := by
  unfold step at hs
  split at hs
  · exact loopStep_closeRet hs
  · rename_i t alt
    unfold thStep at hs
    split at hs
    · simp at hs
    · split at hs
      · simp at hs
      · split at hs
        · simp at hs
        · split at hs
          · obtain rfl := Option.some.inj hs; simp
          · split at hs
            · simp at hs
            · rename_i hc; obtain rfl := Option.some.inj hs; simp [callStep_closeRet hd hc]
    · split at hs
      · simp at hs
      · split at hs
        · simp at hs
        · split at hs
          · split at hs
            · obtain rfl := Option.some.inj hs; rfl
            · obtain rfl := Option.some.inj hs; simp
          · split at hs
            · simp at hs
            · rename_i hc; obtain rfl := Option.some.inj hs; simp [callStep_closeRet hd hc]
  · rename_i c alt
    unfold rlStep at hs
    (repeat' split at hs) <;> first
      | (simp at hs; done)
      | (obtain rfl := Option.some.inj hs; first | rfl | simp_all)
  · unfold envStep at hs
    (repeat' split at hs) <;> first
      | (simp at hs; done)
      | (obtain rfl := Option.some.inj hs; first | rfl | simp)


theorem delStep_gcloseRet {s s' : State} {fin : Bool} (h : delStep s = some (s', fin)) : s'.gcloseRet = s.gcloseRet := by
  rcases delStep_cases h with ⟨_, rfl, _⟩ | ⟨_, c, cd, _, rfl | ⟨_, _, rfl⟩⟩ <;> rfl

theorem loopStep_gcloseRet {s s' : State} (hs : loopStep s = some s') : s'.gcloseRet = s.gcloseRet := by
  unfold loopStep at hs
  split at hs
  · split at hs
    · obtain rfl := Option.some.inj hs; rfl
    · simp at hs
  · obtain rfl := Option.some.inj hs; rfl
  · simp only at hs
    split at hs
    · split at hs
      · obtain rfl := Option.some.inj hs; rfl
      · simp at hs
    · obtain rfl := Option.some.inj hs; rfl
    · obtain rfl := Option.some.inj hs; rfl
    · obtain rfl := Option.some.inj hs; simp
    · split at hs
      · split at hs
        · obtain rfl := Option.some.inj hs; simp
        · obtain rfl := Option.some.inj hs; rfl
      · obtain rfl := Option.some.inj hs; rfl
    · obtain rfl := Option.some.inj hs; simp
    · obtain rfl := Option.some.inj hs; rfl
    · obtain rfl := Option.some.inj hs; rfl
  · split at hs
    · simp at hs
    · rename_i hd; obtain rfl := Option.some.inj hs; exact (delStep_gcloseRet hd :)
  · obtain rfl := Option.some.inj hs; simp
  · split at hs
    · obtain rfl := Option.some.inj hs; rfl
    · simp at hs
  · split at hs
    · simp at hs
    · rename_i hd; obtain rfl := Option.some.inj hs; exact (delStep_gcloseRet hd :)
  · obtain rfl := Option.some.inj hs; rfl
  · obtain rfl := Option.some.inj hs; rfl
  · obtain rfl := Option.some.inj hs; simp
  · obtain rfl := Option.some.inj hs; rfl
  · simp at hs

theorem callStep_gcloseRet {s s1 : State} {t : Tid} {th th' : Th} {alt : Bool} (hd : s.gcloseRet = true)
    (hs : callStep s t th alt = some (s1, th')) : s1.gcloseRet = s.gcloseRet := by
  unfold callStep at hs
  (repeat' split at hs) <;> first
    | (simp at hs; done)
    | (obtain ⟨rfl, _⟩ := Prod.mk.inj (Option.some.inj hs); first | rfl | (simp_all; done) | simp [abortCand, setNdone])

/-- the ghost flag `gcloseRet` is never reset. -/
theorem step_gcloseRet {s s' : State} {a : Action} (hd : s.gcloseRet = true) (hs : step s a = some s') :
    s'.gcloseRet = s.gcloseRet := by
  unfold step at hs
  split at hs
  · exact loopStep_gcloseRet hs
  · rename_i t alt
    unfold thStep at hs
    split at hs
    · simp at hs
    · split at hs
      · simp at hs
      · split at hs
        · simp at hs
        · split at hs
          · obtain rfl := Option.some.inj hs; simp
          · split at hs
            · simp at hs
            · rename_i hc; obtain rfl := Option.some.inj hs; simp [callStep_gcloseRet hd hc]
    · split at hs
      · simp at hs
      · split at hs
        · simp at hs
        · split at hs
          · split at hs
            · obtain rfl := Option.some.inj hs; rfl
            · obtain rfl := Option.some.inj hs; simp
          · split at hs
            · simp at hs
            · rename_i hc; obtain rfl := Option.some.inj hs; simp [callStep_gcloseRet hd hc]
  · rename_i c alt
    unfold rlStep at hs
    (repeat' split at hs) <;> first
      | (simp at hs; done)
      | (obtain rfl := Option.some.inj hs; first | rfl | simp_all)
  · unfold envStep at hs
    (repeat' split at hs) <;> first
      | (simp at hs; done)
      | (obtain rfl := Option.some.inj hs; first | rfl | simp)



/-- every execution that starts after `done` is closed is finite: its length is bounded by the measure. -/
theorem run_length_le_mu {s s' : State} {acts : List Action} (h : Inv s) (hd : s.done = true)
    (hr : run s acts = some s') : acts.length + mu s' ≤ mu s := by
  induction acts generalizing s with
  | nil => simp [run] at hr; subst hr; simp
  | cons a as ih =>
    simp only [run] at hr
    split at hr
    · rename_i s1 hs
      have h1 := mu_step h hd hs
      have h2 := ih (inv_step h hs) (done_mono hd hs) hr
      simp only [List.length_cons]; omega
    · simp at hr

end IceProofs.CloseSys
