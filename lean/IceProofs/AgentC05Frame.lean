import IceModel.AgentCore
import IceProofs.Basic
import Lean
/-!
# Frame lemmas for `AgentCore`: what no helper of `step` touches

`Agent.core` projects an agent on its configuration, tie-breaker, tag, role, `lastNomination`, credentials and the started/closed flags.  Every
helper function of the model leaves this projection alone; the only writers are `.start` (role,
selector reset), `doRestart` (selector reset), the switching branch of a role conflict (role flip +
selector reset) and `shouldAcceptNomination` inside `cldHandleRequest` (`lastNomination`).  Used by
C05 (`controlling` changes only through a conflict) and C20 (`lastNomination` only grows).
-/
namespace IceProofs.Agent
open IceModel.AgentCore

structure Core where
  cfg : Config
  tieBreaker : Nat
  tag : Nat
  controlling : Bool
  lastNomination : Option Nat
  localUfrag : String
  localPwd : String
  remoteUfrag : String
  remotePwd : String
  started : Bool
  closed : Bool

end IceProofs.Agent

namespace IceModel.AgentCore
/-- configuration, tie-breaker, tag, role, highest accepted nomination value -/
def Agent.core (a : Agent) : IceProofs.Agent.Core :=
  ⟨a.cfg, a.tieBreaker, a.tag, a.controlling, a.lastNomination, a.localUfrag, a.localPwd, a.remoteUfrag, a.remotePwd,
   a.started, a.closed⟩
end IceModel.AgentCore

namespace IceProofs.Agent
open IceModel.AgentCore

@[simp] theorem core_mk (cfg tieBreaker controlling started closed connState localUfrag localPwd remoteUfrag remotePwd
    locals remotes checklist nextPairID nextUid nextTid tag pending selected selStart nominatedPair lastNomination answeredNomination
    lastSeen checkingStart checkingTimeout forcePending nextTick caches rx connBytesSent connBytesRecv
    onConnectedFired generation nomIssued lastRenomTime nomCounter) :
    (Agent.mk cfg tieBreaker controlling started closed connState localUfrag localPwd remoteUfrag remotePwd
    locals remotes checklist nextPairID nextUid nextTid tag pending selected selStart nominatedPair lastNomination answeredNomination
    lastSeen checkingStart checkingTimeout forcePending nextTick caches rx connBytesSent connBytesRecv
    onConnectedFired generation nomIssued lastRenomTime nomCounter).core = ⟨cfg, tieBreaker, tag, controlling, lastNomination, localUfrag, localPwd,
      remoteUfrag, remotePwd, started, closed⟩ := rfl

@[simp] theorem core_eta (y : Agent) : Core.mk y.cfg y.tieBreaker y.tag y.controlling y.lastNomination y.localUfrag
    y.localPwd y.remoteUfrag y.remotePwd y.started y.closed = y.core := rfl
@[simp] theorem core_cfg (a : Agent) : a.core.cfg = a.cfg := rfl
@[simp] theorem core_tieBreaker (a : Agent) : a.core.tieBreaker = a.tieBreaker := rfl
@[simp] theorem core_tag (a : Agent) : a.core.tag = a.tag := rfl
@[simp] theorem core_controlling (a : Agent) : a.core.controlling = a.controlling := rfl
@[simp] theorem core_lastNomination (a : Agent) : a.core.lastNomination = a.lastNomination := rfl
@[simp] theorem core_localUfrag (a : Agent) : a.core.localUfrag = a.localUfrag := rfl
@[simp] theorem core_localPwd (a : Agent) : a.core.localPwd = a.localPwd := rfl
@[simp] theorem core_remoteUfrag (a : Agent) : a.core.remoteUfrag = a.remoteUfrag := rfl
@[simp] theorem core_remotePwd (a : Agent) : a.core.remotePwd = a.remotePwd := rfl
@[simp] theorem core_started (a : Agent) : a.core.started = a.started := rfl
@[simp] theorem core_closed (a : Agent) : a.core.closed = a.closed := rfl

theorem fst_core {α : Type} {x : Agent × α} {a' : Agent} {r : α} (h : x = (a', r)) : a'.core = x.1.core := by
  subst h; rfl

open Lean Elab Tactic Meta in
/-- for every hypothesis `h : e = (a', r)` with `a' : Agent` add `a'.core = e.1.core` (proof automation only) -/
elab "pair_eqs" : tactic => withMainContext do
  let lctx ← getLCtx
  for d in lctx do
    if d.isImplementationDetail then continue
    let ty ← instantiateMVars d.type
    if let some (_, _, rhs) := ty.eq? then
      if rhs.isAppOfArity ``Prod.mk 4 then
        try
          let pf ← mkAppM ``fst_core #[d.toExpr]
          let t ← inferType pf
          liftMetaTactic fun g => do
            let g ← g.assert `hc t pf
            let (_, g) ← g.intro1
            return [g]
        catch _ => pure ()

/-- split every `if`/`match`, turn the equations of destructured calls into `core` facts, simplify -/
macro "frame_cases" : tactic =>
  `(tactic| ((try simp only []); (repeat' split) <;> (pair_eqs; (try simp at *) <;> (try simp_all))))

/-! ### record updates -/
@[simp] theorem core_modPair (a : Agent) (id : Nat) (f : Pair → Pair) : (a.modPair id f).core = a.core := rfl
@[simp] theorem core_seenLocalSent (a : Agent) (u n : Nat) : (a.seenLocalSent u n).core = a.core := rfl
@[simp] theorem core_seenRemoteRecv (a : Agent) (u n : Nat) : (a.seenRemoteRecv u n).core = a.core := rfl
@[simp] theorem core_invalidatePending (a : Agent) (n : Nat) : (a.invalidatePending n).core = a.core := rfl
@[simp] theorem core_wipe (a : Agent) : a.wipe.core = a.core := rfl
@[simp] theorem core_requestCheck (a : Agent) : a.requestCheck.core = a.core := rfl

@[simp] theorem core_setConnState (a : Agent) (s : ConnState) : (a.setConnState s).1.core = a.core := by
  unfold Agent.setConnState
  split
  · rfl
  · split <;> rfl

@[simp] theorem core_select (a : Agent) (id : Nat) : (a.select id).1.core = a.core := by
  unfold Agent.select
  simp

/-! ### sending -/
@[simp] theorem core_sendRequest (a : Agent) (now : Nat) (l r : Cand) (u : Bool) (n : Option Nat) :
    (a.sendRequest now l r u n).1.core = a.core := by
  unfold Agent.sendRequest
  simp
  split <;> simp

@[simp] theorem core_ping (a : Agent) (now : Nat) (l r : Cand) : (a.ping now l r).1.core = a.core := by
  unfold Agent.ping; simp

@[simp] theorem core_sendSuccess (a : Agent) (now : Nat) (m : Msg) (l r : Cand) :
    (a.sendSuccess now m l r).1.core = a.core := by
  unfold Agent.sendSuccess
  simp
  split <;> simp

@[simp] theorem core_pingAll (a : Agent) (now : Nat) : (a.pingAll now).1.core = a.core := by
  unfold Agent.pingAll
  refine IceProofs.List.foldl_inv (fun acc : Agent × List Out => acc.1.core = a.core) _ _ _ rfl ?_
  · intro acc id h
    obtain ⟨b, o⟩ := acc
    simp only at h ⊢
    split
    · exact h
    · split
      · split
        · exact h
        · split
          · simp [h]
          · split <;> simp [h]
      · split
        · exact h
        · split
          · simp [h]
          · split <;> simp [h]

/-! ### timer-driven work -/
@[simp] theorem core_validateSelected (a : Agent) (now : Nat) : (a.validateSelected now).1.core = a.core := by
  unfold Agent.validateSelected
  split <;> simp

@[simp] theorem core_keepalive (a : Agent) (now : Nat) : (a.keepalive now).1.core = a.core := by
  unfold Agent.keepalive
  split
  · rfl
  · split
    · split <;> simp
    · rfl

@[simp] theorem core_nominate (a : Agent) (now : Nat) (p : Pair) : (a.nominate now p).1.core = a.core := by
  unfold Agent.nominate
  split <;> simp

/-! ### automatic renomination -/
@[simp] theorem core_keepAliveAll (a : Agent) (now : Nat) : (a.keepAliveAll now).1.core = a.core := by
  unfold Agent.keepAliveAll
  refine IceProofs.List.foldl_inv (fun acc : Agent × List Out => acc.1.core = a.core) _ _ _ rfl ?_
  intro acc id h
  obtain ⟨b, o⟩ := acc
  simp only at h ⊢
  split
  · exact h
  · split
    · exact h
    · split
      · split <;> simp [h]
      · split <;> simp [h]

@[simp] theorem core_autoIssue (a : Agent) (now : Nat) (l r : Cand) : (a.autoIssue now l r).1.core = a.core := by
  unfold Agent.autoIssue
  split
  · rfl
  · split
    · rfl
    · split
      · rfl
      · simp

@[simp] theorem core_autoCheck (a : Agent) (now : Nat) : (a.autoCheck now).1.core = a.core := by
  unfold Agent.autoCheck
  split
  · rfl
  · split
    · rfl
    · split
      · rfl
      · split
        · split
          · rw [core_autoIssue]; rfl
          · rfl
        · rfl

@[simp] theorem core_autoRenom (a : Agent) (now : Nat) : (a.autoRenom now).1.core = a.core := by
  unfold Agent.autoRenom
  simp only []
  split
  · rw [core_autoCheck, core_keepAliveAll]
  · rw [core_autoCheck]

@[simp] theorem core_contactCandidates (a : Agent) (now : Nat) : (a.contactCandidates now).1.core = a.core := by
  unfold Agent.contactCandidates
  frame_cases

@[simp] theorem core_contact (a : Agent) (now : Nat) : (a.contact now).1.core = a.core := by
  unfold Agent.contact
  split
  · rfl
  · split
    · simp
    · simp only []
      split <;> simp <;> split <;> simp
    · simp

@[simp] theorem core_runForced (a : Agent) (now : Nat) : (a.runForced now).1.core = a.core := by
  unfold Agent.runForced
  frame_cases

@[simp] theorem core_runTimers (a : Agent) (now fuel : Nat) : (a.runTimers now fuel).1.core = a.core := by
  induction fuel generalizing a with
  | zero => rfl
  | succ n ih =>
    unfold Agent.runTimers
    frame_cases

/-! ### candidates and pairs -/
@[simp] theorem core_addPair (a : Agent) (l r : Cand) : (a.addPair l r).1.core = a.core := rfl

@[simp] theorem core_replaceRemoteInPairs (a : Agent) (old c : Cand) :
    (a.replaceRemoteInPairs old c).1.core = a.core := by
  unfold Agent.replaceRemoteInPairs
  refine IceProofs.List.foldl_inv (fun acc : Agent × List Out => acc.1.core = a.core) _ _ _ rfl ?_
  intro acc id h
  obtain ⟨b, o⟩ := acc
  simp only at h ⊢
  frame_cases

@[simp] theorem core_addRemoteCandidate (a : Agent) (c : Cand) : (a.addRemoteCandidate c).1.core = a.core := by
  unfold Agent.addRemoteCandidate
  split
  · rfl
  split
  · rfl
  simp only [core_requestCheck]
  refine IceProofs.List.foldl_inv (fun b : Agent => b.core = a.core) _ _ _ ?_ ?_
  · simp only [core_mk, core_eta]
    refine IceProofs.List.foldl_inv (fun acc : Agent × List Out => acc.1.core = a.core) _ _ _ ?_ ?_
    · simp
    · intro acc old h
      simp [h]
  · intro b l h
    split <;> simp [h]

@[simp] theorem core_addLocalCandidate (a : Agent) (c : Cand) : (a.addLocalCandidate c).1.core = a.core := by
  unfold Agent.addLocalCandidate
  split
  · rfl
  split
  · rfl
  simp only [core_requestCheck]
  refine IceProofs.List.foldl_inv (fun b : Agent => b.core = a.core) _ _ _ ?_ ?_
  · simp
  · intro b l h
    simp [h]

/-! ### inbound STUN (everything except the two writers) -/
@[simp] theorem core_takePending (a : Agent) (now tid : Nat) : (a.takePending now tid).1.core = a.core := by
  unfold Agent.takePending
  frame_cases

@[simp] theorem core_handleSuccess (a : Agent) (now : Nat) (m : Msg) (l r : Cand) (src : Nat) :
    (a.handleSuccess now m l r src).1.core = a.core := by
  unfold Agent.handleSuccess
  frame_cases

@[simp] theorem core_ctlHandleRequest (a : Agent) (now : Nat) (m : Msg) (l r : Cand) :
    (a.ctlHandleRequest now m l r).1.core = a.core := by
  unfold Agent.ctlHandleRequest
  frame_cases

/-! ### data plane -/
@[simp] theorem core_writeVia (a : Agent) (now : Nat) (p : Pair) (len : Nat) : (a.writeVia now p len).1.core = a.core := by
  unfold Agent.writeVia
  frame_cases

@[simp] theorem core_write (a : Agent) (now len : Nat) (s : Bool) : (a.write now len s).1.core = a.core := by
  unfold Agent.write
  frame_cases

@[simp] theorem core_writeToPair (a : Agent) (now id len : Nat) (s : Bool) :
    (a.writeToPair now id len s).1.core = a.core := by
  unfold Agent.writeToPair
  frame_cases

@[simp] theorem core_inboundData (a : Agent) (now : Nat) (l : Cand) (src len : Nat) :
    (a.inboundData now l src len).1.core = a.core := by
  unfold Agent.inboundData Agent.enqueue
  frame_cases

/-- `setSelector()` resets exactly the selector part of the projection. -/
@[simp] theorem core_resetSelector (a : Agent) (now : Nat) :
    (a.resetSelector now).core = { a.core with lastNomination := none } := rfl

theorem core_doRestart (a : Agent) (now : Nat) (u p : String) :
    (a.doRestart now u p).1.core =
      { a.core with lastNomination := none, localUfrag := u, localPwd := p, remoteUfrag := "", remotePwd := "" } := by
  unfold Agent.doRestart
  frame_cases

end IceProofs.Agent
