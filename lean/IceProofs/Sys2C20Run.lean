import IceProofs.Sys2C20Step
import IceProofs.Sys2C20Sched
/-!
# C20 on `Sys2` — the invariant of the exchange along every schedule

`qinv_stepB`: B executes an event; `qinv_run`: one system event; `qinv_runs`: a schedule.
-/
namespace IceProofs.C20S
open IceModel.AgentCore IceModel.Sys2 IceProofs.Sys2Run IceProofs.Agent IceProofs.Sys2C05

/-- B executes an event; a value it accepts was issued by A and travelled from the issuing pair (`hacc`: read off the
datagram by the caller). -/
theorem qinv_stepB {nat : List (Nat × Nat)} {h : Hist} {s : Sys} (q : QInv nat h s) (ev : Ev) (hk : keeps ev = true)
    (hpost : PostB (step s.b ev).1)
    (hacc : ∀ v la src, acceptAt s.b ev = some (v, la, src) →
      ∃ la' ra', (v, la', ra') ∈ h.issued ∧ la = unmappedL nat ra' ∧ src = mappedL nat la') :
    QInv nat (hstep h true s.b ev) (s.agentEv true ev).1 := by
  obtain ⟨hs1, hs2, hs3, hs4, hs5, hs6, hs7, hs8, hs9⟩ := q.sess
  obtain ⟨hp1, hp2, hp3, hp4, hp5⟩ := hpost
  have hnr : resetsSelector s.b ev = false := no_reset hs2 hk (hp3.trans hs6.symm)
  obtain ⟨hA, hB, hC⟩ := step_frame_cld s.b ev q.invB hs2 hk hs6 hp3 hp4 hs9
  -- B's part
  have hbinv : BInv nat h.issued ((acceptAt s.b ev).orElse fun _ => h.accepted) (step s.b ev).1 := by
    cases hat : acceptAt s.b ev with
    | some x =>
      obtain ⟨v, la, src⟩ := x
      obtain ⟨hl, hgt, _⟩ := last_of_accept hnr hat
      simp only [Option.orElse_some]
      exact binv_accept q.binv ev hl hgt (hacc v la src hat) (hB v la src hat)
    | none =>
      have hl := last_of_no_accept hnr hat
      simp only [Option.orElse_none]
      cases hao : answerOf s.b ev with
      | some y =>
        obtain ⟨pd, id⟩ := y
        exact binv_answer q.binv q.invB ev hl (hA pd id hao)
      | none =>
        rcases hC hao hat with hq | ⟨_, id, _, hq, hsel, hmk⟩
        · exact binv_quiet q.binv q.invB ev hl hq
        · exact binv_plain q.binv q.invB ev hl hq hsel hmk
  refine ⟨(agentEv_nat s true ev).trans q.topo, q.invA, ?_, ?_, ?_, q.pendA, q.ansA, q.selA, ?_, ?_, ?_⟩
  · rw [agentEv_b_true]; exact q.invB.step ev
  · unfold Session
    rw [agentEv_a_true, agentEv_b_true]
    exact ⟨hs1, hp1, hs3, hp2, hs5, hp3, hs7, hp4, hp5⟩
  · -- datagrams in flight: B emits no values
    intro d hd
    rw [agentEv_inflight_true] at hd
    rcases List.mem_append.mp hd with hd | hd
    · exact (q.fl d hd).mono (fun x hx => hx)
    · intro m hm v hv
      have hmem := mem_dgramsOf_stun hd hm
      obtain ⟨_, _, _, h4⟩ := step_out_nom s.b ev d.src d.dst m v hmem hv
      rw [issuesOf_controlled s.b ev hp3] at h4
      cases h4
  · rw [agentEv_b_true, hstepB_accepted]; exact hbinv.lastB
  · rw [agentEv_b_true, hstepB_accepted, hstepB_issued]; exact hbinv.accB
  · rw [agentEv_b_true]; exact hbinv.defB

/-! ## one system event -/

theorem offer_inbound {a : Agent} {now la src : Nat} {m : Msg} {w : Nat}
    (ho : offer a (.inbound now la src m) = some w) : m.nom = some w := by
  unfold offer cldDeliversEv at ho
  cases hin : inboundOn a (.inbound now la src m) with
  | none => rw [hin] at ho; cases ho
  | some x =>
    obtain ⟨n1, l1, s1, m1⟩ := x
    rw [hin] at ho
    simp only [] at ho
    have hm1 : m1 = m := by
      have hin' : inboundOn a (.inbound now la src m)
          = if a.closed || !a.started then none else (a.localByAddr la).map fun l => (now, l, src, m) := rfl
      rw [hin'] at hin
      split at hin
      · cases hin
      · simp only [Option.map_eq_some_iff] at hin
        obtain ⟨_, _, heq⟩ := hin
        simp only [Prod.mk.injEq] at heq
        exact heq.2.2.2.symm
    subst hm1
    split at ho
    · simpa using ho
    · cases ho

theorem acceptAt_inbound {a : Agent} {now la src : Nat} {m : Msg} {v la' src' : Nat}
    (h : acceptAt a (.inbound now la src m) = some (v, la', src')) : la' = la ∧ src' = src ∧ m.nom = some v := by
  simp only [acceptAt, Option.map_eq_some_iff] at h
  obtain ⟨v', hacc, heq⟩ := h
  simp only [Prod.mk.injEq] at heq
  obtain ⟨rfl, h1, h2⟩ := heq
  refine ⟨h1.symm, h2.symm, ?_⟩
  unfold accepted at hacc
  cases ho : offer a (.inbound now la src m) with
  | none => rw [ho] at hacc; cases hacc
  | some w =>
    rw [ho] at hacc
    simp only [] at hacc
    split at hacc
    · simp only [Option.some.injEq] at hacc
      subst hacc
      exact offer_inbound ho
    · cases hacc

theorem acceptAt_not_inbound {a : Agent} {ev : Ev} (h : ∀ now la src m, ev ≠ .inbound now la src m) :
    acceptAt a ev = none := by
  cases ev with
  | inbound now la src m => exact absurd rfl (h now la src m)
  | _ => rfl

theorem session_postA {s : Sys} (h : Session s) : PostA s.a := ⟨h.1, h.2.2.1, h.2.2.2.2.1, h.2.2.2.2.2.2.1⟩
theorem session_postB {s : Sys} (h : Session s) : PostB s.b :=
  ⟨h.2.1, h.2.2.2.1, h.2.2.2.2.2.1, h.2.2.2.2.2.2.2.1, h.2.2.2.2.2.2.2.2⟩

/-- agent `X` executes `ev` in a state satisfying the invariant; `ev` is an API call, a tick, or the delivery of a
datagram that satisfies `DgramOK` -/
theorem qinv_agentEv {nat : List (Nat × Nat)} {h : Hist} {s : Sys} (q : QInv nat h s) (X : Bool) (ev : Ev)
    (hk : keeps ev = true)
    (hadm : (∀ now la src m, ev ≠ .inbound now la src m) ∨ ∃ d, DgramOK h d ∧ ev = evOf s d)
    (hsess : Session (s.agentEv X ev).1) (hz : ∀ x ∈ (hstep h X (s.agent X) ev).issued, 0 < x.1) :
    QInv nat (hstep h X (s.agent X) ev) (s.agentEv X ev).1 := by
  cases X with
  | false => exact qinv_stepA q ev hk (session_postA hsess)
  | true =>
    refine qinv_stepB q ev hk (session_postB hsess) ?_
    · intro v la src hat
      rcases hadm with hni | ⟨d, hd, rfl⟩
      · rw [acceptAt_not_inbound hni] at hat; cases hat
      · unfold evOf at hat
        cases hp : d.p with
        | data n => rw [hp] at hat; cases hat
        | stun m =>
          rw [hp] at hat
          obtain ⟨rfl, rfl, hn⟩ := acceptAt_inbound hat
          refine ⟨d.src, d.dst, (hd m hp v hn).2, ?_, ?_⟩
          · rw [unmapped_eq, q.topo]
          · rw [mapped_eq, q.topo]
/-- the invariant of the exchange fits the induction principle -/
theorem qinv_sched (nat : List (Nat × Nat)) : SchedOK keeps (QInv nat) (fun h _ d => DgramOK h d) where
  hub := fun _ h => keeps_of_not_api h
  sess := fun _ _ q => q.sess
  dgram := fun _ _ q d hd => q.fl d hd
  dframe := fun _ _ _ _ hd _ _ _ => hd
  frame := fun _ _ _ q ha hb hn hf => qinv_frame q ha hb hn hf
  agent := fun _ _ X ev q hk hadm hs hz => qinv_agentEv q X ev hk hadm hs hz

/-- **One system event preserves the invariant of the exchange**, provided it is neither Restart nor Close, the next
state is still a session (roles kept, nobody Failed or closed) and no nomination with value 0 is issued. -/
theorem qinv_run {nat : List (Nat × Nat)} {h : Hist} {s : Sys} (q : QInv nat h s) (e : SysEv)
    (hk : sysKeeps e = true) (hsess : Session (Sys.run s e)) (hz : ∀ x ∈ (hstepSys h s e).issued, 0 < x.1) :
    QInv nat (hstepSys h s e) (Sys.run s e) :=
  sched_run (qinv_sched nat) q e hk hsess hz

end IceProofs.C20S
