import IceProofs.AgentC07Data
/-!
# C07 along histories: the invariant of reachable states and the counter tallies
-/
namespace IceProofs.AgentC07
open IceModel.AgentCore

/-! ## The invariant holds in every reachable state -/

/-- invariant of reachable states: cache invariant, pair ids issued and distinct, and — while the agent
is open — every listed pair resolvable. -/
def Inv (a : Agent) : Prop := InvC a ∧ IdsBounded a ∧ (a.closed = false → Res a)

/-- a freshly constructed agent (the driver's `parseCfg`: any configuration, credentials, tie-breaker) -/
def Initial (a : Agent) : Prop :=
  a.locals = [] ∧ a.remotes = [] ∧ a.checklist = [] ∧ a.caches = [] ∧ a.rx = [] ∧
  a.connBytesSent = 0 ∧ a.connBytesRecv = 0 ∧ a.selected = none

instance (a : Agent) : Decidable (Initial a) := by unfold Initial; infer_instance

theorem Inv_init (a : Agent) (h : Initial a) : Inv a := by
  obtain ⟨h1, h2, h3, h4, _⟩ := h
  refine ⟨?_, ?_, fun _ => ?_⟩
  · unfold InvC InvK; rw [h1, h2, h4]; simp
  · unfold IdsBounded; rw [h3]; simp
  · unfold Res; rw [h3]; simp

theorem IdsBounded_updPair (a b : Agent) (id : Nat) (f : Pair → Pair) (hf : ∀ p, (f p).id = p.id)
    (hn : b.nextPairID = a.nextPairID) (hc : b.checklist = updPair a.checklist id f) (h : IdsBounded a) :
    IdsBounded b := by
  unfold IdsBounded
  rw [hn, hc]
  refine ⟨fun p hp => ?_, ?_⟩
  · simp only [updPair, List.mem_map] at hp
    rcases hp with ⟨p0, hp0, e⟩
    have := h.1 p0 hp0
    rw [← e]
    split
    · rw [hf p0]; exact this
    · exact this
  · simp only [updPair]
    rw [List.pairwise_map]
    refine List.Pairwise.imp ?_ h.2
    intro x y hxy
    have e1 : (if (x.id == id) = true then f x else x).id = x.id := by split; exact hf x; rfl
    have e2 : (if (y.id == id) = true then f y else y).id = y.id := by split; exact hf y; rfl
    rw [e1, e2]; exact hxy

theorem Res_updPair (a b : Agent) (id : Nat) (f : Pair → Pair) (hf : ∀ p, (f p).l = p.l ∧ (f p).r = p.r)
    (hl : luids b = luids a) (hr : ruids b = ruids a) (hc : b.checklist = updPair a.checklist id f) (h : Res a) :
    Res b := by
  intro p hp
  rw [hc] at hp
  simp only [updPair, List.mem_map] at hp
  rcases hp with ⟨p0, hp0, e⟩
  have := h p0 hp0
  rw [hl, hr, ← e]
  split
  · rw [(hf p0).1, (hf p0).2]; exact this
  · exact this

theorem InvC_congr {a b : Agent} (h1 : b.locals.map ckey = a.locals.map ckey)
    (h2 : b.remotes.map ckey = a.remotes.map ckey) (h3 : b.caches = a.caches) (h4 : b.nextUid = a.nextUid)
    (h : InvC a) : InvC b := by
  unfold InvC at *
  rw [h1, h2, h3, h4]; exact h

/-- state after an accepted send -/
theorem Inv_wrote (a : Agent) (now pid luid len : Nat) (h : Inv a) : Inv (wrote a now pid luid len) := by
  obtain ⟨h1, h2, h3⟩ := h
  have k : Keep a (a.seenLocalSent luid now) := ⟨map_ckey_updCand _ _ _ (fun _ => rfl), rfl, rfl⟩
  unfold wrote
  split
  · refine ⟨InvC_congr k.1 k.2.1 rfl rfl h1, ?_, fun hc => ?_⟩
    · exact IdsBounded_updPair a _ pid (fun p => { p with pktSent := p.pktSent + 1, bytesSent := p.bytesSent + len }) (fun _ => rfl) rfl rfl h2
    · exact Res_updPair a _ pid (fun p => { p with pktSent := p.pktSent + 1, bytesSent := p.bytesSent + len }) (fun _ => ⟨rfl, rfl⟩) k.luids k.ruids rfl (h3 hc)
  · refine ⟨InvC_congr k.1 k.2.1 rfl rfl h1, h2, fun hc => ?_⟩
    have := h3 hc
    unfold Res at *
    rw [k.luids, k.ruids]; exact this

theorem Inv_writeVia (a : Agent) (now : Nat) (p : Pair) (len : Nat) (h : Inv a) : Inv (a.writeVia now p len).1 := by
  cases h1 : a.localOf p.l with
  | none => rw [writeVia_err a now p len (Or.inl h1)]; exact h
  | some l =>
    cases h2 : a.remoteOf p.r with
    | none => rw [writeVia_err a now p len (Or.inr h2)]; exact h
    | some r => rw [writeVia_ok a now p len l r h1 h2]; exact Inv_wrote a now p.id l.uid len h

theorem Inv_connSent (a : Agent) (n : Nat) (h : Inv a) : Inv { a with connBytesSent := n } := h

/-- accepted inbound payload -/
theorem Inv_recvd (a b : Agent) (l : Cand) (src len : Nat) (hl : l ∈ a.locals) (hr : Recvd a b l src len)
    (h : Inv a) : Inv b := by
  obtain ⟨h1, h2, h3⟩ := h
  have hlu : luids b = luids a := by unfold luids; rw [hr.locals]
  have hru : ruids b = ruids a := by unfold ruids; rw [uid_of_ckey, hr.remotes, ← uid_of_ckey]
  refine ⟨?_, ?_, fun hc => ?_⟩
  · rcases hr.caches with hc | ⟨r, hf, hc⟩
    · exact InvC_congr (by rw [hr.locals]) hr.remotes hc hr.nuid h1
    · unfold InvC InvK at h1 ⊢
      rw [hr.locals, hr.remotes, hc, hr.nuid]
      obtain ⟨i1, i2, i3, i4, i5⟩ := h1
      refine ⟨i1, i2, i3, i4, fun e he => ?_⟩
      rcases List.mem_append.mp he with he | he
      · exact i5 e he
      · rw [List.mem_singleton.mp he]
        refine ⟨ckey l, List.mem_map_of_mem hl, rfl, ?_⟩
        have hm := List.mem_of_find?_eq_some hf
        have hp := List.find?_some hf
        simp only [Bool.and_eq_true, beq_iff_eq] at hp
        have : (r.uid, (ckey l).2.1, src) = ckey r := by simp [ckey, hp.1, hp.2]
        show (r.uid, (ckey l).2.1, src) ∈ _
        rw [this]
        exact List.mem_map_of_mem hm
  · unfold recvBump at *
    have hck := hr.checklist
    unfold recvBump at hck
    split at hck
    · split at hck
      · exact IdsBounded_updPair a b _ (fun p => { p with pktRecv := p.pktRecv + 1, bytesRecv := p.bytesRecv + len }) (fun _ => rfl) hr.npid hck h2
      · unfold IdsBounded; rw [hr.npid, hck]; exact h2
    · unfold IdsBounded; rw [hr.npid, hck]; exact h2
  · have hres := h3 (hr.closed ▸ hc)
    have hck := hr.checklist
    unfold recvBump at hck
    split at hck
    · split at hck
      · exact Res_updPair a b _ (fun p => { p with pktRecv := p.pktRecv + 1, bytesRecv := p.bytesRecv + len }) (fun _ => ⟨rfl, rfl⟩) hlu hru hck hres
      · unfold Res; rw [hlu, hru, hck]; exact hres
    · unfold Res; rw [hlu, hru, hck]; exact hres

/-- payload dropped because the receive buffer is full: only the source check has acted -/
theorem Inv_dropped (a b : Agent) (l : Cand) (src : Nat) (hl : l ∈ a.locals) (hd : Dropped a b l src)
    (h : Inv a) : Inv b := by
  have hr : Recvd a { b with rx := a.rx ++ [0] } l src 0 :=
    ⟨rfl, hd.sent, hd.recv, hd.npid, hd.sel, hd.closed, hd.nuid, hd.locals, hd.remotes,
      by unfold recvBump; simpa using hd.checklist, hd.caches⟩
  have h' := Inv_recvd a { b with rx := a.rx ++ [0] } l src 0 hl hr h
  exact h'

theorem Inv_of_InvA {a : Agent} (h : InvA a) : Inv a := ⟨h.1, h.2.1, fun _ => h.2.2⟩

theorem Inv_step (a : Agent) (e : Ev) (h : Inv a) : Inv (step a e).1 := by
  by_cases hc : a.closed = true
  · have f := step_closed a e hc
    exact ⟨InvC_of_Fr f h.1, f.bnd h.2.1, fun hb => by rw [f.closed hc] at hb; cases hb⟩
  · have hc' : a.closed = false := by simpa using hc
    have hA : InvA a := ⟨h.1, h.2.1, h.2.2 hc'⟩
    cases e with
    | write now len s =>
      cases s with
      | true => rw [write_stun a now len hc']; exact h
      | false =>
        cases hr : route a with
        | none => rw [write_noroute a now len hc' hr]; exact h
        | some p => rw [write_routed a now len p hc' hr]; exact Inv_writeVia a now p len h
    | writeToPair now id len s =>
      cases s with
      | true => rw [writeToPair_stun a now id len hc']; exact h
      | false =>
        cases hp : a.pairById id with
        | none => rw [writeToPair_notfound a now id len hc' hp]; exact h
        | some p =>
          by_cases hs : p.state = .succeeded
          · rw [writeToPair_routed a now id len p hc' hp hs]; exact Inv_writeVia a now p len h
          · rw [writeToPair_notsucceeded a now id len p hc' hp hs]; exact h
    | inboundData now la src len s =>
      cases s with
      | true => rw [step_inboundData_drop a now la src len true (Or.inr (Or.inr (Or.inl rfl)))]; exact h
      | false =>
        cases hs : a.started with
        | false => rw [step_inboundData_drop a now la src len false (Or.inr (Or.inl hs))]; exact h
        | true =>
          cases hl : a.localByAddr la with
          | none => rw [step_inboundData_drop a now la src len false (Or.inr (Or.inr (Or.inr hl)))]; exact h
          | some l =>
            rw [step_inboundData a now la src len l hc' hs hl]
            cases hacc : accepts a l src with
            | false => rw [inboundData_reject a now l src len hacc]; exact h
            | true =>
              cases hf : rxFits a.rx len with
              | true =>
                exact Inv_recvd a _ l src len (List.mem_of_find?_eq_some hl) (inboundData_accept a now l src len hacc hf).2 h
              | false =>
                exact Inv_dropped a _ l src (List.mem_of_find?_eq_some hl) (inboundData_full a now l src len hacc hf).2 h
    | read cap =>
      cases hr : a.rx with
      | nil => rw [step_read_empty a cap hc' hr]; exact h
      | cons n rest => rw [step_read_some a cap n rest hc' hr]; exact h
    | close =>
      obtain ⟨f, i, c⟩ := close_spec a
      exact ⟨i h.1, f.bnd h.2.1, fun hb => by rw [c] at hb; cases hb⟩
    | addLocal now c => exact Inv_of_InvA (Ok_step a _ rfl rfl hA).2
    | addRemote now c => exact Inv_of_InvA (Ok_step a _ rfl rfl hA).2
    | start now ctl ru rp => exact Inv_of_InvA (Ok_step a _ rfl rfl hA).2
    | setRemoteCreds ru rp => exact Inv_of_InvA (Ok_step a _ rfl rfl hA).2
    | advance now => exact Inv_of_InvA (Ok_step a _ rfl rfl hA).2
    | inbound now la src m => exact Inv_of_InvA (Ok_step a _ rfl rfl hA).2
    | renominate now la ri v => exact Inv_of_InvA (Ok_step a _ rfl rfl hA).2
    | restart now u p => exact Inv_of_InvA (Ok_step a _ rfl rfl hA).2

/-- every non-data event is a frame step from a reachable state -/
theorem Fr0_step (a : Agent) (e : Ev) (h : Inv a) (hd : isData e = false) : Fr0 a (step a e).1 := by
  by_cases hc : a.closed = true
  · exact (step_closed a e hc).toFr0
  · have hc' : a.closed = false := by simpa using hc
    have hA : InvA a := ⟨h.1, h.2.1, h.2.2 hc'⟩
    by_cases hcl : isClose e = true
    · cases e with
      | close => exact (close_spec a).1
      | _ => simp [isClose] at hcl
    · exact (Ok_step a e hd (by simpa using hcl) hA).1

/-- run a history -/
def run (a : Agent) : List Ev → Agent
  | [] => a
  | e :: es => run (step a e).1 es

theorem Inv_run (a : Agent) (es : List Ev) (h : Inv a) : Inv (run a es) := by
  induction es generalizing a with
  | nil => exact h
  | cons e es ih => exact ih _ (Inv_step a e h)

theorem run_append (a : Agent) (es fs : List Ev) : run a (es ++ fs) = run (run a es) fs := by
  induction es generalizing a with
  | nil => rfl
  | cons e es ih => exact ih _


/-! ## Observations and tallies -/

/-- API results among the outputs of a step -/
def resOf (outs : List Out) : List String := outs.filterMap fun | .res s => some s | _ => none

/-- application datagrams among the outputs of a step: (from, to, length) -/
def dataOf (outs : List Out) : List (Nat × Nat × Nat) := outs.filterMap fun | .data f t n => some (f, t, n) | _ => none

/-- the write was accepted: the API answered `ok:len` -/
def answersOk (len : Nat) (outs : List Out) : Bool := (resOf outs).contains s!"ok:{len}"

theorem ok_toList (n : Nat) : (s!"ok:{n}").toList = 'o' :: 'k' :: ':' :: (toString n).toList := by
  show (toString "ok:" ++ toString n).toList = _
  rw [String.toList_append]
  rfl

theorem ok_ne (n : Nat) (s : String) (h : s.toList.head? ≠ some 'o') : s!"ok:{n}" ≠ s := by
  intro e
  apply h
  rw [← e, ok_toList]
  rfl

theorem answersOk_ok (len f t : Nat) : answersOk len [.data f t len, .res s!"ok:{len}"] = true := by
  simp [answersOk, resOf]

theorem answersOk_err (len : Nat) (s : String) (h : s.toList.head? ≠ some 'o') : answersOk len [.res s] = false := by
  have := ok_ne len s h
  simp only [answersOk, resOf, List.filterMap_cons, List.filterMap_nil, List.contains_cons, List.contains_nil, Bool.or_false,
    beq_eq_false_iff_ne, ne_eq]
  exact this

theorem pairById_id {a : Agent} {id : Nat} {p : Pair} (h : a.pairById id = some p) : p.id = id := by
  have := List.find?_some h
  simpa using this

theorem pairById_mem {a : Agent} {id : Nat} {p : Pair} (h : a.pairById id = some p) : p ∈ a.checklist :=
  List.mem_of_find?_eq_some h

theorem route_mem {a : Agent} {p : Pair} (h : route a = some p) : p ∈ a.checklist := by
  unfold route at h
  cases hs : a.selected.bind a.pairById with
  | some q =>
    rw [hs] at h
    simp at h
    subst h
    cases hsel : a.selected with
    | none => rw [hsel] at hs; cases hs
    | some id => rw [hsel] at hs; exact pairById_mem hs
  | none =>
    rw [hs] at h
    simp at h
    have := (bestBy_eq_some_iff a _ p).mp h
    obtain ⟨pre, post, e, _⟩ := this
    rw [e]; exact List.mem_append_right _ List.mem_cons_self

/-- in a reachable open state the pair a write is routed on has both candidates -/
theorem resolvable_of_mem {a : Agent} (h : Inv a) (hc : a.closed = false) {p : Pair} (hp : p ∈ a.checklist) :
    ∃ l r, a.localOf p.l = some l ∧ a.remoteOf p.r = some r := by
  obtain ⟨h1, h2⟩ := h.2.2 hc p hp
  obtain ⟨l, hl, el⟩ := List.mem_map.mp h1
  obtain ⟨r, hr, er⟩ := List.mem_map.mp h2
  have f1 : (a.localOf p.l).isSome := by
    unfold Agent.localOf findCand
    rw [List.find?_isSome]
    exact ⟨l, hl, by simp [el]⟩
  have f2 : (a.remoteOf p.r).isSome := by
    unfold Agent.remoteOf findCand
    rw [List.find?_isSome]
    exact ⟨r, hr, by simp [er]⟩
  obtain ⟨l', hl'⟩ := Option.isSome_iff_exists.mp f1
  obtain ⟨r', hr'⟩ := Option.isSome_iff_exists.mp f2
  exact ⟨l', r', hl', hr'⟩

/-- a refused operation: state unchanged, one `err:…` result, no datagram -/
def Refused (a : Agent) (len : Nat) (r : Agent × List Out) : Prop :=
  ∃ e : String, r = (a, [.res e]) ∧ e.toList.head? = some 'e' ∧ answersOk len r.2 = false ∧ dataOf r.2 = []

theorem refused_mk (a : Agent) (len : Nat) (e : String) (he : e.toList.head? = some 'e') : Refused a len (a, [.res e]) :=
  ⟨e, rfl, he, answersOk_err len e (by rw [he]; decide), rfl⟩

/-- an accepted send on pair `p` through `l` to `rm` -/
def Sent (a : Agent) (len : Nat) (p : Pair) (l rm : Cand) (r : Agent × List Out) : Prop :=
  p ∈ a.checklist ∧ a.localOf p.l = some l ∧ a.remoteOf p.r = some rm ∧ a.closed = false ∧
  r.2 = [.data l.addr rm.addr len, .res s!"ok:{len}"]

/-- all outcomes of `Conn.Write` in a reachable state -/
theorem write_outcome (a : Agent) (now len : Nat) (s : Bool) (h : Inv a) :
    Refused a len (step a (.write now len s)) ∨
    ∃ p l rm, s = false ∧ route a = some p ∧ Sent a len p l rm (step a (.write now len s)) ∧
      (step a (.write now len s)).1 = { wrote a now p.id l.uid len with connBytesSent := a.connBytesSent + len } := by
  by_cases hc : a.closed = true
  · left; rw [write_closed a now len s hc]; exact refused_mk a len _ (by decide)
  · have hc' : a.closed = false := by simpa using hc
    cases s with
    | true => left; rw [write_stun a now len hc']; exact refused_mk a len _ (by decide)
    | false =>
      cases hr : route a with
      | none => left; rw [write_noroute a now len hc' hr]; exact refused_mk a len _ (by decide)
      | some p =>
        right
        obtain ⟨l, rm, hl, hrm⟩ := resolvable_of_mem h hc' (route_mem hr)
        refine ⟨p, l, rm, rfl, rfl, ?_, ?_⟩
        · rw [write_routed a now len p hc' hr, writeVia_ok a now p len l rm hl hrm]
          exact ⟨route_mem hr, hl, hrm, hc', rfl⟩
        · rw [write_routed a now len p hc' hr, writeVia_ok a now p len l rm hl hrm]
          unfold wrote
          split <;> rfl

/-- all outcomes of `Conn.WriteToPair` in a reachable state -/
theorem writeToPair_outcome (a : Agent) (now id len : Nat) (s : Bool) (h : Inv a) :
    Refused a len (step a (.writeToPair now id len s)) ∨
    ∃ p l rm, s = false ∧ a.pairById id = some p ∧ p.state = .succeeded ∧
      Sent a len p l rm (step a (.writeToPair now id len s)) ∧
      (step a (.writeToPair now id len s)).1 = wrote a now p.id l.uid len := by
  by_cases hc : a.closed = true
  · left; rw [writeToPair_closed a now id len s hc]; exact refused_mk a len _ (by decide)
  · have hc' : a.closed = false := by simpa using hc
    cases s with
    | true => left; rw [writeToPair_stun a now id len hc']; exact refused_mk a len _ (by decide)
    | false =>
      cases hp : a.pairById id with
      | none => left; rw [writeToPair_notfound a now id len hc' hp]; exact refused_mk a len _ (by decide)
      | some p =>
        by_cases hs : p.state = .succeeded
        · right
          obtain ⟨l, rm, hl, hrm⟩ := resolvable_of_mem h hc' (pairById_mem hp)
          refine ⟨p, l, rm, rfl, rfl, hs, ?_, ?_⟩
          · rw [writeToPair_routed a now id len p hc' hp hs, writeVia_ok a now p len l rm hl hrm]
            exact ⟨pairById_mem hp, hl, hrm, hc', rfl⟩
          · rw [writeToPair_routed a now id len p hc' hp hs, writeVia_ok a now p len l rm hl hrm]
        · left; rw [writeToPair_notsucceeded a now id len p hc' hp hs]; exact refused_mk a len _ (by decide)

/-! ## Connection byte counters -/

/-- payload bytes accepted by `Conn.Write` in this step (the API answered `ok:len`) -/
def sentBy (a : Agent) : Ev → Nat
  | .write now len s => if answersOk len (step a (.write now len s)).2 then len else 0
  | _ => 0

/-- bytes returned by `Conn.Read` in this step: the head of the reader queue of an open agent, cut to the
caller's buffer of `cap` bytes (a short buffer returns `cap` bytes and `io.ErrShortBuffer`) -/
def readBy (a : Agent) : Ev → Nat
  | .read cap => if a.closed then 0 else min (a.rx.head?.getD 0) cap
  | _ => 0

/-- the independent statement of the inbound filter: the length queued by this event, if any -/
def inboundAccepted (a : Agent) : Ev → Option Nat
  | .inboundData _ la src len stunLike =>
    if a.closed || !a.started || stunLike then none else
      match a.localByAddr la with
      | none => none
      | some l => if accepts a l src && rxFits a.rx len then some len else none
  | _ => none

/-- the independent statement of the overflow: this event's payload comes from a known source on an open, started
agent but does not fit into the receive buffer (`packetio.ErrFull`) — it is dropped -/
def inboundOverflow (a : Agent) : Ev → Bool
  | .inboundData _ la src len stunLike =>
    if a.closed || !a.started || stunLike then false else
      match a.localByAddr la with
      | none => false
      | some l => accepts a l src && !rxFits a.rx len
  | _ => false

def add4 (x y : Nat × Nat × Nat × Nat) : Nat × Nat × Nat × Nat :=
  (x.1 + y.1, x.2.1 + y.2.1, x.2.2.1 + y.2.2.1, x.2.2.2 + y.2.2.2)

/-- what this event adds to the counters (pktSent, bytesSent, pktRecv, bytesRecv) of the pair listed under
`id`: an accepted `Write` of `len > 0` counts on the pair it is routed on, an accepted `WriteToPair` on the
pair it names, an accepted inbound payload of `len > 0` on the currently selected pair. -/
def pairDelta (a : Agent) (id : Nat) : Ev → Nat × Nat × Nat × Nat
  | .write now len s =>
    if answersOk len (step a (.write now len s)).2 = true ∧ len > 0 ∧ (route a).map (·.id) = some id
    then (1, len, 0, 0) else (0, 0, 0, 0)
  | .writeToPair now id' len s =>
    if answersOk len (step a (.writeToPair now id' len s)).2 = true ∧ len > 0 ∧ id' = id
    then (1, len, 0, 0) else (0, 0, 0, 0)
  | .inboundData now la src len s =>
    match inboundAccepted a (.inboundData now la src len s) with
    | some n => if n > 0 ∧ a.selected = some id then (0, 0, 1, n) else (0, 0, 0, 0)
    | none => (0, 0, 0, 0)
  | _ => (0, 0, 0, 0)

/-- the reader queue after this event: a `Read` on an open agent pops the head, an accepted inbound payload
is appended -/
def rxAfter (a : Agent) (e : Ev) : List Nat :=
  (match e with | .read _ => if a.closed then a.rx else a.rx.drop 1 | _ => a.rx) ++
  (match inboundAccepted a e with | some n => [n] | none => [])

/-- the exact effect of one event on everything C07 counts -/
structure StepSum (a : Agent) (e : Ev) (b : Agent) : Prop where
  rx : b.rx = rxAfter a e
  sent : b.connBytesSent = a.connBytesSent + sentBy a e
  recv : b.connBytesRecv = a.connBytesRecv + readBy a e
  pair : ∀ id p q, a.pairById id = some p → b.pairById id = some q → ctr q = add4 (ctr p) (pairDelta a id e)

theorem add4_zero (x : Nat × Nat × Nat × Nat) : add4 x (0, 0, 0, 0) = x := by
  simp [add4]

theorem pairById_wrote (a : Agent) (now pid luid len id : Nat) :
    (wrote a now pid luid len).pairById id = (a.pairById id).map fun p =>
      if len > 0 ∧ p.id = pid then { p with pktSent := p.pktSent + 1, bytesSent := p.bytesSent + len } else p := by
  unfold wrote
  split
  · rename_i hl
    rw [pairById_modPair (a.seenLocalSent luid now) pid id
      (fun p => { p with pktSent := p.pktSent + 1, bytesSent := p.bytesSent + len }) (fun _ => rfl)]
    show Option.map _ (a.pairById id) = _
    congr 1
    funext p
    by_cases hp : p.id = pid <;> simp [hp, hl]
  · rename_i hl
    show a.pairById id = _
    cases a.pairById id <;> simp [hl]

theorem StepSum_unchanged (a : Agent) (e : Ev) (h1 : rxAfter a e = a.rx) (h2 : sentBy a e = 0) (h3 : readBy a e = 0)
    (h4 : ∀ id, pairDelta a id e = (0, 0, 0, 0)) : StepSum a e a :=
  ⟨h1.symm, by rw [h2]; rfl, by rw [h3]; rfl, fun id p q hp hq => by
    rw [hp] at hq; cases hq; rw [h4, add4_zero]⟩

/-- non-data events change nothing that is counted -/
theorem StepSum_ctl (a : Agent) (e : Ev) (h : Inv a) (hd : isData e = false) : StepSum a e (step a e).1 := by
  have f := Fr0_step a e h hd
  have e1 : rxAfter a e = a.rx := by cases e <;> simp [isData] at hd <;> simp [rxAfter, inboundAccepted]
  have e2 : sentBy a e = 0 := by cases e <;> simp [isData] at hd <;> rfl
  have e3 : readBy a e = 0 := by cases e <;> simp [isData] at hd <;> rfl
  have e4 : ∀ id, pairDelta a id e = (0, 0, 0, 0) := by intro id; cases e <;> simp [isData] at hd <;> rfl
  refine ⟨by rw [e1]; exact f.rx, by rw [e2]; exact f.sent, by rw [e3]; exact f.recv, fun id p q hp hq => ?_⟩
  rw [e4, add4_zero]
  rcases f.ctr id q hq with ⟨p', hp', e⟩ | hlt
  · rw [hp] at hp'; cases hp'; exact e.symm
  · have := h.2.1.1 p (pairById_mem hp)
    rw [pairById_id hp] at this
    omega

theorem wrote_fields (a : Agent) (now pid luid len : Nat) :
    (wrote a now pid luid len).rx = a.rx ∧ (wrote a now pid luid len).connBytesSent = a.connBytesSent ∧
    (wrote a now pid luid len).connBytesRecv = a.connBytesRecv := by
  unfold wrote; split <;> exact ⟨rfl, rfl, rfl⟩

theorem ctr_bumpSent (p : Pair) (len : Nat) :
    ctr { p with pktSent := p.pktSent + 1, bytesSent := p.bytesSent + len } = add4 (ctr p) (1, len, 0, 0) := rfl

theorem ctr_bumpRecv (p : Pair) (len : Nat) :
    ctr { p with pktRecv := p.pktRecv + 1, bytesRecv := p.bytesRecv + len } = add4 (ctr p) (0, 0, 1, len) := rfl

theorem StepSum_refused (a : Agent) (e : Ev) (len : Nat) (h : Refused a len (step a e))
    (h1 : rxAfter a e = a.rx) (h3 : readBy a e = 0)
    (h2 : answersOk len (step a e).2 = false → sentBy a e = 0 ∧ ∀ id, pairDelta a id e = (0, 0, 0, 0)) :
    StepSum a e (step a e).1 := by
  obtain ⟨s, hs, _, hno, _⟩ := h
  obtain ⟨g1, g2⟩ := h2 hno
  rw [hs]
  exact StepSum_unchanged a e h1 g1 h3 g2

theorem rxAfter_nonrx (a : Agent) (e : Ev)
    (h2 : (match e with | .read _ => if a.closed then a.rx else a.rx.drop 1 | _ => a.rx) = a.rx)
    (h1 : inboundAccepted a e = none) : rxAfter a e = a.rx := by
  unfold rxAfter; rw [h1, h2]; simp

theorem StepSum_write (a : Agent) (now len : Nat) (s : Bool) (h : Inv a) :
    StepSum a (.write now len s) (step a (.write now len s)).1 := by
  have hrx : rxAfter a (.write now len s) = a.rx := rxAfter_nonrx a _ rfl rfl
  rcases write_outcome a now len s h with hr | ⟨p, l, rm, hs, hroute, hsent, hst⟩
  · refine StepSum_refused a _ len hr hrx rfl (fun hno => ⟨?_, fun id => ?_⟩)
    · simp only [sentBy, hno]; rfl
    · simp only [pairDelta, hno]; simp
  · have hok : answersOk len (step a (.write now len s)).2 = true := by rw [hsent.2.2.2.2]; exact answersOk_ok _ _ _
    obtain ⟨w1, w2, w3⟩ := wrote_fields a now p.id l.uid len
    rw [hst]
    refine ⟨w1.trans hrx.symm, ?_, w3, fun id p0 q hp hq => ?_⟩
    · simp only [sentBy, hok, if_true]
    · have hq' : (wrote a now p.id l.uid len).pairById id = some q := hq
      rw [pairById_wrote, hp] at hq'
      simp only [Option.map_some, Option.some.injEq] at hq'
      rw [← hq']
      have hid := pairById_id hp
      dsimp only [pairDelta]
      by_cases hc : len > 0 ∧ p0.id = p.id
      · rw [if_pos hc, if_pos ⟨hok, hc.1, by rw [hroute]; simp; omega⟩, ctr_bumpSent]
      · rw [if_neg hc, if_neg (fun hh => hc ⟨hh.2.1, by
          have := hh.2.2; rw [hroute] at this; simp at this; omega⟩), add4_zero]

theorem StepSum_writeToPair (a : Agent) (now id' len : Nat) (s : Bool) (h : Inv a) :
    StepSum a (.writeToPair now id' len s) (step a (.writeToPair now id' len s)).1 := by
  have hrx : rxAfter a (.writeToPair now id' len s) = a.rx := rxAfter_nonrx a _ rfl rfl
  rcases writeToPair_outcome a now id' len s h with hr | ⟨p, l, rm, hs, hp', _, hsent, hst⟩
  · refine StepSum_refused a _ len hr hrx rfl (fun hno => ⟨rfl, fun id => ?_⟩)
    simp only [pairDelta, hno]; simp
  · have hok : answersOk len (step a (.writeToPair now id' len s)).2 = true := by
      rw [hsent.2.2.2.2]; exact answersOk_ok _ _ _
    obtain ⟨w1, w2, w3⟩ := wrote_fields a now p.id l.uid len
    rw [hst]
    refine ⟨w1.trans hrx.symm, w2, w3, fun id p0 q hp hq => ?_⟩
    rw [pairById_wrote, hp] at hq
    simp only [Option.map_some, Option.some.injEq] at hq
    rw [← hq]
    have hid := pairById_id hp
    have hid' := pairById_id hp'
    dsimp only [pairDelta]
    by_cases hc : len > 0 ∧ p0.id = p.id
    · rw [if_pos hc, if_pos ⟨hok, hc.1, by omega⟩, ctr_bumpSent]
    · rw [if_neg hc, if_neg (fun hh => hc ⟨hh.2.1, by have := hh.2.2; omega⟩), add4_zero]

theorem inboundAccepted_drop (a : Agent) (now la src len : Nat) (stun : Bool)
    (h : a.closed = true ∨ a.started = false ∨ stun = true ∨ a.localByAddr la = none) :
    inboundAccepted a (.inboundData now la src len stun) = none := by
  dsimp only [inboundAccepted]
  split
  · rfl
  · rename_i hn
    rcases h with h | h | h | h
    · simp [h] at hn
    · simp [h] at hn
    · simp [h] at hn
    · rw [h]

theorem inboundAccepted_live (a : Agent) (now la src len : Nat) (l : Cand) (hc : a.closed = false)
    (hs : a.started = true) (hl : a.localByAddr la = some l) :
    inboundAccepted a (.inboundData now la src len false) =
      if accepts a l src && rxFits a.rx len then some len else none := by
  dsimp only [inboundAccepted]
  simp [hc, hs, hl]

theorem StepSum_inboundData (a : Agent) (now la src len : Nat) (stun : Bool) :
    StepSum a (.inboundData now la src len stun) (step a (.inboundData now la src len stun)).1 := by
  have drop : (a.closed = true ∨ a.started = false ∨ stun = true ∨ a.localByAddr la = none) →
      StepSum a (.inboundData now la src len stun) (step a (.inboundData now la src len stun)).1 := by
    intro hd
    have e1 := inboundAccepted_drop a now la src len stun hd
    rw [step_inboundData_drop a now la src len stun hd]
    refine StepSum_unchanged a _ (rxAfter_nonrx a _ rfl e1) rfl rfl (fun id => ?_)
    dsimp only [pairDelta]; rw [e1]
  cases stun with
  | true => exact drop (Or.inr (Or.inr (Or.inl rfl)))
  | false =>
    cases hc : a.closed with
    | true => exact drop (Or.inl hc)
    | false =>
      cases hs : a.started with
      | false => exact drop (Or.inr (Or.inl hs))
      | true =>
        cases hl : a.localByAddr la with
        | none => exact drop (Or.inr (Or.inr (Or.inr hl)))
        | some l =>
          have e1 := inboundAccepted_live a now la src len l hc hs hl
          rw [step_inboundData a now la src len l hc hs hl]
          cases hacc : accepts a l src with
          | false =>
            replace e1 : inboundAccepted a (.inboundData now la src len false) = none := by rw [e1, hacc]; rfl
            rw [inboundData_reject a now l src len hacc]
            refine StepSum_unchanged a _ (rxAfter_nonrx a _ rfl e1) rfl rfl (fun id => ?_)
            dsimp only [pairDelta]; rw [e1]
          | true =>
            cases hf : rxFits a.rx len with
            | false =>
              replace e1 : inboundAccepted a (.inboundData now la src len false) = none := by rw [e1, hacc, hf]; rfl
              have d := (inboundData_full a now l src len hacc hf).2
              refine ⟨?_, d.sent, d.recv, fun id p q hp hq => ?_⟩
              · rw [d.rx]; exact (rxAfter_nonrx a _ rfl e1).symm
              · have hq' : a.pairById id = some q := by
                  unfold Agent.pairById at hq ⊢
                  rw [d.checklist] at hq; exact hq
                rw [hp] at hq'; cases hq'
                dsimp only [pairDelta]; rw [e1]; exact (add4_zero _).symm
            | true =>
            replace e1 : inboundAccepted a (.inboundData now la src len false) = some len := by rw [e1, hacc, hf]; rfl
            have r := (inboundData_accept a now l src len hacc hf).2
            refine ⟨?_, r.sent, r.recv, fun id p q hp hq => ?_⟩
            · rw [r.rx]; unfold rxAfter; rw [e1]
            · dsimp only [pairDelta]
              rw [e1]
              dsimp only
              have hq' := hq
              unfold Agent.pairById at hq'
              rw [r.checklist] at hq'
              unfold recvBump at hq'
              have hid := pairById_id hp
              by_cases hlen : len > 0
              · rw [if_pos hlen] at hq'
                cases hsel : a.selected with
                | none =>
                  rw [hsel] at hq'
                  rw [if_neg (fun hh => by cases hh.2), add4_zero]
                  have : a.pairById id = some q := hq'
                  rw [hp] at this; cases this; rfl
                | some sid =>
                  rw [hsel] at hq'
                  dsimp only at hq'
                  rw [find?_updPair a.checklist sid id (fun p => { p with pktRecv := p.pktRecv + 1, bytesRecv := p.bytesRecv + len }) (fun _ => rfl)] at hq'
                  have hp' : a.checklist.find? (·.id == id) = some p := hp
                  rw [hp'] at hq'
                  simp only [Option.map_some, Option.some.injEq] at hq'
                  rw [← hq']
                  by_cases hsid : sid = id
                  · have c1 : (p.id == sid) = true := by simp [hid, hsid]
                    have c2 : len > 0 ∧ some sid = some id := ⟨hlen, by rw [hsid]⟩
                    rw [if_pos c1, if_pos c2, ctr_bumpRecv]
                  · have c1 : ¬ (p.id == sid) = true := by simp [hid]; omega
                    have c2 : ¬ (len > 0 ∧ some sid = some id) := fun hh => hsid (Option.some.inj hh.2)
                    rw [if_neg c1, if_neg c2, add4_zero]
              · rw [if_neg hlen] at hq'
                have : a.pairById id = some q := hq'
                rw [hp] at this; cases this
                rw [if_neg (fun hh => hlen hh.1), add4_zero]

theorem StepSum_read (a : Agent) (cap : Nat) : StepSum a (.read cap) (step a (.read cap)).1 := by
  have ed : ∀ id, pairDelta a id (.read cap) = (0, 0, 0, 0) := fun _ => rfl
  cases hc : a.closed with
  | true =>
    rw [step_read_closed a cap hc]
    refine StepSum_unchanged a _ (rxAfter_nonrx a _ (by simp [hc]) rfl) rfl (by simp [readBy, hc]) ed
  | false =>
    cases hr : a.rx with
    | nil =>
      rw [step_read_empty a cap hc hr]
      refine StepSum_unchanged a _ (rxAfter_nonrx a _ (by simp [hc, hr]) rfl) rfl (by simp [readBy, hc, hr]) ed
    | cons n rest =>
      rw [step_read_some a cap n rest hc hr]
      refine ⟨?_, rfl, ?_, fun id p q hp hq => ?_⟩
      · simp [rxAfter, inboundAccepted, hc, hr]
      · simp [readBy, hc, hr]
      · have : a.pairById id = some q := hq
        rw [hp] at this; cases this
        rw [ed, add4_zero]

/-- the exact effect of every event, in every reachable state -/
theorem StepSum_step (a : Agent) (e : Ev) (h : Inv a) : StepSum a e (step a e).1 := by
  cases e with
  | write now len s => exact StepSum_write a now len s h
  | writeToPair now id len s => exact StepSum_writeToPair a now id len s h
  | inboundData now la src len s => exact StepSum_inboundData a now la src len s
  | read cap => exact StepSum_read a cap
  | addLocal now c => exact StepSum_ctl a _ h rfl
  | addRemote now c => exact StepSum_ctl a _ h rfl
  | start now ctl ru rp => exact StepSum_ctl a _ h rfl
  | setRemoteCreds ru rp => exact StepSum_ctl a _ h rfl
  | advance now => exact StepSum_ctl a _ h rfl
  | inbound now la src m => exact StepSum_ctl a _ h rfl
  | renominate now la ri v => exact StepSum_ctl a _ h rfl
  | restart now u p => exact StepSum_ctl a _ h rfl
  | close => exact StepSum_ctl a _ h rfl

/-! ## Folds over histories -/

/-- payload bytes accepted by `Conn.Write` along a history -/
def sentTally (a : Agent) : List Ev → Nat
  | [] => 0
  | e :: es => sentBy a e + sentTally (step a e).1 es

/-- bytes returned by `Conn.Read` along a history -/
def readTally (a : Agent) : List Ev → Nat
  | [] => 0
  | e :: es => readBy a e + readTally (step a e).1 es

/-- what a history adds to the counters of the pair listed under `id` -/
def pairTally (id : Nat) (a : Agent) : List Ev → Nat × Nat × Nat × Nat
  | [] => (0, 0, 0, 0)
  | e :: es => add4 (pairDelta a id e) (pairTally id (step a e).1 es)

/-- `id` is listed in every state the history passes through (the last one included) -/
def listedAll (id : Nat) (a : Agent) : List Ev → Bool
  | [] => (a.pairById id).isSome
  | e :: es => (a.pairById id).isSome && listedAll id (step a e).1 es

/-- `id` is the selected pair and is listed in every state the history passes through -/
def selectedAll (id : Nat) (a : Agent) : List Ev → Bool
  | [] => a.selected == some id && (a.pairById id).isSome
  | e :: es => a.selected == some id && (a.pairById id).isSome && selectedAll id (step a e).1 es

theorem listedAll_of_selectedAll (id : Nat) (a : Agent) (es : List Ev) (h : selectedAll id a es = true) :
    listedAll id a es = true := by
  induction es generalizing a with
  | nil => simp only [selectedAll, Bool.and_eq_true] at h; exact h.2
  | cons e es ih =>
    simp only [selectedAll, Bool.and_eq_true] at h
    simp only [listedAll, Bool.and_eq_true]
    exact ⟨h.1.2, ih _ h.2⟩

theorem conn_run (a : Agent) (es : List Ev) (h : Inv a) :
    (run a es).connBytesSent = a.connBytesSent + sentTally a es ∧
    (run a es).connBytesRecv = a.connBytesRecv + readTally a es := by
  induction es generalizing a with
  | nil => exact ⟨rfl, rfl⟩
  | cons e es ih =>
    have s := StepSum_step a e h
    obtain ⟨i1, i2⟩ := ih _ (Inv_step a e h)
    refine ⟨?_, ?_⟩
    · show (run (step a e).1 es).connBytesSent = _
      rw [i1, s.sent]; simp only [sentTally]; omega
    · show (run (step a e).1 es).connBytesRecv = _
      rw [i2, s.recv]; simp only [readTally]; omega

theorem add4_assoc (x y z : Nat × Nat × Nat × Nat) : add4 (add4 x y) z = add4 x (add4 y z) := by
  simp [add4, Nat.add_assoc]

theorem pair_run (a : Agent) (es : List Ev) (id : Nat) (p q : Pair) (h : Inv a) (hl : listedAll id a es = true)
    (hp : a.pairById id = some p) (hq : (run a es).pairById id = some q) :
    ctr q = add4 (ctr p) (pairTally id a es) := by
  induction es generalizing a p with
  | nil =>
    have : a.pairById id = some q := hq
    rw [hp] at this; cases this
    simp only [pairTally, add4_zero]
  | cons e es ih =>
    simp only [listedAll, Bool.and_eq_true] at hl
    have hl2 := hl.2
    have hmid : ((step a e).1.pairById id).isSome = true := by
      cases es with
      | nil => exact hl2
      | cons e' es' => simp only [listedAll, Bool.and_eq_true] at hl2; exact hl2.1
    obtain ⟨m, hm⟩ := Option.isSome_iff_exists.mp hmid
    have s := StepSum_step a e h
    have i := ih (step a e).1 m (Inv_step a e h) hl2 hm hq
    rw [i, s.pair id p m hp hm, add4_assoc]
    rfl

/-! ## FIFO -/

/-- the queued datagram (its length) this event hands to the reader and consumes (`Read` on an open agent
with a non-empty queue; the datagram is consumed whole whatever the caller's buffer size) -/
def readOne (a : Agent) : Ev → List Nat
  | .read _ => if a.closed then [] else a.rx.take 1
  | _ => []

/-- the byte count this event's `Read` returns to its caller: the consumed datagram cut to `cap` -/
def retOne (a : Agent) : Ev → List Nat
  | .read cap => (readOne a (.read cap)).map fun n => min n cap
  | _ => []

/-- byte counts returned by `Read`, in order -/
def retLog (a : Agent) : List Ev → List Nat
  | [] => []
  | e :: es => retOne a e ++ retLog (step a e).1 es

/-- lengths returned by `Read`, in order -/
def readLog (a : Agent) : List Ev → List Nat
  | [] => []
  | e :: es => readOne a e ++ readLog (step a e).1 es

/-- lengths accepted by the inbound filter, in order -/
def acceptLog (a : Agent) : List Ev → List Nat
  | [] => []
  | e :: es => (match inboundAccepted a e with | some n => [n] | none => []) ++ acceptLog (step a e).1 es

theorem readOne_rx (a : Agent) (e : Ev) :
    readOne a e ++ (match e with | .read _ => if a.closed then a.rx else a.rx.drop 1 | _ => a.rx) = a.rx := by
  cases e <;> simp only [readOne, List.nil_append]
  split
  · rfl
  · exact List.take_append_drop 1 a.rx

/-- what has been read so far followed by what is still queued is exactly what was queued at the start
followed by what the filter accepted, in arrival order. -/
theorem fifo_run (a : Agent) (es : List Ev) (h : Inv a) :
    readLog a es ++ (run a es).rx = a.rx ++ acceptLog a es := by
  induction es generalizing a with
  | nil => simp [readLog, acceptLog, run]
  | cons e es ih =>
    have s := StepSum_step a e h
    have i := ih _ (Inv_step a e h)
    show (readOne a e ++ readLog (step a e).1 es) ++ (run (step a e).1 es).rx = _
    rw [List.append_assoc, i, s.rx]
    unfold rxAfter
    simp only [acceptLog]
    rw [← List.append_assoc, ← List.append_assoc, readOne_rx, List.append_assoc]

theorem readBy_eq_sum (a : Agent) (e : Ev) : readBy a e = (retOne a e).sum := by
  cases e <;> simp only [readBy, retOne, readOne, List.sum_nil]
  split
  · rfl
  · cases a.rx <;> simp

/-- the bytes `Read` returned along a history are the sum of the per-call byte counts -/
theorem readTally_eq_sum (a : Agent) (es : List Ev) : readTally a es = (retLog a es).sum := by
  induction es generalizing a with
  | nil => rfl
  | cons e es ih => simp only [readTally, retLog, List.sum_append, readBy_eq_sum, ih]

/-- every returned byte count is the consumed datagram cut to the caller's buffer: never more than either -/
theorem retOne_le (a : Agent) (cap : Nat) : ∀ k ∈ retOne a (.read cap), k ≤ cap ∧ ∃ n ∈ readOne a (.read cap), k = min n cap := by
  intro k hk
  simp only [retOne, List.mem_map] at hk
  obtain ⟨n, hn, rfl⟩ := hk
  exact ⟨Nat.min_le_right _ _, n, hn, rfl⟩

/-! ## While one pair stays selected -/

/-- the tallies of the property text for the selected pair `id`: accepted `Write`s with `len > 0`
(and `WriteToPair`s naming `id`), accepted inbound payloads with `len > 0` -/
def selDelta (a : Agent) (id : Nat) : Ev → Nat × Nat × Nat × Nat
  | .write now len s =>
    if answersOk len (step a (.write now len s)).2 = true ∧ len > 0 then (1, len, 0, 0) else (0, 0, 0, 0)
  | .writeToPair now id' len s =>
    if answersOk len (step a (.writeToPair now id' len s)).2 = true ∧ len > 0 ∧ id' = id
    then (1, len, 0, 0) else (0, 0, 0, 0)
  | .inboundData now la src len s =>
    match inboundAccepted a (.inboundData now la src len s) with
    | some n => if n > 0 then (0, 0, 1, n) else (0, 0, 0, 0)
    | none => (0, 0, 0, 0)
  | _ => (0, 0, 0, 0)

def selTally (id : Nat) (a : Agent) : List Ev → Nat × Nat × Nat × Nat
  | [] => (0, 0, 0, 0)
  | e :: es => add4 (selDelta a id e) (selTally id (step a e).1 es)

theorem pairDelta_selected (a : Agent) (id : Nat) (e : Ev) (p : Pair) (hs : a.selected = some id)
    (hp : a.pairById id = some p) : pairDelta a id e = selDelta a id e := by
  have hr : (route a).map (·.id) = some id := by
    rw [route_selected a id p hs hp]; simp [pairById_id hp]
  cases e with
  | write now len s =>
    dsimp only [pairDelta, selDelta]
    by_cases hc : answersOk len (step a (.write now len s)).2 = true ∧ len > 0
    · rw [if_pos hc, if_pos ⟨hc.1, hc.2, hr⟩]
    · rw [if_neg hc, if_neg (fun hh => hc ⟨hh.1, hh.2.1⟩)]
  | inboundData now la src len s =>
    dsimp only [pairDelta, selDelta]
    cases inboundAccepted a (.inboundData now la src len s) with
    | none => rfl
    | some n =>
      dsimp only
      by_cases hn : n > 0
      · rw [if_pos hn, if_pos ⟨hn, hs⟩]
      · rw [if_neg hn, if_neg (fun hh => hn hh.1)]
  | _ => rfl

theorem pairTally_selected (id : Nat) (a : Agent) (es : List Ev) (h : selectedAll id a es = true) :
    pairTally id a es = selTally id a es := by
  induction es generalizing a with
  | nil => rfl
  | cons e es ih =>
    simp only [selectedAll, Bool.and_eq_true, beq_iff_eq] at h
    obtain ⟨p, hp⟩ := Option.isSome_iff_exists.mp h.1.2
    simp only [pairTally, selTally]
    rw [pairDelta_selected a id e p h.1.1 hp, ih _ h.2]


end IceProofs.AgentC07
