import IceModel.WriteAbort
import IceProofs.CountP
/-!
# Inductive invariant of the write-abort protocol (DESIGN.md Appendix D.1, I1–I5 and auxiliaries)

Proved for every state reachable when `SetWriteDeadline(time.Now())` does not fail (`ReachableNF`):
any number of writer and aborter threads, all interleavings of the atomic steps.
-/
namespace IceProofs.WriteAbort
open IceModel.WriteAbort IceProofs.CountP

theorem committed_le_clearing (s : State) : s.nCommitted ≤ s.nClearing :=
  countP_le_of_imp _ _ _ (by intro a; cases a <;> simp [WLoc.committed, WLoc.clearing])

theorem w4_le_committed (s : State) : s.nW4 ≤ s.nCommitted :=
  countP_le_of_imp _ _ _ (by intro a; cases a <;> simp [WLoc.committed, WLoc.isW4])

theorem a2_le_active (s : State) : s.nA2 ≤ s.nActive :=
  countP_le_of_imp _ _ _ (by intro a; cases a <;> simp [ALoc.active, ALoc.isA2])

theorem a3_le_active (s : State) : s.nA3 ≤ s.nActive :=
  countP_le_of_imp _ _ _ (by intro a; cases a <;> simp [ALoc.active, ALoc.isA3])

/-- The invariant as arithmetic over the 0/1 values of the three flag bits and the thread counts
(`omega`-friendly form; the readable clauses are the fields of `Inv.clauses` below).
I1 `cnt = nFlight`; I2 (`b ∧ ¬d → nActive = 1`, `d → nActive = 0`, `¬b → nActive = 0`, no aborter in
the failure branch); I3 (`nClearing ≤ 1`, and then `cnt = 0 ∧ b`); I4 (`nCommitted > 0 → d`);
I5 (`r → b`); `d → b`; I6 (`b → cnt > 0 ∨ nClearing > 0`); I7 (`d ∧ nW4 = 0 → r`, `nA2 > 0 → r`);
I8 (`nW4 > 0 → ¬r`). -/
def InvN (cnt d b r nFlight nClearing nCommitted nW4 nActive nA2 nA3 : Nat) : Prop :=
  cnt = nFlight ∧ (b = 1 → d = 0 → nActive = 1) ∧ (d = 1 → nActive = 0) ∧ (b = 0 → nActive = 0) ∧ nA3 = 0
  ∧ nClearing ≤ 1 ∧ (0 < nClearing → cnt = 0 ∧ b = 1) ∧ (0 < nCommitted → d = 1) ∧ (r = 1 → b = 1)
  ∧ (d = 1 → b = 1) ∧ (b = 1 → 0 < cnt ∨ 0 < nClearing) ∧ (d = 1 → nW4 = 0 → r = 1) ∧ (0 < nA2 → r = 1)
  ∧ (0 < nW4 → r = 0)

/-- The inductive invariant of the non-failing system. -/
def Inv (s : State) : Prop :=
  InvN s.cnt s.dbit.toNat s.bbit.toNat s.rpast.toNat s.nFlight s.nClearing s.nCommitted s.nW4
    s.nActive s.nA2 s.nA3

theorem wr_set_counts {wr : List WLoc} {i : Nat} {a : WLoc} (b : WLoc) (h : wr[i]? = some a) :
    (wr.set i b).countP WLoc.inFlight + (if a.inFlight then 1 else 0) = wr.countP WLoc.inFlight + (if b.inFlight then 1 else 0)
    ∧ (wr.set i b).countP WLoc.clearing + (if a.clearing then 1 else 0) = wr.countP WLoc.clearing + (if b.clearing then 1 else 0)
    ∧ (wr.set i b).countP WLoc.committed + (if a.committed then 1 else 0) = wr.countP WLoc.committed + (if b.committed then 1 else 0)
    ∧ (wr.set i b).countP WLoc.isW4 + (if a.isW4 then 1 else 0) = wr.countP WLoc.isW4 + (if b.isW4 then 1 else 0) :=
  ⟨countP_set' _ b h, countP_set' _ b h, countP_set' _ b h, countP_set' _ b h⟩

theorem ab_set_counts {ab : List ALoc} {j : Nat} {a : ALoc} (b : ALoc) (h : ab[j]? = some a) :
    (ab.set j b).countP ALoc.active + (if a.active then 1 else 0) = ab.countP ALoc.active + (if b.active then 1 else 0)
    ∧ (ab.set j b).countP ALoc.isA2 + (if a.isA2 then 1 else 0) = ab.countP ALoc.isA2 + (if b.isA2 then 1 else 0)
    ∧ (ab.set j b).countP ALoc.isA3 + (if a.isA3 then 1 else 0) = ab.countP ALoc.isA3 + (if b.isA3 then 1 else 0) :=
  ⟨countP_set' _ b h, countP_set' _ b h, countP_set' _ b h⟩

theorem wr_get_counts {wr : List WLoc} {i : Nat} {a : WLoc} (h : wr[i]? = some a) :
    (if a.inFlight then 1 else 0) ≤ wr.countP WLoc.inFlight
    ∧ (if a.clearing then 1 else 0) ≤ wr.countP WLoc.clearing
    ∧ (if a.committed then 1 else 0) ≤ wr.countP WLoc.committed
    ∧ (if a.isW4 then 1 else 0) ≤ wr.countP WLoc.isW4 :=
  ⟨countP_ge_of_getElem? _ h, countP_ge_of_getElem? _ h, countP_ge_of_getElem? _ h, countP_ge_of_getElem? _ h⟩

theorem ab_get_counts {ab : List ALoc} {j : Nat} {a : ALoc} (h : ab[j]? = some a) :
    (if a.active then 1 else 0) ≤ ab.countP ALoc.active
    ∧ (if a.isA2 then 1 else 0) ≤ ab.countP ALoc.isA2
    ∧ (if a.isA3 then 1 else 0) ≤ ab.countP ALoc.isA3 :=
  ⟨countP_ge_of_getElem? _ h, countP_ge_of_getElem? _ h, countP_ge_of_getElem? _ h⟩

theorem le_facts (wr : List WLoc) (ab : List ALoc) :
    wr.countP WLoc.committed ≤ wr.countP WLoc.clearing ∧ wr.countP WLoc.isW4 ≤ wr.countP WLoc.committed
    ∧ ab.countP ALoc.isA2 ≤ ab.countP ALoc.active ∧ ab.countP ALoc.isA3 ≤ ab.countP ALoc.active :=
  ⟨countP_le_of_imp _ _ _ (by intro a; cases a <;> simp [WLoc.committed, WLoc.clearing]),
   countP_le_of_imp _ _ _ (by intro a; cases a <;> simp [WLoc.committed, WLoc.isW4]),
   countP_le_of_imp _ _ _ (by intro a; cases a <;> simp [ALoc.active, ALoc.isA2]),
   countP_le_of_imp _ _ _ (by intro a; cases a <;> simp [ALoc.active, ALoc.isA3])⟩

/-- unfold the invariant to arithmetic and close with `omega` -/
macro "wa_omega" : tactic => `(tactic| (
  simp only [Inv, InvN, State.nFlight, State.nClearing, State.nCommitted, State.nW4, State.nActive,
    State.nA2, State.nA3, Bool.toNat_false, Bool.toNat_true, true_implies, implies_true, and_true,
    true_and, List.countP_append, List.countP_singleton, WLoc.inFlight, WLoc.clearing, WLoc.committed,
    WLoc.isW4, ALoc.active, ALoc.isA2, ALoc.isA3, Bool.false_eq_true, if_false, if_true, ite_true, ite_false,
    Nat.add_zero] at * <;> omega))

theorem inv_init : Inv State.init := by
  simp [Inv, InvN, State.init, State.nFlight, State.nActive, State.nA3, State.nClearing,
    State.nCommitted, State.nW4, State.nA2]

theorem inv_spawnW {s s' : State} (hi : Inv s) (h : step s .spawnW = some s') : Inv s' := by
  obtain ⟨cnt, d, b, r, ep, wr, ab⟩ := s
  simp only [step, Option.some.injEq] at h; subst h
  wa_omega

theorem inv_spawnA {s s' : State} (hi : Inv s) (h : step s .spawnA = some s') : Inv s' := by
  obtain ⟨cnt, d, b, r, ep, wr, ab⟩ := s
  simp only [step, Option.some.injEq] at h; subst h
  wa_omega

theorem inv_startCtxErr {s s' : State} {i : Nat} (hi : Inv s) (h : step s (.startCtxErr i) = some s') : Inv s' := by
  obtain ⟨cnt, d, b, r, ep, wr, ab⟩ := s
  dsimp only [step] at h
  cases hw : wr[i]? with
  | none => simp [hw] at h
  | some w =>
    cases w <;> simp [hw] at h
    obtain ⟨c1, c2, c3, c4⟩ := wr_set_counts .done hw
    obtain ⟨l1, l2, l3, l4⟩ := le_facts wr ab
    obtain ⟨g1, g2, g3, g4⟩ := wr_get_counts hw
    subst h
    cases b <;> cases d <;> cases r <;> wa_omega

theorem inv_start {s s' : State} {i : Nat} (hi : Inv s) (h : step s (.start i) = some s') : Inv s' := by
  obtain ⟨cnt, d, b, r, ep, wr, ab⟩ := s
  dsimp only [step] at h
  cases hw : wr[i]? with
  | none => simp [hw] at h
  | some w =>
    cases w <;> simp [hw] at h
    obtain ⟨c1, c2, c3, c4⟩ := wr_set_counts .w1 hw
    obtain ⟨l1, l2, l3, l4⟩ := le_facts wr ab
    obtain ⟨g1, g2, g3, g4⟩ := wr_get_counts hw
    cases b <;> cases d <;> cases r <;> simp at h <;> subst h <;> wa_omega

theorem inv_writeRet {s s' : State} {i : Nat} {res : WRes} (hi : Inv s) (h : step s (.writeRet i res) = some s') : Inv s' := by
  obtain ⟨cnt, d, b, r, ep, wr, ab⟩ := s
  dsimp only [step] at h
  cases hw : wr[i]? with
  | none => simp [hw] at h
  | some w =>
    cases w <;> simp [hw] at h
    obtain ⟨_, h⟩ := h
    obtain ⟨c1, c2, c3, c4⟩ := wr_set_counts .w2 hw
    obtain ⟨l1, l2, l3, l4⟩ := le_facts wr ab
    obtain ⟨g1, g2, g3, g4⟩ := wr_get_counts hw
    subst h
    cases b <;> cases d <;> cases r <;> wa_omega

theorem inv_finish {s s' : State} {i : Nat} (hi : Inv s) (h : step s (.finish i) = some s') : Inv s' := by
  obtain ⟨cnt, d, b, r, ep, wr, ab⟩ := s
  dsimp only [step] at h
  cases hw : wr[i]? with
  | none => simp [hw] at h
  | some w =>
    cases w <;> simp [hw] at h
    obtain ⟨c1, c2, c3, c4⟩ := wr_set_counts .done hw
    obtain ⟨e1, e2, e3, e4⟩ := wr_set_counts (.w3 ep) hw
    obtain ⟨l1, l2, l3, l4⟩ := le_facts wr ab
    obtain ⟨g1, g2, g3, g4⟩ := wr_get_counts hw
    by_cases hc0 : cnt = 0
    · simp [hc0] at h; subst h; subst hc0
      cases b <;> cases d <;> cases r <;> wa_omega
    · by_cases hc1 : cnt = 1
      · subst hc1
        cases b <;> cases d <;> cases r <;> simp at h <;> subst h <;> wa_omega
      · simp [hc0, hc1] at h; subst h
        cases b <;> cases d <;> cases r <;> wa_omega

theorem inv_clearLoad {s s' : State} {i : Nat} (hi : Inv s) (h : step s (.clearLoad i) = some s') : Inv s' := by
  obtain ⟨cnt, d, b, r, ep, wr, ab⟩ := s
  dsimp only [step] at h
  cases hw : wr[i]? with
  | none => simp [hw] at h
  | some w =>
    cases w <;> simp [hw] at h
    rename_i e0
    obtain ⟨c1, c2, c3, c4⟩ := wr_set_counts .done hw
    obtain ⟨e1, e2, e3, e4⟩ := wr_set_counts (.w3c e0) hw
    obtain ⟨l1, l2, l3, l4⟩ := le_facts wr ab
    obtain ⟨g1, g2, g3, g4⟩ := wr_get_counts hw
    cases b <;> cases d <;> cases r <;> simp at h <;> subst h <;> wa_omega

theorem inv_clearSet {s s' : State} {i : Nat} (hi : Inv s) (h : step s (.clearSet i) = some s') : Inv s' := by
  obtain ⟨cnt, d, b, r, ep, wr, ab⟩ := s
  dsimp only [step] at h
  cases hw : wr[i]? with
  | none => simp [hw] at h
  | some w =>
    cases w <;> simp [hw] at h
    rename_i e0
    obtain ⟨c1, c2, c3, c4⟩ := wr_set_counts (.w4 e0) hw
    obtain ⟨l1, l2, l3, l4⟩ := le_facts wr ab
    obtain ⟨g1, g2, g3, g4⟩ := wr_get_counts hw
    subst h
    cases b <;> cases d <;> cases r <;> wa_omega

theorem inv_clearStore {s s' : State} {i : Nat} (hi : Inv s) (h : step s (.clearStore i) = some s') : Inv s' := by
  obtain ⟨cnt, d, b, r, ep, wr, ab⟩ := s
  dsimp only [step] at h
  cases hw : wr[i]? with
  | none => simp [hw] at h
  | some w =>
    cases w <;> simp [hw] at h
    obtain ⟨c1, c2, c3, c4⟩ := wr_set_counts .done hw
    obtain ⟨l1, l2, l3, l4⟩ := le_facts wr ab
    obtain ⟨g1, g2, g3, g4⟩ := wr_get_counts hw
    subst h
    cases b <;> cases d <;> cases r <;> wa_omega

theorem inv_abortCas {s s' : State} {j : Nat} (hi : Inv s) (h : step s (.abortCas j) = some s') : Inv s' := by
  obtain ⟨cnt, d, b, r, ep, wr, ab⟩ := s
  dsimp only [step] at h
  cases hw : ab[j]? with
  | none => simp [hw] at h
  | some w =>
    cases w <;> simp [hw] at h
    obtain ⟨c1, c2, c3⟩ := ab_set_counts (.done false) hw
    obtain ⟨e1, e2, e3⟩ := ab_set_counts .a1 hw
    obtain ⟨l1, l2, l3, l4⟩ := le_facts wr ab
    obtain ⟨g1, g2, g3⟩ := ab_get_counts hw
    by_cases hc0 : cnt = 0
    · subst hc0
      cases b <;> cases d <;> cases r <;> simp at h <;> subst h <;> wa_omega
    · cases b <;> cases d <;> cases r <;> simp [hc0] at h <;> subst h <;> wa_omega

theorem inv_abortSetOk {s s' : State} {j : Nat} (hi : Inv s) (h : step s (.abortSet j true) = some s') : Inv s' := by
  obtain ⟨cnt, d, b, r, ep, wr, ab⟩ := s
  dsimp only [step] at h
  cases hw : ab[j]? with
  | none => simp [hw] at h
  | some w =>
    cases w <;> simp [hw] at h
    obtain ⟨c1, c2, c3⟩ := ab_set_counts .a2 hw
    obtain ⟨l1, l2, l3, l4⟩ := le_facts wr ab
    obtain ⟨g1, g2, g3⟩ := ab_get_counts hw
    subst h
    cases b <;> cases d <;> cases r <;> wa_omega

theorem inv_abortArm {s s' : State} {j : Nat} (hi : Inv s) (h : step s (.abortArm j) = some s') : Inv s' := by
  obtain ⟨cnt, d, b, r, ep, wr, ab⟩ := s
  dsimp only [step] at h
  cases hw : ab[j]? with
  | none => simp [hw] at h
  | some w =>
    cases w <;> simp [hw] at h
    obtain ⟨c1, c2, c3⟩ := ab_set_counts (.done false) hw
    obtain ⟨l1, l2, l3, l4⟩ := le_facts wr ab
    obtain ⟨g1, g2, g3⟩ := ab_get_counts hw
    cases b <;> cases d <;> cases r <;> simp at h <;> subst h <;> wa_omega

theorem inv_abortClear {s s' : State} {j : Nat} (hi : Inv s) (h : step s (.abortClear j) = some s') : Inv s' := by
  obtain ⟨cnt, d, b, r, ep, wr, ab⟩ := s
  dsimp only [step] at h
  cases hw : ab[j]? with
  | none => simp [hw] at h
  | some w =>
    cases w <;> simp [hw] at h
    obtain ⟨c1, c2, c3⟩ := ab_set_counts (.done true) hw
    obtain ⟨l1, l2, l3, l4⟩ := le_facts wr ab
    obtain ⟨g1, g2, g3⟩ := ab_get_counts hw
    subst h
    cases b <;> cases d <;> cases r <;> wa_omega

/-- Every non-failing step preserves the invariant. -/
theorem inv_step {s s' : State} {a : Action} (hi : Inv s) (hnf : a.nonFailing = true)
    (h : step s a = some s') : Inv s' := by
  cases a with
  | spawnW => exact inv_spawnW hi h
  | spawnA => exact inv_spawnA hi h
  | startCtxErr i => exact inv_startCtxErr hi h
  | start i => exact inv_start hi h
  | writeRet i r => exact inv_writeRet hi h
  | finish i => exact inv_finish hi h
  | clearLoad i => exact inv_clearLoad hi h
  | clearSet i => exact inv_clearSet hi h
  | clearStore i => exact inv_clearStore hi h
  | abortCas j => exact inv_abortCas hi h
  | abortSet j ok =>
    cases ok with
    | true => exact inv_abortSetOk hi h
    | false => simp [Action.nonFailing] at hnf
  | abortArm j => exact inv_abortArm hi h
  | abortClear j => exact inv_abortClear hi h

theorem inv_of_reachableNF {s : State} (h : ReachableNF s) : Inv s := by
  induction h with
  | init => exact inv_init
  | step a _ hnf hs ih => exact inv_step ih hnf hs

end IceProofs.WriteAbort
