import IceProofs.Sys2C20OutsQ
/-!
# C20 — the automatic check: who may issue, and which values

* `autoCheck_out`: what `Agent.autoCheck` (= `checkForAutomaticRenomination`) emits, and under which conditions.
* `issuesOf_disabled` (with `issuesOf_controlled` of `Sys2C20OutsQ`): an agent that is controlled after the step, or was
  built without `WithRenomination`, issues nothing in it (neither through `RenominateCandidate` nor by itself).
* `CL a a'` / `step_counter_log`: the automatic issues of a step draw consecutive values from the counter of the value
  generator: the `k`-th nomination the automatic check issues carries the value `(nomCounter + k) mod 2^32`.
-/
namespace IceProofs.C20S
open IceModel.AgentCore IceProofs.Agent IceProofs.Sys2C05

/-! ## what the automatic check emits -/

/-- `checkForAutomaticRenomination` emits nothing, or exactly one Binding request: the nomination of the best pair, from a
controlling agent with both options on, the interval elapsed (since the selector started and since the last automatic
renomination), a selected pair `cur`, the best succeeded pair `best` and `shouldRenominate cur best`. -/
theorem autoCheck_out (a : Agent) (now : Nat) :
    (a.autoCheck now).2 = [] ∨
    ∃ cur best l r, a.controlling = true ∧ a.cfg.enableRenomination = true ∧ a.cfg.autoRenom = true ∧
      a.cfg.renomInterval ≤ now - a.selStart ∧ (∀ t, a.lastRenomTime = some t → a.cfg.renomInterval ≤ now - t) ∧
      a.selected.bind a.pairById = some cur ∧ a.findBest now = some best ∧ a.shouldRenominate now cur best = true ∧
      a.localOf best.l = some l ∧ a.remoteOf best.r = some r ∧ (a.findPair l r).isSome = true ∧
      (a.autoCheck now).2 =
        [.dgram l.addr r.addr { cls := 0, tid := 2 * a.nextTid + a.tag, user := some (a.remoteUfrag ++ ":" ++ a.localUfrag),
                                 key := some a.remotePwd, prio := some l.prio, useCand := true,
                                 role := some (true, a.tieBreaker),
                                 nom := if a.nextNomValue > 0 then some a.nextNomValue else none }] := by
  unfold Agent.autoCheck
  split
  · exact Or.inl rfl
  · rename_i hdue
    have hd : a.autoDue now = true := by simpa using hdue
    unfold Agent.autoDue at hd
    simp only [Bool.and_eq_true, Bool.not_eq_true', decide_eq_false_iff_not, Nat.not_lt] at hd
    obtain ⟨⟨⟨hau, hen⟩, hst⟩, hlast⟩ := hd
    split
    · exact Or.inl rfl
    · rename_i cur hcur
      split
      · exact Or.inl rfl
      · rename_i best hbest
        split
        · rename_i hsr
          split
          · rename_i l r hl hr
            unfold Agent.autoIssue
            split
            · exact Or.inl rfl
            · rename_i hc
              have hc' : a.controlling = true := by simpa using hc
              split
              · exact Or.inl rfl
              · split
                · exact Or.inl rfl
                · rename_i p hp
                  refine Or.inr ⟨cur, best, l, r, hc', hen, hau, hst, ?_, hcur, hbest, hsr, hl, hr, ?_, ?_⟩
                  · intro t ht
                    rw [ht] at hlast
                    simpa using hlast
                  · show (Agent.findPair { a with lastRenomTime := some now } l r).isSome = true
                    rw [hp]; rfl
                  · simp only []
                    rw [sendRequest_out]
                    show [Out.dgram l.addr r.addr _] = _
                    rw [hc']
                    rfl
          · exact Or.inl rfl
        · exact Or.inl rfl

/-! ## an agent that was built without renomination issues nothing -/

theorem ilog_valKeep (a : Agent) (now : Nat) : (C03.valKeep a now).1.ilog = a.ilog := by
  unfold C03.valKeep
  ilog_cases

theorem ilog_contactCandidates_off (a : Agent) (now : Nat)
    (hq : a.controlling = false ∨ a.cfg.enableRenomination = false) : (a.contactCandidates now).1.ilog = a.ilog := by
  rcases hq with hc | he
  · exact ilog_contactCandidates_cld a now hc
  · by_cases hc : a.controlling = true
    · by_cases hs : a.selected.isSome = true
      · rw [contactCandidates_sel_eq a now hs, if_pos hc, C03.valKeepAuto_off a now (by rw [he]; simp)]
        exact ilog_valKeep a now
      · unfold Agent.contactCandidates
        rw [if_pos hc, if_neg hs]
        ilog_cases
    · exact ilog_contactCandidates_cld a now (by simpa using hc)

theorem ilog_contact_off (a : Agent) (now : Nat) (hq : a.controlling = false ∨ a.cfg.enableRenomination = false) :
    (a.contact now).1.ilog = a.ilog := by
  rw [C03.contact_eq]
  have hk : (C03.chk a now).controlling = false ∨ (C03.chk a now).cfg.enableRenomination = false := by
    unfold C03.chk; split <;> exact hq
  have hki : (C03.chk a now).ilog = a.ilog := by
    unfold C03.chk; split <;> rfl
  split
  · rfl
  · split
    · rfl
    · split
      · exact (ilog_setConnState _ _).trans hki
      · exact (ilog_contactCandidates_off _ now hk).trans hki
    · exact ilog_contactCandidates_off a now hq

theorem ilog_runForced_off (a : Agent) (now : Nat) (hq : a.controlling = false ∨ a.cfg.enableRenomination = false) :
    (a.runForced now).1.ilog = a.ilog := by
  unfold Agent.runForced
  split
  · have h := ilog_contact_off { a with forcePending := false } now hq
    generalize Agent.contact { a with forcePending := false } now = r at h ⊢
    obtain ⟨a1, o1⟩ := r
    exact h
  · rfl

theorem ilog_runTimers_off (a : Agent) (now fuel : Nat) (hq : a.controlling = false ∨ a.cfg.enableRenomination = false) :
    (a.runTimers now fuel).1.ilog = a.ilog := by
  induction fuel generalizing a with
  | zero => rfl
  | succ n ih =>
    unfold Agent.runTimers
    split
    · rename_i t _
      split
      · have h1 := ilog_contact_off a t hq
        have hc1 : (a.contact t).1.controlling = false ∨ (a.contact t).1.cfg.enableRenomination = false := by
          have e1 := congrArg Core.controlling (core_contact a t)
          have e2 := congrArg Core.cfg (core_contact a t)
          simp only [core_controlling, core_cfg] at e1 e2
          rw [e1, e2]; exact hq
        generalize a.contact t = r at h1 hc1 ⊢
        obtain ⟨a1, o1⟩ := r
        simp only [] at h1 hc1 ⊢
        have h2 := ih { a1 with nextTick := some (t + a1.interval) } hc1
        generalize Agent.runTimers { a1 with nextTick := some (t + a1.interval) } now n = r2 at h2 ⊢
        obtain ⟨a2, o2⟩ := r2
        exact h2.trans h1
      · rfl
    · rfl

theorem handleInbound_cfg (a : Agent) (now : Nat) (l : Cand) (src : Nat) (m : Msg) :
    (a.handleInbound now l src m).1.cfg = a.cfg := by
  have h := congrArg Core.cfg (core_handleInbound a now l src m)
  simp only [core_cfg] at h
  rw [h]
  split
  · rfl
  · split <;> rfl

/-- **Only an agent with the feature enabled issues a nomination** — through `RenominateCandidate` or by itself: an agent
built without `WithRenomination` never appends to the log of issued nominations. -/
theorem issuesOf_disabled (a : Agent) (e : Ev) (he : a.cfg.enableRenomination = false) : issuesOf a e = [] := by
  apply logSfx_of_eq
  apply ilog_field
  have hcfg : ∀ (b : Agent), b.cfg = a.cfg → b.cfg.enableRenomination = false := fun b h => by rw [h]; exact he
  have hcore : ∀ (b : Agent), b.core = a.core → b.cfg = a.cfg := fun b h => by
    have := congrArg Core.cfg h
    simpa only [core_cfg] using this
  cases e with
  | addLocal now c =>
    have e1 : (step a (.addLocal now c)).1 = ((a.addLocalCandidate c).1.runForced now).1 := rfl
    rw [e1]
    exact (ilog_runForced_off _ now (Or.inr (hcfg _ (hcore _ (core_addLocalCandidate a c))))).trans (ilog_addLocalCandidate a c)
  | addRemote now c =>
    by_cases h1 : a.closed = true
    · simp [step, h1]
    · by_cases h2 : (c.tt == 1) = true
      · simp [step, h1, h2]
      · have e1 : (step a (.addRemote now c)).1 = ((a.addRemoteCandidate c).1.runForced now).1 := by
          simp only [step, h1, h2, Bool.false_eq_true, if_false]
        rw [e1]
        exact (ilog_runForced_off _ now (Or.inr (hcfg _ (hcore _ (core_addRemoteCandidate a c))))).trans (ilog_addRemoteCandidate a c)
  | start now ctl ru rp =>
    rw [C03.step_start_eq]
    by_cases h1 : a.closed = true
    · simp [h1]
    · by_cases h2 : a.started = true
      · simp [h1, h2]
      · by_cases h3 : (ru == "") = true
        · simp [h1, h2, h3]
        · by_cases h4 : (rp == "") = true
          · simp [h1, h2, h3, h4]
          · simp only [h1, h2, h3, h4, Bool.false_eq_true, if_false]
            unfold C03.startCore
            simp only []
            refine (ilog_runForced_off _ now (Or.inr ?_)).trans ((ilog_setConnState _ _).trans rfl)
            have e2 := congrArg Core.cfg (core_setConnState (C03.startA0 a now ctl ru rp) .checking)
            simp only [core_cfg] at e2
            show ((C03.startA0 a now ctl ru rp).setConnState .checking).1.cfg.enableRenomination = false
            rw [e2]; exact he
  | setRemoteCreds ru rp => simp only [step]; ilog_cases
  | advance now =>
    have e1 : (step a (.advance now)).1 = (a.runTimers now 100000).1 := rfl
    rw [e1]
    exact ilog_runTimers_off a now 100000 (Or.inr he)
  | inbound now la src m =>
    rw [C03.step_inbound_proj]
    by_cases h1 : (a.closed || !a.started) = true
    · simp [h1]
    · cases hl : a.localByAddr la with
      | none => simp [h1]
      | some l =>
        simp only [h1, Bool.false_eq_true, if_false]
        exact (ilog_runForced_off _ now (Or.inr (hcfg _ (handleInbound_cfg a now l src m)))).trans
          (ilog_handleInbound a now l src m)
  | inboundData now la src len s => simp only [step]; ilog_cases
  | write now len s => simp [step]
  | writeToPair now id len s => simp [step]
  | read cap => simp only [step]; ilog_cases
  | renominate now la ri v => simp only [step, he]; split <;> rfl
  | restart now u p => simp only [step]; ilog_cases
  | close => simp only [step]; ilog_cases

/-! ## the values the automatic check draws -/

/-- `n` consecutive values drawn from a counter that stands at `c`: `(c+1) mod 2^32, (c+2) mod 2^32, …` -/
def drawn (c n : Nat) : List Nat := (List.range n).map fun i => (c + 1 + i) % 4294967296

theorem drawn_length (c n : Nat) : (drawn c n).length = n := by simp [drawn]

theorem drawn_append (c n m : Nat) : drawn c (n + m) = drawn c n ++ drawn (c + n) m := by
  unfold drawn
  rw [List.range_add, List.map_append, List.map_map]
  congr 1
  apply List.map_congr_left
  intro i _
  simp only [Function.comp]
  congr 1
  omega

/-- consecutive draws are strictly increasing as long as the counter does not wrap around -/
theorem drawn_increasing (c n : Nat) (h : c + n < 4294967296) : (drawn c n).Pairwise (· < ·) := by
  unfold drawn
  rw [List.pairwise_map]
  refine List.Pairwise.imp_of_mem ?_ (List.pairwise_lt_range (n := n))
  intro i j hi hj hij
  have hi' := List.mem_range.mp hi
  have hj' := List.mem_range.mp hj
  rw [Nat.mod_eq_of_lt (by omega), Nat.mod_eq_of_lt (by omega)]
  omega

/-- `CL a a'`: the log grew, the counter of the value generator moved by the number of entries appended, and their values
are the ones drawn from it, in order — (`a`, `a'` around the work of the AUTOMATIC check; `RenominateCandidate` takes its
value from the caller and leaves the counter alone) -/
structure CL (a a' : Agent) : Prop where
  log : a.nomIssued <+: a'.nomIssued
  cnt : a'.nomCounter = a.nomCounter + (logSfx a a').length
  vals : (logSfx a a').map (·.1) = drawn a.nomCounter (logSfx a a').length

theorem CL.of_ilog {a a' : Agent} (h : a'.ilog = a.ilog) : CL a a' := by
  have hs : logSfx a a' = [] := logSfx_of_eq (ilog_field h)
  exact ⟨by rw [ilog_field h]; exact List.prefix_refl _, by rw [hs, ilog_counter h]; rfl, by rw [hs]; rfl⟩

theorem CL.refl (a : Agent) : CL a a := CL.of_ilog rfl

theorem CL.trans {a b c : Agent} (h1 : CL a b) (h2 : CL b c) : CL a c := by
  have hs := logSfx_trans h1.log h2.log
  refine ⟨List.IsPrefix.trans h1.log h2.log, ?_, ?_⟩
  · rw [hs, List.length_append, h2.cnt, h1.cnt]; omega
  · rw [hs, List.map_append, List.length_append, drawn_append, h1.vals, h2.vals, h1.cnt]

theorem ilog_keepAliveAll (a : Agent) (now : Nat) : (a.keepAliveAll now).1.ilog = a.ilog := by
  unfold Agent.keepAliveAll
  refine IceProofs.List.foldl_inv (fun acc : Agent × List Out => acc.1.ilog = a.ilog) _ _ _ rfl ?_
  intro acc id h
  obtain ⟨b, o⟩ := acc
  simp only at h ⊢
  split
  · exact h
  · split
    · exact h
    · split
      · split <;> simp [h]
      · split <;> simp [h]

/-- the one nomination `autoIssue` may issue carries the next value of the counter -/
theorem autoIssue_cl (a : Agent) (now : Nat) (l r : Cand) : CL a (a.autoIssue now l r).1 := by
  unfold Agent.autoIssue
  split
  · exact CL.refl a
  · split
    · exact CL.refl a
    · split
      · exact CL.refl a
      · simp only []
        have hi := ilog_sendRequest ({ a with nomCounter := a.nomCounter + 1 } : Agent) now l r true
          (if a.nextNomValue > 0 then some a.nextNomValue else none)
        have hlog := ilog_field hi
        have hcnt := ilog_counter hi
        generalize Agent.sendRequest ({ a with nomCounter := a.nomCounter + 1 } : Agent) now l r true
          (if a.nextNomValue > 0 then some a.nextNomValue else none) = s1 at hlog hcnt ⊢
        obtain ⟨a1, o1⟩ := s1
        simp only [] at hlog hcnt ⊢
        have hs : logSfx a ({ a1 with nomIssued := a1.nomIssued ++ [(a.nextNomValue, l.addr, r.addr)] } : Agent)
            = [(a.nextNomValue, l.addr, r.addr)] := logSfx_of_append (by
              show a1.nomIssued ++ _ = _
              rw [hlog])
        refine ⟨?_, ?_, ?_⟩
        · show a.nomIssued <+: a1.nomIssued ++ _
          rw [hlog]; exact List.prefix_append _ _
        · rw [hs]
          show a1.nomCounter = _
          rw [hcnt]; rfl
        · rw [hs]
          rfl

theorem autoCheck_cl (a : Agent) (now : Nat) : CL a (a.autoCheck now).1 := by
  unfold Agent.autoCheck
  split
  · exact CL.refl a
  · split
    · exact CL.refl a
    · split
      · exact CL.refl a
      · split
        · split
          · exact (CL.of_ilog (a := a) (a' := { a with lastRenomTime := some now }) rfl).trans (autoIssue_cl _ now _ _)
          · exact CL.of_ilog rfl
        · exact CL.refl a

theorem autoRenom_cl (a : Agent) (now : Nat) : CL a (a.autoRenom now).1 := by
  unfold Agent.autoRenom
  simp only []
  split
  · exact (CL.of_ilog (ilog_keepAliveAll a now)).trans (autoCheck_cl _ now)
  · exact autoCheck_cl a now

theorem valKeepAuto_cl (a : Agent) (now : Nat) : CL a (C03.valKeepAuto a now).1 := by
  unfold C03.valKeepAuto
  have h1 : CL a (a.validateSelected now).1 := CL.of_ilog (ilog_validateSelected a now)
  generalize a.validateSelected now = r at h1 ⊢
  obtain ⟨a1, o1, ok⟩ := r
  simp only [] at h1 ⊢
  split
  · exact (h1.trans (CL.of_ilog (ilog_keepalive a1 now))).trans (autoRenom_cl _ now)
  · exact h1

theorem contactCandidates_cl (a : Agent) (now : Nat) : CL a (a.contactCandidates now).1 := by
  by_cases hc : a.controlling = true
  · by_cases hs : a.selected.isSome = true
    · rw [contactCandidates_sel_eq a now hs, if_pos hc]
      exact valKeepAuto_cl a now
    · refine CL.of_ilog ?_
      unfold Agent.contactCandidates
      rw [if_pos hc, if_neg hs]
      ilog_cases
  · exact CL.of_ilog (ilog_contactCandidates_cld a now (by simpa using hc))

theorem contact_cl (a : Agent) (now : Nat) : CL a (a.contact now).1 := by
  rw [C03.contact_eq]
  have hki : (C03.chk a now).ilog = a.ilog := by
    unfold C03.chk; split <;> rfl
  split
  · exact CL.refl a
  · split
    · exact CL.of_ilog rfl
    · split
      · exact CL.of_ilog ((ilog_setConnState _ _).trans hki)
      · exact ((CL.of_ilog hki).trans (contactCandidates_cl _ now)).trans (CL.of_ilog rfl)
    · exact (contactCandidates_cl a now).trans (CL.of_ilog rfl)

theorem runForced_cl (a : Agent) (now : Nat) : CL a (a.runForced now).1 := by
  unfold Agent.runForced
  split
  · have h := contact_cl { a with forcePending := false } now
    generalize Agent.contact { a with forcePending := false } now = r at h ⊢
    obtain ⟨a1, o1⟩ := r
    exact ((CL.of_ilog (a := a) (a' := { a with forcePending := false }) rfl).trans h).trans (CL.of_ilog rfl)
  · exact CL.refl a

theorem runTimers_cl (a : Agent) (now fuel : Nat) : CL a (a.runTimers now fuel).1 := by
  induction fuel generalizing a with
  | zero => exact CL.refl a
  | succ n ih =>
    unfold Agent.runTimers
    split
    · rename_i t _
      split
      · have h1 := contact_cl a t
        generalize a.contact t = r at h1 ⊢
        obtain ⟨a1, o1⟩ := r
        simp only [] at h1 ⊢
        have h2 := ih { a1 with nextTick := some (t + a1.interval) }
        generalize Agent.runTimers { a1 with nextTick := some (t + a1.interval) } now n = r2 at h2 ⊢
        obtain ⟨a2, o2⟩ := r2
        exact (h1.trans (CL.of_ilog (a := a1) (a' := { a1 with nextTick := some (t + a1.interval) }) rfl)).trans h2
      · exact CL.refl a
    · exact CL.refl a

/-- **Every step but `RenominateCandidate`**: what the step appends to the log of issued nominations are the automatic
check's nominations, and their values are consecutive draws from the counter of the value generator. -/
theorem step_counter_log (a : Agent) (e : Ev) (hne : ∀ now la ri v, e ≠ .renominate now la ri v) : CL a (step a e).1 := by
  cases e with
  | addLocal now c =>
    have e1 : (step a (.addLocal now c)).1 = ((a.addLocalCandidate c).1.runForced now).1 := rfl
    rw [e1]
    exact (CL.of_ilog (ilog_addLocalCandidate a c)).trans (runForced_cl _ now)
  | addRemote now c =>
    by_cases h1 : a.closed = true
    · exact CL.of_ilog (by simp [step, h1])
    · by_cases h2 : (c.tt == 1) = true
      · exact CL.of_ilog (by simp [step, h1, h2])
      · have e1 : (step a (.addRemote now c)).1 = ((a.addRemoteCandidate c).1.runForced now).1 := by
          simp only [step, h1, h2, Bool.false_eq_true, if_false]
        rw [e1]
        exact (CL.of_ilog (ilog_addRemoteCandidate a c)).trans (runForced_cl _ now)
  | start now ctl ru rp =>
    rw [C03.step_start_eq]
    by_cases h1 : a.closed = true
    · exact CL.of_ilog (by simp [h1])
    · by_cases h2 : a.started = true
      · exact CL.of_ilog (by simp [h1, h2])
      · by_cases h3 : (ru == "") = true
        · exact CL.of_ilog (by simp [h1, h2, h3])
        · by_cases h4 : (rp == "") = true
          · exact CL.of_ilog (by simp [h1, h2, h3, h4])
          · simp only [h1, h2, h3, h4, Bool.false_eq_true, if_false]
            unfold C03.startCore
            simp only []
            have h1 : CL a (C03.startA1 ((C03.startA0 a now ctl ru rp).setConnState .checking).1) :=
              CL.of_ilog ((ilog_setConnState (C03.startA0 a now ctl ru rp) .checking).trans rfl)
            exact h1.trans (runForced_cl _ now)
  | setRemoteCreds ru rp => exact CL.of_ilog (by simp only [step]; ilog_cases)
  | advance now => exact runTimers_cl a now 100000
  | inbound now la src m =>
    rw [C03.step_inbound_proj]
    by_cases h1 : (a.closed || !a.started) = true
    · exact CL.of_ilog (by simp [h1])
    · cases hl : a.localByAddr la with
      | none => exact CL.of_ilog (by simp [h1])
      | some l =>
        simp only [h1, Bool.false_eq_true, if_false]
        exact (CL.of_ilog (ilog_handleInbound a now l src m)).trans (runForced_cl _ now)
  | inboundData now la src len s => exact CL.of_ilog (by simp only [step]; ilog_cases)
  | write now len s => exact CL.of_ilog (by simp [step])
  | writeToPair now id len s => exact CL.of_ilog (by simp [step])
  | read cap => exact CL.of_ilog (by simp only [step]; ilog_cases)
  | renominate now la ri v => exact absurd rfl (hne now la ri v)
  | restart now u p => exact CL.of_ilog (by simp only [step]; ilog_cases)
  | close => exact CL.of_ilog (by simp only [step]; ilog_cases)

/-- `RenominateCandidate` takes its value from the caller: the counter stays -/
theorem step_renominate_counter (a : Agent) (now la ri v : Nat) :
    (step a (.renominate now la ri v)).1.nomCounter = a.nomCounter := by
  by_cases hc : a.controlling = true
  · by_cases he : a.cfg.enableRenomination = true
    · cases hl : a.localByAddr la with
      | none => simp [step, hc, he, hl]
      | some l =>
        cases hr : a.remotes[ri]? with
        | none => simp [step, hc, he, hl, hr]
        | some r =>
          cases hp : a.findPair l r with
          | none => simp [step, hc, he, hl, hr, hp]
          | some p =>
            simp only [step, hc, he, hl, hr, hp, Bool.not_true, Bool.false_eq_true, if_false]
            exact ilog_counter (ilog_sendRequest a now l r true (if v > 0 then some v else none))
    · have he' : a.cfg.enableRenomination = false := by simpa using he
      simp [step, hc, he']
  · have hc' : a.controlling = false := by simpa using hc
    simp [step, hc']

end IceProofs.C20S
