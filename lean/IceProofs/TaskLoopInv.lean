import IceModel.TaskLoop
/-!
# The inductive invariant of the task-loop model (DESIGN Appendix D.2, J1–J5)

`Inv s` = every submitter satisfies `SubOK` relative to what the loop thread is doing with its task,
every closer satisfies `CloserOK`, and the shared flags satisfy `GlobOK`.  `inv_init` and one small
preservation lemma per transition; `inv_step` / `inv_run` / `inv_reachable` put them together.
-/
namespace IceProofs.TaskLoop
open IceModel.TaskLoop

/-- What the loop thread is currently doing with the task of call `x`. -/
inductive View where
  | other | got | running | closing
  deriving DecidableEq, Repr

def view : LoopPc → Nat → View
  | .got i, x => if x = i then .got else .other
  | .running i, x => if x = i then .running else .other
  | .nested i _, x => if x = i then .running else .other
  | .closePriv i, x => if x = i then .closing else .other
  | _, _ => .other

/-- Local invariant of one submitter (J1–J3).  `v` = the loop's view of this submitter's task. -/
def SubOK (v : View) (u : Sub) : Prop :=
  u.returned = (match u.pc with | .ret r => some r | _ => none) ∧
  (match v with
   | .got => u.pc = .handedOff ∧ u.offered = true ∧ u.privDone = false ∧ u.taken = 1 ∧ u.started = 0 ∧ u.finished = 0
   | .running => u.pc = .handedOff ∧ u.offered = true ∧ u.privDone = false ∧ u.taken = 1 ∧ u.started = 1 ∧ u.finished = 0
   | .closing => u.pc = .handedOff ∧ u.offered = true ∧ u.privDone = false ∧ u.taken = 1 ∧ u.started = 1 ∧ u.finished = 1
   | .other =>
     match u.pc with
     | .handedOff | .ret .nil => u.offered = true ∧ u.privDone = true ∧ u.taken = 1 ∧ u.started = 1 ∧ u.finished = 1
     | .select => u.offered = true ∧ u.privDone = false ∧ u.taken = 0 ∧ u.started = 0 ∧ u.finished = 0
     | .ret .ctx => u.ctxDone = true ∧ u.privDone = false ∧ u.taken = 0 ∧ u.started = 0 ∧ u.finished = 0
     | _ => u.privDone = false ∧ u.taken = 0 ∧ u.started = 0 ∧ u.finished = 0)

/-- The loop thread has left its `for` (J4). -/
def left : LoopPc → Bool
  | .leaving | .inOnClose | .closeTLD | .exited => true
  | _ => false

/-- `onClose` has been called. -/
def onclosed : LoopPc → Bool
  | .inOnClose | .closeTLD | .exited => true
  | _ => false

/-- `onClose` has returned. -/
def oncloseEnded : LoopPc → Bool
  | .closeTLD | .exited => true
  | _ => false

/-- Local invariant of one closer (J5 and the `sync.Once` discipline). -/
def CloserOK (s : State) (j : Nat) (c : Closer) : Prop :=
  match c.pc with
  | .idle => True
  | .atOnce => s.anyCloseCalled = true
  | .inStore => s.once = .running j ∧ s.done = false ∧ s.prestopRuns = 0
  | .inCloseDone => s.once = .running j ∧ s.done = false ∧ s.prestopRuns = 0
  | .inPreStop => s.once = .running j ∧ s.done = true ∧ s.prestopRuns = 0
  | .inOnceExit => s.once = .running j ∧ s.done = true
  | .waitTLD => s.once = .finished
  | .returned => s.once = .finished ∧ s.tld = true

def inOnce : CloserPc → Bool
  | .inStore | .inCloseDone | .inPreStop | .inOnceExit => true
  | _ => false

def GlobOK (s : State) : Prop :=
  (left s.loop = true → s.done = true) ∧
  (s.tld = true ↔ s.loop = .exited) ∧
  (s.oncloseRuns = if onclosed s.loop then 1 else 0) ∧
  (s.oncloseEnds = if oncloseEnded s.loop then 1 else 0) ∧
  (match s.once with
   | .fresh => s.done = false ∧ s.prestopRuns = 0
   | .running j => inOnce (s.closers j).pc = true
   | .finished => s.done = true) ∧
  (s.once ≠ .fresh → s.anyCloseCalled = true) ∧
  (s.closeReturned = true → s.tld = true ∧ s.once = .finished) ∧
  s.prestopRuns ≤ 1

structure Inv (s : State) : Prop where
  subs : ∀ i, SubOK (view s.loop i) (s.subs i)
  closers : ∀ j, CloserOK s j (s.closers j)
  glob : GlobOK s

theorem inv_init : Inv init := by
  refine ⟨?_, ?_, ?_⟩
  · intro i; simp [init, view, SubOK]
  · intro j; simp [init, CloserOK]
  · simp [init, GlobOK, left, onclosed, oncloseEnded]

/-! ## helper lemmas -/

@[simp] theorem upd_same {α : Type} (f : Nat → α) (i : Nat) (v : α) : upd f i v i = v := by simp [upd]
theorem upd_other {α : Type} (f : Nat → α) {i x : Nat} (v : α) (h : x ≠ i) : upd f i v x = f x := by simp [upd, h]

theorem resume_cases (lp : LoopPc) (k : Nat) :
    resume lp k = lp ∨ ∃ i, lp = .nested i k ∧ resume lp k = .running i := by
  cases lp with
  | nested i k' =>
    by_cases h : k' = k
    · subst h; exact Or.inr ⟨i, rfl, by simp [resume]⟩
    · exact Or.inl (by simp [resume, h])
  | _ => exact Or.inl rfl

@[simp] theorem view_resume (lp : LoopPc) (k x : Nat) : view (resume lp k) x = view lp x := by
  rcases resume_cases lp k with h | ⟨i, h1, h2⟩
  · rw [h]
  · rw [h2, h1]; simp [view]

@[simp] theorem left_resume (lp : LoopPc) (k : Nat) : left (resume lp k) = left lp := by
  rcases resume_cases lp k with h | ⟨i, h1, h2⟩
  · rw [h]
  · rw [h2, h1]; simp [left]

@[simp] theorem onclosed_resume (lp : LoopPc) (k : Nat) : onclosed (resume lp k) = onclosed lp := by
  rcases resume_cases lp k with h | ⟨i, h1, h2⟩
  · rw [h]
  · rw [h2, h1]; simp [onclosed]

@[simp] theorem oncloseEnded_resume (lp : LoopPc) (k : Nat) : oncloseEnded (resume lp k) = oncloseEnded lp := by
  rcases resume_cases lp k with h | ⟨i, h1, h2⟩
  · rw [h]
  · rw [h2, h1]; simp [oncloseEnded]

@[simp] theorem resume_eq_exited (lp : LoopPc) (k : Nat) : (resume lp k = .exited) = (lp = .exited) := by
  rcases resume_cases lp k with h | ⟨i, h1, h2⟩
  · rw [h]
  · rw [h2, h1]; simp

/-- `CloserOK` and `GlobOK` read only these fields. -/
theorem closerOK_congr {s s' : State} (j : Nat) (c : Closer)
    (h1 : s'.once = s.once) (h2 : s'.done = s.done) (h3 : s'.prestopRuns = s.prestopRuns)
    (h4 : s'.tld = s.tld) (h5 : s'.anyCloseCalled = s.anyCloseCalled) :
    CloserOK s j c → CloserOK s' j c := by
  simp [CloserOK, h1, h2, h3, h4, h5]


theorem globOK_congr {s s' : State}
    (h1 : s'.once = s.once) (h2 : s'.done = s.done) (h3 : s'.prestopRuns = s.prestopRuns)
    (h4 : s'.tld = s.tld) (h5 : s'.anyCloseCalled = s.anyCloseCalled) (h6 : s'.closeReturned = s.closeReturned)
    (h7 : s'.oncloseRuns = s.oncloseRuns) (h8 : s'.closers = s.closers) (h9 : s'.oncloseEnds = s.oncloseEnds)
    (hl : left s'.loop = left s.loop) (ho : onclosed s'.loop = onclosed s.loop)
    (hoe : oncloseEnded s'.loop = oncloseEnded s.loop)
    (he : (s'.loop = .exited) = (s.loop = .exited)) :
    GlobOK s → GlobOK s' := by
  simp [GlobOK, h1, h2, h3, h4, h5, h6, h7, h8, h9, hl, ho, hoe, he]

/-- Generic preservation for a transition that rewrites one submitter record and moves the loop thread
without changing its phase. -/
theorem inv_sub_action {s : State} (h : Inv s) (i : Nat) (u : Sub) (lp : LoopPc)
    (hview : ∀ x, x ≠ i → view lp x = view s.loop x) (hi : SubOK (view lp i) u)
    (hl : left lp = left s.loop) (ho : onclosed lp = onclosed s.loop)
    (hoe : oncloseEnded lp = oncloseEnded s.loop)
    (he : (lp = .exited) = (s.loop = .exited)) :
    Inv { s with subs := upd s.subs i u, loop := lp } := by
  refine ⟨?_, ?_, ?_⟩
  · intro x
    by_cases hx : x = i
    · subst hx; simpa using hi
    · simp only [upd_other _ _ hx, hview x hx]; exact h.subs x
  · intro j
    exact closerOK_congr (s := s) j _ rfl rfl rfl rfl rfl (h.closers j)
  · exact globOK_congr (s := s) rfl rfl rfl rfl rfl rfl rfl rfl rfl hl ho hoe he h.glob

/-- Same, loop thread untouched. -/
theorem inv_sub_only {s : State} (h : Inv s) (i : Nat) (u : Sub) (hi : SubOK (view s.loop i) u) :
    Inv { s with subs := upd s.subs i u } :=
  inv_sub_action h i u s.loop (fun _ _ => rfl) hi rfl rfl rfl rfl

end IceProofs.TaskLoop
