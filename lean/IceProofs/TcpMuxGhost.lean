import IceProofs.TcpMuxExt
/-!
# Ghost-state invariant of the TCP-mux model: what has been delivered, in which order, from whom

`sent` (per TCP connection), `hist` and `readLog` (per packet connection) are ghost logs; the
invariant ties them to the real queues: FIFO, source tags, per-connection order, and the alive
timer of unclaimed provisional packet connections.
-/
namespace IceProofs.TcpMux
open IceModel.TcpMux

/-- identifiers (frame id, length) of the DATA packets in a list of packets -/
def dataIds (l : List Pkt) : List (Nat × Nat) := (l.filter (fun p => p.err.isNone)).map (fun p => (p.fid, p.len))
/-- the data packet a (non-final) blocked reader is holding -/
def blkIds : Reader → List (Nat × Nat)
  | .blocked bp false => [(bp.fid, bp.len)]
  | _ => []
def frameId : Item → Option (Nat × Nat)
  | .frame f => some (f.fid, f.len)
  | _ => none
def frameIds (l : List Item) : List (Nat × Nat) := l.filterMap frameId
def sentIds (l : List Frame) : List (Nat × Nat) := l.map (fun f => (f.fid, f.len))
/-- the packets of a log that came from TCP connection `k` -/
def fromConn (k : Nat) (l : List Pkt) : List Pkt := l.filter (fun p => decide (p.conn = k))

theorem dataIds_append (a b : List Pkt) : dataIds (a ++ b) = dataIds a ++ dataIds b := by
  simp [dataIds]
theorem fromConn_append (k : Nat) (a b : List Pkt) : fromConn k (a ++ b) = fromConn k a ++ fromConn k b := by
  simp [fromConn]
theorem frameIds_append (a b : List Item) : frameIds (a ++ b) = frameIds a ++ frameIds b := by
  simp [frameIds]
theorem sentIds_append (a b : List Frame) : sentIds (a ++ b) = sentIds a ++ sentIds b := by
  simp [sentIds]

theorem fromConn_all {k : Nat} {l : List Pkt} (h : ∀ x, x ∈ l → x.conn = k) : fromConn k l = l := by
  unfold fromConn
  apply List.filter_eq_self.2
  intro x hx; simp [h x hx]

theorem fromConn_none {k : Nat} {l : List Pkt} (h : ∀ x, x ∈ l → x.conn ≠ k) : fromConn k l = [] := by
  unfold fromConn
  apply List.filter_eq_nil_iff.2
  intro x hx; simp [h x hx]

structure BlkOk (k : Nat) (peer : Addr) (r : Reader) : Prop where
  ok : ∀ bp fin, r = .blocked bp fin →
    bp.conn = k ∧ bp.src = peer ∧ (fin = false → bp.err = none) ∧ (fin = true → bp.err ≠ none)

/-- exact effect of the reader loop on the logs -/
structure DrainSpec (k p : Nat) (peer : Addr) (inbox : List Item) (pc : PConn) (d : Drain) : Prop where
  ex : ∃ new : List Pkt,
    d.pc.hist = pc.hist ++ new ∧ d.pc.recvQ = pc.recvQ ++ new ∧
    (∀ x, x ∈ new → x.conn = k ∧ x.src = peer) ∧
    (d.phase = .attached p → dataIds new ++ blkIds d.reader ++ frameIds d.inbox = frameIds inbox) ∧
    (dataIds new <+: frameIds inbox)
  blk : BlkOk k peer d.reader
  idle : d.reader = .idle → d.inbox = []

theorem drainFail_spec (cap k p : Nat) (peer : Addr) (e : ErrKind) (pc : PConn) (inbox : List Item) :
    DrainSpec k p peer inbox pc (drainFail cap k p peer e pc) := by
  unfold drainFail
  simp only
  split
  · split
    · refine ⟨⟨[{ src := peer, fid := 0, len := 0, err := some e, conn := k }], by simp [enqueue], by simp [enqueue],
        by simp, by simp, by simp [dataIds]⟩, ⟨by simp⟩, by simp⟩
    · refine ⟨⟨[], by simp, by simp, by simp, by simp, by simp [dataIds]⟩, ⟨?_⟩, by simp⟩
      intro bp fin h
      simp only [Reader.blocked.injEq] at h
      obtain ⟨rfl, rfl⟩ := h
      simp
  · exact ⟨⟨[], by simp, by simp, by simp, by simp, by simp [dataIds]⟩, ⟨by simp⟩, by simp⟩

theorem drain_spec (cap k p : Nat) (peer : Addr) (inbox : List Item) (pc : PConn) :
    DrainSpec k p peer inbox pc (drain cap k p peer inbox pc) := by
  induction inbox generalizing pc with
  | nil =>
    unfold drain
    exact ⟨⟨[], by simp, by simp, by simp, by simp [dataIds, blkIds, frameIds], by simp [dataIds]⟩, ⟨by simp⟩, by simp⟩
  | cons it rest ih =>
    cases it with
    | frame f =>
      unfold drain
      split
      · exact drainFail_spec ..
      · simp only
        split
        · have h := ih (enqueue pc { src := peer, fid := f.fid, len := f.len, err := none, conn := k })
          obtain ⟨⟨new, h1, h2, h3, h4, h5⟩, hb, hi⟩ := h
          refine ⟨⟨{ src := peer, fid := f.fid, len := f.len, err := none, conn := k } :: new, ?_, ?_, ?_, ?_, ?_⟩, hb, hi⟩
          · rw [h1]; simp [enqueue]
          · rw [h2]; simp [enqueue]
          · intro x hx
            rcases List.mem_cons.1 hx with rfl | hx
            · simp
            · exact h3 x hx
          · intro hph
            have := h4 hph
            simp only [dataIds, List.filter_cons, Option.isNone_none, if_true, List.map_cons, frameIds,
              List.filterMap_cons, frameId] at this ⊢
            simp only [List.cons_append]
            rw [this]
          · simp only [dataIds, List.filter_cons, Option.isNone_none, if_true, List.map_cons, frameIds,
              List.filterMap_cons, frameId] at h5 ⊢
            exact List.cons_prefix_cons.2 ⟨rfl, h5⟩
        · refine ⟨⟨[], by simp, by simp, by simp, ?_, by simp [dataIds]⟩, ⟨?_⟩, by simp⟩
          · intro _; simp [dataIds, blkIds, frameIds, frameId]
          · intro bp fin h
            simp only [Reader.blocked.injEq] at h
            obtain ⟨rfl, rfl⟩ := h
            simp
    | eof => unfold drain; exact drainFail_spec ..
    | reset => unfold drain; exact drainFail_spec ..

/-! ## the ghost invariant -/

structure TcpG (s : State) (k : Nat) (t : Tcp) : Prop where
  fresh : ∀ d, t.phase = .pending d → t.pc = none ∧ t.sent = [] ∧ t.inbox = []
  ref : ∀ p, t.pc = some p → ∃ pc, s.pcs[p]? = some pc
  blk : BlkOk k t.peer t.reader
  order : ∀ (p : Nat) (pc : PConn), t.pc = some p → s.pcs[p]? = some pc →
    (∀ q, t.phase = .attached q →
      dataIds (fromConn k pc.hist) ++ blkIds t.reader ++ frameIds t.inbox = sentIds t.sent) ∧
    dataIds (fromConn k pc.hist) <+: sentIds t.sent

structure PcG (s : State) (p : Nat) (pc : PConn) : Prop where
  fifo : pc.hist = pc.readLog ++ pc.recvQ
  src : ∀ pkt, pkt ∈ pc.hist → ∃ t, s.tcps[pkt.conn]? = some t ∧ t.pc = some p ∧ pkt.src = t.peer
  prov : pc.provisional = true → pc.claimed = false → pc.closed = false →
    pc.alive = some (pc.created + effTimeout s.cfg.t2)

structure Inv2 (s : State) : Prop where
  tcp : ∀ (k : Nat) (t : Tcp), s.tcps[k]? = some t → TcpG s k t
  pc : ∀ (p : Nat) (pc : PConn), s.pcs[p]? = some pc → PcG s p pc

theorem inv2_init (cfg : Config) : Inv2 (init cfg) := by
  constructor <;> simp [init]

/-- pointwise updates that keep the logs: a connection keeps (phase, reader, inbox) or ends up closed
without reader -/
theorem inv2_pointwise (s s' : State) (g : Nat → Tcp → Tcp) (h : Nat → PConn → PConn)
    (hcfg : s'.cfg = s.cfg)
    (htc : ∀ j, s'.tcps[j]? = (s.tcps[j]?).map (g j))
    (hpc : ∀ q, s'.pcs[q]? = (s.pcs[q]?).map (h q))
    (hg : ∀ (j : Nat) (t : Tcp), s.tcps[j]? = some t →
      (g j t).peer = t.peer ∧ (g j t).pc = t.pc ∧ (g j t).sent = t.sent ∧
      (((g j t).phase = t.phase ∧ (g j t).reader = t.reader ∧ (g j t).inbox = t.inbox) ∨
       ((g j t).phase = .closed ∧ (g j t).reader = .none)))
    (hh : ∀ (q : Nat) (pc : PConn), s.pcs[q]? = some pc →
      (h q pc).hist = pc.hist ∧ (h q pc).hist = (h q pc).readLog ++ (h q pc).recvQ ∧
      (h q pc).provisional = pc.provisional ∧ (h q pc).created = pc.created ∧
      ((h q pc).claimed = false → pc.claimed = false) ∧ ((h q pc).closed = false → pc.closed = false) ∧
      ((h q pc).claimed = false → (h q pc).closed = false → (h q pc).alive = pc.alive))
    (hi : Inv2 s) : Inv2 s' := by
  have tget : ∀ (j : Nat) (t' : Tcp), s'.tcps[j]? = some t' → ∃ t, s.tcps[j]? = some t ∧ t' = g j t := by
    intro j t' ht'
    rw [htc j] at ht'
    cases ht : s.tcps[j]? with
    | none => simp [ht] at ht'
    | some t => simp only [ht, Option.map_some, Option.some.injEq] at ht'; exact ⟨t, rfl, ht'.symm⟩
  have pget : ∀ (q : Nat) (pc' : PConn), s'.pcs[q]? = some pc' → ∃ pc, s.pcs[q]? = some pc ∧ pc' = h q pc := by
    intro q pc' hq'
    rw [hpc q] at hq'
    cases hq : s.pcs[q]? with
    | none => simp [hq] at hq'
    | some pc => simp only [hq, Option.map_some, Option.some.injEq] at hq'; exact ⟨pc, rfl, hq'.symm⟩
  constructor
  · intro k t' ht'
    obtain ⟨t, ht, rfl⟩ := tget k t' ht'
    obtain ⟨g1, g2, g3, g4⟩ := hg k t ht
    have old := hi.tcp k t ht
    constructor
    · intro d hd
      rcases g4 with ⟨e1, e2, e3⟩ | ⟨e1, _⟩
      · rw [e1] at hd; rw [g2, g3, e3]; exact old.fresh d hd
      · rw [e1] at hd; cases hd
    · intro p hp
      rw [g2] at hp
      obtain ⟨pc, hpc0⟩ := old.ref p hp
      exact ⟨h p pc, by rw [hpc p, hpc0]; rfl⟩
    · rcases g4 with ⟨e1, e2, e3⟩ | ⟨_, e2⟩
      · rw [g1, e2]; exact old.blk
      · rw [e2]; exact ⟨by simp⟩
    · intro p pc' hp hpc'
      rw [g2] at hp
      obtain ⟨pc, hpc0, rfl⟩ := pget p pc' hpc'
      obtain ⟨b1, _⟩ := hh p pc hpc0
      have o := old.order p pc hp hpc0
      rw [b1, g3]
      rcases g4 with ⟨e1, e2, e3⟩ | ⟨e1, _⟩
      · rw [e1, e2, e3]; exact o
      · refine ⟨?_, o.2⟩
        intro q hq; rw [e1] at hq; cases hq
  · intro p pc' hpc'
    obtain ⟨pc, hpc0, rfl⟩ := pget p pc' hpc'
    obtain ⟨b1, b2, b3, b4, b5, b6, b7⟩ := hh p pc hpc0
    have old := hi.pc p pc hpc0
    constructor
    · exact b2
    · intro pkt hpkt
      rw [b1] at hpkt
      obtain ⟨t, ht, e1, e2⟩ := old.src pkt hpkt
      obtain ⟨g1, g2, _⟩ := hg pkt.conn t ht
      exact ⟨g pkt.conn t, by rw [htc, ht]; rfl, by rw [g2]; exact e1, by rw [g1]; exact e2⟩
    · intro c1 c2 c3
      rw [b7 c2 c3, b4, hcfg]
      exact old.prov (by rw [← b3]; exact c1) (b5 c2) (b6 c3)

theorem pcSame (hi : Inv2 s) (q : Nat) (pc pc' : PConn) (hq : s.pcs[q]? = some pc)
    (e1 : pc'.hist = pc.hist) (e2 : pc'.readLog = pc.readLog) (e3 : pc'.recvQ = pc.recvQ)
    (e4 : pc'.provisional = pc.provisional) (e5 : pc'.created = pc.created)
    (e6 : pc'.claimed = false → pc.claimed = false) (e7 : pc'.closed = false → pc.closed = false)
    (e8 : pc'.claimed = false → pc'.closed = false → pc'.alive = pc.alive) :
    pc'.hist = pc.hist ∧ pc'.hist = pc'.readLog ++ pc'.recvQ ∧
      pc'.provisional = pc.provisional ∧ pc'.created = pc.created ∧
      (pc'.claimed = false → pc.claimed = false) ∧ (pc'.closed = false → pc.closed = false) ∧
      (pc'.claimed = false → pc'.closed = false → pc'.alive = pc.alive) :=
  ⟨e1, by rw [e1, e2, e3]; exact (hi.pc q pc hq).fifo, e4, e5, e6, e7, e8⟩

theorem setTcp_irrel_inv2 (s : State) (k : Nat) (f : Tcp → Tcp)
    (hf : ∀ t, (f t).peer = t.peer ∧ (f t).pc = t.pc ∧ (f t).sent = t.sent ∧ (f t).phase = t.phase ∧
      (f t).reader = t.reader ∧ (f t).inbox = t.inbox)
    (hi : Inv2 s) : Inv2 (setTcp s k f) := by
  apply inv2_pointwise s (setTcp s k f) (fun j t => if k = j then f t else t) (fun _ pc => pc) rfl
  · intro j; exact getElem?_modify_map ..
  · intro q; exact map_id_pointwise _
  · intro j t _
    by_cases e : k = j
    · obtain ⟨a, b, c, d, e', f'⟩ := hf t
      rw [if_pos e]; exact ⟨a, b, c, Or.inl ⟨d, e', f'⟩⟩
    · rw [if_neg e]; exact ⟨rfl, rfl, rfl, Or.inl ⟨rfl, rfl, rfl⟩⟩
  · intro q pc hq
    exact pcSame hi q pc pc hq rfl rfl rfl rfl rfl (fun x => x) (fun x => x) (fun _ _ => rfl)
  · exact hi

theorem setPc_irrel_inv2 (s : State) (p : Nat) (f : PConn → PConn)
    (hf : ∀ pc, (f pc).hist = pc.hist ∧ (f pc).readLog = pc.readLog ∧ (f pc).recvQ = pc.recvQ ∧
      (f pc).provisional = pc.provisional ∧ (f pc).created = pc.created ∧
      ((f pc).claimed = false → pc.claimed = false) ∧ ((f pc).closed = false → pc.closed = false) ∧
      ((f pc).claimed = false → (f pc).closed = false → (f pc).alive = pc.alive))
    (hi : Inv2 s) : Inv2 (setPc s p f) := by
  apply inv2_pointwise s (setPc s p f) (fun _ t => t) (fun q pc => if p = q then f pc else pc) rfl
  · intro j; exact map_id_pointwise _
  · intro q; exact getElem?_modify_map ..
  · intro j t _; exact ⟨rfl, rfl, rfl, Or.inl ⟨rfl, rfl, rfl⟩⟩
  · intro q pc hq
    by_cases e : p = q
    · obtain ⟨a, b, c, d, e', f', g', h'⟩ := hf pc
      rw [if_pos e]
      exact pcSame hi q pc (f pc) hq a b c d e' f' g' h'
    · rw [if_neg e]
      exact pcSame hi q pc pc hq rfl rfl rfl rfl rfl (fun x => x) (fun x => x) (fun _ _ => rfl)
  · exact hi

theorem handles_irrel_inv2 (s : State) (hs : List Handle) (hi : Inv2 s) : Inv2 { s with handles := hs } := by
  apply inv2_pointwise s { s with handles := hs } (fun _ t => t) (fun _ pc => pc) rfl
  · intro j; exact map_id_pointwise _
  · intro q; exact map_id_pointwise _
  · intro j t _; exact ⟨rfl, rfl, rfl, Or.inl ⟨rfl, rfl, rfl⟩⟩
  · intro q pc hq
    exact pcSame hi q pc pc hq rfl rfl rfl rfl rfl (fun x => x) (fun x => x) (fun _ _ => rfl)
  · exact hi

theorem closePc1_inv2 (s : State) (p : Nat) (hi : Inv s) (h2 : Inv2 s) : Inv2 (closePc1 s p) := by
  cases hp : s.pcs[p]? with
  | none => rw [closePc1_noop s p (by simp [hp])]; exact h2
  | some pc =>
    cases hc : pc.closed with
    | true => rw [closePc1_noop s p (by intro pc' h'; rw [hp] at h'; cases h'; exact hc)]; exact h2
    | false =>
      rw [closePc1_eq s p pc hp hc]
      apply inv2_pointwise s { s with tcps := s.tcps.mapIdx (closeEffect pc), pcs := s.pcs.modify p closedPc }
        (closeEffect pc) (fun q qc => if p = q then closedPc qc else qc) rfl
      · intro j; exact List.getElem?_mapIdx
      · intro q; exact getElem?_modify_map ..
      · intro j t ht
        unfold closeEffect
        by_cases h1 : j ∈ pc.conns.map (·.2)
        · rw [if_pos h1]
          exact ⟨rfl, rfl, rfl, Or.inr ⟨rfl, rfl⟩⟩
        · rw [if_neg h1]
          by_cases hb : j ∈ pc.blockedQ
          · rw [if_pos hb]
            refine ⟨rfl, rfl, rfl, Or.inr ⟨?_, rfl⟩⟩
            -- a blocked reader whose connection is not registered holds the final error packet
            obtain ⟨t2, ht2, hpc2, pkt, fin, hrd⟩ := (hi.pc p pc hp).2.2.1 j hb
            rw [ht] at ht2; cases ht2
            have hr := hi.reader j t ht
            simp only [ReaderOk, hrd] at hr
            cases fin with
            | true => simpa using hr.2
            | false =>
              have := hr.2
              simp only [Bool.false_eq_true, if_false] at this
              obtain ⟨q, hq⟩ := this
              have hph := hi.phase j t ht
              simp only [PhaseOk, hq] at hph
              obtain ⟨e1, pcq, e2, _, e4⟩ := hph
              rw [hpc2] at e1; cases e1
              rw [hp] at e2; cases e2
              exact absurd (mem_conns_snd.2 ⟨_, e4⟩) h1
          · rw [if_neg hb]
            exact ⟨rfl, rfl, rfl, Or.inl ⟨rfl, rfl, rfl⟩⟩
      · intro q qc hq
        by_cases e : p = q
        · rw [if_pos e]
          exact pcSame h2 q qc (closedPc qc) hq rfl rfl rfl rfl rfl (fun x => x) (fun x => by simp [closedPc] at x)
            (fun _ x => by simp [closedPc] at x)
        · rw [if_neg e]
          exact pcSame h2 q qc qc hq rfl rfl rfl rfl rfl (fun x => x) (fun x => x) (fun _ _ => rfl)
      · exact h2

theorem closePc_inv2 (s : State) (p : Nat) (hi : Inv s) (h2 : Inv2 s) : Inv2 (closePc s p) :=
  closePc1_inv2 s p hi h2

theorem closePcsWhere_inv2 (sel : PConn → Bool) (s : State) (hi : Inv s) (h2 : Inv2 s) :
    Inv2 (closePcsWhere sel s) := by
  unfold closePcsWhere
  have := foldl_inv (fun x => Inv x ∧ Inv2 x)
    (fun s p => match s.pcs[p]? with
      | some pc => if sel pc then closePc s p else s
      | none => s) (List.range s.pcs.length) s ⟨hi, h2⟩ (by
      intro b a hb
      split
      · split
        · exact ⟨closePc_inv _ _ hb.1, closePc_inv2 _ _ hb.1 hb.2⟩
        · exact hb
      · exact hb)
  exact this.2

theorem runReader_inv2 (s : State) (k : Nat) (hi : Inv s) (h2 : Inv2 s) : Inv2 (runReader s k) := by
  unfold runReader
  cases ht : s.tcps[k]? with
  | none => exact h2
  | some t =>
    simp only
    cases hph : t.phase with
    | pending d => exact h2
    | closed => exact h2
    | attached p =>
      cases hrd : t.reader with
      | none => exact h2
      | blocked _ _ => exact h2
      | idle =>
        simp only
        cases hp : s.pcs[p]? with
        | none => exact h2
        | some pc =>
          simp only
          generalize hd : drain s.cfg.cap k p t.peer t.inbox pc = d
          have dok : DrainOk k p t.peer pc d := hd ▸ drain_ok ..
          have dsp : DrainSpec k p t.peer t.inbox pc d := hd ▸ drain_spec ..
          obtain ⟨⟨new, n1, n2, n3, n4, n5⟩, nblk, _⟩ := dsp
          have hphk := hi.phase k t ht
          simp only [PhaseOk, hph] at hphk
          obtain ⟨htpc, _⟩ := hphk
          let f : Tcp → Tcp := fun t => { t with phase := d.phase, reader := d.reader, inbox := d.inbox }
          have tk : ∀ j, j ≠ k → (s.tcps.modify k f)[j]? = s.tcps[j]? := fun j hj => getElem?_modify_ne _ _ _ _ hj
          have tkk : (s.tcps.modify k f)[k]? = some (f t) := by rw [getElem?_modify_eq, ht]; rfl
          have pq : ∀ q, q ≠ p → (s.pcs.modify p (fun _ => d.pc))[q]? = s.pcs[q]? :=
            fun q hq => getElem?_modify_ne _ _ _ _ hq
          have pp : (s.pcs.modify p (fun _ => d.pc))[p]? = some d.pc := by rw [getElem?_modify_eq, hp]; rfl
          have tfw : ∀ (j : Nat) (tj : Tcp), s.tcps[j]? = some tj →
              ∃ tj', (s.tcps.modify k f)[j]? = some tj' ∧ tj'.pc = tj.pc ∧ tj'.peer = tj.peer := by
            intro j tj h
            by_cases hjk : j = k
            · subst hjk; rw [ht] at h; cases h; exact ⟨f t, tkk, rfl, rfl⟩
            · exact ⟨tj, by rw [tk j hjk]; exact h, rfl, rfl⟩
          have pfw : ∀ (q : Nat) (qc : PConn), s.pcs[q]? = some qc → ∃ qc', (s.pcs.modify p (fun _ => d.pc))[q]? = some qc' := by
            intro q qc h
            by_cases hqp : q = p
            · subst hqp; exact ⟨d.pc, pp⟩
            · exact ⟨qc, by rw [pq q hqp]; exact h⟩
          show Inv2 { s with tcps := s.tcps.modify k f, pcs := s.pcs.modify p (fun _ => d.pc) }
          constructor
          · intro j tj htj
            simp only at htj
            by_cases hjk : j = k
            · subst hjk
              rw [tkk] at htj; cases htj
              have old := h2.tcp j t ht
              constructor
              · intro dd hdd
                simp only [f] at hdd
                rcases dok.shape with ⟨e, _⟩ | ⟨e, _⟩ <;> rw [e] at hdd <;> cases hdd
              · intro p0 hp0
                obtain ⟨qc, hqc⟩ := old.ref p0 hp0
                exact pfw p0 qc hqc
              · exact nblk
              · intro p0 pc0 hp0 hpc0
                simp only [f] at hp0
                rw [htpc] at hp0; cases hp0
                simp only at hpc0
                rw [pp] at hpc0; cases hpc0
                have o := (old.order p pc htpc hp).1 p hph
                rw [hrd] at o
                simp only [blkIds, List.append_nil] at o
                have hfc : fromConn j d.pc.hist = fromConn j pc.hist ++ new := by
                  rw [n1, fromConn_append, fromConn_all (l := new) (fun x hx => (n3 x hx).1)]
                rw [hfc, dataIds_append]
                refine ⟨?_, ?_⟩
                · intro q hq
                  simp only [f] at hq ⊢
                  have hq' : d.phase = .attached p := by
                    rcases dok.shape with ⟨e, _⟩ | ⟨e, _⟩
                    · exact e
                    · rw [e] at hq; cases hq
                  have := n4 hq'
                  rw [← o]
                  simp only [List.append_assoc]
                  rw [← this]
                  simp only [List.append_assoc]
                · simp only [f]
                  rw [← o]
                  exact (List.prefix_append_right_inj _).2 n5
            · rw [tk j hjk] at htj
              have old := h2.tcp j tj htj
              constructor
              · exact old.fresh
              · intro p0 hp0
                obtain ⟨qc, hqc⟩ := old.ref p0 hp0
                exact pfw p0 qc hqc
              · exact old.blk
              · intro p0 pc0 hp0 hpc0
                simp only at hpc0
                by_cases hqp : p0 = p
                · subst hqp
                  rw [pp] at hpc0; cases hpc0
                  have hfc : fromConn j d.pc.hist = fromConn j pc.hist := by
                    rw [n1, fromConn_append, fromConn_none (l := new) (fun x hx => by rw [(n3 x hx).1]; exact Ne.symm hjk)]
                    simp
                  rw [hfc]
                  exact old.order p0 pc hp0 hp
                · rw [pq p0 hqp] at hpc0
                  exact old.order p0 pc0 hp0 hpc0
          · intro q qc hq
            simp only at hq
            by_cases hqp : q = p
            · subst hqp
              rw [pp] at hq; cases hq
              have old := h2.pc q pc hp
              constructor
              · rw [n1, n2, dok.readLog, old.fifo]; simp
              · intro pkt hpkt
                rw [n1] at hpkt
                rcases List.mem_append.1 hpkt with hm | hm
                · obtain ⟨tj, htj, e1, e2⟩ := old.src pkt hm
                  obtain ⟨tj', a1, a2, a3⟩ := tfw pkt.conn tj htj
                  exact ⟨tj', a1, by rw [a2]; exact e1, by rw [a3]; exact e2⟩
                · obtain ⟨c1, c2⟩ := n3 pkt hm
                  rw [c1]
                  exact ⟨f t, tkk, htpc, c2⟩
              · intro c1 c2 c3
                rw [dok.alive, dok.created]
                exact old.prov (by rw [← dok.provisional]; exact c1) (by rw [← dok.claimed]; exact c2)
                  (by rw [← dok.closed]; exact c3)
            · rw [pq q hqp] at hq
              have old := h2.pc q qc hq
              constructor
              · exact old.fifo
              · intro pkt hpkt
                obtain ⟨tj, htj, e1, e2⟩ := old.src pkt hpkt
                obtain ⟨tj', a1, a2, a3⟩ := tfw pkt.conn tj htj
                exact ⟨tj', a1, by rw [a2]; exact e1, by rw [a3]; exact e2⟩
              · exact old.prov

theorem dataIds_single_data (bp : Pkt) (h : bp.err = none) : dataIds [bp] = [(bp.fid, bp.len)] := by
  simp [dataIds, h]

theorem dataIds_single_err (bp : Pkt) (h : bp.err ≠ none) : dataIds [bp] = [] := by
  cases he : bp.err with
  | none => exact absurd he h
  | some e => simp [dataIds, he]

/-- the first blocked reader hands over its packet -/
theorem unblock_inv2 (s : State) (hi : Inv s) (h2 : Inv2 s) (k p : Nat) (t : Tcp) (pc : PConn) (bq : List Nat)
    (bp : Pkt) (fin : Bool)
    (ht : s.tcps[k]? = some t) (hrd : t.reader = .blocked bp fin)
    (hp : s.pcs[p]? = some pc) (hbq : pc.blockedQ = k :: bq)
    (g : PConn → PConn)
    (hg : (g pc).hist = pc.hist ++ [bp] ∧ (g pc).hist = (g pc).readLog ++ (g pc).recvQ ∧
      (g pc).provisional = pc.provisional ∧ (g pc).created = pc.created ∧ (g pc).claimed = pc.claimed ∧
      (g pc).closed = pc.closed ∧ (g pc).alive = pc.alive) :
    Inv2 (setTcp (setPc s p g) k (fun t => { t with reader := if fin then .none else .idle })) := by
  let f : Tcp → Tcp := fun t => { t with reader := if fin then .none else .idle }
  obtain ⟨g1, g2, g3, g4, g5, g6, g7⟩ := hg
  have hkmem : k ∈ pc.blockedQ := by rw [hbq]; simp
  have htpc : t.pc = some p := by
    obtain ⟨t2, ht2, e, _⟩ := (hi.pc p pc hp).2.2.1 k hkmem
    rw [ht] at ht2; cases ht2; exact e
  have oldk := h2.tcp k t ht
  obtain ⟨b1, b2, b3, b4⟩ := oldk.blk.ok bp fin hrd
  have hrk := hi.reader k t ht
  simp only [ReaderOk, hrd] at hrk
  have tk : ∀ j, j ≠ k → (s.tcps.modify k f)[j]? = s.tcps[j]? := fun j hj => getElem?_modify_ne _ _ _ _ hj
  have tkk : (s.tcps.modify k f)[k]? = some (f t) := by rw [getElem?_modify_eq, ht]; rfl
  have pq : ∀ q, q ≠ p → (s.pcs.modify p g)[q]? = s.pcs[q]? := fun q hq => getElem?_modify_ne _ _ _ _ hq
  have pp : (s.pcs.modify p g)[p]? = some (g pc) := by rw [getElem?_modify_eq, hp]; rfl
  have tfw : ∀ (j : Nat) (tj : Tcp), s.tcps[j]? = some tj →
      ∃ tj', (s.tcps.modify k f)[j]? = some tj' ∧ tj'.pc = tj.pc ∧ tj'.peer = tj.peer := by
    intro j tj h
    by_cases hjk : j = k
    · subst hjk; rw [ht] at h; cases h; exact ⟨f t, tkk, rfl, rfl⟩
    · exact ⟨tj, by rw [tk j hjk]; exact h, rfl, rfl⟩
  have pfw : ∀ (q : Nat) (qc : PConn), s.pcs[q]? = some qc → ∃ qc', (s.pcs.modify p g)[q]? = some qc' := by
    intro q qc h
    by_cases hqp : q = p
    · subst hqp; exact ⟨g pc, pp⟩
    · exact ⟨qc, by rw [pq q hqp]; exact h⟩
  show Inv2 { s with pcs := s.pcs.modify p g, tcps := s.tcps.modify k f }
  constructor
  · intro j tj htj
    simp only at htj
    by_cases hjk : j = k
    · subst hjk
      rw [tkk] at htj; cases htj
      constructor
      · exact oldk.fresh
      · intro p0 hp0
        obtain ⟨qc, hqc⟩ := oldk.ref p0 hp0
        exact pfw p0 qc hqc
      · refine ⟨?_⟩
        intro bp' fin' h
        simp only [f] at h
        cases fin <;> simp at h
      · intro p0 pc0 hp0 hpc0
        simp only [f] at hp0
        rw [htpc] at hp0; cases hp0
        simp only at hpc0
        rw [pp] at hpc0; cases hpc0
        have o := oldk.order p pc htpc hp
        have hfc : fromConn j (g pc).hist = fromConn j pc.hist ++ [bp] := by
          rw [g1, fromConn_append, fromConn_all (l := [bp]) (fun x hx => by simp at hx; rw [hx]; exact b1)]
        rw [hfc, dataIds_append]
        cases fin with
        | false =>
          have hatt : ∃ q, t.phase = .attached q := by simpa using hrk.2
          obtain ⟨q0, hq0⟩ := hatt
          have e := o.1 q0 hq0
          rw [hrd] at e
          simp only [blkIds] at e
          rw [dataIds_single_data bp (b3 rfl)]
          refine ⟨?_, ?_⟩
          · intro q _
            simp only [f, blkIds, Bool.false_eq_true, if_false, List.append_nil]
            exact e
          · simp only [f]
            rw [← e]
            simp only [List.append_assoc]
            exact (List.prefix_append_right_inj _).2 (List.prefix_append _ _)
        | true =>
          have hcl : t.phase = .closed := by simpa using hrk.2
          rw [dataIds_single_err bp (b4 rfl)]
          simp only [List.append_nil]
          refine ⟨?_, o.2⟩
          intro q hq
          simp only [f] at hq
          rw [hcl] at hq; cases hq
    · rw [tk j hjk] at htj
      have old := h2.tcp j tj htj
      constructor
      · exact old.fresh
      · intro p0 hp0
        obtain ⟨qc, hqc⟩ := old.ref p0 hp0
        exact pfw p0 qc hqc
      · exact old.blk
      · intro p0 pc0 hp0 hpc0
        simp only at hpc0
        by_cases hqp : p0 = p
        · subst hqp
          rw [pp] at hpc0; cases hpc0
          have hfc : fromConn j (g pc).hist = fromConn j pc.hist := by
            rw [g1, fromConn_append, fromConn_none (l := [bp]) (fun x hx => by
              simp at hx; rw [hx, b1]; exact Ne.symm hjk)]
            simp
          rw [hfc]
          exact old.order p0 pc hp0 hp
        · rw [pq p0 hqp] at hpc0
          exact old.order p0 pc0 hp0 hpc0
  · intro q qc hq
    simp only at hq
    by_cases hqp : q = p
    · subst hqp
      rw [pp] at hq; cases hq
      have old := h2.pc q pc hp
      constructor
      · exact g2
      · intro pkt hpkt
        rw [g1] at hpkt
        rcases List.mem_append.1 hpkt with hm | hm
        · obtain ⟨tj, htj, e1, e2⟩ := old.src pkt hm
          obtain ⟨tj', a1, a2, a3⟩ := tfw pkt.conn tj htj
          exact ⟨tj', a1, by rw [a2]; exact e1, by rw [a3]; exact e2⟩
        · simp at hm
          subst hm
          rw [b1]
          exact ⟨f t, tkk, htpc, b2⟩
      · intro c1 c2 c3
        rw [g7, g4]
        exact old.prov (by rw [← g3]; exact c1) (by rw [← g5]; exact c2) (by rw [← g6]; exact c3)
    · rw [pq q hqp] at hq
      have old := h2.pc q qc hq
      constructor
      · exact old.fifo
      · intro pkt hpkt
        obtain ⟨tj, htj, e1, e2⟩ := old.src pkt hpkt
        obtain ⟨tj', a1, a2, a3⟩ := tfw pkt.conn tj htj
        exact ⟨tj', a1, by rw [a2]; exact e1, by rw [a3]; exact e2⟩
      · exact old.prov

/-- `AddConn` -/
theorem register_inv2 (s : State) (h2 : Inv2 s) (k p : Nat) (t : Tcp) (pc : PConn) (fr : Frame)
    (ht : s.tcps[k]? = some t) (d : Nat) (hph : t.phase = .pending d)
    (hp : s.pcs[p]? = some pc) :
    Inv2 (setTcp (setPc s p (fun pc => { pc with conns := pc.conns ++ [(t.peer, k)] })) k
      (fun t => { t with phase := .attached p, reader := .idle, pc := some p, inbox := [.frame fr], sent := t.sent ++ [fr] })) := by
  let f : Tcp → Tcp := fun t => { t with phase := .attached p, reader := .idle, pc := some p, inbox := [.frame fr], sent := t.sent ++ [fr] }
  let g : PConn → PConn := fun pc => { pc with conns := pc.conns ++ [(t.peer, k)] }
  have oldk := h2.tcp k t ht
  obtain ⟨f1, f2, f3⟩ := oldk.fresh d hph
  have tk : ∀ j, j ≠ k → (s.tcps.modify k f)[j]? = s.tcps[j]? := fun j hj => getElem?_modify_ne _ _ _ _ hj
  have tkk : (s.tcps.modify k f)[k]? = some (f t) := by rw [getElem?_modify_eq, ht]; rfl
  have pq : ∀ q, q ≠ p → (s.pcs.modify p g)[q]? = s.pcs[q]? := fun q hq => getElem?_modify_ne _ _ _ _ hq
  have pp : (s.pcs.modify p g)[p]? = some (g pc) := by rw [getElem?_modify_eq, hp]; rfl
  -- no logged packet carries the tag of a connection that was never attached
  have notag : ∀ (q : Nat) (qc : PConn), s.pcs[q]? = some qc → ∀ x, x ∈ qc.hist → x.conn ≠ k := by
    intro q qc hq x hx hxk
    obtain ⟨tj, htj, e1, _⟩ := (h2.pc q qc hq).src x hx
    rw [hxk, ht] at htj; cases htj
    rw [f1] at e1; cases e1
  have pfw : ∀ (q : Nat) (qc : PConn), s.pcs[q]? = some qc → ∃ qc', (s.pcs.modify p g)[q]? = some qc' ∧ qc'.hist = qc.hist := by
    intro q qc h
    by_cases hqp : q = p
    · subst hqp; rw [hp] at h; cases h; exact ⟨g pc, pp, rfl⟩
    · exact ⟨qc, by rw [pq q hqp]; exact h, rfl⟩
  have pbw : ∀ (q : Nat) (qc' : PConn), (s.pcs.modify p g)[q]? = some qc' → ∃ qc, s.pcs[q]? = some qc ∧
      qc'.hist = qc.hist ∧ qc'.readLog = qc.readLog ∧ qc'.recvQ = qc.recvQ ∧ qc'.provisional = qc.provisional ∧
      qc'.claimed = qc.claimed ∧ qc'.closed = qc.closed ∧ qc'.alive = qc.alive ∧ qc'.created = qc.created := by
    intro q qc' h
    by_cases hqp : q = p
    · subst hqp; rw [pp] at h; cases h; exact ⟨pc, hp, rfl, rfl, rfl, rfl, rfl, rfl, rfl, rfl⟩
    · rw [pq q hqp] at h; exact ⟨qc', h, rfl, rfl, rfl, rfl, rfl, rfl, rfl, rfl⟩
  show Inv2 { s with pcs := s.pcs.modify p g, tcps := s.tcps.modify k f }
  constructor
  · intro j tj htj
    simp only at htj
    by_cases hjk : j = k
    · subst hjk
      rw [tkk] at htj; cases htj
      constructor
      · intro dd hdd; simp only [f] at hdd; cases hdd
      · intro p0 hp0
        simp only [f] at hp0; cases hp0
        exact ⟨g pc, pp⟩
      · exact ⟨by simp [f]⟩
      · intro p0 pc0 hp0 hpc0
        simp only [f] at hp0; cases hp0
        simp only at hpc0
        rw [pp] at hpc0; cases hpc0
        have : fromConn j (g pc).hist = [] := fromConn_none (notag p pc hp)
        rw [this]
        simp [f, dataIds, blkIds, frameIds, frameId, sentIds, f2]
    · rw [tk j hjk] at htj
      have old := h2.tcp j tj htj
      constructor
      · exact old.fresh
      · intro p0 hp0
        obtain ⟨qc, hqc⟩ := old.ref p0 hp0
        obtain ⟨qc', h', _⟩ := pfw p0 qc hqc
        exact ⟨qc', h'⟩
      · exact old.blk
      · intro p0 pc0 hp0 hpc0
        simp only at hpc0
        obtain ⟨qc, hqc, e, _⟩ := pbw p0 pc0 hpc0
        rw [e]
        exact old.order p0 qc hp0 hqc
  · intro q qc' hq
    simp only at hq
    obtain ⟨qc, hqc, e1, e2, e3, e4, e5, e6, e7, e8⟩ := pbw q qc' hq
    have old := h2.pc q qc hqc
    constructor
    · rw [e1, e2, e3]; exact old.fifo
    · intro pkt hpkt
      rw [e1] at hpkt
      obtain ⟨tj, htj, a1, a2⟩ := old.src pkt hpkt
      have hne : pkt.conn ≠ k := notag q qc hqc pkt hpkt
      exact ⟨tj, by rw [tk _ hne]; exact htj, a1, a2⟩
    · intro c1 c2 c3
      rw [e7, e8]
      exact old.prov (by rw [← e4]; exact c1) (by rw [← e5]; exact c2) (by rw [← e6]; exact c3)

/-- a pending connection is closed (its `sent` log may record the rejected frame) -/
theorem closePending_inv2 (s : State) (h2 : Inv2 s) (k : Nat) (t : Tcp) (ht : s.tcps[k]? = some t)
    (d : Nat) (hph : t.phase = .pending d) (f : Tcp → Tcp)
    (hf : (f t).phase = .closed ∧ (f t).reader = .none ∧ (f t).pc = t.pc ∧ (f t).peer = t.peer) :
    Inv2 (setTcp s k f) := by
  have oldk := h2.tcp k t ht
  obtain ⟨f1, f2, f3⟩ := oldk.fresh d hph
  have tk : ∀ j, j ≠ k → (s.tcps.modify k f)[j]? = s.tcps[j]? := fun j hj => getElem?_modify_ne _ _ _ _ hj
  have tkk : (s.tcps.modify k f)[k]? = some (f t) := by rw [getElem?_modify_eq, ht]; rfl
  constructor
  · intro j tj htj
    simp only [setTcp] at htj
    by_cases hjk : j = k
    · subst hjk
      rw [tkk] at htj; cases htj
      constructor
      · intro dd hdd; rw [hf.1] at hdd; cases hdd
      · intro p0 hp0; rw [hf.2.2.1, f1] at hp0; cases hp0
      · rw [hf.2.1]; exact ⟨by simp⟩
      · intro p0 pc0 hp0; rw [hf.2.2.1, f1] at hp0; cases hp0
    · rw [tk j hjk] at htj
      have o := h2.tcp j tj htj
      exact ⟨o.fresh, o.ref, o.blk, o.order⟩
  · intro q qc hq
    simp only [setTcp] at hq
    have old := h2.pc q qc hq
    constructor
    · exact old.fifo
    · intro pkt hpkt
      obtain ⟨tj, htj, a1, a2⟩ := old.src pkt hpkt
      by_cases hne : pkt.conn = k
      · rw [hne, ht] at htj; cases htj
        rw [f1] at a1; cases a1
      · exact ⟨tj, by simp only [setTcp]; rw [tk _ hne]; exact htj, a1, a2⟩
    · exact old.prov

theorem appendTcp_inv2 (s : State) (h2 : Inv2 s) (t : Tcp) (hr : t.reader = .none) (hpc : t.pc = none)
    (hs : t.sent = []) (hin : t.inbox = []) : Inv2 { s with tcps := s.tcps ++ [t] } := by
  constructor
  · intro j tj htj
    simp only at htj
    rw [List.getElem?_append] at htj
    split at htj
    · have o := h2.tcp j tj htj
      exact ⟨o.fresh, o.ref, o.blk, o.order⟩
    · have : tj = t := by
        cases hjl : j - s.tcps.length with
        | zero => rw [hjl] at htj; simp at htj; exact htj.symm
        | succ n => rw [hjl] at htj; simp at htj
      subst this
      constructor
      · intro _ _; exact ⟨hpc, hs, hin⟩
      · intro p0 hp0; rw [hpc] at hp0; cases hp0
      · rw [hr]; exact ⟨by simp⟩
      · intro p0 pc0 hp0; rw [hpc] at hp0; cases hp0
  · intro q qc hq
    have old := h2.pc q qc hq
    constructor
    · exact old.fifo
    · intro pkt hpkt
      obtain ⟨tj, htj, a1, a2⟩ := old.src pkt hpkt
      exact ⟨tj, getElem?_append_old _ _ _ _ htj, a1, a2⟩
    · exact old.prov

theorem appendPc_inv2 (s : State) (h2 : Inv2 s) (npc : PConn)
    (h1 : npc.hist = []) (h3 : npc.readLog = []) (h4 : npc.recvQ = [])
    (h5 : npc.provisional = true → npc.claimed = false → npc.alive = some (npc.created + effTimeout s.cfg.t2)) :
    Inv2 { s with pcs := s.pcs ++ [npc] } := by
  have new : ∀ (q : Nat) (qc : PConn), (s.pcs ++ [npc])[q]? = some qc → s.pcs[q]? = some qc ∨ (s.pcs[q]? = none ∧ qc = npc) := by
    intro q qc h
    rw [List.getElem?_append] at h
    split at h
    · exact Or.inl h
    · rename_i hge
      refine Or.inr ⟨List.getElem?_eq_none_iff.2 (by omega), ?_⟩
      cases hjl : q - s.pcs.length with
      | zero => rw [hjl] at h; simp at h; exact h.symm
      | succ n => rw [hjl] at h; simp at h
  constructor
  · intro j tj htj
    have old := h2.tcp j tj htj
    constructor
    · exact old.fresh
    · intro p0 hp0
      obtain ⟨qc, hqc⟩ := old.ref p0 hp0
      exact ⟨qc, getElem?_append_old _ _ _ _ hqc⟩
    · exact old.blk
    · intro p0 pc0 hp0 hpc0
      obtain ⟨qc, hqc⟩ := old.ref p0 hp0
      rcases new p0 pc0 hpc0 with h | ⟨h, _⟩
      · exact old.order p0 pc0 hp0 h
      · rw [hqc] at h; cases h
  · intro q qc hq
    rcases new q qc hq with h | ⟨_, rfl⟩
    · have o := h2.pc q qc h
      exact ⟨o.fifo, o.src, o.prov⟩
    · constructor
      · rw [h1, h3, h4]; rfl
      · intro pkt hpkt; rw [h1] at hpkt; cases hpkt
      · intro c1 c2 _; exact h5 c1 c2

theorem tick_inv2 (s : State) (h2 : Inv2 s) (now' : Nat) :
    Inv2 { s with now := now', tcps := s.tcps.map (expireTcp now') } := by
  apply inv2_pointwise s { s with now := now', tcps := s.tcps.map (expireTcp now') }
    (fun _ t => expireTcp now' t) (fun _ pc => pc) rfl
  · intro j; exact List.getElem?_map
  · intro q; exact map_id_pointwise _
  · intro j t _
    unfold expireTcp
    split
    · split
      · exact ⟨rfl, rfl, rfl, Or.inr ⟨rfl, rfl⟩⟩
      · exact ⟨rfl, rfl, rfl, Or.inl ⟨rfl, rfl, rfl⟩⟩
    · exact ⟨rfl, rfl, rfl, Or.inl ⟨rfl, rfl, rfl⟩⟩
  · intro q pc hq
    exact pcSame h2 q pc pc hq rfl rfl rfl rfl rfl (fun x => x) (fun x => x) (fun _ _ => rfl)
  · exact h2

end IceProofs.TcpMux
