import IceProofs.AgentC06Remote
/-!
# C06 — `handleInbound` and `step` preserve the invariant; reachable states
-/
namespace IceProofs.AgentC06
open IceModel.AgentCore

/-! ## `handleInbound`, cut into blocks -/

/-- the peer-reflexive candidate built for an unknown source -/
def prflxCand (l : Cand) (src : Nat) (m : Msg) : Cand :=
  { uid := 0, ty := 3, net := l.net, addr := src, comp := l.comp, rel := some 0,
    prio := match m.prio with | some p => if p == 0 then prflxPriority l.net l.comp else p | none => prflxPriority l.net l.comp }

def hiDiscover (a : Agent) (l : Cand) (src : Nat) (m : Msg) (rc : Option Cand) : Agent × List Out × Option Cand :=
  match rc with
  | some r => (a, [], some r)
  | none => a.addRemoteCandidate (prflxCand l src m)

def hiRequest (a : Agent) (now : Nat) (l : Cand) (m : Msg) (r : Cand) (o0 : List Out) : Agent × List Out :=
  match m.role with
  | some (ctl, tb) =>
    if ctl == a.controlling then
      if roleConflictKeeps a.controlling a.tieBreaker tb then
        let a := a.seenLocalSent l.uid now
        (a, o0 ++ [.dgram l.addr r.addr { cls := 3, tid := m.tid, key := some a.localPwd, errCode := some 487 }])
      else
        (({ a with controlling := !a.controlling }).resetSelector now, o0)
    else
      let (a, o) := if a.controlling then a.ctlHandleRequest now m l r else a.cldHandleRequest now m l r
      (a.seenRemoteRecv r.uid now, o0 ++ o)
  | none =>
    let (a, o) := if a.controlling then a.ctlHandleRequest now m l r else a.cldHandleRequest now m l r
    (a.seenRemoteRecv r.uid now, o0 ++ o)

theorem hi_eq (a : Agent) (now : Nat) (l : Cand) (src : Nat) (m : Msg) :
    a.handleInbound now l src m =
      (if !(m.method == 1 && (m.cls == 2 || m.cls == 0 || m.cls == 1)) then (a, [])
       else
        let rc := a.findRemote l.net src
        if m.cls == 2 then
          if m.key != some a.remotePwd then (a, [])
          else match rc with
            | none => (a, [])
            | some r =>
              let (a, o) := a.handleSuccess now m l r src
              (a.seenRemoteRecv r.uid now, o)
        else if m.cls == 0 then
          if m.user != some (a.localUfrag ++ ":" ++ a.remoteUfrag) then (a, [])
          else if m.key != some a.localPwd then (a, [])
          else
            let d := hiDiscover a l src m rc
            match d.2.2 with
            | none => (d.1, d.2.1)
            | some r => hiRequest d.1 now l m r d.2.1
        else
          match rc with
          | some r => (a.seenRemoteRecv r.uid now, [])
          | none => (a, [])) := by
  unfold Agent.handleInbound hiDiscover hiRequest prflxCand
  rfl

theorem Hand.hiRequest (a : Agent) (hi : Inv a) (now : Nat) (l : Cand) (m : Msg) (r : Cand) (o0 : List Out)
    (hl : core l ∈ lcsOf a) (hr : core r ∈ rcsOf a) (hn : l.net = r.net) :
    Hand a (hiRequest a now l m r o0).1 := by
  have hreq : Hand a ((if a.controlling then a.ctlHandleRequest now m l r
      else a.cldHandleRequest now m l r).1.seenRemoteRecv r.uid now) := by
    refine Hand.r_evo ?_ (Same.seenRemoteRecv _ _ _).evo
    split
    · exact Hand.ctlHandleRequest a hi now m l r hl hr hn
    · exact Hand.cldHandleRequest a hi now m l r hl hr hn
  unfold AgentC06.hiRequest
  split
  · split
    · split
      · exact (Same.seenLocalSent a _ _).evo.hand
      · refine Evo.hand ?_
        exact Evo.clearNominatedPair _ _ rfl rfl rfl rfl rfl rfl rfl rfl rfl rfl rfl
    · exact hreq
  · exact hreq

theorem hiDiscover_spec {a : Agent} (hi : Inv a) (hc : a.closed = false) (l : Cand) (src : Nat) (m : Msg) :
    Inv (hiDiscover a l src m (a.findRemote l.net src)).1 ∧
      lcsOf (hiDiscover a l src m (a.findRemote l.net src)).1 = lcsOf a ∧
      (hiDiscover a l src m (a.findRemote l.net src)).1.closed = false ∧
      ∀ r, (hiDiscover a l src m (a.findRemote l.net src)).2.2 = some r →
        core r ∈ rcsOf (hiDiscover a l src m (a.findRemote l.net src)).1 ∧ l.net = r.net := by
  unfold hiDiscover
  split
  · rename_i r hr
    refine ⟨hi, rfl, hc, fun r' hr' => ?_⟩
    have : r = r' := by simpa using hr'
    subst this
    obtain ⟨h1, h2, _⟩ := findRemote_some hr
    exact ⟨mem_rcsOf h1, h2.symm⟩
  · obtain ⟨h1, h2, h3⟩ := hi.addRemoteCandidate (prflxCand l src m) hc
    refine ⟨h1, h2, ?_, fun r hr => ?_⟩
    · rw [(arc_frame hi _ hc).closed]; exact hc
    · obtain ⟨h4, h5, _⟩ := h3 r hr
      exact ⟨h4, h5.symm⟩

theorem Inv.handleInbound {a : Agent} (hi : Inv a) (hc : a.closed = false) (now : Nat) (l : Cand) (src : Nat)
    (m : Msg) (hl : l ∈ a.locals) : Inv (a.handleInbound now l src m).1 := by
  rw [hi_eq]
  split
  · exact hi
  · simp only []
    split
    · split
      · exact hi
      · split
        · exact hi
        · rename_i r _
          have := Evo.handleSuccess a now m l r src
          generalize a.handleSuccess now m l r src = hs at this
          obtain ⟨b, o⟩ := hs
          exact hi.evo (this.r_same (Same.seenRemoteRecv _ _ _))
    · split
      · split
        · exact hi
        · split
          · exact hi
          · obtain ⟨h1, h2, h3, h4⟩ := hiDiscover_spec hi hc l src m
            generalize hiDiscover a l src m (a.findRemote l.net src) = d at h1 h2 h3 h4
            obtain ⟨b, o0, rc⟩ := d
            simp only [] at h1 h2 h3 h4 ⊢
            split
            · exact h1
            · rename_i _ r
              obtain ⟨h5, h6⟩ := h4 r rfl
              exact h1.hand (Hand.hiRequest b h1 now l m r o0 (h2 ▸ mem_lcsOf hl) h5 h6)
      · split
        · exact hi.same (Same.seenRemoteRecv _ _ _)
        · exact hi

/-! ## the remaining pieces of `step` -/

theorem Inv.setConnState_of {a : Agent} (h : Inv a) (s : ConnState) (hs : s ≠ .failed)
    (hn : a.nominatedPair = none ∨ a.closed = true ∨ a.selected.isSome) : Inv (a.setConnState s).1 := by
  rw [setConnState_ne_failed a s hs]
  split
  · exact h
  · refine ⟨h.s, h.c.sel, h.c.selNom, h.c.nomLe, fun id hid => ?_⟩
    rcases hn with hn | hn | hn
    · have hid' : a.nominatedPair = some id := hid
      rw [hn] at hid'; exact absurd hid' (by simp)
    · exact Or.inr (Or.inr (Or.inr hn))
    · exact Or.inr (Or.inr (Or.inl hn))

theorem Inv.addCache {a : Agent} (h : Inv a) (x : Nat × Nat × Nat) (hl : ∃ l ∈ lcsOf a, l.uid = x.1)
    (hr : ∃ r ∈ rcsOf a, r.uid = x.2.2) (hc : a.closed = false) :
    Inv { a with caches := a.caches ++ [x] } := by
  refine ⟨?_, h.c.sel, h.c.selNom, h.c.nomLe, h.c.nom⟩
  have hs := h.s
  unfold InvS at hs ⊢
  refine { hs with closedEmpty := ?_, cachesOk := ?_ }
  · intro hcl; rw [hc] at hcl; cases hcl
  · intro y hy
    rcases List.mem_append.1 hy with hy | hy
    · exact hs.cachesOk y hy
    · simp at hy; subst hy; exact ⟨hl, hr⟩

/-- the cache / liveness part of `inboundData` -/
def idA1 (a : Agent) (now : Nat) (l : Cand) (src : Nat) : Agent × Bool :=
  match a.caches.find? fun (lu, s, _) => lu == l.uid && s == src with
  | some (_, _, ru) => (a.seenRemoteRecv ru now, true)
  | none =>
    match a.findRemote l.net src with
    | some r => ({ (a.seenRemoteRecv r.uid now) with caches := a.caches ++ [(l.uid, src, r.uid)] }, true)
    | none => (a, false)

theorem id_eq (a : Agent) (now : Nat) (l : Cand) (src len : Nat) :
    a.inboundData now l src len =
      (if !(idA1 a now l src).2 then ((idA1 a now l src).1, [])
       else if !rxFits (idA1 a now l src).1.rx len then ((idA1 a now l src).1, [])
       else
        let a := { (idA1 a now l src).1 with rx := (idA1 a now l src).1.rx ++ [len] }
        let a := if len > 0 then
            match a.selected with
            | some id => a.modPair id fun p => { p with pktRecv := p.pktRecv + 1, bytesRecv := p.bytesRecv + len }
            | none => a
          else a
        (a, [])) := by
  unfold Agent.inboundData idA1
  rfl

theorem Inv.idA1 {a : Agent} (hi : Inv a) (hc : a.closed = false) (now : Nat) (l : Cand) (src : Nat)
    (hl : l ∈ a.locals) : Inv (AgentC06.idA1 a now l src).1 := by
  unfold AgentC06.idA1
  split
  · exact hi.same (Same.seenRemoteRecv _ _ _)
  · split
    · rename_i r hr
      have h1 : Inv (a.seenRemoteRecv r.uid now) := hi.same (Same.seenRemoteRecv _ _ _)
      have e := (Same.seenRemoteRecv a r.uid now).evo
      have := h1.addCache (l.uid, src, r.uid) ⟨core l, e.lcs ▸ mem_lcsOf hl, rfl⟩
        ⟨core r, e.rcs ▸ mem_rcsOf (findRemote_some hr).1, rfl⟩ hc
      exact this
    · exact hi

theorem Inv.inboundData {a : Agent} (hi : Inv a) (hc : a.closed = false) (now : Nat) (l : Cand) (src len : Nat)
    (hl : l ∈ a.locals) : Inv (a.inboundData now l src len).1 := by
  rw [id_eq]
  have h1 := hi.idA1 hc now l src hl
  generalize AgentC06.idA1 a now l src = d at h1
  obtain ⟨b, ok⟩ := d
  simp only [] at h1 ⊢
  split
  · exact h1
  split
  · exact h1
  · have h2 : Evo b { b with rx := b.rx ++ [len] } := Same.evo rfl
    refine h1.evo ?_
    repeat' split
    all_goals evo_auto

theorem Inv.runForced {a : Agent} (h : Inv a) (now : Nat) : Inv (a.runForced now).1 :=
  h.evoW (EvoW.runForced a now)

theorem Inv.doRestart {a : Agent} (h : Inv a) (now : Nat) (u p : String) : Inv (a.doRestart now u p).1 := by
  unfold Agent.doRestart
  simp only []
  have h1 : Inv { ((({ a with localUfrag := u, localPwd := p, remoteUfrag := "", remotePwd := "" } : Agent).wipe).resetSelector now) with
      generation := a.generation + 1 } :=
    h.wiped rfl rfl rfl rfl rfl rfl rfl rfl rfl (Or.inl rfl)
  split
  · exact h1.setConnState_of _ (by simp) (Or.inl rfl)
  · exact h1

theorem Inv.close {a : Agent} (h : Inv a) :
    Inv ({ a with locals := [], remotes := [], caches := [], closed := true } : Agent) := by
  refine ⟨?_, h.c.sel, h.c.selNom, h.c.nomLe, fun _ _ => Or.inr (Or.inr (Or.inr rfl))⟩
  have hs := h.s
  unfold InvS at hs ⊢
  exact { idsNodup := hs.idsNodup, idsLe := hs.idsLe, uidsNodup := by simp [lcsOf, rcsOf],
          uidsLt := by simp [lcsOf, rcsOf], ends := by simp, closedEmpty := by simp [lcsOf, rcsOf],
          remNE := by simp [rcsOf], locNE := by simp [lcsOf], notBlocked := by simp [rcsOf],
          cachesOk := by simp }

/-- **every handler preserves the invariant** -/
theorem Inv.step {a : Agent} (h : Inv a) (e : Ev) : Inv (step a e).1 := by
  cases e with
  | addLocal now c =>
    show Inv ((a.addLocalCandidate c).1.runForced now).1
    exact (h.addLocalCandidate c).runForced now
  | addRemote now c =>
    simp only [IceModel.AgentCore.step]
    cases hc : a.closed with
    | true => simpa using h
    | false =>
      simp only [Bool.false_eq_true, if_false]
      split
      · exact h
      · exact (h.addRemoteCandidate c hc).1.runForced now
  | start now ctl ru rp =>
    simp only [IceModel.AgentCore.step]
    repeat' split
    all_goals first
      | exact h
      | skip
    refine Inv.runForced ?_ now
    have h1 : Inv (({ a with controlling := ctl, remoteUfrag := ru, remotePwd := rp, started := true } : Agent).resetSelector now) :=
      h.evo (Evo.clearNominatedPair a _ rfl rfl rfl rfl rfl rfl rfl rfl rfl rfl rfl)
    have h2 := h1.setConnState_of .checking (by simp) (Or.inl rfl)
    exact h2.same (Same.of_fields rfl rfl rfl rfl rfl rfl rfl rfl rfl rfl rfl)
  | setRemoteCreds ru rp =>
    simp only [IceModel.AgentCore.step]
    repeat' split
    all_goals first
      | exact h
      | exact h.same (Same.of_fields rfl rfl rfl rfl rfl rfl rfl rfl rfl rfl rfl)
  | advance now => exact h.evoW (EvoW.runTimers a now _)
  | inbound now la src m =>
    simp only [IceModel.AgentCore.step]
    split
    · exact h
    · rename_i hc
      have hc' : a.closed = false := by
        cases hh : a.closed with
        | false => rfl
        | true => simp [hh] at hc
      split
      · exact h
      · rename_i l hl
        exact (h.handleInbound hc' now l src m (localByAddr_some hl).1).runForced now
  | inboundData now la src len stunLike =>
    simp only [IceModel.AgentCore.step]
    split
    · exact h
    · rename_i hc
      have hc' : a.closed = false := by
        cases hh : a.closed with
        | false => rfl
        | true => simp [hh] at hc
      split
      · exact h
      · rename_i l hl
        exact h.inboundData hc' now l src len (localByAddr_some hl).1
  | write now len stunLike =>
    simp only [IceModel.AgentCore.step]
    unfold Agent.write
    split
    · exact h
    · split
      · exact h
      · split
        · exact h
        · rename_i p _
          have := Same.writeVia a now p len
          generalize a.writeVia now p len = w at this
          obtain ⟨b, o⟩ := w
          exact h.same (this.trans (Same.of_fields rfl rfl rfl rfl rfl rfl rfl rfl rfl rfl rfl))
  | writeToPair now id len stunLike =>
    simp only [IceModel.AgentCore.step]
    unfold Agent.writeToPair
    repeat' split
    all_goals first
      | exact h
      | exact h.same (Same.writeVia _ _ _ _)
  | read =>
    simp only [IceModel.AgentCore.step]
    repeat' split
    all_goals first
      | exact h
      | exact h.same (Same.of_fields rfl rfl rfl rfl rfl rfl rfl rfl rfl rfl rfl)
  | renominate now la ri value =>
    simp only [IceModel.AgentCore.step]
    repeat' split
    all_goals first
      | exact h
      | exact h.same (Same.trans (Same.sendRequest _ _ _ _ _ _) (Same.of_fields rfl rfl rfl rfl rfl rfl rfl rfl rfl rfl rfl))
  | restart now u p =>
    simp only [IceModel.AgentCore.step]
    split
    · exact h
    · exact h.doRestart now u p
  | close =>
    simp only [IceModel.AgentCore.step]
    split
    · exact h
    · exact h.close.setConnState_of .closed (by simp) (Or.inr (Or.inl rfl))

end IceProofs.AgentC06
