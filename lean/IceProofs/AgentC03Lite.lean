import IceProofs.AgentC03Step
/-!
# C03 — a lite agent that is in the controlled role after a step has emitted no Binding request in it
-/
namespace IceProofs.C03
open IceModel.AgentCore

theorem cldNom_ctl (a : Agent) (id : Nat) (m : Msg) : (cldNom a id m).1.controlling = a.controlling := by
  rcases cldNom_cases a id m with ⟨h, _⟩ | ⟨_, h | ⟨p, _, _, _, h⟩ | ⟨p, _, _, h⟩⟩
  · rw [h]
  · rw [h]; exact (cldLite_frame a id).2.1
  · rw [h]; exact ((select_cc _ _).2).trans (cldLite_frame a id).2.1
  · rw [h]; exact (cldLite_frame a id).2.1

theorem cldHandleRequest_ctl (a : Agent) (now : Nat) (m : Msg) (l r : Cand) :
    (a.cldHandleRequest now m l r).1.controlling = a.controlling := by
  rw [cldHandleRequest_eq]
  split
  · rw [(sendSuccess_hok (wp := True) (ex := True) _ now m l r).ctl,
      (cldAccept_hok (wp := True) (ex := True) _ m).ctl, (cldPre_hok a m l r).1.ctl]
  · rw [(cldTail_out _ now m l r _ _).1, (cldTail_hok (wp := True) (ex := True) _ now m l r _).ctl, cldNom_ctl,
      (cldAccept_hok (wp := True) (ex := True) _ m).ctl, (cldPre_hok a m l r).1.ctl]

theorem hiReq_ctl (a : Agent) (now : Nat) (l r : Cand) (m : Msg) (o0 : List Out) :
    (hiReq a now l r m o0).1.controlling = a.controlling := by
  unfold hiReq
  cases hc : a.controlling
  · simp only [Bool.false_eq_true, if_false]
    exact (cldHandleRequest_ctl a now m l r).trans hc
  · simp only [if_true]
    exact ((ctlHandleRequest_hok a now m l r hc).ctl).trans hc

theorem handleSuccess_noReq (a : Agent) (now : Nat) (m : Msg) (l r : Cand) (src : Nat) :
    NoReq (a.handleSuccess now m l r src).2 := by
  rw [handleSuccess_eq]
  repeat' split
  all_goals first
    | exact NoReq.nil
    | (rename_i p _
       rcases hsSel_cases ((a.takePending now m.tid).1.modPair p.id (hsMark _)) p _ with h | ⟨h, _⟩
       · rw [h]; exact NoReq.nil
       · rw [h]; exact select_noReq _ _)

theorem hiReq_noReq (a : Agent) (now : Nat) (l r : Cand) (m : Msg) (hl : a.cfg.lite = true)
    (hc : a.controlling = false) : NoReq (hiReq a now l r m []).2 := by
  unfold hiReq
  simp only [hc, Bool.false_eq_true, if_false, List.nil_append]
  exact cldHandleRequest_noReq a now m l r hl

theorem hiRole_cases (a : Agent) (now : Nat) (l r : Cand) (m : Msg) :
    (∃ m' : Msg, m'.cls = 3 ∧ hiRole a now l r m [] = (a.seenLocalSent l.uid now, [.dgram l.addr r.addr m'])) ∨
    hiRole a now l r m [] = (({ a with controlling := !a.controlling }).resetSelector now, []) ∨
    hiRole a now l r m [] = hiReq a now l r m [] := by
  unfold hiRole
  repeat' split
  all_goals first
    | exact Or.inl ⟨_, rfl, rfl⟩
    | exact Or.inr (Or.inl rfl)
    | exact Or.inr (Or.inr rfl)

theorem hiRole_noReq (a : Agent) (now : Nat) (l r : Cand) (m : Msg) (hl : a.cfg.lite = true)
    (hc : (hiRole a now l r m []).1.controlling = false) : NoReq (hiRole a now l r m []).2 := by
  rcases hiRole_cases a now l r m with ⟨m', h3, h⟩ | h | h
  · rw [h]
    intro f t m'' hm
    simp only [List.mem_singleton, Out.dgram.injEq] at hm
    obtain ⟨_, _, rfl⟩ := hm
    rw [h3]; decide
  · rw [h]; exact NoReq.nil
  · rw [h] at hc ⊢
    exact hiReq_noReq a now l r m hl ((hiReq_ctl a now l r m []).symm.trans hc)

theorem handleInbound_noReq (a : Agent) (now : Nat) (l : Cand) (src : Nat) (m : Msg) (hl : a.cfg.lite = true)
    (hc : (a.handleInbound now l src m).1.controlling = false) : NoReq (a.handleInbound now l src m).2 := by
  generalize hres : a.handleInbound now l src m = res at hc ⊢
  rw [handleInbound_eq] at hres
  obtain ⟨hd, hn⟩ := hiDisc_hok a l src m
  repeat' split at hres
  all_goals subst hres
  all_goals first
    | exact NoReq.nil
    | exact handleSuccess_noReq _ _ _ _ _ _
    | exact hn
    | (rename_i r _
       rw [(hiRole_out _ now l r m _).2]
       rw [(hiRole_out _ now l r m _).1] at hc
       exact hn.append (hiRole_noReq _ now l r m (hd.cfg ▸ hl) hc))

/-- A lite agent that is in the controlled role after the step has not emitted a Binding request in it. -/
theorem step_noReq (a : Agent) (e : Ev) (hl : a.cfg.lite = true) (hc : (step a e).1.controlling = false) :
    NoReq (step a e).2 := by
  generalize hres : step a e = res at hc ⊢
  cases e with
  | addLocal now c =>
    have h1 := addLocalCandidate_hok (ex := True) a c
    have h2 := runForced_hok (wp := False) (a.addLocalCandidate c).1 now
    have : res = (((a.addLocalCandidate c).1.runForced now).1,
        (a.addLocalCandidate c).2 ++ ((a.addLocalCandidate c).1.runForced now).2) := hres.symm.trans rfl
    subst this
    exact h1.2.append (runForced_noReq _ now (h1.1.cfg ▸ hl) (h2.ctl.symm.trans hc))
  | addRemote now c =>
    simp only [step] at hres
    split at hres
    · subst hres; exact noReq_res _
    · split at hres
      · subst hres; exact NoReq.nil
      have h1 := addRemoteCandidate_hok (ex := True) a c
      have h2 := runForced_hok (wp := False) (a.addRemoteCandidate c).1 now
      have : res = (((a.addRemoteCandidate c).1.runForced now).1,
          (a.addRemoteCandidate c).2.1 ++ ((a.addRemoteCandidate c).1.runForced now).2) := hres.symm.trans rfl
      subst this
      exact h1.2.append (runForced_noReq _ now (h1.1.cfg ▸ hl) (h2.ctl.symm.trans hc))
  | start now ctl ru rp =>
    rw [step_start_eq] at hres
    repeat' split at hres
    all_goals subst hres
    all_goals first
      | exact noReq_res _
      | skip
    unfold startCore at hc ⊢
    have h1 := setConnState_hok (wp := False) (startA0 a now ctl ru rp) .checking
    have h2 := runForced_hok (wp := False) (startA1 ((startA0 a now ctl ru rp).setConnState .checking).1) now
    refine ((setConnState_noReq _ _).append (noReq_res _)).append (runForced_noReq _ now ?_ (h2.ctl.symm.trans hc))
    show ((startA0 a now ctl ru rp).setConnState .checking).1.cfg.lite = true
    rw [h1.cfg]; exact hl
  | setRemoteCreds ru rp =>
    simp only [step] at hres
    repeat' split at hres
    all_goals subst hres
    all_goals exact noReq_res _
  | advance now =>
    subst hres
    exact runTimers_noReq a now 100000 hl ((runTimers_hok (wp := False) a now 100000).ctl.symm.trans hc)
  | inbound now la src m =>
    simp only [step] at hres
    split at hres
    · subst hres; exact NoReq.nil
    · split at hres
      · subst hres; exact NoReq.nil
      · rename_i l _
        have h1 := handleInbound_hsel a now l src m
        have h2 := runForced_hok (wp := False) (a.handleInbound now l src m).1 now
        have : res = (((a.handleInbound now l src m).1.runForced now).1,
            (a.handleInbound now l src m).2 ++ ((a.handleInbound now l src m).1.runForced now).2) := hres.symm.trans rfl
        subst this
        have hc1 : (a.handleInbound now l src m).1.controlling = false := h2.ctl.symm.trans hc
        exact (handleInbound_noReq a now l src m hl hc1).append (runForced_noReq _ now (h1.cfg ▸ hl) hc1)
  | inboundData now la src len sl =>
    simp only [step] at hres
    split at hres
    · subst hres; exact NoReq.nil
    · split at hres
      · subst hres; exact NoReq.nil
      · subst hres; exact (inboundData_hsel a now _ src len).2
  | write now len sl => subst hres; exact (write_hsel a now len sl).2
  | writeToPair now id len sl => subst hres; exact (writeToPair_hsel a now id len sl).2
  | read =>
    simp only [step] at hres
    repeat' split at hres
    all_goals subst hres
    all_goals exact noReq_res _
  | renominate now la ri v =>
    simp only [step] at hres
    split at hres
    · subst hres; exact noReq_res _
    · rename_i hctl
      have hctl' : a.controlling = true := by simpa using hctl
      exfalso
      have : res.1.controlling = a.controlling := by
        repeat' split at hres
        all_goals subst hres
        all_goals first
          | rfl
          | exact (sendRequest_hok (wp := True) (ex := True) a now _ _ true _ (fun _ => hctl')).ctl
      rw [this, hctl'] at hc; cases hc
  | restart now u p =>
    simp only [step] at hres
    split at hres
    · subst hres; exact noReq_res _
    · have : res = ((a.doRestart now u p).1, (a.doRestart now u p).2 ++ [.res "ok"]) := hres.symm.trans rfl
      subst this
      refine NoReq.append ?_ (noReq_res _)
      unfold Agent.doRestart
      simp only []
      split
      · exact setConnState_noReq _ _
      · exact NoReq.nil
  | close =>
    simp only [step] at hres
    split at hres
    · subst hres; exact noReq_res _
    · have : res = ((Agent.setConnState { a with locals := [], remotes := [], caches := [], closed := true } .closed).1,
          (Agent.setConnState { a with locals := [], remotes := [], caches := [], closed := true } .closed).2 ++ [.res "ok"]) :=
        hres.symm.trans rfl
      subst this
      exact (setConnState_noReq _ _).append (noReq_res _)

end IceProofs.C03
