import IceProofs.TcpMuxSimFin
/-!
# One step of the model, one step of the monitor

For every operation: the bookkeeping of the monitor (`IceSpec.C15.book`) on the line the model prints
keeps the relation `SimU`/`NRead` with the model's next state and raises no clause (`BookOK`); together
with `fin_ok` this gives `step_sim`.
-/
namespace IceProofs.TcpMux
open IceModel.TcpMux IceSpec.C15 IceSpec.C15.View

/-! ## replies -/

theorem newReplies_nil {old new : List Tcp} (hl : new.length = old.length)
    (h : ∀ (k : Nat) (t : Tcp), old[k]? = some t → ∃ t', new[k]? = some t' ∧ t'.out = t.out) : newReplies old new = [] := by
  unfold newReplies
  rw [List.flatMap_eq_nil_iff]
  intro k hk
  rw [List.mem_range] at hk
  obtain ⟨t, ht⟩ := getElem?_of_lt (show k < old.length by omega)
  obtain ⟨t', ht', e⟩ := h k t ht
  rw [ht', ht]
  simp [e]

theorem newReplies_append_nil (old : List Tcp) (tn : Tcp) (h : tn.out = []) : newReplies old (old ++ [tn]) = [] := by
  unfold newReplies
  rw [List.flatMap_eq_nil_iff]
  intro k hk
  rw [List.mem_range] at hk
  by_cases hlt : k < old.length
  · obtain ⟨t, ht⟩ := getElem?_of_lt hlt
    rw [List.getElem?_append_left hlt, ht]
    simp
  · have : k = old.length := by simp at hk; omega
    subst this
    rw [List.getElem?_concat_length, List.getElem?_eq_none_iff.2 (Nat.le_refl _)]
    simp [h]

/-! ## `Close` has returned: nothing is left, and nothing comes back -/

structure Down (s : State) : Prop where
  mux : s.muxClosed = true
  lis : s.listenerOpen = false
  tcps : ∀ (k : Nat) (t : Tcp), s.tcps[k]? = some t → t.phase = .closed
  pcs : ∀ (p : Nat) (pc : PConn), s.pcs[p]? = some pc → pc.closed = true

theorem closeReturned_of_down {s : State} (h : Down s) : closeReturned s = true := by
  have hpend : s.tcps.countP (·.isPending) = 0 := by
    apply List.countP_eq_zero.2
    intro t ht
    obtain ⟨k, hk⟩ := List.mem_iff_getElem?.1 ht
    simp [Tcp.isPending, h.tcps k t hk]
  have hwatch : s.pcs.countP (fun pc => !pc.closed) = 0 := by
    apply List.countP_eq_zero.2
    intro pc hpc
    obtain ⟨p, hp⟩ := List.mem_iff_getElem?.1 hpc
    simp [h.pcs p pc hp]
  simp [closeReturned, wgCount, ledger, h.mux, h.lis, hpend, hwatch]

/-- `Close` has returned ⇒ every TCP connection and every packet connection is closed, nobody is alive -/
theorem down_of_closeReturned {s : State} (hi : Inv s) (hret : closeReturned s = true) :
    Down s ∧ ledger s = ⟨0, 0, 0, 0, 0⟩ := by
  simp only [closeReturned, Bool.and_eq_true, decide_eq_true_eq] at hret
  obtain ⟨hmux, hsum⟩ := hret
  simp only [wgCount, ledger] at hsum
  have hl : s.listenerOpen = false := hi.lis hmux
  have hpend : s.tcps.countP (·.isPending) = 0 := by omega
  have hwatch : s.pcs.countP (fun pc => !pc.closed) = 0 := by omega
  have allpc : ∀ (p : Nat) (pc : PConn), s.pcs[p]? = some pc → pc.closed = true := by
    intro p pc hp
    have := List.countP_eq_zero.1 hwatch pc (List.mem_iff_getElem?.2 ⟨p, hp⟩)
    simpa using this
  have nopend : ∀ (k : Nat) (t : Tcp), s.tcps[k]? = some t → ∀ d, t.phase ≠ .pending d := by
    intro k t ht d hd
    have := List.countP_eq_zero.1 hpend t (List.mem_iff_getElem?.2 ⟨k, ht⟩)
    simp [Tcp.isPending, hd] at this
  have allclosed : ∀ (k : Nat) (t : Tcp), s.tcps[k]? = some t → t.phase = .closed := by
    intro k t ht
    cases hph : t.phase with
    | closed => rfl
    | pending d => exact absurd hph (nopend k t ht d)
    | attached p =>
      have := hi.phase k t ht
      simp only [PhaseOk, hph] at this
      obtain ⟨_, pc, hp, hopen, _⟩ := this
      rw [allpc p pc hp] at hopen; cases hopen
  have noreader : ∀ (k : Nat) (t : Tcp), s.tcps[k]? = some t → t.reader = .none := by
    intro k t ht
    have hr := hi.reader k t ht
    have hcl := allclosed k t ht
    cases hrd : t.reader with
    | none => rfl
    | idle =>
      simp only [ReaderOk, hrd] at hr
      obtain ⟨p, hp⟩ := hr; rw [hcl] at hp; cases hp
    | blocked pkt fin =>
      simp only [ReaderOk, hrd] at hr
      obtain ⟨⟨p, pc, _, hp, hopen, _⟩, _⟩ := hr
      rw [allpc p pc hp] at hopen; cases hopen
  refine ⟨⟨hmux, hl, allclosed, allpc⟩, ?_⟩
  have hr : s.tcps.countP (·.hasReader) = 0 := by
    apply List.countP_eq_zero.2
    intro t ht
    obtain ⟨k, hk⟩ := List.mem_iff_getElem?.1 ht
    simp [Tcp.hasReader, noreader k t hk]
  have hw : s.tcps.countP (·.isAttached) = 0 := by
    apply List.countP_eq_zero.2
    intro t ht
    obtain ⟨k, hk⟩ := List.mem_iff_getElem?.1 ht
    simp [Tcp.isAttached, allclosed k t hk]
  simp only [ledger, hl, hpend, hwatch, hr, hw]
  simp

theorem closePc1_down {s : State} (h : Down s) (p : Nat) : closePc1 s p = s :=
  closePc1_noop s p (fun pc hp => h.pcs p pc hp)

theorem closePcsWhere_down {s : State} (h : Down s) (sel : PConn → Bool) : closePcsWhere sel s = s := by
  unfold closePcsWhere
  apply foldl_inv (fun x : State => x = s) _ _ _ rfl
  intro b a hb
  subst hb
  split
  · split
    · exact closePc1_down h a
    · rfl
  · rfl

theorem down_setTcp {s : State} (h : Down s) (k : Nat) (g : Tcp → Tcp) (hg : ∀ t, (g t).phase = t.phase) :
    Down (setTcp s k g) := by
  refine ⟨h.mux, h.lis, ?_, h.pcs⟩
  intro j tj hj
  simp only [setTcp] at hj
  rw [getElem?_modify_map] at hj
  cases h0 : s.tcps[j]? with
  | none => rw [h0] at hj; cases hj
  | some t0 =>
    rw [h0] at hj
    simp only [Option.map_some, Option.some.injEq] at hj
    rw [← hj]
    split
    · rw [hg]; exact h.tcps j t0 h0
    · exact h.tcps j t0 h0

theorem down_setPc {s : State} (h : Down s) (p : Nat) (g : PConn → PConn) (hg : ∀ pc, (g pc).closed = pc.closed) :
    Down (setPc s p g) := by
  refine ⟨h.mux, h.lis, h.tcps, ?_⟩
  intro q qc hq
  simp only [setPc] at hq
  rw [getElem?_modify_map] at hq
  cases h0 : s.pcs[q]? with
  | none => rw [h0] at hq; cases hq
  | some q0 =>
    rw [h0] at hq
    simp only [Option.map_some, Option.some.injEq] at hq
    rw [← hq]
    split
    · rw [hg]; exact h.pcs q q0 h0
    · exact h.pcs q q0 h0

theorem down_handles {s : State} (h : Down s) (hs : List Handle) : Down { s with handles := hs } :=
  ⟨h.mux, h.lis, h.tcps, h.pcs⟩

/-- once `Close` has returned, no operation brings anything back -/
theorem down_step {s : State} (hi : Inv s) (h : Down s) (op : Op) : Down (step s op).1 := by
  cases op with
  | accept peer lip =>
    simp only [step, h.lis, Bool.false_eq_true, if_false]
    refine ⟨h.mux, rfl, ?_, h.pcs⟩
    intro k t hk
    by_cases hlt : k < s.tcps.length
    · rw [List.getElem?_append_left hlt] at hk; exact h.tcps k t hk
    · have hlen : k < (s.tcps ++ [({ peer := peer, lip := lip, phase := .closed } : Tcp)]).length := getElem?_lt hk
      simp at hlen
      have : k = s.tcps.length := by omega
      subst this
      rw [List.getElem?_concat_length] at hk; cases hk; rfl
  | frame k f =>
    simp only [step]
    split
    · exact h
    · rename_i t ht
      split
      · exact h
      · rw [h.tcps k t ht]; exact h
  | partialFrame k =>
    simp only [step]
    split
    · exact h
    · split
      · exact h
      · exact down_setTcp h k _ (fun _ => rfl)
  | clientClose k reset =>
    simp only [step]
    split
    · exact h
    · rename_i t ht
      split
      · exact h
      · rw [h.tcps k t ht]; exact down_setTcp h k _ (fun _ => rfl)
  | advance dt =>
    simp only [step]
    rw [closePcsWhere_down h]
    refine ⟨h.mux, h.lis, ?_, h.pcs⟩
    intro k t hk
    rw [List.getElem?_map] at hk
    cases h0 : s.tcps[k]? with
    | none => rw [h0] at hk; cases hk
    | some t0 =>
      rw [h0] at hk
      simp only [Option.map_some, Option.some.injEq] at hk
      rw [← hk]
      unfold expireTcp
      rw [h.tcps k t0 h0]
      exact h.tcps k t0 h0
  | getConn key => simp only [step, h.mux, if_true]; exact h
  | removeByUfrag u => simp only [step]; rw [closePcsWhere_down h]; exact h
  | closeHandle hh =>
    simp only [step]
    split
    · exact h
    · rename_i hd hhd
      split
      · exact h
      · have h1 : Down { s with handles := s.handles.modify hh (fun hd => { hd with closed := true }) } := down_handles h _
        split
        · exact h1
        · have h2 := down_setPc h1 hd.pc (fun pc => { pc with refs := pc.refs - 1 }) (fun _ => rfl)
          split
          · show Down (closePc1 _ _)
            rw [closePc1_down h2]; exact h2
          · exact h2
  | closePacketConn hh =>
    simp only [step]
    split
    · exact h
    · show Down (closePc1 _ _)
      rw [closePc1_down h]; exact h
  | write hh dst pid len =>
    simp only [step]
    split
    · exact h
    · split
      · exact h
      · split
        · exact h
        · split
          · exact h
          · exact down_setTcp h _ _ (fun _ => rfl)
  | read hh =>
    simp only [step]
    split
    · exact h
    · rename_i hd hhd
      split
      · exact h
      · unfold readPc
        split
        · exact h
        · rename_i pc hp
          have hbq : pc.blockedQ = [] := ((hi.pc hd.pc pc hp).2.2.2.2.1 (h.pcs hd.pc pc hp)).2.1
          split
          · rw [hbq]
            exact down_setPc h hd.pc _ (fun _ => rfl)
          · rw [hbq]
            simp only
            split <;> exact h
  | closeMux => simp only [step, h.mux, if_true]; exact h

end IceProofs.TcpMux
