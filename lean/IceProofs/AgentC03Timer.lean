import IceProofs.AgentC03Send
import IceProofs.AgentAuto
/-!
# C03 — the timer path (`pingAll`, `validateSelected`, `keepalive`, `nominate`, `contactCandidates`,
`contact`, `runForced`, `runTimers`) never selects, never validates a pair, keeps ghost flags
-/
namespace IceProofs.C03
open IceModel.AgentCore

theorem HOK.chain {wp ex : Prop} {a b : Agent} {o : List Out} {r : Agent × List Out}
    (h1 : HOK wp ex a (b, o)) (h2 : HOK wp ex b r) : HOK wp ex a r :=
  ⟨h1.pres.trans h2.pres, h2.cfg.trans h1.cfg, h2.ctl.trans h1.ctl,
   by have := h2.out; rw [h1.ctl] at this; exact this⟩

theorem pairById_modPair (a : Agent) (id j : Nat) (f : Pair → Pair) (hid : ∀ p, (f p).id = p.id) :
    (a.modPair id f).pairById j = (a.pairById j).map fun p => if p.id == id then f p else p := by
  unfold Agent.pairById Agent.modPair updPair
  show List.find? _ (List.map _ a.checklist) = _
  rw [List.find?_map]
  have : ((fun x : Pair => x.id == j) ∘ fun p => if p.id == id then f p else p) = fun x => x.id == j := by
    funext p
    simp only [Function.comp]
    split <;> simp [hid]
  rw [this]

/-- setting a non-valid pair to another non-valid state -/
theorem modPair_state_pres {wp ex : Prop} (a : Agent) (id : Nat) (p : Pair) (s : PairState)
    (hp : a.pairById id = some p) (hps : p.state ≠ .succeeded) (hs : s ≠ .succeeded) :
    Pres wp ex a (a.modPair id fun q => { q with state := s }) := by
  intro hi
  have hq : ∀ q ∈ a.checklist, q.id = id → q.state ≠ .succeeded := by
    intro q hqm e
    have := pairById_of_mem hi.ids hqm
    rw [e, hp] at this
    cases this; exact hps
  exact modPair_pres a id _ (fun _ => rfl)
    (fun q hqm e => ⟨fun x => x, fun x => x, fun x => x, fun x => x, fun h => absurd h (hq q hqm e)⟩)
    (fun _ q _ _ => ⟨rfl, rfl, rfl, rfl⟩)
    (fun q _ _ h => ⟨fun h' => absurd h' hs, h.deferred, h.respUC⟩)
    (fun _ q hq' e h => absurd h.succ (hq q hq' e)) hi

/-- one iteration of `pingAllCandidates` (the body of the fold in `Agent.pingAll`, verbatim) -/
def pingStep (now : Nat) (acc : Agent × List Out) (id : Nat) : Agent × List Out :=
    let (a, o) := acc
    match a.pairById id with
    | none => (a, o)
    | some p =>
      let p' : Pair := { p with state := .inProgress }
      let (a, p, go) : Agent × Pair × Bool :=
        if p.state == .waiting then (a.modPair id fun q => { q with state := .inProgress }, p', true)
        else (a, p, p.state == .inProgress)
      if !go then (a, o)
      else if p.reqCount > a.cfg.maxBindingRequests then
        (a.modPair id fun p => { p with state := .failed }, o)
      else
        match a.localOf p.l, a.remoteOf p.r with
        | some l, some r =>
          let (a, o') := a.ping now l r
          (a.modPair id fun p => { p with reqCount := p.reqCount + 1 }, o ++ o')
        | _, _ => (a, o)

theorem pingAll_eq (a : Agent) (now : Nat) :
    a.pingAll now = (a.checklist.map (·.id)).foldl (pingStep now) (a, []) := rfl

/-- the tail of an iteration, once the pair is known to be in progress -/
theorem pingStep_tail {wp : Prop} (now : Nat) (a : Agent) (o : List Out) (id : Nat) (p p0 : Pair)
    (ho : OutR a.controlling o) (hp : a.pairById id = some p0) (hps : p0.state ≠ .succeeded) :
    HOK wp True a
      (if p.reqCount > a.cfg.maxBindingRequests then
        (a.modPair id fun p => { p with state := .failed }, o)
      else
        match a.localOf p.l, a.remoteOf p.r with
        | some l, some r =>
          let (a, o') := a.ping now l r
          (a.modPair id fun p => { p with reqCount := p.reqCount + 1 }, o ++ o')
        | _, _ => (a, o)) := by
  split
  · exact ⟨modPair_state_pres a id p0 _ hp hps (by decide), rfl, rfl, ho⟩
  · split
    · rename_i l r _ _
      rcases hpg : a.ping now l r with ⟨a1, o1⟩
      have h1 : HOK wp True a (a1, o1) := hpg ▸ ping_hok a now l r
      simp only []
      exact ⟨h1.pres.trans (modPair_core _ _ _ fun p => ⟨rfl, rfl, rfl, rfl, rfl, rfl, rfl, rfl, rfl, rfl, rfl, rfl⟩),
        h1.cfg, h1.ctl, ho.append h1.out⟩
    · exact ⟨Pres.refl _ _ _, rfl, rfl, ho⟩

theorem pingStep_hok {wp : Prop} (now : Nat) (a : Agent) (o : List Out) (id : Nat)
    (ho : OutR a.controlling o) : HOK wp True a (pingStep now (a, o) id) := by
  unfold pingStep
  simp only []
  cases hp : a.pairById id with
  | none => exact ⟨Pres.refl _ _ _, rfl, rfl, ho⟩
  | some p =>
    simp only []
    by_cases hw : p.state = .waiting
    · have e : (p.state == PairState.waiting) = true := by simp [hw]
      simp only [e, if_true, Bool.not_true, Bool.false_eq_true, if_false]
      have h1 : Pres wp True a (a.modPair id fun q => { q with state := .inProgress }) :=
        modPair_state_pres a id p _ hp (by rw [hw]; decide) (by decide)
      have hp' : (a.modPair id fun q => { q with state := PairState.inProgress }).pairById id
          = some { p with state := .inProgress } := by
        rw [pairById_modPair a id id (fun q => { q with state := PairState.inProgress }) (fun _ => rfl), hp]
        simp [(pairById_mem hp).2]
      have h2 := pingStep_tail (wp := wp) now _ o id { p with state := .inProgress } _
        (by exact ho) hp' (by simp)
      exact HOK.chain (HOK.silent h1 rfl rfl) h2
    · have e : (p.state == PairState.waiting) = false := by simp [hw]
      simp only [e, Bool.false_eq_true, if_false]
      by_cases hip : p.state = .inProgress
      · have e2 : (p.state == PairState.inProgress) = true := by simp [hip]
        simp only [e2, Bool.not_true, Bool.false_eq_true, if_false]
        exact pingStep_tail now a o id p p ho hp (by rw [hip]; decide)
      · have e2 : (p.state == PairState.inProgress) = false := by simp [hip]
        simp only [e2, Bool.not_false, if_true]
        exact ⟨Pres.refl _ _ _, rfl, rfl, ho⟩

theorem pingAll_hok {wp : Prop} (a : Agent) (now : Nat) : HOK wp True a (a.pingAll now) := by
  rw [pingAll_eq]
  apply IceProofs.List.foldl_inv (fun acc => HOK wp True a acc)
  · exact HOK.refl _ _ _
  · intro b id hb
    obtain ⟨b1, o⟩ := b
    exact HOK.chain hb (pingStep_hok now b1 o id (by have := hb.out; rw [← hb.ctl] at this; exact this))

/-! ## `validateSelected`, `keepalive`, `nominate` -/

theorem setConnState_noReq (a : Agent) (s : ConnState) : NoReq (a.setConnState s).2 := by
  unfold Agent.setConnState
  split
  · exact NoReq.nil
  · intro f t m hm; simp at hm

theorem setConnState_hok {wp : Prop} (a : Agent) (s : ConnState) : HOK wp False a (a.setConnState s) :=
  ⟨setConnState_pres a s, (setConnState_cc a s).1, (setConnState_cc a s).2, (setConnState_noReq a s).outR _⟩

theorem validateSelected_hok {wp : Prop} (a : Agent) (now : Nat) :
    HOK wp False a ((a.validateSelected now).1, (a.validateSelected now).2.1) := by
  unfold Agent.validateSelected
  split
  · exact HOK.refl _ _ _
  · exact setConnState_hok a _

theorem validateSelected_noReq (a : Agent) (now : Nat) : NoReq (a.validateSelected now).2.1 := by
  unfold Agent.validateSelected
  split
  · exact NoReq.nil
  · exact setConnState_noReq a _

theorem keepalive_hok {wp ex : Prop} (a : Agent) (now : Nat) : HOK wp ex a (a.keepalive now) := by
  unfold Agent.keepalive
  split
  · exact HOK.refl _ _ _
  · split
    · split
      · exact ping_hok _ _ _ _
      · exact HOK.refl _ _ _
    · exact HOK.refl _ _ _

theorem nominate_hok {wp ex : Prop} (a : Agent) (now : Nat) (p : Pair) (hc : a.controlling = true) :
    HOK wp ex a (a.nominate now p) := by
  unfold Agent.nominate
  split
  · exact sendRequest_hok _ _ _ _ _ _ (fun _ => hc)
  · exact HOK.refl _ _ _

/-- the block "validateSelectedPair; checkKeepalive" shared by both full selectors -/
def valKeep (a : Agent) (now : Nat) : Agent × List Out :=
  let (a, o, ok) := a.validateSelected now
  if ok then let (a, o') := a.keepalive now; (a, o ++ o') else (a, o)

theorem valKeep_hok {wp : Prop} (a : Agent) (now : Nat) : HOK wp False a (valKeep a now) := by
  unfold valKeep
  have h1 := validateSelected_hok (wp := wp) a now
  rcases hv : a.validateSelected now with ⟨a1, o1, ok⟩
  rw [hv] at h1
  simp only []
  split
  · have h2 := keepalive_hok (wp := wp) (ex := False) a1 now
    rcases hk : a1.keepalive now with ⟨a2, o2⟩
    rw [hk] at h2
    exact h1.seq h2
  · exact h1

/-! ## automatic renomination -/

theorem autoClosed_hok {wp : Prop} (a : Agent) (now : Nat) (hc : a.controlling = true) :
    IceProofs.Auto.AutoParts now (fun r => HOK wp True a r) where
  mark := fun b o id p h hb hw =>
    HOK.andThen h (modPair_state_pres b id p _ hb (by rw [hw]; decide) (by decide)) rfl rfl
  ping := fun b _ l r h _ _ => HOK.seq h (ping_hok b now l r)
  time := fun _ _ h => HOK.andThen h (Pres.of_eq rfl rfl rfl rfl fun _ => rfl) rfl rfl
  count := fun _ _ h => HOK.andThen h (Pres.of_eq rfl rfl rfl rfl fun _ => rfl) rfl rfl
  issue := fun b _ l r nom h _ _ _ _ _ => HOK.seq h (sendRequest_hok b now l r true nom (fun _ => h.ctl.trans hc))
  log := fun _ _ _ h => HOK.andThen h (Pres.of_eq rfl rfl rfl rfl fun _ => rfl) rfl rfl

theorem autoRenom_hok {wp : Prop} (a : Agent) (now : Nat) (hc : a.controlling = true) :
    HOK wp True a (a.autoRenom now) :=
  IceProofs.Auto.autoRenom_parts (autoClosed_hok a now hc) a (HOK.refl _ _ _)

/-- the block "validateSelectedPair; checkKeepalive; automatic renomination" of the controlling selector -/
def valKeepAuto (a : Agent) (now : Nat) : Agent × List Out :=
  let (a, o, ok) := a.validateSelected now
  if ok then let (a, o') := a.keepalive now; let (a, o'') := a.autoRenom now; (a, o ++ o' ++ o'') else (a, o)

theorem valKeepAuto_hok {wp : Prop} (a : Agent) (now : Nat) (hc : a.controlling = true) :
    HOK wp False a (valKeepAuto a now) := by
  unfold valKeepAuto
  have h1 := validateSelected_hok (wp := wp) a now
  rcases hv : a.validateSelected now with ⟨a1, o1, ok⟩
  rw [hv] at h1
  simp only []
  split
  · have h2 := keepalive_hok (wp := wp) (ex := False) a1 now
    rcases hk : a1.keepalive now with ⟨a2, o2⟩
    rw [hk] at h2
    have h3 := (autoRenom_hok (wp := wp) a2 now (h2.ctl.trans (h1.ctl.trans hc))).weaken id False.elim
    rcases hr : a2.autoRenom now with ⟨a3, o3⟩
    rw [hr] at h3
    exact (h1.seq h2).seq h3
  · exact h1

/-- with the automatic option off the controlling selector's block is the plain one -/
theorem valKeepAuto_off (a : Agent) (now : Nat) (h : (a.cfg.autoRenom && a.cfg.enableRenomination) = false) :
    valKeepAuto a now = valKeep a now := by
  unfold valKeepAuto valKeep
  have h1 := (validateSelected_hok (wp := True) a now).cfg
  rcases hv : a.validateSelected now with ⟨a1, o1, ok⟩
  rw [hv] at h1
  simp only [] at h1 ⊢
  split
  · have h2 := (keepalive_hok (wp := True) (ex := False) a1 now).cfg
    rcases hk : a1.keepalive now with ⟨a2, o2⟩
    rw [hk] at h2
    simp only [] at h2 ⊢
    rw [IceProofs.Auto.autoRenom_off a2 now (by rw [h2, h1]; exact h)]
    simp
  · rfl

/-! ## `contactCandidates`, `contact`, `runForced`, `runTimers` -/

theorem contactCandidates_hok {wp : Prop} (a : Agent) (now : Nat) : HOK wp False a (a.contactCandidates now) := by
  unfold Agent.contactCandidates
  split
  · rename_i hc
    split
    · exact valKeepAuto_hok a now hc
    · split
      · exact nominate_hok _ _ _ hc
      · split
        · exact HOK.refl _ _ _
        · split
          · split
            · split
              · rename_i p _ _ _ _ _ _ _ _
                refine HOK.after (a1 := { (a.modPair p.id fun p => { p with nominated := true }) with
                    nominatedPair := some p.id }) ?_ rfl rfl (nominate_hok _ _ _ hc)
                refine Pres.trans (modPair_pres a p.id (fun p => { p with nominated := true }) (fun _ => rfl)
                  (fun q _ _ => ⟨fun x => x, fun x => x, fun x => x, fun x => x, fun x => x⟩)
                  (fun _ q _ _ => ⟨rfl, rfl, rfl, rfl⟩)
                  (fun q _ _ h => ⟨h.valid, h.deferred, h.respUC⟩)
                  (fun _ q _ _ h => ⟨h.succ, rfl, h.nom⟩)) ?_
                exact Pres.of_eq rfl rfl rfl rfl fun _ => rfl
              · exact (pingAll_hok a now).weaken id False.elim
            · exact (pingAll_hok a now).weaken id False.elim
          · exact (pingAll_hok a now).weaken id False.elim
  · split
    · have h := validateSelected_hok (wp := wp) a now
      exact h
    · split
      · exact valKeep_hok a now
      · exact (pingAll_hok a now).weaken id False.elim

/-- a lite agent in the controlled role contacts nobody -/
theorem contactCandidates_noReq (a : Agent) (now : Nat) (hl : a.cfg.lite = true) (hc : a.controlling = false) :
    NoReq (a.contactCandidates now).2 := by
  unfold Agent.contactCandidates
  simp only [hc, hl, Bool.false_eq_true, if_false, if_true]
  exact validateSelected_noReq a now

/-- `fin` of `Agent.contact` -/
def finish (x : Agent × List Out) : Agent × List Out := ({ x.1 with lastSeen := x.1.connState }, x.2)

/-- the `checkingStart` update of `Agent.contact` -/
def chk (a : Agent) (now : Nat) : Agent := if a.lastSeen != .checking then { a with checkingStart := now } else a

theorem contact_eq (a : Agent) (now : Nat) : a.contact now =
    if a.closed then (a, [])
    else match a.connState with
      | .failed => finish (a, [])
      | .checking =>
        if (chk a now).checkingTimeout != 0 && now - (chk a now).checkingStart > (chk a now).checkingTimeout then
          finish ((chk a now).setConnState .failed)
        else finish ((chk a now).contactCandidates now)
      | _ => finish (a.contactCandidates now) := rfl

theorem HOK.fin {wp ex : Prop} {a : Agent} {r : Agent × List Out} (h : HOK wp ex a r) :
    HOK wp ex a (finish r) :=
  ⟨h.pres.trans (Pres.of_eq rfl rfl rfl rfl fun _ => rfl), h.cfg, h.ctl, h.out⟩

theorem chk_hok {wp ex : Prop} (a : Agent) (now : Nat) : HOK wp ex a (chk a now, []) := by
  unfold chk
  split
  · exact HOK.silent (Pres.of_eq rfl rfl rfl rfl fun _ => rfl) rfl rfl
  · exact HOK.refl _ _ _

theorem contact_hok {wp : Prop} (a : Agent) (now : Nat) : HOK wp False a (a.contact now) := by
  rw [contact_eq]
  split
  · exact HOK.refl _ _ _
  · split
    · exact (HOK.refl wp False a).fin
    · split
      · exact ((chk_hok a now).chain (setConnState_hok _ _)).fin
      · exact ((chk_hok a now).chain (contactCandidates_hok _ _)).fin
    · exact (contactCandidates_hok a now).fin

theorem contact_noReq (a : Agent) (now : Nat) (hl : a.cfg.lite = true) (hc : a.controlling = false) :
    NoReq (a.contact now).2 := by
  have h1 := (chk_hok (wp := True) (ex := True) a now).cfg
  have h2 := (chk_hok (wp := True) (ex := True) a now).ctl
  rw [contact_eq]
  split
  · exact NoReq.nil
  · split
    · exact NoReq.nil
    · split
      · exact setConnState_noReq _ _
      · exact contactCandidates_noReq _ now (h1 ▸ hl) (h2 ▸ hc)
    · exact contactCandidates_noReq a now hl hc

theorem runForced_hok {wp : Prop} (a : Agent) (now : Nat) : HOK wp False a (a.runForced now) := by
  unfold Agent.runForced
  split
  · have h := contact_hok (wp := wp) { a with forcePending := false } now
    rcases hk : Agent.contact { a with forcePending := false } now with ⟨a1, o1⟩
    rw [hk] at h
    simp only []
    have h0 : HOK wp False a ({ a with forcePending := false }, []) :=
      HOK.silent (Pres.of_eq rfl rfl rfl rfl fun _ => rfl) rfl rfl
    have h3 : HOK wp False a (a1, o1) := h0.chain h
    exact h3.andThen (a2 := { a1 with nextTick := some (now + a1.interval) })
      (Pres.of_eq rfl rfl rfl rfl fun _ => rfl) rfl rfl
  · exact HOK.refl _ _ _

theorem runForced_noReq (a : Agent) (now : Nat) (hl : a.cfg.lite = true) (hc : a.controlling = false) :
    NoReq (a.runForced now).2 := by
  unfold Agent.runForced
  split
  · have h := contact_noReq { a with forcePending := false } now hl hc
    rcases hk : Agent.contact { a with forcePending := false } now with ⟨a1, o1⟩
    rw [hk] at h
    exact h
  · exact NoReq.nil

theorem runTimers_hok {wp : Prop} (a : Agent) (now fuel : Nat) : HOK wp False a (a.runTimers now fuel) := by
  induction fuel generalizing a with
  | zero => exact HOK.refl _ _ _
  | succ n ih =>
    unfold Agent.runTimers
    split
    · rename_i t _
      split
      · have h := contact_hok (wp := wp) a t
        rcases hk : a.contact t with ⟨a1, o1⟩
        rw [hk] at h
        simp only []
        have h2 := ih { a1 with nextTick := some (t + a1.interval) }
        rcases hr : Agent.runTimers { a1 with nextTick := some (t + a1.interval) } now n with ⟨a2, o2⟩
        rw [hr] at h2
        simp only []
        have h1 : HOK wp False a ({ a1 with nextTick := some (t + a1.interval) }, o1) :=
          h.andThen (Pres.of_eq rfl rfl rfl rfl fun _ => rfl) rfl rfl
        exact h1.seq h2
      · exact HOK.refl _ _ _
    · exact HOK.refl _ _ _

theorem runTimers_noReq (a : Agent) (now fuel : Nat) (hl : a.cfg.lite = true) (hc : a.controlling = false) :
    NoReq (a.runTimers now fuel).2 := by
  induction fuel generalizing a with
  | zero => exact NoReq.nil
  | succ n ih =>
    unfold Agent.runTimers
    split
    · rename_i t _
      split
      · have h := contact_noReq a t hl hc
        have hh := contact_hok (wp := True) a t
        rcases hk : a.contact t with ⟨a1, o1⟩
        rw [hk] at h hh
        simp only []
        have h2 := ih { a1 with nextTick := some (t + a1.interval) } (hh.cfg ▸ hl) (hh.ctl ▸ hc)
        rcases hr : Agent.runTimers { a1 with nextTick := some (t + a1.interval) } now n with ⟨a2, o2⟩
        rw [hr] at h2
        simp only []
        exact h.append h2
      · exact NoReq.nil
    · exact NoReq.nil

end IceProofs.C03
