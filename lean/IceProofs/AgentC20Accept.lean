import IceModel.AgentCore
/-!
# The renomination filter of the controlled selector as stand-alone model functions

`cldHandleRequest` has `shouldAcceptNomination` / `shouldSwitchSelectedPair` inline.  They are written
here as functions of their inputs and proved equal to the inline code; `IceTie/AgentNomination.lean`
proves the definitions regenerated from selection.go equal to these functions.
-/
namespace IceProofs.Agent
open IceModel.AgentCore

/-- Model of `shouldAcceptNomination`: (new `lastNomination`, accept?) for a request whose nomination
attribute is `nom` when the highest value accepted so far is `last`. -/
def shouldAcceptNomination (nom last : Option Nat) : Option Nat × Bool :=
  match nom with
  | none => (last, true)
  | some v =>
    match last with
    | none => (some v, true)
    | some l => if v > l then (some v, true) else (last, false)

/-- the inline code of `cldHandleRequest` (lines "shouldAcceptNomination"), as a function of the agent -/
def inlineAccept (a : Agent) (m : Msg) : Agent × Bool :=
  if !(m.useCand || m.nom.isSome) then (a, true) else
  match m.nom with
  | none => (a, true)
  | some v =>
    match a.lastNomination with
    | none => ({ a with lastNomination := some v }, true)
    | some last => if v > last then ({ a with lastNomination := some v }, true) else (a, false)

/-- the inline code is the stand-alone function applied to `lastNomination` -/
theorem shouldAcceptNomination_inline (a : Agent) (m : Msg) :
    inlineAccept a m = ({ a with lastNomination := (shouldAcceptNomination m.nom a.lastNomination).1 },
                        (shouldAcceptNomination m.nom a.lastNomination).2) := by
  unfold inlineAccept shouldAcceptNomination
  cases hn : m.nom with
  | none => simp
  | some v =>
    cases hl : a.lastNomination with
    | none => simp
    | some last =>
      by_cases h : v > last <;> simp [h, ← hl]

/-- Model of `shouldSwitchSelectedPair` (the `sw` of `cldHandleRequest`). -/
def shouldSwitch (hasSelected samePair hasValue hasLast needsPrio : Bool) (selectedPrio pairPrio : Nat) : Bool :=
  if !hasSelected then true
  else if samePair then false
  else if hasValue then true
  else if hasLast then false
  else !needsPrio || decide (selectedPrio < pairPrio)

/-- the inline `sw` of `cldHandleRequest` -/
def inlineSwitch (a : Agent) (id : Nat) (m : Msg) (p : Pair) : Bool :=
  match a.selected.bind a.pairById with
  | none => true
  | some sp =>
    if sp.id == id then false
    else if m.nom.isSome then true
    else if a.lastNomination.isSome then false
    else !needsPrioCheck a.cfg || a.pairPrio sp < a.pairPrio p

theorem shouldSwitch_inline (a : Agent) (id : Nat) (m : Msg) (p : Pair) :
    inlineSwitch a id m p =
      match a.selected.bind a.pairById with
      | none => shouldSwitch false false m.nom.isSome a.lastNomination.isSome (needsPrioCheck a.cfg) 0 (a.pairPrio p)
      | some sp => shouldSwitch true (sp.id == id) m.nom.isSome a.lastNomination.isSome (needsPrioCheck a.cfg)
          (a.pairPrio sp) (a.pairPrio p) := by
  unfold inlineSwitch shouldSwitch
  split <;> simp

/-- valued nominations: accepted iff strictly greater than the highest accepted so far (or none so far) -/
theorem accept_some_iff (v : Nat) (last : Option Nat) :
    (shouldAcceptNomination (some v) last).2 = true ↔ ∀ l, last = some l → l < v := by
  unfold shouldAcceptNomination
  cases last with
  | none => simp
  | some l => by_cases h : l < v <;> simp [h]

theorem accept_some_fst (v : Nat) (last : Option Nat) :
    (shouldAcceptNomination (some v) last).1 = if (shouldAcceptNomination (some v) last).2 then some v else last := by
  unfold shouldAcceptNomination
  cases last with
  | none => simp
  | some l => by_cases h : l < v <;> simp [h]

theorem accept_none (last : Option Nat) : shouldAcceptNomination none last = (last, true) := rfl

/-! ## Normal form of `cldHandleRequest` -/

/-- the pair a request is handled on: the existing pair of (local, remote), else a fresh one -/
def ensurePair (a : Agent) (l r : Cand) : Agent × Pair :=
  match a.findPair l r with
  | some p => (a, p)
  | none => a.addPair l r

/-- request counters (and ghost flags) of a pair on an inbound request -/
def countReq (m : Msg) (p : Pair) : Pair :=
  { p with reqRecv := p.reqRecv + 1, gReq := true, gNomReq := p.gNomReq || m.useCand || m.nom.isSome }

/-- the nomination effect of a request that was not rejected (`a` = state after counting the request and
recording an accepted value): on a valid pair switch the selection (`shouldSwitchSelectedPair`), on a
not-yet-valid pair remember the nomination (and its value) for when the pair's own check succeeds -/
def cldNominate (a : Agent) (m : Msg) (id : Nat) : Agent × List Out :=
  if m.useCand || m.nom.isSome then
    let a := if a.cfg.lite then a.modPair id fun p => { p with state := .succeeded } else a
    match a.pairById id with
    | none => (a, [])
    | some p =>
      if p.state == .succeeded then
        if inlineSwitch a id m p then a.select id else (a, [])
      else if m.nom.isSome || p.deferredNom.isNone then
        (a.modPair id fun p => { p with nomOnSuccess := true, deferredNom := m.nom }, [])
      else (a, [])
  else (a, [])

/-- what the controlled selector does with a request it did not reject: nomination effect, success
response, triggered check -/
def cldProceed (a : Agent) (now : Nat) (m : Msg) (l r : Cand) (id : Nat) : Agent × List Out :=
  let (a, o) := cldNominate a m id
  let (a, o1) := a.sendSuccess now m l r
  let (a, o2) :=
    match a.pairById id with
    | some p =>
      if !a.cfg.lite && (p.state != .succeeded || a.selected.isNone) then a.ping now l r else (a, [])
    | none => (a, [])
  (a, o ++ o1 ++ o2)

/-- the body of `cldHandleRequest` after the pair has been found or added and the request counted (verbatim copy; `cldHandleRequest_body`
is `rfl`) -/
def cldBody (a : Agent) (id : Nat) (now : Nat) (m : Msg) (l r : Cand) : Agent × List Out :=
  let nominated := m.useCand || m.nom.isSome
  let (a, accept) := inlineAccept a m
  if nominated && !accept then a.sendSuccess now m l r
  else
    let (a, o) :=
      if nominated then
        let a := if a.cfg.lite then a.modPair id fun p => { p with state := .succeeded } else a
        match a.pairById id with
        | none => (a, [])
        | some p =>
          if p.state == .succeeded then
            if inlineSwitch a id m p then a.select id else (a, [])
          else if m.nom.isSome || p.deferredNom.isNone then
            (a.modPair id fun p => { p with nomOnSuccess := true, deferredNom := m.nom }, [])
          else (a, [])
      else (a, [])
    let (a, o1) := a.sendSuccess now m l r
    let (a, o2) :=
      match a.pairById id with
      | some p =>
        if !a.cfg.lite && (p.state != .succeeded || a.selected.isNone) then a.ping now l r else (a, [])
      | none => (a, [])
    (a, o ++ o1 ++ o2)

theorem cldHandleRequest_body (a : Agent) (now : Nat) (m : Msg) (l r : Cand) :
    a.cldHandleRequest now m l r
      = cldBody ((ensurePair a l r).1.modPair (ensurePair a l r).2.id (countReq m)) (ensurePair a l r).2.id now m l r := rfl

theorem reject_fst (nom last : Option Nat) (h : (shouldAcceptNomination nom last).2 = false) :
    (shouldAcceptNomination nom last).1 = last := by
  unfold shouldAcceptNomination at h ⊢
  cases nom with
  | none => rfl
  | some v =>
    cases last with
    | none => simp at h
    | some l =>
      by_cases hg : v > l
      · simp [hg] at h
      · simp [hg]

theorem cldBody_nf (a1 : Agent) (id : Nat) (now : Nat) (m : Msg) (l r : Cand) :
    cldBody a1 id now m l r =
      if (m.useCand || m.nom.isSome) && !(shouldAcceptNomination m.nom a1.lastNomination).2 then a1.sendSuccess now m l r
      else cldProceed { a1 with lastNomination := (shouldAcceptNomination m.nom a1.lastNomination).1 } now m l r id := by
  unfold cldBody
  rw [shouldAcceptNomination_inline]
  cases hacc : (shouldAcceptNomination m.nom a1.lastNomination).2 with
  | true => simp only [Bool.not_true, Bool.and_false]; rfl
  | false =>
    have h1 := reject_fst _ _ hacc
    simp only [h1, Bool.not_false, Bool.and_true]
    cases hn : (m.useCand || m.nom.isSome) with
    | true => simp
    | false =>
      -- not nominated ⇒ no value ⇒ accepted: impossible
      exfalso
      have : m.nom = none := by
        cases hm : m.nom with
        | none => rfl
        | some v => simp [hm] at hn
      rw [this] at hacc
      simp [shouldAcceptNomination] at hacc

/-- `cldHandleRequest` = find-or-add the pair, count the request, `shouldAcceptNomination`; a rejected
nomination only sends the success response, anything else proceeds. -/
theorem cldHandleRequest_nf (a : Agent) (now : Nat) (m : Msg) (l r : Cand) :
    a.cldHandleRequest now m l r =
      let ap := ensurePair a l r
      let a1 := ap.1.modPair ap.2.id (countReq m)
      let acc := shouldAcceptNomination m.nom a1.lastNomination
      if (m.useCand || m.nom.isSome) && !acc.2 then a1.sendSuccess now m l r
      else cldProceed { a1 with lastNomination := acc.1 } now m l r ap.2.id := by
  rw [cldHandleRequest_body, cldBody_nf]

end IceProofs.Agent
