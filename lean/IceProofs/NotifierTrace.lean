import IceProofs.NotifierFuture
import IceSpec.C11
/-!
# Every observable trace of the notifier model passes the stream monitor `IceSpec.C11.monitorStream`

The observable events of a run (`trace`): an `enqueue e` is an Enqueue call that starts and returns
(`enqCall k e`, `enqRet k`), `callHandler` / `handlerReturn` are `enter e` / `exit e`, `closeCall` is the start
of a `Close`, the return of a non-graceful `Close` is its critical section, the return of a graceful
one is `closeWait`.  `drainLock`, `drainDone` are not observable.  The proof carries a simulation
relation `Sim` between the monitor's state and the model's state (with the model invariant inside).
Event ids are assumed distinct (as in recorded histories).
-/
namespace IceProofs.Notifier
open IceModel.Notifier IceSpec.C11

/-- observable events of one (enabled) step from `s`; `k` = number of Enqueue calls so far -/
def obs (s : State) (k : Nat) : Action → List HEv
  | .enqueue e => [.enqCall k e, .enqRet k]
  | .callHandler i => match s.drainers[i]? with
    | some (DPc.holding e) => [.enter e]
    | _ => []
  | .handlerReturn i => match s.drainers[i]? with
    | some (DPc.inHandler e) => [.exit e]
    | _ => []
  | .closeCall g => [.closeCall s.closers.length g]
  | .closeBody j => match s.closers[j]? with
    | some (CPc.start false) => [.closeRet j]
    | _ => []
  | .closeWait j => [.closeRet j]
  | .drainLock _ => []
  | .drainDone _ => []

def enqOf : Action → List Ev
  | .enqueue e => [e]
  | _ => []

/-- events enqueued by a schedule -/
def enqueued : List Action → List Ev
  | [] => []
  | a :: as => enqOf a ++ enqueued as

/-- the observable trace of a schedule run from `s` -/
def trace (s : State) (k : Nat) : List Action → List HEv
  | [] => []
  | a :: as => match step s a with
    | some s' => obs s k a ++ trace s' (k + (enqOf a).length) as
    | none => []

/-- event of the invocation in progress -/
def curOf : List DPc → Option Ev
  | [] => none
  | DPc.inHandler e :: _ => some e
  | _ :: ds => curOf ds

/-- graceful flag of a closer thread -/
def gOf : CPc → Bool
  | .start g => g
  | .waiting => true
  | .returned g => g

/-! ## small list facts -/

theorem curOf_append_none (a b : List DPc) (h : inHandlerCount a = 0) : curOf (a ++ b) = curOf b := by
  induction a with
  | nil => rfl
  | cons x a ih =>
    have h' : inHandlerCount a + (if x.isInHandler then 1 else 0) = 0 := by
      simpa [inHandlerCount, List.countP_cons] using h
    cases x <;> simp [DPc.isInHandler] at h' <;> simp [curOf] <;> exact ih (by simpa [inHandlerCount] using h')

theorem curOf_none_of_count (a : List DPc) (h : inHandlerCount a = 0) : curOf a = none := by
  have := curOf_append_none a [] h
  simpa [curOf] using this

theorem inHandler_zero_of_active_zero (a : List DPc) (h : activeCount a = 0) : inHandlerCount a = 0 := by
  have := inHandler_le_active a; omega

theorem subset_self (l : List Nat) : subset l l = true := by
  simp [subset, List.all_eq_true]

theorem nodup_split_unique {α : Type} [DecidableEq α] (a a' b b' : List α) (x : α)
    (hn : (a ++ x :: b).Nodup) (h : a ++ x :: b = a' ++ x :: b') : a = a' := by
  induction a generalizing a' with
  | nil =>
    cases a' with
    | nil => rfl
    | cons y a' =>
      simp at h
      obtain ⟨h1, h2⟩ := h
      subst h1
      simp [h2] at hn
  | cons y a ih =>
    cases a' with
    | nil =>
      simp at h
      obtain ⟨h1, h2⟩ := h
      subst h1
      simp at hn
    | cons z a' =>
      simp at h
      obtain ⟨h1, h2⟩ := h
      subst h1
      have hn' : (a ++ x :: b).Nodup := by
        have := hn; simp only [List.cons_append, List.nodup_cons] at this; exact this.2
      rw [ih a' hn' h2]

/-! ## the simulation relation -/

structure Sim (m : MSt) (s : State) (k : Nat) (E : List Ev) : Prop where
  inv : Inv s
  nodup : E.Nodup
  calls_e : m.calls.map (·.e) = E
  calls_k : ∀ c ∈ m.calls, c.k < k
  klen : k = m.calls.length
  preds : ∀ c ∈ m.calls, ∃ post, E = c.preds ++ c.e :: post
  returned : m.returned = E
  acc_prefix : s.accepted <+: E
  acc_open : s.closed = false → s.accepted = E
  afterClose : ∀ c ∈ m.calls, c.afterClose = true → c.e ∉ s.accepted
  delivered : m.delivered = s.delivered
  cur : m.cur = curOf s.drainers
  graceful : m.gracefulReturned = s.gracefulReturned
  closeRet : m.closeReturned = true → s.closed = true
  closers_len : ∀ p ∈ m.closers, p.1 < s.closers.length
  closers : ∀ j c, s.closers[j]? = some c → m.closers.find? (fun p => p.1 == j) = some (j, gOf c)

theorem sim_init : Sim {} init 0 [] := by
  constructor
  · exact inv_init
  all_goals simp [init, curOf]

/-- Result of running the monitor on the observation of one step. -/
def StepOk (m : MSt) (s : State) (k : Nat) (E : List Ev) (a : Action) (s' : State) : Prop :=
  ∃ m', mrun m (obs s k a) = .ok m' ∧ Sim m' s' (k + (enqOf a).length) (E ++ enqOf a)

theorem find_closer_append {l : List (Nat × Bool)} {n : Nat} {g : Bool} (hl : ∀ p ∈ l, p.1 < n) :
    (l ++ [(n, g)]).find? (fun p => p.1 == n) = some (n, g) := by
  rw [List.find?_append]
  have : l.find? (fun p => p.1 == n) = none := by
    apply List.find?_eq_none.mpr
    intro p hp
    have := hl p hp
    simp; omega
  simp [this]

theorem find_closer_old {l : List (Nat × Bool)} {n j : Nat} {g : Bool} {r : Nat × Bool}
    (h : l.find? (fun p => p.1 == j) = some r) : (l ++ [(n, g)]).find? (fun p => p.1 == j) = some r := by
  rw [List.find?_append, h]; rfl

/-! ### unobservable drainer steps and other steps that do not touch what the monitor sees -/

theorem curOf_split_keep (pre post : List DPc) (x y : DPc)
    (hx : x.isInHandler = false) (hy : y.isInHandler = false) :
    curOf (pre ++ y :: post) = curOf (pre ++ x :: post) := by
  induction pre with
  | nil => cases x <;> cases y <;> simp_all [curOf, DPc.isInHandler]
  | cons p pre ih => cases p <;> simp [curOf] <;> exact ih

theorem curOf_set_keep {ds : List DPc} {i : Nat} {x y : DPc} (h : ds[i]? = some x)
    (hx : x.isInHandler = false) (hy : y.isInHandler = false) : curOf (ds.set i y) = curOf ds := by
  obtain ⟨pre, post, h1, h2⟩ := split_at ds i x h
  rw [h2, h1]
  exact curOf_split_keep pre post x y hx hy

theorem sim_silent {m : MSt} {s s' : State} {k : Nat} {E : List Ev} (hs : Sim m s k E) (hi' : Inv s')
    (hacc : s'.accepted = s.accepted) (hcl : s'.closed = s.closed) (hdel : s'.delivered = s.delivered)
    (hcur : curOf s'.drainers = curOf s.drainers) (hg : s'.gracefulReturned = s.gracefulReturned)
    (hclosers : s'.closers = s.closers) : Sim m s' k E := by
  constructor
  · exact hi'
  · exact hs.nodup
  · exact hs.calls_e
  · exact hs.calls_k
  · exact hs.klen
  · exact hs.preds
  · exact hs.returned
  · rw [hacc]; exact hs.acc_prefix
  · rw [hacc, hcl]; exact hs.acc_open
  · rw [hacc]; exact hs.afterClose
  · rw [hdel]; exact hs.delivered
  · rw [hcur]; exact hs.cur
  · rw [hg]; exact hs.graceful
  · rw [hcl]; exact hs.closeRet
  · rw [hclosers]; exact hs.closers_len
  · rw [hclosers]; exact hs.closers

theorem step_drainLock {m : MSt} {s s' : State} {k : Nat} {E : List Ev} (i : Nat) (hs : Sim m s k E)
    (h : step s (.drainLock i) = some s') : StepOk m s k E (.drainLock i) s' := by
  have hi' := inv_drainLock i hs.inv h
  refine ⟨m, rfl, ?_⟩
  simp only [enqOf, List.length_nil, Nat.add_zero, List.append_nil]
  simp only [step] at h
  split at h
  · rename_i hd
    split at h <;> cases h <;>
      exact sim_silent hs hi' rfl rfl rfl (curOf_set_keep hd rfl rfl) rfl rfl
  · cases h

theorem step_drainDone {m : MSt} {s s' : State} {k : Nat} {E : List Ev} (i : Nat) (hs : Sim m s k E)
    (h : step s (.drainDone i) = some s') : StepOk m s k E (.drainDone i) s' := by
  have hi' := inv_drainDone i hs.inv h
  refine ⟨m, rfl, ?_⟩
  simp only [enqOf, List.length_nil, Nat.add_zero, List.append_nil]
  simp only [step] at h
  split at h
  · rename_i hd
    cases h
    exact sim_silent hs hi' rfl rfl rfl (curOf_set_keep hd rfl rfl) rfl rfl
  · cases h

/-! ### handler enter / exit -/

theorem step_callHandler {m : MSt} {s s' : State} {k : Nat} {E : List Ev} (i : Nat) (hs : Sim m s k E)
    (h : step s (.callHandler i) = some s') : StepOk m s k E (.callHandler i) s' := by
  have hi' := inv_callHandler i hs.inv h
  simp only [step] at h
  split at h
  · rename_i e hd
    cases h
    obtain ⟨pre, post, h1, h2, hp, hq, hr⟩ := active_unique hs.inv hd rfl
    have hk3 := hs.inv.k3
    rw [h1, held_split, held_of_active_zero _ hp, held_of_active_zero _ hq] at hk3
    simp [held] at hk3
    -- not after a graceful close
    have hng : m.gracefulReturned = false := by
      cases hgr : m.gracefulReturned
      · rfl
      · exact (no_live_get hs.inv (by rw [← hs.graceful]; exact hgr) hd rfl).elim
    -- no invocation in progress
    have hcur : m.cur = none := by
      rw [hs.cur, h1, curOf_append_none _ _ (inHandler_zero_of_active_zero _ hp)]
      simp [curOf, curOf_none_of_count _ (inHandler_zero_of_active_zero _ hq)]
    -- e is accepted, hence enqueued, hence has a call
    have hacc : s.accepted = s.delivered ++ e :: s.queue := by rw [hk3]
    obtain ⟨t, ht⟩ := hs.acc_prefix
    have hE : E = s.delivered ++ e :: (s.queue ++ t) := by rw [← ht, hacc]; simp
    have heE : e ∈ E := by rw [hE]; simp
    have hfind : ∃ c, m.calls.find? (fun c => c.e == e) = some c ∧ c ∈ m.calls ∧ c.e = e := by
      have : e ∈ m.calls.map (·.e) := by rw [hs.calls_e]; exact heE
      obtain ⟨c0, hc0, hce⟩ := List.mem_map.mp this
      cases hf : m.calls.find? (fun c => c.e == e) with
      | none =>
        have := List.find?_eq_none.mp hf c0 hc0
        simp [hce] at this
      | some c =>
        refine ⟨c, rfl, List.mem_of_find?_eq_some hf, ?_⟩
        have := List.find?_some hf
        simpa using this
    obtain ⟨c, hfc, hcm, hce⟩ := hfind
    have hnd : e ∉ s.delivered := by
      have := hs.nodup; rw [hE] at this
      intro hmem
      have := (List.nodup_append.mp this).2.2 e hmem e (by simp)
      exact this rfl
    have hac : c.afterClose = false := by
      cases hcc : c.afterClose
      · rfl
      · exact absurd (by rw [hacc, hce]; simp) (hs.afterClose c hcm hcc)
    have hpreds : c.preds = s.delivered := by
      obtain ⟨post', hp'⟩ := hs.preds c hcm
      rw [hce] at hp'
      have hn := hs.nodup
      rw [hp'] at hn
      exact nodup_split_unique _ _ _ _ e hn (by rw [← hp', hE])
    refine ⟨{ m with delivered := m.delivered ++ [e], cur := some e }, ?_, ?_⟩
    · simp only [obs, hd, mrun, mstep, hng, hcur, hfc]
      simp [hs.delivered, hnd, hac, hpreds, subset_self]
    · simp only [enqOf, List.length_nil, Nat.add_zero, List.append_nil]
      constructor
      · exact hi'
      · exact hs.nodup
      · exact hs.calls_e
      · exact hs.calls_k
      · exact hs.klen
      · exact hs.preds
      · exact hs.returned
      · exact hs.acc_prefix
      · exact hs.acc_open
      · exact hs.afterClose
      · simp [hs.delivered]
      · show some e = curOf (s.drainers.set i (DPc.inHandler e))
        rw [h2, curOf_append_none _ _ (inHandler_zero_of_active_zero _ hp)]; simp [curOf]
      · exact hs.graceful
      · exact hs.closeRet
      · exact hs.closers_len
      · exact hs.closers
  · cases h

theorem step_handlerReturn {m : MSt} {s s' : State} {k : Nat} {E : List Ev} (i : Nat) (hs : Sim m s k E)
    (h : step s (.handlerReturn i) = some s') : StepOk m s k E (.handlerReturn i) s' := by
  have hi' := inv_handlerReturn i hs.inv h
  simp only [step] at h
  split at h
  · rename_i e hd
    cases h
    obtain ⟨pre, post, h1, h2, hp, hq, hr⟩ := active_unique hs.inv hd rfl
    have hcur : m.cur = some e := by
      rw [hs.cur, h1, curOf_append_none _ _ (inHandler_zero_of_active_zero _ hp)]; simp [curOf]
    refine ⟨{ m with cur := none }, ?_, ?_⟩
    · simp [obs, hd, mrun, mstep, hcur]
    · simp only [enqOf, List.length_nil, Nat.add_zero, List.append_nil]
      constructor
      · exact hi'
      · exact hs.nodup
      · exact hs.calls_e
      · exact hs.calls_k
      · exact hs.klen
      · exact hs.preds
      · exact hs.returned
      · exact hs.acc_prefix
      · exact hs.acc_open
      · exact hs.afterClose
      · exact hs.delivered
      · show none = curOf (s.drainers.set i DPc.atLoop)
        rw [h2, curOf_append_none _ _ (inHandler_zero_of_active_zero _ hp)]
        simp [curOf, curOf_none_of_count _ (inHandler_zero_of_active_zero _ hq)]
      · exact hs.graceful
      · exact hs.closeRet
      · exact hs.closers_len
      · exact hs.closers
  · cases h

/-! ### Close -/

theorem step_closeCall {m : MSt} {s s' : State} {k : Nat} {E : List Ev} (g : Bool) (hs : Sim m s k E)
    (h : step s (.closeCall g) = some s') : StepOk m s k E (.closeCall g) s' := by
  have hi' := inv_closeCall g hs.inv h
  simp only [step] at h
  cases h
  refine ⟨{ m with closeCalled := true, closers := m.closers ++ [(s.closers.length, g)] }, by simp [obs, mrun, mstep], ?_⟩
  simp only [enqOf, List.length_nil, Nat.add_zero, List.append_nil]
  constructor
  · exact hi'
  · exact hs.nodup
  · exact hs.calls_e
  · exact hs.calls_k
  · exact hs.klen
  · exact hs.preds
  · exact hs.returned
  · exact hs.acc_prefix
  · exact hs.acc_open
  · exact hs.afterClose
  · exact hs.delivered
  · exact hs.cur
  · exact hs.graceful
  · exact hs.closeRet
  · intro p hp
    simp only [List.mem_append, List.mem_singleton] at hp
    simp only [List.length_append, List.length_singleton]
    rcases hp with hp | hp
    · have := hs.closers_len p hp; omega
    · subst hp; simp
  · intro j c hj
    simp only at hj ⊢
    rw [List.getElem?_append] at hj
    split at hj
    · exact find_closer_old (hs.closers j c hj)
    · rename_i hge
      have hj0 : j - s.closers.length = 0 := by
        rcases Nat.eq_zero_or_pos (j - s.closers.length) with h0 | h0
        · exact h0
        · rw [List.getElem?_eq_none (by simp; omega)] at hj; cases hj
      rw [hj0] at hj
      simp at hj
      have : j = s.closers.length := by omega
      subst this; subst hj
      exact find_closer_append hs.closers_len

theorem closers_set {m : MSt} {s : State} {k : Nat} {E : List Ev} (hs : Sim m s k E) {j : Nat} {c c' : CPc}
    (hj : s.closers[j]? = some c) (hg : gOf c' = gOf c) :
    ∀ j' x, (s.closers.set j c')[j']? = some x → m.closers.find? (fun p => p.1 == j') = some (j', gOf x) := by
  intro j' x hx
  rw [List.getElem?_set] at hx
  split at hx
  · rename_i hjj; subst hjj
    split at hx
    · cases hx; rw [hg]; exact hs.closers j c hj
    · cases hx
  · exact hs.closers j' x hx

theorem step_closeBody {m : MSt} {s s' : State} {k : Nat} {E : List Ev} (j : Nat) (hs : Sim m s k E)
    (h : step s (.closeBody j) = some s') : StepOk m s k E (.closeBody j) s' := by
  have hi' := inv_closeBody j hs.inv h
  simp only [step] at h
  split at h
  · rename_i g hj
    cases h
    cases g with
    | true =>
      refine ⟨m, by simp [obs, hj, mrun], ?_⟩
      simp only [enqOf, List.length_nil, Nat.add_zero, List.append_nil]
      constructor
      · exact hi'
      · exact hs.nodup
      · exact hs.calls_e
      · exact hs.calls_k
      · exact hs.klen
      · exact hs.preds
      · exact hs.returned
      · exact hs.acc_prefix
      · intro hc; cases hc
      · exact hs.afterClose
      · exact hs.delivered
      · exact hs.cur
      · exact hs.graceful
      · intro _; rfl
      · intro p hp; simp only [List.length_set]; exact hs.closers_len p hp
      · exact closers_set hs hj rfl
    | false =>
      have hfind := hs.closers j _ hj
      refine ⟨{ m with closeReturned := true, gracefulReturned := m.gracefulReturned || false }, ?_, ?_⟩
      · simp [obs, hj, mrun, mstep, hfind, gOf]
      · simp only [enqOf, List.length_nil, Nat.add_zero, List.append_nil]
        constructor
        · exact hi'
        · exact hs.nodup
        · exact hs.calls_e
        · exact hs.calls_k
        · exact hs.klen
        · exact hs.preds
        · exact hs.returned
        · exact hs.acc_prefix
        · intro hc; cases hc
        · exact hs.afterClose
        · exact hs.delivered
        · exact hs.cur
        · simp [hs.graceful]
        · intro _; rfl
        · intro p hp; simp only [List.length_set]; exact hs.closers_len p hp
        · exact closers_set hs hj rfl
  · cases h

theorem step_closeWait {m : MSt} {s s' : State} {k : Nat} {E : List Ev} (j : Nat) (hs : Sim m s k E)
    (h : step s (.closeWait j) = some s') : StepOk m s k E (.closeWait j) s' := by
  have hi' := inv_closeWait j hs.inv h
  simp only [step] at h
  split at h
  · rename_i hj
    split at h
    · rename_i hw
      cases h
      have hfind := hs.closers j _ hj
      have hcl : s.closed = true := hs.inv.closers _ (List.mem_of_getElem? hj) (Or.inl rfl)
      have hlive : liveCount s.drainers = 0 := by have := hs.inv.k4; omega
      have hcur : m.cur = none := by
        rw [hs.cur]
        apply curOf_none_of_count
        have := inHandler_le_active s.drainers; have := active_le_live s.drainers; omega
      refine ⟨{ m with closeReturned := true, gracefulReturned := m.gracefulReturned || true }, ?_, ?_⟩
      · simp [obs, mrun, mstep, hfind, gOf, hcur]
      · simp only [enqOf, List.length_nil, Nat.add_zero, List.append_nil]
        constructor
        · exact hi'
        · exact hs.nodup
        · exact hs.calls_e
        · exact hs.calls_k
        · exact hs.klen
        · exact hs.preds
        · exact hs.returned
        · exact hs.acc_prefix
        · exact hs.acc_open
        · exact hs.afterClose
        · exact hs.delivered
        · exact hs.cur
        · simp
        · intro _; exact hcl
        · intro p hp; simp only [List.length_set]; exact hs.closers_len p hp
        · exact closers_set hs hj rfl
    · cases h
  · cases h

/-! ### Enqueue -/

theorem curOf_append_atLoop (ds : List DPc) : curOf (ds ++ [DPc.atLoop]) = curOf ds := by
  induction ds with
  | nil => rfl
  | cons x ds ih => cases x <;> simp [curOf, ih]

theorem step_enqueue {m : MSt} {s s' : State} {k : Nat} {E : List Ev} (e : Ev) (hs : Sim m s k E)
    (hn : (E ++ [e]).Nodup) (h : step s (.enqueue e) = some s') : StepOk m s k E (.enqueue e) s' := by
  have hi' := inv_enqueue e hs.inv h
  have heE : e ∉ E := by
    intro hmem
    have := (List.nodup_append.mp hn).2.2 e hmem e (by simp)
    exact this rfl
  -- the monitor side
  have hany : m.calls.any (fun c => c.e == e || c.k == k) = false := by
    rw [List.any_eq_false]
    intro c hc
    have h1 : c.e ≠ e := by
      intro hce
      apply heE
      rw [← hs.calls_e, ← hce]; exact List.mem_map_of_mem hc
    have h2 := hs.calls_k c hc
    simp [h1]; omega
  let cnew : Call := { k := k, e := e, preds := m.returned, afterClose := m.closeReturned }
  have hfindk : (m.calls ++ [cnew]).find? (fun c => c.k == k) = some cnew := by
    rw [List.find?_append]
    have : m.calls.find? (fun c => c.k == k) = none := by
      apply List.find?_eq_none.mpr
      intro c hc
      have := hs.calls_k c hc
      simp; omega
    simp [this, cnew]
  let m' : MSt := { m with calls := m.calls ++ [cnew], returned := m.returned ++ [e],
                           must := if m.closeCalled then m.must else m.must ++ [e] }
  refine ⟨m', ?_, ?_⟩
  · show mrun m [HEv.enqCall k e, HEv.enqRet k] = .ok m'
    simp only [mrun, mstep, hany, Bool.false_eq_true, if_false]
    have hfindk' : List.find? (fun c => c.k == k)
        (m.calls ++ [{ k := k, e := e, preds := m.returned, afterClose := m.closeReturned }]) = some cnew := hfindk
    rw [hfindk']
  · -- the relation after the step
    have hacc' : (s.closed = true ∧ s'.accepted = s.accepted ∧ s'.closed = true) ∨
        (s.closed = false ∧ s'.accepted = s.accepted ++ [e] ∧ s'.closed = false) := by
      simp only [step] at h
      split at h
      · rename_i hc; cases h; exact Or.inl ⟨hc, rfl, hc⟩
      · rename_i hc
        have hc' : s.closed = false := by simpa using hc
        right
        split at h <;> cases h <;> exact ⟨hc', rfl, hc'⟩
    have hrest : s'.delivered = s.delivered ∧ curOf s'.drainers = curOf s.drainers ∧
        s'.gracefulReturned = s.gracefulReturned ∧ s'.closers = s.closers := by
      simp only [step] at h
      split at h
      · cases h; exact ⟨rfl, rfl, rfl, rfl⟩
      · split at h
        · cases h; exact ⟨rfl, rfl, rfl, rfl⟩
        · cases h; exact ⟨rfl, curOf_append_atLoop _, rfl, rfl⟩
    obtain ⟨hdel, hcur, hgr, hclosers⟩ := hrest
    simp only [enqOf, List.length_singleton]
    constructor
    · exact hi'
    · exact hn
    · simp [m', cnew, hs.calls_e]
    · intro c hc
      simp only [m', List.mem_append, List.mem_singleton] at hc
      rcases hc with hc | hc
      · have := hs.calls_k c hc; omega
      · subst hc; simp [cnew]
    · simp [m', hs.klen]
    · intro c hc
      simp only [m', List.mem_append, List.mem_singleton] at hc
      rcases hc with hc | hc
      · obtain ⟨post, hp⟩ := hs.preds c hc
        exact ⟨post ++ [e], by rw [hp]; simp⟩
      · subst hc; exact ⟨[], by simp [cnew, hs.returned]⟩
    · simp [m', hs.returned]
    · rcases hacc' with ⟨_, ha, _⟩ | ⟨hc, ha, _⟩
      · rw [ha]; exact List.IsPrefix.trans hs.acc_prefix (List.prefix_append _ _)
      · rw [ha, hs.acc_open hc]; exact List.prefix_refl _
    · intro hc
      rcases hacc' with ⟨_, _, hc'⟩ | ⟨hc0, ha, _⟩
      · rw [hc'] at hc; cases hc
      · rw [ha, hs.acc_open hc0]
    · intro c hc hac
      simp only [m', List.mem_append, List.mem_singleton] at hc
      rcases hacc' with ⟨hc0, ha, _⟩ | ⟨hc0, ha, _⟩
      · rw [ha]
        rcases hc with hc | hc
        · exact hs.afterClose c hc hac
        · subst hc
          intro hmem
          obtain ⟨t, ht⟩ := hs.acc_prefix
          exact heE (by rw [← ht]; exact List.mem_append_left _ hmem)
      · rcases hc with hc | hc
        · rw [ha]
          intro hmem
          simp only [List.mem_append, List.mem_singleton] at hmem
          rcases hmem with hmem | hmem
          · exact hs.afterClose c hc hac hmem
          · apply heE; rw [← hs.calls_e, ← hmem]; exact List.mem_map_of_mem hc
        · subst hc
          have : m.closeReturned = true := hac
          have := hs.closeRet this
          rw [hc0] at this; cases this
    · rw [hdel]; exact hs.delivered
    · rw [hcur]; exact hs.cur
    · rw [hgr]; exact hs.graceful
    · intro hcr
      have := hs.closeRet hcr
      rcases hacc' with ⟨_, _, hc'⟩ | ⟨hc0, _, _⟩
      · exact hc'
      · rw [hc0] at this; cases this
    · rw [hclosers]; exact hs.closers_len
    · rw [hclosers]; exact hs.closers

/-! ## all steps, all schedules -/

theorem sim_step {m : MSt} {s s' : State} {k : Nat} {E : List Ev} (a : Action) (hs : Sim m s k E)
    (hn : (E ++ enqOf a).Nodup) (h : step s a = some s') : StepOk m s k E a s' := by
  cases a with
  | enqueue e => exact step_enqueue e hs hn h
  | drainLock i => exact step_drainLock i hs h
  | callHandler i => exact step_callHandler i hs h
  | handlerReturn i => exact step_handlerReturn i hs h
  | drainDone i => exact step_drainDone i hs h
  | closeCall g => exact step_closeCall g hs h
  | closeBody j => exact step_closeBody j hs h
  | closeWait j => exact step_closeWait j hs h

theorem mrun_append (m : MSt) (a b : List HEv) :
    mrun m (a ++ b) = match mrun m a with
      | .ok m' => mrun m' b
      | .error w => .error w := by
  induction a generalizing m with
  | nil => rfl
  | cons x a ih =>
    simp only [List.cons_append, mrun]
    cases mstep m x with
    | ok m' => exact ih m'
    | error w => rfl

theorem sim_run {m : MSt} {s s' : State} {k : Nat} {E : List Ev} (as : List Action) (hs : Sim m s k E)
    (hn : (E ++ enqueued as).Nodup) (h : run s as = some s') :
    ∃ m', mrun m (trace s k as) = .ok m' := by
  induction as generalizing m s k E with
  | nil => exact ⟨m, rfl⟩
  | cons a as ih =>
    simp only [run] at h
    split at h
    · rename_i s1 hs1
      simp only [enqueued, ← List.append_assoc] at hn
      have hn1 : (E ++ enqOf a).Nodup := (List.nodup_append.mp hn).1
      obtain ⟨m1, hm1, hsim1⟩ := sim_step a hs hn1 hs1
      obtain ⟨m2, hm2⟩ := ih hsim1 hn h
      refine ⟨m2, ?_⟩
      simp only [trace, hs1, mrun_append, hm1]
      exact hm2
    · cases h

end IceProofs.Notifier
