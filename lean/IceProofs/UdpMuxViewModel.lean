import IceProofs.UdpMuxSim
import IceProofs.UdpMuxView
/-!
# C12: every output of the model can be carried by the output line

The only part of a typed output the line cannot carry in general is the raw source address of a read
datagram (`wfAddr`).  The model returns on a read a source it was given by an earlier `inbound`
operation, so it is enough that the sources of the `inbound` operations are well formed (`opWf`) — and
those are exactly what the driver's `parseAddr` yields on a space-free token (`wfAddr_parseAddr`).
-/
namespace IceProofs.UdpMuxView
open IceModel.UdpMux IceProofs.UdpMux IceSpec.C12View
open IceSpec.C12 (SState fupd)

/-- the operation can be written on an input line and its datagram source printed back -/
def opWf : Op → Bool
  | .inbound src _ _ => wfAddr src
  | _ => true

/-- every datagram the monitor's history holds as undelivered has a printable source -/
def QInv (s : SState) : Prop := ∀ c p, p ∈ s.queue c → wfAddr p.2 = true

theorem qinv_init : QInv SState.init := by
  intro c p hp
  simp [SState.init] at hp

theorem qinv_of_sub (s s' : SState) (h : QInv s) (hsub : ∀ c p, p ∈ s'.queue c → p ∈ s.queue c) : QInv s' :=
  fun c p hp => h c p (hsub c p hp)

theorem removeOne_queue (s : SState) (u : Name) (f : Bool) : (IceSpec.C12.removeOne s u f).queue = s.queue := by
  unfold IceSpec.C12.removeOne
  split <;> rfl

theorem qinv_step (s : SState) (hq : QInv s) (op : Op) (hop : opWf op = true) (o : Out) :
    QInv (IceSpec.C12.step s op o).1 := by
  cases op with
  | getConn u v6 =>
    cases o <;> try exact hq
    rename_i h c
    apply qinv_of_sub _ _ hq
    intro c' p hp
    simp only [IceSpec.C12.step] at hp
    split at hp
    · simp only [fupd] at hp
      split at hp
      · simp at hp
      · exact hp
    · exact hp
  | writeTo h dst =>
    apply qinv_of_sub _ _ hq
    intro c' p hp
    simp only [IceSpec.C12.step] at hp
    split at hp
    · split at hp <;> exact hp
    · exact hp
  | inbound src k pid =>
    cases o <;> try exact hq
    rename_i c
    intro c' p hp
    simp only [IceSpec.C12.step, fupd] at hp
    split at hp
    · rename_i hc
      rcases List.mem_append.mp hp with hp | hp
      · exact hq c p hp
      · simp only [List.mem_singleton] at hp
        rw [hp]
        exact hop
    · exact hq c' p hp
  | removeByUfrag u =>
    apply qinv_of_sub _ _ hq
    intro c' p hp
    simp only [IceSpec.C12.step, removeOne_queue] at hp
    exact hp
  | closeHandle h =>
    apply qinv_of_sub _ _ hq
    intro c' p hp
    simp only [IceSpec.C12.step] at hp
    split at hp
    · split at hp
      · split at hp
        · simp only [fupd] at hp
          split at hp
          · simp at hp
          · exact hp
        · exact hp
      · exact hp
    · exact hp
  | watcherRun c =>
    apply qinv_of_sub _ _ hq
    intro c' p hp
    simp only [IceSpec.C12.step] at hp
    split at hp <;> exact hp
  | closeMux =>
    apply qinv_of_sub _ _ hq
    intro c' p hp
    simp only [IceSpec.C12.step] at hp
    split at hp
    · exact hp
    · simp only at hp
      split at hp
      · simp at hp
      · exact hp
  | read h =>
    apply qinv_of_sub _ _ hq
    intro c' p hp
    simp only [IceSpec.C12.step] at hp
    split at hp
    · exact hp
    · split at hp
      · split at hp
        · rename_i c _ _ _ _ rest hqc
          simp only [fupd] at hp
          split at hp
          · rename_i hc
            rw [hc, hqc]
            exact List.mem_cons_of_mem _ hp
          · exact hp
        · exact hp
      · exact hp
      · exact hp

/-- only a read returns a datagram; its source is the source of a queued datagram -/
theorem wfOut_step (m : Mux) (s : SState) (hi : Inv m) (hs : Sim m s) (hq : QInv s) (op : Op) :
    wfOut (step m op).2 = true := by
  cases op with
  | getConn u v6 =>
    simp only [step, getConn]
    split
    · rfl
    · split <;> rfl
  | writeTo h dst =>
    simp only [step, writeTo_out]
    (repeat' split) <;> rfl
  | inbound src k pid =>
    simp only [step, inbound_out_expected m s hi hs src k pid]
    split <;> rfl
  | removeByUfrag u => rfl
  | closeHandle h =>
    simp only [step, closeHandle_out]
    split <;> rfl
  | watcherRun c =>
    simp only [step, watcherRun]
    split
    · rfl
    · split <;> rfl
  | closeMux => rfl
  | read h =>
    show wfOut (read m h).2 = true
    cases ho : (read m h).2 with
    | pkt pid src =>
      obtain ⟨k1, rest, hr⟩ := read_pkt m h pid src ho
      have k3 : (m.conn (m.hconn h)).closed = false := by
        cases hc : (m.conn (m.hconn h)).closed
        · rfl
        · have := hi.cfifo _ hc; rw [hr] at this; cases this
      have hqq := hs.queue _ (hi.hnd h k1) k3
      rw [hr] at hqq
      exact hq (m.hconn h) (pid, src) (by rw [hqq]; simp)
    | _ => rfl

/-- shape of the model's outputs: plain success is `wrote` exactly for `WriteTo`; a new handle has the next id -/
theorem out_shape (m : Mux) (s : SState) (hs : Sim m s) (op : Op) :
    ((step m op).2 = .wrote ∨ (step m op).2 = .done → (step m op).2 = okOf op)
    ∧ ∀ h' c, (step m op).2 = .conn h' c → h' = s.nh := by
  cases op with
  | getConn u v6 =>
    simp only [step, getConn]
    split
    · simp
    · split <;> simp [hs.nh]
  | writeTo h dst =>
    simp only [step, writeTo_out]
    (repeat' split) <;> simp [okOf]
  | inbound src k pid =>
    simp only [step, inbound]
    (repeat' split) <;> simp
  | removeByUfrag u => simp [step, okOf]
  | closeHandle h =>
    simp only [step, closeHandle_out]
    split <;> simp [okOf]
  | watcherRun c =>
    simp only [step, watcherRun]
    (repeat' split) <;> simp [okOf]
  | closeMux => simp [step, okOf]
  | read h =>
    simp only [step, read_eq]
    (repeat' split) <;> simp

/-- the line of every output of the model decodes to that output -/
theorem decode_step (m : Mux) (s : SState) (hi : Inv m) (hs : Sim m s) (hq : QInv s) (op : Op) (i g : Nat) :
    decode op s.nh (printOut i g (step m op).2) = some (step m op).2 := by
  obtain ⟨h1, h2⟩ := out_shape m s hs op
  unfold decode
  rw [parseWire_printOut i g _ (wfOut_step m s hi hs hq op), Option.bind_some]
  exact ofWire_toWire i g _ _ _ h1 h2

/-- From related states whose history holds printable sources only, every output of a run of the model
over printable operations is printable. -/
theorem wfOut_run (ops : List Op) : ∀ (m : Mux) (s : SState), Inv m → Sim m s → QInv s →
    (∀ op ∈ ops, opWf op = true) → ∀ e ∈ (run m ops).2, wfOut e.2 = true := by
  induction ops with
  | nil => intro m s _ _ _ _ e he; simp [run] at he
  | cons op ops ih =>
    intro m s hi hs hq hops e he
    rw [run_cons] at he
    simp only [List.mem_cons] at he
    rcases he with rfl | he
    · exact wfOut_step m s hi hs hq op
    · exact ih _ _ (inv_step m hi op) (sim_step m s hi hs op).1
        (qinv_step s hq op (hops op (by simp)) _) (fun x hx => hops x (List.mem_cons_of_mem _ hx)) e he

theorem qinv_run (ops : List Op) : ∀ (m : Mux) (s : SState), QInv s → (∀ op ∈ ops, opWf op = true) →
    QInv (IceSpec.C12.stateAfter s (run m ops).2) := by
  induction ops with
  | nil => intro m s hq _; exact hq
  | cons op ops ih =>
    intro m s hq hops
    rw [run_cons]
    exact ih _ _ (qinv_step s hq op (hops op (by simp)) _) (fun x hx => hops x (List.mem_cons_of_mem _ hx))

/-- the printed trace of a run: every output on its line, for any choice of socket index and session-wide
handle id per line -/
def printTrace (ig : Op × Out → Nat × Nat) (t : List (Op × Out)) : List (Op × String) :=
  t.map (fun e => (e.1, printOut (ig e).1 (ig e).2 e.2))

/-- on the printed trace of a run of the model the line monitor gives the verdicts of the typed monitor -/
theorem lineVerdicts_run (ig : Op × Out → Nat × Nat) (ops : List Op) :
    ∀ (m : Mux) (s : SState), Inv m → Sim m s → QInv s → (∀ op ∈ ops, opWf op = true) →
    lineVerdicts s (printTrace ig (run m ops).2) = IceSpec.C12.verdicts s (run m ops).2 := by
  induction ops with
  | nil => intro m s _ _ _ _; rfl
  | cons op ops ih =>
    intro m s hi hs hq hops
    rw [run_cons]
    simp only [printTrace, List.map_cons, lineVerdicts, IceSpec.C12.verdicts]
    rw [decode_step m s hi hs hq op]
    simp only
    congr 1
    exact ih _ _ (inv_step m hi op) (sim_step m s hi hs op).1
      (qinv_step s hq op (hops op (by simp)) _) (fun x hx => hops x (List.mem_cons_of_mem _ hx))

end IceProofs.UdpMuxView
