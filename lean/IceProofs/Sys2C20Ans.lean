import IceProofs.Sys2C20FrameS
import IceProofs.Sys2C20AnsQ
/-!
# C20 on `Sys2` — who writes `answeredNomination`

Frame walk in `Sys2C20AnsQ` (projection `Agent.ansv`); here the writer `handleSuccess`, the dispatch of
`handleInbound` (a request leaves the field alone unless the role flips) and the assembly over `step`.
-/
namespace IceProofs.C20S
open IceModel.AgentCore IceProofs.Agent

/-- what the controlling selector has recorded after the response to the transaction `pd` -/
def ansAfter (w : Option Nat) (pd : Pending) : Option Nat :=
  if pd.useCand then
    match pd.nom with
    | some v => if supersededBy w v then w else some v
    | none => w
  else w

/-! ## `handleSuccess` -/

/-- no transaction is completed: the field is untouched (either role) -/
theorem handleSuccess_none_ansv (a : Agent) (now : Nat) (m : Msg) (l r : Cand) (src : Nat)
    (h : ansPair a now m l r src = none) : (a.handleSuccess now m l r src).1.ansv = a.ansv := by
  rw [C03.handleSuccess_eq]
  have hfp := C03.takePending_findPair a now m.tid l r
  unfold ansPair at h
  cases hp : (a.takePending now m.tid).2 with
  | none => exact ansv_takePending a now m.tid
  | some pd =>
    rw [hp] at h
    simp only [] at h ⊢
    by_cases hc : (pd.net == l.net && pd.dest == src && pd.src == l.addr) = true
    · rw [if_pos hc] at h
      simp only [hc, Bool.not_true, Bool.false_eq_true, if_false]
      rw [hfp]
      cases hf : a.findPair l r with
      | none => exact ansv_takePending a now m.tid
      | some p => rw [hf] at h; cases h
    · simp only [hc, Bool.not_false, if_true]
      exact ansv_takePending a now m.tid

theorem hsB_ansv (a : Agent) (now : Nat) (m : Msg) (pd : Pending) (p : Pair) : (hsB a now m pd p).ansv = a.ansv := by
  unfold hsB; simp

theorem hsSel_ansv (a : Agent) (p : Pair) (pd : Pending) : (C03.hsSel a p pd).1.ansv = a.ansv := by
  rcases C03.hsSel_cases a p pd with h | ⟨h, _⟩
  · rw [h]
  · rw [h]; exact ansv_select a p.id

/-- a transaction is completed on a controlling agent -/
theorem handleSuccess_some_answered (a : Agent) (now : Nat) (m : Msg) (l r : Cand) (src : Nat) (pd : Pending) (p : Pair)
    (hc : a.controlling = true) (h : ansPair a now m l r src = some (pd, p)) :
    (a.handleSuccess now m l r src).1.answeredNomination = ansAfter a.answeredNomination pd := by
  rw [handleSuccess_some a now m l r src pd p h]
  have hcB : (hsB a now m pd p).controlling = true :=
    (congrArg Core.controlling (hsB_core a now m pd p)).trans hc
  have hB : (hsB a now m pd p).answeredNomination = a.answeredNomination := ansv_field (hsB_ansv a now m pd p)
  have hx : (C03.hsSel (hsB a now m pd p) p pd).1.answeredNomination = (hsB a now m pd p).answeredNomination :=
    ansv_field (hsSel_ansv _ p pd)
  have := hsFin_answered (hsB a now m pd p) p pd (C03.hsSel (hsB a now m pd p) p pd).1 hcB hx
  rw [hB] at this
  exact this

/-! ## `handleInbound` -/

theorem resolveSource_ansv (a : Agent) (l : Cand) (src : Nat) (m : Msg) : (resolveSource a l src m).1.ansv = a.ansv := by
  unfold resolveSource
  split
  · rfl
  · exact ansv_addRemoteCandidate a _

theorem hiReq_ansv (a : Agent) (now : Nat) (l r : Cand) (m : Msg) (o0 : List Out) :
    (C03.hiReq a now l r m o0).1.ansv = a.ansv := by
  unfold C03.hiReq
  cases a.controlling
  · simp only [Bool.false_eq_true, if_false]
    exact (ansv_seenRemoteRecv _ _ _).trans (ansv_cldHandleRequest a now m l r)
  · simp only [if_true]
    exact (ansv_seenRemoteRecv _ _ _).trans (ansv_ctlHandleRequest a now m l r)

/-- a request with a resolved source: the field is untouched, or the role flips (lost role conflict) -/
theorem hiRole_ansv (a : Agent) (now : Nat) (l r : Cand) (m : Msg) (o0 : List Out) :
    (C03.hiRole a now l r m o0).1.ansv = a.ansv ∨ (C03.hiRole a now l r m o0).1.controlling = !a.controlling := by
  unfold C03.hiRole
  split
  · split
    · split
      · exact Or.inl rfl
      · exact Or.inr rfl
    · exact Or.inl (hiReq_ansv a now l r m o0)
  · exact Or.inl (hiReq_ansv a now l r m o0)

/-- no transaction is completed: the field is untouched, or the role flips -/
theorem hi_none_ansv (a : Agent) (now : Nat) (l : Cand) (src : Nat) (m : Msg) (hans : ansOf a now l src m = none) :
    (a.handleInbound now l src m).1.ansv = a.ansv ∨
      (a.handleInbound now l src m).1.controlling = !a.controlling := by
  rw [C03.handleInbound_eq]
  split
  · exact Or.inl rfl
  · rename_i hmeth
    have hm1 : m.method = 1 := by
      simp only [Bool.not_eq_true, Bool.not_eq_false', Bool.and_eq_true, beq_iff_eq] at hmeth
      exact hmeth.1
    split
    · rename_i hcls
      split
      · exact Or.inl rfl
      · rename_i hkey
        split
        · exact Or.inl rfl
        · rename_i r hr
          have hk : m.key = some a.remotePwd := by simpa using hkey
          have hc2 : m.cls = 2 := by simpa using hcls
          have : ansPair a now m l r src = none := by
            unfold ansOf at hans
            rw [hr] at hans
            simpa [hm1, hc2, hk] using hans
          exact Or.inl ((ansv_seenRemoteRecv _ _ _).trans (handleSuccess_none_ansv a now m l r src this))
    · split
      · split
        · exact Or.inl rfl
        · split
          · exact Or.inl rfl
          · rw [hiDisc_eq]
            have hd := resolveSource_ansv a l src m
            have hcore : (resolveSource a l src m).1.controlling = a.controlling :=
              congrArg Core.controlling (core_resolveSource a l src m)
            split
            · exact Or.inl hd
            · rename_i r hr
              rcases hiRole_ansv (resolveSource a l src m).1 now l r m (resolveSource a l src m).2.1 with h | h
              · exact Or.inl (h.trans hd)
              · exact Or.inr (h.trans (by rw [hcore]))
      · split
        · exact Or.inl rfl
        · exact Or.inl rfl

/-- `handleInbound` on an agent that is and stays controlling -/
theorem handleInbound_answered (a : Agent) (now : Nat) (l : Cand) (src : Nat) (m : Msg) (hc : a.controlling = true)
    (hc' : (a.handleInbound now l src m).1.controlling = true) :
    (a.handleInbound now l src m).1.answeredNomination =
      match ansOf a now l src m with
      | some x => ansAfter a.answeredNomination x.1
      | none => a.answeredNomination := by
  cases hans : ansOf a now l src m with
  | none =>
    simp only []
    rcases hi_none_ansv a now l src m hans with h | h
    · exact ansv_field h
    · rw [hc', hc] at h; cases h
  | some x =>
    obtain ⟨pd, p⟩ := x
    simp only []
    obtain ⟨r, _, h2, h3⟩ := hi_success hans
    rw [h3]
    exact handleSuccess_some_answered a now m l r src pd p hc h2

/-! ## `step` -/

/-- every event of the frame that is not an inbound STUN message leaves the field alone on a started agent -/
theorem step_other_ansv (a : Agent) (e : Ev) (hst : a.started = true) (hk : keeps e = true)
    (hne : ∀ now la src m, e ≠ .inbound now la src m) : (step a e).1.ansv = a.ansv := by
  cases e with
  | addLocal now c => simp [step]
  | addRemote now c =>
    simp only [step]
    split
    · simp
    · split <;> simp
  | start now c ru rp =>
    rw [C03.step_start_eq]
    split
    · rfl
    · rfl
  | setRemoteCreds ru rp =>
    simp only [step]
    split
    · rfl
    · split
      · rfl
      · split <;> rfl
  | advance now => simp [step]
  | inbound now la src m => exact absurd rfl (hne now la src m)
  | inboundData now la src len s =>
    simp only [step]
    split
    · rfl
    split
    · rfl
    · simp
  | write now len s => simp [step]
  | writeToPair now id len s => simp [step]
  | read =>
    simp only [step]
    split
    · rfl
    split <;> rfl
  | renominate now la ri v =>
    simp only [step]
    ansv_cases
  | restart now u p => cases hk
  | close => cases hk

/-- `step_answered` with the recorded value written through `ansAfter` -/
theorem step_answered' (a : Agent) (e : Ev) (hst : a.started = true) (hk : keeps e = true)
    (hc : a.controlling = true) (hc' : (step a e).1.controlling = true) :
    (step a e).1.answeredNomination =
      match answerOf a e with
      | some x => ansAfter a.answeredNomination x.1
      | none => a.answeredNomination := by
  by_cases hin : ∃ now la src m, e = .inbound now la src m
  · obtain ⟨now, la, src, m, rfl⟩ := hin
    by_cases hcl : a.closed = true
    · obtain ⟨h1, h2⟩ := step_inbound_skip a now la src m (Or.inl hcl)
      rw [answerOf_of_inboundOn_none a _ h2, h1]
    · have hcl' : a.closed = false := by simpa using hcl
      cases hl : a.localByAddr la with
      | none =>
        obtain ⟨h1, h2⟩ := step_inbound_skip a now la src m (Or.inr (Or.inr hl))
        rw [answerOf_of_inboundOn_none a _ h2, h1]
      | some l =>
        have hform := step_inbound_form a now la src m l hcl' hst hl
        rw [hform] at hc' ⊢
        have hctl : (a.handleInbound now l src m).1.controlling = true := by
          have := congrArg Core.controlling (core_runForced (a.handleInbound now l src m).1 now)
          simp only [core_controlling] at this
          rw [← this]; exact hc'
        rw [ansv_field (ansv_runForced _ now), answerOf_inbound a now la src m l hcl' hst hl,
          handleInbound_answered a now l src m hc hctl]
        cases ansOf a now l src m <;> rfl
  · have hne : ∀ now la src m, e ≠ .inbound now la src m := fun now la src m h => hin ⟨now, la, src, m, h⟩
    have hio : inboundOn a e = none := by
      cases e with
      | inbound now la src m => exact absurd rfl (hne now la src m)
      | _ => rfl
    rw [answerOf_of_inboundOn_none a e hio]
    exact ansv_field (step_other_ansv a e hst hk hne)

/-- `answeredNomination` (the greatest renomination value whose success response the controlling selector has
processed) is written by `handleSuccess` on the controlling side only — when the answered transaction was a
USE-CANDIDATE check carrying a value that is not superseded — and cleared by `resetSelector` (effective Start, Restart,
lost role conflict: excluded here by the hypotheses). -/
theorem step_answered (a : Agent) (e : Ev) (hst : a.started = true) (hk : keeps e = true)
    (hc : a.controlling = true) (hc' : (step a e).1.controlling = true) :
    (step a e).1.answeredNomination =
      match answerOf a e with
      | some (pd, _) =>
        if pd.useCand then
          match pd.nom with
          | some v => if supersededBy a.answeredNomination v then a.answeredNomination else some v
          | none => a.answeredNomination
        else a.answeredNomination
      | none => a.answeredNomination := by
  rw [step_answered' a e hst hk hc hc']
  cases answerOf a e with
  | none => rfl
  | some x => obtain ⟨pd, i⟩ := x; rfl

end IceProofs.C20S
