import IceProofs.TaskLoopSteps
/-!
# Progress (no deadlock) of the task-loop model when `Run` is never called from inside a task

`CanStep s`: some NON-environment transition is enabled (a statement of taskloop.go can execute, or the
task / callback in progress can return — tasks and callbacks are assumed to terminate).
`progress`: in a state satisfying the invariant in which the loop thread is not blocked in a nested
`Run`, as long as any `Run` or `Close` call is in progress, `CanStep`.  The guards that stand for
"closing a closed channel panics" (`closePriv`, `closeTLD`, `closeDoneCh`) therefore never block.
-/
namespace IceProofs.TaskLoop
open IceModel.TaskLoop
set_option linter.unusedSimpArgs false

def CanStep (s : State) : Prop := ∃ a, a.isEnv = false ∧ (step s a).isSome = true

def subActive (u : Sub) : Bool :=
  match u.pc with
  | .check | .select | .handedOff => true
  | _ => false

def closerActive (c : Closer) : Bool :=
  match c.pc with
  | .idle | .returned => false
  | _ => true

def notNested : LoopPc → Bool
  | .nested _ _ => false
  | _ => true

/-- The loop thread can move whenever it holds a task or has left the `for`, and also from the
`select` once `done` is closed. -/
theorem loop_can_step {s : State} (h : Inv s) (hn : notNested s.loop = true)
    (hl : s.loop ≠ .exited) (hsel : s.loop = .select → s.done = true) : CanStep s := by
  cases hlp : s.loop with
  | select => exact ⟨.loopDone, rfl, by simp [step, hlp, hsel hlp]⟩
  | got i => exact ⟨.start i, rfl, by simp [step, hlp]⟩
  | running i => exact ⟨.finish i, rfl, by simp [step, hlp]⟩
  | nested i k => simp [hlp, notNested] at hn
  | closePriv i =>
    have hi := h.subs i
    rw [hlp] at hi; simp only [view, if_true, SubOK] at hi
    exact ⟨.closePriv i, rfl, by simp [step, hlp, hi.2.2.2.1]⟩
  | leaving => exact ⟨.onClose, rfl, by simp [step, hlp]⟩
  | inOnClose => exact ⟨.onCloseEnd, rfl, by simp [step, hlp]⟩
  | closeTLD =>
    obtain ⟨_, g2, _⟩ := h.glob
    have : s.tld = false := by
      cases ht : s.tld
      · rfl
      · have := g2.mp ht; rw [hlp] at this; cases this
    exact ⟨.closeTLD, rfl, by simp [step, hlp, this]⟩
  | exited => exact absurd hlp hl

/-- A closer inside the `Once` function can always take its next statement. -/
theorem inOnce_can_step {s : State} (h : Inv s) (j : Nat) (hj : inOnce (s.closers j).pc = true) : CanStep s := by
  have hc := h.closers j
  cases hpc : (s.closers j).pc <;> simp [hpc, inOnce] at hj
  · exact ⟨.storeErr j, rfl, by simp [step, hpc]⟩
  · simp only [CloserOK, hpc] at hc
    exact ⟨.closeDoneCh j, rfl, by simp [step, hpc, hc.2.1]⟩
  · cases hp : (s.closers j).hasPre
    · exact ⟨.preStopNil j, rfl, by simp [step, hpc, hp]⟩
    · exact ⟨.preStopRun j, rfl, by simp [step, hpc, hp]⟩
  · exact ⟨.onceExit j, rfl, by simp [step, hpc]⟩

theorem sub_progress {s : State} (h : Inv s) (hn : notNested s.loop = true) (i : Nat)
    (ha : subActive (s.subs i) = true) : CanStep s := by
  have hi := h.subs i
  obtain ⟨g1, g2, _⟩ := h.glob
  cases hpc : (s.subs i).pc <;> simp [subActive, hpc] at ha
  · -- check
    cases hd : s.done
    · exact ⟨.errCheckPass i, rfl, by simp [step, hpc, hd]⟩
    · exact ⟨.errCheckFail i, rfl, by simp [step, hpc, hd]⟩
  · -- select
    cases hd : s.done
    · by_cases hsel : s.loop = .select
      · exact ⟨.handoff i, rfl, by simp [step, hpc, hsel]⟩
      · apply loop_can_step h hn
        · intro he; have := g1 (by rw [he]; rfl); rw [hd] at this; cases this
        · intro e; exact absurd e hsel
    · exact ⟨.selDone i, rfl, by simp [step, hpc, hd]⟩
  · -- handedOff
    cases hpd : (s.subs i).privDone
    · -- the loop still holds the task
      have hv : view s.loop i ≠ .other := by
        intro hv; rw [hv] at hi; simp [SubOK, hpc, hpd] at hi
      apply loop_can_step h hn
      · intro he; rw [he] at hv; simp [view] at hv
      · intro he; rw [he] at hv; simp [view] at hv
    · exact ⟨.wake i, rfl, by simp [step, hpc, hpd]⟩

theorem closer_progress {s : State} (h : Inv s) (hn : notNested s.loop = true) (j : Nat)
    (ha : closerActive (s.closers j) = true) : CanStep s := by
  have hc := h.closers j
  obtain ⟨g1, g2, _, _, g4, _⟩ := h.glob
  cases hpc : (s.closers j).pc <;> simp [closerActive, hpc] at ha
  · -- atOnce
    cases ho : s.once with
    | fresh => exact ⟨.onceWin j, rfl, by simp [step, hpc, ho]⟩
    | finished => exact ⟨.onceSkip j, rfl, by simp [step, hpc, ho]⟩
    | running j' => rw [ho] at g4; exact inOnce_can_step h j' g4
  · exact inOnce_can_step h j (by simp [hpc, inOnce])
  · exact inOnce_can_step h j (by simp [hpc, inOnce])
  · exact inOnce_can_step h j (by simp [hpc, inOnce])
  · exact inOnce_can_step h j (by simp [hpc, inOnce])
  · -- waitTLD
    simp only [CloserOK, hpc] at hc
    rw [hc] at g4
    cases ht : s.tld
    · apply loop_can_step h hn
      · intro he; have := g2.mpr he; rw [ht] at this; cases this
      · intro _; exact g4
    · exact ⟨.waitTLD j, rfl, by simp [step, hpc, ht]⟩

/-- No deadlock: while any call is in progress and the loop thread is not blocked in a nested `Run`,
some statement of the code can execute. -/
theorem progress {s : State} (h : Inv s) (hn : notNested s.loop = true)
    (hact : (∃ i, subActive (s.subs i) = true) ∨ (∃ j, closerActive (s.closers j) = true)) : CanStep s := by
  rcases hact with ⟨i, hi⟩ | ⟨j, hj⟩
  · exact sub_progress h hn i hi
  · exact closer_progress h hn j hj

/-- Only `callNested` can put the loop thread into a nested `Run`. -/
theorem notNested_step {s s' : State} (a : Action) (hs : step s a = some s')
    (ha : noReentry [a] = true) (hn : notNested s.loop = true) : notNested s'.loop = true := by
  have hres : ∀ k, notNested (resume s.loop k) = true := by
    intro k; rcases resume_cases s.loop k with e | ⟨i, _, e2⟩
    · rw [e]; exact hn
    · rw [e2]; rfl
  cases a <;> simp only [step] at hs <;> (try split at hs) <;> cases hs <;>
    simp_all [notNested, retSub, setCloserPc, noReentry]

theorem notNested_run {s s' : State} (as : List Action) (hs : run s as = some s')
    (ha : noReentry as = true) (hn : notNested s.loop = true) : notNested s'.loop = true := by
  induction as generalizing s with
  | nil => simp [run] at hs; subst hs; exact hn
  | cons a as ih =>
    simp only [run] at hs
    split at hs
    · rename_i s1 h1
      have ha1 : noReentry [a] = true := by cases a <;> simp_all [noReentry]
      have ha2 : noReentry as = true := by cases a <;> simp_all [noReentry]
      exact ih hs ha2 (notNested_step a h1 ha1 hn)
    · cases hs

end IceProofs.TaskLoop
