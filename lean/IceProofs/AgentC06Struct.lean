import IceProofs.AgentC06Inv
/-!
# C06 — `StructOK` under the list operations of candidate arrival and supersession (pure list reasoning)
-/
namespace IceProofs.AgentC06
open IceModel.AgentCore

theorem uid_inj {l : List Cand} (h : (l.map (·.uid)).Nodup) {x y : Cand} (hx : x ∈ l) (hy : y ∈ l)
    (e : x.uid = y.uid) : x = y := by
  induction l with
  | nil => cases hx
  | cons a l ih =>
    simp only [List.map_cons, List.nodup_cons, List.mem_map, not_exists, not_and] at h
    rcases List.mem_cons.1 hx with hx1 | hx1 <;> rcases List.mem_cons.1 hy with hy1 | hy1
    · rw [hx1, hy1]
    · rw [hx1] at e; exact absurd e.symm (h.1 y hy1)
    · rw [hy1] at e; exact absurd e (h.1 x hx1)
    · exact ih h.2 hx1 hy1

/-- key of a pair after supersession of the remote uids `S` by `cu` -/
def rk (S : List Nat) (cu : Nat) (k : Key) : Key := if S.contains k.2.2 then (k.1, k.2.1, cu) else k

def recache (S : List Nat) (cu : Nat) (x : Nat × Nat × Nat) : Nat × Nat × Nat :=
  if S.contains x.2.2 then (x.1, x.2.1, cu) else x

@[simp] theorem rk_fst (S cu) (k : Key) : (rk S cu k).1 = k.1 := by unfold rk; split <;> rfl
@[simp] theorem rk_snd_fst (S cu) (k : Key) : (rk S cu k).2.1 = k.2.1 := by unfold rk; split <;> rfl

/-- a new local candidate -/
theorem StructOK.addLocal {ks lc rc ca nu np bl} (h : StructOK ks lc rc ca nu np bl false) (c0 : Cand)
    (hu : c0.uid = nu) (hne : ∀ x ∈ lc, x.equal c0 = false) :
    StructOK ks (lc ++ [c0]) rc ca (nu + 1) np bl false := by
  have hnd : (((lc ++ rc) ++ [c0]).map (·.uid)).Nodup := by
    rw [List.map_append, List.nodup_append]
    refine ⟨h.uidsNodup, by simp, ?_⟩
    intro x hx y hy
    obtain ⟨z, hz, rfl⟩ := List.mem_map.1 hx
    have := h.uidsLt z hz
    simp at hy; omega
  refine { h with uidsNodup := ?_, uidsLt := ?_, ends := ?_, closedEmpty := by simp, locNE := ?_, cachesOk := ?_ }
  · -- a permutation of the above; do it by hand
    rw [List.map_append, List.nodup_append] at hnd
    obtain ⟨h1, _, h3⟩ := hnd
    rw [List.map_append, List.nodup_append] at h1
    obtain ⟨hl, hr, hlr⟩ := h1
    rw [List.map_append, List.nodup_append]
    refine ⟨?_, hr, ?_⟩
    · rw [List.map_append, List.nodup_append]
      refine ⟨hl, by simp, ?_⟩
      intro x hx y hy
      exact h3 x (by rw [List.map_append]; exact List.mem_append_left _ hx) y hy
    · intro x hx y hy
      rw [List.map_append] at hx
      rcases List.mem_append.1 hx with hx | hx
      · exact hlr x hx y hy
      · intro e
        exact h3 y (by rw [List.map_append]; exact List.mem_append_right _ hy) x hx e.symm
  · intro c hc
    have : c ∈ lc ++ rc ∨ c = c0 := by
      simp only [List.mem_append, List.mem_singleton] at hc ⊢
      rcases hc with (hc | hc) | hc
      · exact Or.inl (Or.inl hc)
      · exact Or.inr hc
      · exact Or.inl (Or.inr hc)
    rcases this with hc | hc
    · have := h.uidsLt c hc; omega
    · subst hc; omega
  · intro hc k hk
    obtain ⟨l, hl, r, hr, h1⟩ := h.ends hc k hk
    exact ⟨l, List.mem_append_left _ hl, r, hr, h1⟩
  · rw [List.pairwise_append]
    exact ⟨h.locNE, List.pairwise_singleton _ _, fun x hx y hy => by simp at hy; subst hy; exact hne x hx⟩
  · intro x hx
    obtain ⟨⟨l, hl, h1⟩, h2⟩ := h.cachesOk x hx
    exact ⟨⟨l, List.mem_append_left _ hl, h1⟩, h2⟩

/-- a new remote candidate `c0` superseding the remote candidates with uids `S` -/
theorem StructOK.supersede {ks lc rc ca nu np bl} (h : StructOK ks lc rc ca nu np bl false) (c0 : Cand)
    (S : List Nat) (hu : c0.uid = nu)
    (hS : ∀ s ∈ S, ∃ e ∈ rc, e.uid = s ∧ e.net = c0.net)
    (hne : ∀ x ∈ rc, x.equal c0 = false)
    (hb : bl.contains (ipOf c0.addr) = false) :
    StructOK (ks.map (rk S nu)) lc ((rc ++ [c0]).filter (fun e => !S.contains e.uid))
      (ca.map (recache S nu)) (nu + 1) np bl false := by
  have hnS : S.contains nu = false := by
    cases hc : S.contains nu with
    | false => rfl
    | true =>
      obtain ⟨e, he, heu, _⟩ := hS nu (List.contains_iff_mem.1 hc)
      have := h.uidsLt e (List.mem_append_right _ he)
      omega
  have hc0 : c0 ∈ (rc ++ [c0]).filter (fun e => !S.contains e.uid) := by
    rw [List.mem_filter]
    exact ⟨List.mem_append_right _ (by simp), by rw [hu, hnS]; rfl⟩
  have hkeep : ∀ r ∈ rc, S.contains r.uid = false → r ∈ (rc ++ [c0]).filter (fun e => !S.contains e.uid) := by
    intro r hr hs
    rw [List.mem_filter]
    exact ⟨List.mem_append_left _ hr, by rw [hs]; rfl⟩
  have hrcNodup : (rc.map (·.uid)).Nodup := by
    have := h.uidsNodup
    rw [List.map_append, List.nodup_append] at this
    exact this.2.1
  have hnd : (((lc ++ rc) ++ [c0]).map (·.uid)).Nodup := by
    rw [List.map_append, List.nodup_append]
    refine ⟨h.uidsNodup, by simp, ?_⟩
    intro x hx y hy
    obtain ⟨z, hz, rfl⟩ := List.mem_map.1 hx
    have := h.uidsLt z hz
    simp at hy; omega
  have hsub : (lc ++ (rc ++ [c0]).filter (fun e => !S.contains e.uid)).Sublist ((lc ++ rc) ++ [c0]) := by
    rw [List.append_assoc]
    exact List.Sublist.append_left List.filter_sublist lc
  refine
    { idsNodup := ?_, idsLe := ?_, uidsNodup := ?_, uidsLt := ?_, ends := ?_, closedEmpty := by simp,
      remNE := ?_, locNE := h.locNE, notBlocked := ?_, cachesOk := ?_ }
  · rw [List.map_map]
    have : ((fun (x : Key) => x.1) ∘ rk S nu) = fun x => x.1 := by funext k; simp
    rw [this]; exact h.idsNodup
  · intro k' hk'
    obtain ⟨k, hk, rfl⟩ := List.mem_map.1 hk'
    simpa using h.idsLe k hk
  · exact List.Nodup.sublist (List.Sublist.map _ hsub) hnd
  · intro c hc
    have hc' := hsub.subset hc
    rcases List.mem_append.1 hc' with hc' | hc'
    · have := h.uidsLt c hc'; omega
    · simp at hc'; subst hc'; omega
  · intro _ k' hk'
    obtain ⟨k, hk, rfl⟩ := List.mem_map.1 hk'
    obtain ⟨l, hl, r, hr, h1, h2, h3⟩ := h.ends rfl k hk
    unfold rk
    split
    · rename_i hc
      obtain ⟨e, he, heu, hen⟩ := hS k.2.2 (List.contains_iff_mem.1 hc)
      have : r = e := uid_inj hrcNodup hr he (h2.trans heu.symm)
      subst this
      exact ⟨l, hl, c0, hc0, h1, hu, h3.trans hen⟩
    · rename_i hc
      have hc' : S.contains r.uid = false := by
        rw [h2]; cases hh : S.contains k.2.2 with
        | false => rfl
        | true => exact absurd hh hc
      exact ⟨l, hl, r, hkeep r hr hc', h1, h2, h3⟩
  · refine List.Pairwise.sublist List.filter_sublist ?_
    rw [List.pairwise_append]
    exact ⟨h.remNE, List.pairwise_singleton _ _, fun x hx y hy => by simp at hy; subst hy; exact hne x hx⟩
  · intro r hr
    have := (List.mem_filter.1 hr).1
    rcases List.mem_append.1 this with hr' | hr'
    · exact h.notBlocked r hr'
    · simp at hr'; subst hr'; exact hb
  · intro x' hx'
    obtain ⟨x, hx, rfl⟩ := List.mem_map.1 hx'
    obtain ⟨⟨l, hl, h1⟩, ⟨r, hr, h2⟩⟩ := h.cachesOk x hx
    unfold recache
    split
    · exact ⟨⟨l, hl, h1⟩, ⟨c0, hc0, hu⟩⟩
    · rename_i hc
      have hc' : S.contains r.uid = false := by
        rw [h2]; cases hh : S.contains x.2.2 with
        | false => rfl
        | true => exact absurd hh hc
      exact ⟨⟨l, hl, h1⟩, ⟨r, hkeep r hr hc', h2⟩⟩

end IceProofs.AgentC06
