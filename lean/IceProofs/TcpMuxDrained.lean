import IceProofs.TcpMuxGhostStep
/-!
# At quiescence an idle reader has read everything its client pushed
-/
namespace IceProofs.TcpMux
open IceModel.TcpMux

def DrainedL (l : List Tcp) : Prop := ∀ (k : Nat) (t : Tcp), l[k]? = some t → t.reader = .idle → t.inbox = []
def DrainedExceptL (l : List Tcp) (k : Nat) : Prop :=
  ∀ (j : Nat) (t : Tcp), j ≠ k → l[j]? = some t → t.reader = .idle → t.inbox = []
def Drained (s : State) : Prop := DrainedL s.tcps

theorem drained_pointwise (l l' : List Tcp) (g : Nat → Tcp → Tcp)
    (h : ∀ j, l'[j]? = (l[j]?).map (g j))
    (hg : ∀ (j : Nat) (t : Tcp), l[j]? = some t → (g j t).reader = .none ∨ ((g j t).reader = t.reader ∧ (g j t).inbox = t.inbox))
    (hd : DrainedL l) : DrainedL l' := by
  intro k t' ht' hr
  rw [h k] at ht'
  cases ht : l[k]? with
  | none => simp [ht] at ht'
  | some t =>
    simp only [ht, Option.map_some, Option.some.injEq] at ht'
    subst ht'
    rcases hg k t ht with e | ⟨e1, e2⟩
    · rw [e] at hr; cases hr
    · rw [e2]; rw [e1] at hr; exact hd k t ht hr

theorem drainedExcept_modify (l : List Tcp) (k : Nat) (f : Tcp → Tcp) (hd : DrainedL l) :
    DrainedExceptL (l.modify k f) k := by
  intro j t hj ht hr
  rw [getElem?_modify_ne _ _ _ _ hj] at ht
  exact hd j t ht hr

theorem closePc1_drained (s : State) (p : Nat) (hd : Drained s) : Drained (closePc1 s p) := by
  cases hp : s.pcs[p]? with
  | none => rw [closePc1_noop s p (by simp [hp])]; exact hd
  | some pc =>
    cases hc : pc.closed with
    | true => rw [closePc1_noop s p (by intro pc' h'; rw [hp] at h'; cases h'; exact hc)]; exact hd
    | false =>
      rw [closePc1_eq s p pc hp hc]
      apply drained_pointwise s.tcps _ (closeEffect pc) (fun j => List.getElem?_mapIdx) _ hd
      intro j t _
      unfold closeEffect
      split
      · exact Or.inl rfl
      · split
        · exact Or.inl rfl
        · exact Or.inr ⟨rfl, rfl⟩

theorem closePc_drained (s : State) (p : Nat) (hd : Drained s) : Drained (closePc s p) :=
  closePc1_drained s p hd

theorem closePcsWhere_drained (sel : PConn → Bool) (s : State) (hd : Drained s) : Drained (closePcsWhere sel s) := by
  unfold closePcsWhere
  apply foldl_inv Drained _ _ _ hd
  intro b a hb
  split
  · split
    · exact closePc_drained _ _ hb
    · exact hb
  · exact hb

theorem runReader_drained (s : State) (k : Nat) (hi : Inv s) (hd : DrainedExceptL s.tcps k) :
    Drained (runReader s k) := by
  have noop : (∀ t, s.tcps[k]? = some t → t.reader ≠ .idle) → Drained s := by
    intro h j t ht hr
    by_cases hjk : j = k
    · subst hjk; exact absurd hr (h t ht)
    · exact hd j t hjk ht hr
  unfold runReader
  cases ht : s.tcps[k]? with
  | none => exact noop (by simp [ht])
  | some t =>
    simp only
    have hrk := hi.reader k t ht
    have hpk := hi.phase k t ht
    cases hrd : t.reader with
    | none =>
      split
      · rename_i h1 h2; cases h2
      · exact noop (by intro t' h'; rw [ht] at h'; cases h'; simp [hrd])
    | blocked a b =>
      split
      · rename_i h1 h2; cases h2
      · exact noop (by intro t' h'; rw [ht] at h'; cases h'; simp [hrd])
    | idle =>
      simp only [ReaderOk, hrd] at hrk
      obtain ⟨p, hph⟩ := hrk
      simp only [PhaseOk, hph] at hpk
      obtain ⟨_, pc, hp, _, _⟩ := hpk
      simp only [hph, hp]
      generalize hdr : drain s.cfg.cap k p t.peer t.inbox pc = d
      have dsp : DrainSpec k p t.peer t.inbox pc d := hdr ▸ drain_spec ..
      intro j tj htj hr
      simp only at htj
      by_cases hjk : j = k
      · subst hjk
        rw [getElem?_modify_eq, ht] at htj
        simp only [Option.map_some, Option.some.injEq] at htj
        subst htj
        exact dsp.idle hr
      · rw [getElem?_modify_ne _ _ _ _ hjk] at htj
        exact hd j tj hjk htj hr

theorem ensurePc_drained (s : State) (key : Key) (hd : Drained s) : Drained (ensurePc s key).1 := by
  unfold Drained; rw [ensurePc_tcps]; exact hd

theorem addConn_drained (s : State) (p k : Nat) (t : Tcp) (f : Frame) (hi : Inv s) (hd : Drained s)
    (ht : s.tcps[k]? = some t) (d : Nat) (hph : t.phase = .pending d) : Drained (addConn s p k t f) := by
  unfold addConn
  split
  · exact hd
  · rename_i pc hp
    split
    · apply drained_pointwise s.tcps _ (fun j t => if k = j then _ else t) (fun j => getElem?_modify_map ..) _ hd
      intro j tj _
      by_cases e : k = j
      · rw [if_pos e]; exact Or.inl rfl
      · rw [if_neg e]; exact Or.inr ⟨rfl, rfl⟩
    · rename_i hcond
      simp only [Bool.or_eq_true, not_or, Bool.not_eq_true, Option.isSome_eq_false_iff, Option.isNone_iff_eq_none] at hcond
      dsimp only
      apply runReader_drained
      · exact register_inv s hi k p t pc ht d hph hp hcond.1 hcond.2 _ ⟨rfl, rfl, rfl, rfl⟩
      · exact drainedExcept_modify _ _ _ hd

theorem readPc_drained (s : State) (p : Nat) (hi : Inv s) (hd : Drained s) : Drained (readPc s p).1 := by
  unfold readPc
  split
  · exact hd
  · rename_i pc hp
    split
    · rename_i pkt q hq
      have hi1 : Inv (setPc s p (fun pc => { pc with recvQ := q, readLog := pc.readLog ++ [pkt] })) :=
        setPc_irrel_inv s p _ (fun pc => ⟨rfl, rfl, rfl, rfl, Or.inl rfl⟩) hi
      dsimp only
      split
      · exact hd
      · rename_i k bq hbq
        split
        · rename_i bp fin hb
          obtain ⟨t, ht, hrd⟩ := blockedOf_some hb
          have hp1 : (setPc s p (fun pc => { pc with recvQ := q, readLog := pc.readLog ++ [pkt] })).pcs[p]? =
              some { pc with recvQ := q, readLog := pc.readLog ++ [pkt] } := by
            simp only [setPc]; rw [getElem?_modify_eq, hp]; rfl
          apply runReader_drained
          · exact unblock_inv _ hi1 k p t _ bq bp fin ht hrd hp1 hbq _ ⟨rfl, rfl, rfl, rfl, rfl⟩
          · exact drainedExcept_modify _ _ _ hd
        · exact hd
    · split
      · rename_i k bq hbq
        split
        · rename_i bp fin hb
          obtain ⟨t, ht, hrd⟩ := blockedOf_some hb
          dsimp only
          apply runReader_drained
          · exact unblock_inv s hi k p t pc bq bp fin ht hrd hp hbq _ ⟨rfl, rfl, rfl, rfl, rfl⟩
          · exact drainedExcept_modify _ _ _ hd
        · exact hd
      · split <;> exact hd

theorem step_drained (s : State) (op : Op) (hi : Inv s) (hd : Drained s) : Drained (step s op).1 := by
  have same : ∀ (k : Nat) (f : Tcp → Tcp), (∀ t, (f t).reader = .none ∨ ((f t).reader = t.reader ∧ (f t).inbox = t.inbox)) →
      Drained (setTcp s k f) := by
    intro k f hf
    apply drained_pointwise s.tcps _ (fun j t => if k = j then f t else t) (fun j => getElem?_modify_map ..) _ hd
    intro j tj _
    by_cases e : k = j
    · rw [if_pos e]; exact hf tj
    · rw [if_neg e]; exact Or.inr ⟨rfl, rfl⟩
  cases op with
  | accept peer lip =>
    simp only [step]
    split <;>
    · intro j t ht hr
      simp only at ht
      rw [List.getElem?_append] at ht
      split at ht
      · exact hd j t ht hr
      · cases hjl : j - s.tcps.length with
        | zero => rw [hjl] at ht; simp at ht; subst ht; cases hr
        | succ n => rw [hjl] at ht; simp at ht
  | frame k f =>
    simp only [step]
    split
    · exact hd
    · rename_i t ht
      split
      · exact hd
      · split
        · exact hd
        · rename_i d hph
          split
          · unfold attach
            dsimp only
            apply addConn_drained _ _ _ _ _ (ensurePc_inv s _ hi) (ensurePc_drained s _ hd) _ d hph
            rw [ensurePc_tcps]; exact ht
          · exact same k _ (fun t => Or.inl rfl)
        · apply runReader_drained
          · exact setTcp_irrel_inv s k _ (fun t => ⟨rfl, rfl, rfl, rfl⟩) hi
          · exact drainedExcept_modify _ _ _ hd
  | partialFrame k =>
    simp only [step]
    split
    · exact hd
    · split
      · exact hd
      · exact same k _ (fun t => Or.inr ⟨rfl, rfl⟩)
  | clientClose k reset =>
    simp only [step]
    split
    · exact hd
    · split
      · exact hd
      · split
        · exact same k _ (fun t => Or.inr ⟨rfl, rfl⟩)
        · exact same k _ (fun t => Or.inl rfl)
        · apply runReader_drained
          · exact setTcp_irrel_inv s k _ (fun t => ⟨rfl, rfl, rfl, rfl⟩) hi
          · exact drainedExcept_modify _ _ _ hd
  | advance dt =>
    simp only [step]
    have h1 := closePcsWhere_drained (fun pc => aliveExpired (s.now + dt) pc) s hd
    apply drained_pointwise _ _ (fun _ t => expireTcp (s.now + dt) t) (fun j => List.getElem?_map) _ h1
    intro j t _
    unfold expireTcp
    split
    · split
      · exact Or.inl rfl
      · exact Or.inr ⟨rfl, rfl⟩
    · exact Or.inr ⟨rfl, rfl⟩
  | getConn key =>
    simp only [step]
    split
    · exact hd
    · split <;> exact hd
  | removeByUfrag u =>
    simp only [step]
    exact closePcsWhere_drained _ s hd
  | closeHandle h =>
    simp only [step]
    split
    · exact hd
    · split
      · exact hd
      · split
        · exact hd
        · split
          · exact closePc_drained _ _ hd
          · exact hd
  | closePacketConn h =>
    simp only [step]
    split
    · exact hd
    · exact closePc_drained _ _ hd
  | write h dst pid len =>
    simp only [step]
    split
    · exact hd
    · split
      · exact hd
      · split
        · exact hd
        · split
          · exact hd
          · exact same _ _ (fun t => Or.inr ⟨rfl, rfl⟩)
  | read h =>
    simp only [step]
    split
    · exact hd
    · split
      · exact hd
      · exact readPc_drained s _ hi hd
  | closeMux =>
    simp only [step]
    split
    · exact hd
    · exact closePcsWhere_drained (fun _ => true) s hd

theorem reachable_drained (cfg : Config) (ops : List Op) : Drained (run (init cfg) ops) := by
  have : ∀ (s : State), Inv s → Drained s → Drained (run s ops) := by
    induction ops with
    | nil => intro s _ hd; exact hd
    | cons op ops ih => intro s hi hd; exact ih _ (step_inv s op hi) (step_drained s op hi hd)
  exact this _ (inv_init cfg) (by intro k t h; simp [init] at h)

end IceProofs.TcpMux
