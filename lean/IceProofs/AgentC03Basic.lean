import IceModel.AgentCore
import IceProofs.Basic
/-!
# C03 — basic definitions and the preservation toolkit

`Inv3` (the invariant), `PLe` (what may happen to one pair: ghost flags and validity only grow),
`Rel` / `Quiet` (what a helper may do to the agent), and the lemmas about the primitive updates
(`modPair`, `addPair`, `wipe`, `setConnState`, `select`) everything else is composed from.
-/
namespace IceProofs.C03
open IceModel.AgentCore

/-! ## Definitions -/

/-- Ghost flags, validity and the two nomination marks of a pair only grow. -/
structure PLe (p p' : Pair) : Prop where
  gReq : p.gReq = true → p'.gReq = true
  gNomReq : p.gNomReq = true → p'.gNomReq = true
  gResp : p.gResp = true → p'.gResp = true
  gRespUC : p.gRespUC = true → p'.gRespUC = true
  succ : p.state = .succeeded → p'.state = .succeeded

theorem PLe.refl (p : Pair) : PLe p p := ⟨id, id, id, id, id⟩
theorem PLe.trans {p q r : Pair} (h1 : PLe p q) (h2 : PLe q r) : PLe p r :=
  ⟨fun h => h2.gReq (h1.gReq h), fun h => h2.gNomReq (h1.gNomReq h), fun h => h2.gResp (h1.gResp h),
   fun h => h2.gRespUC (h1.gRespUC h), fun h => h2.succ (h1.succ h)⟩

/-- the fields `pairPrio` reads from the pair -/
def PrioF (p q : Pair) : Prop :=
  q.l = p.l ∧ q.r = p.r ∧ q.prioOverride = p.prioOverride ∧ q.controlling = p.controlling

theorem pairPrio_congr (a : Agent) {p q : Pair} (h : PrioF p q) : a.pairPrio q = a.pairPrio p := by
  obtain ⟨h1, h2, h3, h4⟩ := h
  simp only [Agent.pairPrio, h1, h2, h3, h4]

/-- Per-pair part of the invariant. `lite` is the agent's configuration. -/
structure PairOK (lite : Bool) (p : Pair) : Prop where
  /-- a valid pair has an authenticated, transaction-matched success response (full agent), or — lite
  agent only — was made valid by an authenticated nomination -/
  valid : p.state = .succeeded → p.gResp = true ∨ (lite = true ∧ p.gNomReq = true)
  deferred : p.nomOnSuccess = true → p.gNomReq = true
  respUC : p.gRespUC = true → p.gResp = true

/-- What holds of the selected pair. -/
structure SelPair (p : Pair) : Prop where
  succ : p.state = .succeeded
  nominated : p.nominated = true
  nom : p.gRespUC = true ∨ p.gNomReq = true

/-- pair ids are unique and below the id counter -/
structure IdsOK (a : Agent) : Prop where
  le : ∀ p ∈ a.checklist, p.id ≤ a.nextPairID
  uniq : a.checklist.Pairwise (fun p q => p.id ≠ q.id)

/-- The invariant of C03. -/
structure Inv3 (a : Agent) : Prop where
  ids : IdsOK a
  pairs : ∀ p ∈ a.checklist, PairOK a.cfg.lite p
  sel : ∀ id, a.selected = some id → ∃ p ∈ a.checklist, p.id = id ∧ SelPair p

/-- What a helper may do to the agent: configuration fixed, id counter grows, every pair with an OLD id
in the new checklist stems from the pair of that id in the old one (`PLe`), and — when `wp` — has the
same `pairPrio`. (A wipe satisfies this vacuously; pairs added later have fresh ids.) -/
structure Rel (wp : Prop) (a a' : Agent) : Prop where
  cfg : a'.cfg = a.cfg
  npid : a.nextPairID ≤ a'.nextPairID
  old : ∀ p' ∈ a'.checklist, p'.id ≤ a.nextPairID →
    ∃ p ∈ a.checklist, p.id = p'.id ∧ PLe p p' ∧ (wp → a'.pairPrio p' = a.pairPrio p)

/-- every pair id listed in `a` is still listed in `a'` -/
def Fwd (a a' : Agent) : Prop := ∀ p ∈ a.checklist, ∃ p' ∈ a'.checklist, p'.id = p.id

theorem Fwd.refl (a : Agent) : Fwd a a := fun p hp => ⟨p, hp, rfl⟩
theorem Fwd.trans {a b c : Agent} (h1 : Fwd a b) (h2 : Fwd b c) : Fwd a c := fun p hp =>
  let ⟨p', hp', e'⟩ := h1 p hp
  let ⟨p'', hp'', e''⟩ := h2 p' hp'
  ⟨p'', hp'', e''.trans e'⟩
theorem Fwd.of_eq {a a' : Agent} (h : a'.checklist = a.checklist) : Fwd a a' := fun p hp => ⟨p, h ▸ hp, rfl⟩

/-- `Rel` + the selection is untouched and no pair is dropped (`ex`), or that / the selection is cleared
(`¬ex`: a wipe by connection state Failed, or Restart). -/
structure Quiet (wp ex : Prop) (a a' : Agent) : Prop extends Rel wp a a' where
  sel : (a'.selected = a.selected ∧ Fwd a a') ∨ (¬ex ∧ a'.selected = none)

/-- preservation statement used for every helper -/
def Pres (wp ex : Prop) (a a' : Agent) : Prop := Inv3 a → Inv3 a' ∧ Quiet wp ex a a'

/-! ## Relations: reflexivity, transitivity, weakening -/

theorem Rel.refl (wp : Prop) (a : Agent) : Rel wp a a :=
  ⟨rfl, Nat.le_refl _, fun p' hp' _ => ⟨p', hp', rfl, PLe.refl _, fun _ => rfl⟩⟩

theorem Rel.trans {wp : Prop} {a b c : Agent} (h1 : Rel wp a b) (h2 : Rel wp b c) : Rel wp a c := by
  refine ⟨h2.cfg.trans h1.cfg, Nat.le_trans h1.npid h2.npid, ?_⟩
  intro p'' hp'' hle
  obtain ⟨p', hp', hid', hle', hpr'⟩ := h2.old p'' hp'' (Nat.le_trans hle h1.npid)
  obtain ⟨p, hp, hid, hle0, hpr⟩ := h1.old p' hp' (by omega)
  exact ⟨p, hp, hid.trans hid', hle0.trans hle', fun w => (hpr' w).trans (hpr w)⟩

theorem Rel.weaken {wp wp' : Prop} {a b : Agent} (h : Rel wp a b) (hw : wp' → wp) : Rel wp' a b :=
  ⟨h.cfg, h.npid, fun p' hp' hle => by
    obtain ⟨p, hp, hid, hle', hpr⟩ := h.old p' hp' hle
    exact ⟨p, hp, hid, hle', fun w => hpr (hw w)⟩⟩

theorem Quiet.refl (wp ex : Prop) (a : Agent) : Quiet wp ex a a := ⟨Rel.refl wp a, Or.inl ⟨rfl, Fwd.refl a⟩⟩

theorem Quiet.trans {wp ex : Prop} {a b c : Agent} (h1 : Quiet wp ex a b) (h2 : Quiet wp ex b c) :
    Quiet wp ex a c := by
  refine ⟨h1.toRel.trans h2.toRel, ?_⟩
  rcases h2.sel with h | h
  · rcases h1.sel with h' | h'
    · exact Or.inl ⟨h.1.trans h'.1, h'.2.trans h.2⟩
    · exact Or.inr ⟨h'.1, h.1.trans h'.2⟩
  · exact Or.inr h

theorem Quiet.weaken {wp ex wp' ex' : Prop} {a b : Agent} (h : Quiet wp ex a b) (hw : wp' → wp)
    (he : ex' → ex) : Quiet wp' ex' a b :=
  ⟨h.toRel.weaken hw, h.sel.imp id fun ⟨h1, h2⟩ => ⟨fun e => h1 (he e), h2⟩⟩

theorem Pres.refl (wp ex : Prop) (a : Agent) : Pres wp ex a a := fun h => ⟨h, Quiet.refl _ _ _⟩

theorem Pres.trans {wp ex : Prop} {a b c : Agent} (h1 : Pres wp ex a b) (h2 : Pres wp ex b c) :
    Pres wp ex a c := fun h =>
  let ⟨hb, q1⟩ := h1 h
  let ⟨hc, q2⟩ := h2 hb
  ⟨hc, q1.trans q2⟩

theorem Pres.weaken {wp ex wp' ex' : Prop} {a b : Agent} (h : Pres wp ex a b) (hw : wp' → wp)
    (he : ex' → ex) : Pres wp' ex' a b := fun hi => ⟨(h hi).1, (h hi).2.weaken hw he⟩

/-! ## Lookups -/

theorem pairById_mem {a : Agent} {id : Nat} {p : Pair} (h : a.pairById id = some p) :
    p ∈ a.checklist ∧ p.id = id := by
  unfold Agent.pairById at h
  exact ⟨List.mem_of_find?_eq_some h, by simpa using List.find?_some h⟩

theorem find_id_of_pairwise {l : List Pair} (hu : l.Pairwise (fun p q => p.id ≠ q.id)) {p : Pair}
    (hp : p ∈ l) : l.find? (·.id == p.id) = some p := by
  induction l with
  | nil => cases hp
  | cons x xs ih =>
    rw [List.pairwise_cons] at hu
    rcases List.mem_cons.mp hp with rfl | hm
    · simp
    · have : x.id ≠ p.id := hu.1 p hm
      simp [this, ih hu.2 hm]

theorem pairById_of_mem {a : Agent} (hi : IdsOK a) {p : Pair} (hp : p ∈ a.checklist) :
    a.pairById p.id = some p := find_id_of_pairwise hi.uniq hp

/-- two listed pairs with the same id are the same pair -/
theorem mem_unique {a : Agent} (hi : IdsOK a) {p q : Pair} (hp : p ∈ a.checklist) (hq : q ∈ a.checklist)
    (h : p.id = q.id) : p = q := by
  have h1 := pairById_of_mem hi hp
  have h2 := pairById_of_mem hi hq
  rw [h] at h1
  exact Option.some.inj (h1.symm.trans h2)

theorem findPair_mem {a : Agent} {l r : Cand} {p : Pair} (h : a.findPair l r = some p) :
    p ∈ a.checklist := by
  unfold Agent.findPair at h
  exact List.mem_of_find?_eq_some h

/-! ## `updPair` / `modPair` -/

theorem mem_updPair {l : List Pair} {id : Nat} {f : Pair → Pair} {q : Pair} (h : q ∈ updPair l id f) :
    ∃ p ∈ l, (p.id = id ∧ q = f p) ∨ (p.id ≠ id ∧ q = p) := by
  unfold updPair at h
  obtain ⟨p, hp, rfl⟩ := List.mem_map.mp h
  refine ⟨p, hp, ?_⟩
  by_cases e : p.id = id
  · left; simp [e]
  · right; simp [e]

theorem mem_updPair_of_mem {l : List Pair} {id : Nat} {f : Pair → Pair} {p : Pair} (h : p ∈ l) :
    (if p.id == id then f p else p) ∈ updPair l id f := by
  unfold updPair
  exact List.mem_map.mpr ⟨p, h, rfl⟩

theorem updPair_ids {l : List Pair} {id : Nat} {f : Pair → Pair} (hid : ∀ p, (f p).id = p.id) :
    (updPair l id f).map (·.id) = l.map (·.id) := by
  unfold updPair
  rw [List.map_map]
  apply List.map_congr_left
  intro p _
  simp only [Function.comp]
  split <;> simp [hid]

theorem pairwise_ids_iff (l : List Pair) :
    l.Pairwise (fun p q => p.id ≠ q.id) ↔ (l.map (·.id)).Pairwise (· ≠ ·) := by
  rw [List.pairwise_map]

/-- `Inv3` and `Quiet` depend on the agent only through `cfg`, `nextPairID`, `checklist`, `selected` and
the candidates' priorities. -/
theorem Inv3.of_eq {a a' : Agent} (hc : a'.cfg = a.cfg) (hn : a'.nextPairID = a.nextPairID)
    (hl : a'.checklist = a.checklist) (hs : a'.selected = a.selected ∨ a'.selected = none)
    (h : Inv3 a) : Inv3 a' := by
  refine ⟨⟨?_, ?_⟩, ?_, ?_⟩
  · rw [hl, hn]; exact h.ids.le
  · rw [hl]; exact h.ids.uniq
  · rw [hl, hc]; exact h.pairs
  · intro id hid
    rw [hl]
    rcases hs with hs | hs
    · exact h.sel id (hs ▸ hid)
    · rw [hs] at hid; cases hid

theorem Quiet.of_eq {wp ex : Prop} {a a' : Agent} (hc : a'.cfg = a.cfg) (hn : a'.nextPairID = a.nextPairID)
    (hl : a'.checklist = a.checklist) (hs : a'.selected = a.selected)
    (hp : ∀ p, a'.pairPrio p = a.pairPrio p) : Quiet wp ex a a' := by
  refine ⟨⟨hc, by omega, ?_⟩, Or.inl ⟨hs, Fwd.of_eq hl⟩⟩
  intro p' hp' _
  exact ⟨p', hl ▸ hp', rfl, PLe.refl _, fun _ => hp p'⟩

theorem Pres.of_eq {wp ex : Prop} {a a' : Agent} (hc : a'.cfg = a.cfg) (hn : a'.nextPairID = a.nextPairID)
    (hl : a'.checklist = a.checklist) (hs : a'.selected = a.selected)
    (hp : ∀ p, a'.pairPrio p = a.pairPrio p) : Pres wp ex a a' :=
  fun h => ⟨h.of_eq hc hn hl (Or.inl hs), Quiet.of_eq hc hn hl hs hp⟩

/-- `modPair` with a function that keeps ids, lets ghost flags/validity grow and keeps the priority
fields, on the pairs it is applied to. -/
theorem modPair_quiet {wp ex : Prop} (a : Agent) (id : Nat) (f : Pair → Pair)
    (hid : ∀ p, (f p).id = p.id)
    (hle : ∀ p ∈ a.checklist, p.id = id → PLe p (f p))
    (hpr : wp → ∀ p ∈ a.checklist, p.id = id → PrioF p (f p)) :
    Quiet wp ex a (a.modPair id f) := by
  refine ⟨⟨rfl, Nat.le_refl _, ?_⟩, Or.inl ⟨rfl, fun p hp =>
    ⟨_, mem_updPair_of_mem (id := id) (f := f) hp, by split <;> simp [hid]⟩⟩⟩
  intro q hq _
  obtain ⟨p, hp, h | h⟩ := mem_updPair (l := a.checklist) hq
  · obtain ⟨e, rfl⟩ := h
    exact ⟨p, hp, (hid p).symm, hle p hp e, fun w => pairPrio_congr a (hpr w p hp e)⟩
  · obtain ⟨_, rfl⟩ := h
    exact ⟨q, hp, rfl, PLe.refl _, fun _ => rfl⟩

theorem modPair_idsOK (a : Agent) (id : Nat) (f : Pair → Pair) (hid : ∀ p, (f p).id = p.id)
    (h : IdsOK a) : IdsOK (a.modPair id f) := by
  refine ⟨?_, ?_⟩
  · intro q hq
    obtain ⟨p, hp, h' | h'⟩ := mem_updPair (l := a.checklist) hq
    · rw [h'.2, hid]; exact h.le p hp
    · rw [h'.2]; exact h.le p hp
  · show (updPair a.checklist id f).Pairwise _
    rw [pairwise_ids_iff, updPair_ids hid, ← pairwise_ids_iff]
    exact h.uniq

theorem modPair_inv (a : Agent) (id : Nat) (f : Pair → Pair) (hid : ∀ p, (f p).id = p.id)
    (hok : ∀ p ∈ a.checklist, p.id = id → PairOK a.cfg.lite p → PairOK a.cfg.lite (f p))
    (hsel : a.selected = some id → ∀ p ∈ a.checklist, p.id = id → SelPair p → SelPair (f p))
    (h : Inv3 a) : Inv3 (a.modPair id f) := by
  refine ⟨modPair_idsOK a id f hid h.ids, ?_, ?_⟩
  · intro q hq
    obtain ⟨p, hp, h' | h'⟩ := mem_updPair (l := a.checklist) hq
    · rw [h'.2]; exact hok p hp h'.1 (h.pairs p hp)
    · rw [h'.2]; exact h.pairs p hp
  · intro sid hs
    obtain ⟨p, hp, hpid, hsp⟩ := h.sel sid hs
    refine ⟨_, mem_updPair_of_mem (id := id) (f := f) hp, ?_, ?_⟩
    · split <;> simp [hid, hpid]
    · by_cases e : p.id = id
      · simp only [e, beq_self_eq_true, if_true]
        have hs' : a.selected = some sid := hs
        exact hsel (by rw [hs', ← hpid, e]) p hp e hsp
      · simp only [beq_iff_eq, e, if_false]; exact hsp

theorem modPair_pres {wp ex : Prop} (a : Agent) (id : Nat) (f : Pair → Pair)
    (hid : ∀ p, (f p).id = p.id)
    (hle : ∀ p ∈ a.checklist, p.id = id → PLe p (f p))
    (hpr : wp → ∀ p ∈ a.checklist, p.id = id → PrioF p (f p))
    (hok : ∀ p ∈ a.checklist, p.id = id → PairOK a.cfg.lite p → PairOK a.cfg.lite (f p))
    (hsel : a.selected = some id → ∀ p ∈ a.checklist, p.id = id → SelPair p → SelPair (f p)) :
    Pres wp ex a (a.modPair id f) :=
  fun h => ⟨modPair_inv a id f hid hok hsel h, modPair_quiet a id f hid hle hpr⟩

/-- A modification of counters only (everything `PLe`, `PrioF`, `PairOK`, `SelPair` look at is kept). -/
structure CoreSame (p q : Pair) : Prop where
  id : q.id = p.id
  l : q.l = p.l
  r : q.r = p.r
  state : q.state = p.state
  nominated : q.nominated = p.nominated
  nomOnSuccess : q.nomOnSuccess = p.nomOnSuccess
  prioOverride : q.prioOverride = p.prioOverride
  controlling : q.controlling = p.controlling
  gReq : q.gReq = p.gReq
  gNomReq : q.gNomReq = p.gNomReq
  gResp : q.gResp = p.gResp
  gRespUC : q.gRespUC = p.gRespUC

theorem CoreSame.ple {p q : Pair} (h : CoreSame p q) : PLe p q :=
  ⟨by rw [h.gReq]; exact fun x => x, by rw [h.gNomReq]; exact fun x => x, by rw [h.gResp]; exact fun x => x,
   by rw [h.gRespUC]; exact fun x => x, by rw [h.state]; exact fun x => x⟩
theorem CoreSame.prioF {p q : Pair} (h : CoreSame p q) : PrioF p q := ⟨h.l, h.r, h.prioOverride, h.controlling⟩
theorem CoreSame.pairOK {p q : Pair} (h : CoreSame p q) {lite : Bool} (hp : PairOK lite p) : PairOK lite q :=
  ⟨by rw [h.state, h.gResp, h.gNomReq]; exact hp.valid, by rw [h.nomOnSuccess, h.gNomReq]; exact hp.deferred,
   by rw [h.gRespUC, h.gResp]; exact hp.respUC⟩
theorem CoreSame.selPair {p q : Pair} (h : CoreSame p q) (hp : SelPair p) : SelPair q :=
  ⟨by rw [h.state]; exact hp.succ, by rw [h.nominated]; exact hp.nominated,
   by rw [h.gRespUC, h.gNomReq]; exact hp.nom⟩

theorem modPair_core {wp ex : Prop} (a : Agent) (id : Nat) (f : Pair → Pair) (hf : ∀ p, CoreSame p (f p)) :
    Pres wp ex a (a.modPair id f) :=
  modPair_pres a id f (fun p => (hf p).id) (fun p _ _ => (hf p).ple) (fun _ p _ _ => (hf p).prioF)
    (fun p _ _ hp => (hf p).pairOK hp) (fun _ p _ _ hp => (hf p).selPair hp)

/-! ## `addPair`, `wipe`, `setConnState`, `select` -/

theorem addPair_pres {wp ex : Prop} (a : Agent) (l r : Cand) : Pres wp ex a (a.addPair l r).1 := by
  intro h
  have hnew : ∀ q ∈ (a.addPair l r).1.checklist, q ∈ a.checklist ∨
      q = { id := a.nextPairID + 1, l := l.uid, r := r.uid, controlling := a.controlling } := by
    intro q hq
    simp only [Agent.addPair, List.mem_append, List.mem_singleton] at hq
    exact hq
  refine ⟨⟨⟨?_, ?_⟩, ?_, ?_⟩, ⟨⟨rfl, by simp [Agent.addPair], ?_⟩,
    Or.inl ⟨rfl, fun p hp => ⟨p, by simp [Agent.addPair, hp], rfl⟩⟩⟩⟩
  · intro q hq
    rcases hnew q hq with hq | rfl
    · have := h.ids.le q hq; simp only [Agent.addPair]; omega
    · simp [Agent.addPair]
  · simp only [Agent.addPair]
    rw [List.pairwise_append]
    refine ⟨h.ids.uniq, by simp, ?_⟩
    intro p hp q hq
    simp only [List.mem_singleton] at hq
    subst hq
    have := h.ids.le p hp
    simp only; omega
  · intro q hq
    rcases hnew q hq with hq | rfl
    · exact h.pairs q hq
    · exact ⟨by simp, by simp, by simp⟩
  · intro id hs
    obtain ⟨p, hp, hpid, hsp⟩ := h.sel id hs
    exact ⟨p, by simp [Agent.addPair, hp], hpid, hsp⟩
  · intro q hq hle
    rcases hnew q hq with hq | rfl
    · exact ⟨q, hq, rfl, PLe.refl _, fun _ => rfl⟩
    · exfalso
      have : a.nextPairID + 1 ≤ a.nextPairID := hle
      omega

theorem addPair_snd_id (a : Agent) (l r : Cand) : (a.addPair l r).2.id = a.nextPairID + 1 := rfl

theorem addPair_snd_mem (a : Agent) (l r : Cand) : (a.addPair l r).2 ∈ (a.addPair l r).1.checklist := by
  simp [Agent.addPair]

theorem wipe_pres {wp : Prop} (a : Agent) : Pres wp False a a.wipe := by
  intro _
  refine ⟨⟨⟨by simp [Agent.wipe], by simp [Agent.wipe]⟩, by simp [Agent.wipe], by simp [Agent.wipe]⟩,
    ⟨⟨rfl, Nat.le_refl _, by simp [Agent.wipe]⟩, Or.inr ⟨id, rfl⟩⟩⟩

theorem setConnState_pres {wp : Prop} (a : Agent) (s : ConnState) : Pres wp False a (a.setConnState s).1 := by
  unfold Agent.setConnState
  split
  · exact Pres.refl _ _ _
  · split
    · exact (wipe_pres a).trans (Pres.of_eq rfl rfl rfl rfl fun _ => rfl)
    · exact Pres.of_eq rfl rfl rfl rfl fun _ => rfl

/-- not to `failed`: nothing the invariant looks at changes -/
theorem setConnState_pres_ne {wp ex : Prop} (a : Agent) (s : ConnState) (hs : s ≠ .failed) :
    Pres wp ex a (a.setConnState s).1 := by
  unfold Agent.setConnState
  split
  · exact Pres.refl _ _ _
  · have : (s == ConnState.failed) = false := by simpa using hs
    simp only [this]
    exact Pres.of_eq rfl rfl rfl rfl fun _ => rfl

theorem setConnState_cc (a : Agent) (s : ConnState) :
    (a.setConnState s).1.cfg = a.cfg ∧ (a.setConnState s).1.controlling = a.controlling := by
  unfold Agent.setConnState
  split
  · exact ⟨rfl, rfl⟩
  · split <;> exact ⟨rfl, rfl⟩

theorem setConnState_fst_ne (a : Agent) (s : ConnState) (hs : s ≠ .failed) :
    (a.setConnState s).1 = { a with connState := s } := by
  unfold Agent.setConnState
  split
  · rename_i h
    have : a.connState = s := by simpa using h
    subst this
    rfl
  · have : (s == ConnState.failed) = false := by simpa using hs
    simp only [this]
    rfl

/-- `select` as a record update. -/
theorem select_fst (a : Agent) (id : Nat) :
    (a.select id).1 = { a with checklist := updPair a.checklist id fun p => { p with nominated := true },
                               selected := some id, onConnectedFired := true, connState := .connected } := by
  have h : (a.select id).1 = (({ (a.modPair id fun p => { p with nominated := true }) with
      selected := some id, onConnectedFired := true } : Agent).setConnState .connected).1 := rfl
  rw [h, setConnState_fst_ne _ _ (by decide)]
  rfl

theorem select_cc (a : Agent) (id : Nat) :
    (a.select id).1.cfg = a.cfg ∧ (a.select id).1.controlling = a.controlling := by
  rw [select_fst]; exact ⟨rfl, rfl⟩

theorem select_selected (a : Agent) (id : Nat) : (a.select id).1.selected = some id := by
  rw [select_fst]

/-- `select id` keeps `Inv3` when the pair `id` is valid and carries a nomination proof; `Rel` always. -/
theorem select_inv (a : Agent) (id : Nat) (h : Inv3 a)
    (hp : ∃ p ∈ a.checklist, p.id = id ∧ p.state = .succeeded ∧ (p.gRespUC = true ∨ p.gNomReq = true)) :
    Inv3 (a.select id).1 := by
  have h1 : Inv3 (a.modPair id fun p => { p with nominated := true }) :=
    modPair_inv a id _ (fun _ => rfl)
      (fun p _ _ hp => ⟨hp.valid, hp.deferred, hp.respUC⟩) (fun _ p _ _ hp => ⟨hp.succ, rfl, hp.nom⟩) h
  rw [select_fst]
  refine ⟨⟨h1.ids.le, h1.ids.uniq⟩, h1.pairs, ?_⟩
  intro sid hs
  simp only [Option.some.injEq] at hs
  subst hs
  obtain ⟨p, hpm, hpid, hst, hn⟩ := hp
  refine ⟨_, mem_updPair_of_mem (id := id) (f := fun p => { p with nominated := true }) hpm, ?_, ?_⟩
  · split <;> simp [hpid]
  · simp only [hpid, beq_self_eq_true, if_true]
    exact ⟨hst, rfl, hn⟩

theorem select_rel {wp : Prop} (a : Agent) (id : Nat) : Rel wp a (a.select id).1 := by
  have h1 : Quiet wp True a (a.modPair id fun p => { p with nominated := true }) :=
    modPair_quiet a id _ (fun _ => rfl) (fun p _ _ => ⟨fun x => x, fun x => x, fun x => x, fun x => x, fun x => x⟩) (fun _ p _ _ => ⟨rfl, rfl, rfl, rfl⟩)
  rw [select_fst]
  refine ⟨rfl, Nat.le_refl _, ?_⟩
  intro p' hp' hle
  obtain ⟨p, hp, hid, hle', hpr⟩ := h1.old p' hp' hle
  exact ⟨p, hp, hid, hle', hpr⟩

theorem select_fwd (a : Agent) (id : Nat) : Fwd a (a.select id).1 := by
  intro p hp
  rw [select_fst]
  exact ⟨_, mem_updPair_of_mem (id := id) (f := fun p : Pair => { p with nominated := true }) hp, by
    split <;> rfl⟩

/-- Re-selecting the pair that is already selected is quiet. -/
theorem select_same_pres {wp ex : Prop} (a : Agent) (id : Nat) (hs : a.selected = some id) :
    Pres wp ex a (a.select id).1 := by
  intro h
  obtain ⟨p, hp, hpid, hsp⟩ := h.sel id hs
  refine ⟨select_inv a id h ⟨p, hp, hpid, hsp.succ, hsp.nom⟩, ⟨select_rel a id, Or.inl ⟨?_, select_fwd a id⟩⟩⟩
  rw [select_selected, hs]

end IceProofs.C03
