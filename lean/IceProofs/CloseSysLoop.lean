import IceProofs.CloseSysLoopFrame
/-! # CloseSys — `Inv` is preserved by every statement of the loop thread -/
namespace IceProofs.CloseSys
open IceModel.CloseSys

theorem ThrSame.of_eq {s s' : State} (h : s'.thr = s.thr) : ThrSame s s' :=
  ⟨by rw [h], fun n th' hn => ⟨th', by rw [← h]; exact hn, rfl, rfl, id, rfl⟩⟩

theorem StreamsSame.of_eq {s s' : State} (h : s'.streams = s.streams) : StreamsSame s s' :=
  ⟨by rw [h], fun n st' hn => ⟨st', by rw [← h]; exact hn, rfl, Or.inl, Or.inl, fun h => ⟨h, id⟩⟩⟩

theorem CandsMono.of_eq {s s' : State} (h : s'.cands = s.cands) : CandsMono s s' :=
  fun i cd hi => ⟨cd, by rw [h]; exact hi, id⟩

theorem Inv.candsKeep {s s' : State} (h : Inv s) (hc : s'.cands = s.cands)
    (h4 : 4 ≤ stage s'.loop → 4 ≤ stage s.loop) :
    ∀ (c : Nat) (cd' : Cand), s'.cands[c]? = some cd' → CandOK1 cd' ∧ (4 ≤ stage s'.loop → cd'.rl = .exited) := by
  intro c cd' hcd
  rw [hc] at hcd
  obtain ⟨a1, a2, a3⟩ := h.candOK c cd' hcd
  exact ⟨⟨a1, a2⟩, fun hx => a3 (h4 hx)⟩

/-- moves of the loop thread that change nothing but `loop` (and possibly `startedCh`, `bufClosed`). -/
theorem Inv.moveLoop {s s' : State} (h : Inv s)
    (hdone : s'.done = s.done) (honce : s'.once = s.once) (hsnap : s'.snap = s.snap) (hrt : s'.rtask = s.rtask)
    (hcr : s'.closeRet = s.closeRet) (hgr : s'.gcloseRet = s.gcloseRet)
    (hthr : s'.thr = s.thr) (hstr : s'.streams = s.streams) (hcd : s'.cands = s.cands) (hgc : s'.gcur = s.gcur)
    (hne : s.loop ≠ .exited)
    (hcl : 1 ≤ stage s'.loop → s.done = true)
    (h4 : 4 ≤ stage s'.loop → 4 ≤ stage s.loop ∨ ∀ (c : Nat) (cd : Cand), s.cands[c]? = some cd → cd.rl = .exited)
    (hw : ∀ c, TOp.write c ∈ loopOps s'.loop → TOp.write c ∈ loopOps s.loop)
    (hrl : (∀ c ops, s'.loop = .task (.rl c) ops → TOp.closeCands ∉ ops) ∧ (∀ c ops, s'.loop ≠ .tclose (.rl c) ops))
    (hst : (6 ≤ stage s'.loop → s'.bufClosed = true) ∧ (7 ≤ stage s'.loop → ∀ st : Stream, s'.streams[0]? = some st → s'.lastAcc = some 0) ∧
      (3 ≤ stage s'.loop → gatherFinished s' = true)) : Inv s' := by
  refine h.loopFrame hdone honce hsnap hrt hcr hgr hne hcl (.of_eq hthr) (.of_eq hstr) ?_ (.of_eq hcd) (fun c hc => Or.inl (hw c hc)) hrl hst ?_
  · intro c cd' hc
    rw [hcd] at hc
    obtain ⟨a1, a2, a3⟩ := h.candOK c cd' hc
    refine ⟨⟨a1, a2⟩, fun hx => ?_⟩
    rcases h4 hx with h5 | h5
    · exact a3 h5
    · exact h5 c cd' hc
  · rw [hgc, hthr]; exact h.gcurOK

theorem gatherFinished_congr {s s' : State} (h1 : s'.gcur = s.gcur) (h2 : s'.thr = s.thr) :
    gatherFinished s' = gatherFinished s := by
  unfold gatherFinished; rw [h1, h2]


theorem mem_of_mem_tail_ops {op : TOp} {ops : List TOp} {c : Nat} (h : TOp.write c ∈ ops) : TOp.write c ∈ op :: ops :=
  List.mem_cons_of_mem _ h

/-- taskloop.go:58-59: the loop sees `done` and enters onClose. -/
theorem inv_loop_idle {s : State} (h : Inv s) (hl : s.loop = .idle) (hd : s.done = true) :
    Inv { s with loop := .ocCancel } := by
  apply h.moveLoop <;> simp [hl, hd, stage, loopOps]

/-- taskloop.go:62: the task is over. -/
theorem inv_loop_taskEnd {s : State} (h : Inv s) {o : Tid} (hl : s.loop = .task o []) :
    Inv { s with loop := .idle } := by
  apply h.moveLoop <;> simp [hl, stage, loopOps]

/-- a task statement that only consumes itself (socket write, env write completion). -/
theorem inv_loop_taskSkip {s : State} (h : Inv s) {o : Tid} {op : TOp} {ops : List TOp}
    (hl : s.loop = .task o (op :: ops)) : Inv { s with loop := .task o ops } := by
  apply h.moveLoop <;> simp [hl, stage, loopOps]
  · intro c hc; exact Or.inr hc
  · intro c ho hm
    subst ho
    exact h.rlTask.1 c _ hl (List.mem_cons_of_mem _ hm)

/-- agent.go:1995: the task enters `deleteAllCandidates`. -/
theorem inv_loop_closeCands {s : State} (h : Inv s) {o : Tid} {ops : List TOp}
    (hl : s.loop = .task o (.closeCands :: ops)) : Inv { s with loop := .tclose o ops } := by
  apply h.moveLoop <;> simp [hl, stage, loopOps]
  intro c ho
  subst ho
  exact absurd (List.mem_cons_self) (h.rlTask.1 c _ hl)

/-- agent.go:674. -/
theorem inv_loop_startedFn {s : State} (h : Inv s) {o : Tid} {ops : List TOp}
    (hl : s.loop = .task o (.startedFn :: ops)) : Inv { s with loop := .task o ops, startedCh := true } := by
  apply h.moveLoop <;> simp [hl, stage, loopOps]
  intro c ho hm
  subst ho
  exact h.rlTask.1 c _ hl (List.mem_cons_of_mem _ hm)


/-- agent.go:557. -/
theorem inv_loop_ocCancel {s : State} (h : Inv s) (hl : s.loop = .ocCancel) :
    Inv { cancelCur s with loop := .ocWaitGather } := by
  have hd : s.done = true := h.closing (by simp [hl, stage])
  have hts : ThrSame s { cancelCur s with loop := .ocWaitGather } := by
    constructor
    · simp only [cancelCur]; split <;> simp
    · intro n th' hn
      obtain ⟨th, h1, h2, h3, h4, h5⟩ := cancelCur_thr s n th' hn
      exact ⟨th, h1, h2, h3, fun hx => by rw [h4]; exact hx, h5⟩
  refine h.loopFrame (s' := { cancelCur s with loop := .ocWaitGather }) (by simp) (by simp) (by simp) (by simp)
    (by simp) (by simp) (by simp [hl]) (fun _ => hd) hts (StreamsSame.of_eq (by simp))
    (h.candsKeep (by simp) (by simp [stage])) (CandsMono.of_eq (by simp)) (by simp [loopOps]) (by simp)
    (by simp [stage]) ?_
  intro t ht
  obtain ⟨th, h1, h2, h3⟩ := h.gcurOK t (by simpa using ht)
  obtain ⟨th', h1'⟩ := getElem?_of_length_eq hts.1 h1
  obtain ⟨th0, h0, _, _, hlv, hk⟩ := hts.2 t th' h1'
  rw [h1] at h0; cases h0
  exact ⟨th', h1', by rw [hk, h2], hlv h3⟩

/-- agent.go:558-560. -/
theorem inv_loop_ocWaitGather {s : State} (h : Inv s) (hl : s.loop = .ocWaitGather) (hg : gatherFinished s = true) :
    Inv { s with loop := .ocDel } := by
  have hd : s.done = true := h.closing (by simp [hl, stage])
  apply h.moveLoop <;> simp [hl, hd, stage, loopOps]
  exact (gatherFinished_congr (s := s) rfl rfl).trans hg

/-- agent.go:564. -/
theorem inv_loop_ocStarted {s : State} (h : Inv s) (hl : s.loop = .ocStarted) :
    Inv { s with startedCh := true, loop := .ocBuf } := by
  have hd : s.done = true := h.closing (by simp [hl, stage])
  have hg := h.stages.2.2 (by simp [hl, stage])
  apply h.moveLoop <;> simp [hl, hd, stage, loopOps]
  exact (gatherFinished_congr (s := s) rfl rfl).trans hg

/-- agent.go:566. -/
theorem inv_loop_ocBuf {s : State} (h : Inv s) (hl : s.loop = .ocBuf) :
    Inv { s with bufClosed := true, loop := .ocNotify } := by
  have hd : s.done = true := h.closing (by simp [hl, stage])
  have hg := h.stages.2.2 (by simp [hl, stage])
  apply h.moveLoop <;> simp [hl, hd, stage, loopOps]
  exact (gatherFinished_congr (s := s) rfl rfl).trans hg

/-- taskloop.go:53. -/
theorem inv_loop_ocDone {s : State} (h : Inv s) (hl : s.loop = .ocDone) :
    Inv { s with loop := .exited } := by
  have hd : s.done = true := h.closing (by simp [hl, stage])
  have hg := h.stages.2.2 (by simp [hl, stage])
  have hb := h.stages.1 (by simp [hl, stage])
  have hla := h.stages.2.1 (by simp [hl, stage])
  apply h.moveLoop <;> simp [hl, hd, stage, loopOps]
  exact ⟨hb, hla, (gatherFinished_congr (s := s) rfl rfl).trans hg⟩


theorem enqueue_streams_length (s : State) (i e : Nat) : (enqueue s i e).streams.length = s.streams.length := by
  unfold enqueue; split <;> (try split) <;> simp

theorem enqueue_same (s : State) (i e : Nat) : StreamsSame s (enqueue s i e) :=
  ⟨enqueue_streams_length s i e, fun j st' hj => by
    obtain ⟨st, h1, h2, h3, _, h5, h6⟩ := enqueue_stream s i e j st' hj
    exact ⟨st, h1, h2, fun h => Or.inl (h3 ▸ h), fun h => Or.inl (h5 h), fun h => by rw [h6 h]; exact ⟨h, id⟩⟩⟩

theorem StreamsSame.setLoop {s s0 : State} {l : LoopLoc} (h : StreamsSame s s0) : StreamsSame s { s0 with loop := l } := h

/-- agent.go:571 → agent_handlers.go:89-122: Closed is handed to (and accepted by) the state notifier. -/
theorem inv_loop_ocNotify {s : State} (h : Inv s) (hl : s.loop = .ocNotify) :
    Inv { enqueue s 0 0 with loop := .ocDone } := by
  have hd : s.done = true := h.closing (by simp [hl, stage])
  have hg := h.stages.2.2 (by simp [hl, stage])
  have hb := h.stages.1 (by simp [hl, stage])
  refine h.loopFrame (s' := { enqueue s 0 0 with loop := .ocDone }) (by simp) (by simp) (by simp) (by simp)
    (by simp) (by simp) (by simp [hl]) (fun _ => hd) (.of_eq (by simp)) (enqueue_same s 0 0)
    (h.candsKeep (by simp) (by simp [stage, hl])) (CandsMono.of_eq (by simp)) (by simp [loopOps]) (by simp)
    ⟨fun _ => by simpa using hb, ?_, fun _ => (gatherFinished_congr (s := s) (by simp) (by simp)).trans hg⟩
    (by simpa using h.gcurOK)
  intro _ st' hst'
  obtain ⟨st, h1, _⟩ := enqueue_stream s 0 0 0 st' hst'
  have hnd : st.ndone = false := by
    cases hx : st.ndone with
    | false => rfl
    | true => have := (h.drOK 0 st h1).2.2 hx; simp [hl] at this
  simpa using enqueue_lastAcc_closed s st h1 hnd

/-- agent.go:789 / 1391 inside a task. -/
theorem inv_loop_enq {s : State} (h : Inv s) {o : Tid} {ops : List TOp} {i e : Nat}
    (hl : s.loop = .task o (.enq i e :: ops)) : Inv (enqueue { s with loop := .task o ops } i e) := by
  have h1 : Inv { s with loop := .task o ops } := inv_loop_taskSkip h hl
  have hne : ({ s with loop := .task o ops } : State).loop ≠ .exited := by simp
  refine h1.loopFrame (by simp) (by simp) (by simp) (by simp) (by simp) (by simp) hne (by simp [stage])
    (.of_eq (by simp)) (enqueue_same _ i e) (h1.candsKeep (by simp) (by simp [stage])) (CandsMono.of_eq (by simp))
    (fun c hc => Or.inl (by simpa using hc)) ⟨by simpa using h1.rlTask.1, by simp⟩ (by simp [stage]) (by simpa using h1.gcurOK)

/-- agent.go:1979 inside a task. -/
theorem inv_loop_cancelGather {s : State} (h : Inv s) {o : Tid} {ops : List TOp}
    (hl : s.loop = .task o (.cancelGather :: ops)) : Inv (cancelCur { s with loop := .task o ops }) := by
  have h1 : Inv { s with loop := .task o ops } := inv_loop_taskSkip h hl
  generalize hs1 : ({ s with loop := .task o ops } : State) = s1 at h1 ⊢
  have hl1 : s1.loop = .task o ops := by rw [← hs1]
  have hts : ThrSame s1 (cancelCur s1) := by
    constructor
    · simp only [cancelCur]; split <;> simp
    · intro n th' hn
      obtain ⟨th, h1, h2, h3, h4, h5⟩ := cancelCur_thr s1 n th' hn
      exact ⟨th, h1, h2, h3, fun hx => by rw [h4]; exact hx, h5⟩
  refine h1.loopFrame (by simp) (by simp) (by simp) (by simp) (by simp) (by simp) (by simp [hl1]) (by simp [stage, hl1])
    hts (.of_eq (by simp)) (h1.candsKeep (by simp) (by simp [stage, hl1])) (CandsMono.of_eq (by simp))
    (fun c hc => Or.inl (by simpa using hc)) ⟨by simpa using h1.rlTask.1, by simpa using h1.rlTask.2.1⟩ (by simp [stage, hl1]) ?_
  intro t ht
  obtain ⟨th, h1', h2, h3⟩ := h1.gcurOK t (by simpa using ht)
  obtain ⟨th', h1''⟩ := getElem?_of_length_eq hts.1 h1'
  obtain ⟨th0, h0, _, _, hlv, hk⟩ := hts.2 t th' h1''
  rw [h1'] at h0; cases h0
  exact ⟨th', h1'', by rw [hk, h2], hlv h3⟩

end IceProofs.CloseSys
