import IceProofs.TcpMuxSimClose
/-!
# `Close` of the mux, the clock, `GetConnByUfrag`, `WriteTo`
-/
namespace IceProofs.TcpMux
open IceModel.TcpMux IceSpec.C15 IceSpec.C15.View

/-! ## `Close` -/

/-- `Close` after its packet connections were closed -/
def closedMux (s1 : State) : State := { s1 with muxClosed := true, listenerOpen := false, closedAt := s1.now }

/-- the monitor after `Close` was called -/
def calledMon (m1 : Mon) : Mon := { m1 with closeCalled := true, closeTime := m1.now }

theorem simU_close {s1 : State} {m1 : Mon} (hu : SimU s1 m1) (hn : NRead s1 m1) :
    SimU (closedMux s1) (calledMon m1) ∧ NRead (closedMux s1) (calledMon m1) :=
  ⟨⟨hu.active, hu.t1, hu.t2, hu.now, rfl, fun _ => hu.now, hu.pcs, hu.handles, hu.len, hu.cl, hu.stamp, hu.last, hu.ho, hu.cc,
    hu.pl, hu.plb, hu.endLast, hu.uniq⟩, hn⟩

/-- a routed connection whose packet connection is closed is closed -/
theorem routed_closed {s : State} (hi : Inv s) (h2 : Inv2 s) {k p : Nat} {t : Tcp} {pc : PConn}
    (ht : s.tcps[k]? = some t) (hpc : t.pc = some p) (hp : s.pcs[p]? = some pc) (hcl : pc.closed = true) :
    t.phase = .closed := by
  cases hph : t.phase with
  | closed => rfl
  | pending d =>
    have := ((h2.tcp k t ht).fresh d hph).1
    rw [hpc] at this; cases this
  | attached q =>
    have := hi.phase k t ht
    simp only [PhaseOk, hph] at this
    obtain ⟨e, pc2, hp2, hopen, _⟩ := this
    rw [hpc] at e; cases e
    rw [hp] at hp2; cases hp2
    rw [hcl] at hopen; cases hopen

theorem op_closemux {s : State} {m : Mon} (hs : Sim s m) (hi : Inv s) (h2 : Inv2 s) :
    BookOK s (step s .closeMux).1 m
      (book m .closemux (obsOf s.tcps (step s .closeMux).1 (oresOf .closeMux (step s .closeMux).2))) := by
  have hi' := step_inv s .closeMux hi
  have h2' := step_inv2 s .closeMux hi h2
  have hext := step_ext s .closeMux (inv2_pendingFresh s h2)
  show BookOK s _ m (bookClosemux m _)
  rcases Bool.eq_false_or_eq_true s.muxClosed with hm | hm
  · have hst : step s .closeMux = (s, .already) := by simp [step, hm]
    rw [hst]
    have hcc : m.closeCalled = true := by rw [hs.u.called]; exact hm
    unfold bookClosemux
    simp only [hcc, if_true]
    exact bookOK_same hs hi
  · have hnow := closePcsWhere_now (fun _ => true) s
    have hst : step s .closeMux = (closedMux (closePcsWhere (fun _ => true) s), .ok) := by
      simp [step, hm, hnow, closedMux]
    rw [hst] at hi' h2' hext ⊢
    simp only at hi' h2' hext ⊢
    have hcc : m.closeCalled = false := by rw [hs.u.called]; exact hm
    obtain ⟨hu1, hn1, oq1, hl1, _, _⟩ := closePcsWhere_chain (fun _ => true) hi h2 hs.u hs.nread
    obtain ⟨hu, hn⟩ := simU_close hu1 hn1
    have hpcs : closeWhere m.pcs (fun _ => true) = (closePcsWhere (fun _ => true) s).pcs.map absPc := by
      rw [hs.u.pcs, closePcsWhere_pcs]
      exact closeWhere_abs _ _ _ (fun _ _ _ => rfl)
    have hmnow : m.now = (closePcsWhere (fun _ => true) s).now := by rw [hnow]; exact hs.u.now
    unfold bookClosemux
    simp only [hcc, Bool.false_eq_true, if_false]
    rw [hpcs]
    -- every routed connection is closed now
    have hall : (List.range m.clients.length).any (clRoutedOpen
        { m with closeCalled := true, closeTime := m.now, pcs := (closePcsWhere (fun _ => true) s).pcs.map absPc }
        (obsOf s.tcps (closedMux (closePcsWhere (fun _ => true) s)) (oresOf .closeMux .ok)).closed) = false := by
      apply any_range_false
      intro k _
      unfold clRoutedOpen
      show (match m.clients[k]? with | some c => _ | none => false) = false
      cases hc : m.clients[k]? with
      | none => rfl
      | some c =>
        simp only
        cases htg : c.target with
        | none => rfl
        | some p =>
          have hlt : k < (closePcsWhere (fun _ => true) s).tcps.length := by rw [hl1, ← hs.u.len]; exact getElem?_lt hc
          obtain ⟨t', ht'⟩ := getElem?_of_lt hlt
          have r := hu1.cl k t' c ht' hc
          have hpc : t'.pc = some p := by rw [← r.target]; exact htg
          obtain ⟨pc', hp'⟩ := (h2'.tcp k t' ht').ref p hpc
          have hclosed : pc'.closed = true := by
            have hp2 : (closePcsWhere (fun _ => true) s).pcs[p]? = some pc' := hp'
            rw [closePcsWhere_pcs, List.getElem?_map] at hp2
            cases hq : s.pcs[p]? with
            | none => rw [hq] at hp2; cases hp2
            | some pc0 =>
              rw [hq] at hp2
              simp only [Option.map_some, Option.some.injEq] at hp2
              rw [← hp2]
              unfold closeSel
              cases hc0 : pc0.closed with
              | true => simp [hc0]
              | false => simp [closedPc]
          have := routed_closed hi' h2' (k := k) (p := p) ht' hpc hp' hclosed
          rw [closedNow_true (s' := closedMux (closePcsWhere (fun _ => true) s)) ht' this]
          rfl
    rw [hall]
    simp only [Bool.false_eq_true, if_false]
    have hmeq : ({ m with closeCalled := true, closeTime := m.now, pcs := (closePcsWhere (fun _ => true) s).pcs.map absPc } : Mon) =
        calledMon { m with pcs := (closePcsWhere (fun _ => true) s).pcs.map absPc } := rfl
    rw [hmeq]
    apply bookOK_mk rfl hu hn hi'
    · exact old_of_flags hs.flags hs.u.len hext closed_same
    · rfl
    · intro _; exact newReplies_of_outQ hl1 oq1

/-! ## the clock -/

/-- the state after the alive timers that fire by `now'` have fired and the first-bind deadlines were applied -/
def ticked (s1 : State) (now' : Nat) : State := { s1 with now := now', tcps := s1.tcps.map (expireTcp now') }

/-- the monitor re-reads records, handles and clock from the state -/
def reread (m : Mon) (s' : State) : Mon :=
  { m with pcs := s'.pcs.map absPc, handles := s'.handles.map absH, now := s'.now }

theorem expired_abs (now' : Nat) (pc : PConn) : expired now' (absPc pc) = aliveExpired now' pc := by
  unfold expired aliveExpired
  show (match pc.alive with | some d => decide (d ≤ now') | none => false) = _
  cases pc.alive <;> rfl

theorem op_advance {s : State} {m : Mon} (hs : Sim s m) (hi : Inv s) (h2 : Inv2 s) (dt : Nat) :
    BookOK s (step s (.advance dt)).1 m
      (book m (.advance dt) (obsOf s.tcps (step s (.advance dt)).1 (oresOf (.advance dt) (step s (.advance dt)).2))) := by
  have hi' := step_inv s (.advance dt) hi
  have h2' := step_inv2 s (.advance dt) hi h2
  have hext := step_ext s (.advance dt) (inv2_pendingFresh s h2)
  show BookOK s _ m ({ m with now := m.now + dt }, none, false)
  have hst : (step s (.advance dt)).1 = ticked (closePcsWhere (fun pc => aliveExpired (s.now + dt) pc) s) (s.now + dt) := rfl
  rw [hst] at hi' h2' hext ⊢
  generalize hs1 : closePcsWhere (fun pc => aliveExpired (s.now + dt) pc) s = s1 at *
  obtain ⟨hu1, hn1, oq1, hl1, hh1, hnow1⟩ := hs1 ▸ closePcsWhere_chain (fun pc => aliveExpired (s.now + dt) pc) hi h2 hs.u hs.nread
  have hi1 : Inv s1 := hs1 ▸ closePcsWhere_inv _ s hi
  have h21 : Inv2 s1 := hs1 ▸ closePcsWhere_inv2 _ s hi h2
  have hpcs1 : s1.pcs = s.pcs.map (closeSel (fun pc => aliveExpired (s.now + dt) pc)) := hs1 ▸ closePcsWhere_pcs _ s
  obtain ⟨q2, oq2, rl2⟩ := tick_quiet s1 (s.now + dt)
  obtain ⟨hu2, hn2⟩ := quiet_step q2 rl2 hi1 h21 hu1 hn1
  -- the monitor's expiry produces exactly these records
  have hexp : expire { m with now := m.now + dt } = reread { m with pcs := s1.pcs.map absPc } (ticked s1 (s.now + dt)) := by
    unfold expire
    have h1 : closeWhere m.pcs (expired (m.now + dt)) = s1.pcs.map absPc := by
      rw [hs.u.pcs, hpcs1, hs.u.now]
      apply closeWhere_abs
      intro pc _ _
      exact expired_abs _ pc
    show ({ m with now := m.now + dt, pcs := closeWhere m.pcs (expired (m.now + dt)) } : Mon) =
      { m with pcs := s1.pcs.map absPc, handles := s1.handles.map absH, now := s.now + dt }
    rw [h1, hh1, ← hs.u.handles, hs.u.now]
  refine ⟨rfl, by rw [hexp]; exact hu2, by rw [hexp]; exact hn2, ?_, ?_, rfl, ?_⟩
  · -- provisional: a record whose deadline has passed
    intro k c p pcm d hc htg hp he hd
    have hlt : k < s.tcps.length := by rw [← hs.u.len]; exact getElem?_lt hc
    obtain ⟨t, ht⟩ := getElem?_of_lt hlt
    have r := hs.u.cl k t c ht hc
    have hpc : t.pc = some p := by rw [← r.target]; exact htg
    have hp0 : m.pcs[p]? = some pcm := hp
    rw [hs.u.pcs, List.getElem?_map] at hp0
    cases hq : s.pcs[p]? with
    | none => rw [hq] at hp0; cases hp0
    | some pc0 =>
      rw [hq] at hp0
      simp only [Option.map_some, Option.some.injEq] at hp0
      have hal : pc0.alive = some d := by rw [← hp0] at he; exact he
      have hd' : d ≤ s.now + dt := by have : d ≤ m.now + dt := hd; rw [hs.u.now] at this; exact this
      -- the packet connection is closed in the new state
      have hp1 : (ticked s1 (s.now + dt)).pcs[p]? = some (closeSel (fun pc => aliveExpired (s.now + dt) pc) pc0) := by
        show s1.pcs[p]? = _
        rw [hpcs1, List.getElem?_map, hq]; rfl
      have hcl : (closeSel (fun pc => aliveExpired (s.now + dt) pc) pc0).closed = true := by
        unfold closeSel
        have hae : aliveExpired (s.now + dt) pc0 = true := by
          unfold aliveExpired; rw [hal]; simpa using hd'
        cases hc0 : pc0.closed with
        | true => simp [hc0]
        | false => simp [hae, closedPc]
      -- connection `k` in the new state still points to `p`
      have hext_t := hext.tcps k t ht
      obtain ⟨t', ht', te⟩ := hext_t
      have hpc' : t'.pc = some p := te.pc p hpc
      exact ⟨t', ht', isClosed_iff.2 (routed_closed hi' h2' ht' hpc' hp1 hcl)⟩
  · exact old_of_flags hs.flags hs.u.len hext closed_same
  · intro _
    apply newReplies_of_outQ
    · show (s1.tcps.map (expireTcp (s.now + dt))).length = _
      rw [List.length_map, hl1]
    · exact oq1.trans oq2

/-! ## `GetConnByUfrag` -/

def claimPc (pc : PConn) : PConn := { pc with alive := none, refs := pc.refs + 1, claimed := true }

/-- `GetConnByUfrag` found packet connection `p` -/
def claimed (s : State) (p : Nat) : State :=
  { s with pcs := s.pcs.modify p claimPc, handles := s.handles ++ [{ pc := p }] }

/-- `GetConnByUfrag` created a packet connection -/
def created (s : State) (key : Key) : State :=
  { s with pcs := s.pcs ++ [{ key := key, provisional := false, alive := none, refs := 1, created := s.now, claimed := true }], handles := s.handles ++ [{ pc := s.pcs.length }] }

theorem op_getconn {s : State} {m : Mon} (hs : Sim s m) (hi : Inv s) (h2 : Inv2 s) (key : Key) :
    BookOK s (step s (.getConn key)).1 m
      (book m (.getconn key.ufrag key.v6 key.lip) (obsOf s.tcps (step s (.getConn key)).1
        (oresOf (.getConn key) (step s (.getConn key)).2))) := by
  have hi' := step_inv s (.getConn key) hi
  have hext := step_ext s (.getConn key) (inv2_pendingFresh s h2)
  show BookOK s _ m (bookGetconn m _ key.ufrag key.v6 key.lip)
  rcases Bool.eq_false_or_eq_true s.muxClosed with hm | hm
  · have hst : step s (.getConn key) = (s, .errClosed) := by simp [step, hm]
    rw [hst]
    exact bookOK_same hs hi
  · have hcc : m.closeCalled = false := by rw [hs.u.called]; exact hm
    have hhl : m.handles.length = s.handles.length := by rw [hs.u.handles]; simp
    have hfo : findOpen m.pcs key.ufrag key.v6 key.lip = findPc s.pcs key := by rw [hs.u.pcs]; exact findOpen_abs s.pcs key
    cases hf : findPc s.pcs key with
    | some p =>
      have hst : step s (.getConn key) = (claimed s p, .handle s.handles.length) := by
        simp [step, hm, hf, claimed, setPc]; rfl
      rw [hst] at hi' hext ⊢
      simp only at hi' hext ⊢
      unfold bookGetconn
      show BookOK s _ m (if s.handles.length ≠ m.handles.length then _ else _)
      rw [if_neg (by rw [hhl]; exact fun h => h rfl)]
      rw [if_neg (by rw [hcc]; exact Bool.false_ne_true), hfo, hf]
      simp only
      obtain ⟨q, oq, rl⟩ := pcs_pointwise_quiet s (claimed s p) p claimPc rfl rfl rfl rfl rfl (fun _ => ⟨rfl, rfl, rfl⟩)
      obtain ⟨hu, hn⟩ := quiet_step q rl hi h2 hs.u hs.nread
      have hmeq : ({ m with pcs := setAt m.pcs p (fun pc => { pc with expires := none, refs := pc.refs + 1 }), handles := m.handles ++ [{ pc := p }] } : Mon) = reread m (claimed s p) := by
        unfold reread claimed
        simp only
        rw [hs.u.pcs, hs.u.handles, ← hs.u.now]
        unfold setAt
        rw [← map_modify_comm s.pcs p claimPc _ absPc (fun _ => rfl)]
        simp [absH]
      rw [hmeq]
      apply bookOK_mk rfl hu hn hi'
      · exact old_of_flags hs.flags hs.u.len hext closed_same
      · rfl
      · intro _; exact newReplies_nil rfl (fun k t ht => ⟨t, ht, rfl⟩)
    | none =>
      have hst : step s (.getConn key) = (created s key, .handle s.handles.length) := by
        simp [step, hm, hf, created]
      rw [hst] at hi' hext ⊢
      simp only at hi' hext ⊢
      unfold bookGetconn
      show BookOK s _ m (if s.handles.length ≠ m.handles.length then _ else _)
      rw [if_neg (by rw [hhl]; exact fun h => h rfl)]
      rw [if_neg (by rw [hcc]; exact Bool.false_ne_true), hfo, hf]
      simp only
      obtain ⟨q, oq, rl⟩ := appendPc_quiet s
        { key := key, provisional := false, alive := none, refs := 1, created := s.now, claimed := true } rfl
      obtain ⟨hu1, hn1⟩ := quiet_step q rl hi h2 hs.u hs.nread
      obtain ⟨hu, hn⟩ := simU_handles hu1 hn1 (s.handles ++ [{ pc := s.pcs.length }])
      have hmeq : ({ m with pcs := m.pcs ++ [{ ufrag := key.ufrag, v6 := key.v6, lip := key.lip, provisional := false, expires := none, refs := 1 }], handles := m.handles ++ [{ pc := m.pcs.length }] } : Mon) = reread m (created s key) := by
        unfold reread created
        simp only
        rw [hs.u.pcs, hs.u.handles, ← hs.u.now]
        simp [absH, absPc]
      rw [hmeq]
      apply bookOK_mk rfl hu hn hi'
      · exact old_of_flags hs.flags hs.u.len hext closed_same
      · rfl
      · intro _; exact newReplies_nil rfl (fun k t ht => ⟨t, ht, rfl⟩)

/-! ## `WriteTo` -/

theorem flatMap_range_single {β : Type} (g : Nat → List β) (n k : Nat) (l : List β) (hk : k < n) (hg : g k = l)
    (hne : ∀ j, j ≠ k → g j = []) : (List.range n).flatMap g = l := by
  induction n with
  | zero => omega
  | succ n ih =>
    rw [List.range_succ, List.flatMap_append]
    by_cases hkn : k = n
    · subst hkn
      have : (List.range k).flatMap g = [] := by
        rw [List.flatMap_eq_nil_iff]
        intro a ha
        rw [List.mem_range] at ha
        exact hne a (by omega)
      rw [this]
      simp [hg]
    · rw [ih (by omega)]
      simp [hne n (fun e => hkn e.symm)]

def addOut (pid len : Nat) (t : Tcp) : Tcp := { t with out := t.out ++ [(pid, len)] }

theorem newReplies_single (s : State) (k pid len : Nat) (t : Tcp) (ht : s.tcps[k]? = some t) :
    newReplies s.tcps (setTcp s k (addOut pid len)).tcps = [(k, showId pid len)] := by
  unfold newReplies
  apply flatMap_range_single _ _ k _ (by simp [setTcp]; exact getElem?_lt ht)
  · rw [getElem?_setTcp_eq s k _ t ht, ht]
    simp [addOut]
  · intro j hj
    rw [getElem?_setTcp_ne s k j _ hj]
    cases s.tcps[j]? with
    | none => rfl
    | some tj => simp

theorem op_write {s : State} {m : Mon} (hs : Sim s m) (hi : Inv s) (h2 : Inv2 s) (h : Nat) (dst : Addr) (pid len : Nat)
    (hnb : (step s (.write h dst pid len)).2 ≠ .bad) :
    BookOK s (step s (.write h dst pid len)).1 m
      (book m (.write h dst.ip dst.port (toString pid) len) (obsOf s.tcps (step s (.write h dst pid len)).1
        (oresOf (.write h dst pid len) (step s (.write h dst pid len)).2))) := by
  have hi' := step_inv s (.write h dst pid len) hi
  have hext := step_ext s (.write h dst pid len) (inv2_pendingFresh s h2)
  show BookOK s _ m (bookWrite m _ h dst.ip dst.port (toString pid) len)
  cases hh : s.handles[h]? with
  | none => simp [step, hh] at hnb
  | some hd =>
    have hmh : m.handles[h]? = some (absH hd) := by rw [handle_abs hs.u, hh]; rfl
    -- the failing write: nothing changes, nothing arrives, and the monitor expects no target
    have fail : step s (.write h dst pid len) = (s, .errClosed) →
        (if (absH hd).closed = true then [] else (liveOn m (absH hd).pc).filter (fun x => x.2.ip == dst.ip && x.2.port == dst.port)) = [] →
        BookOK s (step s (.write h dst pid len)).1 m
          (bookWrite m (obsOf s.tcps (step s (.write h dst pid len)).1
            (oresOf (.write h dst pid len) (step s (.write h dst pid len)).2)) h dst.ip dst.port (toString pid) len) := by
      intro hst htgt
      rw [hst]
      unfold bookWrite
      rw [hmh]
      simp only
      rw [htgt]
      have hres : (obsOf s.tcps s (oresOf (.write h dst pid len) .errClosed)).res = .other := rfl
      have houts : (obsOf s.tcps s (oresOf (.write h dst pid len) .errClosed)).outs = [] :=
        newReplies_nil rfl (fun k t ht => ⟨t, ht, rfl⟩)
      rw [hres, houts]
      simp only [List.isEmpty_nil, Bool.not_true, Bool.false_eq_true, if_false]
      apply bookOK_mk rfl hs.u hs.nread hi
      · exact old_of_flags hs.flags hs.u.len (Ext.refl s) closed_same
      · rfl
      · intro hf; cases hf
    rcases Bool.eq_false_or_eq_true hd.closed with hc | hc
    · apply fail
      · simp [step, hh, hc]
      · have : (absH hd).closed = true := hc
        rw [if_pos this]
    · have hcm : (absH hd).closed = false := hc
      cases hp : s.pcs[hd.pc]? with
      | none => simp [step, hh, hc, hp] at hnb
      | some pc =>
        have hdup := dup_iff hs.u hs.flags hi h2 hd.pc pc hp dst
        cases hl : lookupConn pc.conns dst with
        | none =>
          apply fail
          · simp [step, hh, hc, hp, hl]
          · rw [if_neg (by rw [hcm]; exact Bool.false_ne_true)]
            rw [hl] at hdup
            rw [List.filter_eq_nil_iff]
            intro x hx
            have := List.any_eq_false.1 hdup x hx
            exact this
        | some k =>
          obtain ⟨t, ht, hph, hpe⟩ := (hi.pc hd.pc pc hp).1 dst k (lookupConn_some_mem hl)
          obtain ⟨c, hc', r⟩ := client_of hs.u ht
          have htpc : t.pc = some hd.pc := by
            have := hi.phase k t ht
            simp only [PhaseOk, hph] at this
            exact this.1
          have hst : step s (.write h dst pid len) = (setTcp s k (addOut pid len), .wrote len) := by
            simp [step, hh, hc, hp, hl]; rfl
          rw [hst] at hi' hext ⊢
          simp only at hi' hext ⊢
          -- the one target the monitor expects
          have htgt : (if (absH hd).closed = true then [] else
              (liveOn m (absH hd).pc).filter (fun x => x.2.ip == dst.ip && x.2.port == dst.port)) = [(k, c)] := by
            rw [if_neg (by rw [hcm]; exact Bool.false_ne_true)]
            unfold liveOn
            rw [List.filter_filter]
            apply indexed_filter_single m.clients _ k c hc'
            · simp only [Bool.and_eq_true, beq_iff_eq, Bool.not_eq_true']
              refine ⟨⟨r.ip.trans (by rw [hpe]), r.port.trans (by rw [hpe])⟩, by rw [r.target]; exact htpc, ?_⟩
              rw [hs.flags k t c ht hc']; unfold Tcp.isClosed; rw [hph]
            · intro j b hb hpb
              simp only [Bool.and_eq_true, beq_iff_eq, Bool.not_eq_true'] at hpb
              obtain ⟨⟨hip, hport⟩, htg, hncl⟩ := hpb
              have hlt : j < s.tcps.length := by rw [← hs.u.len]; exact getElem?_lt hb
              obtain ⟨tj, htj⟩ := getElem?_of_lt hlt
              have rj := hs.u.cl j tj b htj hb
              have hpcj : tj.pc = some hd.pc := by rw [← rj.target]; exact htg
              have hnclj : tj.isClosed = false := by rw [← hs.flags j tj b htj hb]; exact hncl
              have hpej : tj.peer = dst := by
                have h1 := rj.ip; have h2' := rj.port
                cases hpj : tj.peer with
                | mk i po =>
                  cases dst with
                  | mk i' po' =>
                    rw [hpj] at h1 h2'
                    simp only at h1 h2' hip hport
                    rw [← h1, ← h2', hip, hport]
              cases hphj : tj.phase with
              | closed => rw [isClosed_iff.2 hphj] at hnclj; cases hnclj
              | pending d =>
                have := ((h2.tcp j tj htj).fresh d hphj).1
                rw [hpcj] at this; cases this
              | attached q =>
                have := hi.phase j tj htj
                simp only [PhaseOk, hphj] at this
                obtain ⟨e, pc2, hp2, _, hm2⟩ := this
                rw [hpcj] at e; cases e
                rw [hp] at hp2; cases hp2
                rw [hpej] at hm2
                exact nodup_fst_unique (hi.pc hd.pc pc hp).2.1 hm2 (lookupConn_some_mem hl)
          unfold bookWrite
          rw [hmh]
          simp only
          rw [htgt]
          have hres : (obsOf s.tcps (setTcp s k (addOut pid len)) (oresOf (.write h dst pid len) (.wrote len))).res =
              .wrote (some len) := rfl
          have houts : (obsOf s.tcps (setTcp s k (addOut pid len)) (oresOf (.write h dst pid len) (.wrote len))).outs =
              [(k, showId pid len)] := newReplies_single s k pid len t ht
          rw [hres, houts]
          simp only [ne_eq, not_true_eq_false, if_false]
          have hwant : showId pid len = (if len < 4 then "-" else toString pid) := rfl
          rw [hwant]
          simp only [not_true_eq_false, if_false]
          -- the relation is untouched: only `out` changed
          have htcs : ∀ j : Nat, (setTcp s k (addOut pid len)).tcps[j]? = (s.tcps[j]?).map (fun a => if k = j then addOut pid len a else a) :=
            fun j => getElem?_modify_map ..
          have q : Quiet s (setTcp s k (addOut pid len)) := by
            apply quiet_of_pointwise s (setTcp s k (addOut pid len)) (fun j a => if k = j then addOut pid len a else a)
              (fun _ pc => pc) rfl rfl rfl htcs (fun _ => map_id_pointwise _)
            · intro j tj _
              split
              · exact ⟨⟨rfl, rfl, rfl, rfl, rfl, rfl, Or.inl rfl, ⟨[], rfl⟩, fun _ hb => Or.inl hb⟩,
                  fun hcl p hp' => by rw [show (addOut pid len tj).phase = tj.phase from rfl] at hcl; rw [hcl] at hp'; cases hp'⟩
              · exact ⟨TcpQ.refl tj, fun hcl p hp' => by rw [hcl] at hp'; cases hp'⟩
            · intro q pc _; exact ⟨fun h => h, [], by simp, by simp⟩
          obtain ⟨hu, hn⟩ := quiet_step q (RLSame.refl s) hi h2 hs.u hs.nread
          have hm : reread m (setTcp s k (addOut pid len)) = m := mon_reread hs.u.pcs hs.u.handles hs.u.now
          unfold reread at hm
          rw [hm] at hu hn
          apply bookOK_mk rfl hu hn hi'
          · exact old_of_flags hs.flags hs.u.len hext closed_same
          · rfl
          · intro hf; cases hf

end IceProofs.TcpMux
