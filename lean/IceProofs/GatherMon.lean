import IceModel.Gather
import IceProofs.GatherPark
/-!
Frame lemmas for the monitor of continual gathering (`monTick`, `monKick`, `tickDue`, `advanceTo`): what they
leave alone (configuration, the virtual clock), and the deadlines of the units they start — a unit started at
virtual time `t` times out strictly after `t`.  Used by `IceProps/C09.lean`.
-/
namespace IceProofs.GatherMon
open IceModel.Gather IceProofs.GatherAgent IceProofs.GatherPark

/-! ### the clock and the configuration are only moved by the operations themselves -/

/-- what the gatherers and the monitor never touch -/
structure Fr (s s' : MState) : Prop where
  now : s'.now = s.now
  cfg : s'.cfg = s.cfg

theorem Fr.refl (s : MState) : Fr s s := ⟨rfl, rfl⟩

theorem Fr.trans {a b c : MState} (h1 : Fr a b) (h2 : Fr b c) : Fr a c :=
  ⟨h2.now.trans h1.now, h2.cfg.trans h1.cfg⟩

/-- a step from a state that differs from `s` only in fields the frame does not mention -/
theorem fr_of {s s1 s2 : MState} (h : Fr s1 s2) (hn : s1.now = s.now) (hc : s1.cfg = s.cfg) : Fr s s2 :=
  ⟨h.now.trans hn, h.cfg.trans hc⟩

theorem exec_fr (p : Prog) : ∀ (s : MState) (j : Job), Fr s (exec s j p).1 := by
  induction p with
  | ret => intro s j; exact Fr.refl s
  | acquire l k a b iha ihb =>
    intro s j; simp only [exec]; split
    · exact Fr.refl s
    · exact ihb _ _
    · exact fr_of (iha _ _) rfl rfl
  | step l a b iha ihb =>
    intro s j; simp only [exec]; split
    · exact Fr.refl s
    · exact iha _ _
    · exact ihb _ _
  | release i n ih => intro s j; simp only [exec]; exact fr_of (ih _ _) rfl rfl
  | addCand ci is st fl ihs ihf =>
    intro s j; simp only [exec]; split
    · exact ihf _ _
    · split
      · exact fr_of (ihs _ _) rfl rfl
      · exact fr_of (ihs _ _) rfl rfl

theorem settle_fr (p : MState × Job) : Fr p.1 (settle p) := by
  unfold settle; split <;> exact ⟨rfl, rfl⟩

theorem startUnit_fr (s : MState) (c gen : Nat) (u : GUnit) : Fr s (startUnit s c gen u) := by
  unfold startUnit
  exact (exec_fr _ _ _).trans (settle_fr _)

theorem foldl_fr {α : Type} (f : MState → α → MState) (hf : ∀ s a, Fr s (f s a)) :
    ∀ (l : List α) (s : MState), Fr s (l.foldl f s) := by
  intro l
  induction l with
  | nil => intro s; exact Fr.refl s
  | cons a l ih => intro s; exact (hf s a).trans (ih _)

theorem runHostMux_fr (c gen : Nat) : ∀ (us : List GUnit) (seen : List CandD) (s : MState),
    Fr s (runHostMux s c gen us seen) := by
  intro us
  induction us with
  | nil => intro seen s; simpa [runHostMux] using Fr.refl s
  | cons u us ih =>
    intro seen s
    simp only [runHostMux]
    split
    · exact ih _ _
    · exact (startUnit_fr s c gen u).trans (ih _ _)

theorem runHost_fr (s : MState) (c gen : Nat) : Fr s (runHost s c gen) := by
  unfold runHost
  exact (runHostMux_fr c gen _ _ s).trans (foldl_fr _ (fun s u => startUnit_fr s c gen u) _ _)

theorem runCycleUnits_fr (s : MState) (c gen : Nat) : Fr s (runCycleUnits s c gen) := by
  unfold runCycleUnits
  apply foldl_fr
  intro s t
  cases t with
  | host => simp only; split; exact ⟨rfl, rfl⟩; exact runHost_fr _ _ _
  | srflx => exact foldl_fr _ (fun s u => startUnit_fr s c gen u) _ _
  | relay => exact foldl_fr _ (fun s u => startUnit_fr s c gen u) _ _

theorem resume_fr (s : MState) (pick : Job → Option (Ans × Nat)) : Fr s (resume s pick) := by
  unfold resume
  have key : ∀ (todo : List Job) (s0 : MState), Fr s0 (todo.foldl (fun s j =>
      match pick j with
      | none => s
      | some (a, m) => settle (exec s { j with answer := some a, m := m } j.prog)) s0) := by
    intro todo
    induction todo with
    | nil => intro s0; exact Fr.refl s0
    | cons j todo ih =>
      intro s0
      simp only [List.foldl_cons]
      refine Fr.trans ?_ (ih _)
      cases pick j with
      | none => exact Fr.refl s0
      | some am => obtain ⟨a, m⟩ := am; exact (exec_fr _ _ _).trans (settle_fr _)
  exact fr_of (key _ _) rfl rfl

theorem finishCycle_fr (s : MState) : Fr s (finishCycle s) := by
  unfold finishCycle
  split
  · exact Fr.refl s
  · split
    · exact Fr.refl s
    · split
      · exact Fr.refl s
      · unfold startMonitorIf; split <;> exact ⟨rfl, rfl⟩

theorem monPass_fr (s : MState) (m : Mon) (c gen : Nat) : Fr s (monPass s m c gen) := by
  unfold monPass
  split
  · have := runCycleUnits_fr (detect s).1 c gen
    exact ⟨this.now, this.cfg⟩
  · exact ⟨rfl, rfl⟩

theorem monTick_fr (s : MState) (m : Mon) : Fr s (monTick s m) := by
  unfold monTick
  split
  · exact fr_of (monPass_fr _ _ _ _) rfl rfl
  · exact ⟨rfl, rfl⟩

theorem monKick_fr (s : MState) : Fr s (monKick s) := by
  unfold monKick
  split
  · exact Fr.refl s
  · split
    · exact Fr.refl s
    · split
      · exact fr_of (monTick_fr _ _) rfl rfl
      · exact ⟨rfl, rfl⟩

theorem tickDue_fr (s : MState) : Fr s (tickDue s) := by
  unfold tickDue
  split
  · exact Fr.refl s
  · split
    · exact Fr.refl s
    · split
      · exact ⟨rfl, rfl⟩
      · exact fr_of (monTick_fr _ _) rfl rfl

theorem expire_fr (s : MState) : Fr s (expire s) := by
  unfold expire
  exact ((resume_fr _ _).trans (finishCycle_fr _)).trans (monKick_fr _)

theorem openGate_fr (s : MState) : Fr s (openGate s) := by
  unfold openGate
  refine Fr.trans (Fr.trans ?_ (finishCycle_fr _)) (monKick_fr _)
  exact fr_of (foldl_fr _ (fun s c => runHost_fr s c _) _ _) rfl rfl

/-! ### units are started with a deadline after the current instant -/

/-- every parked unit that is not one of `old` times out strictly after `t` -/
def Late (old : List Job) (t : Nat) (s : MState) : Prop := ∀ j ∈ s.jobs, j ∈ old ∨ t < j.deadline

theorem late_of_jobs {old : List Job} {t : Nat} {s s' : MState} (h : Late old t s) (hj : s'.jobs = s.jobs) : Late old t s' := by
  intro j hx; rw [hj] at hx; exact h j hx

theorem exec_deadline (p : Prog) : ∀ (s : MState) (j : Job), (exec s j p).2.deadline = j.deadline := by
  have take_dl : ∀ (j : Job) (i : Nat) (to : SlotSt), (j.take i to).1.deadline = j.deadline := by
    intro j i to; unfold Job.take; split <;> rfl
  have takeAll_dl : ∀ (is : List Nat) (to : SlotSt) (p : Job × List Res),
      (is.foldl (fun (p : Job × List Res) i => ((p.1.take i to).1, p.2 ++ (p.1.take i to).2)) p).1.deadline = p.1.deadline := by
    intro is to
    induction is with
    | nil => intro p; rfl
    | cons i is ih => intro p; simp only [List.foldl_cons]; rw [ih]; exact take_dl _ _ _
  induction p with
  | ret => intro s j; rfl
  | acquire l k a b iha ihb =>
    intro s j; simp only [exec]; split
    · rfl
    · rw [ihb]
    · rw [iha]
  | step l a b iha ihb =>
    intro s j; simp only [exec]; split
    · rfl
    · rw [iha]
    · rw [ihb]
  | release i n ih => intro s j; simp only [exec]; rw [ih]; exact take_dl _ _ _
  | addCand ci is st fl ihs ihf =>
    intro s j; simp only [exec]; split
    · rw [ihf]
    · split
      · rw [ihs]; exact takeAll_dl is _ (j, [])
      · rw [ihs]; exact takeAll_dl is _ (j, [])

theorem settle_late {old : List Job} {t : Nat} {s : MState} {j : Job} (h : Late old t s) (hd : t < j.deadline) :
    Late old t (settle (s, j)) := by
  unfold settle
  split
  · exact h
  · intro x hx
    simp only [List.mem_append, List.mem_singleton] at hx
    rcases hx with hx | hx
    · exact h x hx
    · right; subst hx; exact hd

theorem startUnit_late {old : List Job} {t : Nat} {s : MState} (h : Late old t s) (hn : s.now = t) (c gen : Nat) (u : GUnit) :
    Late old t (startUnit s c gen u) := by
  unfold startUnit
  apply settle_late
  · intro j hj; rw [exec_jobs] at hj; exact h j hj
  · rw [exec_deadline]
    simp only [stunTimeoutMs, turnTimeoutMs]
    split <;> omega

theorem foldl_late {α : Type} {old : List Job} {t : Nat} (f : MState → α → MState)
    (hf : ∀ s a, Late old t s → s.now = t → Late old t (f s a) ∧ (f s a).now = t) :
    ∀ (l : List α) (s : MState), Late old t s → s.now = t → Late old t (l.foldl f s) ∧ (l.foldl f s).now = t := by
  intro l
  induction l with
  | nil => intro s h hn; exact ⟨h, hn⟩
  | cons a l ih => intro s h hn; exact ih _ (hf s a h hn).1 (hf s a h hn).2

theorem runHostMux_late {old : List Job} {t : Nat} (c gen : Nat) : ∀ (us : List GUnit) (seen : List CandD) (s : MState),
    Late old t s → s.now = t → Late old t (runHostMux s c gen us seen) ∧ (runHostMux s c gen us seen).now = t := by
  intro us
  induction us with
  | nil => intro seen s h hn; simpa [runHostMux] using And.intro h hn
  | cons u us ih =>
    intro seen s h hn
    simp only [runHostMux]
    split
    · exact ih _ _ h hn
    · exact ih _ _ (startUnit_late h hn c gen u) ((startUnit_fr s c gen u).now.trans hn)

theorem runHost_late {old : List Job} {t : Nat} {s : MState} (h : Late old t s) (hn : s.now = t) (c gen : Nat) :
    Late old t (runHost s c gen) ∧ (runHost s c gen).now = t := by
  unfold runHost
  have h1 := runHostMux_late c gen (hostMuxUnits s.cfg) [] s h hn
  exact foldl_late _ (fun s u hs hsn => ⟨startUnit_late hs hsn c gen u, (startUnit_fr s c gen u).now.trans hsn⟩) _ _ h1.1 h1.2

theorem runCycleUnits_late {old : List Job} {t : Nat} {s : MState} (h : Late old t s) (hn : s.now = t) (c gen : Nat) :
    Late old t (runCycleUnits s c gen) ∧ (runCycleUnits s c gen).now = t := by
  unfold runCycleUnits
  apply foldl_late _ _ _ _ h hn
  intro s ty hs hsn
  cases ty with
  | host =>
    simp only
    split
    · exact ⟨late_of_jobs hs rfl, hsn⟩
    · exact runHost_late hs hsn c gen
  | srflx =>
    exact foldl_late _ (fun s u hs hsn => ⟨startUnit_late hs hsn c gen u, (startUnit_fr s c gen u).now.trans hsn⟩) _ _ hs hsn
  | relay =>
    exact foldl_late _ (fun s u hs hsn => ⟨startUnit_late hs hsn c gen u, (startUnit_fr s c gen u).now.trans hsn⟩) _ _ hs hsn

theorem monPass_late {old : List Job} {t : Nat} {s : MState} (h : Late old t s) (hn : s.now = t) (m : Mon) (c gen : Nat) :
    Late old t (monPass s m c gen) := by
  unfold monPass
  split
  · exact late_of_jobs (runCycleUnits_late (s := (detect s).1) (late_of_jobs h rfl) hn c gen).1 rfl
  · exact late_of_jobs h rfl

theorem monTick_late {old : List Job} {t : Nat} {s : MState} (h : Late old t s) (hn : s.now = t) (m : Mon) :
    Late old t (monTick s m) := by
  unfold monTick
  split
  · exact monPass_late (s := { s with cyc := (Cycle.step false s.cyc (.tick m.cyc)).1 }) (late_of_jobs h rfl) hn _ _ _
  · exact late_of_jobs h rfl

theorem monKick_late {old : List Job} {t : Nat} {s : MState} (h : Late old t s) (hn : s.now = t) : Late old t (monKick s) := by
  unfold monKick
  split
  · exact h
  · split
    · exact h
    · split
      · rename_i m _ _ _
        exact monTick_late (s := { s with mon := some { m with busy := false, buffered := false } }) (late_of_jobs h rfl) hn _
      · exact late_of_jobs h rfl

theorem tickDue_late {old : List Job} {t : Nat} {s : MState} (h : Late old t s) (hn : s.now = t) : Late old t (tickDue s) := by
  unfold tickDue
  split
  · exact h
  · split
    · exact h
    · split
      · exact late_of_jobs h rfl
      · rename_i m _ _ _
        exact monTick_late (s := { s with mon := some (m.after s.cfg.monInterval s.now) }) (late_of_jobs h rfl) hn _

/-- when the clock has reached `t` (`expire`): every unit whose timeout has come has returned, and whatever the
monitor started at that instant times out later -/
theorem expire_late {s : MState} (hp : Parked s) : Late [] s.now (expire s) := by
  unfold expire
  apply monKick_late _ ((resume_fr _ _).trans (finishCycle_fr _)).now
  intro j hj
  rw [finishCycle_jobs, resume_jobs hp] at hj
  simp only [List.mem_filter] at hj
  right
  have := hj.2
  split at this
  · simp at this
  · omega

theorem atTime_late {s : MState} (hp : Parked s) (t : Nat) : Late [] (max s.now t) (atTime s t) := by
  unfold atTime
  have h1 := expire_late (s := { s with now := max s.now t }) (parked_of_jobs hp rfl)
  exact tickDue_late h1 (expire_fr _).now

/-- after the clock has been advanced to `t`, every parked unit times out strictly after `t` -/
theorem advTo_late {s : MState} (hp : Parked s) (t : Nat) (ht : s.now ≤ t) : ∀ j ∈ (advTo s t).jobs, t < j.deadline := by
  have loop_now : ∀ (fuel : Nat) (s : MState), s.now ≤ t → (advLoop fuel s t).now ≤ t := by
    intro fuel
    induction fuel with
    | zero => intro s h; exact h
    | succ n ih =>
      intro s h
      simp only [advLoop]
      cases hne : nextEvent s t with
      | none => exact h
      | some e =>
        simp only
        apply ih
        have hlt : e < t := by
          -- the chosen instant lies strictly before the target
          unfold nextEvent at hne
          have key : ∀ (l : List Nat) (acc : Option Nat), (∀ x ∈ l, x < t) → (∀ a, acc = some a → a < t) →
              ∀ r, l.foldl (fun acc t => match acc with | none => some t | some a => some (min a t)) acc = some r → r < t := by
            intro l
            induction l with
            | nil => intro acc _ hacc r hr; exact hacc r hr
            | cons x l ihl =>
              intro acc hl hacc r hr
              simp only [List.foldl_cons] at hr
              refine ihl _ (fun y hy => hl y (by simp [hy])) ?_ r hr
              intro a ha
              cases acc with
              | none => simp only [Option.some.injEq] at ha; subst ha; exact hl x (by simp)
              | some b =>
                simp only [Option.some.injEq] at ha; subst ha
                have := hacc b rfl
                omega
          exact key _ none (fun x hx => by simpa using (List.mem_filter.1 hx).2) (by intro a ha; cases ha) e hne
        have hfr : (atTime s e).now = max s.now e := by
          unfold atTime
          exact ((expire_fr _).trans (tickDue_fr _)).now
        rw [hfr]; omega
  unfold advTo
  split
  · unfold advanceTo
    intro j hj
    have hl := advLoop_parked (t - s.now + 1) hp t
    have := atTime_late hl t j hj
    have hn := loop_now (t - s.now + 1) s ht
    rcases this with h | h
    · simp at h
    · omega
  · intro j hj
    have := expire_late (s := { s with now := t }) (parked_of_jobs hp rfl) j hj
    rcases this with h | h
    · simp at h
    · exact h

end IceProofs.GatherMon
