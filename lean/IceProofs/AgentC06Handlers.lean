import IceProofs.AgentC06Struct
/-!
# C06 — the non-wiping handlers are evolutions (`Evo`), possibly around one guarded `addPair`
-/
namespace IceProofs.AgentC06
open IceModel.AgentCore

/-! ## lookups -/

theorem findCand_some {l : List Cand} {u : Nat} {c : Cand} (h : findCand l u = some c) : c ∈ l ∧ c.uid = u := by
  unfold findCand at h
  exact ⟨List.mem_of_find?_eq_some h, by simpa using List.find?_some h⟩

theorem localOf_some {a : Agent} {u : Nat} {c : Cand} (h : a.localOf u = some c) :
    c ∈ a.locals ∧ c.uid = u := findCand_some h

theorem remoteOf_some {a : Agent} {u : Nat} {c : Cand} (h : a.remoteOf u = some c) :
    c ∈ a.remotes ∧ c.uid = u := findCand_some h

theorem mem_lcsOf {a : Agent} {c : Cand} (h : c ∈ a.locals) : core c ∈ lcsOf a := List.mem_map_of_mem h
theorem mem_rcsOf {a : Agent} {c : Cand} (h : c ∈ a.remotes) : core c ∈ rcsOf a := List.mem_map_of_mem h

theorem pairById_some {a : Agent} {id : Nat} {p : Pair} (h : a.pairById id = some p) :
    p ∈ a.checklist ∧ p.id = id := by
  unfold Agent.pairById at h
  exact ⟨List.mem_of_find?_eq_some h, by simpa using List.find?_some h⟩

theorem pairById_some_ids {a : Agent} {id : Nat} {p : Pair} (h : a.pairById id = some p) : id ∈ idsOf a :=
  mem_ids_iff.2 ⟨p, pairById_some h⟩

theorem findPair_some_mem {a : Agent} {l r : Cand} {p : Pair} (h : a.findPair l r = some p) :
    p ∈ a.checklist := List.mem_of_find?_eq_some h

theorem findPair_some_ids {a : Agent} {l r : Cand} {p : Pair} (h : a.findPair l r = some p) :
    p.id ∈ idsOf a := mem_ids_iff.2 ⟨p, findPair_some_mem h, rfl⟩

theorem bestBy_mem {a : Agent} {ok : Pair → Bool} {p : Pair} (h : a.bestBy ok = some p) : p ∈ a.checklist := by
  unfold Agent.bestBy at h
  have := foldl_inv_mem (fun (b : Option Pair) => ∀ p, b = some p → p ∈ a.checklist)
    (fun best p => if !ok p then best else
      match best with
      | none => some p
      | some b => if a.pairPrio b < a.pairPrio p then some p else some b) a.checklist none (by simp)
    (by
      intro b x hx hb q hq
      split at hq
      · exact hb q hq
      · split at hq
        · simp at hq; exact hq ▸ hx
        · split at hq
          · simp at hq; exact hq ▸ hx
          · exact hb q hq)
  exact this p h

theorem findRemote_some {a : Agent} {net addr : Nat} {r : Cand} (h : a.findRemote net addr = some r) :
    r ∈ a.remotes ∧ r.net = net ∧ r.addr = addr := by
  unfold Agent.findRemote at h
  refine ⟨List.mem_of_find?_eq_some h, ?_⟩
  simpa using List.find?_some h

theorem localByAddr_some {a : Agent} {addr : Nat} {l : Cand} (h : a.localByAddr addr = some l) :
    l ∈ a.locals ∧ l.addr = addr := by
  unfold Agent.localByAddr at h
  exact ⟨List.mem_of_find?_eq_some h, by simpa using List.find?_some h⟩

theorem idsOf_modPair (a : Agent) (id : Nat) (f : Pair → Pair) (h : ∀ p, (f p).id = p.id) :
    idsOf (a.modPair id f) = idsOf a := by
  simp only [idsOf, Agent.modPair]
  exact updPair_map (·.id) _ _ _ h

/-! ## right-peeling lemmas (goal directed: `Evo a (X.helper …)` from `Evo a X`) -/

theorem Evo.r_same {a b c : Agent} (h : Evo a b) (s : Same b c) : Evo a c := h.trans s.evo

theorem Evo.r_modPair {a b : Agent} (h : Evo a b) (id : Nat) (f : Pair → Pair)
    (hk : ∀ p, key (f p) = key p := by intro _; rfl)
    (hn : ∀ p, p.nominated = true → (f p).nominated = true := by intro _ h; first | exact h | rfl) :
    Evo a (b.modPair id f) :=
  h.trans (Evo.modPair b id f hk hn)

theorem Evo.r_select {a b : Agent} (h : Evo a b) (id : Nat) (hid : id ∈ idsOf a) : Evo a (b.select id).1 :=
  h.trans (Evo.select b id (h.ids ▸ hid))

theorem Evo.r_setNominated {a b : Agent} (h : Evo a b) (id : Nat) (hid : id ∈ idsOf a) :
    Evo a { b with nominatedPair := some id } :=
  h.trans (Evo.setNominatedPair b id (h.ids ▸ hid))

/-- recording the answered renomination value touches nothing the bookkeeping view reads -/
theorem Same.answered (a : Agent) (v : Option Nat) : Same a { a with answeredNomination := v } := rfl

/-- peel helper applications off the right-hand agent until a hypothesis closes the goal;
side goals `id ∈ idsOf a` are closed by `assumption` -/
macro "evo_auto" : tactic => `(tactic| repeat (first
  | assumption
  | exact Evo.refl _
  | refine Evo.r_modPair ?_ _ _
  | refine Evo.r_select ?_ _ ?_
  | refine Evo.r_setNominated ?_ _ ?_
  | refine Evo.r_same ?_ (Same.sendSuccess _ _ _ _ _)
  | refine Evo.r_same ?_ (Same.sendRequest _ _ _ _ _ _)
  | refine Evo.r_same ?_ (Same.ping _ _ _ _)
  | refine Evo.r_same ?_ (Same.nominate _ _ _)
  | refine Evo.r_same ?_ (Same.keepalive _ _)
  | refine Evo.r_same ?_ (Same.pingAll _ _)
  | refine Evo.r_same ?_ (Same.seenLocalSent _ _ _)
  | refine Evo.r_same ?_ (Same.seenRemoteRecv _ _ _)
  | refine Evo.r_same ?_ (Same.takePending _ _ _)
  | refine Evo.r_same ?_ (Same.answered _ _)))

/-! ## `handleSuccess` -/

theorem Evo.handleSuccess (a : Agent) (now : Nat) (m : Msg) (l r : Cand) (src : Nat) :
    Evo a (a.handleSuccess now m l r src).1 := by
  unfold Agent.handleSuccess
  have e0 : Evo a (a.takePending now m.tid).1 := (Same.takePending a now m.tid).evo
  generalize (a.takePending now m.tid) = tp at e0
  obtain ⟨b, pend⟩ := tp
  simp only [] at e0 ⊢
  split
  · exact e0
  · split
    · exact e0
    · split
      · exact e0
      · rename_i p hp
        have hid : p.id ∈ idsOf a := e0.ids ▸ findPair_some_ids hp
        refine Evo.r_modPair ?_ _ _
        repeat' split
        all_goals evo_auto

/-! ## `findPair = none` means no pair with these two candidate identities -/

theorem equal_self (c : Cand) : c.equal c = true := by
  simp [Cand.equal, Cand.taEqual]

theorem StructOK.lcNodup {ks lc rc ca nu np bl cl} (h : StructOK ks lc rc ca nu np bl cl) :
    (lc.map (·.uid)).Nodup := by
  have := h.uidsNodup
  rw [List.map_append, List.nodup_append] at this
  exact this.1

theorem StructOK.rcNodup {ks lc rc ca nu np bl cl} (h : StructOK ks lc rc ca nu np bl cl) :
    (rc.map (·.uid)).Nodup := by
  have := h.uidsNodup
  rw [List.map_append, List.nodup_append] at this
  exact this.2.1

/-- looking a current candidate up by its uid finds a candidate with the same core -/
theorem findCand_of_core_mem {l : List Cand} (hn : ((l.map core).map (·.uid)).Nodup) {c : Cand}
    (hc : core c ∈ l.map core) : ∃ c0, findCand l c.uid = some c0 ∧ core c0 = core c := by
  obtain ⟨c1, hc1, he⟩ := List.mem_map.1 hc
  have hu : c1.uid = c.uid := by have := congrArg Cand.uid he; simpa using this
  cases hf : findCand l c.uid with
  | none =>
    unfold findCand at hf
    have := List.find?_eq_none.1 hf c1 hc1
    simp [hu] at this
  | some c0 =>
    obtain ⟨h0, h0u⟩ := findCand_some hf
    refine ⟨c0, rfl, ?_⟩
    have : core c0 = core c1 :=
      uid_inj hn (List.mem_map_of_mem h0) (List.mem_map_of_mem hc1) (by simp [h0u, hu])
    rw [this, he]

theorem findPair_none_fresh {a : Agent} (hs : InvS a) {l r : Cand} (hl : core l ∈ lcsOf a)
    (hr : core r ∈ rcsOf a) (hf : a.findPair l r = none) : (l.uid, r.uid) ∉ (keysOf a).map (·.2) := by
  intro hm
  obtain ⟨k, hk, hk2⟩ := List.mem_map.1 hm
  obtain ⟨p, hp, rfl⟩ := List.mem_map.1 hk
  have hpl : p.l = l.uid := by have := congrArg Prod.fst hk2; simpa using this
  have hpr : p.r = r.uid := by have := congrArg Prod.snd hk2; simpa using this
  obtain ⟨l0, hl0, hl0c⟩ := findCand_of_core_mem hs.lcNodup hl
  obtain ⟨r0, hr0, hr0c⟩ := findCand_of_core_mem hs.rcNodup hr
  unfold Agent.findPair at hf
  have := List.find?_eq_none.1 hf p hp
  simp only [Agent.localOf, Agent.remoteOf, hpl, hpr, hl0, hr0] at this
  have e1 : l0.equal l = true := by
    rw [← core_equal, hl0c, core_equal]; exact equal_self l
  have e2 : r0.equal r = true := by
    rw [← core_equal, hr0c, core_equal]; exact equal_self r
  simp [e1, e2] at this

/-! ## binding requests: `Evo ; (one guarded addPair)? ; Evo` -/

/-- nothing, or one `addPair` of two current candidates of the same network type that `findPair` does not know -/
inductive AddP (a : Agent) : Agent → Prop
  | none : AddP a a
  | add (l r : Cand) (hl : core l ∈ lcsOf a) (hr : core r ∈ rcsOf a) (hn : l.net = r.net)
      (hfresh : (l.uid, r.uid) ∉ (keysOf a).map (·.2)) : AddP a (a.addPair l r).1

def Hand (a a' : Agent) : Prop := ∃ a1 a2, Evo a a1 ∧ AddP a1 a2 ∧ Evo a2 a'

theorem Evo.hand {a a' : Agent} (h : Evo a a') : Hand a a' := ⟨a, a, Evo.refl a, .none, h⟩

theorem Hand.r_evo {a b c : Agent} (h : Hand a b) (e : Evo b c) : Hand a c := by
  obtain ⟨a1, a2, h1, h2, h3⟩ := h
  exact ⟨a1, a2, h1, h2, h3.trans e⟩

theorem Hand.l_evo {a b c : Agent} (e : Evo a b) (h : Hand b c) : Hand a c := by
  obtain ⟨a1, a2, h1, h2, h3⟩ := h
  exact ⟨a1, a2, e.trans h1, h2, h3⟩

theorem Inv.addP {a a' : Agent} (h : Inv a) (p : AddP a a') : Inv a' := by
  cases p with
  | none => exact h
  | add l r hl hr hn _ => exact h.addPair l r hl hr hn

theorem Inv.hand {a a' : Agent} (h : Inv a) (p : Hand a a') : Inv a' := by
  obtain ⟨a1, a2, h1, h2, h3⟩ := p
  exact ((h.evo h1).addP h2).evo h3

theorem AddP.lcs {a a' : Agent} (p : AddP a a') : lcsOf a' = lcsOf a := by
  cases p <;> rfl

theorem AddP.rcs {a a' : Agent} (p : AddP a a') : rcsOf a' = rcsOf a := by
  cases p <;> rfl

/-- any number of such `addPair`s -/
inductive AddPs (a : Agent) : Agent → Prop
  | refl : AddPs a a
  | step {b c : Agent} (h : AddPs a b) (p : AddP b c) : AddPs a c

theorem AddPs.lcs {a a' : Agent} (p : AddPs a a') : lcsOf a' = lcsOf a := by
  induction p with
  | refl => rfl
  | step _ p ih => rw [p.lcs, ih]

theorem AddPs.rcs {a a' : Agent} (p : AddPs a a') : rcsOf a' = rcsOf a := by
  induction p with
  | refl => rfl
  | step _ p ih => rw [p.rcs, ih]

theorem Inv.addPs {a a' : Agent} (h : Inv a) (p : AddPs a a') : Inv a' := by
  induction p with
  | refl => exact h
  | step _ p ih => exact ih.addP p

/-! ### `controlledSelector.HandleBindingRequest`, cut into blocks -/

def cldPre (a : Agent) (l r : Cand) : Agent × Pair :=
  match a.findPair l r with
  | some p => (a, p)
  | none => a.addPair l r

def cldAccept (a : Agent) (m : Msg) : Agent × Bool :=
  if !(m.useCand || m.nom.isSome) then (a, true) else
  match m.nom with
  | none => (a, true)
  | some v =>
    match a.lastNomination with
    | none => ({ a with lastNomination := some v }, true)
    | some last => if v > last then ({ a with lastNomination := some v }, true) else (a, false)

def cldNom (a : Agent) (id : Nat) (m : Msg) : Agent × List Out :=
  if m.useCand || m.nom.isSome then
    let a := if a.cfg.lite then a.modPair id fun p => { p with state := .succeeded } else a
    match a.pairById id with
    | none => (a, [])
    | some p =>
      if p.state == .succeeded then
        let sw := match a.selected.bind a.pairById with
          | none => true
          | some sp =>
            if sp.id == id then false
            else if m.nom.isSome then true
            else if a.lastNomination.isSome then false
            else !needsPrioCheck a.cfg || a.pairPrio sp < a.pairPrio p
        if sw then a.select id else (a, [])
      else if m.nom.isSome || p.deferredNom.isNone then
        (a.modPair id fun p => { p with nomOnSuccess := true, deferredNom := m.nom }, [])
      else (a, [])
  else (a, [])

def cldTrig (a : Agent) (now id : Nat) (l r : Cand) : Agent × List Out :=
  match a.pairById id with
  | some p =>
    if !a.cfg.lite && (p.state != .succeeded || a.selected.isNone) then a.ping now l r else (a, [])
  | none => (a, [])

theorem cld_fst (a : Agent) (now : Nat) (m : Msg) (l r : Cand) :
    (a.cldHandleRequest now m l r).1 =
      (let pre := cldPre a l r
       let id := pre.2.id
       let a1 := pre.1.modPair id fun p =>
         { p with reqRecv := p.reqRecv + 1, gReq := true, gNomReq := p.gNomReq || m.useCand || m.nom.isSome }
       let acc := cldAccept a1 m
       if (m.useCand || m.nom.isSome) && !acc.2 then acc.1.sendSuccess now m l r
       else
         let n := cldNom acc.1 id m
         let s := n.1.sendSuccess now m l r
         let t := cldTrig s.1 now id l r
         (t.1, n.2 ++ s.2 ++ t.2)).1 := rfl

theorem Evo.cldAccept (a : Agent) (m : Msg) : Evo a (cldAccept a m).1 := by
  unfold AgentC06.cldAccept
  repeat' split
  all_goals first | exact Evo.refl _ | exact Same.evo rfl

theorem Evo.cldNom (a : Agent) (id : Nat) (m : Msg) : Evo a (cldNom a id m).1 := by
  unfold AgentC06.cldNom
  split
  · extract_lets b
    have eb : Evo a b := by
      simp only [b]; split <;> evo_auto
    clear_value b
    split
    · exact eb
    · rename_i p hp
      have hid : id ∈ idsOf a := eb.ids ▸ pairById_some_ids hp
      repeat' split
      all_goals (try dsimp only)
      all_goals repeat' split
      all_goals evo_auto
  · exact Evo.refl a

theorem Evo.cldTrig (a : Agent) (now id : Nat) (l r : Cand) : Evo a (cldTrig a now id l r).1 := by
  unfold AgentC06.cldTrig
  repeat' split
  all_goals evo_auto

theorem Hand.cldHandleRequest (a : Agent) (hi : Inv a) (now : Nat) (m : Msg) (l r : Cand)
    (hl : core l ∈ lcsOf a) (hr : core r ∈ rcsOf a) (hn : l.net = r.net) :
    Hand a (a.cldHandleRequest now m l r).1 := by
  rw [cld_fst]
  have hp : AddP a (cldPre a l r).1 := by
    unfold cldPre
    split
    · exact .none
    · rename_i hf; exact .add l r hl hr hn (findPair_none_fresh hi.s hl hr hf)
  refine ⟨a, (cldPre a l r).1, Evo.refl a, hp, ?_⟩
  simp only []
  generalize cldPre a l r = pre
  have e1 := Evo.refl pre.1
  have e2 := (e1.r_modPair pre.2.id fun p =>
         { p with reqRecv := p.reqRecv + 1, gReq := true, gNomReq := p.gNomReq || m.useCand || m.nom.isSome })
  have e3 := e2.trans (Evo.cldAccept _ m)
  split
  · evo_auto
  · refine Evo.trans ?_ (Evo.cldTrig _ _ _ _ _)
    refine Evo.r_same ?_ (Same.sendSuccess _ _ _ _ _)
    exact e3.trans (Evo.cldNom _ _ _)

/-! ### `controllingSelector.HandleBindingRequest` -/

def ctlNomTail (a : Agent) (now : Nat) (l r : Cand) (p : Pair) (o : List Out) : Agent × List Out :=
  if p.state == .succeeded && a.nominatedPair.isNone && a.selected.isNone then
    match a.bestAvailable with
    | none => (a, o)
    | some b =>
      let same := match a.localOf b.l, a.remoteOf b.r with
        | some bl, some br => bl.equal l && br.equal r
        | _, _ => false
      if same && a.nominatable now l && a.nominatable now r then
        let a := { a with nominatedPair := some p.id }
        let (a, o') := a.nominate now p
        (a, o ++ o')
      else (a, o)
  else (a, o)

theorem ctl_eq (a : Agent) (now : Nat) (m : Msg) (l r : Cand) :
    a.ctlHandleRequest now m l r =
      (let s := a.sendSuccess now m l r
       match s.1.findPair l r with
       | none =>
         let ap := s.1.addPair l r
         (ap.1.modPair ap.2.id fun p =>
            { p with reqRecv := p.reqRecv + 1, gReq := true, gNomReq := p.gNomReq || m.useCand || m.nom.isSome }, s.2)
       | some p =>
         ctlNomTail (s.1.modPair p.id fun p =>
            { p with reqRecv := p.reqRecv + 1, gReq := true, gNomReq := p.gNomReq || m.useCand || m.nom.isSome })
           now l r p s.2) := rfl

theorem Evo.ctlNomTail (a : Agent) (now : Nat) (l r : Cand) (p : Pair) (o : List Out) (hid : p.id ∈ idsOf a) :
    Evo a (ctlNomTail a now l r p o).1 := by
  unfold AgentC06.ctlNomTail
  repeat' split
  all_goals (try dsimp only)
  all_goals repeat' split
  all_goals evo_auto

theorem Hand.ctlHandleRequest (a : Agent) (hi : Inv a) (now : Nat) (m : Msg) (l r : Cand)
    (hl : core l ∈ lcsOf a) (hr : core r ∈ rcsOf a) (hn : l.net = r.net) :
    Hand a (a.ctlHandleRequest now m l r).1 := by
  rw [ctl_eq]
  have e0 : Evo a (a.sendSuccess now m l r).1 := (Same.sendSuccess a now m l r).evo
  generalize a.sendSuccess now m l r = s at e0
  simp only []
  split
  · rename_i hf
    refine ⟨s.1, (s.1.addPair l r).1, e0, .add l r (e0.lcs ▸ hl) (e0.rcs ▸ hr) hn
      (findPair_none_fresh (hi.evo e0).s (e0.lcs ▸ hl) (e0.rcs ▸ hr) hf), ?_⟩
    evo_auto
  · rename_i p hf
    have hid : p.id ∈ idsOf s.1 := findPair_some_ids hf
    refine Evo.hand (e0.trans ?_)
    refine Evo.trans ?_ (Evo.ctlNomTail _ _ _ _ _ _ ?_)
    · evo_auto
    · rw [idsOf_modPair]
      · exact hid
      · intro _; rfl

end IceProofs.AgentC06
