import IceProofs.TcpMuxCause
/-!
# Every operation preserves the third invariant (`Inv3`) of the TCP-mux model
-/
namespace IceProofs.TcpMux
open IceModel.TcpMux

/-- why a reader loop ends with the connection closed, and what it leaves unread -/
structure DrainCause (inbox : List Item) (d : Drain) : Prop where
  sub : ∀ x, x ∈ d.inbox → x ∈ inbox
  why : d.phase = .closed →
    (∃ f, Item.frame f ∈ inbox ∧ receiveMTU < f.len) ∨ (∃ it, it ∈ inbox ∧ isEnd it = true)

theorem drainFail_inbox (cap k p : Nat) (peer : Addr) (e : ErrKind) (pc : PConn) :
    (drainFail cap k p peer e pc).inbox = [] := by
  unfold drainFail
  simp only
  split
  · split <;> rfl
  · rfl

theorem drain_cause (cap k p : Nat) (peer : Addr) (inbox : List Item) (pc : PConn) :
    DrainCause inbox (drain cap k p peer inbox pc) := by
  induction inbox generalizing pc with
  | nil => unfold drain; exact ⟨by simp, by simp⟩
  | cons it rest ih =>
    cases it with
    | frame f =>
      unfold drain
      split
      · rename_i hbig
        exact ⟨by rw [drainFail_inbox]; simp, fun _ => Or.inl ⟨f, by simp, hbig⟩⟩
      · simp only
        split
        · have h := ih (enqueue pc { src := peer, fid := f.fid, len := f.len, err := none, conn := k })
          refine ⟨fun x hx => List.mem_cons_of_mem _ (h.sub x hx), ?_⟩
          intro hc
          rcases h.why hc with ⟨g, hg, hl⟩ | ⟨it, hit, he⟩
          · exact Or.inl ⟨g, List.mem_cons_of_mem _ hg, hl⟩
          · exact Or.inr ⟨it, List.mem_cons_of_mem _ hit, he⟩
        · exact ⟨fun x hx => List.mem_cons_of_mem _ hx, by simp⟩
    | eof =>
      unfold drain
      exact ⟨by rw [drainFail_inbox]; simp, fun _ => Or.inr ⟨.eof, by simp, rfl⟩⟩
    | reset =>
      unfold drain
      exact ⟨by rw [drainFail_inbox]; simp, fun _ => Or.inr ⟨.reset, by simp, rfl⟩⟩

theorem runReader_inv3 (s : State) (k : Nat) (h3 : Inv3 s) : Inv3 (runReader s k) := by
  unfold runReader
  cases ht : s.tcps[k]? with
  | none => exact h3
  | some t =>
    simp only
    cases hph : t.phase with
    | pending d => exact h3
    | closed => exact h3
    | attached p =>
      cases hrd : t.reader with
      | none => exact h3
      | blocked _ _ => exact h3
      | idle =>
        simp only
        cases hp : s.pcs[p]? with
        | none => exact h3
        | some pc =>
          simp only
          generalize hd : drain s.cfg.cap k p t.peer t.inbox pc = d
          have dok : DrainOk k p t.peer pc d := hd ▸ drain_ok ..
          have dca : DrainCause t.inbox d := hd ▸ drain_cause ..
          let s' : State := { s with
            tcps := s.tcps.modify k (fun t => { t with phase := d.phase, reader := d.reader, inbox := d.inbox }),
            pcs := s.pcs.modify p (fun _ => d.pc) }
          have hpcs : ∀ q, s'.pcs[q]? = (s.pcs[q]?).map (fun qc => if p = q then d.pc else qc) :=
            fun q => getElem?_modify_map ..
          have back : ∀ (q : Nat) (pc' : PConn), s'.pcs[q]? = some pc' → pc'.closed = false →
              ∃ pc0, s.pcs[q]? = some pc0 ∧ pc0.closed = false := by
            intro q pc' hq ho
            rw [hpcs q] at hq
            cases hq0 : s.pcs[q]? with
            | none => simp [hq0] at hq
            | some qc =>
              simp only [hq0, Option.map_some, Option.some.injEq] at hq
              refine ⟨qc, rfl, ?_⟩
              by_cases e : p = q
              · subst e
                rw [if_pos rfl] at hq
                rw [hp] at hq0; cases hq0
                rw [← dok.closed, hq]; exact ho
              · rw [if_neg e] at hq; rw [hq]; exact ho
          show Inv3 s'
          apply inv3_pointwise s s'
            (fun j tj => if k = j then { tj with phase := d.phase, reader := d.reader, inbox := d.inbox } else tj)
            (fun q qc => if p = q then d.pc else qc) (fun j => getElem?_modify_map ..) hpcs _ _ h3
          · intro j tj htj hc
            by_cases e : k = j
            · subst e
              rw [ht] at htj; cases htj
              rw [if_pos rfl]
              constructor
              · intro it hit he; exact hc.ends it (dca.sub it hit) he
              · intro f hf; exact hc.frames f (dca.sub _ hf)
              · intro q qc _ hcl _ _
                simp only at hcl
                rcases dca.why hcl with ⟨f, hf, hl⟩ | ⟨it, hit, he⟩
                · exact Or.inr ⟨f, hc.frames f hf, hl⟩
                · exact Or.inl (hc.ends it hit he)
              · intro dd hdd
                simp only at hdd
                rcases dok.shape with ⟨e1, _⟩ | ⟨e1, _⟩ <;> rw [e1] at hdd <;> cases hdd
            · rw [if_neg e]
              exact hc.transfer (Or.inl rfl) rfl (fun x => x) rfl rfl back (Nat.le_refl _) rfl rfl rfl
          · intro q qc hq hc
            by_cases e : p = q
            · subst e
              rw [hp] at hq; cases hq
              rw [if_pos rfl]
              exact hc.transfer (Or.inl dok.alive) (fun x => by rw [← dok.closed]; exact x) (Nat.le_refl _) rfl rfl rfl
            · rw [if_neg e]
              exact hc.transfer (Or.inl rfl) (fun x => x) (Nat.le_refl _) rfl rfl rfl

theorem appendTcp_inv3 (s : State) (h3 : Inv3 s) (t : Tcp) (ht : TcpC s t) : Inv3 { s with tcps := s.tcps ++ [t] } := by
  constructor
  · intro j tj htj
    simp only at htj
    rw [List.getElem?_append] at htj
    have mk : ∀ x : Tcp, TcpC s x → TcpC { s with tcps := s.tcps ++ [t] } x := fun x hx =>
      ⟨hx.ends, hx.frames, hx.cause, hx.dl⟩
    split at htj
    · exact mk tj (h3.tcp j tj htj)
    · cases hjl : j - s.tcps.length with
      | zero => rw [hjl] at htj; simp at htj; rw [← htj]; exact mk t ht
      | succ n => rw [hjl] at htj; simp at htj
  · intro q qc hq
    have := h3.pc q qc hq
    exact ⟨this.al, this.post⟩

theorem appendPc_inv3 (s : State) (h2 : Inv2 s) (h3 : Inv3 s) (npc : PConn) (hn : PcC s npc) :
    Inv3 { s with pcs := s.pcs ++ [npc] } := by
  constructor
  · intro j tj htj
    have old := h3.tcp j tj htj
    refine ⟨old.ends, old.frames, ?_, old.dl⟩
    intro p pc a b c d
    obtain ⟨pc0, hpc0⟩ := (h2.tcp j tj htj).ref p a
    have : (s.pcs ++ [npc])[p]? = some pc0 := getElem?_append_old _ _ _ _ hpc0
    simp only at c
    rw [this] at c; cases c
    exact old.cause p pc a b hpc0 d
  · intro q qc hq
    simp only at hq
    rw [List.getElem?_append] at hq
    split at hq
    · have := h3.pc q qc hq
      exact ⟨this.al, this.post⟩
    · cases hjl : q - s.pcs.length with
      | zero => rw [hjl] at hq; simp at hq; rw [← hq]; exact ⟨hn.al, hn.post⟩
      | succ n => rw [hjl] at hq; simp at hq

theorem ensurePc_inv3 (s : State) (key : Key) (h2 : Inv2 s) (h3 : Inv3 s)
    (hb : s.muxClosed = true → s.now ≤ s.closedAt + effTimeout s.cfg.t1) : Inv3 (ensurePc s key).1 := by
  unfold ensurePc
  split
  · exact h3
  · apply appendPc_inv3 s h2 h3
    constructor
    · intro d hd
      simp only [Option.some.injEq] at hd
      omega
    · intro hm _
      exact ⟨_, rfl, by have := hb hm; omega⟩

theorem ensurePc_flags (s : State) (key : Key) :
    (ensurePc s key).1.muxClosed = s.muxClosed ∧ (ensurePc s key).1.closedAt = s.closedAt ∧
    (ensurePc s key).1.cfg = s.cfg := by
  unfold ensurePc; split <;> exact ⟨rfl, rfl, rfl⟩

/-- a connection without packet connection is closed -/
theorem closeFresh_inv3 (s : State) (h3 : Inv3 s) (k : Nat) (f : Tcp → Tcp)
    (hf : ∀ t, s.tcps[k]? = some t → (f t).inbox = [] ∧ (f t).phase = .closed ∧ (f t).pc = none) :
    Inv3 (setTcp s k f) := by
  apply setTcp_inv3 s k f _ h3
  intro t ht _
  obtain ⟨a, b, c⟩ := hf t ht
  exact TcpC.closedNow a b (Or.inl c)

theorem addConn_inv3 (s : State) (p k : Nat) (t : Tcp) (f : Frame) (h3 : Inv3 s)
    (ht : s.tcps[k]? = some t) (hpc : t.pc = none) : Inv3 (addConn s p k t f) := by
  unfold addConn
  split
  · exact h3
  · split
    · apply closeFresh_inv3 s h3
      intro t' ht'
      rw [ht] at ht'; cases ht'
      exact ⟨rfl, rfl, hpc⟩
    · dsimp only
      apply runReader_inv3
      apply setTcp_inv3
      · intro t' _ _
        constructor
        · intro it hit he
          simp only [List.mem_singleton] at hit
          rw [hit] at he; cases he
        · intro g hg
          simp only [List.mem_singleton, Item.frame.injEq] at hg
          rw [hg]; simp
        · intro q qc _ hcl; simp only at hcl; cases hcl
        · intro d hd; simp only at hd; cases hd
      · exact setPc_inv3 s p _ (fun pc => ⟨rfl, Or.inl rfl⟩) h3

theorem readPc_inv3 (s : State) (p : Nat) (h3 : Inv3 s) : Inv3 (readPc s p).1 := by
  have rd : ∀ (x : State) (k : Nat) (fin : Bool), Inv3 x →
      Inv3 (setTcp x k (fun t => { t with reader := if fin then .none else .idle })) := by
    intro x k fin hx
    apply setTcp_inv3 x k _ _ hx
    intro t _ hc
    exact ⟨hc.ends, hc.frames, hc.cause, hc.dl⟩
  unfold readPc
  split
  · exact h3
  · split
    · rename_i pkt q hq
      dsimp only
      have h1 := setPc_inv3 s p (fun pc => { pc with recvQ := q, readLog := pc.readLog ++ [pkt] })
        (fun pc => ⟨rfl, Or.inl rfl⟩) h3
      split
      · exact h1
      · split
        · apply runReader_inv3
          apply rd
          exact setPc_inv3 _ p _ (fun pc => ⟨rfl, Or.inl rfl⟩) h1
        · exact h1
    · split
      · split
        · dsimp only
          apply runReader_inv3
          apply rd
          exact setPc_inv3 _ p _ (fun pc => ⟨rfl, Or.inl rfl⟩) h3
        · exact h3
      · split <;> exact h3

theorem closePcsWhere_flags (sel : PConn → Bool) (s : State) :
    (closePcsWhere sel s).muxClosed = s.muxClosed ∧ (closePcsWhere sel s).closedAt = s.closedAt ∧
    (closePcsWhere sel s).cfg = s.cfg := by
  have e1 : ∀ (x : State) (y : Nat), (closePc1 x y).muxClosed = x.muxClosed ∧ (closePc1 x y).closedAt = x.closedAt ∧
      (closePc1 x y).cfg = x.cfg := by
    intro x y; unfold closePc1; split
    · exact ⟨rfl, rfl, rfl⟩
    · split <;> exact ⟨rfl, rfl, rfl⟩
  have e2 : ∀ (x : State) (y : Nat), (closePc x y).muxClosed = x.muxClosed ∧ (closePc x y).closedAt = x.closedAt ∧
      (closePc x y).cfg = x.cfg := fun x y => e1 x y
  unfold closePcsWhere
  apply foldl_inv (fun x : State => x.muxClosed = s.muxClosed ∧ x.closedAt = s.closedAt ∧ x.cfg = s.cfg) _ _ _ ⟨rfl, rfl, rfl⟩
  intro b a hb
  split
  · split
    · obtain ⟨x, y, z⟩ := e2 b a
      exact ⟨x.trans hb.1, y.trans hb.2.1, z.trans hb.2.2⟩
    · exact hb
  · exact hb

theorem step_inv3 (s : State) (op : Op) (hi : Inv s) (h2 : Inv2 s) (h3 : Inv3 s) : Inv3 (step s op).1 := by
  cases op with
  | accept peer lip =>
    simp only [step]
    split
    · rename_i hl
      apply appendTcp_inv3 s h3
      constructor
      · intro it hit; cases hit
      · intro f hf; cases hf
      · intro p pc a; cases a
      · intro d hd
        simp only [Phase.pending.injEq] at hd
        refine ⟨by omega, ?_⟩
        intro hm
        rw [hi.lis hm] at hl; cases hl
    · apply appendTcp_inv3 s h3
      exact TcpC.closedNow rfl rfl (Or.inl rfl)
  | frame k f =>
    simp only [step]
    split
    · exact h3
    · rename_i t ht
      split
      · exact h3
      · split
        · exact h3
        · rename_i d hph
          have hfresh := ((h2.tcp k t ht).fresh d hph).1
          split
          · unfold attach
            dsimp only
            apply addConn_inv3 _ _ _ _ _ _ (by rw [ensurePc_tcps]; exact ht) hfresh
            apply ensurePc_inv3 s _ h2 h3
            intro hm
            have h1 := ((h3.tcp k t ht).dl d hph).2 hm
            have h0 := hi.phase k t ht
            simp only [PhaseOk, hph] at h0
            omega
          · apply closeFresh_inv3 s h3
            intro t' ht'
            rw [ht] at ht'; cases ht'
            exact ⟨rfl, rfl, hfresh⟩
        · rename_i q hph
          apply runReader_inv3
          apply setTcp_inv3 s k _ _ h3
          intro t' ht' hc
          rw [ht] at ht'; cases ht'
          constructor
          · intro it hit he
            simp only [List.mem_append, List.mem_singleton] at hit
            rcases hit with hit | hit
            · exact hc.ends it hit he
            · rw [hit] at he; cases he
          · intro g hg
            simp only [List.mem_append, List.mem_singleton, Item.frame.injEq] at hg ⊢
            rcases hg with hg | hg
            · exact Or.inl (hc.frames g hg)
            · exact Or.inr hg
          · intro p pc _ hcl; simp only at hcl; rw [hph] at hcl; cases hcl
          · intro d hd; simp only at hd; rw [hph] at hd; cases hd
  | partialFrame k =>
    simp only [step]
    split
    · exact h3
    · split
      · exact h3
      · apply setTcp_inv3 s k _ _ h3
        intro t _ hc
        exact ⟨hc.ends, hc.frames, hc.cause, hc.dl⟩
  | clientClose k reset =>
    simp only [step]
    split
    · exact h3
    · rename_i t ht
      split
      · exact h3
      · split
        · apply setTcp_inv3 s k _ _ h3
          intro t' _ hc
          exact ⟨fun _ _ _ => rfl, hc.frames, fun _ _ _ _ _ _ => Or.inl rfl, hc.dl⟩
        · rename_i d hph
          apply closeFresh_inv3 s h3
          intro t' ht'
          rw [ht] at ht'; cases ht'
          exact ⟨rfl, rfl, ((h2.tcp k t ht).fresh d hph).1⟩
        · rename_i q hph
          apply runReader_inv3
          apply setTcp_inv3 s k _ _ h3
          intro t' ht' hc
          rw [ht] at ht'; cases ht'
          constructor
          · intro _ _ _; rfl
          · intro g hg
            simp only [List.mem_append, List.mem_singleton] at hg
            rcases hg with hg | hg
            · exact hc.frames g hg
            · cases reset <;> simp at hg
          · intro p pc _ hcl; simp only at hcl; rw [hph] at hcl; cases hcl
          · intro d hd; simp only at hd; rw [hph] at hd; cases hd
  | advance dt =>
    simp only [step]
    have i1 := closePcsWhere_inv (fun pc => aliveExpired (s.now + dt) pc) s hi
    have g1 := closePcsWhere_inv2 (fun pc => aliveExpired (s.now + dt) pc) s hi h2
    have c1 := closePcsWhere_inv3 (fun pc => aliveExpired (s.now + dt) pc) s hi h3
    have hnow := closePcsWhere_now (fun pc => aliveExpired (s.now + dt) pc) s
    generalize closePcsWhere (fun pc => aliveExpired (s.now + dt) pc) s = s1 at i1 g1 c1 hnow
    apply inv3_pointwise s1 { s1 with now := s.now + dt, tcps := s1.tcps.map (expireTcp (s.now + dt)) }
      (fun _ t => expireTcp (s.now + dt) t) (fun _ pc => pc) (fun j => List.getElem?_map) (fun q => map_id_pointwise _) _ _ c1
    · intro j t ht hc
      have back := open_back s1 { s1 with now := s.now + dt, tcps := s1.tcps.map (expireTcp (s.now + dt)) }
        (fun _ pc => pc) (fun q => map_id_pointwise _) (fun _ _ x => x)
      unfold expireTcp
      split
      · rename_i d hph
        split
        · exact TcpC.closedNow rfl rfl (Or.inl ((g1.tcp j t ht).fresh d hph).1)
        · exact hc.transfer (Or.inl rfl) rfl (fun x => x) rfl rfl back (by show s1.now ≤ s.now + dt; omega) rfl rfl rfl
      · exact hc.transfer (Or.inl rfl) rfl (fun x => x) rfl rfl back (by show s1.now ≤ s.now + dt; omega) rfl rfl rfl
    · intro q pc _ hc
      exact hc.transfer (Or.inl rfl) (fun x => x) (by show s1.now ≤ s.now + dt; omega) rfl rfl rfl
  | getConn key =>
    simp only [step]
    split
    · exact h3
    · rename_i hm
      split
      · apply handles_inv3
        apply setPc_inv3 s _ _ _ h3
        intro pc
        exact ⟨rfl, Or.inr ⟨rfl, by simpa using hm⟩⟩
      · apply handles_inv3 { s with pcs := s.pcs ++ [_] }
        apply appendPc_inv3 s h2 h3
        constructor
        · intro d hd; cases hd
        · intro hm'; rw [hm'] at hm; exact absurd rfl hm
  | removeByUfrag u =>
    simp only [step]
    exact closePcsWhere_inv3 _ s hi h3
  | closeHandle h =>
    simp only [step]
    split
    · exact h3
    · rename_i hd hh
      split
      · exact h3
      · have i1 : Inv { s with handles := s.handles.modify h (fun hd => { hd with closed := true }) } :=
          handles_irrel_inv s _ hi
        have c1 : Inv3 { s with handles := s.handles.modify h (fun hd => { hd with closed := true }) } :=
          handles_inv3 s _ h3
        split
        · exact c1
        · have i2 := setPc_irrel_inv _ hd.pc (fun pc => { pc with refs := pc.refs - 1 })
            (fun pc => ⟨rfl, rfl, rfl, rfl, Or.inl rfl⟩) i1
          have c2 := setPc_inv3 _ hd.pc (fun pc => { pc with refs := pc.refs - 1 }) (fun pc => ⟨rfl, Or.inl rfl⟩) c1
          split
          · exact closePc_inv3 _ _ i2 c2
          · exact c2
  | closePacketConn h =>
    simp only [step]
    split
    · exact h3
    · exact closePc_inv3 _ _ hi h3
  | write h dst pid len =>
    simp only [step]
    split
    · exact h3
    · split
      · exact h3
      · split
        · exact h3
        · split
          · exact h3
          · apply setTcp_inv3 s _ _ _ h3
            intro t _ hc
            exact ⟨hc.ends, hc.frames, hc.cause, hc.dl⟩
  | read h =>
    simp only [step]
    split
    · exact h3
    · split
      · exact h3
      · exact readPc_inv3 s _ h3
  | closeMux =>
    simp only [step]
    split
    · exact h3
    · have c1 := closePcsWhere_inv3 (fun _ => true) s hi h3
      have sp := closePcsWhere_spec (fun _ => true) s
      have hnow := closePcsWhere_now (fun _ => true) s
      obtain ⟨_, _, hcfg⟩ := closePcsWhere_flags (fun _ => true) s
      generalize closePcsWhere (fun _ => true) s = s1 at c1 sp hnow hcfg
      constructor
      · intro k t ht
        have old := c1.tcp k t ht
        refine ⟨old.ends, old.frames, old.cause, ?_⟩
        intro d hd
        have := (old.dl d hd).1
        refine ⟨this, fun _ => ?_⟩
        show d ≤ s.now + effTimeout s1.cfg.t1
        rw [← hnow]; exact this
      · intro q qc hq
        have old := c1.pc q qc hq
        refine ⟨old.al, ?_⟩
        intro _ ho
        rcases sp.2 q qc hq with x | x
        · rw [x] at ho; cases ho
        · cases x

theorem reachable_inv3 (cfg : Config) (ops : List Op) : Inv3 (run (init cfg) ops) := by
  have : ∀ (s : State), Inv s → Inv2 s → Inv3 s → Inv3 (run s ops) := by
    induction ops with
    | nil => intro s _ _ h; exact h
    | cons op ops ih =>
      intro s hi h2 h3
      exact ih _ (step_inv s op hi) (step_inv2 s op hi h2) (step_inv3 s op hi h2 h3)
  exact this _ (inv_init cfg) (inv2_init cfg) (inv3_init cfg)

end IceProofs.TcpMux
