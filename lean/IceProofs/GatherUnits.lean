import IceModel.Gather
/-!
Characterisation of `localAddrs` and of the gather units of every candidate type (layer 2 of
`IceModel.Gather`): which interface addresses they come from and which configuration facts hold for
them.  Used by the soundness and completeness theorems of C18.
-/
namespace IceProofs.GatherUnits
open IceModel.Gather

theorem mem_allNetTypes (n : NetType) : n ∈ allNetTypes := by cases n <;> simp [allNetTypes]

theorem mem_configured {l : List NetType} {n : NetType} : n ∈ configured l ↔ (l = [] ∨ n ∈ l) := by
  unfold configured
  cases l with
  | nil => simp [mem_allNetTypes]
  | cons a t => simp [List.mem_eraseDups]

theorem contains_configured {l : List NetType} {n : NetType} :
    (configured l).contains n = true ↔ (l = [] ∨ n ∈ l) := by
  rw [List.contains_iff_mem]; exact mem_configured

/-- `localInterfaces`: exactly the addresses of accepted interfaces that pass the address test -/
theorem mem_localAddrs {cfg : Config} {nts : List NetType} {ifs : List Iface} {a : Addr} {n : Nat} :
    (a, n) ∈ localAddrs cfg nts ifs ↔
      ∃ i ∈ ifs, ifaceAccepted cfg i = true ∧ i.name = n ∧ a ∈ i.addrs ∧ addrAccepted cfg nts a = true := by
  unfold localAddrs
  simp only [List.mem_flatMap]
  constructor
  · rintro ⟨i, hi, h⟩
    split at h
    · rename_i hacc
      simp only [List.mem_map, List.mem_filter, Prod.mk.injEq] at h
      obtain ⟨b, ⟨hb1, hb2⟩, hb3⟩ := h
      obtain ⟨rfl, rfl⟩ := hb3
      exact ⟨i, hi, hacc, rfl, hb1, hb2⟩
    · simp at h
  · rintro ⟨i, hi, hacc, rfl, ha, hok⟩
    refine ⟨i, hi, ?_⟩
    simp only [hacc, ↓reduceIte, List.mem_map, List.mem_filter, Prod.mk.injEq]
    exact ⟨a, ⟨ha, hok⟩, rfl, trivial⟩

/-- an address that `localInterfaces` returns, forgetting the interface name -/
def Local (cfg : Config) (nts : List NetType) (ifs : List Iface) (a : Addr) : Prop :=
  ∃ i ∈ ifs, ifaceAccepted cfg i = true ∧ a ∈ i.addrs ∧ addrAccepted cfg nts a = true

theorem local_of_mem {cfg : Config} {nts : List NetType} {ifs : List Iface} {p : Addr × Nat}
    (h : p ∈ localAddrs cfg nts ifs) : Local cfg nts ifs p.1 := by
  obtain ⟨a, n⟩ := p
  obtain ⟨i, hi, hacc, _, ha, hok⟩ := mem_localAddrs.1 h
  exact ⟨i, hi, hacc, ha, hok⟩

/-! ### host units -/

/-- what a lookup of the host rule returns are external addresses of the rule -/
theorem lookup_sub {r : HostRule} {l : Addr} {ifc : Option Nat} {es : List Addr}
    (h : r.lookup l ifc = some es) : ∀ e ∈ es, e ∈ r.exts := by
  unfold HostRule.lookup at h
  split at h
  · simp at h
  · split at h
    · split at h
      · simp only [Option.some.injEq] at h; subst h; exact fun _ he => he
      · simp at h
    · simp only at h
      split at h
      · simp at h
      · simp only [Option.some.injEq] at h; subst h
        exact fun e he => (List.mem_filter.1 he).1

/-- an address published for interface address `a` is `a` itself or (never in mDNS gather mode) an external
address of the host rule -/
theorem mem_hostMapped {cfg : Config} {a m : Addr} {ifc : Nat} (h : m ∈ hostMapped cfg a ifc) :
    m = a ∨ (cfg.mdnsGather = false ∧ ∃ r, cfg.hostRule = some r ∧ m ∈ r.exts) := by
  unfold hostMapped at h
  split at h
  · left; simpa using h
  · rename_i hmd
    have hmd' : cfg.mdnsGather = false := by simpa using hmd
    split at h
    · left; simpa using h
    · rename_i r hr
      split at h
      · left; simpa using h
      · split at h
        · left; simpa using h
        · rename_i es hes
          simp only [List.mem_append] at h
          rcases h with h | h
          · left; split at h <;> simp at h; exact h
          · right; exact ⟨hmd', r, hr, lookup_sub hes m h⟩

theorem mem_muxMapped {cfg : Config} {a m : Addr} (h : m ∈ muxMapped cfg a) :
    m = a ∨ (cfg.mdnsGather = false ∧ ∃ r, cfg.hostRule = some r ∧ m ∈ r.exts) := by
  unfold muxMapped at h
  split at h
  · left; simpa using h
  · rename_i hmd
    have hmd' : cfg.mdnsGather = false := by simpa using hmd
    split at h
    · left; simpa using h
    · rename_i r hr
      split at h
      · left; simpa using h
      · rename_i es hes
        simp only [List.mem_append] at h
        rcases h with h | h
        · left; split at h <;> simp at h; exact h
        · right; exact ⟨hmd', r, hr, lookup_sub hes m h⟩

/-- the host units of the interface table: one per (accepted interface address `a`, address `m` it is
published as, transport) whose network type — the one of `m` — is enabled and, for IPv6, `m` is not in an
excluded class; the socket is on `a` -/
theorem mem_hostIfaceUnits {cfg : Config} {ifs : List Iface} {u : GUnit} (hq : cfg.quirks = []) :
    u ∈ hostIfaceUnits cfg ifs ↔
      ∃ a ifc m, (a, ifc) ∈ localAddrs cfg (configured cfg.netTypes) ifs ∧ m ∈ hostMapped cfg a ifc ∧
        u.bind = a ∧ u.mapped = m ∧ u.url = 0 ∧ u.n = 1 ∧ u.ifc = ifc ∧ (m.cls.is6 = true → m.cls.supported6 = true) ∧
        ((u.kind = .hostTcp ∧ u.net = NetType.ofTransport true m.cls.is6 ∧
            (configured cfg.netTypes).contains u.net = true ∧ tcpMuxAccepts cfg a = true)
         ∨ (u.kind = .hostUdp ∧ u.net = NetType.ofTransport false m.cls.is6 ∧
            (configured cfg.netTypes).contains u.net = true ∧ cfg.udpMux = none)) := by
  have hq13 : cfg.has 1 = false := by simp [Config.has, hq]
  have hq8 : cfg.has 8 = false := by simp [Config.has, hq]
  unfold hostIfaceUnits
  simp only [List.mem_flatMap, hq13, Bool.or_false, hostPubOk, hq8]
  constructor
  · rintro ⟨⟨a, n⟩, hp, m, hm, h⟩
    simp only [List.mem_append] at h
    rcases h with h | h
    · split at h
      · rename_i hc
        simp only [Bool.and_eq_true, hostNetEnabled, Bool.or_eq_true, Bool.not_eq_true'] at hc
        simp only [List.mem_singleton] at h
        subst h
        refine ⟨a, n, m, hp, hm, rfl, rfl, rfl, rfl, rfl, ?_, Or.inl ⟨rfl, rfl, hc.1.1.2, hc.2⟩⟩
        intro h6; rcases hc.1.2 with h | h
        · simp [h6] at h
        · exact h
      · simp at h
    · split at h
      · rename_i hc
        simp only [Bool.and_eq_true, hostNetEnabled, Option.isNone_iff_eq_none, Bool.or_eq_true, Bool.not_eq_true'] at hc
        simp only [List.mem_singleton] at h
        subst h
        refine ⟨a, n, m, hp, hm, rfl, rfl, rfl, rfl, rfl, ?_, Or.inr ⟨rfl, rfl, hc.1.2, hc.1.1.2⟩⟩
        intro h6; rcases hc.2 with h | h
        · simp [h6] at h
        · exact h
      · simp at h
  · rintro ⟨a, ifc, m, hp, hm, hb, hmp, hu0, hn1, hifc, hsup, h⟩
    refine ⟨(a, ifc), hp, m, hm, ?_⟩
    obtain ⟨kind, net, bind, url, n, mapped, uifc⟩ := u
    simp only at hb hmp hu0 hn1 hifc h
    subst hb hmp hu0 hn1 hifc
    have hs : (!mapped.cls.is6 || mapped.cls.supported6) = true := by
      cases h6 : mapped.cls.is6
      · rfl
      · simpa using hsup h6
    simp only [List.mem_append]
    rcases h with ⟨hk, hnet, hen, hmux⟩ | ⟨hk, hnet, hen, hmux⟩
    · left
      subst hk hnet
      have hT : (configured cfg.netTypes).any (·.isTCP) = true := by
        rw [List.any_eq_true]
        exact ⟨_, List.contains_iff_mem.1 hen, by cases mapped.cls.is6 <;> rfl⟩
      simp [hT, hostNetEnabled, List.contains_iff_mem.1 hen, hmux, hs]
    · right
      subst hk hnet
      have hU : (configured cfg.netTypes).any (fun t => !t.isTCP) = true := by
        rw [List.any_eq_true]
        exact ⟨_, List.contains_iff_mem.1 hen, by cases mapped.cls.is6 <;> rfl⟩
      simp [hU, hostNetEnabled, List.contains_iff_mem.1 hen, hmux, hs]

theorem mem_hostMuxUnits {cfg : Config} {u : GUnit} (hq : cfg.quirks = []) :
    u ∈ hostMuxUnits cfg ↔
      ∃ addrs a m, cfg.udpMux = some addrs ∧ a ∈ addrs ∧ m ∈ muxMapped cfg a ∧
        u = { kind := .hostMux, net := NetType.ofTransport false m.cls.is6, bind := a, mapped := m }
        ∧ (configured cfg.netTypes).contains (NetType.ofTransport false m.cls.is6) = true
        ∧ (m.cls.is6 = true → m.cls.supported6 = true) := by
  have hq2 : cfg.has 2 = false := by simp [Config.has, hq]
  have hq5 : cfg.has 5 = false := by simp [Config.has, hq]
  unfold hostMuxUnits
  cases hm : cfg.udpMux with
  | none => simp
  | some addrs =>
    simp only [List.mem_flatMap, List.mem_map, List.mem_filter, hq2, hq5, Bool.or_false, Bool.and_eq_true, hostNetEnabled,
      Option.some.injEq]
    constructor
    · rintro ⟨a, ha, m, ⟨hm, hen, hs⟩, rfl⟩
      refine ⟨addrs, a, m, rfl, ha, hm, rfl, hen, ?_⟩
      intro h6
      simpa [h6] using hs
    · rintro ⟨addrs', a, m, rfl, ha, hm, rfl, hen, hs⟩
      refine ⟨a, ha, m, ⟨hm, hen, ?_⟩, rfl⟩
      cases h6 : m.cls.is6 <;> simp_all

/-! ### reflexive and relay units -/

theorem mem_udpTypes {nts : List NetType} {t : NetType} : t ∈ udpTypes nts ↔ t ∈ nts ∧ t.isTCP = false := by
  simp [udpTypes]

theorem mem_srflxUnits {cfg : Config} {ifs : List Iface} {u : GUnit} (h : u ∈ srflxUnits cfg ifs) :
    u.kind = .srflx ∧ u.net ∈ configured cfg.netTypes ∧ u.net.isTCP = false ∧
      (if useFilteredLocalAddrs cfg then Local cfg (configured cfg.netTypes) ifs u.bind
       else u.bind = unspec u.net.is6) := by
  unfold srflxUnits at h
  simp only [List.mem_flatMap] at h
  obtain ⟨nt, hnt, k, _, h⟩ := h
  have hnt' := mem_udpTypes.1 hnt
  split at h
  · rename_i hf
    simp only [List.mem_map, List.mem_filter] at h
    obtain ⟨p, ⟨hp, _⟩, rfl⟩ := h
    simpa [hf, hnt'.1, hnt'.2] using local_of_mem hp
  · rename_i hf
    simp only [List.mem_singleton] at h
    subst h
    simp [hf, hnt'.1, hnt'.2]

theorem mem_srflxMuxUnits {cfg : Config} {u : GUnit} (h : u ∈ srflxMuxUnits cfg) :
    u.kind = .srflxMux ∧ u.net ∈ configured cfg.netTypes ∧ u.net.isTCP = false ∧ cfg.srflxMux.isSome = true := by
  unfold srflxMuxUnits at h
  cases hm : cfg.srflxMux with
  | none => simp [hm] at h
  | some addrs =>
    simp only [hm, List.mem_flatMap, List.mem_map] at h
    obtain ⟨nt, hnt, k, _, a, _, rfl⟩ := h
    have hnt' := mem_udpTypes.1 hnt
    simp [hnt'.1, hnt'.2]

theorem mem_srflxMappedUnits {cfg : Config} {ifs : List Iface} {u : GUnit} (hq : cfg.quirks = [])
    (h : u ∈ srflxMappedUnits cfg ifs) :
    u.kind = .srflxMapped ∧ u.net ∈ configured cfg.netTypes ∧ u.net.isTCP = false ∧
      (if useFilteredLocalAddrs cfg then Local cfg (configured cfg.netTypes) ifs u.bind ∧ u.bind.cls.is6 = u.net.is6
       else u.bind = unspec u.net.is6) := by
  have hq4 : cfg.has 4 = false := by simp [Config.has, hq]
  unfold srflxMappedUnits at h
  split at h
  · simp at h
  · simp only [List.mem_flatMap, hq4, Bool.not_false, Bool.and_true, List.mem_map] at h
    obtain ⟨nt, hnt, b, hb, rfl⟩ := h
    have hnt' := mem_udpTypes.1 hnt
    split at hb
    · rename_i hf
      simp only [List.mem_map, List.mem_filter] at hb
      obtain ⟨p, ⟨hp, hfam⟩, rfl⟩ := hb
      simp only [hf, ↓reduceIte, hnt'.1, hnt'.2, true_and]
      exact ⟨local_of_mem hp, by simpa using hfam⟩
    · rename_i hf
      simp only [List.mem_singleton] at hb
      subst hb
      simp [hf, hnt'.1, hnt'.2]

theorem mem_relayUnits {cfg : Config} {ifs : List Iface} {u : GUnit} (h : u ∈ relayUnits cfg ifs) :
    u.kind = .relay ∧ u.net = .udp4 ∧
      (if useFilteredLocalAddrs cfg then Local cfg cfg.netTypes ifs u.bind else u.bind = unspec false) := by
  unfold relayUnits at h
  simp only at h
  split at h
  · simp at h
  · split at h
    · simp at h
    · simp only [List.mem_flatMap] at h
      obtain ⟨k, _, h⟩ := h
      split at h
      · rename_i hf
        simp only [List.mem_map, List.mem_filter] at h
        obtain ⟨p, ⟨hp, _⟩, rfl⟩ := h
        simpa [hf] using local_of_mem hp
      · rename_i hf
        simp only [List.mem_singleton] at h
        subst h
        simp [hf]

/-- an address produced by `resolveSrflxAddresses` is the local address itself, an external IPv4 address of
a catch-all rule (only for an IPv4 local address), or one of the external addresses of a pinned rule -/
theorem mappedAddr_cases (cfg : Config) (b : Addr) (ci : Nat) :
    (((srflxMappedAddrs cfg b).getD [])[ci]?).getD b = b
    ∨ (((((srflxMappedAddrs cfg b).getD [])[ci]?).getD b).cls = AddrClass.x4 ∧ b.cls.is6 = false)
    ∨ (∃ r exts, cfg.srflxPinned = some (r, exts) ∧ (((srflxMappedAddrs cfg b).getD [])[ci]?).getD b ∈ exts) := by
  unfold srflxMappedAddrs
  split
  · rename_i r exts hp
    split
    · simp only [Option.getD_some]
      cases hg : exts[ci]? with
      | none => left; simp
      | some a =>
        right; right
        exact ⟨r, exts, hp, by simpa [hg] using List.mem_of_getElem? hg⟩
    · left; rcases ci with _ | ci <;> simp
  · split
    · left; rcases ci with _ | ci <;> simp
    · rename_i h6
      have h6' : b.cls.is6 = false := by simpa using h6
      cases cfg.srflxRewrite <;> rcases ci with _ | _ | ci <;> simp [h6']

/-- an address produced by `resolveRelayAddresses` is the relayed address or an external one -/
theorem relayAddr_cases (cfg : Config) (m ci : Nat) :
    ((((relayAddrs cfg m).getD [])[ci]?).getD ⟨.r4, m⟩).cls = AddrClass.r4 ∨
      ((((relayAddrs cfg m).getD [])[ci]?).getD ⟨.r4, m⟩).cls = AddrClass.x4 := by
  unfold relayAddrs
  cases cfg.relayRewrite <;> rcases ci with _ | _ | ci <;> simp

end IceProofs.GatherUnits
