import IceProofs.AgentC20Trace
import IceProofs.AgentC03OwnFrame
import IceProofs.AgentC06Read
/-!
# C20 on `Sys2` — vocabulary (agent level)

What a nomination decision reads of an agent, the three kinds of step that matter for renomination
(`issueOf`: the controlling agent issues a nomination; `answerOf`: an agent consumes an outstanding transaction
through a matching success response; `acceptAt`: the controlled selector accepts a nomination value), and the
frame relation `NomQ` ("nomination-quiet") that every other step satisfies.
-/
namespace IceProofs.C20S
open IceModel.AgentCore IceProofs.Agent

/-- what the nomination logic reads of a pair besides its id: valid?, deferred-nomination mark and value -/
def nk (p : Pair) : Bool × Bool × Option Nat := (p.state == .succeeded, p.nomOnSuccess, p.deferredNom)

/-- the transport addresses (local, remote) of the pair the model resolves id `id` to -/
def pairAddrs (a : Agent) (id : Nat) : Option (Nat × Nat) :=
  match a.pairById id with
  | none => none
  | some p =>
    match a.localOf p.l, a.remoteOf p.r with
    | some l, some r => some (l.addr, r.addr)
    | _, _ => none

/-- addresses of the selected pair -/
def selAddrs (a : Agent) : Option (Nat × Nat) := a.selected.bind (pairAddrs a)

/-- `RenominateCandidate` that is not refused: `(value, local address, remote address)` of the nomination it sends
(exactly the case in which `step` answers `ok`; the request carries the value iff it is positive). -/
def issueOf (a : Agent) : Ev → Option (Nat × Nat × Nat)
  | .renominate _ la ri v =>
    if a.controlling && a.cfg.enableRenomination then
      match a.localByAddr la, a.remotes[ri]? with
      | some l, some r => if (a.findPair l r).isSome then some (v, la, r.addr) else none
      | _, _ => none
    else none
  | _ => none

/-- the entries a step from `a` to `a'` appends to the ghost log of issued nominations (`Agent.nomIssued`) -/
def logSfx (a a' : Agent) : List (Nat × Nat × Nat) := a'.nomIssued.drop a.nomIssued.length

/-- **The nominations an agent issues while it executes an event**, whoever causes them: `RenominateCandidate` that is not
refused (`issueOf`, proved below to be this list for a `.renominate` event) AND the automatic check of the controlling
selector (`WithAutomaticRenomination`) inside the timer ticks the event runs — `(value, local address, remote address)`,
value 0 = sent without the attribute.  Read off the ghost log `nomIssued`, which `step` appends to exactly where it hands
a nomination to `sendRequest`. -/
def issuesOf (a : Agent) (e : Ev) : List (Nat × Nat × Nat) := logSfx a (step a e).1

theorem logSfx_self (a : Agent) : logSfx a a = [] := by
  unfold logSfx; simp

theorem logSfx_of_append {a a' : Agent} {s : List (Nat × Nat × Nat)} (h : a'.nomIssued = a.nomIssued ++ s) :
    logSfx a a' = s := by
  unfold logSfx; rw [h]; simp

theorem logSfx_of_eq {a a' : Agent} (h : a'.nomIssued = a.nomIssued) : logSfx a a' = [] := by
  unfold logSfx; rw [h]; simp

/-- suffixes compose -/
theorem logSfx_trans {a b c : Agent} (h1 : a.nomIssued <+: b.nomIssued) (h2 : b.nomIssued <+: c.nomIssued) :
    logSfx a c = logSfx a b ++ logSfx b c := by
  obtain ⟨s1, e1⟩ := h1
  obtain ⟨s2, e2⟩ := h2
  rw [logSfx_of_append e1.symm, logSfx_of_append e2.symm,
    logSfx_of_append (s := s1 ++ s2) (by rw [← e2, ← e1, List.append_assoc])]

theorem mem_logSfx_right {a b c : Agent} (h1 : a.nomIssued <+: b.nomIssued) (h2 : b.nomIssued <+: c.nomIssued)
    {x : Nat × Nat × Nat} (hx : x ∈ logSfx b c) : x ∈ logSfx a c := by
  rw [logSfx_trans h1 h2]; exact List.mem_append_right _ hx

theorem mem_logSfx_left {a b c : Agent} (h1 : a.nomIssued <+: b.nomIssued) (h2 : b.nomIssued <+: c.nomIssued)
    {x : Nat × Nat × Nat} (hx : x ∈ logSfx a b) : x ∈ logSfx a c := by
  rw [logSfx_trans h1 h2]; exact List.mem_append_left _ hx

/-- The event is an authenticated Binding success response that completes an outstanding transaction of `a` on a
listed pair: open started agent, existing local candidate, MESSAGE-INTEGRITY under the remote password, known source,
transaction pending and not expired, response symmetric (network type, destination, source — `responseSymmetric`),
pair found.  Returns the consumed transaction and the id of the pair. -/
def answerOf (a : Agent) (ev : Ev) : Option (Pending × Nat) :=
  match inboundOn a ev with
  | none => none
  | some (now, l, src, m) =>
    if m.method == 1 && m.cls == 2 && m.key == some a.remotePwd then
      match a.findRemote l.net src with
      | none => none
      | some r =>
        match (a.takePending now m.tid).2 with
        | none => none
        | some pd =>
          if pd.net == l.net && pd.dest == src && pd.src == l.addr then (a.findPair l r).map fun p => (pd, p.id)
          else none
    else none

/-- a response to a renomination with value `v` is superseded when a response to one with a value `≥ v` has been
processed (`controllingSelector.answeredNomination`) -/
def supersededBy (answered : Option Nat) (v : Nat) : Bool :=
  match answered with
  | none => false
  | some w => decide (v ≤ w)

/-- the nomination value the controlled selector accepts at this step, with the local address the request arrived on
and its source address as seen by the agent -/
def acceptAt (a : Agent) (ev : Ev) : Option (Nat × Nat × Nat) :=
  match ev with
  | .inbound _ la src _ => (accepted a ev).map fun v => (v, la, src)
  | _ => none

/-- id of the pair a request handed to a selector is about (found, or added by the handler) -/
def reqPair (a : Agent) (ev : Ev) : Option Nat :=
  match inboundOn a ev with
  | none => none
  | some (_, l, src, m) =>
    match resolveSource a l src m with
    | (a1, _, some r) => some (ensurePair a1 l r).2.id
    | (_, _, none) => none

/-- the events outside the frame: Restart and Close (an effective Start is excluded by `started`) -/
def keeps : Ev → Bool
  | .restart _ _ _ => false
  | .close => false
  | _ => true

/-- an ordinary nomination: a Binding request with USE-CANDIDATE and no nomination value -/
def plainNomReq : Ev → Bool
  | .inbound _ _ _ m => m.cls == 0 && m.useCand && m.nom.isNone
  | _ => false

/-- **Nomination-quiet.**  `a'` differs from `a` in nothing the nomination logic reads, except possibly on the pair
with id `ex` (to which the selection may have moved) and by the transaction of the nomination `iss` just issued:
* the selection is the same, or it is `ex`;
* every listed pair other than `ex` stems from a pair of the same id with the same `nk`, or is new (id above the old
  counter) and unmarked; no pair is dropped; an id that resolved to an address pair resolves to the same addresses;
* every outstanding transaction was outstanding before, or carries no nomination value, or is the one of `iss`
  (`RenominateCandidate`), or is logged among the nominations issued meanwhile (`logSfx`: the automatic check);
* the ghost log of issued nominations only grows. -/
structure NomQ (ex : Option Nat) (iss : Option (Nat × Nat × Nat)) (a a' : Agent) : Prop where
  npid : a.nextPairID ≤ a'.nextPairID
  sel : a'.selected = a.selected ∨ (a'.selected = ex ∧ ex.isSome = true)
  pairs : ∀ p' ∈ a'.checklist, some p'.id ≠ ex →
    (∃ p ∈ a.checklist, p.id = p'.id ∧ nk p' = nk p) ∨ (a.nextPairID < p'.id ∧ nk p' = (false, false, none))
  fwd : ∀ p ∈ a.checklist, ∃ p' ∈ a'.checklist, p'.id = p.id
  addrs : ∀ id x, pairAddrs a id = some x → pairAddrs a' id = some x
  pend : ∀ pd ∈ a'.pending, pd ∈ a.pending ∨ pd.nom = none ∨
    ∃ v, pd.nom = some v ∧ (iss = some (v, pd.src, pd.dest) ∨ (v, pd.src, pd.dest) ∈ logSfx a a')
  log : a.nomIssued <+: a'.nomIssued

end IceProofs.C20S
