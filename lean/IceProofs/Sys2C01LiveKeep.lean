import IceProofs.Sys2C01LiveKeepPrim
/-!
# C01 liveness, layer 1 — the frame `LK` across the helpers of `step` that a loss-free suffix runs
(inbound STUN, timer ticks); no API call, no role switch, no timeout.

The primitive updates (`sendRequest_lk`, `ping_lk`, `sendSuccess_lk`, `select_lk`, `addPair_lk`, `takePending_lk`,
`LK.of_eq`, `LK.modPair`, …) are in `IceProofs.Sys2C01LiveKeepPrim`.
-/
namespace IceProofs.C01Live
open IceModel.AgentCore IceProofs.C03 IceProofs.Agent

/-- `validateSelectedPair` finds the selected pair's remote candidate heard recently enough: it reports Connected; and the
controlling selector's automatic-renomination block is off (`QuietFor`). -/
def ValOK (a : Agent) (now : Nat) : Prop :=
  (∀ p, a.selected.bind a.pairById = some p →
    stateForDisconnection a.cfg a.connState ((a.remoteOf p.r).bind (silence now))
      (if a.cfg.failedTimeout != 0 then a.cfg.failedTimeout + a.cfg.disconnectedTimeout else 0) = .connected) ∧
  (a.cfg.autoRenom && a.cfg.enableRenomination) = false

/-- the checking deadline does not fire at a tick at `now`. -/
def CkOK (a : Agent) (now : Nat) : Prop :=
  a.connState = .checking →
    ((chk a now).checkingTimeout != 0 && now - (chk a now).checkingStart > (chk a now).checkingTimeout) = false

variable {T0 now : Nat} {ex : Option Nat}

/-! ## what the timer path never touches: pair ids, the id counter, the selection -/

structure Fr (a b : Agent) : Prop where
  ids : b.checklist.map (·.id) = a.checklist.map (·.id)
  npid : b.nextPairID = a.nextPairID
  sel : b.selected = a.selected

theorem Fr.refl (a : Agent) : Fr a a := ⟨rfl, rfl, rfl⟩
theorem Fr.trans {a b c : Agent} (h1 : Fr a b) (h2 : Fr b c) : Fr a c :=
  ⟨h2.ids.trans h1.ids, h2.npid.trans h1.npid, h2.sel.trans h1.sel⟩

theorem Fr.modPair (a : Agent) (id : Nat) (f : Pair → Pair) (hid : ∀ p, (f p).id = p.id) : Fr a (a.modPair id f) :=
  ⟨updPair_ids hid, rfl, rfl⟩

theorem Fr.idsOK {a b : Agent} (h : Fr a b) (hi : IdsOK a) : IdsOK b := by
  refine ⟨?_, ?_⟩
  · intro p hp
    have : p.id ∈ b.checklist.map (·.id) := List.mem_map.mpr ⟨p, hp, rfl⟩
    rw [h.ids] at this
    obtain ⟨q, hq, e⟩ := List.mem_map.mp this
    rw [h.npid, ← e]
    exact hi.le q hq
  · rw [pairwise_ids_iff, h.ids, ← pairwise_ids_iff]
    exact hi.uniq

/-- the timer-path frame: `Fr` always, `LK` when pair ids are unique -/
def W (T0 now : Nat) (ex : Option Nat) (a b : Agent) : Prop := Fr a b ∧ (IdsOK a → LK T0 now ex a b)

theorem W.refl (a : Agent) : W T0 now ex a a := ⟨Fr.refl a, fun _ => LK.refl _ _ _ _⟩
theorem W.trans {a b c : Agent} (h1 : W T0 now ex a b) (h2 : W T0 now ex b c) : W T0 now ex a c :=
  ⟨h1.1.trans h2.1, fun hi => (h1.2 hi).trans (h2.2 (h1.1.idsOK hi))⟩
theorem W.of {a b : Agent} (hf : Fr a b) (hl : LK T0 now ex a b) : W T0 now ex a b := ⟨hf, fun _ => hl⟩

theorem sendRequest_fr (a : Agent) (t : Nat) (l r : Cand) (uc : Bool) (nom : Option Nat) :
    Fr a (a.sendRequest t l r uc nom).1 := by
  unfold Agent.sendRequest
  simp only []
  split
  · exact ⟨updPair_ids (fun _ => rfl), rfl, rfl⟩
  · exact ⟨rfl, rfl, rfl⟩

theorem sendRequest_w (a : Agent) (l r : Cand) (uc : Bool) (nom : Option Nat) :
    W T0 now ex a (a.sendRequest now l r uc nom).1 := W.of (sendRequest_fr a now l r uc nom) (sendRequest_lk a l r uc nom)

theorem ping_w (a : Agent) (l r : Cand) : W T0 now ex a (a.ping now l r).1 := sendRequest_w a l r false none

/-! ## `pingAll` -/

/-- the pair picked up by an iteration of `pingAllCandidates` goes from Waiting to In-Progress -/
def pingPre (a : Agent) (id : Nat) (p : Pair) : Agent :=
  if p.state == .waiting then a.modPair id fun q => { q with state := .inProgress } else a

theorem pingStep_cases (t : Nat) (a : Agent) (o : List Out) (id : Nat) :
    (pingStep t (a, o) id).1 = a ∨
    ∃ p, a.pairById id = some p ∧ (p.state = .waiting ∨ p.state = .inProgress) ∧
      ((pingStep t (a, o) id).1 = pingPre a id p ∨
       (pingStep t (a, o) id).1 = (pingPre a id p).modPair id (fun p => { p with state := .failed }) ∨
       ∃ l r, (pingStep t (a, o) id).1 =
         ((pingPre a id p).ping t l r).1.modPair id (fun p => { p with reqCount := p.reqCount + 1 })) := by
  unfold pingStep
  simp only []
  cases hp : a.pairById id with
  | none => exact Or.inl rfl
  | some p =>
    simp only []
    have tail : ∀ (b : Agent) (q : Pair),
        (if q.reqCount > b.cfg.maxBindingRequests then
          (b.modPair id fun p => { p with state := .failed }, o)
        else
          match b.localOf q.l, b.remoteOf q.r with
          | some l, some r =>
            let (a, o') := b.ping t l r
            (a.modPair id fun p => { p with reqCount := p.reqCount + 1 }, o ++ o')
          | _, _ => (b, o)).1 = b ∨
        (if q.reqCount > b.cfg.maxBindingRequests then
          (b.modPair id fun p => { p with state := .failed }, o)
        else
          match b.localOf q.l, b.remoteOf q.r with
          | some l, some r =>
            let (a, o') := b.ping t l r
            (a.modPair id fun p => { p with reqCount := p.reqCount + 1 }, o ++ o')
          | _, _ => (b, o)).1 = b.modPair id (fun p => { p with state := .failed }) ∨
        ∃ l r, (if q.reqCount > b.cfg.maxBindingRequests then
          (b.modPair id fun p => { p with state := .failed }, o)
        else
          match b.localOf q.l, b.remoteOf q.r with
          | some l, some r =>
            let (a, o') := b.ping t l r
            (a.modPair id fun p => { p with reqCount := p.reqCount + 1 }, o ++ o')
          | _, _ => (b, o)).1 = (b.ping t l r).1.modPair id (fun p => { p with reqCount := p.reqCount + 1 }) := by
      intro b q
      split
      · exact Or.inr (Or.inl rfl)
      · split
        · rename_i l r _ _
          exact Or.inr (Or.inr ⟨l, r, rfl⟩)
        · exact Or.inl rfl
    by_cases hw : p.state = .waiting
    · have e : (p.state == PairState.waiting) = true := by simp [hw]
      have hpre : pingPre a id p = a.modPair id fun q => { q with state := .inProgress } := by
        unfold pingPre; rw [if_pos e]
      simp only [e, if_true, Bool.not_true, Bool.false_eq_true, if_false]
      refine Or.inr ⟨p, rfl, Or.inl hw, ?_⟩
      rw [hpre]
      exact tail _ _
    · have e : (p.state == PairState.waiting) = false := by simp [hw]
      have hpre : pingPre a id p = a := by
        unfold pingPre; rw [e]; rfl
      simp only [e, Bool.false_eq_true, if_false]
      by_cases hip : p.state = .inProgress
      · have e2 : (p.state == PairState.inProgress) = true := by simp [hip]
        simp only [e2, Bool.not_true, Bool.false_eq_true, if_false]
        refine Or.inr ⟨p, rfl, Or.inr hip, ?_⟩
        rw [hpre]
        exact tail _ _
      · have e2 : (p.state == PairState.inProgress) = false := by simp [hip]
        simp only [e2, Bool.not_false, if_true]
        first | exact Or.inl rfl | exact Or.inl trivial

theorem pingStep_w (a : Agent) (o : List Out) (id : Nat) : W T0 now ex a (pingStep now (a, o) id).1 := by
  rcases pingStep_cases now a o id with h | ⟨p, hp, hst, h⟩
  · rw [h]; exact W.refl a
  · -- the pair is the only one of its id, and it is not valid
    have hpre : W T0 now ex a (pingPre a id p) := by
      unfold pingPre
      split
      · rename_i hw
        have hw' : p.state = .waiting := by simpa using hw
        refine ⟨Fr.modPair a id _ (fun _ => rfl), fun hi => LK.setState a id .inProgress (by decide) ?_⟩
        intro x hx e
        have := pairById_of_mem hi hx
        rw [e, hp] at this
        cases this
        rw [hw']; decide
      · exact W.refl a
    have hqb : IdsOK a → ∀ x ∈ (pingPre a id p).checklist, x.id = id → x.state ≠ .succeeded := by
      intro hi x hx e
      unfold pingPre at hx
      split at hx
      · obtain ⟨y, _, h' | h'⟩ := mem_updPair (l := a.checklist) hx
        · rw [h'.2]; simp
        · rw [h'.2] at e; exact absurd e h'.1
      · have := pairById_of_mem hi hx
        rw [e, hp] at this
        cases this
        rcases hst with h' | h' <;> rw [h'] <;> decide
    rcases h with h | h | ⟨l, r, h⟩
    · rw [h]; exact hpre
    · rw [h]
      refine ⟨hpre.1.trans (Fr.modPair _ id _ (fun _ => rfl)), fun hi => ?_⟩
      exact (hpre.2 hi).trans (LK.setState _ id .failed (by decide) (hqb hi))
    · rw [h]
      exact (hpre.trans (ping_w _ l r)).trans (W.of (Fr.modPair _ id _ (fun _ => rfl))
        (LK.modPair_keep _ id (fun p => { p with reqCount := p.reqCount + 1 }) (fun _ => rfl) (fun _ => rfl)
          (fun _ => rfl) (fun _ => rfl) (fun _ => rfl) (fun _ => rfl)))

theorem pingAll_w (a : Agent) : W T0 now ex a (a.pingAll now).1 := by
  rw [pingAll_eq]
  apply IceProofs.List.foldl_inv (fun (acc : Agent × List Out) => W T0 now ex a acc.1)
  · exact W.refl a
  · intro b id hb
    obtain ⟨b1, o⟩ := b
    exact hb.trans (pingStep_w b1 o id)

theorem pingAll_lk (a : Agent) (hi : IdsOK a) : LK T0 now ex a (a.pingAll now).1 := (pingAll_w a).2 hi

/-! ## `validateSelected`, `keepalive`, `nominate`, `contactCandidates` -/

theorem ValOK.of_eq {a a' : Agent} {t : Nat} (hs : a'.selected = a.selected) (hc : a'.checklist = a.checklist)
    (hcfg : a'.cfg = a.cfg) (hcs : a'.connState = a.connState) (hr : a'.remotes = a.remotes) (h : ValOK a t) :
    ValOK a' t := by
  unfold ValOK Agent.pairById Agent.remoteOf at *
  rw [hs, hc, hcfg, hcs, hr]
  exact h

theorem validateSelected_fst (a : Agent) (t : Nat) (hv : ValOK a t) :
    (a.validateSelected t).1 = a ∨ (a.validateSelected t).1 = (a.setConnState .connected).1 := by
  unfold Agent.validateSelected
  split
  · exact Or.inl rfl
  · rename_i p hp
    right
    simp only []
    rw [hv.1 p hp]

theorem validateSelected_w (a : Agent) (hv : ValOK a now) : W T0 now ex a (a.validateSelected now).1 := by
  rcases validateSelected_fst a now hv with h | h
  · rw [h]; exact W.refl a
  · rw [h]; exact W.of ⟨by rw [setConnState_fst_ne _ _ (by decide)], by rw [setConnState_fst_ne _ _ (by decide)],
      setConnected_selected a⟩ (setConnected_lk a)

theorem validateSelected_lk (a : Agent) (hv : ValOK a now) : LK T0 now ex a (a.validateSelected now).1 := by
  rcases validateSelected_fst a now hv with h | h
  · rw [h]; exact LK.refl _ _ _ _
  · rw [h]; exact setConnected_lk a

theorem keepalive_w (a : Agent) : W T0 now ex a (a.keepalive now).1 := by
  unfold Agent.keepalive
  split
  · exact W.refl a
  · split
    · split
      · exact ping_w _ _ _
      · exact W.refl a
    · exact W.refl a

theorem nominate_w (a : Agent) (p : Pair) : W T0 now ex a (a.nominate now p).1 := by
  unfold Agent.nominate
  split
  · exact sendRequest_w _ _ _ _ _
  · exact W.refl a

theorem valKeep_w (a : Agent) (hv : ValOK a now) : W T0 now ex a (valKeep a now).1 := by
  unfold valKeep
  have h1 := validateSelected_w (T0 := T0) (ex := ex) a hv
  rcases hk : a.validateSelected now with ⟨a1, o1, ok⟩
  rw [hk] at h1
  simp only []
  split
  · exact h1.trans (keepalive_w a1)
  · exact h1

theorem autoRenom_w (a : Agent) : W T0 now ex a (a.autoRenom now).1 := by
  refine IceProofs.Auto.autoRenom_parts (P := fun x => W T0 now ex a x.1) ?_ a (W.refl a)
  exact {
    mark := fun b _ id p h hp hw => h.trans ⟨Fr.modPair b id _ (fun _ => rfl), fun hi =>
      LK.setState b id .inProgress (by decide) (fun x hx e => by
        have := pairById_of_mem hi hx
        rw [e, hp] at this
        cases this
        rw [hw]; decide)⟩
    ping := fun b _ l r h _ _ => h.trans (ping_w b l r)
    time := fun _ _ h => h.trans (W.of ⟨rfl, rfl, rfl⟩ (LK.of_eq rfl rfl rfl rfl rfl rfl rfl rfl rfl rfl rfl))
    count := fun _ _ h => h.trans (W.of ⟨rfl, rfl, rfl⟩ (LK.of_eq rfl rfl rfl rfl rfl rfl rfl rfl rfl rfl rfl))
    issue := fun b _ l r nom h _ _ _ _ _ => h.trans (sendRequest_w b l r true nom)
    log := fun _ _ _ h => h.trans (W.of ⟨rfl, rfl, rfl⟩ (LK.of_eq rfl rfl rfl rfl rfl rfl rfl rfl rfl rfl rfl)) }

theorem valKeepAuto_w (a : Agent) (hv : ValOK a now) : W T0 now ex a (valKeepAuto a now).1 := by
  unfold valKeepAuto
  have h1 := validateSelected_w (T0 := T0) (ex := ex) a hv
  rcases hk : a.validateSelected now with ⟨a1, o1, ok⟩
  rw [hk] at h1
  simp only []
  split
  · exact (h1.trans (keepalive_w a1)).trans (autoRenom_w _)
  · exact h1

theorem contactCandidates_w (a : Agent) (hv : ValOK a now) : W T0 now ex a (a.contactCandidates now).1 := by
  unfold Agent.contactCandidates
  split
  · split
    · exact valKeepAuto_w a hv
    · split
      · exact nominate_w _ _
      · split
        · exact W.refl a
        · split
          · split
            · split
              · rename_i hnone _ p hbest _ _ _ _ _ _ _
                have hb := bestBy_some (ok := fun q => q.state == .succeeded) hbest
                have hps : p.state = .succeeded := by simpa using hb.2
                refine W.trans (b := { (a.modPair p.id fun p => { p with nominated := true }) with
                    nominatedPair := some p.id }) ?_ (nominate_w _ _)
                refine (W.of (Fr.modPair a p.id (fun p => { p with nominated := true }) (fun _ => rfl)) (LK.modPair_keep a p.id
                  (fun p => { p with nominated := true }) (fun _ => rfl) (fun _ => rfl) (fun _ => rfl) (fun _ => rfl)
                  (fun _ => rfl) (fun _ => rfl))).trans ?_
                refine W.of ⟨rfl, rfl, rfl⟩ (LK.setNominated _ p.id hnone ⟨{ p with nominated := true }, ?_, rfl, hps⟩)
                have := mem_updPair_of_mem (id := p.id) (f := fun p : Pair => { p with nominated := true }) hb.1
                simp only [beq_self_eq_true, if_true] at this
                exact this
              · exact pingAll_w a
            · exact pingAll_w a
          · exact pingAll_w a
  · split
    · exact validateSelected_w a hv
    · split
      · exact valKeep_w a hv
      · exact pingAll_w a

theorem contactCandidates_lk (a : Agent) (hi : IdsOK a) (hv : ValOK a now) :
    LK T0 now ex a (a.contactCandidates now).1 := (contactCandidates_w a hv).2 hi

/-! ## `contact`, `runForced` -/

theorem chk_valOK (a : Agent) (t : Nat) (hv : ValOK a t) : ValOK (chk a t) t := by
  unfold chk
  split
  · exact ValOK.of_eq rfl rfl rfl rfl rfl hv
  · exact hv

theorem chk_w (a : Agent) (t : Nat) : W T0 now ex a (chk a t) := by
  unfold chk
  split
  · exact W.of ⟨rfl, rfl, rfl⟩ (LK.of_eq rfl rfl rfl rfl rfl rfl rfl rfl rfl rfl rfl)
  · exact W.refl a

theorem finish_w {a : Agent} {r : Agent × List Out} (h : W T0 now ex a r.1) : W T0 now ex a (finish r).1 :=
  h.trans (W.of ⟨rfl, rfl, rfl⟩ (LK.of_eq rfl rfl rfl rfl rfl rfl rfl rfl rfl rfl rfl))

theorem contact_w (a : Agent) (hv : ValOK a now) (hck : CkOK a now) : W T0 now ex a (a.contact now).1 := by
  rw [contact_eq]
  split
  · exact W.refl a
  · split
    · exact finish_w (r := (a, [])) (W.refl a)
    · rename_i hcs
      split
      · rename_i hdl
        rw [hck hcs] at hdl
        cases hdl
      · exact finish_w ((chk_w a now).trans (contactCandidates_w _ (chk_valOK a now hv)))
    · exact finish_w (contactCandidates_w a hv)

theorem contact_lk (a : Agent) (hi : IdsOK a) (hv : ValOK a now) (hck : CkOK a now) :
    LK T0 now ex a (a.contact now).1 := (contact_w a hv hck).2 hi

/-- the timer path never changes the selection (no timeout fires) -/
theorem contact_selected (a : Agent) (hv : ValOK a now) (hck : CkOK a now) :
    (a.contact now).1.selected = a.selected := (contact_w (T0 := 0) (ex := none) a hv hck).1.sel

theorem chk_forcePending (a : Agent) (t : Nat) :
    chk { a with forcePending := false } t = { chk a t with forcePending := false } := by
  unfold chk
  split <;> rfl

theorem runForced_lk (a : Agent) (hi : IdsOK a) (hv : ValOK a now) (hck : CkOK a now) :
    LK T0 now ex a (a.runForced now).1 := by
  unfold Agent.runForced
  split
  · have hck' : CkOK { a with forcePending := false } now := by
      intro hc
      have := hck hc
      rw [chk_forcePending]
      exact this
    have h := contact_lk (T0 := T0) (ex := ex) { a with forcePending := false } ⟨hi.le, hi.uniq⟩
      (ValOK.of_eq rfl rfl rfl rfl rfl hv) hck'
    rcases hk : Agent.contact { a with forcePending := false } now with ⟨a1, o1⟩
    rw [hk] at h
    simp only []
    have h0 : LK T0 now ex a ({ a with forcePending := false } : Agent) :=
      LK.of_eq rfl rfl rfl rfl rfl rfl rfl rfl rfl rfl rfl
    exact (h0.trans h).trans (b := a1) (LK.of_eq rfl rfl rfl rfl rfl rfl rfl rfl rfl rfl rfl)
  · exact LK.refl _ _ _ _

/-! ## `handleSuccess` -/

theorem hsMark_lk (a : Agent) (l r : Cand) (p : Pair) (pd : Pending) (hfp : a.findPair l r = some p) :
    LK T0 now ex a (a.modPair p.id (hsMark pd)) := by
  refine LK.modPair a p.id (hsMark pd) (fun _ => rfl) (fun _ => rfl) (fun _ => rfl) (fun _ h => h)
    (fun _ _ _ _ => rfl) (fun _ _ _ h => h) ?_
  intro hinv q hq e _
  have : q = p := mem_unique hinv.ids hq (findPair_mem hfp) e
  subst this
  exact Or.inr (findPair_ends hfp)

theorem hsSel_lk (a : Agent) (p : Pair) (pd : Pending) : LK T0 now ex a (hsSel a p pd).1 := by
  rcases hsSel_cases a p pd with h | ⟨h, _⟩
  · rw [h]; exact LK.refl _ _ _ _
  · rw [h]; exact select_lk a p.id

/-- a controlled agent acting on a deferred nomination mark without a value has a selected pair afterwards -/
theorem hsSel_cld_sel (b : Agent) (p : Pair) (pd : Pending) (hc : b.controlling = false) (hn : p.nomOnSuccess = true)
    (hd : p.deferredNom = none) : (hsSel b p pd).1.selected.isSome = true := by
  unfold hsSel
  simp only [hc, hn, hd, if_true, Bool.false_eq_true, if_false]
  split
  · rw [select_selected]; rfl
  · rename_i sp hsp
    have hsome : b.selected.isSome = true := by
      cases hs : b.selected with
      | none => rw [hs] at hsp; cases hsp
      | some x => rfl
    split
    · exact hsome
    · split
      · rw [select_selected]; rfl
      · exact hsome

/-- the bookkeeping after the decision: the answered value is no field the frame reads; the deferred mark is
cleared only when it has been acted upon — then a pair is selected -/
theorem hsFin_lk (a2 : Agent) (p : Pair) (pd : Pending) (x : Agent)
    (hx : LInv x → a2.controlling = false → p.nomOnSuccess = true → x.selected.isSome = true) :
    LK T0 now ex x (hsFin a2 p pd x) := by
  unfold hsFin
  split
  · split
    · exact LK.of_eq rfl rfl rfl rfl rfl rfl rfl rfl rfl rfl rfl
    · exact LK.refl _ _ _ _
  · rename_i hc
    split
    · rename_i hn
      exact LK.modPair_sel x p.id hsClear (fun _ => rfl) (fun _ => rfl) (fun _ => rfl)
        (fun _ _ _ _ => Or.inr fun hi => hx hi (by simpa using hc) hn) (fun _ _ _ h => h) (fun _ _ _ _ => rfl)
        (fun _ _ _ _ h => Or.inl h)
    · exact LK.refl _ _ _ _

theorem handleSuccess_lk (a : Agent) (m : Msg) (l r : Cand) (src : Nat) :
    LK T0 now (some m.tid) a (a.handleSuccess now m l r src).1 := by
  rw [handleSuccess_eq]
  have h0 := takePending_lk (T0 := T0) (now := now) a m.tid
  generalize a.takePending now m.tid = tp at h0 ⊢
  obtain ⟨a1, pend⟩ := tp
  dsimp only at h0 ⊢
  cases pend with
  | none => exact h0
  | some pd =>
    dsimp only
    split
    · exact h0
    · split
      · exact h0
      · rename_i p hfind
        refine LK.trans (LK.trans (LK.trans (LK.trans h0 (hsMark_lk a1 l r p pd hfind)) (hsSel_lk _ p pd))
          (hsFin_lk (a1.modPair p.id (hsMark pd)) p pd _ ?_)) ?_
        · intro hi hc hn
          have hq : hsMark pd p ∈ (a1.modPair p.id (hsMark pd)).checklist := by
            have := mem_updPair_of_mem (id := p.id) (f := hsMark pd) (findPair_mem hfind)
            simp only [beq_self_eq_true, if_true] at this
            exact this
          have hd : p.deferredNom = none := by
            rcases hsSel_cases (a1.modPair p.id (hsMark pd)) p pd with e | ⟨e, _⟩
            · rw [e] at hi; exact hi.noDefer (hsMark pd p) hq
            · rw [e] at hi
              exact hi.noDefer { hsMark pd p with nominated := true } (select_mem (id := p.id) hq rfl)
          exact hsSel_cld_sel _ p pd hc hn hd
        · exact LK.modPair_keep _ p.id (Pair.gotResponse now pd.ts) (fun _ => rfl) (fun _ => rfl)
            (fun _ => rfl) (fun _ => rfl) (fun _ => rfl) (fun _ => rfl)

/-! ## the request handlers -/

theorem reqMark_lk (a : Agent) (id : Nat) (m : Msg) : LK T0 now ex a (a.modPair id (reqMark m)) :=
  LK.modPair_keep a id (reqMark m) (fun _ => rfl) (fun _ => rfl) (fun _ => rfl) (fun _ => rfl) (fun _ => rfl)
    (fun _ => rfl)

theorem nominate_lk (a : Agent) (p : Pair) : LK T0 now ex a (a.nominate now p).1 := by
  unfold Agent.nominate
  split
  · exact sendRequest_lk _ _ _ _ _
  · exact LK.refl _ _ _ _

/-- `ctlNominate` nominates only a valid pair, and only while nothing is nominated -/
theorem ctlNominate_cases' (a : Agent) (t : Nat) (l r : Cand) (p : Pair) (o : List Out) :
    ctlNominate a t l r p o = (a, o) ∨
    (p.state = .succeeded ∧ a.nominatedPair = none ∧
     ctlNominate a t l r p o =
      ((Agent.nominate { a with nominatedPair := some p.id } t p).1,
       o ++ (Agent.nominate { a with nominatedPair := some p.id } t p).2)) := by
  by_cases hc : (p.state == .succeeded && a.nominatedPair.isNone && a.selected.isNone) = true
  · rcases ctlNominate_cases a t l r p o with h | h
    · exact Or.inl h
    · simp only [Bool.and_eq_true, beq_iff_eq, Option.isNone_iff_eq_none] at hc
      exact Or.inr ⟨hc.1.1, hc.1.2, h⟩
  · left
    unfold ctlNominate
    rw [if_neg hc]

theorem ctlNominate_lk (a : Agent) (l r : Cand) (p : Pair) (o : List Out)
    (hq : ∃ q ∈ a.checklist, q.id = p.id ∧ q.state = p.state) : LK T0 now ex a (ctlNominate a now l r p o).1 := by
  rcases ctlNominate_cases' a now l r p o with h | ⟨hs, hn, h⟩
  · rw [h]; exact LK.refl _ _ _ _
  · rw [h]
    obtain ⟨q, hqm, hqid, hqs⟩ := hq
    exact (LK.setNominated a p.id hn ⟨q, hqm, hqid, hqs.trans hs⟩).trans (nominate_lk _ p)

theorem ctlHandleRequest_lk (a : Agent) (m : Msg) (l r : Cand) :
    LK T0 now ex a (a.ctlHandleRequest now m l r).1 := by
  rw [ctlHandleRequest_eq]
  have h1 := sendSuccess_lk (T0 := T0) (now := now) (ex := ex) a m l r
  generalize a.sendSuccess now m l r = ss at h1 ⊢
  obtain ⟨a1, o1⟩ := ss
  split
  · exact (h1.trans (addPair_lk a1 l r)).trans (reqMark_lk _ _ m)
  · rename_i p hfp
    refine (h1.trans (reqMark_lk a1 p.id m)).trans (ctlNominate_lk _ l r p o1 ⟨reqMark m p, ?_, rfl, rfl⟩)
    have := mem_updPair_of_mem (id := p.id) (f := reqMark m) (findPair_mem hfp)
    simp only [beq_self_eq_true, if_true] at this
    exact this

theorem cldPre_lk (a : Agent) (m : Msg) (l r : Cand) : LK T0 now ex a (cldPre a m l r).1 := by
  unfold cldPre
  split
  · exact reqMark_lk a _ m
  · exact (addPair_lk a l r).trans (reqMark_lk _ _ m)

theorem cldAccept_lk (a : Agent) (m : Msg) : LK T0 now ex a (cldAccept a m).1 := by
  rcases cldAccept_cases a m with h | ⟨v, h⟩
  · rw [h]; exact LK.refl _ _ _ _
  · rw [h]; exact LK.of_eq rfl rfl rfl rfl rfl rfl rfl rfl rfl rfl rfl

theorem cldLite_full (a : Agent) (id : Nat) (hfull : a.cfg.lite = false) : cldLite a id = a := by
  unfold cldLite
  rw [hfull]
  rfl

/-- full agent, no nomination value: the nomination block selects a valid pair or marks the pair for selection on
success (a lite agent would validate the pair here, whatever its ends) -/
theorem cldNom_lk' (a : Agent) (id : Nat) (m : Msg) (hnom : m.nom = none) (hfull : a.cfg.lite = false) :
    LK T0 now ex a (cldNom a id m).1 := by
  have hL := cldLite_full a id hfull
  rcases cldNom_cases a id m with ⟨h, _⟩ | ⟨_, h | ⟨p, _, _, _, h⟩ | ⟨p, _, _, h⟩⟩
  · rw [h]; exact LK.refl _ _ _ _
  · rw [h, hL]; exact LK.refl _ _ _ _
  · rw [h, hL]; exact select_lk a id
  · rw [h, hL]
    exact LK.modPair a id (fun p => { p with nomOnSuccess := true, deferredNom := m.nom }) (fun _ => rfl)
      (fun _ => rfl) (fun _ => rfl) (fun _ _ => rfl) (fun _ _ _ h => h) (fun _ _ _ _ => hnom)
      (fun _ _ _ _ h => Or.inl h)

theorem cldPing_lk (a : Agent) (l r : Cand) (id : Nat) : LK T0 now ex a (cldPing a now l r id).1 := by
  unfold cldPing
  split
  · split
    · exact ping_lk _ _ _
    · exact LK.refl _ _ _ _
  · exact LK.refl _ _ _ _

theorem cldTail_lk (a : Agent) (m : Msg) (l r : Cand) (id : Nat) (o : List Out) :
    LK T0 now ex a (cldTail a now m l r id o).1 := by
  unfold cldTail
  exact (sendSuccess_lk a m l r).trans (cldPing_lk _ l r id)

/-- `cldHandleRequest_lk` holds for FULL agents only: a lite agent validates the pair the nomination arrived on
(`state := .succeeded`) even when that pair was just created for candidates `l`, `r` that are not listed. -/
theorem cldHandleRequest_lk' (a : Agent) (m : Msg) (l r : Cand) (hnom : m.nom = none) (hfull : a.cfg.lite = false) :
    LK T0 now ex a (a.cldHandleRequest now m l r).1 := by
  rw [cldHandleRequest_eq]
  have h2 : LK T0 now ex a (cldAccept (cldPre a m l r).1 m).1 := (cldPre_lk a m l r).trans (cldAccept_lk _ m)
  have hf2 : (cldAccept (cldPre a m l r).1 m).1.cfg.lite = false := by
    have e1 := (cldAccept_hok (wp := True) (ex := True) (cldPre a m l r).1 m).cfg
    have e2 := (cldPre_hok a m l r).1.cfg
    simp only [] at e1 e2
    rw [e1, e2]
    exact hfull
  split
  · exact h2.trans (sendSuccess_lk _ m l r)
  · exact (h2.trans (cldNom_lk' _ _ m hnom hf2)).trans (cldTail_lk _ m l r _ _)

/-! ## peer-reflexive discovery -/

theorem requestCheck_lk (a : Agent) : LK T0 now ex a a.requestCheck :=
  LK.of_eq rfl rfl rfl rfl rfl rfl rfl rfl rfl rfl rfl

/-- `addRemoteCandidate` on a peer-reflexive candidate (nothing is superseded) of network type UDP4 whose
transport address no listed remote candidate has: the candidate is appended (or was there / is filtered out), and
fresh pairs are appended. -/
theorem addRemoteCandidate_prflx_lk (a : Agent) (c : Cand) (hty : c.ty = 3) (hnet : c.net = 0)
    (hfresh : CandsOK a.remotes → ∀ x ∈ a.remotes, x.addr ≠ c.addr) :
    LK T0 now ex a (a.addRemoteCandidate c).1 := by
  unfold Agent.addRemoteCandidate
  split
  · exact LK.refl _ _ _ _
  split
  · exact LK.refl _ _ _ _
  simp only [hty]
  simp only [beq_self_eq_true, if_true, List.foldl_nil, List.any_nil, Bool.not_false]
  have hft : ∀ l : List Cand, l.filter (fun _ => true) = l := by intro l; simp
  rw [hft]
  refine LK.trans ?_ (requestCheck_lk _)
  refine IceProofs.List.foldl_inv (fun b : Agent => LK T0 now ex a b) _ _ _ ?_ ?_
  · exact LK.addRemote a { c with uid := a.nextUid, ty := 3 } (a.nextUid + 1) hnet ⟨by show 1 ≤ 3; decide, by show 3 ≤ 4; decide⟩ hfresh
  · intro b l h
    split
    · exact h
    · exact h.trans (addPair_lk b l _)

theorem hiDisc_lk (a : Agent) (l : Cand) (src : Nat) (m : Msg) (hnet : l.net = 0) :
    LK T0 now ex a (hiDisc a l src m).1 := by
  unfold hiDisc
  split
  · exact LK.refl _ _ _ _
  · rename_i hf
    refine addRemoteCandidate_prflx_lk a _ rfl hnet ?_
    intro hc x hx e
    have hx' := List.find?_eq_none.mp hf x hx
    apply hx'
    have e' : x.addr = src := e
    simp [(hc.1 x hx).1, hnet, e']

theorem hiDisc_core (a : Agent) (l : Cand) (src : Nat) (m : Msg) : (hiDisc a l src m).1.core = a.core := by
  unfold hiDisc
  split
  · rfl
  · exact core_addRemoteCandidate a _

/-! ## `handleInbound` -/

theorem hiReq_lk' (a : Agent) (l r : Cand) (m : Msg) (o0 : List Out) (h0 : T0 ≤ now) (hnom : m.nom = none)
    (hfull : a.cfg.lite = false) : LK T0 now ex a (hiReq a now l r m o0).1 := by
  unfold hiReq
  cases a.controlling
  · simp only [Bool.false_eq_true, if_false]
    exact (cldHandleRequest_lk' a m l r hnom hfull).trans (seenRemoteRecv_lk _ _ _ h0)
  · simp only [if_true]
    exact (ctlHandleRequest_lk a m l r).trans (seenRemoteRecv_lk _ _ _ h0)

theorem hiRole_lk' (a : Agent) (l r : Cand) (m : Msg) (o0 : List Out) (h0 : T0 ≤ now) (hnom : m.nom = none)
    (hnc : NoConflict a m) (hfull : a.cfg.lite = false) : LK T0 now ex a (hiRole a now l r m o0).1 := by
  unfold hiRole
  split
  · rename_i ctl tb hr
    split
    · rename_i hc
      exact absurd (by simpa using hc) (hnc ctl tb hr)
    · exact hiReq_lk' a l r m o0 h0 hnom hfull
  · exact hiReq_lk' a l r m o0 h0 hnom hfull

/-- one walk through `handleInbound`: nothing is consumed, or the message is a success response -/
theorem handleInbound_lk_aux (a : Agent) (l : Cand) (src : Nat) (m : Msg) (h0 : T0 ≤ now) (hnet : l.net = 0)
    (hfull : a.cfg.lite = false) (hok : AuthRequest a m → m.nom = none ∧ NoConflict a m) :
    LK T0 now none a (a.handleInbound now l src m).1 ∨
    (m.cls = 2 ∧ LK T0 now (some m.tid) a (a.handleInbound now l src m).1) := by
  rw [handleInbound_eq]
  split
  · exact Or.inl (LK.refl _ _ _ _)
  · rename_i hmeth
    split
    · rename_i hcls
      have hc2 : m.cls = 2 := by simpa using hcls
      split
      · exact Or.inl (LK.refl _ _ _ _)
      · split
        · exact Or.inl (LK.refl _ _ _ _)
        · rename_i r _
          exact Or.inr ⟨hc2, (handleSuccess_lk a m l r src).trans (seenRemoteRecv_lk _ _ _ h0)⟩
    · split
      · rename_i hcls0
        split
        · exact Or.inl (LK.refl _ _ _ _)
        · rename_i huser
          split
          · exact Or.inl (LK.refl _ _ _ _)
          · rename_i hkey
            have hauth : AuthRequest a m := by
              simp only [Bool.not_eq_true, Bool.not_eq_false', Bool.and_eq_true, beq_iff_eq] at hmeth
              refine ⟨hmeth.1, by simpa using hcls0, by simpa using huser, by simpa using hkey⟩
            obtain ⟨hnom, hnc⟩ := hok hauth
            have hd := hiDisc_lk (T0 := T0) (now := now) (ex := none) a l src m hnet
            have hcore := hiDisc_core a l src m
            have hctl : (hiDisc a l src m).1.controlling = a.controlling := congrArg Core.controlling hcore
            have hcfg : (hiDisc a l src m).1.cfg = a.cfg := congrArg Core.cfg hcore
            split
            · exact Or.inl hd
            · refine Or.inl (hd.trans (hiRole_lk' _ l _ m _ h0 hnom ?_ (by rw [hcfg]; exact hfull)))
              intro ctl tb hr
              rw [hctl]
              exact hnc ctl tb hr
      · split
        · exact Or.inl (seenRemoteRecv_lk _ _ _ h0)
        · exact Or.inl (LK.refl _ _ _ _)

/-- inbound STUN on a FULL agent: a success response may consume its transaction (`ex`); an authenticated request
must carry no nomination value and no conflicting role attribute.  (For a lite agent the statement fails: see
`cldHandleRequest_lk'`.) -/
theorem handleInbound_lk' (a : Agent) (l : Cand) (src : Nat) (m : Msg) (h0 : T0 ≤ now) (hnet : l.net = 0)
    (hfull : a.cfg.lite = false) (hok : AuthRequest a m → m.nom = none ∧ NoConflict a m) :
    LK T0 now (if m.cls = 2 then some m.tid else none) a (a.handleInbound now l src m).1 := by
  rcases handleInbound_lk_aux (T0 := T0) a l src m h0 hnet hfull hok with h | ⟨hc, h⟩
  · exact h.weaken
  · rw [if_pos hc]; exact h

/-! ## why `cldHandleRequest_lk` / `handleInbound_lk` need a full agent

A lite controlled agent validates the pair a nomination arrives on (`cldLite`), even a pair that `cldPre` has just
created for candidates that are not listed: `SuccEnds` breaks, so `LK.inv` fails. -/

theorem linv_liteEmpty : LInv ({ cfg := { lite := true } } : Agent) := by
  refine ⟨⟨?_, List.Pairwise.nil⟩, ⟨?_, List.Pairwise.nil⟩, ?_, ?_, ?_, ⟨?_, List.Pairwise.nil⟩, ?_⟩
  · intro _ hp; cases hp
  · intro _ hp; cases hp
  · intro _ hp; cases hp
  · intro _ hp; cases hp
  · intro _ hn; cases hn
  · intro _ hp; cases hp
  · intro hs; cases hs

/-- the unprimed statement `cldHandleRequest_lk` (no `hfull`) is false -/
theorem cldHandleRequest_lk_needs_full :
    ¬ ∀ (T0 now : Nat) (ex : Option Nat) (a : Agent) (m : Msg) (l r : Cand), m.nom = none →
      LK T0 now ex a (a.cldHandleRequest now m l r).1 := by
  intro h
  have hk := h 0 0 none { cfg := { lite := true } } { cls := 0, tid := 5, useCand := true }
    { uid := 7, ty := 1, net := 0, addr := 16, prio := 1 } { uid := 9, ty := 1, net := 0, addr := 32, prio := 1 } rfl
  have hinv := linv_liteEmpty
  have := (hk.inv hinv).succEnds
  revert this
  unfold SuccEnds
  decide

/-- the unprimed statement `handleInbound_lk` (no `hfull`) is false -/
theorem handleInbound_lk_needs_full :
    ¬ ∀ (T0 now : Nat) (a : Agent) (l : Cand) (src : Nat) (m : Msg), T0 ≤ now → l.net = 0 →
      (AuthRequest a m → m.nom = none ∧ NoConflict a m) →
      LK T0 now (if m.cls = 2 then some m.tid else none) a (a.handleInbound now l src m).1 := by
  intro h
  have hk := h 0 0 { cfg := { lite := true } } { uid := 7, ty := 1, net := 0, addr := 16, prio := 1 } 32
    { cls := 0, tid := 5, useCand := true, user := some ":", key := some "" } (Nat.le_refl 0) rfl
    (fun _ => ⟨rfl, fun _ _ hr => by cases hr⟩)
  have hinv := linv_liteEmpty
  have := (hk.inv hinv).succEnds
  revert this
  unfold SuccEnds
  decide

end IceProofs.C01Live
