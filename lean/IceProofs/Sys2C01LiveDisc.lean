import IceProofs.Sys2C01LiveWide
/-!
# C01 liveness, layer 18 — convergence from the FIRST VALID PAIR on (round 4)

`converge_fair` needs `Start c s` (a valid / selected pair, or a pair under budget on a `Link`) in the START state of the
suffix, and uses it in one place only: `first_valid`.  Here the two halves are separated:

* `ValidBy c B s es` (decidable, a property of the schedule): at some split point of `es` not later than `B` the
  controlling agent has a Succeeded or selected pair — however that pair came into being (in particular: created by a
  peer-reflexive discovery INSIDE the suffix, the controlled agent's check being the first datagram on that route);
* `converge_fair_from`: `FInv` + `ValidBy … B` ⇒ both agents selected and Connected once the clock is beyond
  `validBound = max B nomTime + 2 s + 2 J + 4 L`;  no `Start` hypothesis;
* `first_valid_by`: `Start c s` ⇒ `ValidBy c (now + 2 s + J + 2 L)` on every fair suffix whose clock passes that time
  (`first_valid` restated).
-/
namespace IceProofs.C01Live
open IceModel.AgentCore IceModel.Sys2 IceProofs.Sys2Run IceProofs.C01 IceProofs.Agent

/-- at a split point of the schedule `es` (run from `s`) whose clock is at most `B`, the agent `c` has a Succeeded or a
selected pair -/
def ValidBy (c : Bool) (B : Nat) : Sys → List SysEv → Prop
  | s, [] => (HasSucc s c ∨ Sel s c) ∧ s.now ≤ B
  | s, e :: es => ((HasSucc s c ∨ Sel s c) ∧ s.now ≤ B) ∨ ValidBy c B (Sys.run s e) es

/-- decidable (structural recursion on the schedule) -/
def ValidBy.dec (c : Bool) (B : Nat) : (s : Sys) → (es : List SysEv) → Decidable (ValidBy c B s es)
  | s, [] => by unfold ValidBy; exact inferInstance
  | s, e :: es =>
    have := ValidBy.dec c B (Sys.run s e) es
    by unfold ValidBy; exact inferInstance

instance (c : Bool) (B : Nat) (s : Sys) (es : List SysEv) : Decidable (ValidBy c B s es) := ValidBy.dec c B s es

theorem ValidBy.split {c : Bool} {B : Nat} {s : Sys} {es : List SysEv} (h : ValidBy c B s es) :
    ∃ e1 e2, es = e1 ++ e2 ∧ (HasSucc (Sys.runs s e1) c ∨ Sel (Sys.runs s e1) c) ∧ (Sys.runs s e1).now ≤ B := by
  induction es generalizing s with
  | nil => exact ⟨[], [], rfl, h.1, h.2⟩
  | cons e es ih =>
    rcases h with h | h
    · exact ⟨[], e :: es, rfl, h.1, h.2⟩
    · obtain ⟨e1, e2, q1, q2, q3⟩ := ih h
      exact ⟨e :: e1, e2, by rw [q1]; rfl, q2, q3⟩

theorem ValidBy.of_split {c : Bool} {B : Nat} {s : Sys} {e1 e2 : List SysEv}
    (hv : HasSucc (Sys.runs s e1) c ∨ Sel (Sys.runs s e1) c) (hn : (Sys.runs s e1).now ≤ B) :
    ValidBy c B s (e1 ++ e2) := by
  induction e1 generalizing s with
  | nil =>
    cases e2 with
    | nil => exact ⟨hv, hn⟩
    | cons e es => exact Or.inl ⟨hv, hn⟩
  | cons e e1 ih => exact Or.inr (ih hv hn)

/-- a later deadline is weaker -/
theorem ValidBy.mono {c : Bool} {B B' : Nat} {s : Sys} {es : List SysEv} (h : ValidBy c B s es) (hB : B ≤ B') :
    ValidBy c B' s es := by
  obtain ⟨e1, e2, q1, q2, q3⟩ := h.split
  rw [q1]
  exact ValidBy.of_split q2 (Nat.le_trans q3 hB)

/-- the time by which a fair suffix has converged when the controlling agent has its first valid pair by `B` -/
def validBound (c : Bool) (L J B : Nat) (s : Sys) : Nat :=
  max B (nomTime c s) + 2000000000 + 2 * J + 4 * L

section
variable {nat blocked : List (Nat × Nat)} {SLA SLB SR : Nat → Prop} {liteA liteB : Bool} {T0 H J L : Nat} {c : Bool}

/-- **`Start` gives the first valid pair** within `2 s + J + 2 L` (`first_valid`, as a `ValidBy`) -/
theorem first_valid_by {s : Sys} {es : List SysEv} (h : FInv nat blocked SLA SLB SR liteA liteB T0 H J c s)
    (hs : SufOK c H J s es) (hf : FairL L s es) (hL : J + 2 * L < maxBindingRequestTimeout) (hst : Start c s)
    (hend : s.now + 2000000000 + J + 2 * L < (Sys.runs s es).now) :
    ValidBy c (s.now + 2000000000 + J + 2 * L) s es := by
  obtain ⟨t0, ht0, l1, l2⟩ := h.tick
  obtain ⟨e1, e2, q1, q2, q3⟩ := first_valid h hs hf hL hst ht0 (by omega)
  rw [q1]
  exact ValidBy.of_split q2 (by omega)

/-- **convergence from the first valid pair on**: no hypothesis on the pairs of the start state. -/
theorem converge_fair_from {s : Sys} {es : List SysEv} {B : Nat} (h : FInv nat blocked SLA SLB SR liteA liteB T0 H J c s)
    (hs : SufOK c H J s es) (hf : FairL L s es) (hL : J + 2 * L < maxBindingRequestTimeout)
    (hlink : NomSeen c s → DPY c L s) (hv : ValidBy c B s es) (hend : validBound c L J B s < (Sys.runs s es).now) :
    ∀ x, Sel (Sys.runs s es) x ∧ ((Sys.runs s es).agent x).connState = .connected := by
  unfold validBound at hend
  have hmL := Nat.le_max_left B (nomTime c s)
  have hmR := Nat.le_max_right B (nomTime c s)
  -- the first valid pair
  obtain ⟨e1, e2, q1, q2, q3⟩ := hv.split
  subst q1
  have h1 := h.runs hs.head
  have hend1 := hend
  rw [Sys.runs_append] at hend1
  -- the controlling agent selects
  have hN : nomTime c (Sys.runs s e1) = nomTime c s := by
    obtain ⟨st1, st2⟩ := static_runs h hs.head c
    unfold nomTime; rw [st1, st2]
  have hmax : max (Sys.runs s e1).now (nomTime c (Sys.runs s e1)) ≤ max B (nomTime c s) := by
    rw [hN]
    exact Nat.max_le.mpr ⟨by omega, hmR⟩
  obtain ⟨f1, f2, r1, r2, r3⟩ := ctl_selected h1 hs.tail hf.tail hL q2 (by omega)
  subst r1
  have hselC : Sel (Sys.runs s (e1 ++ f1)) c := by rw [Sys.runs_append]; exact r2
  have hnowC : (Sys.runs s (e1 ++ f1)).now ≤ max B (nomTime c s) + 2000000000 + 2 * J + 2 * L := by
    rw [Sys.runs_append]; omega
  have hsAll : SufOK c H J s ((e1 ++ f1) ++ f2) := by rw [List.append_assoc]; exact hs
  have hfAll : FairL L s ((e1 ++ f1) ++ f2) := by rw [List.append_assoc]; exact hf
  have hendAll : max B (nomTime c s) + 2000000000 + 2 * J + 4 * L < (Sys.runs s ((e1 ++ f1) ++ f2)).now := by
    rw [List.append_assoc]; exact hend
  -- the controlled agent follows
  have hselD : Sel (Sys.runs s ((e1 ++ f1) ++ f2)) (!c) := by
    by_cases hseen : NomSeen c s
    · have hnow0 : s.now ≤ (Sys.runs s (e1 ++ f1)).now := now_le_runs h hsAll.head
      obtain ⟨g1, g2, p1, p2, _⟩ := dpy_completes h hsAll hfAll (hlink hseen) (by omega)
      rw [p1] at hsAll ⊢
      exact sel_to_end h hsAll p2
    · obtain ⟨g1, g2, p1, p2⟩ := first_seen h hsAll.head hseen (Or.inl hselC)
      have hsP : SufOK c H J s (g1 ++ (g2 ++ f2)) := by rw [← List.append_assoc, ← p1]; exact hsAll
      have hfP : FairL L s (g1 ++ (g2 ++ f2)) := by rw [← List.append_assoc, ← p1]; exact hfAll
      have hg1 := h.runs hsP.head
      have hnow1 : (Sys.runs s g1).now ≤ (Sys.runs s (e1 ++ f1)).now := by
        rw [p1, Sys.runs_append]
        have : SufOK c H J s (g1 ++ g2) := by rw [← p1]; exact hsAll.head
        exact now_le_runs hg1 this.tail
      have hendP : (Sys.runs s g1).now + 2 * L < (Sys.runs (Sys.runs s g1) (g2 ++ f2)).now := by
        rw [← Sys.runs_append, ← List.append_assoc, ← p1]; omega
      obtain ⟨k1, k2, p3, p4, _⟩ := dpy_completes hg1 hsP.tail hfP.tail (p2.dpy (by omega)) hendP
      have e : (e1 ++ f1) ++ f2 = (g1 ++ k1) ++ k2 := by rw [p1, List.append_assoc, p3, List.append_assoc]
      rw [e] at hsAll ⊢
      exact sel_to_end h hsAll (by rw [Sys.runs_append]; exact p4)
  have hselC' : Sel (Sys.runs s ((e1 ++ f1) ++ f2)) c := sel_to_end h hsAll hselC
  have hfin := h.runs hsAll
  rw [List.append_assoc] at hselC' hselD hfin
  intro x
  have hsx : Sel (Sys.runs s (e1 ++ (f1 ++ f2))) x := by
    by_cases hx : x = c
    · subst hx; exact hselC'
    · rw [bool_ne_eq_not hx]; exact hselD
  exact ⟨hsx, (hfin.ok.good x).linv.selConn hsx⟩

end

end IceProofs.C01Live
