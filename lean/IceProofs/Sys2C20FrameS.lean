import IceProofs.Sys2C20FrameI
/-!
# C20 on `Sys2` — the frame relation across `step`: every event but an inbound STUN message; the inbound
event reduced to `handleInbound` + forced tick; the event-level vocabulary (`answerOf`, `acceptAt`, `reqPair`)
in terms of the handler-level one
-/
namespace IceProofs.C20S
open IceModel.AgentCore IceProofs.Agent IceProofs.AgentC06

/-! ## data plane -/

theorem writeVia_g {wa : Bool} (a : Agent) (now : Nat) (p : Pair) (len : Nat) :
    G wa none none none a (a.writeVia now p len).1 := by
  unfold Agent.writeVia
  split
  · simp only []
    split
    · exact (seenLocalSent_g a _ now).trans (G.modPair_keep _ _
        (fun q => { q with pktSent := q.pktSent + 1, bytesSent := q.bytesSent + len })
        (fun _ => rfl) (fun _ => rfl) (fun _ => rfl) (fun _ => rfl))
    · exact seenLocalSent_g a _ now
  · exact G.refl _ _ _ _ _

theorem write_g {wa : Bool} (a : Agent) (now len : Nat) (sl : Bool) : G wa none none none a (a.write now len sl).1 := by
  unfold Agent.write
  split
  · exact G.refl _ _ _ _ _
  · split
    · exact G.refl _ _ _ _ _
    · split
      · exact G.refl _ _ _ _ _
      · rename_i p _
        have h := writeVia_g (wa := wa) a now p len
        rcases hk : a.writeVia now p len with ⟨a1, o1⟩
        rw [hk] at h
        simp only []
        exact h.trans (b := a1) (G.of_eq rfl rfl rfl rfl (fun _ h => h) rfl)

theorem writeToPair_g {wa : Bool} (a : Agent) (now id len : Nat) (sl : Bool) :
    G wa none none none a (a.writeToPair now id len sl).1 := by
  unfold Agent.writeToPair
  split
  · exact G.refl _ _ _ _ _
  · split
    · exact G.refl _ _ _ _ _
    · split
      · exact G.refl _ _ _ _ _
      · split
        · exact G.refl _ _ _ _ _
        · exact writeVia_g a now _ len

theorem idFind_g {wa : Bool} (a : Agent) (now : Nat) (l : Cand) (src : Nat) :
    G wa none none none a (C03.idFind a now l src).1 := by
  unfold C03.idFind
  split
  · exact seenRemoteRecv_g _ _ _
  · split
    · rename_i r _
      exact (seenRemoteRecv_g a r.uid now).trans (G.of_eq rfl rfl rfl rfl (fun _ h => h) rfl)
    · exact G.refl _ _ _ _ _

theorem idCount_g {wa : Bool} (a : Agent) (len : Nat) : G wa none none none a (C03.idCount a len) := by
  unfold C03.idCount
  have h1 : G wa none none none a ({ a with rx := a.rx ++ [len] } : Agent) :=
    G.of_eq rfl rfl rfl rfl (fun _ h => h) rfl
  simp only []
  split
  · split
    · exact h1.trans (G.modPair_keep _ _
        (fun p => { p with pktRecv := p.pktRecv + 1, bytesRecv := p.bytesRecv + len })
        (fun _ => rfl) (fun _ => rfl) (fun _ => rfl) (fun _ => rfl))
    · exact h1
  · exact h1

theorem inboundData_g {wa : Bool} (a : Agent) (now : Nat) (l : Cand) (src len : Nat) :
    G wa none none none a (a.inboundData now l src len).1 := by
  rw [C03.inboundData_eq]
  split
  · exact idFind_g a now l src
  split
  · exact idFind_g a now l src
  · exact (idFind_g a now l src).trans (idCount_g _ len)

/-! ## a forced tick after a handler -/

theorem thenForced {exs exp : Option Nat} {iss : Option (Nat × Nat × Nat)} {a b : Agent} (now : Nat)
    (h : G true exs exp iss a b) (hb : (idsOf b).Nodup) (hnf : (b.runForced now).1.connState ≠ .failed) :
    G true exs exp iss a (b.runForced now).1 ∧ G true none none none b (b.runForced now).1 := by
  rcases runForced_gf (wa := true) b now hb with h2 | h2
  · exact ⟨h.then h2, h2⟩
  · exact absurd h2 hnf

/-! ## every event but an inbound STUN message -/

theorem step_other_g {a : Agent} (hi : Inv a) (hst : a.started = true) (e : Ev) (hk : keeps e = true)
    (hne : ∀ now la src m, e ≠ .inbound now la src m) (hnf : (step a e).1.connState ≠ .failed) :
    G true none none (issueOf a e) a (step a e).1 := by
  cases e with
  | addLocal now c =>
    exact (thenForced now (addLocalCandidate_g a c) (hi.addLocalCandidate c).idsNodup hnf).1
  | addRemote now c =>
    generalize hres : step a (.addRemote now c) = res at hnf ⊢
    simp only [step] at hres
    split at hres
    · subst hres; exact G.refl _ _ _ _ _
    · rename_i hc
      have hc' : a.closed = false := by simpa using hc
      split at hres
      · subst hres; exact G.refl _ _ _ _ _
      subst hres
      exact (thenForced now (addRemoteCandidate_g hi c hc') (hi.addRemoteCandidate c hc').1.idsNodup hnf).1
  | start now ctl ru rp =>
    rw [C03.step_start_eq]
    split
    · exact G.refl _ _ _ _ _
    · exact G.refl _ _ _ _ _
  | setRemoteCreds ru rp =>
    simp only [step]
    split
    · exact G.refl _ _ _ _ _
    · split
      · exact G.refl _ _ _ _ _
      · split
        · exact G.refl _ _ _ _ _
        · exact G.of_eq rfl rfl rfl rfl (fun _ h => h) rfl
  | advance now =>
    rcases runTimers_gf (wa := true) a now 100000 hi.idsNodup with h | h
    · exact h
    · exact absurd h hnf
  | inbound now la src m => exact absurd rfl (hne now la src m)
  | inboundData now la src len sl =>
    simp only [step]
    split
    · exact G.refl _ _ _ _ _
    · split
      · exact G.refl _ _ _ _ _
      · exact inboundData_g a now _ src len
  | write now len sl => exact write_g a now len sl
  | writeToPair now id len sl => exact writeToPair_g a now id len sl
  | read =>
    simp only [step]
    split
    · exact G.refl _ _ _ _ _
    · split
      · exact G.refl _ _ _ _ _
      · exact G.of_eq rfl rfl rfl rfl (fun _ h => h) rfl
  | renominate now la ri v =>
    simp only [step]
    split
    · exact G.refl _ _ _ _ _
    · rename_i hctl
      split
      · exact G.refl _ _ _ _ _
      · rename_i hen
        split
        · rename_i l r hl hr
          split
          · exact G.refl _ _ _ _ _
          · rename_i p hp
            exact (issueRequest_g (wa := true) a now l r v).w
        · exact G.refl _ _ _ _ _
  | restart now u p => cases hk
  | close => cases hk

/-! ## the inbound event -/

theorem step_inbound_form (a : Agent) (now la src : Nat) (m : Msg) (l : Cand) (hc : a.closed = false)
    (hst : a.started = true) (hl : a.localByAddr la = some l) :
    (step a (.inbound now la src m)).1 = ((a.handleInbound now l src m).1.runForced now).1 := by
  rw [C03.step_inbound_proj]
  simp [hc, hst, hl]

/-- the event does not reach `handleInbound`: nothing happens -/
theorem step_inbound_skip (a : Agent) (now la src : Nat) (m : Msg)
    (h : a.closed = true ∨ a.started = false ∨ a.localByAddr la = none) :
    (step a (.inbound now la src m)).1 = a ∧ inboundOn a (.inbound now la src m) = none := by
  rw [C03.step_inbound_proj]
  unfold inboundOn
  rcases h with h | h | h
  · simp [h]
  · simp [h]
  · simp only [h, Option.map_none]
    constructor
    · split <;> rfl
    · split <;> rfl

theorem inboundOn_some (a : Agent) (now la src : Nat) (m : Msg) (l : Cand) (hc : a.closed = false)
    (hst : a.started = true) (hl : a.localByAddr la = some l) :
    inboundOn a (.inbound now la src m) = some (now, l, src, m) := by
  unfold inboundOn
  simp [hc, hst, hl]

theorem answerOf_of_inboundOn_none (a : Agent) (e : Ev) (h : inboundOn a e = none) : answerOf a e = none := by
  unfold answerOf; rw [h]

theorem acceptAt_of_inboundOn_none (a : Agent) (e : Ev) (h : inboundOn a e = none) : acceptAt a e = none := by
  have : accepted a e = none := by
    unfold accepted offer cldDeliversEv
    rw [h]; rfl
  unfold acceptAt
  cases e <;> first | rfl | (simp only [this]; rfl)

theorem answerOf_inbound (a : Agent) (now la src : Nat) (m : Msg) (l : Cand) (hc : a.closed = false)
    (hst : a.started = true) (hl : a.localByAddr la = some l) :
    answerOf a (.inbound now la src m) = (ansOf a now l src m).map fun x => (x.1, x.2.id) := by
  unfold answerOf
  rw [inboundOn_some a now la src m l hc hst hl]
  unfold ansOf
  simp only []
  split
  · cases a.findRemote l.net src with
    | none => rfl
    | some r =>
      simp only []
      unfold ansPair
      cases (a.takePending now m.tid).2 with
      | none => rfl
      | some pd =>
        simp only []
        split
        · cases a.findPair l r <;> rfl
        · rfl
  · rfl

theorem accepted_inbound (a : Agent) (now la src : Nat) (m : Msg) (l : Cand) (hc : a.closed = false)
    (hst : a.started = true) (hl : a.localByAddr la = some l) :
    accepted a (.inbound now la src m) =
      if cldDelivers a l src m then
        match m.nom with
        | some v => if (shouldAcceptNomination (some v) a.lastNomination).2 then some v else none
        | none => none
      else none := by
  unfold accepted offer cldDeliversEv
  rw [inboundOn_some a now la src m l hc hst hl]
  simp only []
  by_cases hd : cldDelivers a l src m = true
  · rw [if_pos hd, if_pos hd]
    simp only [Option.bind_some]
    cases m.nom <;> rfl
  · rw [if_neg hd, if_neg hd]
    rfl

theorem acceptAt_some {a : Agent} {now la src : Nat} {m : Msg} {l : Cand} (hc : a.closed = false)
    (hst : a.started = true) (hl : a.localByAddr la = some l) {v la' src' : Nat}
    (h : acceptAt a (.inbound now la src m) = some (v, la', src')) :
    cldDelivers a l src m = true ∧ m.nom = some v ∧ (shouldAcceptNomination (some v) a.lastNomination).2 = true ∧
      la' = la ∧ src' = src := by
  unfold acceptAt at h
  simp only [] at h
  rw [accepted_inbound a now la src m l hc hst hl] at h
  by_cases hd : cldDelivers a l src m = true
  · rw [if_pos hd] at h
    cases hn : m.nom with
    | none => rw [hn] at h; cases h
    | some w =>
      rw [hn] at h
      simp only [] at h
      by_cases hacc : (shouldAcceptNomination (some w) a.lastNomination).2 = true
      · rw [if_pos hacc] at h
        simp only [Option.map_some, Option.some.injEq, Prod.mk.injEq] at h
        obtain ⟨rfl, rfl, rfl⟩ := h
        exact ⟨hd, rfl, hacc, rfl, rfl⟩
      · rw [if_neg hacc] at h; cases h
  · rw [if_neg hd] at h; cases h

theorem acceptAt_none {a : Agent} {now la src : Nat} {m : Msg} {l : Cand} (hc : a.closed = false)
    (hst : a.started = true) (hl : a.localByAddr la = some l)
    (h : acceptAt a (.inbound now la src m) = none) (hd : cldDelivers a l src m = true) (v : Nat)
    (hn : m.nom = some v) : (shouldAcceptNomination (some v) a.lastNomination).2 = false := by
  unfold acceptAt at h
  simp only [] at h
  rw [accepted_inbound a now la src m l hc hst hl, if_pos hd, hn] at h
  simp only [] at h
  cases hacc : (shouldAcceptNomination (some v) a.lastNomination).2 with
  | false => rfl
  | true => rw [hacc] at h; simp at h

theorem reqPair_inbound (a : Agent) (now la src : Nat) (m : Msg) (l : Cand) (hc : a.closed = false)
    (hst : a.started = true) (hl : a.localByAddr la = some l) {a1 : Agent} {o0 : List Out} {r : Cand}
    (hres : resolveSource a l src m = (a1, o0, some r)) :
    reqPair a (.inbound now la src m) = some (ensurePair a1 l r).2.id := by
  unfold reqPair
  rw [inboundOn_some a now la src m l hc hst hl]
  simp only []
  rw [hres]

end IceProofs.C20S
