import IceModel.Gather
import IceProofs.GatherComplete
/-!
The cycle component of the composed model is always a state of the cycle machine reached from its
initial state: the agent model changes it through `Cycle.step` only.  Hence every theorem about
`Cycle.run false {} evs` (`IceProofs.GatherCyc`) applies to the agent model that is compared with
the implementation.
-/
namespace IceProofs.GatherCycReach
open IceModel.Gather IceProofs.GatherAgent IceProofs.GatherComplete

/-- reached by the cycle machine from the initial state of an agent with gathering policy `k` -/
def Reach (k : Bool) (c : Cycle.State) : Prop := ∃ evs : List Cycle.Ev, c = (Cycle.run false { continual := k } evs).1

theorem run_append (r : Bool) : ∀ (a b : List Cycle.Ev) (s : Cycle.State),
    (Cycle.run r s (a ++ b)).1 = (Cycle.run r (Cycle.run r s a).1 b).1 := by
  intro a
  induction a with
  | nil => intro b s; rfl
  | cons e a ih => intro b s; simp only [List.cons_append, Cycle.run]; exact ih b _

theorem reach_step {k : Bool} {c : Cycle.State} (h : Reach k c) (e : Cycle.Ev) : Reach k (Cycle.step false c e).1 := by
  obtain ⟨evs, rfl⟩ := h
  refine ⟨evs ++ [e], ?_⟩
  rw [run_append]
  simp [Cycle.run]

theorem reach_init (k : Bool) : Reach k ({ continual := k } : Cycle.State) := ⟨[], rfl⟩

theorem resume_cyc (s : MState) (pick : Job → Option (Ans × Nat)) : (resume s pick).cyc = s.cyc := by
  unfold resume
  have key : ∀ (todo : List Job) (s0 : MState),
      (todo.foldl (fun s j =>
        match pick j with
        | none => s
        | some (a, m) => settle (exec s { j with answer := some a, m := m } j.prog)) s0).cyc = s0.cyc := by
    intro todo
    induction todo with
    | nil => intro s0; rfl
    | cons j todo ih =>
      intro s0
      simp only [List.foldl_cons]
      rw [ih]
      cases pick j with
      | none => rfl
      | some am => obtain ⟨a, m⟩ := am; exact (run_keeps s0 _ _).cyc
  exact key _ _

theorem runHost_cyc (s : MState) (c gen : Nat) : (runHost s c gen).cyc = s.cyc := by
  unfold runHost
  exact ((runHostMux_keeps c gen _ _ s).trans (foldl_keeps _ (fun s u => startUnit_keeps s c gen u) _ _)).cyc

theorem runCycleUnits_cyc (s : MState) (c gen : Nat) : (runCycleUnits s c gen).cyc = s.cyc := by
  unfold runCycleUnits
  have : ∀ (l : List CandType) (s0 : MState), (l.foldl (fun s t =>
      match t with
      | .host => if s.gateClosed && s.cfg.udpMux.isSome then { s with heldCycles := s.heldCycles ++ [c] } else runHost s c gen
      | .srflx => (srflxAllUnits s.cfg s.ifs).foldl (fun s u => startUnit s c gen u) s
      | .relay => (relayUnits s.cfg s.ifs).foldl (fun s u => startUnit s c gen u) s) s0).cyc = s0.cyc := by
    intro l
    induction l with
    | nil => intro s0; rfl
    | cons t l ih =>
      intro s0
      simp only [List.foldl_cons]
      rw [ih]
      cases t with
      | host => simp only; split; rfl; exact runHost_cyc _ _ _
      | srflx => exact (foldl_keeps _ (fun s u => startUnit_keeps s c gen u) _ _).cyc
      | relay => exact (foldl_keeps _ (fun s u => startUnit_keeps s c gen u) _ _).cyc
  exact this _ _

theorem finishCycle_reach {k : Bool} {s : MState} (h : Reach k s.cyc) : Reach k (finishCycle s).cyc := by
  unfold finishCycle
  split
  · exact h
  · split
    · exact h
    · split
      · exact h
      · unfold startMonitorIf
        split
        · exact reach_step h _
        · exact reach_step h _

theorem recordKnown_cyc (s : MState) : (recordKnown s).cyc = s.cyc := by
  unfold recordKnown; split <;> rfl

theorem monPass_cyc (s : MState) (m : Mon) (c gen : Nat) : (monPass s m c gen).cyc = s.cyc := by
  unfold monPass
  split
  · show (runCycleUnits (detect s).1 c gen).cyc = s.cyc
    rw [runCycleUnits_cyc]; rfl
  · rfl

theorem monTick_reach {k : Bool} {s : MState} (h : Reach k s.cyc) (m : Mon) : Reach k (monTick s m).cyc := by
  unfold monTick
  split
  · rw [monPass_cyc]; exact reach_step h _
  · exact reach_step h _

theorem monKick_reach {k : Bool} {s : MState} (h : Reach k s.cyc) : Reach k (monKick s).cyc := by
  unfold monKick
  split
  · exact h
  · split
    · exact h
    · split
      · apply monTick_reach; exact h
      · exact h

theorem tickDue_reach {k : Bool} {s : MState} (h : Reach k s.cyc) : Reach k (tickDue s).cyc := by
  unfold tickDue
  split
  · exact h
  · split
    · exact h
    · split
      · exact h
      · apply monTick_reach; exact h

theorem openGate_reach {k : Bool} {s : MState} (h : Reach k s.cyc) : Reach k (openGate s).cyc := by
  unfold openGate
  apply monKick_reach
  apply finishCycle_reach
  have : ∀ (l : List Nat) (s0 : MState),
      (l.foldl (fun s c => runHost s c (((s.cyc.cycles[c]?).map (·.gen)).getD 0)) s0).cyc = s0.cyc := by
    intro l
    induction l with
    | nil => intro s0; rfl
    | cons c l ih => intro s0; simp only [List.foldl_cons]; rw [ih]; exact runHost_cyc _ _ _
  rw [this]; exact h

theorem expire_reach {k : Bool} {s : MState} (h : Reach k s.cyc) : Reach k (expire s).cyc := by
  unfold expire
  apply monKick_reach
  apply finishCycle_reach
  rw [resume_cyc]; exact h

theorem atTime_reach {k : Bool} {s : MState} (h : Reach k s.cyc) (t : Nat) : Reach k (atTime s t).cyc := by
  unfold atTime
  apply tickDue_reach
  apply expire_reach
  exact h

theorem advLoop_reach {k : Bool} : ∀ (fuel : Nat) {s : MState}, Reach k s.cyc → ∀ target, Reach k (advLoop fuel s target).cyc := by
  intro fuel
  induction fuel with
  | zero => intro s h _; exact h
  | succ n ih =>
    intro s h target
    simp only [advLoop]
    split
    · exact h
    · exact ih (atTime_reach h _) target

theorem advTo_reach {k : Bool} {s : MState} (h : Reach k s.cyc) (t : Nat) : Reach k (advTo s t).cyc := by
  unfold advTo
  split
  · exact atTime_reach (advLoop_reach _ h _) _
  · exact expire_reach h

theorem closeWait_cyc (s : MState) (dl : Nat) : (closeWait s dl).cyc = s.cyc := by
  unfold closeWait; split <;> rfl

theorem closeAgent_reach {k : Bool} {s : MState} (h : Reach k s.cyc) : Reach k (closeAgent s).cyc := by
  unfold closeAgent
  show Reach k (dropCands _).cyc
  simp only [dropCands]
  rw [resume_cyc, closeWait_cyc, resume_cyc]
  exact reach_step (openGate_reach h) _

theorem acceptGather_reach {k : Bool} {s : MState} (h : Reach k s.cyc) : Reach k (acceptGather s).1.cyc := by
  simp only [acceptGather]
  split
  · exact reach_step h _
  · exact h
  · exact h

theorem startCycle_reach {k : Bool} {s : MState} (h : Reach k s.cyc) (cg : Option (Nat × Nat)) : Reach k (startCycle s cg).cyc := by
  simp only [startCycle]
  split
  · exact h
  · split
    · exact reach_step h _
    · apply finishCycle_reach
      rw [runCycleUnits_cyc, recordKnown_cyc]
      exact reach_step h _

theorem restartOp_reach {k : Bool} {s : MState} (h : Reach k s.cyc) : Reach k (restartOp s).1.cyc := by
  simp only [restartOp]
  split
  · rw [resume_cyc]; exact reach_step h _
  · exact h

theorem step_reach {k : Bool} {s : MState} (h : Reach k s.cyc) (op : Op) : Reach k (step s op).1.cyc := by
  cases op with
  | gather2 =>
    simp only [step]
    exact startCycle_reach (startCycle_reach (acceptGather_reach (acceptGather_reach h)) _) _
  | grg =>
    simp only [step]
    exact startCycle_reach (startCycle_reach (acceptGather_reach (restartOp_reach (acceptGather_reach h))) _) _
  | gather =>
    simp only [step]
    split
    · apply finishCycle_reach
      rw [runCycleUnits_cyc, recordKnown_cyc]
      exact reach_step (reach_step h _) _
    · exact h
    · exact h
  | ifaces t => exact h
  | hold => exact h
  | restart =>
    simp only [step]
    split
    · rw [resume_cyc]; exact reach_step h _
    · exact h
  | close => exact closeAgent_reach h
  | fail t n =>
    simp only [step]
    split
    · exact h
    · unfold applyFailed
      split
      · exact advTo_reach h _
      · exact advTo_reach h _
  | release => exact openGate_reach h
  | adv ms => exact advTo_reach h _
  | stunreply k' m =>
    simp only [step]
    split
    · exact h
    · apply monKick_reach; apply finishCycle_reach; rw [resume_cyc]; exact h
  | turnreply k' ok m =>
    simp only [step]
    split
    · exact h
    · apply monKick_reach; apply finishCycle_reach; rw [resume_cyc]; exact h

theorem runOps_reach {k : Bool} : ∀ (ops : List Op) {s : MState}, Reach k s.cyc → Reach k (runOps s ops).cyc := by
  intro ops
  induction ops with
  | nil => intro s h; exact h
  | cons op ops ih => intro s h; exact ih (step_reach h op)

theorem init_reach (cfg : Config) (ifs : List Iface) (s : MState) (h : newAgent cfg ifs = .ok s) : Reach cfg.continual s.cyc := by
  rw [IceProofs.GatherAgent.newAgent_ok h]
  exact reach_init _

end IceProofs.GatherCycReach
