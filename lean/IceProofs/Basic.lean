/-! Shared helper lemmas for proofs (about `IceModel` only). -/
namespace IceProofs
theorem List.foldl_inv {α β : Type} (P : β → Prop) (f : β → α → β) (l : List α) (b : β)
    (h0 : P b) (hs : ∀ b a, P b → P (f b a)) : P (l.foldl f b) := by
  induction l generalizing b with
  | nil => simpa
  | cons a l ih => exact ih _ (hs _ _ h0)
end IceProofs
