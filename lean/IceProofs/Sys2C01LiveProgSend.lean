import IceProofs.Sys2C01LiveProgLib
/-!
# C01 liveness, layer 2 — closed forms of `sendRequest` / `sendSuccess`, and the frame `Soft` of everything that
only counts, timestamps local candidates and records transactions
-/
namespace IceProofs.C01Live.Prog
open IceModel.AgentCore IceProofs.C03 IceProofs.Agent

/-! ## closed forms -/

/-- the transaction `sendRequest` records -/
def srPend (a : Agent) (now : Nat) (l r : Cand) (uc : Bool) (nom : Option Nat) : Pending :=
  { tid := 2 * a.nextTid + a.tag, src := l.addr, dest := r.addr, net := r.net, useCand := uc, nom := nom, ts := now }

/-- expire, record -/
def srBase (a : Agent) (now : Nat) (pd : Pending) : Agent :=
  { (a.invalidatePending now) with nextTid := a.nextTid + 1, pending := (a.invalidatePending now).pending ++ [pd] }

/-- count the request on the pair -/
def srMark (b : Agent) (l r : Cand) : Agent :=
  match b.findPair l r with
  | some p => b.modPair p.id fun p => { p with reqSent := p.reqSent + 1 }
  | none => b

/-- the Binding request -/
def srMsg (a : Agent) (l : Cand) (uc : Bool) (nom : Option Nat) : Msg :=
  { cls := 0, tid := 2 * a.nextTid + a.tag, user := some (a.remoteUfrag ++ ":" ++ a.localUfrag), key := some a.remotePwd,
    prio := some l.prio, useCand := uc, role := some (a.controlling, a.tieBreaker), nom := nom }

theorem sendRequest_fst (a : Agent) (now : Nat) (l r : Cand) (uc : Bool) (nom : Option Nat) :
    (a.sendRequest now l r uc nom).1 = (srMark (srBase a now (srPend a now l r uc nom)) l r).seenLocalSent l.uid now := by
  unfold Agent.sendRequest
  simp only []
  split <;> rename_i h
  · rename_i p
    have h' : (srBase a now (srPend a now l r uc nom)).findPair l r = some p := h
    unfold srMark; rw [h']; rfl
  · have h' : (srBase a now (srPend a now l r uc nom)).findPair l r = none := h
    unfold srMark; rw [h']; rfl

theorem sendRequest_snd (a : Agent) (now : Nat) (l r : Cand) (uc : Bool) (nom : Option Nat) :
    (a.sendRequest now l r uc nom).2 = [.dgram l.addr r.addr (srMsg a l uc nom)] := by
  unfold Agent.sendRequest srMsg
  simp only []
  split <;> rfl

/-- count the response on the pair -/
def ssMark (b : Agent) (l r : Cand) : Agent :=
  match b.findPair l r with
  | some p => b.modPair p.id fun p => { p with respSent := p.respSent + 1 }
  | none => b

theorem sendSuccess_fst (a : Agent) (now : Nat) (m : Msg) (l r : Cand) :
    (a.sendSuccess now m l r).1 = (ssMark a l r).seenLocalSent l.uid now := by
  unfold Agent.sendSuccess ssMark
  simp only []
  split <;> rename_i h <;> rw [h]

theorem sendSuccess_snd (a : Agent) (now : Nat) (m : Msg) (l r : Cand) :
    (a.sendSuccess now m l r).2 = [.dgram l.addr r.addr { cls := 2, tid := m.tid, key := some a.localPwd }] := by
  unfold Agent.sendSuccess
  simp only []
  split <;> rfl

/-! ## the frame -/

/-- what a counters-only update keeps of a pair -/
structure PSame (p q : Pair) : Prop where
  id : q.id = p.id
  l : q.l = p.l
  r : q.r = p.r
  state : q.state = p.state
  nominated : q.nominated = p.nominated
  nomOnSuccess : q.nomOnSuccess = p.nomOnSuccess
  deferredNom : q.deferredNom = p.deferredNom
  reqCount : q.reqCount = p.reqCount

theorem PSame.refl (p : Pair) : PSame p p := ⟨rfl, rfl, rfl, rfl, rfl, rfl, rfl, rfl⟩
theorem PSame.trans {p q r : Pair} (h1 : PSame p q) (h2 : PSame q r) : PSame p r :=
  ⟨h2.id.trans h1.id, h2.l.trans h1.l, h2.r.trans h1.r, h2.state.trans h1.state, h2.nominated.trans h1.nominated,
   h2.nomOnSuccess.trans h1.nomOnSuccess, h2.deferredNom.trans h1.deferredNom, h2.reqCount.trans h1.reqCount⟩

/-- `b` is `a` up to: counters of pairs (anything but the ends of the pairs with id `ex`), timestamps of local
candidates, expired / appended transactions. -/
structure Soft (now : Nat) (ex : Option Nat) (a b : Agent) : Prop where
  core : b.core = a.core
  remotes : b.remotes = a.remotes
  cands : CandSame a b
  selected : b.selected = a.selected
  pairs : ∃ g : Pair → Pair, b.checklist = a.checklist.map g ∧
    ∀ p, (g p).id = p.id ∧ (g p).l = p.l ∧ (g p).r = p.r ∧ (some p.id ≠ ex → PSame p (g p))
  pend : ∀ tid pd, a.pending.find? (·.tid == tid) = some pd → now - pd.ts < maxBindingRequestTimeout →
    b.pending.find? (·.tid == tid) = some pd
  pendOK : PendOK a → PendOK b

theorem Soft.refl (now : Nat) (ex : Option Nat) (a : Agent) : Soft now ex a a :=
  ⟨rfl, rfl, CandSame.refl a, rfl, ⟨fun p => p, by simp, fun p => ⟨rfl, rfl, rfl, fun _ => PSame.refl p⟩⟩,
   fun _ _ h _ => h, fun h => h⟩

theorem Soft.trans {now : Nat} {ex : Option Nat} {a b c : Agent} (h1 : Soft now ex a b) (h2 : Soft now ex b c) :
    Soft now ex a c := by
  obtain ⟨g1, e1, k1⟩ := h1.pairs
  obtain ⟨g2, e2, k2⟩ := h2.pairs
  refine ⟨h2.core.trans h1.core, h2.remotes.trans h1.remotes, h1.cands.trans h2.cands, h2.selected.trans h1.selected,
    ⟨g2 ∘ g1, by rw [e2, e1, List.map_map], ?_⟩, fun tid pd h hy => h2.pend tid pd (h1.pend tid pd h hy) hy,
    fun h => h2.pendOK (h1.pendOK h)⟩
  intro p
  obtain ⟨a1, a2, a3, a4⟩ := k1 p
  obtain ⟨b1, b2, b3, b4⟩ := k2 (g1 p)
  refine ⟨b1.trans a1, b2.trans a2, b3.trans a3, fun hne => (a4 hne).trans (b4 (by rw [a1]; exact hne))⟩

theorem Soft.weaken {now : Nat} {ex : Option Nat} {a b : Agent} (h : Soft now none a b) : Soft now ex a b := by
  obtain ⟨g, e, k⟩ := h.pairs
  exact ⟨h.core, h.remotes, h.cands, h.selected,
    ⟨g, e, fun p => ⟨(k p).1, (k p).2.1, (k p).2.2.1, fun _ => (k p).2.2.2 (by simp)⟩⟩, h.pend, h.pendOK⟩

/-- an update that touches none of the fields the frame reads -/
theorem Soft.of_eq {now : Nat} {ex : Option Nat} {a b : Agent} (hc : b.core = a.core) (hl : b.locals = a.locals)
    (hr : b.remotes = a.remotes) (hs : b.selected = a.selected) (hk : b.checklist = a.checklist)
    (hp : b.pending = a.pending) (hn : b.nextTid = a.nextTid) : Soft now ex a b := by
  refine ⟨hc, hr, CandSame.of_eq hl hr, hs, ⟨fun p => p, by simp [hk], fun p => ⟨rfl, rfl, rfl, fun _ => PSame.refl p⟩⟩,
    fun _ _ h _ => by rw [hp]; exact h, ?_⟩
  have ht : b.tag = a.tag := congrArg Core.tag hc
  unfold PendOK
  rw [hp, hn, ht]
  exact fun h => h

theorem updPair_eq_map (l : List Pair) (id : Nat) (f : Pair → Pair) :
    updPair l id f = l.map fun p => if p.id == id then f p else p := rfl

theorem modPair_soft {now : Nat} {ex : Option Nat} (a : Agent) (id : Nat) (f : Pair → Pair) (hf : ∀ p, PSame p (f p)) :
    Soft now ex a (a.modPair id f) := by
  refine ⟨rfl, rfl, CandSame.of_eq rfl rfl, rfl, ⟨fun p => if p.id == id then f p else p, rfl, ?_⟩, fun _ _ h _ => h, fun h => h⟩
  intro p
  dsimp only
  split
  · exact ⟨(hf p).id, (hf p).l, (hf p).r, fun _ => hf p⟩
  · exact ⟨rfl, rfl, rfl, fun _ => PSame.refl p⟩

/-- on the excepted id anything that keeps the identity and the ends -/
theorem modPair_soft_ex {now : Nat} (a : Agent) (id : Nat) (f : Pair → Pair) (hid : ∀ p, (f p).id = p.id)
    (hl : ∀ p, (f p).l = p.l) (hr : ∀ p, (f p).r = p.r) : Soft now (some id) a (a.modPair id f) := by
  refine ⟨rfl, rfl, CandSame.of_eq rfl rfl, rfl, ⟨fun p => if p.id == id then f p else p, rfl, ?_⟩, fun _ _ h _ => h, fun h => h⟩
  intro p
  dsimp only
  split
  · rename_i h
    have e : p.id = id := by simpa using h
    exact ⟨hid p, hl p, hr p, fun hne => absurd (by rw [e]) hne⟩
  · exact ⟨rfl, rfl, rfl, fun _ => PSame.refl p⟩

theorem seenLocalSent_soft {now : Nat} {ex : Option Nat} (a : Agent) (uid t : Nat) : Soft now ex a (a.seenLocalSent uid t) :=
  ⟨rfl, rfl, seenLocalSent_candSame a uid t, rfl, ⟨fun p => p, by simp [Agent.seenLocalSent], fun p => ⟨rfl, rfl, rfl, fun _ => PSame.refl p⟩⟩,
   fun _ _ h _ => h, fun h => h⟩

/-! ### recording a transaction -/

theorem srBase_pendOK (a : Agent) (now : Nat) (pd : Pending) (ht : pd.tid = 2 * a.nextTid + a.tag) (h : PendOK a) :
    PendOK (srBase a now pd) := by
  obtain ⟨h1, h2⟩ := h
  have hf : ∀ x ∈ a.pending.filter (fun p => now - p.ts < maxBindingRequestTimeout), x.tid < 2 * a.nextTid + a.tag :=
    fun x hx => h1 x (List.mem_filter.mp hx).1
  refine ⟨?_, ?_⟩
  · intro x hx
    show x.tid < 2 * (a.nextTid + 1) + a.tag
    have hx' : x ∈ a.pending.filter (fun p => now - p.ts < maxBindingRequestTimeout) ++ [pd] := hx
    rcases List.mem_append.mp hx' with hx' | hx'
    · have := hf x hx'; omega
    · rw [List.mem_singleton] at hx'; subst hx'; omega
  · show (a.pending.filter (fun p => now - p.ts < maxBindingRequestTimeout) ++ [pd]).Pairwise _
    rw [List.pairwise_append]
    refine ⟨h2.filter _, by simp, ?_⟩
    intro x hx y hy
    rw [List.mem_singleton] at hy; subst hy
    have := hf x hx
    omega

theorem srBase_pend (a : Agent) (now : Nat) (pd0 : Pending) (tid : Nat) (pd : Pending)
    (h : a.pending.find? (·.tid == tid) = some pd) (hy : now - pd.ts < maxBindingRequestTimeout) :
    (srBase a now pd0).pending.find? (·.tid == tid) = some pd := by
  show (a.pending.filter (fun p => now - p.ts < maxBindingRequestTimeout) ++ [pd0]).find? _ = _
  exact find?_append_of _ _ _ (find?_filter_of _ _ _ h (by simpa using hy))

/-- the recorded transaction is found by its id -/
theorem srBase_find_new (a : Agent) (now : Nat) (pd : Pending) (ht : pd.tid = 2 * a.nextTid + a.tag) (h : PendOK a) :
    (srBase a now pd).pending.find? (·.tid == 2 * a.nextTid + a.tag) = some pd := by
  show (a.pending.filter (fun p => now - p.ts < maxBindingRequestTimeout) ++ [pd]).find? _ = _
  rw [List.find?_append, find?_eq_none_of]
  · simp [ht]
  · intro x hx
    have := h.1 x (List.mem_filter.mp hx).1
    have hne : x.tid ≠ 2 * a.nextTid + a.tag := by omega
    simpa using hne

theorem srBase_soft {ex : Option Nat} (a : Agent) (now : Nat) (pd : Pending) (ht : pd.tid = 2 * a.nextTid + a.tag) :
    Soft now ex a (srBase a now pd) :=
  ⟨rfl, rfl, CandSame.of_eq rfl rfl, rfl, ⟨fun p => p, by simp [srBase, Agent.invalidatePending], fun p => ⟨rfl, rfl, rfl, fun _ => PSame.refl p⟩⟩,
   fun tid pd' h hy => srBase_pend a now pd tid pd' h hy, srBase_pendOK a now pd ht⟩

theorem srMark_soft {now : Nat} {ex : Option Nat} (b : Agent) (l r : Cand) : Soft now ex b (srMark b l r) := by
  unfold srMark
  split
  · exact modPair_soft b _ _ fun p => ⟨rfl, rfl, rfl, rfl, rfl, rfl, rfl, rfl⟩
  · exact Soft.refl _ _ _

theorem ssMark_soft {now : Nat} {ex : Option Nat} (b : Agent) (l r : Cand) : Soft now ex b (ssMark b l r) := by
  unfold ssMark
  split
  · exact modPair_soft b _ _ fun p => ⟨rfl, rfl, rfl, rfl, rfl, rfl, rfl, rfl⟩
  · exact Soft.refl _ _ _

theorem sendRequest_soft {ex : Option Nat} (a : Agent) (now : Nat) (l r : Cand) (uc : Bool) (nom : Option Nat) :
    Soft now ex a (a.sendRequest now l r uc nom).1 := by
  rw [sendRequest_fst]
  exact ((srBase_soft a now _ rfl).trans (srMark_soft _ l r)).trans (seenLocalSent_soft _ _ _)

theorem sendSuccess_soft {now' : Nat} {ex : Option Nat} (a : Agent) (now : Nat) (m : Msg) (l r : Cand) :
    Soft now' ex a (a.sendSuccess now m l r).1 := by
  rw [sendSuccess_fst]
  exact (ssMark_soft a l r).trans (seenLocalSent_soft _ _ _)

/-- the transaction `sendRequest` has just recorded is found by its id -/
theorem sendRequest_find_new (a : Agent) (now : Nat) (l r : Cand) (uc : Bool) (nom : Option Nat) (h : PendOK a) :
    (a.sendRequest now l r uc nom).1.pending.find? (·.tid == 2 * a.nextTid + a.tag) = some (srPend a now l r uc nom) := by
  have h0 := srBase_find_new a now (srPend a now l r uc nom) rfl h
  have h1 : (a.sendRequest now l r uc nom).1.pending = (srBase a now (srPend a now l r uc nom)).pending := by
    rw [sendRequest_fst]
    show (srMark _ l r).pending = _
    unfold srMark
    split <;> rfl
  rw [h1]; exact h0

/-! ### reading the frame -/

theorem Soft.cfg {now : Nat} {ex : Option Nat} {a b : Agent} (h : Soft now ex a b) : b.cfg = a.cfg :=
  congrArg Core.cfg h.core
theorem Soft.controlling {now : Nat} {ex : Option Nat} {a b : Agent} (h : Soft now ex a b) : b.controlling = a.controlling :=
  congrArg Core.controlling h.core

theorem Soft.pairById {now : Nat} {ex : Option Nat} {a b : Agent} (h : Soft now ex a b) {j : Nat} {q : Pair}
    (hq : a.pairById j = some q) :
    ∃ q', b.pairById j = some q' ∧ q'.id = q.id ∧ q'.l = q.l ∧ q'.r = q.r ∧ (some j ≠ ex → PSame q q') := by
  obtain ⟨g, e, k⟩ := h.pairs
  refine ⟨g q, ?_, (k q).1, (k q).2.1, (k q).2.2.1, fun hne => (k q).2.2.2 (by rw [(pairById_mem hq).2]; exact hne)⟩
  unfold Agent.pairById at hq ⊢
  rw [e, List.find?_map]
  have : ((fun x : Pair => x.id == j) ∘ g) = fun x => x.id == j := by
    funext p; simp only [Function.comp, (k p).1]
  rw [this, hq]; rfl

theorem Soft.pairById_none {now : Nat} {ex : Option Nat} {a b : Agent} (h : Soft now ex a b) {j : Nat}
    (hq : a.pairById j = none) : b.pairById j = none := by
  obtain ⟨g, e, k⟩ := h.pairs
  unfold Agent.pairById at hq ⊢
  rw [e, List.find?_map]
  have : ((fun x : Pair => x.id == j) ∘ g) = fun x => x.id == j := by
    funext p; simp only [Function.comp, (k p).1]
  rw [this, hq]; rfl

theorem Soft.findPair {now : Nat} {ex : Option Nat} {a b : Agent} (h : Soft now ex a b) {l r l' r' : Cand}
    (el : ckey l' = ckey l) (er : ckey r' = ckey r) {q : Pair} (hq : a.findPair l r = some q) :
    ∃ q', b.findPair l' r' = some q' ∧ q'.id = q.id ∧ q'.l = q.l ∧ q'.r = q.r ∧ (some q.id ≠ ex → PSame q q') := by
  obtain ⟨g, e, k⟩ := h.pairs
  refine ⟨g q, ?_, (k q).1, (k q).2.1, (k q).2.2.1, (k q).2.2.2⟩
  rw [findPair_eq] at hq ⊢
  rw [e, List.find?_map]
  have : (fpPred b l' r' ∘ g) = fpPred a l r := by
    funext p
    exact fpPred_same h.cands el er (k p).2.1 (k p).2.2.1
  rw [this, hq]; rfl

theorem Soft.findPair_none {now : Nat} {ex : Option Nat} {a b : Agent} (h : Soft now ex a b) {l r l' r' : Cand}
    (el : ckey l' = ckey l) (er : ckey r' = ckey r) (hq : a.findPair l r = none) : b.findPair l' r' = none := by
  obtain ⟨g, e, k⟩ := h.pairs
  rw [findPair_eq] at hq ⊢
  rw [e, List.find?_map]
  have : (fpPred b l' r' ∘ g) = fpPred a l r := by
    funext p
    exact fpPred_same h.cands el er (k p).2.1 (k p).2.2.1
  rw [this, hq]; rfl

theorem Soft.mem {now : Nat} {ex : Option Nat} {a b : Agent} (h : Soft now ex a b) {p : Pair} (hp : p ∈ a.checklist) :
    ∃ p' ∈ b.checklist, p'.id = p.id ∧ (some p.id ≠ ex → PSame p p') := by
  obtain ⟨g, e, k⟩ := h.pairs
  exact ⟨g p, by rw [e]; exact List.mem_map_of_mem hp, (k p).1, (k p).2.2.2⟩

end IceProofs.C01Live.Prog
