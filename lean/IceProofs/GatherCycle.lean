import IceModel.GatherCycle
/-!
# Invariant of the gathering-cycle model and its preservation

One invariant `Inv`, `Inv init`, one lemma per transition, `inv_step`, `inv_run`, `inv_reachable`.
No bound on the number of cycles, restarts, candidates or steps.
-/
namespace IceProofs.GatherCycle
open IceModel.GatherCycle

/-! ## list helpers -/

theorem get_set_of_get {cs : List Cycle} {c : Nat} {cy : Cycle} (h : cs[c]? = some cy) (x : Cycle) (i : Nat) :
    (cs.set c x)[i]? = if c = i then some x else cs[i]? := by
  have hlt : c < cs.length := by
    rcases Nat.lt_or_ge c cs.length with h' | h'
    · exact h'
    · rw [List.getElem?_eq_none h'] at h; cases h
  rw [List.getElem?_set]
  split
  · rename_i hci; subst hci; simp
  · rfl

theorem get_upd (cs : List Cycle) (c : Nat) (f : Cycle → Cycle) (i : Nat) :
    (upd cs c f)[i]? = if c = i then cs[i]?.map f else cs[i]? := by
  unfold upd
  split
  · rename_i cy h
    rw [get_set_of_get h]
    split
    · rename_i hci; subst hci; simp [h]
    · rfl
  · rename_i h
    split
    · rename_i hci; subst hci; simp [h]
    · rfl

theorem length_upd (cs : List Cycle) (c : Nat) (f : Cycle → Cycle) : (upd cs c f).length = cs.length := by
  unfold upd; split <;> simp

theorem get_cancelCur (s : State) (i : Nat) :
    (cancelCur s)[i]? = if s.cur = some i then s.cycles[i]?.map cancelCycle else s.cycles[i]? := by
  unfold cancelCur
  split
  · rename_i c hc
    rw [get_upd, hc]
    by_cases h : c = i <;> simp [h]
  · rename_i hc; simp [hc]

theorem length_cancelCur (s : State) : (cancelCur s).length = s.cycles.length := by
  unfold cancelCur; split <;> simp [length_upd]

theorem nilLast_append (i : Nat) (l : List Pub) (x : Pub) :
    nilLast i (l ++ [x]) = (nilLast i l && (!(l.contains (Pub.nil i)) || !x.isCandOf i)) := by
  induction l with
  | nil => cases x <;> simp [nilLast, Pub.isCandOf]
  | cons p l ih =>
    cases p with
    | cand c t => simp [nilLast, ih]
    | nil j =>
      by_cases hj : j = i
      · subst hj; simp [nilLast, List.all_append]
      · have hne : ¬ (Pub.nil i = Pub.nil j) := by intro h; cases h; exact hj rfl
        simp [nilLast, hj, ih, hne]

/-! ## the invariant -/

structure Inv (s : State) : Prop where
  /-- a cycle whose context is not cancelled is the one whose cancel func the agent holds -/
  live_cur : ∀ (i : Nat) (cy : Cycle), s.cycles[i]? = some cy → cy.cancelled = false → s.cur = some i
  /-- … and the agent's ufrag is still the one it was created under -/
  live_ufrag : ∀ (i : Nat) (cy : Cycle), s.cycles[i]? = some cy → cy.cancelled = false → cy.ufrag = s.ufrag
  /-- … and while it gathers the agent's gathering state is Gathering -/
  live_gstate : ∀ (i : Nat) (cy : Cycle), s.cycles[i]? = some cy → cy.cancelled = false →
    (cy.pc = .gathering ∨ cy.pc = .finishing) → s.gstate = .gathering
  /-- exactly one nil for a completed cycle, none otherwise -/
  nil_count : ∀ (i : Nat) (cy : Cycle), s.cycles[i]? = some cy → s.published.count (Pub.nil i) = if cy.completed then 1 else 0
  completed_done : ∀ (i : Nat) (cy : Cycle), s.cycles[i]? = some cy → cy.completed = true → cy.pc = .done
  /-- the nil of a cycle comes after all of the cycle's candidates -/
  order : ∀ i : Nat, nilLast i s.published = true
  /-- every candidate of every cycle (live, completed or cancelled) carries the cycle's ufrag -/
  tags : ∀ (i : Nat) (cy : Cycle), s.cycles[i]? = some cy → ∀ t, Pub.cand i t ∈ s.published → t = cy.ufrag
  /-- publications name existing cycles -/
  bound : ∀ p ∈ s.published, Pub.cycle p < s.cycles.length
  /-- while the gathering state is New (initially, after `Restart`) the agent has no local candidate -/
  locals_new : s.gstate = .new → s.locals = []
  /-- every local candidate belongs to a cycle whose context is NOT cancelled, carries the agent's current ufrag
  and was published -/
  locals_live : ∀ l ∈ s.locals, ∃ cy, s.cycles[l.1]? = some cy ∧ cy.cancelled = false ∧ l.2 = s.ufrag
    ∧ Pub.cand l.1 l.2 ∈ s.published

theorem inv_init : Inv init := by
  constructor <;> simp [init, nilLast]

theorem nil_not_mem {s : State} (hi : Inv s) {i : Nat} {cy : Cycle} (h : s.cycles[i]? = some cy)
    (hpc : cy.pc ≠ .done) : Pub.nil i ∉ s.published := by
  have hc : cy.completed = false := by
    cases hcc : cy.completed
    · rfl
    · exact absurd (hi.completed_done i cy h hcc) hpc
  have := hi.nil_count i cy h
  rw [hc] at this
  simpa using List.count_eq_zero.mp this

/-- Replacing one cycle by one with the same ufrag / cancelled / completed flags (pc and `checked` may
change, under the two side conditions) keeps the invariant.  Covers every transition that only moves a
program counter or the in-flight counter. -/
theorem inv_set {s : State} (hi : Inv s) {c : Nat} {cy cy' : Cycle} (hget : s.cycles[c]? = some cy)
    (hu : cy'.ufrag = cy.ufrag) (hc : cy'.cancelled = cy.cancelled) (hm : cy'.completed = cy.completed)
    (hg : cy.cancelled = false → (cy'.pc = .gathering ∨ cy'.pc = .finishing) → s.gstate = .gathering)
    (hd : cy.completed = true → cy'.pc = .done) :
    Inv { s with cycles := s.cycles.set c cy' } := by
  constructor
  · intro i x hx hcx
    simp only [get_set_of_get hget] at hx
    split at hx
    · rename_i hci; cases hx; subst hci; exact hi.live_cur _ cy hget (by rw [← hc]; exact hcx)
    · exact hi.live_cur i x hx hcx
  · intro i x hx hcx
    simp only [get_set_of_get hget] at hx
    split at hx
    · rename_i hci; cases hx; subst hci; rw [hu]; exact hi.live_ufrag _ cy hget (by rw [← hc]; exact hcx)
    · exact hi.live_ufrag i x hx hcx
  · intro i x hx hcx hpc
    simp only [get_set_of_get hget] at hx
    split at hx
    · rename_i hci; cases hx; exact hg (by rw [← hc]; exact hcx) hpc
    · exact hi.live_gstate i x hx hcx hpc
  · intro i x hx
    simp only [get_set_of_get hget] at hx
    split at hx
    · rename_i hci; cases hx; subst hci; rw [hm]; exact hi.nil_count _ cy hget
    · exact hi.nil_count i x hx
  · intro i x hx hcx
    simp only [get_set_of_get hget] at hx
    split at hx
    · rename_i hci; cases hx; exact hd (by rw [← hm]; exact hcx)
    · exact hi.completed_done i x hx hcx
  · exact hi.order
  · intro i x hx t ht
    simp only [get_set_of_get hget] at hx
    split at hx
    · rename_i hci; cases hx; subst hci; rw [hu]
      exact hi.tags _ cy hget t ht
    · exact hi.tags i x hx t ht
  · intro p hp; simp only [List.length_set]; exact hi.bound p hp
  · exact hi.locals_new
  · intro l hl
    obtain ⟨y, hy, hyc, hyu, hyp⟩ := hi.locals_live l hl
    simp only [get_set_of_get hget]
    split
    · rename_i hci; subst hci
      rw [hget] at hy; cases hy
      exact ⟨cy', rfl, by rw [hc]; exact hyc, hyu, hyp⟩
    · exact ⟨y, hy, hyc, hyu, hyp⟩

/-- Cancelling the current cycle (and possibly changing the agent's ufrag / gathering state afterwards) -/
theorem inv_cancelCur {s : State} (hi : Inv s) (u : Nat) (g : GState) :
    Inv { s with cycles := cancelCur s, ufrag := u, gstate := g, locals := [] } := by
  have live_none : ∀ (i : Nat) (x : Cycle), (cancelCur s)[i]? = some x → x.cancelled = false → False := by
    intro i x hx hcx
    rw [get_cancelCur] at hx
    split at hx
    · cases h : s.cycles[i]? with
      | none => simp [h] at hx
      | some y => simp [h] at hx; subst hx; simp [cancelCycle] at hcx
    · rename_i hne; exact hne (hi.live_cur i x hx hcx)
  have orig : ∀ (i : Nat) (x : Cycle), (cancelCur s)[i]? = some x →
      ∃ y, s.cycles[i]? = some y ∧ x.ufrag = y.ufrag ∧ x.completed = y.completed ∧ x.pc = y.pc
        ∧ (y.cancelled = false → s.cur = some i) := by
    intro i x hx
    rw [get_cancelCur] at hx
    split at hx
    · cases h : s.cycles[i]? with
      | none => simp [h] at hx
      | some y =>
        simp [h] at hx; subst hx
        exact ⟨y, rfl, rfl, rfl, rfl, fun hc => hi.live_cur i y h hc⟩
    · exact ⟨x, hx, rfl, rfl, rfl, fun hc => hi.live_cur i x hx hc⟩
  constructor
  · intro i x hx hcx; exact (live_none i x hx hcx).elim
  · intro i x hx hcx; exact (live_none i x hx hcx).elim
  · intro i x hx hcx; exact (live_none i x hx hcx).elim
  · intro i x hx
    obtain ⟨y, hy, _, hm, _, _⟩ := orig i x hx
    rw [hm]; exact hi.nil_count i y hy
  · intro i x hx hcx
    obtain ⟨y, hy, _, hm, hp, _⟩ := orig i x hx
    rw [hp]; exact hi.completed_done i y hy (by rw [← hm]; exact hcx)
  · exact hi.order
  · intro i x hx t ht
    obtain ⟨y, hy, hu, _, _, _⟩ := orig i x hx
    rw [hu]; exact hi.tags i y hy t ht
  · intro p hp; simp only [length_cancelCur]; exact hi.bound p hp
  · intro _; rfl
  · intro l hl; cases hl

theorem inv_gatherCall {s s' : State} (hi : Inv s) (h : step s .gatherCall = some s') : Inv s' := by
  simp only [step] at h
  split at h
  · cases h; exact hi
  · split at h
    · cases h; exact hi
    · rename_i hcl hg
      have hnew : s.gstate = .new := by simpa using hg
      cases h
      have hc := inv_cancelCur hi s.ufrag s.gstate
      -- every old cycle is cancelled now
      have old_cancelled : ∀ (i : Nat) (x : Cycle), (cancelCur s)[i]? = some x → x.cancelled = false → False := by
        intro i x hx hcx
        have := hc.live_cur i x hx hcx
        rw [get_cancelCur] at hx
        split at hx
        · cases h : s.cycles[i]? with
          | none => simp [h] at hx
          | some y => simp [h] at hx; subst hx; simp [cancelCycle] at hcx
        · rename_i hne; exact hne this
      have getapp : ∀ (i : Nat) (x : Cycle), (cancelCur s ++ [({ ufrag := s.ufrag } : Cycle)])[i]? = some x →
          ((cancelCur s)[i]? = some x) ∨ (i = (cancelCur s).length ∧ x = { ufrag := s.ufrag }) := by
        intro i x hx
        rw [List.getElem?_append] at hx
        split at hx
        · exact Or.inl hx
        · rename_i hge
          right
          have : i - (cancelCur s).length = 0 := by
            rcases Nat.eq_zero_or_pos (i - (cancelCur s).length) with h0 | h0
            · exact h0
            · rw [List.getElem?_eq_none (by simp; omega)] at hx; cases hx
          rw [this] at hx
          simp at hx
          exact ⟨by omega, hx.symm⟩
      constructor
      · intro i x hx hcx
        rcases getapp i x hx with h1 | ⟨h1, _⟩
        · exact (old_cancelled i x h1 hcx).elim
        · simp [h1]
      · intro i x hx hcx
        rcases getapp i x hx with h1 | ⟨_, h2⟩
        · exact (old_cancelled i x h1 hcx).elim
        · subst h2; rfl
      · intro i x hx hcx hpc
        rcases getapp i x hx with h1 | ⟨_, h2⟩
        · exact (old_cancelled i x h1 hcx).elim
        · subst h2; simp at hpc
      · intro i x hx
        rcases getapp i x hx with h1 | ⟨h1, h2⟩
        · exact hc.nil_count i x h1
        · subst h2
          simp only [Bool.false_eq_true, if_false]
          apply List.count_eq_zero.mpr
          intro hmem
          have := hi.bound _ hmem
          simp [Pub.cycle, h1, length_cancelCur] at this
      · intro i x hx hcx
        rcases getapp i x hx with h1 | ⟨_, h2⟩
        · exact hc.completed_done i x h1 hcx
        · subst h2; simp at hcx
      · exact hi.order
      · intro i x hx t ht
        rcases getapp i x hx with h1 | ⟨h1, h2⟩
        · exact hc.tags i x h1 t ht
        · have := hi.bound _ ht
          simp [Pub.cycle, h1, length_cancelCur] at this
      · intro p hp
        have := hi.bound p hp
        simp [length_cancelCur]; omega
      · intro _; exact hi.locals_new hnew
      · intro l hl
        have hl' : l ∈ s.locals := hl
        rw [hi.locals_new hnew] at hl'; cases hl'

theorem inv_restart {s s' : State} (u : Nat) (hi : Inv s) (h : step s (.restart u) = some s') : Inv s' := by
  simp only [step] at h
  split at h
  · cases h; exact hi
  · cases h; exact inv_cancelCur hi u .new

theorem inv_close {s s' : State} (hi : Inv s) (h : step s .close = some s') : Inv s' := by
  simp only [step] at h
  split at h
  · cases h
  · cases h
    constructor
    · exact hi.live_cur
    · exact hi.live_ufrag
    · exact hi.live_gstate
    · exact hi.nil_count
    · exact hi.completed_done
    · exact hi.order
    · exact hi.tags
    · exact hi.bound
    · intro _; rfl
    · intro l hl; cases hl

/-- closing flag does not matter for `inv_set` results -/
theorem inv_set' {s s' : State} (hi : Inv s) {c : Nat} {cy cy' : Cycle} (hget : s.cycles[c]? = some cy)
    (hs' : s' = { s with cycles := s.cycles.set c cy' })
    (hu : cy'.ufrag = cy.ufrag) (hc : cy'.cancelled = cy.cancelled) (hm : cy'.completed = cy.completed)
    (hg : cy.cancelled = false → (cy'.pc = .gathering ∨ cy'.pc = .finishing) → s.gstate = .gathering)
    (hd : cy.completed = true → cy'.pc = .done) : Inv s' := by
  subst hs'; exact inv_set hi hget hu hc hm hg hd

theorem inv_cycleStart {s s' : State} (c : Nat) (hi : Inv s) (h : step s (.cycleStart c) = some s') : Inv s' := by
  simp only [step] at h
  split at h
  · rename_i cy hget
    split at h
    · cases h
    · rename_i hpc
      have hpc' : cy.pc = .start := by simpa using hpc
      split at h
      · cases h
        exact inv_set hi hget rfl rfl rfl (by intro _ h'; simp at h') (by intro _; rfl)
      · split at h
        · cases h
          exact inv_set hi hget rfl rfl rfl (by intro _ h'; simp at h') (by intro _; rfl)
        · rename_i hcl hcan
          have hcan' : cy.cancelled = false := by simpa using hcan
          cases h
          -- the only live cycle is `c`; the gathering state becomes Gathering
          have hcur := hi.live_cur c cy hget hcan'
          have hcomp : cy.completed = false := by
            cases hcc : cy.completed
            · rfl
            · have := hi.completed_done c cy hget hcc; rw [hpc'] at this; cases this
          constructor
          · intro i x hx hcx
            simp only [get_set_of_get hget] at hx
            split at hx
            · rename_i hci; cases hx; subst hci; exact hcur
            · exact hi.live_cur i x hx hcx
          · intro i x hx hcx
            simp only [get_set_of_get hget] at hx
            split at hx
            · rename_i hci; cases hx; subst hci; exact hi.live_ufrag _ cy hget hcan'
            · exact hi.live_ufrag i x hx hcx
          · intro _ _ _ _ _; rfl
          · intro i x hx
            simp only [get_set_of_get hget] at hx
            split at hx
            · rename_i hci; cases hx; subst hci; exact hi.nil_count _ cy hget
            · exact hi.nil_count i x hx
          · intro i x hx hcx
            simp only [get_set_of_get hget] at hx
            split at hx
            · rename_i hci; cases hx; simp [hcomp] at hcx
            · exact hi.completed_done i x hx hcx
          · exact hi.order
          · intro i x hx t ht
            simp only [get_set_of_get hget] at hx
            split at hx
            · rename_i hci; cases hx; subst hci; exact hi.tags _ cy hget t ht
            · exact hi.tags i x hx t ht
          · intro p hp; simp only [List.length_set]; exact hi.bound p hp
          · intro hg; cases hg
          · intro l hl
            obtain ⟨y, hy, hyc, hyu, hyp⟩ := hi.locals_live l hl
            simp only [get_set_of_get hget]
            split
            · rename_i hci; subst hci
              rw [hget] at hy; cases hy
              exact ⟨_, rfl, hyc, hyu, hyp⟩
            · exact ⟨y, hy, hyc, hyu, hyp⟩
  · cases h

theorem inv_pubCheck {s s' : State} (c : Nat) (hi : Inv s) (h : step s (.pubCheck c) = some s') : Inv s' := by
  simp only [step] at h
  split at h
  · rename_i cy hget
    split at h
    · rename_i hcond
      cases h
      exact inv_set hi hget rfl rfl rfl
        (by intro hcan _; exact hi.live_gstate c cy hget hcan (Or.inl hcond.1))
        (by intro hcc; have := hi.completed_done c cy hget hcc; rw [hcond.1] at this; cases this)
    · cases h
  · cases h

theorem inv_pubSkip {s s' : State} (c : Nat) (hi : Inv s) (h : step s (.pubSkip c) = some s') : Inv s' := by
  simp only [step] at h
  split at h
  · rename_i cy hget
    split at h
    · rename_i hcond
      cases h
      exact inv_set hi hget rfl rfl rfl
        (by intro hcan _; exact hi.live_gstate c cy hget hcan (Or.inl hcond.1))
        (by intro hcc; have := hi.completed_done c cy hget hcc; rw [hcond.1] at this; cases this)
    · cases h
  · cases h

theorem inv_pubAbort {s s' : State} (c : Nat) (hi : Inv s) (h : step s (.pubAbort c) = some s') : Inv s' := by
  simp only [step] at h
  split at h
  · rename_i cy hget
    split at h
    · rename_i hcond
      cases h
      exact inv_set hi hget rfl rfl rfl
        (by intro hcan _; exact hi.live_gstate c cy hget hcan (Or.inl hcond.1))
        (by intro hcc; have := hi.completed_done c cy hget hcc; rw [hcond.1] at this; cases this)
    · cases h
  · cases h

theorem inv_pubRefuse {s s' : State} (c : Nat) (hi : Inv s) (h : step s (.pubRefuse c) = some s') : Inv s' := by
  simp only [step] at h
  split at h
  · rename_i cy hget
    split at h
    · rename_i hcond
      cases h
      exact inv_set hi hget rfl rfl rfl
        (by intro hcan _; exact hi.live_gstate c cy hget hcan (Or.inl hcond.1))
        (by intro hcc; have := hi.completed_done c cy hget hcc; rw [hcond.1] at this; cases this)
    · cases h
  · cases h

theorem inv_gatherersDone {s s' : State} (c : Nat) (hi : Inv s) (h : step s (.gatherersDone c) = some s') :
    Inv s' := by
  simp only [step] at h
  split at h
  · rename_i cy hget
    split at h
    · rename_i hcond
      cases h
      exact inv_set hi hget rfl rfl rfl
        (by intro hcan _; exact hi.live_gstate c cy hget hcan (Or.inl hcond.1))
        (by intro hcc; have := hi.completed_done c cy hget hcc; rw [hcond.1] at this; cases this)
    · cases h
  · cases h

/-- appending a candidate of cycle `c` (in `gathering`, context not cancelled: the in-task re-check of
`addCandidate`) with the agent's current ufrag — which is the cycle's own (`live_ufrag`) -/
theorem inv_publish_cand {s : State} (hi : Inv s) {c : Nat} {cy : Cycle} (hget : s.cycles[c]? = some cy)
    (hpc : cy.pc = .gathering) (hcan : cy.cancelled = false) :
    Inv { s with published := s.published ++ [Pub.cand c s.ufrag], locals := s.locals ++ [(c, s.ufrag)] } := by
  have hgs : s.gstate = .gathering := hi.live_gstate c cy hget hcan (Or.inl hpc)
  have hnil : Pub.nil c ∉ s.published := nil_not_mem hi hget (by rw [hpc]; simp)
  constructor
  · exact hi.live_cur
  · exact hi.live_ufrag
  · exact hi.live_gstate
  · intro i x hx
    have := hi.nil_count i x hx
    simpa [List.count_append] using this
  · exact hi.completed_done
  · intro i
    rw [nilLast_append, hi.order i]
    by_cases hic : c = i
    · subst hic
      simp [hnil]
    · simp [Pub.isCandOf, hic]
  · intro i x hx t ht
    simp only [List.mem_append, List.mem_singleton] at ht
    rcases ht with ht | ht
    · exact hi.tags i x hx t ht
    · cases ht
      rw [hget] at hx; cases hx
      exact (hi.live_ufrag c cy hget hcan).symm
  · intro p hp
    simp only [List.mem_append, List.mem_singleton] at hp
    rcases hp with hp | hp
    · exact hi.bound p hp
    · subst hp
      show c < s.cycles.length
      rcases Nat.lt_or_ge c s.cycles.length with h' | h'
      · exact h'
      · rw [List.getElem?_eq_none h'] at hget; cases hget
  · intro hg
    have hg' : s.gstate = .new := hg
    rw [hgs] at hg'; cases hg'
  · intro l hl
    have hl' : l ∈ s.locals ++ [(c, s.ufrag)] := hl
    simp only [List.mem_append, List.mem_singleton] at hl'
    rcases hl' with hl' | hl'
    · obtain ⟨y, hy, hyc, hyu, hyp⟩ := hi.locals_live l hl'
      exact ⟨y, hy, hyc, hyu, List.mem_append_left _ hyp⟩
    · subst hl'
      exact ⟨cy, hget, hcan, rfl, List.mem_append_right _ (List.mem_singleton.mpr rfl)⟩

theorem inv_pubTask {s s' : State} (c : Nat) (hi : Inv s) (h : step s (.pubTask c) = some s') : Inv s' := by
  simp only [step] at h
  split at h
  · rename_i cy hget
    split at h
    · rename_i hcond
      cases h
      have h1 := inv_publish_cand hi hget hcond.1 hcond.2.2.2
      have hget' : ({ s with published := s.published ++ [Pub.cand c s.ufrag],
                             locals := s.locals ++ [(c, s.ufrag)] } : State).cycles[c]? = some cy := hget
      exact inv_set (cy' := { cy with checked := cy.checked - 1 }) h1 hget' rfl rfl rfl
        (by intro hcan _; exact hi.live_gstate c cy hget hcan (Or.inl hcond.1))
        (by intro hcc; have := hi.completed_done c cy hget hcc; rw [hcond.1] at this; cases this)
    · cases h
  · cases h

theorem inv_cycleFinish {s s' : State} (c : Nat) (hi : Inv s) (h : step s (.cycleFinish c) = some s') : Inv s' := by
  simp only [step] at h
  split at h
  · rename_i cy hget
    split at h
    · cases h
    · rename_i hpc
      have hpc' : cy.pc = .finishing := by simpa using hpc
      split at h
      · cases h
        exact inv_set hi hget rfl rfl rfl (by intro _ h'; simp at h') (by intro _; rfl)
      · split at h
        · cases h
          exact inv_set hi hget rfl rfl rfl (by intro _ h'; simp at h') (by intro _; rfl)
        · rename_i hcl hcan
          have hcan' : cy.cancelled = false := by simpa using hcan
          have hgs : s.gstate = .gathering := hi.live_gstate c cy hget hcan' (Or.inr hpc')
          have hcur := hi.live_cur c cy hget hcan'
          have hnil : Pub.nil c ∉ s.published := nil_not_mem hi hget (by rw [hpc']; simp)
          have hcomp : cy.completed = false := by
            cases hcc : cy.completed
            · rfl
            · have := hi.completed_done c cy hget hcc; rw [hpc'] at this; cases this
          have hne : s.gstate ≠ .complete := by rw [hgs]; simp
          cases h
          simp only [hne, ne_eq, not_false_eq_true, if_true]
          constructor
          · intro i x hx hcx
            simp only [get_set_of_get hget] at hx
            split at hx
            · rename_i hci; cases hx; subst hci; exact hcur
            · exact hi.live_cur i x hx hcx
          · intro i x hx hcx
            simp only [get_set_of_get hget] at hx
            split at hx
            · rename_i hci; cases hx; subst hci; exact hi.live_ufrag _ cy hget hcan'
            · exact hi.live_ufrag i x hx hcx
          · intro i x hx hcx hpx
            simp only [get_set_of_get hget] at hx
            split at hx
            · cases hx; simp at hpx
            · rename_i hci
              have := hi.live_cur i x hx hcx
              rw [hcur] at this; cases this; exact (hci rfl).elim
          · intro i x hx
            simp only [get_set_of_get hget] at hx
            split at hx
            · rename_i hci; cases hx; subst hci
              simp [List.count_append, List.count_eq_zero.mpr hnil]
            · rename_i hci
              have := hi.nil_count i x hx
              have hne' : ¬ (Pub.nil c = Pub.nil i) := by intro h; cases h; exact hci rfl
              simpa [List.count_append, List.count_cons, hne'] using this
          · intro i x hx hcx
            simp only [get_set_of_get hget] at hx
            split at hx
            · cases hx; rfl
            · exact hi.completed_done i x hx hcx
          · intro i
            rw [nilLast_append, hi.order i]
            simp [Pub.isCandOf]
          · intro i x hx t ht
            have ht' : Pub.cand i t ∈ s.published := by simpa using ht
            simp only [get_set_of_get hget] at hx
            split at hx
            · rename_i hci; cases hx; subst hci
              exact hi.tags _ cy hget t ht'
            · exact hi.tags i x hx t ht'
          · intro p hp
            simp only [List.mem_append, List.mem_singleton] at hp
            simp only [List.length_set]
            rcases hp with hp | hp
            · exact hi.bound p hp
            · subst hp
              show c < s.cycles.length
              rcases Nat.lt_or_ge c s.cycles.length with h' | h'
              · exact h'
              · rw [List.getElem?_eq_none h'] at hget; cases hget
          · intro hg; cases hg
          · intro l hl
            obtain ⟨y, hy, hyc, hyu, hyp⟩ := hi.locals_live l hl
            simp only [get_set_of_get hget]
            split
            · rename_i hci; subst hci
              rw [hget] at hy; cases hy
              exact ⟨_, rfl, hyc, hyu, List.mem_append_left _ hyp⟩
            · exact ⟨y, hy, hyc, hyu, List.mem_append_left _ hyp⟩
  · cases h

theorem inv_step {s s' : State} (a : Action) (hi : Inv s) (h : step s a = some s') : Inv s' := by
  cases a with
  | gatherCall => exact inv_gatherCall hi h
  | restart u => exact inv_restart u hi h
  | close => exact inv_close hi h
  | cycleStart c => exact inv_cycleStart c hi h
  | pubCheck c => exact inv_pubCheck c hi h
  | pubTask c => exact inv_pubTask c hi h
  | pubSkip c => exact inv_pubSkip c hi h
  | pubAbort c => exact inv_pubAbort c hi h
  | pubRefuse c => exact inv_pubRefuse c hi h
  | gatherersDone c => exact inv_gatherersDone c hi h
  | cycleFinish c => exact inv_cycleFinish c hi h

theorem inv_run {s s' : State} (as : List Action) (hi : Inv s) (h : run s as = some s') : Inv s' := by
  induction as generalizing s with
  | nil => simp [run] at h; subst h; exact hi
  | cons a as ih =>
    simp only [run] at h
    split at h
    · rename_i s1 hs; exact ih (inv_step a hi hs) h
    · cases h

theorem inv_reachable {s : State} (h : Reachable s) : Inv s := by
  obtain ⟨as, h⟩ := h
  exact inv_run as inv_init h

end IceProofs.GatherCycle
