import IceProofs.AgentC05Frame
import IceProofs.AgentC20Accept
/-!
# `handleInbound` on authenticated Binding requests: normal form, source resolution, role conflict

Lemmas about `IceModel.AgentCore` only (used by IceProps.C05 and IceProps.C20).
-/
namespace IceProofs.Agent
open IceModel.AgentCore

/-- A Binding request that passes the authentication of `handleInbound`: USERNAME is
`localUfrag:remoteUfrag` and MESSAGE-INTEGRITY verifies under the local password. -/
def AuthRequest (a : Agent) (m : Msg) : Prop :=
  m.method = 1 ∧ m.cls = 0 ∧ m.user = some (a.localUfrag ++ ":" ++ a.remoteUfrag) ∧ m.key = some a.localPwd

instance (a : Agent) (m : Msg) : Decidable (AuthRequest a m) := by unfold AuthRequest; infer_instance

/-- the peer-reflexive candidate `handleInbound` builds for an unknown source -/
def prflxCand (l : Cand) (src : Nat) (m : Msg) : Cand :=
  { uid := 0, ty := 3, net := l.net, addr := src, comp := l.comp, rel := some 0,
    prio := match m.prio with | some p => if p == 0 then prflxPriority l.net l.comp else p | none => prflxPriority l.net l.comp }

/-- Source resolution of an authenticated request: the known remote candidate with this transport address,
else a peer-reflexive candidate added through `addRemoteCandidate` (which the remote filter may reject). -/
def resolveSource (a : Agent) (l : Cand) (src : Nat) (m : Msg) : Agent × List Out × Option Cand :=
  match a.findRemote l.net src with
  | some r => (a, [], some r)
  | none => a.addRemoteCandidate (prflxCand l src m)

/-- what `handleInbound` does with an authenticated request once its source is resolved to `r` in state `a1` -/
def afterResolve (a1 : Agent) (now : Nat) (l : Cand) (m : Msg) (o0 : List Out) (r : Cand) : Agent × List Out :=
  match m.role with
  | some (ctl, tb) =>
    if ctl == a1.controlling then
      if roleConflictKeeps a1.controlling a1.tieBreaker tb then
        (a1.seenLocalSent l.uid now,
          o0 ++ [.dgram l.addr r.addr { cls := 3, tid := m.tid, key := some a1.localPwd, errCode := some 487 }])
      else (({ a1 with controlling := !a1.controlling }).resetSelector now, o0)
    else
      let (a, o) := if a1.controlling then a1.ctlHandleRequest now m l r else a1.cldHandleRequest now m l r
      (a.seenRemoteRecv r.uid now, o0 ++ o)
  | none =>
    let (a, o) := if a1.controlling then a1.ctlHandleRequest now m l r else a1.cldHandleRequest now m l r
    (a.seenRemoteRecv r.uid now, o0 ++ o)

/-- Normal form of `handleInbound` on an authenticated Binding request. -/
theorem handleInbound_request (a : Agent) (now : Nat) (l : Cand) (src : Nat) (m : Msg) (h : AuthRequest a m) :
    a.handleInbound now l src m =
      match resolveSource a l src m with
      | (a1, o0, none) => (a1, o0)
      | (a1, o0, some r) => afterResolve a1 now l m o0 r := by
  obtain ⟨hm, hc, hu, hk⟩ := h
  unfold Agent.handleInbound resolveSource afterResolve prflxCand
  simp only [hm, hc, hu, hk]
  cases hf : a.findRemote l.net src with
  | some r => simp; rfl
  | none =>
    simp
    rcases a.addRemoteCandidate _ with ⟨a1, o0, rc⟩
    cases rc <;> rfl

/-! ## Peer-reflexive discovery touches nothing but the candidate and pair lists -/

/-- everything of an agent except the checklist, the remote list and the counters/flag that go with
adding candidates and pairs -/
def stripPairs (a : Agent) : Agent :=
  { a with checklist := [], nextPairID := 0, forcePending := false, remotes := [], nextUid := 0 }

/-- a pair as `addPair` creates it: Waiting, not nominated, no deferred nomination, all counters zero -/
def FreshPair (p : Pair) : Prop := p = { id := p.id, l := p.l, r := p.r, controlling := p.controlling }

/-- `a1` is `a` after (possibly) discovering a peer-reflexive remote candidate: apart from an appended
remote candidate and appended fresh pairs (and `forcePending`, id counters) nothing differs. -/
structure Discovered (a a1 : Agent) : Prop where
  rest : stripPairs a1 = stripPairs a
  remotes : ∃ new, a1.remotes = a.remotes ++ new
  pairs : ∃ extra, a1.checklist = a.checklist ++ extra ∧ ∀ p ∈ extra, FreshPair p

theorem Discovered.refl (a : Agent) : Discovered a a :=
  ⟨rfl, ⟨[], by simp⟩, ⟨[], by simp⟩⟩

theorem addRemoteCandidate_prflx (a : Agent) (c : Cand) (hty : c.ty = 3) :
    Discovered a (a.addRemoteCandidate c).1 ∧ (a.addRemoteCandidate c).2.1 = [] := by
  unfold Agent.addRemoteCandidate
  split
  · exact ⟨Discovered.refl a, rfl⟩
  split
  · exact ⟨Discovered.refl a, rfl⟩
  simp only [hty]
  simp only [beq_self_eq_true, if_true, List.foldl_nil, List.any_nil, Bool.not_false]
  have hft : ∀ l : List Cand, l.filter (fun _ => true) = l := by intro l; simp
  rw [hft]
  refine ⟨?_, by first | rfl | trivial⟩
  refine IceProofs.List.foldl_inv (fun b : Agent => Discovered a b.requestCheck) _ _ _ ?_ ?_
  · exact ⟨rfl, ⟨_, rfl⟩, ⟨[], by simp [Agent.requestCheck]⟩⟩
  · intro b l h
    split
    · exact h
    · obtain ⟨h1, h2, extra, h3, h4⟩ := h
      refine ⟨h1, h2, extra ++ [{ id := b.nextPairID + 1, l := l.uid, r := a.nextUid, controlling := b.controlling }], ?_, ?_⟩
      · simp only [Agent.requestCheck] at h3
        simp [Agent.addPair, Agent.requestCheck, h3]
      · intro p hp
        simp only [List.mem_append, List.mem_singleton] at hp
        rcases hp with hp | hp
        · exact h4 p hp
        · subst hp; rfl

theorem resolveSource_discovered (a : Agent) (l : Cand) (src : Nat) (m : Msg) :
    Discovered a (resolveSource a l src m).1 ∧ (resolveSource a l src m).2.1 = [] := by
  unfold resolveSource
  split
  · exact ⟨Discovered.refl a, rfl⟩
  · exact addRemoteCandidate_prflx a _ rfl

@[simp] theorem core_resolveSource (a : Agent) (l : Cand) (src : Nat) (m : Msg) :
    (resolveSource a l src m).1.core = a.core := by
  unfold resolveSource
  split <;> simp

/-- fields read off `Discovered` -/
theorem Discovered.selected {a a1 : Agent} (h : Discovered a a1) : a1.selected = a.selected :=
  (congrArg Agent.selected h.rest : (stripPairs a1).selected = (stripPairs a).selected)
theorem Discovered.connState {a a1 : Agent} (h : Discovered a a1) : a1.connState = a.connState :=
  (congrArg Agent.connState h.rest : (stripPairs a1).connState = (stripPairs a).connState)
theorem Discovered.pending {a a1 : Agent} (h : Discovered a a1) : a1.pending = a.pending :=
  (congrArg Agent.pending h.rest : (stripPairs a1).pending = (stripPairs a).pending)
theorem Discovered.locals {a a1 : Agent} (h : Discovered a a1) : a1.locals = a.locals :=
  (congrArg Agent.locals h.rest : (stripPairs a1).locals = (stripPairs a).locals)
theorem Discovered.nominatedPair {a a1 : Agent} (h : Discovered a a1) : a1.nominatedPair = a.nominatedPair :=
  (congrArg Agent.nominatedPair h.rest : (stripPairs a1).nominatedPair = (stripPairs a).nominatedPair)
theorem Discovered.core {a a1 : Agent} (h : Discovered a a1) : a1.core = a.core := by
  have := congrArg Agent.core h.rest
  exact this

/-! ## Who writes the role and `lastNomination` -/

@[simp] theorem core_cldNominate (a : Agent) (m : Msg) (id : Nat) : (cldNominate a m id).1.core = a.core := by
  unfold cldNominate
  frame_cases

@[simp] theorem core_cldProceed (a : Agent) (now : Nat) (m : Msg) (l r : Cand) (id : Nat) :
    (cldProceed a now m l r id).1.core = a.core := by
  unfold cldProceed
  frame_cases

@[simp] theorem core_ensurePair (a : Agent) (l r : Cand) : (ensurePair a l r).1.core = a.core := by
  unfold ensurePair
  split <;> rfl

theorem core_setLastNomination (a : Agent) (x : Option Nat) :
    ({ a with lastNomination := x }).core = { a.core with lastNomination := x } := rfl

/-- the controlled selector's request handler writes `lastNomination` through `shouldAcceptNomination` and
nothing else of the projection -/
theorem core_cldHandleRequest (a : Agent) (now : Nat) (m : Msg) (l r : Cand) :
    (a.cldHandleRequest now m l r).1.core
      = { a.core with lastNomination := (shouldAcceptNomination m.nom a.lastNomination).1 } := by
  rw [cldHandleRequest_nf]
  simp only []
  generalize hA : (ensurePair a l r).1.modPair (ensurePair a l r).2.id (countReq m) = a1
  have hc : a1.core = a.core := by rw [← hA]; simp
  have hl : a1.lastNomination = a.lastNomination := congrArg Core.lastNomination hc
  rw [hl]
  split
  · rename_i h
    have hacc : (shouldAcceptNomination m.nom a.lastNomination).2 = false := by
      cases hx : (shouldAcceptNomination m.nom a.lastNomination).2 <;> simp [hx] at h ⊢
    rw [reject_fst _ _ hacc, core_sendSuccess, hc]
    rfl
  · rw [core_cldProceed]
    exact (core_setLastNomination a1 _).trans (by rw [hc])

/-- the tie-breaker of the sender when the request carries the receiver's own role -/
def roleConflict (a : Agent) (m : Msg) : Option Nat :=
  match m.role with
  | some (ctl, tb) => if ctl == a.controlling then some tb else none
  | none => none

/-- an authenticated request whose source resolves (known remote, or accepted peer-reflexive discovery) -/
def reachesSelector (a : Agent) (l : Cand) (src : Nat) (m : Msg) : Bool :=
  decide (AuthRequest a m) && (resolveSource a l src m).2.2.isSome

/-- … that is a role conflict the receiver loses (it switches role) -/
def conflictSwitch (a : Agent) (l : Cand) (src : Nat) (m : Msg) : Bool :=
  reachesSelector a l src m &&
    match roleConflict a m with
    | some tb => !roleConflictKeeps a.controlling a.tieBreaker tb
    | none => false

/-- … that is not a role conflict and is handled by the controlled selector -/
def cldDelivers (a : Agent) (l : Cand) (src : Nat) (m : Msg) : Bool :=
  reachesSelector a l src m && !a.controlling && (roleConflict a m).isNone

theorem core_afterResolve (a1 : Agent) (now : Nat) (l : Cand) (m : Msg) (o0 : List Out) (r : Cand) :
    (afterResolve a1 now l m o0 r).1.core =
      match roleConflict a1 m with
      | some tb =>
        if roleConflictKeeps a1.controlling a1.tieBreaker tb then a1.core
        else { a1.core with controlling := !a1.controlling, lastNomination := none }
      | none =>
        if a1.controlling then a1.core
        else { a1.core with lastNomination := (shouldAcceptNomination m.nom a1.lastNomination).1 } := by
  unfold afterResolve roleConflict
  cases hr : m.role with
  | none =>
    simp only []
    cases hc : a1.controlling <;> simp [core_cldHandleRequest, hc]
  | some ct =>
    obtain ⟨ctl, tb⟩ := ct
    simp only []
    by_cases hcc : (ctl == a1.controlling) = true
    · simp only [hcc, if_true]
      split <;> simp
    · simp only [hcc]
      cases hc : a1.controlling <;> simp [core_cldHandleRequest, hc]

theorem core_handleInbound_unauth (a : Agent) (now : Nat) (l : Cand) (src : Nat) (m : Msg) (h : ¬ AuthRequest a m) :
    (a.handleInbound now l src m).1.core = a.core := by
  unfold AuthRequest at h
  unfold Agent.handleInbound
  split
  · rfl
  simp only []
  split
  · frame_cases
  split
  · split
    · rfl
    split
    · rfl
    rename_i h1 h2 h3 h4 h5
    exfalso; apply h
    simp at h1 h2 h3 h4 h5
    simp_all
  · frame_cases

theorem roleConflict_congr {a a1 : Agent} (h : a1.core = a.core) (m : Msg) : roleConflict a1 m = roleConflict a m := by
  have hc : a1.controlling = a.controlling := congrArg Core.controlling h
  unfold roleConflict
  rw [hc]

/-- Who writes the projection in `handleInbound`: a lost role conflict flips the role and resets the selector,
a request handled by the controlled selector passes its nomination value through `shouldAcceptNomination`,
everything else leaves it alone. -/
theorem core_handleInbound (a : Agent) (now : Nat) (l : Cand) (src : Nat) (m : Msg) :
    (a.handleInbound now l src m).1.core =
      if conflictSwitch a l src m then { a.core with controlling := !a.controlling, lastNomination := none }
      else if cldDelivers a l src m then
        { a.core with lastNomination := (shouldAcceptNomination m.nom a.lastNomination).1 }
      else a.core := by
  by_cases h : AuthRequest a m
  · rw [handleInbound_request a now l src m h]
    have hcr := core_resolveSource a l src m
    unfold conflictSwitch cldDelivers reachesSelector
    rcases hres : resolveSource a l src m with ⟨a1, o0, rc⟩
    rw [hres] at hcr
    simp only at hcr
    cases rc with
    | none => simp [hcr]
    | some r =>
      simp only [core_afterResolve, roleConflict_congr hcr]
      have hctl : a1.controlling = a.controlling := congrArg Core.controlling hcr
      have htb : a1.tieBreaker = a.tieBreaker := congrArg Core.tieBreaker hcr
      have hln : a1.lastNomination = a.lastNomination := congrArg Core.lastNomination hcr
      rw [hctl, htb, hln, hcr]
      cases hrc : roleConflict a m with
      | none => cases hc : a.controlling <;> simp [h]
      | some tb => cases hk : roleConflictKeeps a.controlling a.tieBreaker tb <;> simp [h, hk]
  · rw [core_handleInbound_unauth a now l src m h]
    simp [conflictSwitch, cldDelivers, reachesSelector, h]

/-! ## The role-conflict branch, exactly -/

theorem addRemoteCandidate_cases (a : Agent) (c : Cand) :
    a.addRemoteCandidate c = (a, [], none) ∨ (a.addRemoteCandidate c).2.2.isSome = true := by
  unfold Agent.addRemoteCandidate
  split
  · left; rfl
  · right
    split <;> rfl

theorem addRemoteCandidate_none (a : Agent) (c : Cand) (h : (a.addRemoteCandidate c).2.2 = none) :
    a.addRemoteCandidate c = (a, [], none) := by
  rcases addRemoteCandidate_cases a c with h1 | h1
  · exact h1
  · rw [h] at h1; simp at h1

/-- a source that does not resolve (the remote filter rejects the peer-reflexive candidate): nothing happens -/
theorem resolveSource_none (a : Agent) (l : Cand) (src : Nat) (m : Msg) (h : (resolveSource a l src m).2.2 = none) :
    resolveSource a l src m = (a, [], none) := by
  unfold resolveSource at h ⊢
  split
  · rename_i r hr; simp [hr] at h
  · rename_i hr
    simp only [hr] at h
    exact addRemoteCandidate_none a _ h

theorem handleInbound_unresolved (a : Agent) (now : Nat) (l : Cand) (src : Nat) (m : Msg) (h : AuthRequest a m)
    (hres : (resolveSource a l src m).2.2 = none) : a.handleInbound now l src m = (a, []) := by
  rw [handleInbound_request a now l src m h, resolveSource_none a l src m hres]

/-- An authenticated request carrying the receiver's own role, from a source that resolves to `r` in state `a1`
(`a1 = a` for a known remote; `a` plus the discovered peer-reflexive candidate and its fresh pairs otherwise):
either the role is kept, one 487 keyed with the local password is sent and only the local candidate's
last-sent time moves; or the role flips, the selector is reset, and nothing is sent. -/
theorem handleInbound_conflict (a : Agent) (now : Nat) (l : Cand) (src : Nat) (m : Msg) (tb : Nat)
    (h : AuthRequest a m) (hrole : m.role = some (a.controlling, tb))
    {a1 : Agent} {o0 : List Out} {r : Cand} (hres : resolveSource a l src m = (a1, o0, some r)) :
    a.handleInbound now l src m =
      if roleConflictKeeps a.controlling a.tieBreaker tb then
        (a1.seenLocalSent l.uid now,
          [.dgram l.addr r.addr { cls := 3, tid := m.tid, key := some a.localPwd, errCode := some 487 }])
      else
        ({ a1 with controlling := !a.controlling, selStart := now, nominatedPair := none, lastNomination := none,
                   answeredNomination := none }, []) := by
  rw [handleInbound_request a now l src m h, hres]
  have hcr := core_resolveSource a l src m
  have ho := (resolveSource_discovered a l src m).2
  rw [hres] at hcr ho
  simp only at hcr ho
  have hctl : a1.controlling = a.controlling := congrArg Core.controlling hcr
  have htb : a1.tieBreaker = a.tieBreaker := congrArg Core.tieBreaker hcr
  have hpw : a1.localPwd = a.localPwd := congrArg Core.localPwd hcr
  subst ho
  simp only [afterResolve, hrole, hctl, htb, hpw, beq_self_eq_true, if_true, List.nil_append]
  split <;> rfl

/-! ## The whole step -/

/-- Who writes the projection in `step`, event by event. -/
theorem core_step (a : Agent) (ev : Ev) :
    (step a ev).1.core =
      match ev with
      | .start _ c ru rp =>
        if a.closed || a.started || ru == "" || rp == "" then a.core
        else { a.core with controlling := c, lastNomination := none, remoteUfrag := ru, remotePwd := rp, started := true }
      | .setRemoteCreds ru rp =>
        if ru == "" || rp == "" || a.closed then a.core else { a.core with remoteUfrag := ru, remotePwd := rp }
      | .restart _ u p =>
        if a.closed then a.core
        else { a.core with lastNomination := none, localUfrag := u, localPwd := p, remoteUfrag := "", remotePwd := "" }
      | .close => { a.core with closed := true }
      | .inbound now la src m =>
        if a.closed || !a.started then a.core else
        match a.localByAddr la with
        | none => a.core
        | some l => (a.handleInbound now l src m).1.core
      | _ => a.core := by
  cases ev with
  | addLocal now c => simp [step]
  | addRemote now c =>
    simp only [step]
    split
    · simp
    · split <;> simp
  | start now c ru rp =>
    simp only [step]
    by_cases h1 : a.closed = true
    · simp [h1]
    by_cases h2 : a.started = true
    · simp [h1, h2]
    by_cases h3 : (ru == "") = true
    · simp [h1, h2, h3]
    by_cases h4 : (rp == "") = true
    · simp [h1, h2, h3, h4]
    simp [h1, h2, h3, h4]
  | setRemoteCreds ru rp =>
    simp only [step]
    by_cases h3 : (ru == "") = true
    · simp [h3]
    by_cases h4 : (rp == "") = true
    · simp [h3, h4]
    by_cases h1 : a.closed = true
    · simp [h1, h3, h4]
    simp [h1, h3, h4]
  | advance now => simp [step]
  | inbound now la src m =>
    simp only [step]
    split
    · rfl
    split
    · rename_i h; simp [h]
    · rename_i h; simp [h]
  | inboundData now la src len s =>
    simp only [step]
    split
    · rfl
    split
    · rfl
    · simp
  | write now len s => simp [step]
  | writeToPair now id len s => simp [step]
  | read =>
    simp only [step]
    split
    · rfl
    split <;> rfl
  | renominate now la ri v =>
    simp only [step]
    frame_cases
  | restart now u p =>
    simp only [step]
    split
    · rfl
    · simp [core_doRestart]
  | close =>
    simp only [step]
    split
    · rename_i h; simp [Agent.core, h]
    · simp

/-! ## Event-level predicates and the role along a step -/

/-- run a list of events -/
def run (a : Agent) : List Ev → Agent
  | [] => a
  | e :: es => run (step a e).1 es

theorem run_append (a : Agent) (xs ys : List Ev) : run a (xs ++ ys) = run (run a xs) ys := by
  induction xs generalizing a with
  | nil => rfl
  | cons x xs ih => exact ih _

/-- `.start` that is not refused (first start of an open agent with non-empty remote credentials) -/
def startTakesEffect (a : Agent) : Ev → Bool
  | .start _ _ ru rp => !(a.closed || a.started || ru == "" || rp == "")
  | _ => false

/-- `.restart` that is not refused -/
def restartTakesEffect (a : Agent) : Ev → Bool
  | .restart _ _ _ => !a.closed
  | _ => false

/-- the event is an inbound STUN message that reaches `handleInbound` on local candidate `l` -/
def inboundOn (a : Agent) : Ev → Option (Nat × Cand × Nat × Msg)
  | .inbound now la src m =>
    if a.closed || !a.started then none else (a.localByAddr la).map fun l => (now, l, src, m)
  | _ => none

/-- the event is a role conflict the agent loses: an authenticated request with the agent's own role, from a
source that resolves, with tie-breakers that make the receiver switch -/
def conflictSwitchEv (a : Agent) (ev : Ev) : Bool :=
  match inboundOn a ev with
  | some (_, l, src, m) => conflictSwitch a l src m
  | none => false

/-- the event hands a request to the controlled selector -/
def cldDeliversEv (a : Agent) (ev : Ev) : Option Msg :=
  match inboundOn a ev with
  | some (_, l, src, m) => if cldDelivers a l src m then some m else none
  | none => none

theorem conflictSwitch_not_cldDelivers (a : Agent) (l : Cand) (src : Nat) (m : Msg)
    (h : conflictSwitch a l src m = true) : cldDelivers a l src m = false := by
  unfold conflictSwitch at h
  unfold cldDelivers
  cases hr : roleConflict a m with
  | none => simp [hr] at h
  | some tb => simp

theorem roleConflict_eq_some (a : Agent) (m : Msg) (tb : Nat) :
    roleConflict a m = some tb ↔ m.role = some (a.controlling, tb) := by
  unfold roleConflict
  cases hr : m.role with
  | none => simp
  | some ct =>
    obtain ⟨ctl, t⟩ := ct
    by_cases hc : ctl = a.controlling
    · subst hc; simp
    · have : (ctl == a.controlling) = false := by simpa using hc
      simp [this, hc]

theorem roleConflict_eq_none (a : Agent) (m : Msg) :
    roleConflict a m = none ↔ ∀ tb, m.role ≠ some (a.controlling, tb) := by
  constructor
  · intro h tb hr
    rw [(roleConflict_eq_some a m tb).2 hr] at h
    cases h
  · intro h
    cases hrc : roleConflict a m with
    | none => rfl
    | some tb => exact absurd ((roleConflict_eq_some a m tb).1 hrc) (h tb)

theorem conflictSwitch_iff (a : Agent) (l : Cand) (src : Nat) (m : Msg) :
    conflictSwitch a l src m = true ↔
      AuthRequest a m ∧ (resolveSource a l src m).2.2.isSome = true ∧
      ∃ tb, m.role = some (a.controlling, tb) ∧ roleConflictKeeps a.controlling a.tieBreaker tb = false := by
  unfold conflictSwitch reachesSelector
  cases hrc : roleConflict a m with
  | none =>
    have := (roleConflict_eq_none a m).1 hrc
    simp
    intro _ _ tb htb
    exact absurd htb (this tb)
  | some tb =>
    have h1 := (roleConflict_eq_some a m tb).1 hrc
    simp only [Bool.and_eq_true, decide_eq_true_eq, Bool.not_eq_true']
    constructor
    · rintro ⟨⟨ha, hs⟩, hk⟩
      exact ⟨ha, hs, tb, h1, hk⟩
    · rintro ⟨ha, hs, tb', h2, hk⟩
      rw [h1] at h2
      have : tb = tb' := by simpa using h2
      subst this
      exact ⟨⟨ha, hs⟩, hk⟩

theorem cldDelivers_iff (a : Agent) (l : Cand) (src : Nat) (m : Msg) :
    cldDelivers a l src m = true ↔
      AuthRequest a m ∧ (resolveSource a l src m).2.2.isSome = true ∧ a.controlling = false ∧
      ∀ tb, m.role ≠ some (a.controlling, tb) := by
  unfold cldDelivers reachesSelector
  rw [← roleConflict_eq_none]
  cases hrc : roleConflict a m <;> simp [and_assoc]

/-- the role after any step -/
theorem step_controlling (a : Agent) (ev : Ev) :
    (step a ev).1.controlling =
      match ev with
      | .start _ c _ _ => if startTakesEffect a ev then c else a.controlling
      | _ => if conflictSwitchEv a ev then !a.controlling else a.controlling := by
  have h := congrArg Core.controlling (core_step a ev)
  rw [core_controlling] at h
  rw [h]
  clear h
  cases ev with
  | start now c ru rp =>
    simp only [startTakesEffect]
    by_cases hc : (a.closed || a.started || ru == "" || rp == "") = true <;> simp [hc]
  | inbound now la src m =>
    simp only [conflictSwitchEv, inboundOn]
    by_cases h1 : (a.closed || !a.started) = true
    · simp [h1]
    · simp only [h1]
      cases hl : a.localByAddr la with
      | none => simp
      | some l =>
        simp only [Option.map_some, core_handleInbound]
        by_cases hs : conflictSwitch a l src m = true
        · simp [hs]
        · by_cases hd : cldDelivers a l src m = true <;> simp [hs, hd]
  | setRemoteCreds ru rp => simp only [conflictSwitchEv, inboundOn]; split <;> simp
  | restart now u p => simp only [conflictSwitchEv, inboundOn]; split <;> simp
  | close => simp [conflictSwitchEv, inboundOn]
  | addLocal now c => simp [conflictSwitchEv, inboundOn]
  | addRemote now c => simp [conflictSwitchEv, inboundOn]
  | advance now => simp [conflictSwitchEv, inboundOn]
  | inboundData now la src len s => simp [conflictSwitchEv, inboundOn]
  | write now len s => simp [conflictSwitchEv, inboundOn]
  | writeToPair now id len s => simp [conflictSwitchEv, inboundOn]
  | read => simp [conflictSwitchEv, inboundOn]
  | renominate now la ri v => simp [conflictSwitchEv, inboundOn]

/-- tie-breaker, configuration and tag never change -/
theorem step_constants (a : Agent) (ev : Ev) :
    (step a ev).1.tieBreaker = a.tieBreaker ∧ (step a ev).1.cfg = a.cfg ∧ (step a ev).1.tag = a.tag := by
  have h := core_step a ev
  have h1 := congrArg Core.tieBreaker h
  have h2 := congrArg Core.cfg h
  have h3 := congrArg Core.tag h
  simp only [core_tieBreaker, core_cfg, core_tag] at h1 h2 h3
  rw [h1, h2, h3]
  cases ev with
  | inbound now la src m =>
    simp only []
    split
    · simp
    · split
      · simp
      · simp only [core_handleInbound]
        split
        · simp
        · split <;> simp
  | start now c ru rp => simp only []; split <;> simp
  | setRemoteCreds ru rp => simp only []; split <;> simp
  | restart now u p => simp only []; split <;> simp
  | close => simp
  | addLocal now c => simp
  | addRemote now c => simp
  | advance now => simp
  | inboundData now la src len s => simp
  | write now len s => simp
  | writeToPair now id len s => simp
  | read => simp
  | renominate now la ri v => simp

end IceProofs.Agent
