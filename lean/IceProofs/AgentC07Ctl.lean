import IceProofs.AgentC07Frame
import IceProofs.AgentAuto
/-!
# C07 frame across the control plane: timer ticks, selectors, STUN handlers, Restart

Every function below only moves timestamps of candidates, control fields of pairs (never the four data
counters), appends pairs with fresh ids, or wipes.  `Fr a (f a).1` for each.
-/
namespace IceProofs.AgentC07
open IceModel.AgentCore

macro "fr_same" : tactic => `(tactic| exact Fr.of_fields rfl rfl rfl rfl rfl rfl rfl rfl rfl rfl)
macro "fr_mod" : tactic => `(tactic| exact Fr.modPair _ _ _ (fun _ => ⟨rfl, rfl, rfl, Or.inl rfl⟩))

theorem Fr_setConnState (a : Agent) (s : ConnState) : Fr a (a.setConnState s).1 := by
  unfold Agent.setConnState
  split
  · exact Fr.refl a
  · split
    · exact (Fr.wipe a).trans (by fr_same)
    · fr_same

theorem Fr_select (a : Agent) (id : Nat) : Fr a (a.select id).1 := by
  unfold Agent.select
  dsimp only
  refine Fr.trans ?_ (Fr_setConnState _ _)
  exact (Fr.modPair a id (fun p => { p with nominated := true }) (fun _ => ⟨rfl, rfl, rfl, Or.inl rfl⟩)).congr
    rfl rfl rfl rfl rfl rfl rfl rfl rfl rfl

theorem Fr_invalidatePending (a : Agent) (now : Nat) : Fr a (a.invalidatePending now) := by fr_same

theorem Fr_sendRequest (a : Agent) (now : Nat) (l r : Cand) (uc : Bool) (nom : Option Nat) :
    Fr a (a.sendRequest now l r uc nom).1 := by
  unfold Agent.sendRequest
  dsimp only
  refine Fr.trans ?_ (Fr.seenLocalSent _ _ _)
  have h2 : Fr a { (a.invalidatePending now) with
      nextTid := (a.invalidatePending now).nextTid + 1,
      pending := (a.invalidatePending now).pending ++
        [{ tid := 2 * a.nextTid + a.tag, src := l.addr, dest := r.addr, net := r.net, useCand := uc, nom := nom, ts := now }] } := by
    fr_same
  split
  · exact h2.trans (by fr_mod)
  · exact h2

theorem foldl_Fr {α : Type} (f : Agent × List Out → α → Agent × List Out) (xs : List α)
    (hf : ∀ acc x, Fr acc.1 (f acc x).1) (acc : Agent × List Out) : Fr acc.1 (xs.foldl f acc).1 := by
  induction xs generalizing acc with
  | nil => exact Fr.refl _
  | cons x xs ih => exact (hf acc x).trans (ih _)

theorem foldl_Fr' {α : Type} (f : Agent → α → Agent) (xs : List α)
    (hf : ∀ a x, Fr a (f a x)) (a : Agent) : Fr a (xs.foldl f a) := by
  induction xs generalizing a with
  | nil => exact Fr.refl _
  | cons x xs ih => exact (hf a x).trans (ih _)

theorem Fr_ping (a : Agent) (now : Nat) (l r : Cand) : Fr a (a.ping now l r).1 :=
  Fr_sendRequest a now l r false none

theorem Fr_pingAll (a : Agent) (now : Nat) : Fr a (a.pingAll now).1 := by
  unfold Agent.pingAll
  refine foldl_Fr _ _ ?_ (a, [])
  rintro ⟨a, o⟩ id
  dsimp only
  split
  · exact Fr.refl _
  · rename_i p hp
    split
    · dsimp only
      have h1 : Fr a (a.modPair id fun q => { q with state := .inProgress }) := by fr_mod
      split
      · exact h1
      · split
        · exact h1.trans (by fr_mod)
        · split
          · exact h1.trans ((Fr_ping _ _ _ _).trans (by fr_mod))
          · exact h1
    · dsimp only
      split
      · exact Fr.refl _
      · split
        · fr_mod
        · split
          · exact (Fr_ping _ _ _ _).trans (by fr_mod)
          · exact Fr.refl _

theorem Fr_validateSelected (a : Agent) (now : Nat) : Fr a (a.validateSelected now).1 := by
  unfold Agent.validateSelected
  split
  · exact Fr.refl _
  · dsimp only
    exact Fr_setConnState _ _

theorem Fr_keepalive (a : Agent) (now : Nat) : Fr a (a.keepalive now).1 := by
  unfold Agent.keepalive
  split
  · exact Fr.refl _
  · split
    · split
      · exact Fr_ping _ _ _ _
      · exact Fr.refl _
    · exact Fr.refl _

theorem Fr_nominate (a : Agent) (now : Nat) (p : Pair) : Fr a (a.nominate now p).1 := by
  unfold Agent.nominate
  split
  · exact Fr_sendRequest _ _ _ _ _ _
  · exact Fr.refl _

theorem Fr_validate_keepalive (a : Agent) (now : Nat) :
    Fr a (let (a, o, ok) := a.validateSelected now
      if ok then let (a, o') := a.keepalive now; (a, o ++ o') else (a, o)).1 := by
  have h := Fr_validateSelected a now
  generalize a.validateSelected now = x at *
  obtain ⟨a1, o, ok⟩ := x
  dsimp only
  split
  · exact h.trans (Fr_keepalive _ _)
  · exact h

theorem Fr_autoRenom (a : Agent) (now : Nat) : Fr a (a.autoRenom now).1 := by
  refine IceProofs.Auto.autoRenom_parts (P := fun x => Fr a x.1) ?_ a (Fr.refl a)
  exact {
    mark := fun _ _ _ _ h _ _ => h.trans (by fr_mod)
    ping := fun b _ l r h _ _ => h.trans (Fr_ping b now l r)
    time := fun _ _ h => h.trans (by fr_same)
    count := fun _ _ h => h.trans (by fr_same)
    issue := fun b _ l r nom h _ _ _ _ _ => h.trans (Fr_sendRequest b now l r true nom)
    log := fun _ _ _ h => h.trans (by fr_same) }

theorem Fr_validate_keepalive_auto (a : Agent) (now : Nat) :
    Fr a (let (a, o, ok) := a.validateSelected now
      if ok then let (a, o') := a.keepalive now; let (a, o'') := a.autoRenom now; (a, o ++ o' ++ o'') else (a, o)).1 := by
  have h := Fr_validateSelected a now
  generalize a.validateSelected now = x at *
  obtain ⟨a1, o, ok⟩ := x
  dsimp only
  split
  · exact (h.trans (Fr_keepalive _ _)).trans (Fr_autoRenom _ _)
  · exact h

theorem Fr_contactCandidates (a : Agent) (now : Nat) : Fr a (a.contactCandidates now).1 := by
  unfold Agent.contactCandidates
  split
  · split
    · exact Fr_validate_keepalive_auto a now
    · split
      · exact Fr_nominate _ _ _
      · split
        · exact Fr.refl _
        · split
          · split
            · split
              · refine Fr.trans ?_ (Fr_nominate _ _ _)
                exact (Fr.modPair a _ (fun p => { p with nominated := true }) (fun _ => ⟨rfl, rfl, rfl, Or.inl rfl⟩)).congr
                  rfl rfl rfl rfl rfl rfl rfl rfl rfl rfl
              · exact Fr_pingAll _ _
            · exact Fr_pingAll _ _
          · exact Fr_pingAll _ _
  · split
    · dsimp only
      exact Fr_validateSelected a now
    · split
      · exact Fr_validate_keepalive a now
      · exact Fr_pingAll _ _

theorem Fr_lastSeen (a : Agent) (s : ConnState) : Fr a { a with lastSeen := s } := by fr_same

theorem Fr_contact (a : Agent) (now : Nat) : Fr a (a.contact now).1 := by
  unfold Agent.contact
  split
  · exact Fr.refl _
  · dsimp only
    have h1 : Fr a (if a.lastSeen != .checking then { a with checkingStart := now } else a) := by
      split
      · fr_same
      · exact Fr.refl _
    generalize (if a.lastSeen != .checking then { a with checkingStart := now } else a) = a1 at *
    split
    · exact Fr_lastSeen _ _
    · split
      · exact (h1.trans (Fr_setConnState _ _)).trans (Fr_lastSeen _ _)
      · exact (h1.trans (Fr_contactCandidates _ _)).trans (Fr_lastSeen _ _)
    · exact (Fr_contactCandidates _ _).trans (Fr_lastSeen _ _)

theorem Fr_nextTick (a : Agent) (t : Option Nat) : Fr a { a with nextTick := t } := by fr_same

theorem Fr_runTimers (a : Agent) (now fuel : Nat) : Fr a (a.runTimers now fuel).1 := by
  induction fuel generalizing a with
  | zero => exact Fr.refl _
  | succ n ih =>
    unfold Agent.runTimers
    split
    · split
      · dsimp only
        exact ((Fr_contact _ _).trans (Fr_nextTick _ _)).trans (ih _)
      · exact Fr.refl _
    · exact Fr.refl _

theorem Fr_runForced (a : Agent) (now : Nat) : Fr a (a.runForced now).1 := by
  unfold Agent.runForced
  split
  · dsimp only
    have h := Fr_contact { a with forcePending := false } now
    exact Fr.trans (b := { a with forcePending := false }) (by fr_same) (h.trans (Fr_nextTick _ _))
  · exact Fr.refl _

theorem Fr_resetSelector (a : Agent) (now : Nat) : Fr a (a.resetSelector now) := by fr_same

theorem Fr_doRestart (a : Agent) (now : Nat) (u p : String) : Fr a (a.doRestart now u p).1 := by
  unfold Agent.doRestart
  dsimp only
  generalize h0 : ({ a with localUfrag := u, localPwd := p, remoteUfrag := "", remotePwd := "" } : Agent) = a0
  have e0 : Fr a a0 := by subst h0; fr_same
  have h : Fr a { (a0.wipe.resetSelector now) with generation := (a0.wipe.resetSelector now).generation + 1 } :=
    e0.trans ((Fr.wipe a0).trans (by fr_same))
  split
  · exact h.trans (Fr_setConnState _ _)
  · exact h

theorem Fr_sendSuccess (a : Agent) (now : Nat) (m : Msg) (l r : Cand) : Fr a (a.sendSuccess now m l r).1 := by
  unfold Agent.sendSuccess
  dsimp only
  refine Fr.trans ?_ (Fr.seenLocalSent _ _ _)
  split
  · fr_mod
  · exact Fr.refl _

/-- nothing of the candidate tables moves (no wipe either) -/
def KeepEq (a b : Agent) : Prop :=
  b.locals = a.locals ∧ b.remotes = a.remotes ∧ b.caches = a.caches ∧ b.nextUid = a.nextUid

theorem KeepEq.refl (a : Agent) : KeepEq a a := ⟨rfl, rfl, rfl, rfl⟩
theorem KeepEq.trans {a b c : Agent} (h1 : KeepEq a b) (h2 : KeepEq b c) : KeepEq a c :=
  ⟨h2.1.trans h1.1, h2.2.1.trans h1.2.1, h2.2.2.1.trans h1.2.2.1, h2.2.2.2.trans h1.2.2.2⟩

theorem KeepEq_select (a : Agent) (id : Nat) : KeepEq a (a.select id).1 := by
  unfold Agent.select Agent.setConnState
  dsimp only
  split
  · exact ⟨rfl, rfl, rfl, rfl⟩
  · exact ⟨rfl, rfl, rfl, rfl⟩

theorem select_checklist (a : Agent) (id : Nat) :
    (a.select id).1.checklist = updPair a.checklist id fun p => { p with nominated := true } := by
  unfold Agent.select Agent.setConnState
  dsimp only
  split
  · rfl
  · rfl

/-- one round of `replaceRemoteInPairs` (the body of its loop) -/
def rrRound (old c : Cand) (acc : Agent × List Out) (id : Nat) : Agent × List Out :=
  let (a, o) := acc
  match a.pairById id with
  | some p =>
    if p.r == old.uid then
      let oldPrio := a.pairPrio p
      let a := a.modPair id fun p => { p with r := c.uid, prioOverride := some oldPrio }
      if a.selected == some id then
        let (a, o') := a.select id
        (a, o ++ o')
      else (a, o)
    else (a, o)
  | none => (a, o)

theorem replaceRemoteInPairs_eq (a : Agent) (old c : Cand) :
    a.replaceRemoteInPairs old c = (a.checklist.map (·.id)).foldl (rrRound old c) (a, []) := rfl

theorem KeepEq_rrRound (old c : Cand) (acc : Agent × List Out) (id : Nat) : KeepEq acc.1 (rrRound old c acc id).1 := by
  obtain ⟨a, o⟩ := acc
  unfold rrRound
  dsimp only
  split
  · split
    · split
      · exact KeepEq.trans (b := a.modPair id _) ⟨rfl, rfl, rfl, rfl⟩ (KeepEq_select _ _)
      · exact ⟨rfl, rfl, rfl, rfl⟩
    · exact KeepEq.refl _
  · exact KeepEq.refl _

theorem Fr_rrRound (old c : Cand) (acc : Agent × List Out) (id : Nat) (hc : c.uid ∈ ruids acc.1) :
    Fr acc.1 (rrRound old c acc id).1 := by
  obtain ⟨a, o⟩ := acc
  unfold rrRound
  dsimp only
  split
  · split
    · split
      · refine Fr.trans ?_ (Fr_select _ _)
        exact Fr.modPair _ _ _ (fun _ => ⟨rfl, rfl, rfl, Or.inr hc⟩)
      · exact Fr.modPair _ _ _ (fun _ => ⟨rfl, rfl, rfl, Or.inr hc⟩)
    · exact Fr.refl _
  · exact Fr.refl _

/-- how one round relates the pairs: ids and local ends are kept; the remote end is kept — but not on the
pair found under `id` when that pair points to `old` — or becomes `c` -/
theorem rrRound_rel (old c : Cand) (a : Agent) (o : List Out) (id : Nat) :
    ∀ p' ∈ (rrRound old c (a, o) id).1.checklist, ∃ p ∈ a.checklist, p'.id = p.id ∧
      ((p'.r = p.r ∧ ¬(p.id = id ∧ ∃ q, a.pairById id = some q ∧ q.r = old.uid)) ∨ p'.r = c.uid) := by
  unfold rrRound
  dsimp only
  have hid : ∀ p' ∈ a.checklist, (∀ q, a.pairById id = some q → q.r ≠ old.uid) → ∃ p ∈ a.checklist, p'.id = p.id ∧
      ((p'.r = p.r ∧ ¬(p.id = id ∧ ∃ q, a.pairById id = some q ∧ q.r = old.uid)) ∨ p'.r = c.uid) :=
    fun p' hp' hn => ⟨p', hp', rfl, Or.inl ⟨rfl, fun ⟨_, q, hq, hr⟩ => hn q hq hr⟩⟩
  split
  · rename_i p hp
    split
    · rename_i hr
      have hr' : p.r = old.uid := by simpa using hr
      -- the checklist after the retarget (and the optional re-selection)
      have key : ∀ p' ∈ updPair a.checklist id (fun q => { q with r := c.uid, prioOverride := some (a.pairPrio p) }),
          ∃ p0 ∈ a.checklist, p'.id = p0.id ∧
          ((p'.r = p0.r ∧ ¬(p0.id = id ∧ ∃ q, a.pairById id = some q ∧ q.r = old.uid)) ∨ p'.r = c.uid) := by
        intro p' hp'
        obtain ⟨p0, hp0, e⟩ := List.mem_map.mp hp'
        refine ⟨p0, hp0, ?_⟩
        by_cases h : (p0.id == id) = true
        · rw [if_pos h] at e
          subst e
          exact ⟨rfl, Or.inr rfl⟩
        · rw [if_neg h] at e
          subst e
          refine ⟨rfl, Or.inl ⟨rfl, fun ⟨h', _⟩ => h (by simp [h'])⟩⟩
      split
      · intro p' hp'
        dsimp only at hp'
        rw [select_checklist] at hp'
        obtain ⟨p1, hp1, e⟩ := List.mem_map.mp hp'
        obtain ⟨p0, hp0, e0, e1⟩ := key p1 hp1
        refine ⟨p0, hp0, ?_⟩
        have e2 : p'.id = p1.id ∧ p'.r = p1.r := by
          rw [← e]; split <;> exact ⟨rfl, rfl⟩
        rw [e2.1, e2.2]
        exact ⟨e0, e1⟩
      · exact key
    · rename_i hr
      intro p' hp'
      refine hid p' hp' (fun q hq => ?_)
      rw [hp] at hq
      cases hq
      simpa using hr
  · rename_i hp
    intro p' hp'
    exact hid p' hp' (fun q hq => by rw [hp] at hq; cases hq)

theorem Fr_replaceRemoteInPairs (a : Agent) (old c : Cand) (hc : c.uid ∈ ruids a) :
    Fr a (a.replaceRemoteInPairs old c).1 := by
  rw [replaceRemoteInPairs_eq]
  generalize (a.checklist.map (·.id)) = ids
  suffices h : ∀ acc : Agent × List Out, ruids acc.1 = ruids a → Fr acc.1 (ids.foldl (rrRound old c) acc).1 from
    h (a, []) rfl
  induction ids with
  | nil => intro acc _; exact Fr.refl _
  | cons id ids ih =>
    intro acc hacc
    rw [List.foldl_cons]
    refine Fr.trans (Fr_rrRound old c acc id (by rw [hacc]; exact hc)) (ih _ ?_)
    have k := KeepEq_rrRound old c acc id
    unfold ruids at hacc ⊢
    rw [k.2.1]; exact hacc

theorem KeepEq_replaceRemoteInPairs (a : Agent) (old c : Cand) : KeepEq a (a.replaceRemoteInPairs old c).1 := by
  rw [replaceRemoteInPairs_eq]
  generalize (a.checklist.map (·.id)) = ids
  suffices h : ∀ acc : Agent × List Out, KeepEq acc.1 (ids.foldl (rrRound old c) acc).1 from h (a, [])
  induction ids with
  | nil => intro acc; exact KeepEq.refl _
  | cons id ids ih =>
    intro acc
    rw [List.foldl_cons]
    exact (KeepEq_rrRound old c acc id).trans (ih _)

theorem Fr_takePending (a : Agent) (now tid : Nat) : Fr a (a.takePending now tid).1 := by
  unfold Agent.takePending
  dsimp only
  split
  · fr_same
  · fr_same


theorem Fr_handleSuccess (a : Agent) (now : Nat) (m : Msg) (l r : Cand) (src : Nat) :
    Fr a (a.handleSuccess now m l r src).1 := by
  unfold Agent.handleSuccess
  have h := Fr_takePending a now m.tid
  generalize a.takePending now m.tid = x at *
  obtain ⟨a1, pend⟩ := x
  dsimp only
  split
  · exact h
  · rename_i pd
    split
    · exact h
    · split
      · exact h
      · rename_i p hp
        dsimp only
        refine Fr.trans ?_ (by fr_mod)
        refine h.trans ?_
        refine Fr.trans (b := a1.modPair p.id fun q => { q with state := .succeeded, gResp := true, gRespUC := q.gRespUC || pd.useCand }) (by fr_mod) ?_
        generalize (a1.modPair p.id fun q => { q with state := .succeeded, gResp := true, gRespUC := q.gRespUC || pd.useCand }) = a2
        split
        · split
          · split
            · repeat' split
              all_goals first
                | exact Fr.refl _
                | exact Fr.trans (b := { a2 with answeredNomination := some _ }) (by fr_same) (Fr_select _ _)
            · split
              · exact Fr_select _ _
              · exact Fr.refl _
          · exact Fr.refl _
        · split
          · dsimp only
            refine Fr.trans ?_ (by fr_mod)
            repeat' split
            all_goals first | exact Fr.refl _ | exact Fr_select _ _
          · exact Fr.refl _


theorem Keep_sendSuccess (a : Agent) (now : Nat) (m : Msg) (l r : Cand) : Keep a (a.sendSuccess now m l r).1 := by
  unfold Agent.sendSuccess
  dsimp only
  split <;> exact ⟨map_ckey_updCand _ _ _ (fun _ => rfl), rfl, rfl⟩

theorem Fr_ctlHandleRequest (a : Agent) (now : Nat) (m : Msg) (l r : Cand)
    (hl : l.uid ∈ luids a) (hr : r.uid ∈ ruids a) :
    Fr a (a.ctlHandleRequest now m l r).1 := by
  unfold Agent.ctlHandleRequest
  have h := Fr_sendSuccess a now m l r
  have k := Keep_sendSuccess a now m l r
  generalize a.sendSuccess now m l r = x at *
  obtain ⟨a1, o⟩ := x
  dsimp only
  split
  · exact h.trans ((Fr.addPair _ _ _ (by rw [k.luids]; exact hl) (by rw [k.ruids]; exact hr)).trans (by fr_mod))
  · rename_i p hp
    refine h.trans ?_
    refine Fr.trans (b := a1.modPair p.id fun q => { q with reqRecv := q.reqRecv + 1, gReq := true, gNomReq := q.gNomReq || m.useCand || m.nom.isSome }) (by fr_mod) ?_
    generalize (a1.modPair p.id fun q => { q with reqRecv := q.reqRecv + 1, gReq := true, gNomReq := q.gNomReq || m.useCand || m.nom.isSome }) = a2
    split
    · split
      · exact Fr.refl _
      · repeat' split
        all_goals first | exact Fr.refl _ | exact Fr.trans (b := { a2 with nominatedPair := some p.id }) (by fr_same) (Fr_nominate _ _ _)
    · exact Fr.refl _

/-- from `heq : X = (b, y)` reduce `Fr a b` to `Fr a X.1` -/
macro "fr_from " h:ident : tactic =>
  `(tactic| (have e := congrArg Prod.fst $h; dsimp only at e; rw [← e]; clear e))

theorem Fr_cldHandleRequest (a : Agent) (now : Nat) (m : Msg) (l r : Cand)
    (hl : l.uid ∈ luids a) (hr : r.uid ∈ ruids a) :
    Fr a (a.cldHandleRequest now m l r).1 := by
  unfold Agent.cldHandleRequest
  split
  rename_i a1 p heq
  have h1 : Fr a a1 := by
    fr_from heq
    split
    · exact Fr.refl _
    · exact Fr.addPair _ _ _ hl hr
  refine h1.trans ?_
  clear h1 heq
  extract_lets id a2 nominated
  have h2 : Fr a1 a2 := by fr_mod
  refine h2.trans ?_
  clear_value a2 nominated
  clear h2
  split
  rename_i a3 accept heq
  have h3 : Fr a2 a3 := by
    fr_from heq
    repeat' split
    all_goals first | exact Fr.refl _ | fr_same
  refine h3.trans ?_
  clear h3 heq
  split
  · exact Fr_sendSuccess _ _ _ _ _
  · split
    rename_i a4 o heq
    have h4 : Fr a3 a4 := by
      fr_from heq
      split
      · have h5 : Fr a3 (if a3.cfg.lite = true then a3.modPair id fun q => { q with state := .succeeded } else a3) := by
          split
          · fr_mod
          · exact Fr.refl _
        refine h5.trans ?_
        generalize (if a3.cfg.lite = true then a3.modPair id fun q => { q with state := .succeeded } else a3) = a5
        repeat' split
        all_goals first | exact Fr.refl _ | exact Fr_select _ _ | fr_mod
      · exact Fr.refl _
    refine h4.trans ?_
    clear h4 heq
    split
    rename_i a6 o1 heq
    have h6 : Fr a4 a6 := by
      fr_from heq
      exact Fr_sendSuccess _ _ _ _ _
    refine h6.trans ?_
    clear h6 heq
    split
    rename_i a7 o2 heq
    fr_from heq
    split
    · split
      · exact Fr_ping _ _ _ _
      · exact Fr.refl _
    · exact Fr.refl _

end IceProofs.AgentC07
