import IceProofs.TcpMuxSimFrame
/-!
# Operations that close packet connections: `RemoveConnByUfrag`, handle / packet-conn `Close`, the clock,
`Close` of the mux — and `GetConnByUfrag`, `WriteTo`
-/
namespace IceProofs.TcpMux
open IceModel.TcpMux IceSpec.C15 IceSpec.C15.View

theorem closePc1_misc (s : State) (p : Nat) :
    (closePc1 s p).handles = s.handles ∧ (closePc1 s p).now = s.now ∧ (closePc1 s p).listenerOpen = s.listenerOpen := by
  unfold closePc1
  split
  · exact ⟨rfl, rfl, rfl⟩
  · split <;> exact ⟨rfl, rfl, rfl⟩

theorem nread_clients {s : State} {m m' : Mon} (hn : NRead s m) (h : m'.clients = m.clients) : NRead s m' := by
  intro k t c ht hc
  rw [h] at hc
  exact hn k t c ht hc

/-- one packet connection is closed: the monitor closes the record -/
theorem closePc1_chain {s : State} {m : Mon} (p : Nat) (hi : Inv s) (h2 : Inv2 s) (hu : SimU s m) (hn : NRead s m) :
    SimU (closePc1 s p) { m with pcs := (closePc1 s p).pcs.map absPc } ∧
    NRead (closePc1 s p) { m with pcs := (closePc1 s p).pcs.map absPc } ∧
    OutQ s (closePc1 s p) ∧ (closePc1 s p).tcps.length = s.tcps.length := by
  obtain ⟨q, oq, rl⟩ := closePc1_quiet s p hi
  obtain ⟨e1, e2, _⟩ := closePc1_misc s p
  have := quiet_step q rl hi h2 hu hn
  have hm : ({ m with pcs := (closePc1 s p).pcs.map absPc, handles := (closePc1 s p).handles.map absH, now := (closePc1 s p).now } : Mon) =
      { m with pcs := (closePc1 s p).pcs.map absPc } := by
    rw [e1, e2, ← hu.handles, ← hu.now]
  rw [hm] at this
  exact ⟨this.1, this.2, oq, q.tlen⟩

/-- several packet connections are closed -/
theorem closePcsWhere_chain {s : State} {m : Mon} (sel : PConn → Bool) (hi : Inv s) (h2 : Inv2 s)
    (hu : SimU s m) (hn : NRead s m) :
    SimU (closePcsWhere sel s) { m with pcs := (closePcsWhere sel s).pcs.map absPc } ∧
    NRead (closePcsWhere sel s) { m with pcs := (closePcsWhere sel s).pcs.map absPc } ∧
    OutQ s (closePcsWhere sel s) ∧ (closePcsWhere sel s).tcps.length = s.tcps.length ∧
    (closePcsWhere sel s).handles = s.handles ∧ (closePcsWhere sel s).now = s.now := by
  have base : ({ m with pcs := s.pcs.map absPc } : Mon) = m := by rw [← hu.pcs]
  have := foldl_inv (fun x : State => Inv x ∧ Inv2 x ∧ SimU x { m with pcs := x.pcs.map absPc } ∧
      NRead x { m with pcs := x.pcs.map absPc } ∧ OutQ s x ∧ x.tcps.length = s.tcps.length ∧
      x.handles = s.handles ∧ x.now = s.now)
    (fun s p => match s.pcs[p]? with
      | some pc => if sel pc then closePc s p else s
      | none => s) (List.range s.pcs.length) s
    ⟨hi, h2, by rw [base]; exact hu, by rw [base]; exact hn, OutQ.refl s, rfl, rfl, rfl⟩
    (by
      intro b a ⟨bi, b2, bu, bn, bo, bl, bh, bnow⟩
      split
      · split
        · obtain ⟨c1, c2, c3, c4⟩ := closePc1_chain a bi b2 bu bn
          obtain ⟨e1, e2, _⟩ := closePc1_misc b a
          exact ⟨closePc1_inv b a bi, closePc1_inv2 b a bi b2, c1, c2, bo.trans c3, c4.trans bl, e1.trans bh, e2.trans bnow⟩
        · exact ⟨bi, b2, bu, bn, bo, bl, bh, bnow⟩
      · exact ⟨bi, b2, bu, bn, bo, bl, bh, bnow⟩)
  exact ⟨this.2.2.1, this.2.2.2.1, this.2.2.2.2.1, this.2.2.2.2.2.1, this.2.2.2.2.2.2.1, this.2.2.2.2.2.2.2⟩

/-! ## list facts -/

theorem map_modify_comm {α β : Type} (l : List α) (p : Nat) (g : α → α) (g' : β → β) (F : α → β)
    (h : ∀ a, F (g a) = g' (F a)) : (l.modify p g).map F = (l.map F).modify p g' := by
  apply List.ext_getElem?
  intro q
  simp only [List.getElem?_map]
  rw [getElem?_modify_map, getElem?_modify_map, List.getElem?_map]
  cases l[q]? with
  | none => rfl
  | some a =>
    simp only [Option.map_some, Option.some.injEq]
    split
    · exact h a
    · rfl

theorem filterMap_range_single {β : Type} (g : Nat → Option β) (n k : Nat) (b : β) (hk : k < n) (hg : g k = some b)
    (hne : ∀ j, j ≠ k → g j = none) : (List.range n).filterMap g = [b] := by
  induction n with
  | zero => omega
  | succ n ih =>
    rw [List.range_succ, List.filterMap_append]
    by_cases hkn : k = n
    · subst hkn
      have : (List.range k).filterMap g = [] := by
        rw [List.filterMap_eq_nil_iff]
        intro a ha
        rw [List.mem_range] at ha
        exact hne a (by omega)
      rw [this]
      simp [hg]
    · rw [ih (by omega)]
      simp [hne n (fun e => hkn e.symm)]

/-- the only indexed element satisfying `p` -/
theorem indexed_filter_single {α : Type} (l : List α) (p : Nat × α → Bool) (k : Nat) (a : α) (ha : l[k]? = some a)
    (hp : p (k, a) = true) (hu : ∀ j b, l[j]? = some b → p (j, b) = true → j = k) :
    (indexed l).filter p = [(k, a)] := by
  unfold indexed
  rw [List.filter_filterMap]
  apply filterMap_range_single _ _ k (k, a) (getElem?_lt ha)
  · simp [ha, hp]
  · intro j hj
    cases hb : l[j]? with
    | none => simp
    | some b =>
      simp only [Option.map_some, Option.filter_some]
      cases hpb : p (j, b) with
      | false => simp
      | true => exact absurd (hu j b hb hpb) hj

theorem indexed_filter_nil {α : Type} (l : List α) (p : Nat × α → Bool)
    (hu : ∀ j b, l[j]? = some b → p (j, b) = false) : (indexed l).filter p = [] := by
  rw [List.filter_eq_nil_iff]
  intro x hx
  rw [mem_indexed'] at hx
  simp [hu x.1 x.2 hx]

theorem simU_handles {s : State} {m : Mon} (hs : SimU s m) (hn : NRead s m) (H : List Handle) :
    SimU { s with handles := H } { m with handles := H.map absH } ∧
    NRead { s with handles := H } { m with handles := H.map absH } :=
  ⟨⟨hs.active, hs.t1, hs.t2, hs.now, hs.called, hs.ctime, hs.pcs, rfl, hs.len, hs.cl, hs.stamp, hs.last, hs.ho, hs.cc,
    hs.pl, hs.plb, hs.endLast, hs.uniq⟩, hn⟩

/-! ## `RemoveConnByUfrag` -/

theorem op_remove {s : State} {m : Mon} (hs : Sim s m) (hi : Inv s) (h2 : Inv2 s) (u : String) :
    BookOK s (step s (.removeByUfrag u)).1 m
      (book m (.remove u) (obsOf s.tcps (step s (.removeByUfrag u)).1 (oresOf (.removeByUfrag u) (step s (.removeByUfrag u)).2))) := by
  have hi' := step_inv s (.removeByUfrag u) hi
  have hext := step_ext s (.removeByUfrag u) (inv2_pendingFresh s h2)
  show BookOK s _ m ({ m with pcs := closeWhere m.pcs (fun pc => pc.ufrag == u) }, none, false)
  have hst : (step s (.removeByUfrag u)).1 = closePcsWhere (fun pc => decide (pc.key.ufrag = u)) s := rfl
  rw [hst] at hi' hext ⊢
  obtain ⟨hu, hn, oq, hl, _, _⟩ := closePcsWhere_chain (fun pc => decide (pc.key.ufrag = u)) hi h2 hs.u hs.nread
  have hpcs : closeWhere m.pcs (fun pc => pc.ufrag == u) = (closePcsWhere (fun pc => decide (pc.key.ufrag = u)) s).pcs.map absPc := by
    rw [hs.u.pcs, closePcsWhere_pcs]
    apply closeWhere_abs
    intro pc _ _
    simp only [absPc]
    by_cases h : pc.key.ufrag = u <;> simp [h]
  rw [hpcs]
  apply bookOK_mk rfl hu hn hi'
  · exact old_of_flags hs.flags hs.u.len hext closed_same
  · rfl
  · intro _; exact newReplies_of_outQ hl oq

/-! ## `Close` of the packet connection behind a handle -/

theorem closeRec_abs (s : State) (p : Nat) : closeRec (s.pcs.map absPc) p = (closePc1 s p).pcs.map absPc := by
  rw [closePc1_pcs_map]
  unfold closeRec
  rw [map_modify_comm s.pcs p _ closeOne absPc]
  intro pc
  cases hc : pc.closed with
  | false => simp only [if_true]; exact absPc_closedPc pc hc
  | true => simp only [Bool.true_eq_false, if_false]; exact (absPc_closed_closeOne pc hc).symm

theorem handle_abs {s : State} {m : Mon} (hu : SimU s m) (h : Nat) : m.handles[h]? = (s.handles[h]?).map absH := by
  rw [hu.handles, List.getElem?_map]

theorem op_closepc {s : State} {m : Mon} (hs : Sim s m) (hi : Inv s) (h2 : Inv2 s) (h : Nat)
    (hnb : (step s (.closePacketConn h)).2 ≠ .bad) :
    BookOK s (step s (.closePacketConn h)).1 m
      (book m (.closepc h) (obsOf s.tcps (step s (.closePacketConn h)).1
        (oresOf (.closePacketConn h) (step s (.closePacketConn h)).2))) := by
  have hi' := step_inv s (.closePacketConn h) hi
  have hext := step_ext s (.closePacketConn h) (inv2_pendingFresh s h2)
  cases hh : s.handles[h]? with
  | none => simp [step, hh] at hnb
  | some hd =>
    have hst : (step s (.closePacketConn h)).1 = closePc1 s hd.pc := by simp [step, hh, closePc]
    rw [hst] at hi' hext ⊢
    have hmh : m.handles[h]? = some (absH hd) := by rw [handle_abs hs.u, hh]; rfl
    show BookOK s _ m (match m.handles[h]? with
      | some hd => ({ m with pcs := closeRec m.pcs hd.pc }, none, false)
      | none => (m, none, false))
    rw [hmh]
    simp only
    obtain ⟨hu, hn, oq, hl⟩ := closePc1_chain hd.pc hi h2 hs.u hs.nread
    have hpcs : closeRec m.pcs (absH hd).pc = (closePc1 s hd.pc).pcs.map absPc := by
      rw [hs.u.pcs]; exact closeRec_abs s hd.pc
    rw [hpcs]
    apply bookOK_mk rfl hu hn hi'
    · exact old_of_flags hs.flags hs.u.len hext closed_same
    · rfl
    · intro _; exact newReplies_of_outQ hl oq

/-! ## `Close` of a handle -/

/-- a state that differs from `s` in one packet connection (logs and `closed` kept) and in the handles -/
theorem pcs_pointwise_quiet (s s' : State) (p : Nat) (g : PConn → PConn)
    (hcfg : s'.cfg = s.cfg) (hmux : s'.muxClosed = s.muxClosed) (hcat : s'.closedAt = s.closedAt)
    (htc : s'.tcps = s.tcps) (hpc : s'.pcs = s.pcs.modify p g)
    (hg : ∀ pc, (g pc).hist = pc.hist ∧ (g pc).readLog = pc.readLog ∧ (g pc).closed = pc.closed) :
    Quiet s s' ∧ OutQ s s' ∧ RLSame s s' := by
  have hpcs : ∀ q : Nat, s'.pcs[q]? = (s.pcs[q]?).map (fun a => if p = q then g a else a) := by
    intro q; rw [hpc]; exact getElem?_modify_map ..
  have htcs : ∀ j : Nat, s'.tcps[j]? = (s.tcps[j]?).map (fun a => a) := by
    intro j; rw [htc]; exact map_id_pointwise _
  refine ⟨?_, ?_, ?_⟩
  · apply quiet_of_pointwise s s' (fun _ t => t) (fun q a => if p = q then g a else a) hcfg hmux hcat htcs hpcs
    · intro j t _; exact ⟨TcpQ.refl t, fun h p' hp' => by rw [h] at hp'; cases hp'⟩
    · intro q pc _
      split
      · exact ⟨fun h => by rw [(hg pc).2.2]; exact h, [], by simp [(hg pc).1], by simp⟩
      · exact ⟨fun h => h, [], by simp, by simp⟩
  · exact outQ_of_pointwise s s' (fun _ t => t) htcs (fun _ _ => rfl)
  · apply rlSame_of_pointwise s s' (fun q a => if p = q then g a else a) hpcs
    intro q pc; split
    · exact (hg pc).2.1
    · rfl

def decRef (pc : PConn) : PConn := { pc with refs := pc.refs - 1 }
def closeHd (hd : Handle) : Handle := { hd with closed := true }

/-- the handle is marked closed and its reference dropped -/
def dropRef (s : State) (h p : Nat) : State :=
  { s with pcs := s.pcs.modify p decRef, handles := s.handles.modify h closeHd }

theorem op_closeh {s : State} {m : Mon} (hs : Sim s m) (hi : Inv s) (h2 : Inv2 s) (h : Nat)
    (hnb : (step s (.closeHandle h)).2 ≠ .bad) :
    BookOK s (step s (.closeHandle h)).1 m
      (book m (.closeh h) (obsOf s.tcps (step s (.closeHandle h)).1
        (oresOf (.closeHandle h) (step s (.closeHandle h)).2))) := by
  have hi' := step_inv s (.closeHandle h) hi
  have hext := step_ext s (.closeHandle h) (inv2_pendingFresh s h2)
  show BookOK s _ m (bookCloseh m h)
  cases hh : s.handles[h]? with
  | none => simp [step, hh] at hnb
  | some hd =>
    have hmh : m.handles[h]? = some (absH hd) := by rw [handle_abs hs.u, hh]; rfl
    unfold bookCloseh
    rw [hmh]
    simp only
    rcases Bool.eq_false_or_eq_true hd.closed with hc | hc
    · have hst : (step s (.closeHandle h)).1 = s := by simp [step, hh, hc]
      rw [hst]
      have : (absH hd).closed = true := hc
      simp only [this, if_true]
      exact bookOK_same hs hi
    · have hcm : (absH hd).closed = false := hc
      simp only [hcm, Bool.false_eq_true, if_false]
      have hHm : setAt m.handles h (fun hd => { hd with closed := true }) = (s.handles.modify h closeHd).map absH := by
        rw [hs.u.handles]; unfold setAt
        exact (map_modify_comm s.handles h closeHd _ absH (fun _ => rfl)).symm
      rw [hHm]
      cases hp : s.pcs[hd.pc]? with
      | none =>
        have hst : (step s (.closeHandle h)).1 = { s with handles := s.handles.modify h closeHd } := by
          simp [step, hh, hc, hp]; rfl
        rw [hst] at hi' hext ⊢
        have hmp : m.pcs[(absH hd).pc]? = none := by
          rw [hs.u.pcs, List.getElem?_map]; show (s.pcs[hd.pc]?).map absPc = none; rw [hp]; rfl
        simp only [hmp]
        obtain ⟨hu, hn⟩ := simU_handles hs.u hs.nread (s.handles.modify h closeHd)
        apply bookOK_mk rfl hu hn hi'
        · exact old_of_flags hs.flags hs.u.len hext closed_same
        · rfl
        · intro _; exact newReplies_nil rfl (fun k t ht => ⟨t, ht, rfl⟩)
      | some pc =>
        have hmp : m.pcs[(absH hd).pc]? = some (absPc pc) := by
          rw [hs.u.pcs, List.getElem?_map]; show (s.pcs[hd.pc]?).map absPc = _; rw [hp]; rfl
        simp only [hmp]
        obtain ⟨q2, oq2, rl2⟩ := pcs_pointwise_quiet s (dropRef s h hd.pc) hd.pc decRef rfl rfl rfl rfl rfl
          (fun _ => ⟨rfl, rfl, rfl⟩)
        have hi2 : Inv (dropRef s h hd.pc) :=
          handles_irrel_inv _ _ (setPc_irrel_inv s hd.pc decRef (fun pc => ⟨rfl, rfl, rfl, rfl, Or.inl rfl⟩) hi)
        have h22 : Inv2 (dropRef s h hd.pc) :=
          handles_irrel_inv2 _ _ (setPc_irrel_inv2 s hd.pc decRef
            (fun pc => ⟨rfl, rfl, rfl, rfl, rfl, fun x => x, fun x => x, fun _ _ => rfl⟩) h2)
        obtain ⟨hu2, hn2⟩ := quiet_step q2 rl2 hi h2 hs.u hs.nread
        have hP2 : setAt m.pcs (absH hd).pc (fun pc => { pc with refs := pc.refs - 1 }) = (s.pcs.modify hd.pc decRef).map absPc := by
          rw [hs.u.pcs]; unfold setAt
          exact (map_modify_comm s.pcs hd.pc decRef _ absPc (fun _ => rfl)).symm
        rw [hP2]
        have hrefs : (absPc pc).refs = pc.refs := rfl
        have hm2 : ({ m with pcs := (dropRef s h hd.pc).pcs.map absPc, handles := (dropRef s h hd.pc).handles.map absH, now := (dropRef s h hd.pc).now } : Mon) =
            { m with handles := (s.handles.modify h closeHd).map absH, pcs := (s.pcs.modify hd.pc decRef).map absPc } := by
          show ({ m with pcs := _, handles := _, now := s.now } : Mon) = _
          rw [← hs.u.now]; rfl
        rw [hm2] at hu2 hn2
        rcases Nat.lt_or_ge 1 pc.refs with hr | hr
        · have hst : (step s (.closeHandle h)).1 = dropRef s h hd.pc := by
            simp [step, hh, hc, hp, setPc, Nat.not_le.2 hr]; rfl
          rw [hst] at hi' hext ⊢
          rw [hrefs, if_neg (Nat.not_le.2 hr)]
          apply bookOK_mk rfl hu2 hn2 hi'
          · exact old_of_flags hs.flags hs.u.len hext closed_same
          · rfl
          · intro _; exact newReplies_nil rfl (fun k t ht => ⟨t, ht, rfl⟩)
        · have hst : (step s (.closeHandle h)).1 = closePc1 (dropRef s h hd.pc) hd.pc := by
            simp [step, hh, hc, hp, setPc, hr, closePc]; rfl
          rw [hst] at hi' hext ⊢
          rw [hrefs, if_pos hr]
          obtain ⟨hu3, hn3, oq3, hl3⟩ := closePc1_chain hd.pc hi2 h22 hu2 hn2
          have hpcs : closeRec ((s.pcs.modify hd.pc decRef).map absPc) (absH hd).pc =
              (closePc1 (dropRef s h hd.pc) hd.pc).pcs.map absPc := closeRec_abs (dropRef s h hd.pc) hd.pc
          rw [hpcs]
          apply bookOK_mk rfl hu3 hn3 hi'
          · exact old_of_flags hs.flags hs.u.len hext closed_same
          · rfl
          · intro _
            apply newReplies_of_outQ
            · rw [hl3]; rfl
            · exact oq2.trans oq3

end IceProofs.TcpMux
