import IceProofs.Sys2C20Defs
import IceProofs.Sys2C05
/-!
# C20 on `Sys2` — the history of an exchange

`microEvs s e`: the agent events one system event makes the agents execute (at most one per agent: an API call, the
delivery of an in-flight datagram to its owner, the timer ticks of `advance` — A first).  `Hist`: the monotone history
the two-agent theorems speak about — the log of nominations the controlling agent A issued, the log of those whose
success response A processed, the nomination value B accepted last (with the address pair it arrived on).
`hist s evs`: the history accumulated along a schedule, every agent event judged in the state the agent executes it in.
-/
namespace IceProofs.C20S
open IceModel.AgentCore IceModel.Sys2 IceProofs.Sys2Run IceProofs.Agent IceProofs.Sys2C05

/-- `(value, local address, remote address)` -/
abbrev Nomination := Nat × Nat × Nat

structure Hist where
  /-- nominations issued by A — `RenominateCandidate` not refused, and the automatic check of A's controlling selector
  (`issuesOf`: what the step appends to A's ghost log) —, oldest first -/
  issued : List Nomination := []
  /-- the nominations of A whose success response A has processed (transaction matched, pair found), oldest first -/
  answered : List Nomination := []
  /-- the value B accepted last, with B's local address and the source address it arrived from -/
  accepted : Option Nomination := none
  deriving Repr, DecidableEq

/-- the nomination an answered transaction belongs to (a USE-CANDIDATE check that carried a value) -/
def answeredNom (a : Agent) (ev : Ev) : Option Nomination :=
  match answerOf a ev with
  | some (pd, _) => if pd.useCand then pd.nom.map fun v => (v, pd.src, pd.dest) else none
  | none => none

/-- history after agent `X` (`false` = A, `true` = B) executes `ev` in state `a` -/
def hstep (h : Hist) (X : Bool) (a : Agent) (ev : Ev) : Hist :=
  if X then { h with accepted := (acceptAt a ev).orElse fun _ => h.accepted }
  else { h with issued := h.issued ++ issuesOf a ev,
                answered := h.answered ++ (answeredNom a ev).toList }

/-- the agent events of one system event -/
def microEvs (s : Sys) : SysEv → List (Bool × Ev)
  | .api X e => if e.isApi then [(X, e)] else []
  | .deliver k | .dup k =>
    match s.inflight[k]? with
    | none => []
    | some d =>
      if s.blocked.contains (d.src, d.dst) then []
      else match s.owner (s.unmapped d.dst) with
        | none => []
        | some X => [(X, evOf s d)]
  | .drop _ => []
  | .advance now => (false, .advance now) :: (if s.hasB then [(true, .advance now)] else [])

/-- every agent executes at most one of them, so each can be judged in the agent's state before the system event -/
def hstepSys (h : Hist) (s : Sys) (e : SysEv) : Hist :=
  (microEvs s e).foldl (fun h x => hstep h x.1 (s.agent x.1) x.2) h

def histFrom (h : Hist) (s : Sys) : List SysEv → Hist
  | [] => h
  | e :: es => histFrom (hstepSys h s e) (Sys.run s e) es

/-- the history of schedule `evs` run from `s` -/
def hist (s : Sys) (evs : List SysEv) : Hist := histFrom {} s evs

theorem histFrom_append (h : Hist) (s : Sys) (e1 e2 : List SysEv) :
    histFrom h s (e1 ++ e2) = histFrom (histFrom h s e1) (Sys.runs s e1) e2 := by
  induction e1 generalizing h s with
  | nil => rfl
  | cons e es ih =>
    simp only [List.cons_append, histFrom, Sys.runs, List.foldl_cons]
    exact ih _ _

theorem hist_snoc (s : Sys) (es : List SysEv) (e : SysEv) :
    hist s (es ++ [e]) = hstepSys (hist s es) (Sys.runs s es) e := by
  unfold hist
  rw [histFrom_append]
  rfl

/-! ## the issued log only grows -/

theorem hstep_issued_prefix (h : Hist) (X : Bool) (a : Agent) (ev : Ev) : h.issued <+: (hstep h X a ev).issued := by
  unfold hstep
  cases X
  · simp
  · simp

theorem hstepSys_issued_prefix (h : Hist) (s : Sys) (e : SysEv) : h.issued <+: (hstepSys h s e).issued := by
  unfold hstepSys
  generalize microEvs s e = l
  induction l generalizing h with
  | nil => exact List.prefix_refl _
  | cons x xs ih => exact List.IsPrefix.trans (hstep_issued_prefix h x.1 _ x.2) (ih _)

theorem histFrom_issued_prefix (h : Hist) (s : Sys) (es : List SysEv) : h.issued <+: (histFrom h s es).issued := by
  induction es generalizing h s with
  | nil => exact List.prefix_refl _
  | cons e es ih => exact List.IsPrefix.trans (hstepSys_issued_prefix h s e) (ih _ _)

/-- the log after a prefix of the schedule is a prefix of the log -/
theorem hist_issued_prefix (s : Sys) (e1 e2 : List SysEv) : (hist s e1).issued <+: (hist s (e1 ++ e2)).issued := by
  unfold hist
  rw [histFrom_append]
  exact histFrom_issued_prefix _ _ _

end IceProofs.C20S
