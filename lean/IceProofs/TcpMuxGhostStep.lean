import IceProofs.TcpMuxGhost
/-!
# Every operation preserves the ghost invariant of the TCP-mux model
-/
namespace IceProofs.TcpMux
open IceModel.TcpMux

/-- the client pushes something onto an attached connection: a frame (logged in `sent`) or an end marker -/
theorem push_inv2 (s : State) (h2 : Inv2 s) (k : Nat) (t : Tcp) (ht : s.tcps[k]? = some t)
    (f : Tcp → Tcp) (it : Item) (fr : List Frame)
    (hf : (f t).peer = t.peer ∧ (f t).pc = t.pc ∧ (f t).phase = t.phase ∧ (f t).reader = t.reader ∧
      (f t).inbox = t.inbox ++ [it] ∧ (f t).sent = t.sent ++ fr)
    (hfr : frameIds [it] = sentIds fr) (hnp : ∀ d, t.phase ≠ .pending d) : Inv2 (setTcp s k f) := by
  obtain ⟨a1, a2, a3, a4, a5, a6⟩ := hf
  have tk : ∀ j, j ≠ k → (s.tcps.modify k f)[j]? = s.tcps[j]? := fun j hj => getElem?_modify_ne _ _ _ _ hj
  have tkk : (s.tcps.modify k f)[k]? = some (f t) := by rw [getElem?_modify_eq, ht]; rfl
  constructor
  · intro j tj htj
    simp only [setTcp] at htj
    by_cases hjk : j = k
    · subst hjk
      rw [tkk] at htj; cases htj
      have old := h2.tcp j t ht
      constructor
      · intro d hd; rw [a3] at hd; exact absurd hd (hnp d)
      · intro p0 hp0; rw [a2] at hp0; exact old.ref p0 hp0
      · rw [a1, a4]; exact old.blk
      · intro p0 pc0 hp0 hpc0
        rw [a2] at hp0
        have o := old.order p0 pc0 hp0 hpc0
        rw [a3, a4, a5, a6, frameIds_append, sentIds_append, hfr]
        refine ⟨?_, List.IsPrefix.trans o.2 (List.prefix_append _ _)⟩
        intro q hq
        rw [← o.1 q hq]
        simp only [List.append_assoc]
    · rw [tk j hjk] at htj
      have o := h2.tcp j tj htj
      exact ⟨o.fresh, o.ref, o.blk, o.order⟩
  · intro q qc hq
    simp only [setTcp] at hq
    have old := h2.pc q qc hq
    constructor
    · exact old.fifo
    · intro pkt hpkt
      obtain ⟨tj, htj, e1, e2⟩ := old.src pkt hpkt
      by_cases hne : pkt.conn = k
      · rw [hne, ht] at htj; cases htj
        exact ⟨f t, by simp only [setTcp]; rw [hne]; exact tkk, by rw [a2]; exact e1, by rw [a1]; exact e2⟩
      · exact ⟨tj, by simp only [setTcp]; rw [tk _ hne]; exact htj, e1, e2⟩
    · exact old.prov

theorem ensurePc_inv2 (s : State) (key : Key) (h2 : Inv2 s) : Inv2 (ensurePc s key).1 := by
  unfold ensurePc
  split
  · exact h2
  · exact appendPc_inv2 s h2 _ rfl rfl rfl (fun _ _ => rfl)

theorem addConn_inv2 (s : State) (p k : Nat) (t : Tcp) (f : Frame) (hi : Inv s) (h2 : Inv2 s)
    (ht : s.tcps[k]? = some t) (d : Nat) (hph : t.phase = .pending d) : Inv2 (addConn s p k t f) := by
  unfold addConn
  split
  · exact h2
  · rename_i pc hp
    split
    · exact closePending_inv2 s h2 k t ht d hph _ ⟨rfl, rfl, rfl, rfl⟩
    · rename_i hcond
      simp only [Bool.or_eq_true, not_or, Bool.not_eq_true, Option.isSome_eq_false_iff, Option.isNone_iff_eq_none] at hcond
      dsimp only
      apply runReader_inv2
      · exact register_inv s hi k p t pc ht d hph hp hcond.1 hcond.2 _ ⟨rfl, rfl, rfl, rfl⟩
      · exact register_inv2 s h2 k p t pc f ht d hph hp

theorem attach_inv2 (s : State) (k : Nat) (t : Tcp) (u : String) (f : Frame) (hi : Inv s) (h2 : Inv2 s)
    (ht : s.tcps[k]? = some t) (d : Nat) (hph : t.phase = .pending d) : Inv2 (attach s k t u f) := by
  unfold attach
  dsimp only
  apply addConn_inv2 _ _ _ _ _ (ensurePc_inv s _ hi) (ensurePc_inv2 s _ h2) _ d hph
  rw [ensurePc_tcps]; exact ht

/-- `setPc` that keeps the history and re-establishes the FIFO equation -/
theorem setPc_fifo_inv2 (s : State) (p : Nat) (f : PConn → PConn) (h2 : Inv2 s)
    (hf : ∀ pc, s.pcs[p]? = some pc → (f pc).hist = pc.hist ∧ (f pc).hist = (f pc).readLog ++ (f pc).recvQ ∧
      (f pc).provisional = pc.provisional ∧ (f pc).created = pc.created ∧ (f pc).claimed = pc.claimed ∧
      (f pc).closed = pc.closed ∧ (f pc).alive = pc.alive) : Inv2 (setPc s p f) := by
  apply inv2_pointwise s (setPc s p f) (fun _ t => t) (fun q pc => if p = q then f pc else pc) rfl
  · intro j; exact map_id_pointwise _
  · intro q; exact getElem?_modify_map ..
  · intro j t _; exact ⟨rfl, rfl, rfl, Or.inl ⟨rfl, rfl, rfl⟩⟩
  · intro q pc hq
    by_cases e : p = q
    · subst e
      obtain ⟨a, b, c, d, e', f', g'⟩ := hf pc hq
      rw [if_pos rfl]
      exact ⟨a, b, c, d, fun x => by rw [← e']; exact x, fun x => by rw [← f']; exact x, fun _ _ => g'⟩
    · rw [if_neg e]
      exact pcSame h2 q pc pc hq rfl rfl rfl rfl rfl (fun x => x) (fun x => x) (fun _ _ => rfl)
  · exact h2

theorem readPc_inv2 (s : State) (p : Nat) (hi : Inv s) (h2 : Inv2 s) : Inv2 (readPc s p).1 := by
  unfold readPc
  split
  · exact h2
  · rename_i pc hp
    have hfifo := (h2.pc p pc hp).fifo
    split
    · rename_i pkt q hq
      have hi1 : Inv (setPc s p (fun pc => { pc with recvQ := q, readLog := pc.readLog ++ [pkt] })) :=
        setPc_irrel_inv s p _ (fun pc => ⟨rfl, rfl, rfl, rfl, Or.inl rfl⟩) hi
      have h21 : Inv2 (setPc s p (fun pc => { pc with recvQ := q, readLog := pc.readLog ++ [pkt] })) := by
        apply setPc_fifo_inv2 s p _ h2
        intro pc' hp'
        rw [hp] at hp'; cases hp'
        refine ⟨rfl, ?_, rfl, rfl, rfl, rfl, rfl⟩
        simp only
        rw [hfifo, hq]; simp
      dsimp only
      split
      · exact h21
      · rename_i k bq hbq
        split
        · rename_i bp fin hb
          obtain ⟨t, ht, hrd⟩ := blockedOf_some hb
          have hp1 : (setPc s p (fun pc => { pc with recvQ := q, readLog := pc.readLog ++ [pkt] })).pcs[p]? =
              some { pc with recvQ := q, readLog := pc.readLog ++ [pkt] } := by
            simp only [setPc]; rw [getElem?_modify_eq, hp]; rfl
          apply runReader_inv2
          · exact unblock_inv _ hi1 k p t _ bq bp fin ht hrd hp1 hbq _ ⟨rfl, rfl, rfl, rfl, rfl⟩
          · refine unblock_inv2 _ hi1 h21 k p t _ bq bp fin ht hrd hp1 hbq _ ⟨rfl, ?_, rfl, rfl, rfl, rfl, rfl⟩
            simp only
            rw [hfifo, hq]; simp
        · exact h21
    · rename_i hq
      split
      · rename_i k bq hbq
        split
        · rename_i bp fin hb
          obtain ⟨t, ht, hrd⟩ := blockedOf_some hb
          dsimp only
          apply runReader_inv2
          · exact unblock_inv s hi k p t pc bq bp fin ht hrd hp hbq _ ⟨rfl, rfl, rfl, rfl, rfl⟩
          · refine unblock_inv2 s hi h2 k p t pc bq bp fin ht hrd hp hbq _ ⟨rfl, ?_, rfl, rfl, rfl, rfl, rfl⟩
            simp only
            rw [hfifo, hq]; simp
        · exact h2
      · split <;> exact h2

theorem inv2_flags (s : State) (h2 : Inv2 s) (a b : Bool) (c : Nat) :
    Inv2 { s with muxClosed := a, listenerOpen := b, closedAt := c } := by
  apply inv2_pointwise s { s with muxClosed := a, listenerOpen := b, closedAt := c } (fun _ t => t) (fun _ pc => pc) rfl
  · intro j; exact map_id_pointwise _
  · intro q; exact map_id_pointwise _
  · intro j t _; exact ⟨rfl, rfl, rfl, Or.inl ⟨rfl, rfl, rfl⟩⟩
  · intro q pc hq
    exact pcSame h2 q pc pc hq rfl rfl rfl rfl rfl (fun x => x) (fun x => x) (fun _ _ => rfl)
  · exact h2

theorem step_inv2 (s : State) (op : Op) (hi : Inv s) (h2 : Inv2 s) : Inv2 (step s op).1 := by
  cases op with
  | accept peer lip =>
    simp only [step]
    split <;> exact appendTcp_inv2 s h2 _ rfl rfl rfl rfl
  | frame k f =>
    simp only [step]
    split
    · exact h2
    · rename_i t ht
      split
      · exact h2
      · split
        · exact h2
        · rename_i d hph
          split
          · exact attach_inv2 s k t _ f hi h2 ht d hph
          · exact closePending_inv2 s h2 k t ht d hph _ ⟨rfl, rfl, rfl, rfl⟩
        · rename_i q hph
          apply runReader_inv2
          · exact setTcp_irrel_inv s k _ (fun t => ⟨rfl, rfl, rfl, rfl⟩) hi
          · exact push_inv2 s h2 k t ht _ (.frame f) [f] ⟨rfl, rfl, rfl, rfl, rfl, rfl⟩ (by simp [frameIds, frameId, sentIds])
              (by intro d hd; rw [hph] at hd; cases hd)
  | partialFrame k =>
    simp only [step]
    split
    · exact h2
    · split
      · exact h2
      · exact setTcp_irrel_inv2 s k _ (fun t => ⟨rfl, rfl, rfl, rfl, rfl, rfl⟩) h2
  | clientClose k reset =>
    simp only [step]
    split
    · exact h2
    · rename_i t ht
      split
      · exact h2
      · split
        · exact setTcp_irrel_inv2 s k _ (fun t => ⟨rfl, rfl, rfl, rfl, rfl, rfl⟩) h2
        · rename_i d hph
          exact closePending_inv2 s h2 k t ht d hph _ ⟨rfl, rfl, rfl, rfl⟩
        · rename_i q hph
          apply runReader_inv2
          · exact setTcp_irrel_inv s k _ (fun t => ⟨rfl, rfl, rfl, rfl⟩) hi
          · refine push_inv2 s h2 k t ht _ (if reset then .reset else .eof) [] ⟨rfl, rfl, rfl, rfl, rfl, by simp⟩ ?_
              (by intro d hd; rw [hph] at hd; cases hd)
            cases reset <;> simp [frameIds, frameId, sentIds]
  | advance dt =>
    simp only [step]
    exact tick_inv2 _ (closePcsWhere_inv2 _ s hi h2) _
  | getConn key =>
    simp only [step]
    split
    · exact h2
    · split
      · apply handles_irrel_inv2
        exact setPc_irrel_inv2 s _ _ (fun pc => ⟨rfl, rfl, rfl, rfl, rfl, fun x => by simp at x, fun x => x,
          fun x => by simp at x⟩) h2
      · apply handles_irrel_inv2 { s with pcs := s.pcs ++ [_] }
        exact appendPc_inv2 s h2 _ rfl rfl rfl (fun x => by simp at x)
  | removeByUfrag u =>
    simp only [step]
    exact closePcsWhere_inv2 _ s hi h2
  | closeHandle h =>
    simp only [step]
    split
    · exact h2
    · rename_i hd hh
      split
      · exact h2
      · have i1 : Inv { s with handles := s.handles.modify h (fun hd => { hd with closed := true }) } :=
          handles_irrel_inv s _ hi
        have g1 : Inv2 { s with handles := s.handles.modify h (fun hd => { hd with closed := true }) } :=
          handles_irrel_inv2 s _ h2
        split
        · exact g1
        · have i2 := setPc_irrel_inv _ hd.pc (fun pc => { pc with refs := pc.refs - 1 })
            (fun pc => ⟨rfl, rfl, rfl, rfl, Or.inl rfl⟩) i1
          have g2 := setPc_irrel_inv2 _ hd.pc (fun pc => { pc with refs := pc.refs - 1 })
            (fun pc => ⟨rfl, rfl, rfl, rfl, rfl, fun x => x, fun x => x, fun _ _ => rfl⟩) g1
          split
          · exact closePc_inv2 _ _ i2 g2
          · exact g2
  | closePacketConn h =>
    simp only [step]
    split
    · exact h2
    · exact closePc_inv2 _ _ hi h2
  | write h dst pid len =>
    simp only [step]
    split
    · exact h2
    · split
      · exact h2
      · split
        · exact h2
        · split
          · exact h2
          · exact setTcp_irrel_inv2 s _ _ (fun t => ⟨rfl, rfl, rfl, rfl, rfl, rfl⟩) h2
  | read h =>
    simp only [step]
    split
    · exact h2
    · split
      · exact h2
      · exact readPc_inv2 s _ hi h2
  | closeMux =>
    simp only [step]
    split
    · exact h2
    · exact inv2_flags _ (closePcsWhere_inv2 (fun _ => true) s hi h2) true false _

theorem run_inv2 (s : State) (ops : List Op) (hi : Inv s) (h2 : Inv2 s) : Inv2 (run s ops) := by
  induction ops generalizing s with
  | nil => exact h2
  | cons op ops ih => exact ih _ (step_inv s op hi) (step_inv2 s op hi h2)

theorem reachable_inv2 (cfg : Config) (ops : List Op) : Inv2 (run (init cfg) ops) :=
  run_inv2 _ ops (inv_init cfg) (inv2_init cfg)

/-- in reachable states pending connections have never been attached -/
theorem inv2_pendingFresh (s : State) (h2 : Inv2 s) : PendingFresh s :=
  fun k t d ht hph => ((h2.tcp k t ht).fresh d hph).1

theorem run_ext (s : State) (ops : List Op) (hi : Inv s) (h2 : Inv2 s) : Ext s (run s ops) := by
  induction ops generalizing s with
  | nil => exact Ext.refl s
  | cons op ops ih =>
    exact (step_ext s op (inv2_pendingFresh s h2)).trans (ih _ (step_inv s op hi) (step_inv2 s op hi h2))

end IceProofs.TcpMux
