import IceProofs.AgentC06Dup
import IceProofs.AgentC06Stable
/-!
# C06 — the invariant read back at the level of the agent record; reachability; freshness of new pair ids
-/
namespace IceProofs.AgentC06
open IceModel.AgentCore

/-- a freshly created agent, as far as bookkeeping is concerned (configuration, credentials, role, counters,
connection state … are arbitrary) -/
def Init (a : Agent) : Prop :=
  a.checklist = [] ∧ a.locals = [] ∧ a.remotes = [] ∧ a.caches = [] ∧ a.selected = none ∧ a.nominatedPair = none

/-- run a list of events -/
def run (a : Agent) (evs : List Ev) : Agent := evs.foldl (fun s e => (step s e).1) a

theorem run_nil (a : Agent) : run a [] = a := rfl
theorem run_append (a : Agent) (evs : List Ev) (e : Ev) : run a (evs ++ [e]) = (step (run a evs) e).1 := by
  simp [run, List.foldl_append]

theorem Inv.init {a : Agent} (h : Init a) : Inv a := by
  obtain ⟨h1, h2, h3, h4, h5, h6⟩ := h
  refine ⟨?_, ?_, ?_, ?_, ?_⟩
  · unfold InvS keysOf lcsOf rcsOf
    rw [h1, h2, h3, h4]
    exact { idsNodup := by simp, idsLe := by simp, uidsNodup := by simp, uidsLt := by simp, ends := by simp,
            closedEmpty := by simp, remNE := by simp, locNE := by simp, notBlocked := by simp,
            cachesOk := by simp }
  · intro id hid; rw [h5] at hid; exact absurd hid (by simp)
  · intro id hid; rw [h5] at hid; exact absurd hid (by simp)
  · intro id hid; rw [h6] at hid; exact absurd hid (by simp)
  · intro id hid; rw [h6] at hid; exact absurd hid (by simp)

theorem Inv.run {a : Agent} (h : Inv a) (evs : List Ev) : Inv (AgentC06.run a evs) := by
  unfold AgentC06.run
  induction evs generalizing a with
  | nil => exact h
  | cons e evs ih => exact ih (h.step e)

/-! ## reading the invariant -/

theorem Inv.read_ids {a : Agent} (h : Inv a) :
    (a.checklist.map (·.id)).Nodup ∧ ∀ p ∈ a.checklist, p.id ≤ a.nextPairID :=
  ⟨h.idsNodup, fun p hp => h.s.idsLe (key p) (List.mem_map_of_mem hp)⟩

theorem Inv.read_uids {a : Agent} (h : Inv a) :
    (a.locals.map (·.uid)).Nodup ∧ (a.remotes.map (·.uid)).Nodup ∧
    (∀ l ∈ a.locals, ∀ r ∈ a.remotes, l.uid ≠ r.uid) ∧
    (∀ c ∈ a.locals, c.uid < a.nextUid) ∧ (∀ c ∈ a.remotes, c.uid < a.nextUid) := by
  have h1 := h.s.lcNodup
  have h2 := h.s.rcNodup
  have h3 := h.s.uidsNodup
  simp only [lcsOf, rcsOf, List.map_map] at h1 h2
  refine ⟨by simpa [Function.comp_def] using h1, by simpa [Function.comp_def] using h2, ?_, ?_, ?_⟩
  · intro l hl r hr
    rw [List.map_append, List.nodup_append] at h3
    have := h3.2.2 (core l).uid (List.mem_map_of_mem (mem_lcsOf hl)) (core r).uid (List.mem_map_of_mem (mem_rcsOf hr))
    simpa using this
  · intro c hc
    simpa using h.s.uidsLt (core c) (List.mem_append_left _ (mem_lcsOf hc))
  · intro c hc
    simpa using h.s.uidsLt (core c) (List.mem_append_right _ (mem_rcsOf hc))

theorem Inv.read_ends {a : Agent} (h : Inv a) (hc : a.closed = false) :
    ∀ p ∈ a.checklist, ∃ l r, a.localOf p.l = some l ∧ a.remoteOf p.r = some r ∧ l.net = r.net := by
  intro p hp
  obtain ⟨l0, hl0, r0, hr0, hu1, hu2, hn⟩ := h.s.ends hc (key p) (List.mem_map_of_mem hp)
  obtain ⟨l, hl, hlc⟩ := localOf_of_mem h.s hl0
  obtain ⟨r, hr, hrc⟩ := remoteOf_of_mem h.s hr0
  simp only [key_snd_fst, key_snd_snd] at hu1 hu2
  refine ⟨l, r, hu1 ▸ hl, hu2 ▸ hr, ?_⟩
  have e1 := congrArg Cand.net hlc; have e2 := congrArg Cand.net hrc
  simp at e1 e2; rw [e1, e2, hn]

theorem Inv.read_selected {a : Agent} (h : Inv a) (id : Nat) (hs : a.selected = some id) :
    ∃ p, a.pairById id = some p ∧ p ∈ a.checklist ∧ p.id = id ∧ p.nominated = true := by
  obtain ⟨q, hq, hqid⟩ := mem_ids_iff.1 (h.c.sel id hs)
  cases hf : a.pairById id with
  | none =>
    unfold Agent.pairById at hf
    have := List.find?_eq_none.1 hf q hq
    simp [hqid] at this
  | some p =>
    obtain ⟨hp, hpid⟩ := pairById_some hf
    exact ⟨p, rfl, hp, hpid, h.c.selNom id hs p hp hpid⟩

theorem Inv.read_nominated {a : Agent} (h : Inv a) (id : Nat) (hn : a.nominatedPair = some id) :
    id ≤ a.nextPairID ∧
      ((∃ p ∈ a.checklist, p.id = id) ∨ a.connState = .failed ∨ a.selected.isSome ∨ a.closed = true) := by
  refine ⟨h.c.nomLe id hn, ?_⟩
  rcases h.c.nom id hn with h1 | h1
  · exact Or.inl (mem_ids_iff.1 h1)
  · exact Or.inr h1

theorem Inv.read_remotes {a : Agent} (h : Inv a) :
    a.remotes.Pairwise (fun x y => x.equal y = false) ∧ a.locals.Pairwise (fun x y => x.equal y = false) ∧
      ∀ r ∈ a.remotes, a.cfg.blockedIPs.contains (ipOf r.addr) = false := by
  have h1 := h.s.remNE
  have h2 := h.s.locNE
  simp only [lcsOf, rcsOf, List.pairwise_map, core_equal] at h1 h2
  exact ⟨h1, h2, fun r hr => by simpa using h.s.notBlocked (core r) (mem_rcsOf hr)⟩

theorem Inv.read_caches {a : Agent} (h : Inv a) :
    ∀ x ∈ a.caches, (∃ l ∈ a.locals, l.uid = x.1) ∧ (∃ r ∈ a.remotes, r.uid = x.2.2) := by
  intro x hx
  obtain ⟨⟨l, hl, h1⟩, ⟨r, hr, h2⟩⟩ := h.s.cachesOk x hx
  obtain ⟨l', hl', rfl⟩ := List.mem_map.1 hl
  obtain ⟨r', hr', rfl⟩ := List.mem_map.1 hr
  exact ⟨⟨l', hl', by simpa using h1⟩, ⟨r', hr', by simpa using h2⟩⟩

theorem Inv.read_closed {a : Agent} (h : Inv a) (hc : a.closed = true) :
    a.locals = [] ∧ a.remotes = [] ∧ a.caches = [] := by
  obtain ⟨h1, h2, h3⟩ := h.s.closedEmpty hc
  simp only [lcsOf, rcsOf, List.map_eq_nil_iff] at h1 h2
  exact ⟨h1, h2, h3⟩

/-- no two listed pairs have `Equal` ends — derived from "no two listed pairs have the same candidate identities" -/
theorem NoDupPairs.read {a : Agent} (hd : NoDupPairs a) :
    a.checklist.Pairwise (fun p q => ¬ (p.l = q.l ∧ p.r = q.r)) := by
  unfold NoDupPairs keysOf at hd
  rw [List.map_map] at hd
  have := List.pairwise_map.1 hd
  refine this.imp ?_
  intro p q hne hpq
  apply hne
  simp only [Function.comp, key]
  exact Prod.ext hpq.1 hpq.2

theorem equal_comm (x y : Cand) : x.equal y = y.equal x := by
  have key : ∀ x y : Cand, x.equal y = true → y.equal x = true := by
    intro x y
    simp only [Cand.equal, Cand.taEqual, Bool.and_eq_true, beq_iff_eq, Bool.or_eq_true, Bool.not_eq_true']
    rintro ⟨⟨⟨⟨h1, h2⟩, h5, h6⟩, h3⟩, h4⟩
    refine ⟨⟨⟨⟨h1.symm, h2.symm⟩, h5.symm, ?_⟩, h3.symm⟩, h4.symm⟩
    rcases h6 with h6 | h6
    · exact Or.inl (h1 ▸ h6)
    · exact Or.inr h6.symm
  rw [Bool.eq_iff_iff]
  exact ⟨key x y, key y x⟩

/-- … and in the words of the property: no two listed pairs have `Equal` local ends and `Equal` remote ends -/
theorem NoDupPairs.read_equal {a : Agent} (h : Inv a) (hd : NoDupPairs a) :
    a.checklist.Pairwise (fun p q => ∀ l1 r1 l2 r2, a.localOf p.l = some l1 → a.remoteOf p.r = some r1 →
      a.localOf q.l = some l2 → a.remoteOf q.r = some r2 → ¬ (l1.equal l2 = true ∧ r1.equal r2 = true)) := by
  refine hd.read.imp ?_
  intro p q hne l1 r1 l2 r2 h1 h2 h3 h4 ⟨e1, e2⟩
  apply hne
  obtain ⟨m1, u1⟩ := localOf_some h1
  obtain ⟨m2, u2⟩ := remoteOf_some h2
  obtain ⟨m3, u3⟩ := localOf_some h3
  obtain ⟨m4, u4⟩ := remoteOf_some h4
  constructor
  · rcases pairwise_mem h.s.locNE (mem_lcsOf m1) (mem_lcsOf m3) with h5 | h5 | h5
    · have := congrArg Cand.uid h5; simp at this; rw [← u1, ← u3, this]
    · simp at h5; rw [e1] at h5; cases h5
    · simp at h5; rw [equal_comm, e1] at h5; cases h5
  · rcases pairwise_mem h.s.remNE (mem_rcsOf m2) (mem_rcsOf m4) with h5 | h5 | h5
    · have := congrArg Cand.uid h5; simp at this; rw [← u2, ← u4, this]
    · simp at h5; rw [e2] at h5; cases h5
    · simp at h5; rw [equal_comm, e2] at h5; cases h5

/-! ## new pair ids are fresh -/

structure FreshFrom (a0 b : Agent) : Prop where
  np : a0.nextPairID ≤ b.nextPairID
  fresh : ∀ k' ∈ keysOf b, (∃ k ∈ keysOf a0, k.1 = k'.1) ∨ a0.nextPairID < k'.1

theorem fresh_trans {e : Ev} {w : Bool} {a0 b c : Agent} (hb : Inv b) (s : FreshFrom a0 b) (t : Trans e w b c) :
    FreshFrom a0 c := by
  cases t with
  | evo h => exact ⟨h.nextPairID ▸ s.np, by rw [h.keys]; exact s.fresh⟩
  | addP h =>
    cases h with
    | none => exact s
    | add l r _ _ _ _ =>
      refine ⟨Nat.le_succ_of_le s.np, fun k' hk' => ?_⟩
      rw [keysOf_addPair] at hk'
      rcases List.mem_append.1 hk' with hk' | hk'
      · exact s.fresh k' hk'
      · simp at hk'; subst hk'
        exact Or.inr (Nat.lt_succ_of_le s.np)
  | wf _ h =>
    obtain ⟨h1, _⟩ := h.wiped
    exact ⟨h.nextPairID ▸ s.np, fun k' hk' => by simp [keysOf, h1] at hk'⟩
  | connState st hs hn => exact ⟨s.np, s.fresh⟩
  | «local» cand hc hf => exact ⟨s.np, s.fresh⟩
  | remote cand hc hbk hf hsrc =>
    obtain ⟨_, _, h5⟩ := arcA2_spec b cand hb
    have hnp : (arcA3 b cand).nextPairID = b.nextPairID := h5.nextPairID
    refine ⟨hnp ▸ s.np, fun k' hk' => ?_⟩
    rw [arcA3_keys b cand hb] at hk'
    obtain ⟨k1, hk1, rfl⟩ := List.mem_map.1 hk'
    simpa using s.fresh k1 hk1
  | cache x hl hr hc => exact ⟨s.np, s.fresh⟩
  | restart now u p _ _ =>
    exact ⟨s.np, fun k' hk' => by simp [keysOf, restartCore, Agent.wipe, Agent.resetSelector] at hk'⟩
  | close _ _ => exact ⟨s.np, s.fresh⟩

theorem fresh_step {a : Agent} (h : Inv a) (e : Ev) : FreshFrom a (step a e).1 :=
  Chain.preserves (fun x => FreshFrom a x) (fun _ _ hb hs t => fresh_trans hb hs t) h
    ⟨Nat.le_refl _, fun k' hk' => Or.inl ⟨k', hk', rfl⟩⟩ (step_chain h e)

/-! ## histories without signalled peer-reflexive candidates have no duplicate pair -/

theorem dup_run {a : Agent} (hi : Inv a) (hd : NoDupPairs a) (hp : PrflxRel0 a) (evs : List Ev)
    (hok : ∀ e ∈ evs, evOK e = true) : NoDupPairs (run a evs) ∧ PrflxRel0 (run a evs) := by
  unfold run
  induction evs generalizing a with
  | nil => exact ⟨hd, hp⟩
  | cons e evs ih =>
    obtain ⟨h1, h2⟩ := dup_step hi hd hp e (hok e List.mem_cons_self)
    exact ih (hi.step e) h1 h2 (fun e' he' => hok e' (List.mem_cons_of_mem _ he'))

/-- the remote candidates are pairwise different as canonical candidates, whatever literals they were signalled with -/
theorem Inv.canon {a : Agent} (h : Inv a) : a.remotes.Pairwise (fun x y => canonEqual x y = false) := by
  refine (h.read_remotes.1).imp ?_
  intro x y hne
  rw [canonEqual_eq]; exact hne

theorem Init.noDup {a : Agent} (h : Init a) : NoDupPairs a ∧ PrflxRel0 a := by
  obtain ⟨h1, _, h3, _⟩ := h
  exact ⟨by simp [NoDupPairs, keysOf, h1], by simp [PrflxRel0, rcsOf, h3]⟩

end IceProofs.AgentC06
