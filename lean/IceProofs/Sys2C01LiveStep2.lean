import IceProofs.Sys2C01LiveStep
import IceProofs.AgentC06Step
import IceProofs.AgentC06Read
/-!
# C01 liveness, layer 3c — the progress lemmas at the level of one `step` (inbound STUN followed by the forced tick,
if any) of a `Good` agent that satisfies the bookkeeping invariant of C06 (`AgentC06.Inv`: candidate identities
unique and below the counter, pair ends current).
-/
namespace IceProofs.C01Live
open IceModel.AgentCore IceProofs.C03 IceProofs.Agent

theorem endsOK_of_c06 {a : Agent} (h : IceProofs.AgentC06.Inv a) (hc : a.closed = false) : EndsOK a := by
  intro p hp
  obtain ⟨l, r, h1, h2, _⟩ := h.read_ends hc p hp
  exact ⟨by rw [h1]; rfl, by rw [h2]; rfl⟩

theorem findCand_of_mem_nodup {l : List Cand} (hn : (l.map (·.uid)).Nodup) {c : Cand} (hc : c ∈ l) :
    findCand l c.uid = some c := by
  induction l with
  | nil => cases hc
  | cons y ys ih =>
    simp only [List.map_cons, List.nodup_cons] at hn
    unfold findCand
    rw [List.find?_cons]
    rcases List.mem_cons.mp hc with h | h
    · subst h; simp
    · have hne : (y.uid == c.uid) = false := by
        simp only [beq_eq_false_iff_ne, ne_eq]
        intro e
        exact hn.1 (List.mem_map.mpr ⟨c, h, e.symm⟩)
      rw [hne]
      exact ih hn.2 h

/-- the uid facts the request handler needs, from the C06 invariant -/
theorem uid_facts {a : Agent} (h : IceProofs.AgentC06.Inv a) {l : Cand} (hl : l ∈ a.locals) :
    (∃ l', a.localOf l.uid = some l' ∧ l'.equal l = true) ∧ (∀ c ∈ a.remotes, a.remoteOf c.uid = some c) ∧
    a.remoteOf a.nextUid = none := by
  obtain ⟨h1, h2, _, _, h5⟩ := h.read_uids
  refine ⟨⟨l, findCand_of_mem_nodup h1 hl, by simp [Cand.equal, Cand.taEqual]⟩,
    fun c hc => findCand_of_mem_nodup h2 hc, ?_⟩
  unfold Agent.remoteOf findCand
  rw [List.find?_eq_none]
  intro c hc
  have := h5 c hc
  simp only [beq_iff_eq]
  omega

theorem findPair_congr (a : Agent) {l l' r r' : Cand} (hl : ckey l' = ckey l) (hr : ckey r' = ckey r) :
    a.findPair l' r' = a.findPair l r := by
  unfold Agent.findPair
  congr 1
  funext p
  split
  · rename_i pl pr _ _
    rw [ckey_equal rfl hl, ckey_equal rfl hr]
  · rfl

section
variable {T0 H now : Nat} {a : Agent}

/-- an authenticated, non-conflicting request on a `Good` agent: the success response goes out … -/
theorem step_request_answered (h0 : T0 ≤ now) (hn : now ≤ H) (hg : Good T0 H a) {la src : Nat} {m : Msg} {l : Cand}
    (hl : a.localByAddr la = some l) (ha : AuthRequest a m) (hnc : NoConflict a m)
    (hflt : a.cfg.blockedIPs.contains (ipOf src) = false) :
    Out.dgram la src (respMsg a m) ∈ (step a (.inbound now la src m)).2 := by
  rw [step_inbound_proj]
  simp only [hg.open_, hg.started, Bool.not_true, Bool.or_self, Bool.false_eq_true, if_false, hl]
  have := request_answered a now l src m ha hnc (Or.inr hflt)
  rw [(IceProofs.C01.localByAddr_spec hl).2] at this
  exact List.mem_append_left _ this

/-- … and on a controlled agent a USE-CANDIDATE request leaves a selected pair, or the pair marked `nomOnSuccess`
with a check of its own in flight and pending. -/
theorem step_request_nominates (h0 : T0 ≤ now) (hn : now ≤ H) (hg : Good T0 H a) (hc6 : IceProofs.AgentC06.Inv a)
    {la src : Nat} {m : Msg} {l : Cand}
    (hl : a.localByAddr la = some l) (ha : AuthRequest a m) (hnc : NoConflict a m)
    (hflt : a.cfg.blockedIPs.contains (ipOf src) = false) (hctl : a.controlling = false)
    (huc : m.useCand = true) (hnom : m.nom = none) :
    (step a (.inbound now la src m)).1.selected.isSome = true ∨
    ∃ l' rc q mt, (step a (.inbound now la src m)).1.localByAddr la = some l' ∧
      (step a (.inbound now la src m)).1.findRemote 0 src = some rc ∧
      (step a (.inbound now la src m)).1.findPair l' rc = some q ∧ q.nomOnSuccess = true ∧
      Out.dgram la src mt ∈ (step a (.inbound now la src m)).2 ∧ IsReq a false mt ∧
      (step a (.inbound now la src m)).1.pending.find? (·.tid == mt.tid) = some (pendOf mt.tid la src 0 false now) := by
  obtain ⟨hlm, hla⟩ := IceProofs.C01.localByAddr_spec hl
  have hnet : l.net = 0 := (hg.locOK.1 l hlm).1
  obtain ⟨u1, u2, u3⟩ := uid_facts hc6 hlm
  have hok : AuthRequest a m → m.nom = none ∧ NoConflict a m := fun _ => ⟨hnom, hnc⟩
  have k1 := handleInbound_lk' (T0 := T0) (now := now) a l src m h0 hnet hg.full hok
  have id1 := handleInbound_sameId a now l src m (fun h => (hok h).2)
  have tf1 := tf_handleInbound a now l src m
  -- the state after `handleInbound` is `Good0` (as in `step_inbound_good`)
  have ht1 : Timely T0 H (a.handleInbound now l src m).1 := by
    apply hg.timely.of_lk k1 id1.cfg (congrArg TF.checkingTimeout tf1)
    · intro hls
      rw [show (a.handleInbound now l src m).1.lastSeen = a.lastSeen from congrArg TF.lastSeen tf1] at hls
      rw [show (a.handleInbound now l src m).1.checkingTimeout = a.checkingTimeout from congrArg TF.checkingTimeout tf1,
        show (a.handleInbound now l src m).1.checkingStart = a.checkingStart from congrArg TF.checkingStart tf1]
      rcases hg.timely.ck with h | ⟨_, h⟩
      · exact Or.inl h
      · exact Or.inr (h hls)
    · intro id hid
      rcases handleInbound_selFresh a now l src m hg.linv (fun h => (hok h).2) hnet id hid with h | ⟨p, r, h1, h2, h3⟩
      · exact Or.inl h
      · exact Or.inr ⟨p, r, now, h1, h2, h3, h0⟩
  have g1 : Good0 T0 H (a.handleInbound now l src m).1 := hg.good0.of_lk k1 id1 ht1
  have htk : ∃ t, (a.handleInbound now l src m).1.nextTick = some t ∧ T0 ≤ t := by
    rw [show (a.handleInbound now l src m).1.nextTick = a.nextTick from congrArg TF.nextTick tf1]
    exact hg.tick
  obtain ⟨_, k2, _⟩ := runForced_good h0 hn g1 htk
  have he1 : EndsOK (a.handleInbound now l src m).1 :=
    endsOK_of_c06 (hc6.handleInbound hg.open_ now l src m hlm) (by rw [id1.closed]; exact hg.open_)
  rw [step_inbound_proj]
  simp only [hg.open_, hg.started, Bool.not_true, Bool.or_self, Bool.false_eq_true, if_false, hl]
  rcases request_nominates' a now l src m ha hnc (Or.inr hflt) hg.full hctl huc hnom hg.linv u1 u2 u3 with
    h | ⟨rc, q, mt, f1, f2, f3, _, f5, f6, f7⟩
  · exact Or.inl (k2.sel h)
  · obtain ⟨l1, hl1, e1⟩ := k1.localByAddr hl
    obtain ⟨l2, hl2, e2⟩ := k2.localByAddr hl1
    rw [hnet] at f1
    obtain ⟨rc2, hrc2, krc⟩ := k2.findRemote f1
    obtain ⟨q2, hq2, kq⟩ := k2.findPair he1 (e2.trans e1) krc.key f2
    rw [hla] at f5 f7
    rw [hnet] at f7
    rcases kq.nomOn f3 with hmark | hsel
    · right
      refine ⟨l2, rc2, q2, mt, hl2, hrc2, hq2, hmark, List.mem_append_left _ f5, f6, ?_⟩
      exact k2.pend _ _ f7 (by simp [pendOf, maxBindingRequestTimeout]) (by simp)
    · exact Or.inl (hsel g1.linv)

/-- a matching success response on a `Good` agent validates the pair, and selects it for a nomination. -/
theorem step_response_validates (h0 : T0 ≤ now) (hn : now ≤ H) (hg : Good T0 H a) {la src : Nat} {m : Msg}
    {l r : Cand} {pd : Pending} {p : Pair}
    (hl : a.localByAddr la = some l) (hcls : m.cls = 2) (hmeth : m.method = 1) (hkey : m.key = some a.remotePwd)
    (hr : a.findRemote 0 src = some r) (hpd : a.pending.find? (·.tid == m.tid) = some pd)
    (hyoung : now - pd.ts < maxBindingRequestTimeout) (hnet : pd.net = 0) (hdest : pd.dest = src)
    (hsrc : pd.src = la) (hp : a.findPair l r = some p) :
    (∃ p' ∈ (step a (.inbound now la src m)).1.checklist, p'.state = .succeeded)
    ∧ (a.controlling = true → pd.useCand = true → pd.nom = none → (step a (.inbound now la src m)).1.selected.isSome = true)
    ∧ (a.controlling = false → p.nomOnSuccess = true → (step a (.inbound now la src m)).1.selected.isSome = true) := by
  obtain ⟨hlm, hla⟩ := IceProofs.C01.localByAddr_spec hl
  have hnet0 : l.net = 0 := (hg.locOK.1 l hlm).1
  have hok : AuthRequest a m → m.nom = none ∧ NoConflict a m := by
    intro h; exfalso; have := h.2.1; rw [hcls] at this; cases this
  obtain ⟨_, k, _⟩ := step_inbound_good h0 hn hg la src m hok
  -- the frame from the state after `handleInbound` to the end of the step
  have k1 := handleInbound_lk' (T0 := T0) (now := now) a l src m h0 hnet0 hg.full hok
  have id1 := handleInbound_sameId a now l src m (fun h => (hok h).2)
  have tf1 := tf_handleInbound a now l src m
  have ht1 : Timely T0 H (a.handleInbound now l src m).1 := by
    apply hg.timely.of_lk k1 id1.cfg (congrArg TF.checkingTimeout tf1)
    · intro hls
      rw [show (a.handleInbound now l src m).1.lastSeen = a.lastSeen from congrArg TF.lastSeen tf1] at hls
      rw [show (a.handleInbound now l src m).1.checkingTimeout = a.checkingTimeout from congrArg TF.checkingTimeout tf1,
        show (a.handleInbound now l src m).1.checkingStart = a.checkingStart from congrArg TF.checkingStart tf1]
      rcases hg.timely.ck with h | ⟨_, h⟩
      · exact Or.inl h
      · exact Or.inr (h hls)
    · intro id hid
      rcases handleInbound_selFresh a now l src m hg.linv (fun h => (hok h).2) hnet0 id hid with h | ⟨p, r, h1, h2, h3⟩
      · exact Or.inl h
      · exact Or.inr ⟨p, r, now, h1, h2, h3, h0⟩
  have g1 : Good0 T0 H (a.handleInbound now l src m).1 := hg.good0.of_lk k1 id1 ht1
  have htk : ∃ t, (a.handleInbound now l src m).1.nextTick = some t ∧ T0 ≤ t := by
    rw [show (a.handleInbound now l src m).1.nextTick = a.nextTick from congrArg TF.nextTick tf1]
    exact hg.tick
  obtain ⟨_, k2, _⟩ := runForced_good h0 hn g1 htk
  rw [step_inbound_proj]
  simp only [hg.open_, hg.started, Bool.not_true, Bool.or_self, Bool.false_eq_true, if_false, hl]
  rw [← hnet0] at hr
  obtain ⟨v1, v2, v3⟩ := response_validates a now l src m r pd p hcls hmeth hkey hr hpd hyoung (by rw [hnet, hnet0]) hdest
    (by rw [hsrc, hla]) hp
  refine ⟨?_, fun x y z => k2.sel (v2 x y z), fun x y => k2.sel (v3 x y (hg.linv.noDefer p (findPair_mem hp)))⟩
  obtain ⟨p', hp', _, hs⟩ := v1
  obtain ⟨p'', hp'', kp⟩ := k2.mem_pair hp'
  exact ⟨p'', hp'', kp.succ hs⟩

/-- a success response that does not reach `handleSuccess` (wrong key, unknown source, …) changes nothing -/
theorem step_response_noop (hg : Good T0 H a) {la src : Nat} {m : Msg} (hcls : m.cls = 2)
    (h : m.method ≠ 1 ∨ m.key ≠ some a.remotePwd ∨ ∀ l, a.localByAddr la = some l → a.findRemote l.net src = none) :
    step a (.inbound now la src m) = (a, []) := by
  rw [step_inbound_proj]
  simp only [hg.open_, hg.started, Bool.not_true, Bool.or_self, Bool.false_eq_true, if_false]
  cases hl : a.localByAddr la with
  | none => rfl
  | some l =>
    simp only []
    have hi : a.handleInbound now l src m = (a, []) := by
      rw [handleInbound_eq]
      rcases h with h | h | h
      · have : (m.method == 1) = false := by simp [h]
        simp [this]
      · split
        · rfl
        · simp only [hcls, beq_self_eq_true, if_true]
          have : (m.key != some a.remotePwd) = true := by simp [h]
          simp [this]
      · split
        · rfl
        · simp only [hcls, beq_self_eq_true, if_true]
          split
          · rfl
          · rw [h l hl]
    rw [hi]
    have : a.runForced now = (a, []) := by
      unfold Agent.runForced
      simp [hg.noForce]
    rw [this]
    rfl

end

end IceProofs.C01Live
