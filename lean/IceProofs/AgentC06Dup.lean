import IceProofs.AgentC06Chain
/-!
# C06 (d) — no (local, remote) pair is listed twice: what is true, and the counterexample

`NoDupPairs` is NOT an invariant of the model (nor of the code): two signalled peer-reflexive remote candidates with
the same transport address but different related addresses are not `Equal`, each gets its own pair with a local
candidate, and a signalled host candidate with that transport address then supersedes BOTH, retargeting both pairs
to itself (`IceProps.C06.C06_dup_pair_witness`).  It is an invariant of every history in which no peer-reflexive
candidate with a non-empty related address is *signalled* (`addRemote` with `ty = 3`, `rel ≠ some 0`); discovered
peer-reflexive candidates are fine.
-/
namespace IceProofs.AgentC06
open IceModel.AgentCore

/-- no two listed pairs have the same (local candidate, remote candidate) -/
def NoDupPairs (a : Agent) : Prop := ((keysOf a).map (·.2)).Nodup

/-- every peer-reflexive remote candidate has the empty related address of a discovered one -/
def PrflxRel0 (a : Agent) : Prop := ∀ x ∈ rcsOf a, x.ty = 3 → x.rel = some 0

/-- the event does not signal a peer-reflexive remote candidate with a non-empty related address -/
def evOK : Ev → Bool
  | .addRemote _ c => c.ty != 3 || c.rel == some 0
  | _ => true

theorem nodup_map_inj_on {α β : Type} (f : α → β) (l : List α) (hn : l.Nodup)
    (hi : ∀ x ∈ l, ∀ y ∈ l, f x = f y → x = y) : (l.map f).Nodup := by
  induction l with
  | nil => simp
  | cons a l ih =>
    rw [List.nodup_cons] at hn
    rw [List.map_cons, List.nodup_cons]
    refine ⟨?_, ih hn.2 (fun x hx y hy => hi x (List.mem_cons_of_mem _ hx) y (List.mem_cons_of_mem _ hy))⟩
    intro hm
    obtain ⟨y, hy, hfy⟩ := List.mem_map.1 hm
    have := hi y (List.mem_cons_of_mem _ hy) a List.mem_cons_self hfy
    exact hn.1 (this ▸ hy)

theorem pairwise_mem {α : Type} {R : α → α → Prop} {l : List α} (h : l.Pairwise R) {x y : α}
    (hx : x ∈ l) (hy : y ∈ l) : x = y ∨ R x y ∨ R y x := by
  induction l with
  | nil => cases hx
  | cons a l ih =>
    rw [List.pairwise_cons] at h
    rcases List.mem_cons.1 hx with hx1 | hx1 <;> rcases List.mem_cons.1 hy with hy1 | hy1
    · exact Or.inl (hx1.trans hy1.symm)
    · exact Or.inr (Or.inl (hx1 ▸ h.1 y hy1))
    · exact Or.inr (Or.inr (hy1 ▸ h.1 x hx1))
    · exact ih h.2 hx1 hy1

/-- with uniform peer-reflexive candidates at most one candidate is superseded -/
theorem arcS_le_one {a : Agent} (h : Inv a) (hp : PrflxRel0 a) (c : Cand) :
    ∀ s1 ∈ arcS a c, ∀ s2 ∈ arcS a c, s1 = s2 := by
  intro s1 h1 s2 h2
  obtain ⟨e1, he1, rfl⟩ := List.mem_map.1 h1
  obtain ⟨e2, he2, rfl⟩ := List.mem_map.1 h2
  obtain ⟨m1, n1, t1, a1, _⟩ := arcReplaced_mem he1
  obtain ⟨m2, n2, t2, a2, _⟩ := arcReplaced_mem he2
  have f1 := arcReplaced_tt he1
  have f2 := arcReplaced_tt he2
  have r1 := hp (core e1) (mem_rcsOf m1) t1
  have r2 := hp (core e2) (mem_rcsOf m2) t2
  rcases pairwise_mem h.s.remNE (mem_rcsOf m1) (mem_rcsOf m2) with h3 | h3 | h3
  · have := congrArg Cand.uid h3; simpa using this
  · simp [Cand.equal, Cand.taEqual, Cand.udpResolved, n1, n2, a1, a2, t1, t2, f1, f2] at h3
    simp at r1 r2; rw [r1, r2] at h3; simp at h3
  · simp [Cand.equal, Cand.taEqual, Cand.udpResolved, n1, n2, a1, a2, t1, t2, f1, f2] at h3
    simp at r1 r2; rw [r1, r2] at h3; simp at h3

theorem NoDupPairs.stage3 {a : Agent} (h : Inv a) (hc : a.closed = false) (hd : NoDupPairs a) (hp : PrflxRel0 a)
    (c : Cand) : NoDupPairs (arcA3 a c) := by
  unfold NoDupPairs
  rw [arcA3_keys a c h, List.map_map]
  have hfun : ((fun (k : Key) => k.2) ∘ rk (arcS a c) a.nextUid) =
      (fun (x : Nat × Nat) => if (arcS a c).contains x.2 then (x.1, a.nextUid) else x) ∘ (fun (k : Key) => k.2) := by
    funext k
    simp only [Function.comp, rk]
    split <;> rfl
  rw [hfun, ← List.map_map]
  apply nodup_map_inj_on _ _ hd
  intro x hx y hy hxy
  have hlt : ∀ z ∈ (keysOf a).map (·.2), z.2 < a.nextUid := by
    intro z hz
    obtain ⟨k, hk, rfl⟩ := List.mem_map.1 hz
    obtain ⟨_, _, r, hr, _, h2, _⟩ := h.s.ends hc k hk
    have := h.s.uidsLt r (List.mem_append_right _ hr)
    omega
  have hS := arcS_le_one h hp c
  replace hxy : (if (arcS a c).contains x.2 then (x.1, a.nextUid) else x) =
      (if (arcS a c).contains y.2 then (y.1, a.nextUid) else y) := hxy
  by_cases h1 : (arcS a c).contains x.2 = true <;> by_cases h2 : (arcS a c).contains y.2 = true
  · rw [if_pos h1, if_pos h2] at hxy
    have e1 : x.1 = y.1 := by have := congrArg Prod.fst hxy; simpa using this
    have e2 : x.2 = y.2 := hS _ (List.contains_iff_mem.1 h1) _ (List.contains_iff_mem.1 h2)
    exact Prod.ext e1 e2
  · rw [if_pos h1, if_neg h2] at hxy
    have := hlt y hy
    have e2 : a.nextUid = y.2 := by have := congrArg Prod.snd hxy; simpa using this
    omega
  · rw [if_neg h1, if_pos h2] at hxy
    have := hlt x hx
    have e2 : x.2 = a.nextUid := by have := congrArg Prod.snd hxy; simpa using this
    omega
  · rw [if_neg h1, if_neg h2] at hxy
    exact hxy

theorem PrflxRel0.stage3 {a : Agent} (h : Inv a) (hp : PrflxRel0 a) (c : Cand)
    (hsrc : c.ty = 3 → c.rel = some 0) : PrflxRel0 (arcA3 a c) := by
  intro x hx hty
  rw [arcA3_rcs a c h] at hx
  have := (List.mem_filter.1 hx).1
  rcases List.mem_append.1 this with hx' | hx'
  · exact hp x hx' hty
  · simp at hx'; subst hx'
    exact hsrc hty

/-- the pair (no-duplicate, uniform-prflx) is preserved by every atomic transition of an event that does not
signal a peer-reflexive candidate -/
theorem dup_trans {e : Ev} {w : Bool} (hok : evOK e = true) {b c : Agent} (hi : Inv b)
    (hq : NoDupPairs b ∧ PrflxRel0 b) (t : Trans e w b c) : NoDupPairs c ∧ PrflxRel0 c := by
  obtain ⟨hd, hp⟩ := hq
  cases t with
  | evo h => exact ⟨by unfold NoDupPairs; rw [h.keys]; exact hd, by unfold PrflxRel0; rw [h.rcs]; exact hp⟩
  | addP h =>
    cases h with
    | none => exact ⟨hd, hp⟩
    | add l r hl hr hn hfresh =>
      refine ⟨?_, hp⟩
      unfold NoDupPairs
      rw [keysOf_addPair, List.map_append, List.nodup_append]
      refine ⟨hd, by simp, ?_⟩
      intro x hx y hy
      simp at hy
      subst hy
      intro hxy
      exact hfresh (hxy ▸ hx)
  | wf _ h =>
    obtain ⟨h1, _, h3, _⟩ := h.wiped
    exact ⟨by simp [NoDupPairs, keysOf, h1], by simp [PrflxRel0, rcsOf, h3]⟩
  | connState s hs hn => exact ⟨hd, hp⟩
  | «local» c hc hf => exact ⟨hd, hp⟩
  | remote c hc hb hf hsrc =>
    refine ⟨hd.stage3 hi hc hp c, hp.stage3 hi c ?_⟩
    intro hty
    rcases hsrc with ⟨_, h2, _, _⟩ | ⟨now, he⟩
    · exact h2
    · subst he
      simpa [evOK, hty] using hok
  | cache x hl hr hc => exact ⟨hd, hp⟩
  | restart now u p _ _ => exact ⟨by simp [NoDupPairs, keysOf, restartCore, Agent.wipe, Agent.resetSelector],
      by simp [PrflxRel0, rcsOf, restartCore, Agent.wipe, Agent.resetSelector]⟩
  | close _ _ => exact ⟨hd, by simp [PrflxRel0, rcsOf, closeCore]⟩

/-! ## literal forms

Since the fix of FORMS-1/2 `transportAddressEqual` compares the canonical addresses of the two `Address()`
literals, so `Cand.form` (the spelling a candidate was signalled with) takes part in no comparison of the model:
`Equal` IS equality of the canonical candidate. -/

/-- `Equal` with the address compared canonically and the literal ignored (what the property text means by "the
same candidate"), written independently of `Cand.equal` -/
def canonEqual (x y : Cand) : Bool :=
  x.net == y.net && x.addr == y.addr && x.tt == y.tt && x.ty == y.ty && x.rel == y.rel

theorem canonEqual_eq (x y : Cand) : canonEqual x y = x.equal y := by
  rw [Bool.eq_iff_iff]
  simp only [canonEqual, Cand.equal, Cand.taEqual, Cand.udpResolved, Bool.and_eq_true, beq_iff_eq, Bool.or_eq_true,
    Bool.not_eq_true']
  constructor
  · rintro ⟨⟨⟨⟨h1, h2⟩, h3⟩, h4⟩, h5⟩
    exact ⟨⟨⟨⟨h1, h2⟩, h3, by rw [h4]; simp⟩, h4⟩, h5⟩
  · rintro ⟨⟨⟨⟨h1, h2⟩, h3, _⟩, h4⟩, h5⟩
    exact ⟨⟨⟨⟨h1, h2⟩, h3⟩, h4⟩, h5⟩

theorem dup_step {a : Agent} (hi : Inv a) (hd : NoDupPairs a) (hp : PrflxRel0 a) (e : Ev) (hok : evOK e = true) :
    NoDupPairs (step a e).1 ∧ PrflxRel0 (step a e).1 :=
  Chain.preserves (fun x => NoDupPairs x ∧ PrflxRel0 x) (fun _ _ hb hq t => dup_trans hok hb hq t) hi ⟨hd, hp⟩
    (step_chain hi e)

end IceProofs.AgentC06
