import IceProofs.CloseSysRl
/-! # CloseSys — a user thread moves: `getTh`/`setTh` algebra and the workhorse lemma `Inv.thMove` -/
namespace IceProofs.CloseSys
open IceModel.CloseSys

@[simp] theorem setTh_done (s : State) (t : Tid) (x : Th) : (setTh s t x).done = s.done := by cases t <;> rfl
@[simp] theorem setTh_once (s : State) (t : Tid) (x : Th) : (setTh s t x).once = s.once := by cases t <;> rfl
@[simp] theorem setTh_snap (s : State) (t : Tid) (x : Th) : (setTh s t x).snap = s.snap := by cases t <;> rfl
@[simp] theorem setTh_loop (s : State) (t : Tid) (x : Th) : (setTh s t x).loop = s.loop := by cases t <;> rfl
@[simp] theorem setTh_cands (s : State) (t : Tid) (x : Th) : (setTh s t x).cands = s.cands := by cases t <;> rfl
@[simp] theorem setTh_gcur (s : State) (t : Tid) (x : Th) : (setTh s t x).gcur = s.gcur := by cases t <;> rfl
@[simp] theorem setTh_rtask (s : State) (t : Tid) (x : Th) : (setTh s t x).rtask = s.rtask := by cases t <;> rfl
@[simp] theorem setTh_bufClosed (s : State) (t : Tid) (x : Th) : (setTh s t x).bufClosed = s.bufClosed := by cases t <;> rfl
@[simp] theorem setTh_bufData (s : State) (t : Tid) (x : Th) : (setTh s t x).bufData = s.bufData := by cases t <;> rfl
@[simp] theorem setTh_startedCh (s : State) (t : Tid) (x : Th) : (setTh s t x).startedCh = s.startedCh := by cases t <;> rfl
@[simp] theorem setTh_lastAcc (s : State) (t : Tid) (x : Th) : (setTh s t x).lastAcc = s.lastAcc := by cases t <;> rfl
@[simp] theorem setTh_closeRet (s : State) (t : Tid) (x : Th) : (setTh s t x).closeRet = s.closeRet := by cases t <;> rfl
@[simp] theorem setTh_gcloseRet (s : State) (t : Tid) (x : Th) : (setTh s t x).gcloseRet = s.gcloseRet := by cases t <;> rfl
@[simp] theorem setTh_tasksRun (s : State) (t : Tid) (x : Th) : (setTh s t x).tasksRun = s.tasksRun := by cases t <;> rfl

/-- threads of `setTh s t x`. -/
theorem setTh_thr (s : State) (t : Tid) (x : Th) (n : Nat) (th1 : Th) (h : (setTh s t x).thr[n]? = some th1) :
    (t = .api n ∧ th1 = x ∧ ∃ th0, s.thr[n]? = some th0) ∨ (t ≠ .api n ∧ s.thr[n]? = some th1) := by
  cases t with
  | api m =>
    simp only [setTh, List.getElem?_set] at h
    split at h
    · subst_vars
      split at h
      · simp at h; subst h; exact Or.inl ⟨rfl, rfl, ⟨s.thr[m], by simp [*]⟩⟩
      · simp at h
    · exact Or.inr ⟨by simpa using ‹¬ m = n›, h⟩
  | dr i => exact Or.inr ⟨by simp, h⟩
  | rl c => exact Or.inr ⟨by simp, h⟩

/-- streams of `setTh s t x`. -/
theorem setTh_streams (s : State) (t : Tid) (x : Th) (j : Nat) (st' : Stream) (h : (setTh s t x).streams[j]? = some st') :
    ∃ st : Stream, s.streams[j]? = some st ∧ st'.ndone = st.ndone ∧ st'.running = st.running ∧ st'.queue = st.queue ∧
      st'.hdl = st.hdl ∧ ((t = .dr j ∧ st'.th = x) ∨ (t ≠ .dr j ∧ st'.th = st.th)) := by
  cases t with
  | api m => exact ⟨st', h, rfl, rfl, rfl, rfl, Or.inr ⟨by simp, rfl⟩⟩
  | rl c => exact ⟨st', h, rfl, rfl, rfl, rfl, Or.inr ⟨by simp, rfl⟩⟩
  | dr i =>
    simp only [setTh, List.getElem?_modify] at h
    cases hx : s.streams[j]? with
    | none => simp [hx] at h
    | some st =>
      simp [hx] at h; subst h
      refine ⟨st, rfl, ?_⟩
      split
      · subst_vars; exact ⟨rfl, rfl, rfl, rfl, Or.inl ⟨rfl, rfl⟩⟩
      · exact ⟨rfl, rfl, rfl, rfl, Or.inr ⟨by simpa using ‹¬ i = j›, rfl⟩⟩

theorem setTh_streams_length (s : State) (t : Tid) (x : Th) : (setTh s t x).streams.length = s.streams.length := by
  cases t <;> simp [setTh]
theorem setTh_thr_length (s : State) (t : Tid) (x : Th) : (setTh s t x).thr.length = s.thr.length := by
  cases t <;> simp [setTh]

theorem setTh_mono (s : State) (t : Tid) (x : Th) : StreamsMono s (setTh s t x) := by
  intro j st' hj
  obtain ⟨st, h1, h2, h3, _⟩ := setTh_streams s t x j st' hj
  exact ⟨st, h1, fun hd => ⟨by rw [h2]; exact hd, fun hr => by rw [h3]; exact hr⟩⟩

theorem getTh_setTh_self {s : State} {t : Tid} {th x : Th} (h : getTh s t = some th) : getTh (setTh s t x) t = some x := by
  cases t with
  | api n =>
    simp only [getTh] at h
    have : n < s.thr.length := by
      rcases Nat.lt_or_ge n s.thr.length with h1 | h1
      · exact h1
      · simp [List.getElem?_eq_none h1] at h
    simp [getTh, setTh, this]
  | dr i =>
    simp only [getTh] at h
    cases hx : s.streams[i]? with
    | none => simp [hx] at h
    | some st => simp [getTh, setTh, List.getElem?_modify, hx]
  | rl c => simp [getTh] at h

theorem getTh_setTh_ne {s : State} {t t' : Tid} {x : Th} (h : t ≠ t') : getTh (setTh s t x) t' = getTh s t' := by
  cases t with
  | api n =>
    cases t' with
    | api m => simp only [getTh, setTh]; rw [List.getElem?_set_ne (by intro e; exact h (by rw [e]))]
    | dr i => rfl
    | rl c => rfl
  | dr i =>
    cases t' with
    | api m => rfl
    | dr j =>
      simp only [getTh, setTh, List.getElem?_modify]
      have : i ≠ j := by intro e; exact h (by rw [e])
      cases s.streams[j]? <;> simp [this]
    | rl c => rfl
  | rl c => rfl

/-- `ThOK` does not look at the thread table. -/
theorem ThOK_setTh {s : State} {t tid : Tid} {x y : Th} (h : ThOK s tid y) : ThOK (setTh s t x) tid y :=
  h.frame (by simp) (by simp) (setTh_mono s t x)

end IceProofs.CloseSys
