import IceProofs.Sys2C01LiveRound
/-!
# C01 liveness, layer 9 — induction over the canonical fair rounds

* `RInv.after_round`: a round keeps the round invariant (system invariant, provenance of selections, timer in reach);
* `round_ping`: without a valid pair, a pair under budget on a `Link` is valid after the round;
* `round_final`: with a valid pair and the acceptance waits over, both agents have a selected pair after the round;
* `converge`: `n + 1` rounds suffice as soon as the `(n+1)`-th tick is not earlier than `selStart + maxWait`.
-/
namespace IceProofs.C01Live
open IceModel.AgentCore IceModel.Sys2 IceProofs.Sys2Run IceProofs.C01 IceProofs.Agent

section
variable {nat blocked : List (Nat × Nat)} {SLA SLB SR : Nat → Prop} {liteA liteB : Bool} {T0 H : Nat} {c : Bool}

/-- the first half of a round: the clock advance -/
structure RoundStart (nat blocked : List (Nat × Nat)) (SLA SLB SR : Nat → Prop) (liteA liteB : Bool) (T0 H : Nat) (c : Bool)
    (s : Sys) (T : Nat) : Prop where
  rt : roundT c s = T
  tk : (s.agent c).nextTick = some T
  le : s.now ≤ T
  yo : T - s.now ≤ 2000000000
  tH : T ≤ H
  ok1 : SysOK nat blocked SLA SLB SR liteA liteB T0 H c (s.advance T).1
  eff : AdvEffect T0 T s (s.advance T).1
  wk : WavesKeep c (s.advance T).1 (round c s)
  ok4 : SysOK nat blocked SLA SLB SR liteA liteB T0 H c (round c s)

theorem round_start {s : Sys} (h : RInv nat blocked SLA SLB SR liteA liteB T0 H c s) (hH : roundT c s ≤ H) :
    ∃ T, RoundStart nat blocked SLA SLB SR liteA liteB T0 H c s T := by
  obtain ⟨t, htk, h1, h2⟩ := h.tick
  have hrt : roundT c s = t := by unfold roundT; rw [htk]; rfl
  rw [hrt] at hH
  obtain ⟨q1, q2⟩ := advance_effect h.ok t (Nat.le_trans h.ok.time0 h1) hH ⟨t, htk, Nat.le_refl _⟩
  refine ⟨t, hrt, htk, h1, by omega, hH, q1, q2, ?_, ?_⟩
  · unfold round; rw [hrt]
    exact ((wavesKeep_wave q1).trans (wavesKeep_wave q1.wave)).trans (wavesKeep_wave q1.wave.wave)
  · unfold round; rw [hrt]
    exact q1.wave.wave.wave

/-- a round keeps the invariant and what has been achieved; time moves on by at least 1 ns and at most 2 s -/
theorem RInv.after_round {s : Sys} (h : RInv nat blocked SLA SLB SR liteA liteB T0 H c s) (hH : roundT c s ≤ H) :
    RInv nat blocked SLA SLB SR liteA liteB T0 H c (round c s) ∧
    (∀ x, HasSucc s x → HasSucc (round c s) x) ∧ (∀ x, Sel s x → Sel (round c s) x) ∧
    roundT c s + Config.minInterval (s.agent c).cfg ≤ roundT c (round c s) ∧ roundT c (round c s) ≤ roundT c s + 2000000000 ∧
    ((round c s).agent c).selStart = (s.agent c).selStart ∧ ((round c s).agent c).cfg = (s.agent c).cfg := by
  obtain ⟨T, r⟩ := round_start h hH
  have hsingle := advance_single (h.ok.good c) r.tH r.tk
  have htick1 : TickIn (T + Config.minInterval (s.agent c).cfg) (s.advance T).1.now ((s.advance T).1.agent c) := by
    rw [r.eff.now, r.eff.agent c]; exact hsingle.1
  have htick4 := r.wk.tick c (T + Config.minInterval (s.agent c).cfg)
    (by rw [r.eff.now, (r.eff.ids c).cfg]; exact Nat.le_refl _) htick1
  rw [r.eff.now] at htick4
  have hnow4 : (round c s).now = T := r.wk.now.trans r.eff.now
  obtain ⟨t', ht', l1, l2⟩ := htick4
  have hrt4 : roundT c (round c s) = t' := by unfold roundT; rw [ht']; rfl
  have hmp := minInterval_pos (s.agent c).cfg
  refine ⟨⟨r.ok4, ?_, ⟨t', ht', by rw [hnow4]; omega, by rw [hnow4]; exact l2⟩⟩, ?_, ?_, ?_, ?_, ?_, ?_⟩
  · intro hseen4
    have hj1 : LinkedJ c (NomSeen c (s.advance T).1) (s.advance T).1 := fun hx => Or.inr hx
    rcases r.wk.linked _ hj1 hseen4 with g | hp0
    · exact g
    · have hs0 := NomSeen.adv_back h.ok r.tH r.ok1 r.eff r.tk hp0
      have hdp := (h.linked hs0).adv h.ok r.eff (young_lt r.yo)
      have hs3 : Sel (wave (wave (s.advance T).1)) (!c) := wave_dp r.ok1 hdp
      have : Sel (round c s) (!c) := by
        unfold IceProofs.C01Live.round; rw [r.rt]
        exact hs3.flushN r.ok1.wave.wave _
      exact Or.inl this
  · intro x g; exact r.wk.succ x (g.adv r.eff)
  · intro x g; exact r.wk.sel x (g.adv r.eff)
  · rw [r.rt, hrt4]; omega
  · rw [r.rt, hrt4]; exact l2
  · rw [(r.wk.static c).1, (r.eff.lk c).selStart]
  · rw [(r.wk.static c).2, (r.eff.ids c).cfg]

/-- a pair of the controlling agent that is waiting / in progress, under its request budget, on a `Link` -/
def BudgetPair (c : Bool) (s : Sys) : Prop :=
  ∃ p ∈ (s.agent c).checklist, (p.state = .waiting ∨ p.state = .inProgress) ∧ p.reqCount ≤ (s.agent c).cfg.maxBindingRequests ∧
    ∃ l r, (s.agent c).localOf p.l = some l ∧ (s.agent c).remoteOf p.r = some r ∧ Link s c l.addr r.addr

/-- the round in which the controlling agent gets its first valid pair -/
theorem round_ping {s : Sys} (h : RInv nat blocked SLA SLB SR liteA liteB T0 H c s) (hH : roundT c s ≤ H)
    (hb : BudgetPair c s) : HasSucc (round c s) c ∨ Sel (round c s) c := by
  obtain ⟨T, r⟩ := round_start h hH
  by_cases hsel : Sel s c
  · exact Or.inr (r.wk.sel c (hsel.adv r.eff))
  by_cases hsucc : HasSucc s c
  · exact Or.inl (r.wk.succ c (hsucc.adv r.eff))
  left
  obtain ⟨p0, hp0, hst, hbud, l, r', hl, hr, hlink⟩ := hb
  obtain ⟨tid, hch⟩ := sys_tick_ping h.ok r.tH r.eff r.tk hsel hsucc hp0 hst hbud hl hr hlink
  have g3 := wave_ch2 r.ok1.wave (wave_ch1 r.ok1 hch)
  have : HasSucc (wave (wave (s.advance T).1)) c := g3.1
  unfold IceProofs.C01Live.round; rw [r.rt]
  exact this.flushN r.ok1.wave.wave _

/-- the round in which both agents get their selected pair -/
theorem round_final {s : Sys} (h : RInv nat blocked SLA SLB SR liteA liteB T0 H c s) (hH : roundT c s ≤ H)
    (hsucc : HasSucc s c ∨ Sel s c)
    (htime : (s.agent c).selStart + Config.maxWait (s.agent c).cfg ≤ roundT c s) :
    Sel (round c s) c ∧ Sel (round c s) (!c) := by
  obtain ⟨T, r⟩ := round_start h hH
  by_cases hsel : Sel s c
  · refine ⟨r.wk.sel c (hsel.adv r.eff), ?_⟩
    have hdp := (h.linked (Or.inl hsel)).adv h.ok r.eff (young_lt r.yo)
    have hs3 : Sel (wave (wave (s.advance T).1)) (!c) := wave_dp r.ok1 hdp
    unfold IceProofs.C01Live.round; rw [r.rt]
    exact hs3.flushN r.ok1.wave.wave _
  · have hs' : HasSucc s c := by
      rcases hsucc with g | g
      · exact g
      · exact absurd g hsel
    rw [r.rt] at htime
    obtain ⟨tid, la, ra, hch, hlink, d, hd, hnd⟩ := sys_tick_nominate h.ok r.tH r.eff r.tk hsel hs' htime
    have g3 := wave_ch2 r.ok1.wave (wave_ch1 r.ok1 hch)
    have hc3 : Sel (wave (wave (s.advance T).1)) c := g3.2 (by simp)
    have hdp2 := wave_nom r.ok1 hlink hd hnd
    have hd4 : Sel (wave (wave (wave (s.advance T).1))) (!c) := wave_dp r.ok1.wave hdp2
    unfold IceProofs.C01Live.round; rw [r.rt]
    exact ⟨hc3.flushN r.ok1.wave.wave _, hd4⟩

/-! ## the induction -/

/-- the tick time of the round after `n` rounds -/
def tickTime (c : Bool) (n : Nat) (s : Sys) : Nat := roundT c (rounds c n s)

theorem rounds_succ (c : Bool) (n : Nat) (s : Sys) : rounds c (n + 1) s = round c (rounds c n s) := by
  induction n generalizing s with
  | zero => rfl
  | succ n ih => exact ih (round c s)

/-- `n` rounds within the horizon keep everything -/
theorem RInv.after_rounds {s : Sys} (h : RInv nat blocked SLA SLB SR liteA liteB T0 H c s) (n : Nat)
    (hH : ∀ k, k < n → tickTime c k s ≤ H) :
    RInv nat blocked SLA SLB SR liteA liteB T0 H c (rounds c n s) ∧
    (∀ x, HasSucc s x → HasSucc (rounds c n s) x) ∧ (∀ x, Sel s x → Sel (rounds c n s) x) ∧
    ((rounds c n s).agent c).selStart = (s.agent c).selStart ∧ ((rounds c n s).agent c).cfg = (s.agent c).cfg ∧
    tickTime c 0 s + Config.minInterval (s.agent c).cfg * n ≤ tickTime c n s ∧
    tickTime c n s ≤ tickTime c 0 s + 2000000000 * n := by
  induction n with
  | zero => exact ⟨h, fun _ g => g, fun _ g => g, rfl, rfl, by simp, Nat.le_refl _⟩
  | succ n ih =>
    obtain ⟨i1, i2, i3, i4, i5, i6, i7⟩ := ih (fun k hk => hH k (by omega))
    obtain ⟨r1, r2, r3, r4, r5, r6, r7⟩ := i1.after_round (hH n (by omega))
    rw [rounds_succ]
    refine ⟨r1, fun x g => r2 x (i2 x g), fun x g => r3 x (i3 x g), r6.trans i4, r7.trans i5, ?_, ?_⟩
    · have i6' : roundT c s + Config.minInterval (s.agent c).cfg * n ≤ roundT c (rounds c n s) := i6
      show roundT c s + Config.minInterval (s.agent c).cfg * (n + 1) ≤ roundT c (rounds c (n + 1) s)
      rw [rounds_succ c n s, Nat.mul_succ]
      rw [i5] at r4
      omega
    · have i7' : roundT c (rounds c n s) ≤ roundT c s + 2000000000 * n := i7
      show roundT c (rounds c (n + 1) s) ≤ roundT c s + 2000000000 * (n + 1)
      rw [rounds_succ c n s]
      rw [Nat.mul_succ]
      exact Nat.le_trans r5 (by
        have := Nat.add_le_add_right i7' 2000000000
        simpa [Nat.add_assoc] using this)

/-- **convergence along the canonical fair rounds.**  From a state satisfying the round invariant in which the
controlling agent has a valid pair, or a pair under budget on a `Link`: if the tick of round `n + 1` is not
earlier than `selStart + maxWait` (and `n ≥ 1`, or a pair is valid already), then after `n + 1` rounds both agents
have a selected pair and are Connected. -/
theorem converge {s : Sys} (h : RInv nat blocked SLA SLB SR liteA liteB T0 H c s) (n : Nat)
    (hH : ∀ k, k ≤ n → tickTime c k s ≤ H)
    (hstart : HasSucc s c ∨ Sel s c ∨ (BudgetPair c s ∧ 1 ≤ n))
    (htime : (s.agent c).selStart + Config.maxWait (s.agent c).cfg ≤ tickTime c n s) :
    ∀ x, Sel (rounds c (n + 1) s) x ∧ ((rounds c (n + 1) s).agent x).connState = .connected := by
  -- after `n` rounds the controlling agent has a valid pair
  obtain ⟨i1, i2, i3, i4, i5, _, _⟩ := h.after_rounds n (fun k hk => hH k (by omega))
  have hsucc : HasSucc (rounds c n s) c ∨ Sel (rounds c n s) c := by
    rcases hstart with g | g | ⟨g, hn⟩
    · exact Or.inl (i2 c g)
    · exact Or.inr (i3 c g)
    · -- the first round validates the pair, the others keep it
      obtain ⟨m, rfl⟩ : ∃ m, n = m + 1 := ⟨n - 1, by omega⟩
      have hp := round_ping h (hH 0 (by omega)) g
      obtain ⟨j1, _, _, _, _, _, _⟩ := h.after_round (hH 0 (by omega))
      obtain ⟨_, k2, k3, _⟩ := j1.after_rounds m (fun k hk => by
        have := hH (k + 1) (by omega)
        unfold tickTime at this ⊢
        exact this)
      show HasSucc (rounds c m (round c s)) c ∨ Sel (rounds c m (round c s)) c
      rcases hp with g | g
      · exact Or.inl (k2 c g)
      · exact Or.inr (k3 c g)
  have hfin := round_final i1 (hH n (Nat.le_refl _)) hsucc (by rw [i4, i5]; exact htime)
  obtain ⟨r1, _⟩ := i1.after_round (hH n (Nat.le_refl _))
  rw [rounds_succ]
  intro x
  have hs : Sel (round c (rounds c n s)) x := by
    by_cases hx : x = c
    · subst hx; exact hfin.1
    · rw [bool_ne_eq_not hx]; exact hfin.2
  exact ⟨hs, (r1.ok.good x).linv.selConn hs⟩

end

end IceProofs.C01Live
