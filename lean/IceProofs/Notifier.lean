import IceModel.Notifier
/-!
# Invariant of the notifier model (DESIGN Appendix D.3, K1–K4) and its preservation

One invariant `Inv`, `Inv init`, one small lemma per transition, then `inv_step`, `inv_run`,
`inv_reachable`.  No bound on the number of events, drainers, closers or steps.
-/
namespace IceProofs.Notifier
open IceModel.Notifier

/-! ## list helpers -/

theorem split_at {α : Type} (l : List α) (i : Nat) (x : α) (h : l[i]? = some x) :
    ∃ pre post, l = pre ++ x :: post ∧ ∀ y, l.set i y = pre ++ y :: post := by
  induction l generalizing i with
  | nil => simp at h
  | cons a l ih =>
    cases i with
    | zero =>
      simp at h
      exact ⟨[], l, by simp [h], by intro y; simp⟩
    | succ i =>
      simp at h
      obtain ⟨pre, post, h1, h2⟩ := ih i h
      exact ⟨a :: pre, post, by simp [h1], by intro y; simp [h2]⟩

theorem held_append (a b : List DPc) : held (a ++ b) = held a ++ held b := by
  induction a with
  | nil => rfl
  | cons x a ih => cases x <;> simp [held, ih]

@[simp] theorem isActive_atLoop : DPc.atLoop.isActive = true := rfl
@[simp] theorem isActive_holding (e : Ev) : (DPc.holding e).isActive = true := rfl
@[simp] theorem isActive_inHandler (e : Ev) : (DPc.inHandler e).isActive = true := rfl
@[simp] theorem isActive_exiting : DPc.exiting.isActive = false := rfl
@[simp] theorem isActive_gone : DPc.gone.isActive = false := rfl
@[simp] theorem isLive_atLoop : DPc.atLoop.isLive = true := rfl
@[simp] theorem isLive_holding (e : Ev) : (DPc.holding e).isLive = true := rfl
@[simp] theorem isLive_inHandler (e : Ev) : (DPc.inHandler e).isLive = true := rfl
@[simp] theorem isLive_exiting : DPc.exiting.isLive = true := rfl
@[simp] theorem isLive_gone : DPc.gone.isLive = false := rfl

theorem activeCount_cons (x : DPc) (ds : List DPc) :
    activeCount (x :: ds) = activeCount ds + (if x.isActive then 1 else 0) := by
  simp [activeCount, List.countP_cons]

theorem held_of_active_zero (ds : List DPc) (h : activeCount ds = 0) : held ds = [] := by
  induction ds with
  | nil => rfl
  | cons x ds ih =>
    rw [activeCount_cons] at h
    cases x <;> simp at h <;> simp [held] <;> exact ih h

theorem active_le_live (ds : List DPc) : activeCount ds ≤ liveCount ds := by
  unfold activeCount liveCount
  apply List.countP_mono_left
  intro x _ hx
  cases x <;> simp_all [DPc.isActive, DPc.isLive]

theorem inHandler_le_active (ds : List DPc) : inHandlerCount ds ≤ activeCount ds := by
  unfold activeCount inHandlerCount
  apply List.countP_mono_left
  intro x _ hx
  cases x <;> simp_all [DPc.isActive, DPc.isInHandler]

theorem activeCount_split (pre post : List DPc) (x : DPc) :
    activeCount (pre ++ x :: post) = activeCount pre + (if x.isActive then 1 else 0) + activeCount post := by
  simp [activeCount, List.countP_append, List.countP_cons]; omega

theorem liveCount_split (pre post : List DPc) (x : DPc) :
    liveCount (pre ++ x :: post) = liveCount pre + (if x.isLive then 1 else 0) + liveCount post := by
  simp [liveCount, List.countP_append, List.countP_cons]; omega

theorem held_split (pre post : List DPc) (x : DPc) :
    held (pre ++ x :: post) = held pre ++ held [x] ++ held post := by
  rw [held_append]
  have : x :: post = [x] ++ post := rfl
  rw [this, held_append, List.append_assoc]

theorem live_pos_of_get {ds : List DPc} {i : Nat} {x : DPc} (h : ds[i]? = some x) (hx : x.isLive = true) :
    1 ≤ liveCount ds := by
  obtain ⟨pre, post, h1, _⟩ := split_at ds i x h
  rw [h1, liveCount_split, hx]; simp; omega

/-! ## the invariant -/

structure Inv (s : State) : Prop where
  /-- K1/K3: accepted = delivered ++ (events popped, handler not yet entered) ++ queue -/
  k3 : s.accepted = s.delivered ++ held s.drainers ++ s.queue
  /-- K2: `running` ⇔ exactly one drainer that can still pop or call the handler -/
  k2 : activeCount s.drainers = if s.running then 1 else 0
  /-- K4: the wait-group counter is the number of drainer goroutines that exist -/
  k4 : s.wg = liveCount s.drainers
  /-- nothing is queued without a drainer to take it -/
  idle : s.running = false → s.queue = []
  /-- a closer past its critical section implies `done` closed -/
  closers : ∀ c ∈ s.closers, (c = CPc.waiting ∨ c = CPc.returned true) → s.closed = true
  /-- once a graceful close has returned: closed and no drainer goroutine exists -/
  graceful : s.gracefulReturned = true → s.closed = true ∧ s.wg = 0

theorem inv_init : Inv init := by
  constructor <;> simp [init, held, activeCount, liveCount]

/-- facts about the (unique) active drainer, used by the drainer transitions -/
theorem active_unique {s : State} (hi : Inv s) {i : Nat} {x : DPc} (h : s.drainers[i]? = some x)
    (hx : x.isActive = true) :
    ∃ pre post, s.drainers = pre ++ x :: post ∧ (∀ y, s.drainers.set i y = pre ++ y :: post)
      ∧ activeCount pre = 0 ∧ activeCount post = 0 ∧ s.running = true := by
  obtain ⟨pre, post, h1, h2⟩ := split_at _ i x h
  have hk := hi.k2
  rw [h1, activeCount_split, hx] at hk
  have hrun : s.running = true := by
    cases hr : s.running
    · rw [hr] at hk; simp at hk
    · rfl
  rw [hrun, if_pos rfl] at hk
  exact ⟨pre, post, h1, h2, by omega, by omega, hrun⟩

theorem inv_enqueue {s s' : State} (e : Ev) (hi : Inv s) (h : step s (.enqueue e) = some s') : Inv s' := by
  simp only [step] at h
  split at h
  · cases h; exact hi
  · rename_i hc
    split at h
    · rename_i hr
      cases h
      constructor
      · simp [hi.k3]
      · exact hi.k2
      · exact hi.k4
      · intro h'; exact absurd h' (by simp [hr])
      · exact hi.closers
      · intro hg; exact absurd (hi.graceful hg).1 hc
    · rename_i hr
      cases h
      have hr' : s.running = false := by simpa using hr
      have hq := hi.idle hr'
      have ha : activeCount s.drainers = 0 := by simpa [hr'] using hi.k2
      constructor
      · simp [hi.k3, held_append, held, hq]
      · simp [activeCount, List.countP_append, DPc.isActive] at ha ⊢; exact ha
      · simp [liveCount, List.countP_append, DPc.isLive, hi.k4]
      · simp
      · exact hi.closers
      · intro hg; exact absurd (hi.graceful hg).1 hc

theorem inv_drainLock {s s' : State} (i : Nat) (hi : Inv s) (h : step s (.drainLock i) = some s') : Inv s' := by
  simp only [step] at h
  split at h
  · rename_i hd
    obtain ⟨pre, post, h1, h2, hp, hq, hr⟩ := active_unique hi hd rfl
    have hk3 := hi.k3
    rw [h1, held_split, held_of_active_zero _ hp, held_of_active_zero _ hq] at hk3
    have hk4 := hi.k4
    rw [h1, liveCount_split] at hk4
    split at h
    · rename_i hqe
      cases h
      constructor
      · simp [h2, held_split, held_of_active_zero _ hp, held_of_active_zero _ hq, held, hqe] at hk3 ⊢
        exact hk3
      · simp [h2, activeCount_split, hp, hq, DPc.isActive]
      · simp [h2, liveCount_split, DPc.isLive] at hk4 ⊢; exact hk4
      · intro _; exact hqe
      · exact hi.closers
      · exact hi.graceful
    · rename_i e q hqe
      cases h
      constructor
      · simp [h2, held_split, held_of_active_zero _ hp, held_of_active_zero _ hq, held, hqe] at hk3 ⊢
        exact hk3
      · simp [h2, activeCount_split, hp, hq, DPc.isActive, hr]
      · simp [h2, liveCount_split, DPc.isLive] at hk4 ⊢; exact hk4
      · intro h'; simp [hr] at h'
      · exact hi.closers
      · exact hi.graceful
  · cases h

theorem inv_callHandler {s s' : State} (i : Nat) (hi : Inv s) (h : step s (.callHandler i) = some s') : Inv s' := by
  simp only [step] at h
  split at h
  · rename_i e hd
    obtain ⟨pre, post, h1, h2, hp, hq, hr⟩ := active_unique hi hd rfl
    have hk3 := hi.k3
    rw [h1, held_split, held_of_active_zero _ hp, held_of_active_zero _ hq] at hk3
    have hk4 := hi.k4
    rw [h1, liveCount_split] at hk4
    cases h
    constructor
    · simp [h2, held_split, held_of_active_zero _ hp, held_of_active_zero _ hq, held] at hk3 ⊢
      exact hk3
    · simp [h2, activeCount_split, hp, hq, DPc.isActive, hr]
    · simp [h2, liveCount_split, DPc.isLive] at hk4 ⊢; exact hk4
    · exact hi.idle
    · exact hi.closers
    · exact hi.graceful
  · cases h

theorem inv_handlerReturn {s s' : State} (i : Nat) (hi : Inv s) (h : step s (.handlerReturn i) = some s') :
    Inv s' := by
  simp only [step] at h
  split at h
  · rename_i e hd
    obtain ⟨pre, post, h1, h2, hp, hq, hr⟩ := active_unique hi hd rfl
    have hk3 := hi.k3
    rw [h1, held_split, held_of_active_zero _ hp, held_of_active_zero _ hq] at hk3
    have hk4 := hi.k4
    rw [h1, liveCount_split] at hk4
    cases h
    constructor
    · simp [h2, held_split, held_of_active_zero _ hp, held_of_active_zero _ hq, held] at hk3 ⊢
      exact hk3
    · simp [h2, activeCount_split, hp, hq, DPc.isActive, hr]
    · simp [h2, liveCount_split, DPc.isLive] at hk4 ⊢; exact hk4
    · exact hi.idle
    · exact hi.closers
    · exact hi.graceful
  · cases h

theorem inv_drainDone {s s' : State} (i : Nat) (hi : Inv s) (h : step s (.drainDone i) = some s') : Inv s' := by
  simp only [step] at h
  split at h
  · rename_i hd
    obtain ⟨pre, post, h1, h2⟩ := split_at _ i _ hd
    have hk3 := hi.k3
    have hk2 := hi.k2
    have hk4 := hi.k4
    rw [h1, held_split] at hk3
    rw [h1, activeCount_split] at hk2
    rw [h1, liveCount_split] at hk4
    cases h
    constructor
    · simp [h2, held_split, held] at hk3 ⊢; exact hk3
    · simp [h2, activeCount_split, DPc.isActive] at hk2 ⊢; exact hk2
    · simp [h2, liveCount_split, DPc.isLive] at hk4 ⊢; omega
    · exact hi.idle
    · exact hi.closers
    · intro hg; have hg' := hi.graceful hg; exact ⟨hg'.1, by have := hg'.2; show s.wg - 1 = 0; omega⟩
  · cases h

theorem inv_closeCall {s s' : State} (g : Bool) (hi : Inv s) (h : step s (.closeCall g) = some s') : Inv s' := by
  simp only [step] at h
  cases h
  constructor
  · exact hi.k3
  · exact hi.k2
  · exact hi.k4
  · exact hi.idle
  · intro c hc hw
    simp at hc
    rcases hc with hc | hc
    · exact hi.closers c hc hw
    · subst hc; rcases hw with hw | hw <;> cases hw
  · exact hi.graceful

theorem inv_closeBody {s s' : State} (j : Nat) (hi : Inv s) (h : step s (.closeBody j) = some s') : Inv s' := by
  simp only [step] at h
  split at h
  · cases h
    constructor
    · exact hi.k3
    · exact hi.k2
    · exact hi.k4
    · exact hi.idle
    · intro _ _ _; rfl
    · intro hg; exact ⟨rfl, (hi.graceful hg).2⟩
  · cases h

theorem inv_closeWait {s s' : State} (j : Nat) (hi : Inv s) (h : step s (.closeWait j) = some s') : Inv s' := by
  simp only [step] at h
  split at h
  · rename_i hd
    split at h
    · rename_i hw
      have hcl : s.closed = true := hi.closers _ (List.mem_of_getElem? hd) (Or.inl rfl)
      cases h
      constructor
      · exact hi.k3
      · exact hi.k2
      · exact hi.k4
      · exact hi.idle
      · intro _ _ _; exact hcl
      · intro _; exact ⟨hcl, hw⟩
    · cases h
  · cases h

theorem inv_step {s s' : State} (a : Action) (hi : Inv s) (h : step s a = some s') : Inv s' := by
  cases a with
  | enqueue e => exact inv_enqueue e hi h
  | drainLock i => exact inv_drainLock i hi h
  | callHandler i => exact inv_callHandler i hi h
  | handlerReturn i => exact inv_handlerReturn i hi h
  | drainDone i => exact inv_drainDone i hi h
  | closeCall g => exact inv_closeCall g hi h
  | closeBody j => exact inv_closeBody j hi h
  | closeWait j => exact inv_closeWait j hi h

theorem inv_run {s s' : State} (as : List Action) (hi : Inv s) (h : run s as = some s') : Inv s' := by
  induction as generalizing s with
  | nil => simp [run] at h; subst h; exact hi
  | cons a as ih =>
    simp only [run] at h
    split at h
    · rename_i s1 hs; exact ih (inv_step a hi hs) h
    · cases h

theorem inv_reachable {s : State} (h : Reachable s) : Inv s := by
  obtain ⟨as, h⟩ := h
  exact inv_run as inv_init h

end IceProofs.Notifier
