import IceSpec.C10View
/-!
# C10: every recorded event is read back from its canonical token (core Lean only)
-/
namespace IceProofs.C10View
open IceModel.TaskLoop IceSpec.C10 IceSpec.C10.View

def rd (acc : Option Nat) (c : Char) : Option Nat :=
  match acc with
  | none => none
  | some n => if c.isDigit then some (n * 10 + (c.toNat - '0'.toNat)) else none

theorem natOfChars_eq (cs : List Char) : natOfChars cs = if cs.isEmpty then none else cs.foldl rd (some 0) := rfl

theorem digit_small : ∀ n, n < 10 → (Nat.digitChar n).isDigit = true ∧ (Nat.digitChar n).toNat - 48 = n := by
  decide

theorem foldl_digs (n : Nat) : (digs n).foldl rd (some 0) = some n := by
  induction n using Nat.strongRecOn with
  | _ n ih =>
    unfold digs
    rw [Nat.toDigits_eq_if (by omega)]
    split
    · rename_i h
      obtain ⟨h1, h2⟩ := digit_small n h
      simp [rd, h1, h2]
    · rename_i h
      obtain ⟨h1, h2⟩ := digit_small (n % 10) (Nat.mod_lt _ (by omega))
      have := ih (n / 10) (by omega)
      unfold digs at this
      rw [List.foldl_append, this]
      simp only [List.foldl_cons, List.foldl_nil, rd, h1, if_true, Char.reduceToNat, h2]
      congr 1; omega

theorem digs_ne_nil (n : Nat) : (digs n).isEmpty = false := by
  have := Nat.toDigits_ne_nil (n := n) (b := 10)
  unfold digs
  cases h : Nat.toDigits 10 n with
  | nil => exact absurd h this
  | cons _ _ => rfl

theorem natOfChars_digs (n : Nat) : natOfChars (digs n) = some n := by
  rw [natOfChars_eq, digs_ne_nil]
  exact foldl_digs n

theorem not_mem_digs (n : Nat) (c : Char) (hc : c.isDigit = false) : c ∉ digs n := by
  intro h
  have := Nat.isDigit_of_mem_toDigits (by omega) (by omega) h
  rw [hc] at this; cases this

theorem splitAt_append (sep : Char) (a b : List Char) (h : sep ∉ a) : splitAt sep (a ++ sep :: b) = (a, b) := by
  unfold splitAt
  induction a with
  | nil => simp
  | cons x a ih =>
    have hx : (x != sep) = true := by
      simp only [List.mem_cons, not_or] at h
      simpa [bne_iff_ne] using fun e => h.1 e.symm
    have ih := ih (fun hm => h (List.mem_cons_of_mem _ hm))
    simp only [List.cons_append, List.takeWhile_cons, List.dropWhile_cons, hx, if_true]
    simp only [Prod.mk.injEq] at ih ⊢
    exact ⟨by rw [ih.1], ih.2⟩

theorem parseTok_printH (e : HEv) : parseTok (printH e) = some e := by
  cases e with
  | submit i => simp [parseTok, printH, natOfChars_digs]
  | nested p i =>
    simp [parseTok, printH, splitAt_append '.' _ _ (not_mem_digs p '.' (by decide)), natOfChars_digs]
  | cancel i => simp [parseTok, printH, natOfChars_digs]
  | tstart i => simp [parseTok, printH, natOfChars_digs]
  | tend i => simp [parseTok, printH, natOfChars_digs]
  | ret i r =>
    have h := fun c => splitAt_append ':' (digs i) [c] (not_mem_digs i ':' (by decide))
    rcases r with _ | r
    · simp [parseTok, printH, h, natOfChars_digs, resChar]
    · cases r <;> simp [parseTok, printH, h, natOfChars_digs, resChar]
  | ccall j pre =>
    have h := fun c => splitAt_append ':' (digs j) [c] (not_mem_digs j ':' (by decide))
    cases pre <;> simp [parseTok, printH, h, natOfChars_digs]
  | prestop => decide
  | onclose => decide
  | oncloseEnd => decide
  | cret j => simp [parseTok, printH, natOfChars_digs]

theorem toEv_hevOf (e : Ev) : toEv (hevOf e) = some e := by cases e <;> rfl

theorem retNone_hevOf (e : Ev) : retNone (hevOf e) = false := by cases e <;> rfl

theorem mapM_print (l : List HEv) : (l.map printH).mapM parseTok = some l := by
  induction l with
  | nil => rfl
  | cons a l ih => simp [List.mapM_cons, parseTok_printH, ih]

theorem filterMap_hevOf (h : List Ev) : (h.map hevOf).filterMap toEv = h := by
  induction h with
  | nil => rfl
  | cons e h ih => simp [List.filterMap_cons, toEv_hevOf, ih]

/-- the string monitor on the printed history is the typed monitor -/
theorem monitorToks_print (h : List Ev) : monitorToks ((h.map hevOf).map printH) = monitor h := by
  unfold monitorToks
  rw [mapM_print]
  have : (h.map hevOf).any retNone = false := by
    simp [List.any_eq_false, retNone_hevOf]
  simp only [monitorEvs, this, filterMap_hevOf]
  rfl

end IceProofs.C10View
