import IceProofs.Sys2C01LiveDefs
/-!
# C01 liveness — inbound STUN never spends a pair's request budget

`BK a a'`: every pair of `a` is still at its position in `a'` with the same id, and either its `state` and
`reqCount` are unchanged or it has become Succeeded.  (`reqCount` is incremented, and `state` set to In-Progress /
Failed, only by `pingAllCandidates`, i.e. by a tick; inbound STUN only validates pairs.)
-/
namespace IceProofs.C01Live
open IceModel.AgentCore IceProofs.C03 IceProofs.Agent

/-- what may happen to one pair -/
structure BKp (p p' : Pair) : Prop where
  id : p'.id = p.id
  keep : (p'.state = p.state ∧ p'.reqCount = p.reqCount) ∨ p'.state = .succeeded

def BK (a a' : Agent) : Prop := IdxKeep BKp a.checklist a'.checklist

theorem BKp.refl (p : Pair) : BKp p p := ⟨rfl, Or.inl ⟨rfl, rfl⟩⟩

/-- NOT transitive in general (Succeeded followed by a state change); it is along `handleInbound`, where nothing
un-validates a pair: use `BKp.trans` with the side condition. -/
theorem BKp.trans {p q r : Pair} (h1 : BKp p q) (h2 : BKp q r) (hs : q.state = .succeeded → r.state = .succeeded) : BKp p r := by
  refine ⟨h2.id.trans h1.id, ?_⟩
  rcases h1.keep with ⟨e1, e2⟩ | e
  · rcases h2.keep with ⟨f1, f2⟩ | f
    · exact Or.inl ⟨f1.trans e1, f2.trans e2⟩
    · exact Or.inr f
  · exact Or.inr (hs e)

/-! ## the transitive walk relation `BK2`: `BKp` plus "Succeeded stays Succeeded" -/

structure BK2p (p p' : Pair) : Prop where
  bk : BKp p p'
  succ : p.state = .succeeded → p'.state = .succeeded

theorem BK2p.refl (p : Pair) : BK2p p p := ⟨BKp.refl p, fun h => h⟩

theorem BK2p.trans {p q r : Pair} (h1 : BK2p p q) (h2 : BK2p q r) : BK2p p r :=
  ⟨BKp.trans h1.bk h2.bk h2.succ, fun h => h2.succ (h1.succ h)⟩

def BK2 (a a' : Agent) : Prop := IdxKeep BK2p a.checklist a'.checklist

theorem BK2.refl (a : Agent) : BK2 a a := IdxKeep.refl BK2p.refl _

theorem BK2.trans {a b c : Agent} (h1 : BK2 a b) (h2 : BK2 b c) : BK2 a c :=
  IdxKeep.trans (R := BK2p) (fun _ _ _ x y => BK2p.trans x y) h1 h2

theorem BK2.bk {a a' : Agent} (h : BK2 a a') : BK a a' := IdxKeep.mono (fun _ _ x => x.bk) h

/-- the checklist is untouched -/
theorem BK2.of_eq {a a' : Agent} (hc : a'.checklist = a.checklist) : BK2 a a' := by
  unfold BK2; rw [hc]; exact IdxKeep.refl BK2p.refl _

/-- `modPair id f`: `f` keeps id and `reqCount`, and keeps `state` or validates the pair -/
theorem BK2.modPair (a : Agent) (id : Nat) (f : Pair → Pair) (hid : ∀ p, (f p).id = p.id)
    (hrc : ∀ p, (f p).reqCount = p.reqCount) (hst : ∀ p, (f p).state = p.state ∨ (f p).state = .succeeded) :
    BK2 a (a.modPair id f) := by
  refine IdxKeep.map (fun p => if p.id == id then f p else p) a.checklist ?_
  intro p _
  split
  · refine ⟨⟨hid p, ?_⟩, ?_⟩
    · rcases hst p with h | h
      · exact Or.inl ⟨h, hrc p⟩
      · exact Or.inr h
    · intro hs
      rcases hst p with h | h
      · rw [h]; exact hs
      · exact h
  · exact BK2p.refl p

/-- `f` touches neither id, `reqCount` nor `state` -/
theorem BK2.modPair_keep (a : Agent) (id : Nat) (f : Pair → Pair) (hid : ∀ p, (f p).id = p.id)
    (hrc : ∀ p, (f p).reqCount = p.reqCount) (hst : ∀ p, (f p).state = p.state) : BK2 a (a.modPair id f) :=
  BK2.modPair a id f hid hrc (fun p => Or.inl (hst p))

/-! ## primitive updates -/

theorem addPair_bk (a : Agent) (l r : Cand) : BK2 a (a.addPair l r).1 :=
  IdxKeep.append BK2p.refl _ _

theorem select_bk (a : Agent) (id : Nat) : BK2 a (a.select id).1 := by
  rw [select_fst]
  exact BK2.modPair_keep a id (fun p => { p with nominated := true }) (fun _ => rfl) (fun _ => rfl) (fun _ => rfl)

theorem seenLocalSent_bk (a : Agent) (uid t : Nat) : BK2 a (a.seenLocalSent uid t) := BK2.of_eq rfl
theorem seenRemoteRecv_bk (a : Agent) (uid t : Nat) : BK2 a (a.seenRemoteRecv uid t) := BK2.of_eq rfl

theorem takePending_bk (a : Agent) (now tid : Nat) : BK2 a (a.takePending now tid).1 :=
  BK2.of_eq (takePending_frame a now tid).1

theorem sendRequest_bk (a : Agent) (now : Nat) (l r : Cand) (uc : Bool) (nom : Option Nat) :
    BK2 a (a.sendRequest now l r uc nom).1 := by
  unfold Agent.sendRequest
  simp only []
  split
  · refine BK2.trans ?_ (seenLocalSent_bk _ _ _)
    refine BK2.trans ?_ (BK2.modPair_keep _ _ _ (fun _ => rfl) (fun _ => rfl) (fun _ => rfl))
    exact BK2.of_eq rfl
  · exact BK2.of_eq rfl

theorem ping_bk (a : Agent) (now : Nat) (l r : Cand) : BK2 a (a.ping now l r).1 := sendRequest_bk a now l r false none

theorem sendSuccess_bk (a : Agent) (now : Nat) (m : Msg) (l r : Cand) : BK2 a (a.sendSuccess now m l r).1 := by
  unfold Agent.sendSuccess
  simp only []
  split
  · refine BK2.trans ?_ (seenLocalSent_bk _ _ _)
    exact BK2.modPair_keep _ _ _ (fun _ => rfl) (fun _ => rfl) (fun _ => rfl)
  · exact seenLocalSent_bk _ _ _

theorem nominate_bk (a : Agent) (now : Nat) (p : Pair) : BK2 a (a.nominate now p).1 := by
  unfold Agent.nominate
  split
  · exact sendRequest_bk _ _ _ _ _ _
  · exact BK2.refl _

/-! ## `handleSuccess` -/

theorem hsMark_bk (a : Agent) (id : Nat) (pd : Pending) : BK2 a (a.modPair id (hsMark pd)) :=
  BK2.modPair a id (hsMark pd) (fun _ => rfl) (fun _ => rfl) (fun _ => Or.inr rfl)

theorem hsSel_bk (a : Agent) (p : Pair) (pd : Pending) : BK2 a (hsSel a p pd).1 := by
  rcases hsSel_cases a p pd with h | ⟨h, _⟩
  · rw [h]; exact BK2.refl _
  · rw [h]; exact select_bk a p.id

theorem hsFin_bk (a2 : Agent) (p : Pair) (pd : Pending) (x : Agent) : BK2 x (hsFin a2 p pd x) := by
  unfold hsFin
  split
  · split
    · exact BK2.of_eq rfl
    · exact BK2.refl _
  · split
    · exact BK2.modPair_keep x p.id hsClear (fun _ => rfl) (fun _ => rfl) (fun _ => rfl)
    · exact BK2.refl _

theorem handleSuccess_bk (a : Agent) (now : Nat) (m : Msg) (l r : Cand) (src : Nat) :
    BK2 a (a.handleSuccess now m l r src).1 := by
  rw [handleSuccess_eq]
  have h0 := takePending_bk a now m.tid
  generalize a.takePending now m.tid = tp at h0 ⊢
  obtain ⟨a1, pend⟩ := tp
  dsimp only at h0 ⊢
  cases pend with
  | none => exact h0
  | some pd =>
    dsimp only
    split
    · exact h0
    · split
      · exact h0
      · rename_i p _
        refine BK2.trans (BK2.trans (BK2.trans (BK2.trans h0 (hsMark_bk a1 p.id pd)) (hsSel_bk _ p pd))
          (hsFin_bk (a1.modPair p.id (hsMark pd)) p pd _)) ?_
        exact BK2.modPair_keep _ p.id (Pair.gotResponse now pd.ts) (fun _ => rfl) (fun _ => rfl)
          (fun _ => rfl)

/-! ## the request handlers -/

theorem reqMark_bk (a : Agent) (id : Nat) (m : Msg) : BK2 a (a.modPair id (reqMark m)) :=
  BK2.modPair_keep a id (reqMark m) (fun _ => rfl) (fun _ => rfl) (fun _ => rfl)

theorem ctlNominate_bk (a : Agent) (now : Nat) (l r : Cand) (p : Pair) (o : List Out) :
    BK2 a (ctlNominate a now l r p o).1 := by
  rcases ctlNominate_cases a now l r p o with h | h
  · rw [h]; exact BK2.refl _
  · rw [h]
    exact BK2.trans (b := { a with nominatedPair := some p.id }) (BK2.of_eq rfl) (nominate_bk _ now p)

theorem ctlHandleRequest_bk (a : Agent) (now : Nat) (m : Msg) (l r : Cand) :
    BK2 a (a.ctlHandleRequest now m l r).1 := by
  rw [ctlHandleRequest_eq]
  have h1 := sendSuccess_bk a now m l r
  generalize a.sendSuccess now m l r = ss at h1 ⊢
  obtain ⟨a1, o1⟩ := ss
  split
  · exact (h1.trans (addPair_bk a1 l r)).trans (reqMark_bk _ _ m)
  · rename_i p _
    exact (h1.trans (reqMark_bk a1 p.id m)).trans (ctlNominate_bk _ now l r p o1)

theorem cldPre_bk (a : Agent) (m : Msg) (l r : Cand) : BK2 a (cldPre a m l r).1 := by
  unfold cldPre
  split
  · exact reqMark_bk a _ m
  · exact (addPair_bk a l r).trans (reqMark_bk _ _ m)

theorem cldAccept_bk (a : Agent) (m : Msg) : BK2 a (cldAccept a m).1 := by
  rcases cldAccept_cases a m with h | ⟨v, h⟩
  · rw [h]; exact BK2.refl _
  · rw [h]; exact BK2.of_eq rfl

/-- a lite agent validates the pair the nomination arrived on: `state := .succeeded`, the budget is not spent -/
theorem cldLite_bk (a : Agent) (id : Nat) : BK2 a (cldLite a id) := by
  unfold cldLite
  split
  · exact BK2.modPair a id (fun p => { p with state := .succeeded }) (fun _ => rfl) (fun _ => rfl) (fun _ => Or.inr rfl)
  · exact BK2.refl _

theorem cldNom_bk (a : Agent) (id : Nat) (m : Msg) : BK2 a (cldNom a id m).1 := by
  have hL := cldLite_bk a id
  rcases cldNom_cases a id m with ⟨h, _⟩ | ⟨_, h | ⟨p, _, _, _, h⟩ | ⟨p, _, _, h⟩⟩
  · rw [h]; exact BK2.refl _
  · rw [h]; exact hL
  · rw [h]; exact hL.trans (select_bk _ id)
  · rw [h]
    exact hL.trans (BK2.modPair_keep _ id (fun p => { p with nomOnSuccess := true, deferredNom := m.nom })
      (fun _ => rfl) (fun _ => rfl) (fun _ => rfl))

theorem cldPing_bk (a : Agent) (now : Nat) (l r : Cand) (id : Nat) : BK2 a (cldPing a now l r id).1 := by
  unfold cldPing
  split
  · split
    · exact ping_bk _ _ _ _
    · exact BK2.refl _
  · exact BK2.refl _

theorem cldTail_bk (a : Agent) (now : Nat) (m : Msg) (l r : Cand) (id : Nat) (o : List Out) :
    BK2 a (cldTail a now m l r id o).1 := by
  unfold cldTail
  exact (sendSuccess_bk a now m l r).trans (cldPing_bk _ now l r id)

theorem cldHandleRequest_bk (a : Agent) (now : Nat) (m : Msg) (l r : Cand) :
    BK2 a (a.cldHandleRequest now m l r).1 := by
  rw [cldHandleRequest_eq]
  have h2 : BK2 a (cldAccept (cldPre a m l r).1 m).1 := (cldPre_bk a m l r).trans (cldAccept_bk _ m)
  split
  · exact h2.trans (sendSuccess_bk _ now m l r)
  · exact (h2.trans (cldNom_bk _ _ m)).trans (cldTail_bk _ now m l r _ _)

/-! ## peer-reflexive discovery -/

/-- `addRemoteCandidate` on a peer-reflexive candidate: nothing is superseded (no pair is retargeted), fresh pairs
are appended -/
theorem addRemoteCandidate_prflx_bk (a : Agent) (c : Cand) (hty : c.ty = 3) : BK2 a (a.addRemoteCandidate c).1 := by
  unfold Agent.addRemoteCandidate
  split
  · exact BK2.refl _
  split
  · exact BK2.refl _
  simp only [hty]
  simp only [beq_self_eq_true, if_true, List.foldl_nil, List.any_nil, Bool.not_false]
  refine BK2.trans ?_ (BK2.of_eq (a' := Agent.requestCheck _) rfl)
  refine IceProofs.List.foldl_inv (fun b : Agent => BK2 a b) _ _ _ ?_ ?_
  · exact BK2.of_eq rfl
  · intro b l h
    split
    · exact h
    · exact h.trans (addPair_bk b l _)

theorem hiDisc_bk (a : Agent) (l : Cand) (src : Nat) (m : Msg) : BK2 a (hiDisc a l src m).1 := by
  unfold hiDisc
  split
  · exact BK2.refl _
  · exact addRemoteCandidate_prflx_bk a _ rfl

/-! ## `handleInbound` -/

theorem hiReq_bk (a : Agent) (now : Nat) (l r : Cand) (m : Msg) (o0 : List Out) : BK2 a (hiReq a now l r m o0).1 := by
  unfold hiReq
  cases a.controlling
  · simp only [Bool.false_eq_true, if_false]
    exact (cldHandleRequest_bk a now m l r).trans (seenRemoteRecv_bk _ _ _)
  · simp only [if_true]
    exact (ctlHandleRequest_bk a now m l r).trans (seenRemoteRecv_bk _ _ _)

/-- role conflict included: the 487 answer and the role switch leave the checklist alone -/
theorem hiRole_bk (a : Agent) (now : Nat) (l r : Cand) (m : Msg) (o0 : List Out) : BK2 a (hiRole a now l r m o0).1 := by
  unfold hiRole
  split
  · split
    · split
      · exact seenLocalSent_bk _ _ _
      · exact BK2.of_eq rfl
    · exact hiReq_bk a now l r m o0
  · exact hiReq_bk a now l r m o0

theorem handleInbound_bk2 (a : Agent) (now : Nat) (l : Cand) (src : Nat) (m : Msg) :
    BK2 a (a.handleInbound now l src m).1 := by
  rw [handleInbound_eq]
  split
  · exact BK2.refl _
  · split
    · split
      · exact BK2.refl _
      · split
        · exact BK2.refl _
        · rename_i r _
          exact (handleSuccess_bk a now m l r src).trans (seenRemoteRecv_bk _ _ _)
    · split
      · split
        · exact BK2.refl _
        · split
          · exact BK2.refl _
          · have hd := hiDisc_bk a l src m
            split
            · exact hd
            · exact hd.trans (hiRole_bk _ now l _ m _)
      · split
        · exact seenRemoteRecv_bk _ _ _
        · exact BK2.refl _

/-- inbound STUN (every message, every state; peer-reflexive discovery and role switch included) -/
theorem handleInbound_bk (a : Agent) (now : Nat) (l : Cand) (src : Nat) (m : Msg) :
    BK a (a.handleInbound now l src m).1 := (handleInbound_bk2 a now l src m).bk

end IceProofs.C01Live
