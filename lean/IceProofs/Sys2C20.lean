import IceProofs.Sys2C20Link
/-!
# C20 on `Sys2` — the two-agent theorems

`Fresh s0` (two freshly created agents, nothing in flight) → any schedule `pre` → a state `s1` in which the session is
`Established` (roles taken, no renomination yet) → any schedule `ex` that is an
`Exchange` (no Restart / Close, every state a `Session`).  `hist s1 ex` is the history of the exchange.
-/
namespace IceProofs.C20S
open IceModel.AgentCore IceModel.Sys2 IceProofs.Sys2Run IceProofs.Agent IceProofs.Sys2C05

/-! ## reachable states satisfy the bookkeeping invariant of C06 -/

/-- two freshly created agents and an empty hub -/
structure Fresh (s : Sys) : Prop where
  init : Sys.Init s
  aInit : AgentC06.Init s.a
  bInit : AgentC06.Init s.b

theorem agentEv_pres (P : Agent → Prop) (hP : ∀ a e, P a → P (step a e).1) (s : Sys) (X : Bool) (e : Ev)
    (h : P s.a ∧ P s.b) : P (s.agentEv X e).1.a ∧ P (s.agentEv X e).1.b := by
  cases X
  · exact ⟨hP _ _ h.1, h.2⟩
  · exact ⟨h.1, hP _ _ h.2⟩

theorem handOver_pres (P : Agent → Prop) (hP : ∀ a e, P a → P (step a e).1) (s : Sys) (d : Dgram)
    (h : P s.a ∧ P s.b) : P (s.handOver d).1.a ∧ P (s.handOver d).1.b := by
  rw [handOver_eq]
  split
  · exact h
  · split
    · exact h
    · rename_i X _
      have := agentEv_pres P hP s X (evOf s d) h
      cases X
      · exact this
      · exact this

/-- a property of single agents that every agent step preserves holds of both agents along every schedule -/
theorem run_pres (P : Agent → Prop) (hP : ∀ a e, P a → P (step a e).1) (s : Sys) (e : SysEv)
    (h : P s.a ∧ P s.b) : P (Sys.run s e).a ∧ P (Sys.run s e).b := by
  cases e with
  | api X ev =>
    simp only [Sys.run, Sys.runOut]
    split
    · have := agentEv_pres P hP s X ev h
      cases X
      · exact this
      · exact this
    · exact h
  | deliver k =>
    show P (s.deliver k false).1.a ∧ P (s.deliver k false).1.b
    rw [deliver_eq]
    cases s.inflight[k]? with
    | none => exact h
    | some d => exact handOver_pres P hP _ d h
  | dup k =>
    show P (s.deliver k true).1.a ∧ P (s.deliver k true).1.b
    rw [deliver_eq]
    cases s.inflight[k]? with
    | none => exact h
    | some d => exact handOver_pres P hP _ d h
  | drop k => exact h
  | advance now =>
    show P (s.advance now).1.a ∧ P (s.advance now).1.b
    rw [advance_eq]
    have h0 : P ({ s with now := now } : Sys).a ∧ P ({ s with now := now } : Sys).b := h
    have h1 := agentEv_pres P hP _ false (.advance now) h0
    split
    · exact agentEv_pres P hP _ true (.advance now) h1
    · exact h1

theorem runs_pres (P : Agent → Prop) (hP : ∀ a e, P a → P (step a e).1) (s : Sys) (es : List SysEv)
    (h : P s.a ∧ P s.b) : P (Sys.runs s es).a ∧ P (Sys.runs s es).b := by
  induction es generalizing s with
  | nil => exact h
  | cons e es ih =>
    simp only [Sys.runs, List.foldl_cons]
    exact ih _ (run_pres P hP s e h)

theorem fresh_inv {s0 : Sys} (hf : Fresh s0) (es : List SysEv) :
    AgentC06.Inv (Sys.runs s0 es).a ∧ AgentC06.Inv (Sys.runs s0 es).b :=
  runs_pres AgentC06.Inv (fun _ e h => h.step e) s0 es ⟨AgentC06.Inv.init hf.aInit, AgentC06.Inv.init hf.bInit⟩

/-! ## the start and the course of an exchange -/

/-- the datagram carries no nomination value -/
def valFree (d : Dgram) : Bool :=
  match d.p with
  | .stun m => m.nom.isNone
  | .data _ => true

/-- **The session is established and renomination has not begun.**  Roles taken (`Session`); no nomination value is
in flight; A has no valued nomination transaction outstanding and has processed no response to one; B has accepted no
nomination value and none of its pairs carries a deferred nomination value.  Ordinary nominations (USE-CANDIDATE
without a value) may be in flight, outstanding or deferred, and A need not have selected a pair yet. -/
def Established (s : Sys) : Prop :=
  Session s ∧ (∀ d ∈ s.inflight, valFree d = true) ∧
  (∀ pd ∈ s.a.pending, pd.nom = none) ∧ s.a.answeredNomination = none ∧ s.b.lastNomination = none ∧
  (∀ p ∈ s.b.checklist, p.deferredNom = none)

instance (s : Sys) : Decidable (Established s) := by unfold Established; infer_instance

/-- **The course of an exchange**: no Restart and no Close, and every state along the schedule is a `Session` (both
started and open, A controlling, B controlled and full, nobody Failed). -/
def ExchangeK (K : Ev → Bool) (s1 : Sys) (ex : List SysEv) : Prop :=
  (∀ e ∈ ex, sysK K e = true) ∧ ∀ k, k ≤ ex.length → Session (Sys.runs s1 (ex.take k))

instance (K : Ev → Bool) (s1 : Sys) (ex : List SysEv) : Decidable (ExchangeK K s1 ex) := by
  unfold ExchangeK; infer_instance

/-- `ExchangeK` for the filter "neither Restart nor Close" -/
abbrev Exchange (s1 : Sys) (ex : List SysEv) : Prop := ExchangeK keeps s1 ex

theorem ExchangeK.tail {K : Ev → Bool} {s1 : Sys} {e : SysEv} {es : List SysEv} (h : ExchangeK K s1 (e :: es)) :
    ExchangeK K (Sys.run s1 e) es := by
  refine ⟨fun x hx => h.1 x (List.mem_cons_of_mem _ hx), fun k hk => ?_⟩
  have := h.2 (k + 1) (by simp only [List.length_cons]; omega)
  simpa [Sys.runs] using this

theorem ExchangeK.head {K : Ev → Bool} {s1 : Sys} {e : SysEv} {es : List SysEv} (h : ExchangeK K s1 (e :: es)) :
    sysK K e = true ∧ Session (Sys.run s1 e) := by
  refine ⟨h.1 e (List.mem_cons_self ..), ?_⟩
  have := h.2 1 (by simp only [List.length_cons]; omega)
  simpa [Sys.runs] using this

/-- the invariant holds when the session is established -/
theorem established_qinv {s1 : Sys} (hi : AgentC06.Inv s1.a ∧ AgentC06.Inv s1.b) (he : Established s1) :
    QInv s1.nat {} s1 := by
  obtain ⟨hs, hfl, hpend, hansw, hlast, hmarks⟩ := he
  refine ⟨rfl, hi.1, hi.2, hs, ?_, ?_, ?_, ?_, ?_, ?_, ?_⟩
  · intro d hd m hm v hv
    have := hfl d hd
    unfold valFree at this
    rw [hm] at this
    simp only [Option.isNone_iff_eq_none] at this
    rw [this] at hv; cases hv
  · intro pd hpd v hv
    rw [hpend pd hpd] at hv; cases hv
  · intro x hx; cases hx
  · intro w hw
    rw [hansw] at hw; cases hw
  · rw [hlast]; rfl
  · intro v lb rb hacc; cases hacc
  · intro p hp
    exact MarkOK.fresh (hmarks p hp)

/-- induction over the schedule of an exchange in which no nomination with value 0 is issued -/
theorem sched_runsZ {K : Ev → Bool} {R : Hist → Sys → Prop} {D : Hist → Sys → Dgram → Prop} {Z : List Nomination → Prop}
    (ok : SchedOKZ K R D Z) (hZ : ∀ l l', l <+: l' → Z l' → Z l)
    {h : Hist} {s : Sys} (q : R h s) (ex : List SysEv) (hex : ExchangeK K s ex) (hz : Z (histFrom h s ex).issued) :
    R (histFrom h s ex) (Sys.runs s ex) := by
  induction ex generalizing h s with
  | nil => exact q
  | cons e es ih =>
    obtain ⟨hk, hsess⟩ := hex.head
    have hz1 : Z (hstepSys h s e).issued := hZ _ _ (histFrom_issued_prefix _ _ es) hz
    have q1 := sched_run ok q e hk hsess hz1
    simp only [Sys.runs, List.foldl_cons, histFrom]
    exact ih q1 hex.tail hz

theorem sched_runs {K : Ev → Bool} {R : Hist → Sys → Prop} {D : Hist → Sys → Dgram → Prop} (ok : SchedOK K R D)
    {h : Hist} {s : Sys} (q : R h s) (ex : List SysEv) (hex : ExchangeK K s ex) (hz : ∀ x ∈ (histFrom h s ex).issued, 0 < x.1) :
    R (histFrom h s ex) (Sys.runs s ex) :=
  sched_runsZ ok (fun _ _ hp hl x hx => hl x (hp.subset hx)) q ex hex hz

/-- … the invariant along every exchange -/
theorem qinv_runs {nat : List (Nat × Nat)} {h : Hist} {s : Sys} (q : QInv nat h s) (ex : List SysEv)
    (hex : Exchange s ex) (hz : ∀ x ∈ (histFrom h s ex).issued, 0 < x.1) :
    QInv nat (histFrom h s ex) (Sys.runs s ex) :=
  sched_runs (qinv_sched nat) q ex hex hz

/-- the link invariant holds when the session is established -/
theorem established_linv {s1 : Sys} (ht : TInv s1) (he : Established s1) : LInv {} s1 := by
  obtain ⟨_, _, hpend, _, _, _⟩ := he
  refine ⟨ht, ?_, ?_⟩
  · intro d _ pd hpd v hv
    rw [hpend pd hpd] at hv; cases hv
  · intro x hx; cases hx

/-- all nomination values issued are positive (value 0 is sent without the nomination attribute: an ordinary
nomination) -/
def PositiveValues (log : List Nomination) : Prop := ∀ x ∈ log, 0 < x.1

instance (log : List Nomination) : Decidable (PositiveValues log) := by unfold PositiveValues; infer_instance

/-- **The invariant in every state of every exchange.** -/
theorem exchange_qinv {s0 : Sys} (hf : Fresh s0) (pre ex : List SysEv) (he : Established (Sys.runs s0 pre))
    (hex : Exchange (Sys.runs s0 pre) ex) (hz : PositiveValues (hist (Sys.runs s0 pre) ex).issued) :
    QInv s0.nat (hist (Sys.runs s0 pre) ex) (Sys.runs (Sys.runs s0 pre) ex) := by
  have hq := established_qinv (fresh_inv hf pre) he
  rw [(Sys.runs_topology s0 pre).1] at hq
  exact qinv_runs hq ex hex hz

/-- … together with the link from answered nominations to B -/
theorem exchange_ql {s0 : Sys} (hf : Fresh s0) (pre ex : List SysEv) (he : Established (Sys.runs s0 pre))
    (hex : Exchange (Sys.runs s0 pre) ex) (hz : PositiveValues (hist (Sys.runs s0 pre) ex).issued) :
    QL s0.nat (hist (Sys.runs s0 pre) ex) (Sys.runs (Sys.runs s0 pre) ex) := by
  have hq := established_qinv (fresh_inv hf pre) he
  rw [(Sys.runs_topology s0 pre).1] at hq
  have hl := established_linv (init_tinv hf.init pre) he
  exact sched_runs (ql_sched s0.nat) ⟨hq, hl⟩ ex hex hz

/-! ## the theorems -/

/-- `x` carries the highest value of the log, and is the only nomination with that value -/
def IsMax (log : List Nomination) (x : Nomination) : Prop :=
  x ∈ log ∧ ∀ y ∈ log, y.1 ≤ x.1 ∧ (y.1 = x.1 → y = x)

instance (log : List Nomination) (x : Nomination) : Decidable (IsMax log x) := by unfold IsMax; infer_instance

/-- **The exchange has quiesced**: (1) no STUN message carrying a nomination value is in flight; (2) the controlling
agent A has no valued nomination transaction outstanding; (3) the highest value the controlled agent B has accepted
is not still waiting, as a deferred nomination, for the validation of its pair.  (Ordinary nominations and deferred
nominations with smaller values may still be around: they no longer move a selection.) -/
def Quiesced (s : Sys) : Prop :=
  (∀ d ∈ s.inflight, valFree d = true) ∧ (∀ pd ∈ s.a.pending, pd.nom = none) ∧
  (∀ p ∈ s.b.checklist, p.deferredNom.isSome = true → p.deferredNom ≠ s.b.lastNomination)

instance (s : Sys) : Decidable (Quiesced s) := by unfold Quiesced; infer_instance

/-- the mirror image, modulo the NAT mapping, of the address pair `(la, ra)` of A: B's local address is the real
address behind `ra`, B's remote address is `la` as seen through the NAT -/
def mirror (nat : List (Nat × Nat)) (la ra : Nat) : Nat × Nat := (unmappedL nat ra, mappedL nat la)

section
variable {s0 : Sys} (hf : Fresh s0) (pre ex : List SysEv) (he : Established (Sys.runs s0 pre))
  (hex : Exchange (Sys.runs s0 pre) ex) (hz : PositiveValues (hist (Sys.runs s0 pre) ex).issued)
include hf he hex hz

/-- every value B accepted was issued by A -/
theorem accepted_le_issued (v : Nat) (hv : (Sys.runs (Sys.runs s0 pre) ex).b.lastNomination = some v) :
    ∃ la ra, (v, la, ra) ∈ (hist (Sys.runs s0 pre) ex).issued := by
  have q := exchange_qinv hf pre ex he hex hz
  rw [q.lastB] at hv
  cases hacc : (hist (Sys.runs s0 pre) ex).accepted with
  | none => rw [hacc] at hv; cases hv
  | some x =>
    obtain ⟨v', lb, rb⟩ := x
    rw [hacc] at hv
    simp only [Option.map_some, Option.some.injEq] at hv
    subst hv
    obtain ⟨⟨la, ra, h1, _⟩, _⟩ := q.accB v' lb rb hacc
    exact ⟨la, ra, h1⟩

/-- B's highest accepted value `v` was issued by A on an address pair `(la, ra)`; it arrived on the mirror image of
that pair, and this is B's selected pair — unless it still waits there as a deferred nomination -/
theorem controlled_selects_max_accepted (v : Nat)
    (hv : (Sys.runs (Sys.runs s0 pre) ex).b.lastNomination = some v) :
    ∃ la ra, (v, la, ra) ∈ (hist (Sys.runs s0 pre) ex).issued ∧
      (hist (Sys.runs s0 pre) ex).accepted = some (v, (mirror s0.nat la ra).1, (mirror s0.nat la ra).2) ∧
      (selAddrs (Sys.runs (Sys.runs s0 pre) ex).b = some (mirror s0.nat la ra) ∨
       ∃ p ∈ (Sys.runs (Sys.runs s0 pre) ex).b.checklist,
         pairAddrs (Sys.runs (Sys.runs s0 pre) ex).b p.id = some (mirror s0.nat la ra) ∧
         p.nomOnSuccess = true ∧ p.deferredNom = some v ∧ p.state ≠ .succeeded) := by
  have q := exchange_qinv hf pre ex he hex hz
  rw [q.lastB] at hv
  cases hacc : (hist (Sys.runs s0 pre) ex).accepted with
  | none => rw [hacc] at hv; cases hv
  | some x =>
    obtain ⟨v', lb, rb⟩ := x
    rw [hacc] at hv
    simp only [Option.map_some, Option.some.injEq] at hv
    subst hv
    obtain ⟨⟨la, ra, h1, h2, h3⟩, id, haddr, hJ, _⟩ := q.accB v' lb rb hacc
    subst h2 h3
    refine ⟨la, ra, h1, rfl, ?_⟩
    rcases hJ with hsel | ⟨p, hp, hpid, hnk⟩
    · left
      rw [selAddrs_of_selected hsel]
      exact haddr
    · right
      unfold nk at hnk
      simp only [Prod.mk.injEq, beq_eq_false_iff_ne, ne_eq] at hnk
      exact ⟨p, hp, by rw [hpid]; exact haddr, hnk.2.1, hnk.2.2, hnk.1⟩

/-- once A has processed the success response to a nomination, its selected pair is the pair of the answered
nomination with the greatest value — later responses to nominations with smaller values do not move it -/
theorem controlling_selects_max_answered (x : Nomination) (hx : x ∈ (hist (Sys.runs s0 pre) ex).answered) :
    ∃ y ∈ (hist (Sys.runs s0 pre) ex).answered, y ∈ (hist (Sys.runs s0 pre) ex).issued ∧
      (∀ z ∈ (hist (Sys.runs s0 pre) ex).answered, z.1 ≤ y.1) ∧
      selAddrs (Sys.runs (Sys.runs s0 pre) ex).a = some (y.2.1, y.2.2) := by
  have q := exchange_qinv hf pre ex he hex hz
  obtain ⟨_, w, hw, _⟩ := q.ansA x hx
  obtain ⟨y, hy, hyw, hys⟩ := q.selA w hw
  refine ⟨y, hy, (q.ansA y hy).1, fun z hz' => ?_, hys⟩
  obtain ⟨_, w', hw', hle⟩ := q.ansA z hz'
  rw [hw] at hw'
  cases hw'
  omega

/-- B has handed every nomination whose response A has processed to its selector: B's highest accepted value is at
least its value -/
theorem answered_le_accepted (x : Nomination) (hx : x ∈ (hist (Sys.runs s0 pre) ex).answered) :
    ∃ last, (Sys.runs (Sys.runs s0 pre) ex).b.lastNomination = some last ∧ x.1 ≤ last :=
  (exchange_ql hf pre ex he hex hz).2.ansB x hx

/-- … so when that nomination carries the highest value issued, B has accepted exactly that value -/
theorem accepted_max_of_answered (x : Nomination) (hmax : IsMax (hist (Sys.runs s0 pre) ex).issued x)
    (hA : x ∈ (hist (Sys.runs s0 pre) ex).answered) :
    (Sys.runs (Sys.runs s0 pre) ex).b.lastNomination = some x.1 := by
  obtain ⟨last, hl, hle⟩ := answered_le_accepted hf pre ex he hex hz x hA
  obtain ⟨la, ra, hmem⟩ := accepted_le_issued hf pre ex he hex hz last hl
  have := (hmax.2 _ hmem).1
  have : last = x.1 := by simp only at this; omega
  rw [hl, this]

/-- **Quiescent agreement.** -/
theorem quiescent_agreement (x : Nomination) (hq : Quiesced (Sys.runs (Sys.runs s0 pre) ex))
    (hmax : IsMax (hist (Sys.runs s0 pre) ex).issued x)
    (hA : x ∈ (hist (Sys.runs s0 pre) ex).answered) :
    selAddrs (Sys.runs (Sys.runs s0 pre) ex).a = some (x.2.1, x.2.2) ∧
    selAddrs (Sys.runs (Sys.runs s0 pre) ex).b = some (mirror s0.nat x.2.1 x.2.2) := by
  have hB := accepted_max_of_answered hf pre ex he hex hz x hmax hA
  refine ⟨?_, ?_⟩
  · obtain ⟨y, hy, hyi, hymax, hys⟩ := controlling_selects_max_answered hf pre ex he hex hz x hA
    have h1 := hymax x hA
    have h2 := hmax.2 y hyi
    have hyx : y = x := h2.2 (by omega)
    rw [← hyx]; exact hys
  · obtain ⟨la, ra, hmem, _, hsel⟩ := controlled_selects_max_accepted hf pre ex he hex hz x.1 hB
    have hxe : (x.1, la, ra) = x := (hmax.2 _ hmem).2 rfl
    have hla : la = x.2.1 := by rw [← hxe]
    have hra : ra = x.2.2 := by rw [← hxe]
    subst hla hra
    rcases hsel with h | ⟨p, hp, _, _, hd, _⟩
    · exact h
    · exact absurd (hd.trans hB.symm) (hq.2.2 p hp (by rw [hd]; rfl))

end

end IceProofs.C20S
