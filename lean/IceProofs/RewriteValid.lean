import IceProofs.Rewrite
/-!
# More lemmas for C19: validation (rules, legacy entries, the option's sanitizer), mode application,
family separation, and `IPNet.Contains` as an address range.
-/
set_option linter.unusedSimpArgs false
namespace IceProofs.Rewrite
open IceModel.Rewrite IceSpec.C19

/-! ## Validation of rules -/


theorem ext_any_none_eq (l : List IPTok) (hb : l.contains .blank = false) :
    l.any (fun t => (tokIP? t).isNone) = l.contains .bad := by
  induction l with
  | nil => rfl
  | cons t ts ih =>
    simp only [List.contains_cons, Bool.or_eq_false_iff] at hb
    simp only [List.any_cons, List.contains_cons]
    rw [ih hb.2]
    cases t with
    | ok ip => simp [tokIP?]
    | bad => simp [tokIP?]
    | blank => simp at hb

theorem tokensInvalid_eq (r : Rule) (hb : r.ext.contains .blank = false) : tokensInvalid r = illFormed r := by
  unfold tokensInvalid illFormed
  rw [ext_any_none_eq r.ext hb]
  congr 1
  cases hc : r.cidr with
  | none => cases hl : r.loc <;> simp
  | bad => cases hl : r.loc <;> simp
  | ok c =>
    have hw : (!c.wellFormed) = decide (c.bits > if c.v4 = true then 32 else 128) := by
      unfold CIDR.wellFormed CIDR.width
      by_cases h : c.bits ≤ (if c.v4 = true then 32 else 128)
      · simp [h]
      · simp [h]; omega
    cases hl : r.loc with
    | none => simp [hw]
    | bad => simp [hw]
    | ok l =>
      have : (LocTok.ok l == LocTok.bad) = false := by simp
      simp [hw, this]

theorem inert_eq (r : Rule) : (!allow4 r && !allow6 r) = inert r := by
  unfold inert; rw [allow4_eq, allow6_eq]

theorem compileRule_error_iff (r : Rule) (hb : r.ext.contains .blank = false) :
    (∃ e, compileRule r = .error e) ↔ (unsupportedRule r || (!inert r && illFormed r)) = true := by
  unfold compileRule unsupportedRule
  rw [inert_eq, tokensInvalid_eq r hb, effType_eq]
  by_cases h3 : docType r = 3
  · simp [h3]
  · cases hi : inert r <;> cases hf : illFormed r <;> simp [h3]

theorem compileRule_unsupported (r : Rule) (h : compileRule r = .error .unsupported) : unsupportedRule r = true := by
  unfold compileRule at h
  unfold unsupportedRule
  rw [← effType_eq]
  by_cases h3 : effType r = 3
  · simp [h3]
  · rw [if_neg h3] at h
    split at h
    · cases h
    · split at h <;> cases h

theorem compileAll_error_iff (rules : List Rule) (hb : ∀ r ∈ rules, r.ext.contains .blank = false) :
    (∃ e, compileAll rules = .error e) ↔ docRejects rules = true := by
  induction rules with
  | nil => simp [compileAll, docRejects]
  | cons r rs ih =>
    have hr := compileRule_error_iff r (hb r List.mem_cons_self)
    have ih' := ih (fun x hx => hb x (List.mem_cons_of_mem _ hx))
    unfold docRejects at *
    simp only [List.any_cons, Bool.or_eq_true] at *
    unfold compileAll
    cases hc : compileRule r with
    | error e =>
      have : (∃ e, compileRule r = Except.error e) := ⟨e, hc⟩
      have := hr.mp this
      simp only []
      constructor
      · intro _; left; exact this
      · intro _; exact ⟨e, rfl⟩
    | ok o =>
      have hno : ¬ (∃ e, compileRule r = Except.error e) := by
        rintro ⟨e, he⟩; rw [hc] at he; cases he
      have hno' := (not_congr hr).mp hno
      simp only []
      cases hrs : compileAll rs with
      | error e =>
        have := ih'.mp ⟨e, hrs⟩
        constructor
        · intro _; right; exact this
        · intro _; exact ⟨e, rfl⟩
      | ok l =>
        constructor
        · rintro ⟨e, he⟩; cases he
        · intro h
          rcases h with h | h
          · exact absurd h hno'
          · obtain ⟨e, he⟩ := ih'.mpr h
            rw [hrs] at he; cases he

theorem compileAll_unsupported (rules : List Rule) (h : compileAll rules = .error .unsupported) :
    ∃ r ∈ rules, unsupportedRule r = true := by
  induction rules with
  | nil => cases h
  | cons r rs ih =>
    unfold compileAll at h
    cases hc : compileRule r with
    | error e =>
      rw [hc] at h
      simp only [] at h
      injection h with h; subst h
      exact ⟨r, List.mem_cons_self, compileRule_unsupported r hc⟩
    | ok o =>
      rw [hc] at h
      simp only [] at h
      cases hrs : compileAll rs with
      | error e =>
        rw [hrs] at h
        injection h with h; subst h
        obtain ⟨x, hx, hu⟩ := ih hrs
        exact ⟨x, List.mem_cons_of_mem _ hx, hu⟩
      | ok l => rw [hrs] at h; cases h

theorem newMapper_error_iff (rules : List Rule) (e : Err) :
    newMapper rules = .error e ↔ compileAll rules = .error e := by
  unfold newMapper
  cases hc : compileAll rules with
  | error e' => simp
  | ok l => cases l <;> simp

/-! ## Legacy NAT1To1IPs entries -/


def b2n (b : Bool) : Nat := if b then 1 else 0

def single? (e : Entry) : Option IP :=
  match e with
  | [.ip a] => some a
  | _ => none

theorem legacySingles_cons (e : Entry) (es : List Entry) :
    legacySingles (e :: es) = (single? e).toList ++ legacySingles es := by
  unfold legacySingles
  rw [filterMap_cons_toList]
  rfl

/-- Shape analysis of one legacy entry. -/
theorem entry_cases (e : Entry) :
    (e = [.empty] ∧ legacyEntryOK e = true ∧ single? e = none ∧ ∀ h4 h6, validateLegacyEntry e h4 h6 = .ok (h4, h6))
    ∨ (∃ a, e = [.ip a] ∧ legacyEntryOK e = true ∧ single? e = some a)
    ∨ (∃ a b, e = [.ip a, .ip b] ∧ legacyEntryOK e = true ∧ single? e = none
        ∧ ∀ h4 h6, validateLegacyEntry e h4 h6 = .ok (h4, h6))
    ∨ (legacyEntryOK e = false ∧ ∀ h4 h6, validateLegacyEntry e h4 h6 = .error .invalid) := by
  match e with
  | [] => right; right; right; exact ⟨rfl, fun _ _ => rfl⟩
  | [.empty] => left; exact ⟨rfl, rfl, rfl, fun _ _ => rfl⟩
  | [.ip a] => right; left; exact ⟨a, rfl, rfl, rfl⟩
  | [.bad] => right; right; right; exact ⟨rfl, fun _ _ => rfl⟩
  | [.ip a, .ip b] => right; right; left; exact ⟨a, b, rfl, rfl, rfl, fun _ _ => rfl⟩
  | [.ip _, .empty] => right; right; right; exact ⟨rfl, fun _ _ => rfl⟩
  | [.ip _, .bad] => right; right; right; exact ⟨rfl, fun _ _ => rfl⟩
  | [.empty, _] => right; right; right; exact ⟨rfl, fun _ _ => rfl⟩
  | [.bad, _] => right; right; right; exact ⟨rfl, fun _ _ => rfl⟩
  | p :: q :: _ :: _ =>
    right; right; right
    cases p <;> cases q <;> exact ⟨rfl, fun _ _ => rfl⟩

theorem validateLegacyLoop_iff (es : List Entry) (h4 h6 : Bool) :
    validateLegacyLoop es h4 h6 = .ok () ↔
      (∀ e ∈ es, legacyEntryOK e = true)
      ∧ ((legacySingles es).filter (fun a => a.v4)).length + b2n h4 ≤ 1
      ∧ ((legacySingles es).filter (fun a => !a.v4)).length + b2n h6 ≤ 1 := by
  induction es generalizing h4 h6 with
  | nil => cases h4 <;> cases h6 <;> simp [validateLegacyLoop, legacySingles, b2n]
  | cons e es ih =>
    unfold validateLegacyLoop
    rw [legacySingles_cons]
    rcases entry_cases e with ⟨_, hok, hs, hv⟩ | ⟨a, he, hok, hs⟩ | ⟨a, b, _, hok, hs, hv⟩ | ⟨hbad, hv⟩
    · rw [hv, hs]; simp only [Option.toList, List.nil_append]
      rw [ih]; simp [hok]
    · subst he
      rw [hs]
      simp only [validateLegacyEntry, Option.toList, List.singleton_append, List.filter_cons]
      cases hav : a.v4
      · cases h6
        · simp only [Bool.false_eq_true, if_false]
          rw [ih]; simp [hok, b2n]
        · simp [b2n]
      · cases h4
        · simp only [Bool.false_eq_true, if_false, if_true]
          rw [ih]; simp [hok, b2n]
        · simp [b2n]
    · rw [hv, hs]; simp only [Option.toList, List.nil_append]
      rw [ih]; simp [hok]
    · rw [hv]; simp [hbad]

theorem validateLegacy_iff (es : List Entry) : validateLegacy es = .ok () ↔ legacyRejects es = false := by
  unfold validateLegacy
  rw [validateLegacyLoop_iff]
  unfold legacyRejects legacyDuplicate
  simp only [b2n, Bool.false_eq_true, if_false, Nat.add_zero, Bool.or_eq_false_iff, List.any_eq_false,
    Bool.not_eq_true', decide_eq_false_iff_not, Nat.not_lt, Bool.not_eq_false]

/-! ## Modes and families -/


/-- gather.go applies a lookup result as the documented mode semantics say. -/
theorem applyRes_eq_doc (kind : Kind) (orig : IP) (res : Res) :
    canonApply (applyRes kind orig (.ok res)) = canonApply (docApply kind orig res) := by
  obtain ⟨ips, matched, mode⟩ := res
  unfold applyRes docApply canonApply
  cases matched
  · simp
  · by_cases hm : mode = 1
    · subst hm
      cases kind <;> cases ips <;> simp
    · cases kind <;> cases ips <;> simp [hm]

/-- Where the addresses of a lookup result come from. -/
theorem lookupWith_origin (c : Clauses) (rules : List Rule) (k : Key) (x : IP)
    (hx : x ∈ (lookupWith c rules k).ips) :
    ∃ r ∈ rules, (isExplicit r k = true ∧ x ∈ externals r)
      ∨ (isCatchAllWith c r k = true ∧ x ∈ (c.caIPs r k).getD []) := by
  unfold lookupWith at hx
  cases he : rules.find? (fun r => isExplicit r k) with
  | some r =>
    rw [he] at hx
    exact ⟨r, List.mem_of_find?_eq_some he, Or.inl ⟨by simpa using List.find?_some he, hx⟩⟩
  | none =>
    rw [he] at hx
    simp only [] at hx
    cases hf : (rules.filter (fun r => isCatchAllWith c r k)).find?
        (fun r => c.rank r k == topRank c k (rules.filter (fun r => isCatchAllWith c r k))) with
    | some r =>
      rw [hf] at hx
      have hm := List.mem_of_find?_eq_some hf
      obtain ⟨hr, hc⟩ := List.mem_filter.mp hm
      exact ⟨r, hr, Or.inr ⟨hc, hx⟩⟩
    | none =>
      rw [hf] at hx
      simp [Res.noMatch] at hx

/-- An address of the other family in an as-coded lookup result is there because the rule is
pinned by `Local` to the key's address or scoped by a CIDR that contains it. -/
theorem asCoded_cross_family (rules : List Rule) (k : Key) (x : IP)
    (hx : x ∈ (lookupWith asCodedClauses rules k).ips) (hfam : x.v4 ≠ k.ip.v4) :
    ∃ r ∈ rules, IPTok.ok x ∈ r.ext ∧
      (r.loc = .ok k.ip ∨ ∃ c, r.cidr = .ok c ∧ c.contains k.ip = true) := by
  obtain ⟨r, hr, h⟩ := lookupWith_origin asCodedClauses rules k x hx
  have hext : ∀ y, y ∈ externals r → IPTok.ok y ∈ r.ext := by
    intro y hy
    unfold externals at hy
    obtain ⟨t, ht, hty⟩ := List.mem_filterMap.mp hy
    cases t with
    | ok ip => simp at hty; subst hty; exact ht
    | bad => simp at hty
    | blank => simp at hty
  rcases h with ⟨he, hxe⟩ | ⟨hc, hxc⟩
  · refine ⟨r, hr, hext x hxe, Or.inl ?_⟩
    unfold isExplicit at he
    simp only [Bool.and_eq_true, beq_iff_eq] at he
    exact he.2
  · unfold isCatchAllWith at hc
    simp only [Bool.and_eq_true] at hc
    obtain ⟨hscope, _⟩ := hc
    have hcaips : asCodedClauses.caIPs r k = caIPsF13 r k := rfl
    rw [hcaips] at hxc
    unfold caIPsF13 at hxc
    by_cases hst : starved r = true
    · simp [hst] at hxc
    · simp only [hst] at hxc
      unfold catchAllIPs at hxc
      cases hl : r.loc with
      | ok l => rw [hl] at hxc; simp at hxc
      | bad => rw [hl] at hxc; simp at hxc
      | none =>
        rw [hl] at hxc
        simp only [Bool.false_eq_true, if_false] at hxc
        by_cases hem : r.ext.isEmpty = true
        · simp [hem] at hxc
        · simp only [hem] at hxc
          by_cases hcd : hasCIDR r = true
          · simp only [hcd, if_true, Option.getD_some, Bool.false_eq_true, if_false] at hxc
            refine ⟨r, hr, hext x hxc, Or.inr ?_⟩
            unfold hasCIDR at hcd
            cases hcc : r.cidr with
            | ok c =>
              refine ⟨c, rfl, ?_⟩
              unfold inScope cidrOK at hscope
              rw [hcc] at hscope
              simp only [Bool.and_eq_true] at hscope
              exact hscope.1.2
            | none => rw [hcc] at hcd; simp at hcd
            | bad => rw [hcc] at hcd; simp at hcd
          · simp only [hcd, Bool.false_eq_true, if_false] at hxc
            split at hxc
            · simp at hxc
            · simp only [Option.getD_some] at hxc
              have := (List.mem_filter.mp hxc).2
              simp only [beq_iff_eq] at this
              exact absurd this hfam

/-! ## The sanitizer of the public option; CIDR ranges -/


/-- `sanitizeExternalIPs` accepts exactly the lists without unparsable entries that keep at least
one address. -/
theorem sanitizeExts_ok (l acc : List IPTok) (hbad : l.contains .bad = false)
    (hne : acc ≠ [] ∨ ∃ ip, IPTok.ok ip ∈ l) : ∃ out, sanitizeExts l acc = .ok out := by
  induction l generalizing acc with
  | nil =>
    rcases hne with h | ⟨ip, h⟩
    · unfold sanitizeExts
      have : acc.isEmpty = false := by cases acc <;> simp_all
      simp [this]
    · cases h
  | cons t ts ih =>
    simp only [List.contains_cons, Bool.or_eq_false_iff] at hbad
    cases t with
    | bad => simp at hbad
    | blank =>
      unfold sanitizeExts
      apply ih acc hbad.2
      rcases hne with h | ⟨ip, h⟩
      · exact Or.inl h
      · right
        rcases List.mem_cons.mp h with h | h
        · cases h
        · exact ⟨ip, h⟩
    | ok ip =>
      unfold sanitizeExts
      split
      · apply ih acc hbad.2
        left
        intro h
        subst h
        simp at *
      · apply ih _ hbad.2
        left; simp

theorem sanitizeExts_bad (l acc : List IPTok) (hbad : l.contains .bad = true) :
    sanitizeExts l acc = .error .invalid := by
  induction l generalizing acc with
  | nil => simp at hbad
  | cons t ts ih =>
    cases t with
    | bad => rfl
    | blank =>
      unfold sanitizeExts
      apply ih
      simpa using hbad
    | ok ip =>
      unfold sanitizeExts
      have : ts.contains .bad = true := by simpa using hbad
      split <;> exact ih _ this

theorem sanitizeExts_none (l : List IPTok) (h : ∀ t ∈ l, t = .blank) :
    sanitizeExts l [] = .error .invalid := by
  induction l with
  | nil => rfl
  | cons t ts ih =>
    have := h t List.mem_cons_self
    subst this
    unfold sanitizeExts
    exact ih (fun x hx => h x (List.mem_cons_of_mem _ hx))

/-- `IPNet.Contains` as an address range: same family and `lo ≤ ip < lo + 2^(width-bits)` where
`lo` is the base address with its host bits cleared. -/
theorem contains_iff_range (c : CIDR) (ip : IP) :
    c.contains ip = true ↔
      c.v4 = ip.v4 ∧ c.base / 2 ^ (c.width - c.bits) * 2 ^ (c.width - c.bits) ≤ ip.val
        ∧ ip.val < c.base / 2 ^ (c.width - c.bits) * 2 ^ (c.width - c.bits) + 2 ^ (c.width - c.bits) := by
  unfold CIDR.contains
  simp only [Bool.and_eq_true, beq_iff_eq]
  have hpos : 0 < 2 ^ (c.width - c.bits) := Nat.pow_pos (by omega)
  generalize 2 ^ (c.width - c.bits) = n at hpos
  constructor
  · rintro ⟨h1, h2⟩
    refine ⟨h1, ?_, ?_⟩
    · rw [← h2]; exact Nat.div_mul_le_self _ _
    · rw [← h2]
      have := Nat.lt_div_mul_add (a := ip.val) hpos
      omega
  · rintro ⟨h1, h2, h3⟩
    refine ⟨h1, ?_⟩
    apply Nat.le_antisymm
    · apply Nat.le_of_lt_succ
      rw [Nat.div_lt_iff_lt_mul hpos]
      rw [Nat.succ_mul]; exact h3
    · rw [Nat.le_div_iff_mul_le hpos]; exact h2

end IceProofs.Rewrite
