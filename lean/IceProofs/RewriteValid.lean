import IceProofs.Rewrite
/-!
# More lemmas for C19: validation (rules, legacy entries, the option's sanitizer), mode application,
family separation, and `IPNet.Contains` as an address range.
-/
set_option linter.unusedSimpArgs false
namespace IceProofs.Rewrite
open IceModel.Rewrite IceSpec.C19

/-! ## Validation of rules -/


theorem ext_any_none_eq (l : List IPTok) (hb : l.contains .blank = false) :
    l.any (fun t => (tokIP? t).isNone) = l.contains .bad := by
  induction l with
  | nil => rfl
  | cons t ts ih =>
    simp only [List.contains_cons, Bool.or_eq_false_iff] at hb
    simp only [List.any_cons, List.contains_cons]
    rw [ih hb.2]
    cases t with
    | ok ip => simp [tokIP?]
    | bad => simp [tokIP?]
    | blank => simp at hb

theorem tokensInvalid_eq (r : Rule) (hb : r.ext.contains .blank = false) : tokensInvalid r = illFormed r := by
  unfold tokensInvalid illFormed
  rw [ext_any_none_eq r.ext hb]
  congr 1
  cases hc : r.cidr with
  | none => cases hl : r.loc <;> simp
  | bad => cases hl : r.loc <;> simp
  | ok c =>
    have hw : (!c.wellFormed) = decide (c.bits > if c.v4 = true then 32 else 128) := by
      unfold CIDR.wellFormed CIDR.width
      by_cases h : c.bits ≤ (if c.v4 = true then 32 else 128)
      · simp [h]
      · simp [h]; omega
    cases hl : r.loc with
    | none => simp [hw]
    | bad => simp [hw]
    | ok l =>
      have : (LocTok.ok l == LocTok.bad) = false := by simp
      simp [hw, this]

theorem inert_eq (r : Rule) : (!allow4 r && !allow6 r) = inert r := by
  unfold inert; rw [allow4_eq, allow6_eq]

theorem compileRule_error_iff (r : Rule) (hb : r.ext.contains .blank = false) :
    (∃ e, compileRule r = .error e) ↔ (unsupportedRule r || (!inert r && illFormed r)) = true := by
  unfold compileRule unsupportedRule
  rw [inert_eq, tokensInvalid_eq r hb, effType_eq]
  by_cases h3 : docType r = 3
  · simp [h3]
  · cases hi : inert r <;> cases hf : illFormed r <;> simp [h3]

theorem compileRule_unsupported (r : Rule) (h : compileRule r = .error .unsupported) : unsupportedRule r = true := by
  unfold compileRule at h
  unfold unsupportedRule
  rw [← effType_eq]
  by_cases h3 : effType r = 3
  · simp [h3]
  · rw [if_neg h3] at h
    split at h
    · cases h
    · split at h <;> cases h

theorem compileAll_error_iff (rules : List Rule) (hb : ∀ r ∈ rules, r.ext.contains .blank = false) :
    (∃ e, compileAll rules = .error e) ↔ docRejects rules = true := by
  induction rules with
  | nil => simp [compileAll, docRejects]
  | cons r rs ih =>
    have hr := compileRule_error_iff r (hb r List.mem_cons_self)
    have ih' := ih (fun x hx => hb x (List.mem_cons_of_mem _ hx))
    unfold docRejects at *
    simp only [List.any_cons, Bool.or_eq_true] at *
    unfold compileAll
    cases hc : compileRule r with
    | error e =>
      have : (∃ e, compileRule r = Except.error e) := ⟨e, hc⟩
      have := hr.mp this
      simp only []
      constructor
      · intro _; left; exact this
      · intro _; exact ⟨e, rfl⟩
    | ok o =>
      have hno : ¬ (∃ e, compileRule r = Except.error e) := by
        rintro ⟨e, he⟩; rw [hc] at he; cases he
      have hno' := (not_congr hr).mp hno
      simp only []
      cases hrs : compileAll rs with
      | error e =>
        have := ih'.mp ⟨e, hrs⟩
        constructor
        · intro _; right; exact this
        · intro _; exact ⟨e, rfl⟩
      | ok l =>
        constructor
        · rintro ⟨e, he⟩; cases he
        · intro h
          rcases h with h | h
          · exact absurd h hno'
          · obtain ⟨e, he⟩ := ih'.mpr h
            rw [hrs] at he; cases he

theorem compileAll_unsupported (rules : List Rule) (h : compileAll rules = .error .unsupported) :
    ∃ r ∈ rules, unsupportedRule r = true := by
  induction rules with
  | nil => cases h
  | cons r rs ih =>
    unfold compileAll at h
    cases hc : compileRule r with
    | error e =>
      rw [hc] at h
      simp only [] at h
      injection h with h; subst h
      exact ⟨r, List.mem_cons_self, compileRule_unsupported r hc⟩
    | ok o =>
      rw [hc] at h
      simp only [] at h
      cases hrs : compileAll rs with
      | error e =>
        rw [hrs] at h
        injection h with h; subst h
        obtain ⟨x, hx, hu⟩ := ih hrs
        exact ⟨x, List.mem_cons_of_mem _ hx, hu⟩
      | ok l => rw [hrs] at h; cases h

theorem newMapper_error_iff (rules : List Rule) (e : Err) :
    newMapper rules = .error e ↔ compileAll rules = .error e := by
  unfold newMapper
  cases hc : compileAll rules with
  | error e' => simp
  | ok l => cases l <;> simp

/-! ## Legacy NAT1To1IPs entries -/


def b2n (b : Bool) : Nat := if b then 1 else 0

def single? (e : Entry) : Option IP :=
  match e with
  | [.ip a] => some a
  | _ => none

theorem legacySingles_cons (e : Entry) (es : List Entry) :
    legacySingles (e :: es) = (single? e).toList ++ legacySingles es := by
  unfold legacySingles
  rw [filterMap_cons_toList]
  rfl

/-- Shape analysis of one legacy entry. -/
theorem entry_cases (e : Entry) :
    (e = [.empty] ∧ legacyEntryOK e = true ∧ single? e = none ∧ ∀ h4 h6, validateLegacyEntry e h4 h6 = .ok (h4, h6))
    ∨ (∃ a, e = [.ip a] ∧ legacyEntryOK e = true ∧ single? e = some a)
    ∨ (∃ a b, e = [.ip a, .ip b] ∧ legacyEntryOK e = true ∧ single? e = none
        ∧ ∀ h4 h6, validateLegacyEntry e h4 h6 = .ok (h4, h6))
    ∨ (legacyEntryOK e = false ∧ ∀ h4 h6, validateLegacyEntry e h4 h6 = .error .invalid) := by
  match e with
  | [] => right; right; right; exact ⟨rfl, fun _ _ => rfl⟩
  | [.empty] => left; exact ⟨rfl, rfl, rfl, fun _ _ => rfl⟩
  | [.ip a] => right; left; exact ⟨a, rfl, rfl, rfl⟩
  | [.bad] => right; right; right; exact ⟨rfl, fun _ _ => rfl⟩
  | [.ip a, .ip b] => right; right; left; exact ⟨a, b, rfl, rfl, rfl, fun _ _ => rfl⟩
  | [.ip _, .empty] => right; right; right; exact ⟨rfl, fun _ _ => rfl⟩
  | [.ip _, .bad] => right; right; right; exact ⟨rfl, fun _ _ => rfl⟩
  | [.empty, _] => right; right; right; exact ⟨rfl, fun _ _ => rfl⟩
  | [.bad, _] => right; right; right; exact ⟨rfl, fun _ _ => rfl⟩
  | p :: q :: _ :: _ =>
    right; right; right
    cases p <;> cases q <;> exact ⟨rfl, fun _ _ => rfl⟩

theorem validateLegacyLoop_iff (es : List Entry) (h4 h6 : Bool) :
    validateLegacyLoop es h4 h6 = .ok () ↔
      (∀ e ∈ es, legacyEntryOK e = true)
      ∧ ((legacySingles es).filter (fun a => a.v4)).length + b2n h4 ≤ 1
      ∧ ((legacySingles es).filter (fun a => !a.v4)).length + b2n h6 ≤ 1 := by
  induction es generalizing h4 h6 with
  | nil => cases h4 <;> cases h6 <;> simp [validateLegacyLoop, legacySingles, b2n]
  | cons e es ih =>
    unfold validateLegacyLoop
    rw [legacySingles_cons]
    rcases entry_cases e with ⟨_, hok, hs, hv⟩ | ⟨a, he, hok, hs⟩ | ⟨a, b, _, hok, hs, hv⟩ | ⟨hbad, hv⟩
    · rw [hv, hs]; simp only [Option.toList, List.nil_append]
      rw [ih]; simp [hok]
    · subst he
      rw [hs]
      simp only [validateLegacyEntry, Option.toList, List.singleton_append, List.filter_cons]
      cases hav : a.v4
      · cases h6
        · simp only [Bool.false_eq_true, if_false]
          rw [ih]; simp [hok, b2n]
        · simp [b2n]
      · cases h4
        · simp only [Bool.false_eq_true, if_false, if_true]
          rw [ih]; simp [hok, b2n]
        · simp [b2n]
    · rw [hv, hs]; simp only [Option.toList, List.nil_append]
      rw [ih]; simp [hok]
    · rw [hv]; simp [hbad]

theorem validateLegacy_iff (es : List Entry) : validateLegacy es = .ok () ↔ legacyRejects es = false := by
  unfold validateLegacy
  rw [validateLegacyLoop_iff]
  unfold legacyRejects legacyDuplicate
  simp only [b2n, Bool.false_eq_true, if_false, Nat.add_zero, Bool.or_eq_false_iff, List.any_eq_false,
    Bool.not_eq_true', decide_eq_false_iff_not, Nat.not_lt, Bool.not_eq_false]

/-! ## Modes and families -/


/-- gather.go applies a lookup result as the documented mode semantics say. -/
theorem applyRes_eq_doc (kind : Kind) (orig : IP) (res : Res) :
    canonApply (applyRes kind orig (.ok res)) = canonApply (docApply kind orig res) := by
  obtain ⟨ips, matched, mode⟩ := res
  unfold applyRes docApply canonApply
  cases matched
  · simp
  · by_cases hm : mode = 1
    · subst hm
      cases kind <;> cases ips <;> simp
    · cases kind <;> cases ips <;> simp [hm]

/-- Where the addresses of a lookup result come from. -/
theorem lookupWith_origin (c : Clauses) (rules : List Rule) (k : Key) (x : IP)
    (hx : x ∈ (lookupWith c rules k).ips) :
    ∃ r ∈ rules, (isExplicit r k = true ∧ x ∈ externals r)
      ∨ (isCatchAllWith c r k = true ∧ x ∈ (c.caIPs r k).getD []) := by
  unfold lookupWith at hx
  cases he : rules.find? (fun r => isExplicit r k) with
  | some r =>
    rw [he] at hx
    exact ⟨r, List.mem_of_find?_eq_some he, Or.inl ⟨by simpa using List.find?_some he, hx⟩⟩
  | none =>
    rw [he] at hx
    simp only [] at hx
    cases hf : (rules.filter (fun r => isCatchAllWith c r k)).find?
        (fun r => c.rank r k == topRank c k (rules.filter (fun r => isCatchAllWith c r k))) with
    | some r =>
      rw [hf] at hx
      have hm := List.mem_of_find?_eq_some hf
      obtain ⟨hr, hc⟩ := List.mem_filter.mp hm
      exact ⟨r, hr, Or.inr ⟨hc, hx⟩⟩
    | none =>
      rw [hf] at hx
      simp [Res.noMatch] at hx

/-- An address of the other family in an as-coded lookup result is there because the rule is
pinned by `Local` to the key's address or scoped by a CIDR that contains it. -/
theorem asCoded_cross_family (rules : List Rule) (k : Key) (x : IP)
    (hx : x ∈ (lookupWith asCodedClauses rules k).ips) (hfam : x.v4 ≠ k.ip.v4) :
    ∃ r ∈ rules, IPTok.ok x ∈ r.ext ∧
      (r.loc = .ok k.ip ∨ ∃ c, r.cidr = .ok c ∧ c.contains k.ip = true) := by
  obtain ⟨r, hr, h⟩ := lookupWith_origin asCodedClauses rules k x hx
  have hext : ∀ y, y ∈ externals r → IPTok.ok y ∈ r.ext := by
    intro y hy
    unfold externals at hy
    obtain ⟨t, ht, hty⟩ := List.mem_filterMap.mp hy
    cases t with
    | ok ip => simp at hty; subst hty; exact ht
    | bad => simp at hty
    | blank => simp at hty
  rcases h with ⟨he, hxe⟩ | ⟨hc, hxc⟩
  · refine ⟨r, hr, hext x hxe, Or.inl ?_⟩
    unfold isExplicit at he
    simp only [Bool.and_eq_true, beq_iff_eq] at he
    exact he.2
  · unfold isCatchAllWith at hc
    simp only [Bool.and_eq_true] at hc
    obtain ⟨hscope, _⟩ := hc
    have hcaips : asCodedClauses.caIPs r k = catchAllIPs r k := rfl
    rw [hcaips] at hxc
    · unfold catchAllIPs at hxc
      cases hl : r.loc with
      | ok l => rw [hl] at hxc; simp at hxc
      | bad => rw [hl] at hxc; simp at hxc
      | none =>
        rw [hl] at hxc
        simp only [Bool.false_eq_true, if_false] at hxc
        by_cases hem : r.ext.isEmpty = true
        · simp [hem] at hxc
        · simp only [hem] at hxc
          by_cases hcd : hasCIDR r = true
          · simp only [hcd, if_true, Option.getD_some, Bool.false_eq_true, if_false] at hxc
            refine ⟨r, hr, hext x hxc, Or.inr ?_⟩
            unfold hasCIDR at hcd
            cases hcc : r.cidr with
            | ok c =>
              refine ⟨c, rfl, ?_⟩
              unfold inScope cidrOK at hscope
              rw [hcc] at hscope
              simp only [Bool.and_eq_true] at hscope
              exact hscope.1.2
            | none => rw [hcc] at hcd; simp at hcd
            | bad => rw [hcc] at hcd; simp at hcd
          · simp only [hcd, Bool.false_eq_true, if_false] at hxc
            split at hxc
            · simp at hxc
            · simp only [Option.getD_some] at hxc
              have := (List.mem_filter.mp hxc).2
              simp only [beq_iff_eq] at this
              exact absurd this hfam

/-! ## The sanitizer of the public option; CIDR ranges -/


/-- The loop of `sanitizeExternalIPs` fails on (and only on) an unparsable entry. -/
theorem sanitizeExtsLoop_bad (l acc : List IPTok) (hbad : l.contains .bad = true) :
    sanitizeExtsLoop l acc = .error .invalid := by
  induction l generalizing acc with
  | nil => simp at hbad
  | cons t ts ih =>
    cases t with
    | bad => rfl
    | blank =>
      unfold sanitizeExtsLoop
      apply ih
      simpa using hbad
    | ok ip =>
      unfold sanitizeExtsLoop
      have : ts.contains .bad = true := by simpa using hbad
      split <;> exact ih _ this

/-- Without an unparsable entry the loop returns the addresses of the list (and of `acc`), nothing else. -/
theorem sanitizeExtsLoop_ok (l acc : List IPTok) (hbad : l.contains .bad = false) :
    ∃ out, sanitizeExtsLoop l acc = .ok out ∧
      ∀ t, t ∈ out ↔ t ∈ acc ∨ (t ∈ l ∧ ∃ ip, t = .ok ip) := by
  induction l generalizing acc with
  | nil => exact ⟨acc.reverse, rfl, by simp⟩
  | cons t ts ih =>
    simp only [List.contains_cons, Bool.or_eq_false_iff] at hbad
    cases t with
    | bad => simp at hbad
    | blank =>
      unfold sanitizeExtsLoop
      obtain ⟨out, ho, hm⟩ := ih acc hbad.2
      refine ⟨out, ho, fun t => ?_⟩
      rw [hm t]
      constructor
      · rintro (h | ⟨h, ip, rfl⟩)
        · exact Or.inl h
        · exact Or.inr ⟨List.mem_cons_of_mem _ h, ip, rfl⟩
      · rintro (h | ⟨h, ip, rfl⟩)
        · exact Or.inl h
        · rcases List.mem_cons.mp h with h | h
          · cases h
          · exact Or.inr ⟨h, ip, rfl⟩
    | ok ip =>
      unfold sanitizeExtsLoop
      split
      · rename_i hc
        obtain ⟨out, ho, hm⟩ := ih acc hbad.2
        refine ⟨out, ho, fun t => ?_⟩
        rw [hm t]
        have hin : IPTok.ok ip ∈ acc := by simpa using hc
        constructor
        · rintro (h | ⟨h, ip', rfl⟩)
          · exact Or.inl h
          · exact Or.inr ⟨List.mem_cons_of_mem _ h, ip', rfl⟩
        · rintro (h | ⟨h, ip', rfl⟩)
          · exact Or.inl h
          · rcases List.mem_cons.mp h with h | h
            · rw [h]; exact Or.inl hin
            · exact Or.inr ⟨h, ip', rfl⟩
      · obtain ⟨out, ho, hm⟩ := ih (.ok ip :: acc) hbad.2
        refine ⟨out, ho, fun t => ?_⟩
        rw [hm t]
        constructor
        · rintro (h | ⟨h, ip', rfl⟩)
          · rcases List.mem_cons.mp h with h | h
            · subst h; exact Or.inr ⟨List.mem_cons_self, ip, rfl⟩
            · exact Or.inl h
          · exact Or.inr ⟨List.mem_cons_of_mem _ h, ip', rfl⟩
        · rintro (h | ⟨h, ip', rfl⟩)
          · exact Or.inl (List.mem_cons_of_mem _ h)
          · rcases List.mem_cons.mp h with h | h
            · rw [h]; exact Or.inl List.mem_cons_self
            · exact Or.inr ⟨h, ip', rfl⟩

/-- `sanitizeExternalIPs` accepts EXACTLY the lists without an unparsable entry that are empty or keep
at least one address; what it returns are the addresses of the list (no blank, no unparsable entry). -/
theorem sanitizeExts_ok_iff (l : List IPTok) :
    (∃ out, sanitizeExts l = .ok out) ↔ l.contains .bad = false ∧ (l = [] ∨ ∃ ip, IPTok.ok ip ∈ l) := by
  unfold sanitizeExts
  cases hb : l.contains .bad with
  | true => rw [sanitizeExtsLoop_bad l [] hb]; simp
  | false =>
    obtain ⟨out, ho, hm⟩ := sanitizeExtsLoop_ok l [] hb
    rw [ho]
    simp only [true_and]
    cases l with
    | nil => simp
    | cons t ts =>
      cases out with
      | nil =>
        simp only [List.isEmpty_nil, List.isEmpty_cons, Bool.not_false, Bool.and_self, if_true]
        constructor
        · rintro ⟨o, h⟩; cases h
        · rintro (h | ⟨ip, h⟩)
          · cases h
          · exact absurd ((hm (.ok ip)).mpr (Or.inr ⟨h, ip, rfl⟩)) (by simp)
      | cons x xs =>
        simp only [List.isEmpty_cons, Bool.false_and, Bool.false_eq_true, if_false]
        constructor
        · intro _
          right
          rcases (hm x).mp List.mem_cons_self with h | ⟨h, ip, rfl⟩
          · cases h
          · exact ⟨ip, h⟩
        · intro _; exact ⟨_, rfl⟩

theorem sanitizeExts_mem (l out : List IPTok) (h : sanitizeExts l = .ok out) :
    ∀ t, t ∈ out ↔ t ∈ l ∧ ∃ ip, t = .ok ip := by
  have hb : l.contains .bad = false := ((sanitizeExts_ok_iff l).mp ⟨out, h⟩).1
  obtain ⟨o, ho, hm⟩ := sanitizeExtsLoop_ok l [] hb
  unfold sanitizeExts at h
  rw [ho] at h
  by_cases hc : (o.isEmpty && !l.isEmpty) = true
  · simp [hc] at h
  · simp only [hc, if_false] at h
    cases h
    intro t
    rw [hm t]
    simp

/-- the empty list is accepted (and stays empty): the documented deny / no-op rule is configurable -/
theorem sanitizeExts_nil : sanitizeExts [] = .ok [] := rfl

/-- a non-empty list of blank entries only is rejected -/
theorem sanitizeExts_allBlank (l : List IPTok) (hne : l ≠ []) (h : ∀ t ∈ l, t = .blank) :
    sanitizeExts l = .error .invalid := by
  have hno : ¬ ∃ out, sanitizeExts l = .ok out := by
    rw [sanitizeExts_ok_iff]
    rintro ⟨_, h' | ⟨ip, h'⟩⟩
    · exact hne h'
    · cases h _ h'
  unfold sanitizeExts at *
  split
  · rename_i e he
    have hb : l.contains .bad = false := by
      cases hc : l.contains .bad with
      | false => rfl
      | true =>
        have : IPTok.bad ∈ l := by simpa using hc
        cases h _ this
    obtain ⟨o, ho, _⟩ := sanitizeExtsLoop_ok l [] hb
    rw [ho] at he
    cases he
  · split
    · rfl
    · rename_i out he hc
      exact absurd ⟨out, by rw [he]; simp [hc]⟩ hno

/-- `sanitizeAddressRewriteRule`: what is accepted, and what the accepted rule is. -/
theorem sanitizeRule_spec (r : Rule) :
    ((∃ r', sanitizeRule r = .ok r') ↔
      (r.ext.contains .bad = false ∧ (r.ext = [] ∨ ∃ ip, IPTok.ok ip ∈ r.ext) ∧ r.loc ≠ .bad ∧ r.mode ≤ 2))
    ∧ (∀ r', sanitizeRule r = .ok r' →
        (∀ t, t ∈ r'.ext ↔ t ∈ r.ext ∧ ∃ ip, t = .ok ip) ∧ (r.ext = [] → r'.ext = [])
        ∧ r'.mode = (if r.mode = 0 then defaultMode r.ctype else r.mode)
        ∧ r'.ctype = r.ctype ∧ r'.iface = r.iface ∧ r'.cidr = r.cidr ∧ r'.loc = r.loc ∧ r'.nets = r.nets) := by
  unfold sanitizeRule
  cases he : sanitizeExts r.ext with
  | error e =>
    have hno : ¬ (r.ext.contains .bad = false ∧ (r.ext = [] ∨ ∃ ip, IPTok.ok ip ∈ r.ext)) := by
      rw [← sanitizeExts_ok_iff]
      rintro ⟨out, ho⟩
      rw [ho] at he
      cases he
    constructor
    · constructor
      · rintro ⟨r', h⟩; cases h
      · rintro ⟨h1, h2, _⟩; exact absurd ⟨h1, h2⟩ hno
    · intro r' h; cases h
  | ok out =>
    have hok := (sanitizeExts_ok_iff r.ext).mp ⟨out, he⟩
    have hmem := sanitizeExts_mem r.ext out he
    have hnil : r.ext = [] → out = [] := by
      intro h
      rw [h] at he
      cases he
      rfl
    simp only
    by_cases hl : r.loc = .bad
    · simp [hl]
    · simp only [hl, if_false]
      by_cases h0 : r.mode = 0
      · simp only [h0, if_true]
        refine ⟨⟨fun _ => ⟨hok.1, hok.2, hl, by omega⟩, fun _ => ⟨_, rfl⟩⟩, ?_⟩
        intro r' h
        cases h
        exact ⟨hmem, hnil, rfl, rfl, rfl, rfl, rfl, rfl⟩
      · simp only [h0, if_false]
        by_cases h12 : r.mode = 1 ∨ r.mode = 2
        · simp only [h12, if_true]
          refine ⟨⟨fun _ => ⟨hok.1, hok.2, hl, by omega⟩, fun _ => ⟨_, rfl⟩⟩, ?_⟩
          intro r' h
          cases h
          exact ⟨hmem, hnil, rfl, rfl, rfl, rfl, rfl, rfl⟩
        · simp only [h12, if_false]
          constructor
          · constructor
            · rintro ⟨r', h⟩; cases h
            · rintro ⟨_, _, _, hm⟩; omega
          · intro r' h; cases h

def ruleInDomainOpt (r : Rule) : Bool :=
  !((r.ext.contains .blank && !allBlank r) || r.mode > 2 || (inert r && illFormed r))

theorem allBlank_iff (r : Rule) : allBlank r = true ↔ r.ext ≠ [] ∧ ∀ t ∈ r.ext, t = .blank := by
  unfold allBlank
  cases h : r.ext with
  | nil => simp
  | cons t ts => simp

theorem sanitizeRule_error_rejects (r : Rule) (hd : ruleInDomainOpt r = true) (e : Err)
    (h : sanitizeRule r = .error e) :
    ((unsupportedRule r || (!inert r && illFormed r)) || allBlank r) = true := by
  have hno : ¬ ∃ r', sanitizeRule r = .ok r' := by rintro ⟨r', h'⟩; rw [h'] at h; cases h
  rw [(sanitizeRule_spec r).1] at hno
  simp only [ruleInDomainOpt, Bool.not_eq_true', Bool.or_eq_false_iff, Bool.and_eq_false_iff] at hd
  obtain ⟨⟨hbl, hmode⟩, hin⟩ := hd
  have hmode : r.mode ≤ 2 := by simpa using hmode
  have hill : illFormed r = true → (!inert r && illFormed r) = true := by
    intro hi
    rcases hin with h | h
    · simp [h, hi]
    · rw [hi] at h; cases h
  by_cases hbad : r.ext.contains .bad = true
  · have : illFormed r = true := by simp only [illFormed, hbad, Bool.or_true]
    simp [hill this]
  · by_cases hloc : r.loc = .bad
    · have : illFormed r = true := by simp only [illFormed, hloc, beq_self_eq_true, Bool.or_true, Bool.true_or]
      simp [hill this]
    · have hbad' : r.ext.contains .bad = false := by simpa using hbad
      have hext : ¬ (r.ext = [] ∨ ∃ ip, IPTok.ok ip ∈ r.ext) := fun hx => hno ⟨hbad', hx, hloc, hmode⟩
      have hab : allBlank r = true := by
        rw [allBlank_iff]
        refine ⟨fun hx => hext (Or.inl hx), fun t ht => ?_⟩
        cases t with
        | blank => rfl
        | bad => exact absurd (by simpa using ht) hbad
        | ok ip => exact absurd (Or.inr ⟨ip, ht⟩) hext
      simp [hab]

theorem sanitizeRule_ok_same (r r' : Rule) (h : sanitizeRule r = .ok r') :
    r'.ext.contains .blank = false ∧ allBlank r = false
    ∧ (unsupportedRule r' || (!inert r' && illFormed r')) = (unsupportedRule r || (!inert r && illFormed r)) := by
  obtain ⟨hmem, _, _, hct, _, hci, hlo, hne⟩ := (sanitizeRule_spec r).2 r' h
  obtain ⟨hbad, hext, _, _⟩ := (sanitizeRule_spec r).1.mp ⟨r', h⟩
  have hb1 : r'.ext.contains .blank = false := by
    cases hc : r'.ext.contains .blank with
    | false => rfl
    | true =>
      have : IPTok.blank ∈ r'.ext := by simpa using hc
      obtain ⟨_, ip, hip⟩ := (hmem _).mp this
      cases hip
  have hb2 : r'.ext.contains .bad = false := by
    cases hc : r'.ext.contains .bad with
    | false => rfl
    | true =>
      have : IPTok.bad ∈ r'.ext := by simpa using hc
      obtain ⟨_, ip, hip⟩ := (hmem _).mp this
      cases hip
  have hab : allBlank r = false := by
    cases hc : allBlank r with
    | false => rfl
    | true =>
      obtain ⟨hne', hall⟩ := (allBlank_iff r).mp hc
      rcases hext with hx | ⟨ip, hx⟩
      · exact absurd hx hne'
      · cases hall _ hx
  refine ⟨hb1, hab, ?_⟩
  have h1 : unsupportedRule r' = unsupportedRule r := by simp [unsupportedRule, docType, hct]
  have h2 : inert r' = inert r := by simp [inert, netsAllow, hne]
  have h3 : illFormed r' = illFormed r := by unfold illFormed; rw [hci, hlo, hbad, hb2]
  rw [h1, h2, h3]

theorem sanitizeAll_spec (rules : List Rule) (ho : outsideDomainOn .option rules = false) :
    (∀ e, sanitizeAll rules = .error e → optionRejects rules = true) ∧
    (∀ clean, sanitizeAll rules = .ok clean →
      clean.all (fun r => !r.ext.contains .blank) = true ∧ rules.any allBlank = false ∧ docRejects clean = docRejects rules) := by
  induction rules with
  | nil =>
    constructor
    · intro e h; cases h
    · intro clean h; cases h; simp [docRejects]
  | cons r rs ih =>
    have hr : ruleInDomainOpt r = true := by
      simp only [outsideDomainOn, List.any_cons, Bool.or_eq_false_iff] at ho
      simp only [ruleInDomainOpt, Bool.not_eq_true']
      simpa using ho.1
    have hrs : outsideDomainOn .option rs = false := by
      simp only [outsideDomainOn, List.any_cons, Bool.or_eq_false_iff] at ho
      exact ho.2
    obtain ⟨ih1, ih2⟩ := ih hrs
    unfold sanitizeAll
    cases h1 : sanitizeRule r with
    | error e =>
      constructor
      · intro e' _
        have := sanitizeRule_error_rejects r hr e h1
        simp only [optionRejects, docRejects, List.any_cons]
        simp only [Bool.or_eq_true] at this ⊢
        rcases this with h | h
        · exact Or.inl (Or.inl h)
        · exact Or.inr (Or.inl h)
      · intro clean h; cases h
    | ok r' =>
      obtain ⟨hb, hab, hsame⟩ := sanitizeRule_ok_same r r' h1
      cases h2 : sanitizeAll rs with
      | error e =>
        constructor
        · intro e' _
          have := ih1 e h2
          simp only [optionRejects, docRejects, List.any_cons, Bool.or_eq_true] at this ⊢
          rcases this with h | h
          · exact Or.inl (Or.inr h)
          · exact Or.inr (Or.inr h)
        · intro clean h; cases h
      | ok l =>
        obtain ⟨i1, i2, i3⟩ := ih2 l h2
        constructor
        · intro e h; cases h
        · intro clean h
          cases h
          refine ⟨?_, ?_, ?_⟩
          · simp only [List.all_cons, Bool.and_eq_true] at i1 ⊢
            exact ⟨by rw [hb]; rfl, i1⟩
          · simp [List.any_cons, hab, i2]
          · simp only [docRejects, List.any_cons] at i3 ⊢
            rw [hsame, i3]

/-- `IPNet.Contains` as an address range: same family and `lo ≤ ip < lo + 2^(width-bits)` where
`lo` is the base address with its host bits cleared. -/
theorem contains_iff_range (c : CIDR) (ip : IP) :
    c.contains ip = true ↔
      c.v4 = ip.v4 ∧ c.base / 2 ^ (c.width - c.bits) * 2 ^ (c.width - c.bits) ≤ ip.val
        ∧ ip.val < c.base / 2 ^ (c.width - c.bits) * 2 ^ (c.width - c.bits) + 2 ^ (c.width - c.bits) := by
  unfold CIDR.contains
  simp only [Bool.and_eq_true, beq_iff_eq]
  have hpos : 0 < 2 ^ (c.width - c.bits) := Nat.pow_pos (by omega)
  generalize 2 ^ (c.width - c.bits) = n at hpos
  constructor
  · rintro ⟨h1, h2⟩
    refine ⟨h1, ?_, ?_⟩
    · rw [← h2]; exact Nat.div_mul_le_self _ _
    · rw [← h2]
      have := Nat.lt_div_mul_add (a := ip.val) hpos
      omega
  · rintro ⟨h1, h2, h3⟩
    refine ⟨h1, ?_⟩
    apply Nat.le_antisymm
    · apply Nat.le_of_lt_succ
      rw [Nat.div_lt_iff_lt_mul hpos]
      rw [Nat.succ_mul]; exact h3
    · rw [Nat.le_div_iff_mul_le hpos]; exact h2

end IceProofs.Rewrite
