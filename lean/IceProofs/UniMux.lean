import IceProofs.UdpMuxSim
import IceModel.UniMux
/-!
Lemmas about the model of `UniversalUDPMuxDefault` (`IceModel.UniMux`):

* the layer never touches the embedded mux — the embedded mux's state after any run is the state of the
  plain mux model after the projected run (`run_base`), and the delivery part of every output is the plain
  mux's output (`step_main`);
* the interception rule in closed form (`tap_learned_iff`, `tap_xmap_other`, `tap_woke`);
* the invariant `XInv` of the layer's own state (table keys canonical and recorded in `started`, entries
  never disappear, pending ⇔ channel open, every blocked call hangs on the pending entry of its server with
  its timer in the future) and its preservation;
* `started` in terms of the history (`mem_started_iff`).
-/
namespace IceProofs.UniMux
open IceModel.UdpMux IceModel.UniMux IceProofs.UdpMux

/-! ## the embedded mux -/

theorem wakeAll_fst (m : UMux) (a : Addr) (r : WRes) (i : Nat) :
    (wakeAll m a r).1 i = if i < m.nwaiters ∧ (m.waiter i).res = none ∧ (m.waiter i).srv = a
      then { m.waiter i with res := some r } else m.waiter i := rfl

theorem wakeAll_snd (m : UMux) (a : Addr) (r : WRes) : (wakeAll m a r).2 = (blockedOn m a).map (fun i => (i, r)) := rfl

/-- `tap` in projection form -/
def tapW (m : UMux) (a : Addr) (e : XEntry) (v : Nat) : (Nat → Waiter) × List (Nat × WRes) :=
  if e.signalled then (m.waiter, []) else wakeAll m a (.ok v)

theorem tap_eq (m : UMux) (src : Addr) (k : Kind) (x : XView) :
    tap m src k x =
      if !decodable k then (m, {}) else
      match x.xa, m.xmap (canonAddr src) with
      | .value v, some e =>
        ({ m with xmap := setX m.xmap (canonAddr src) (some { e with addr := some v, signalled := true }),
                  waiter := (tapW m (canonAddr src) e v).1 },
         { learned := some (canonAddr src, v), woke := (tapW m (canonAddr src) e v).2 })
      | _, _ => (m, {}) := by
  unfold tap tapW
  by_cases hd : (!decodable k) = true
  · rw [if_pos hd, if_pos hd]
  · rw [if_neg hd, if_neg hd]
    dsimp only []
    cases x.xa with
    | absent => rfl
    | malformed => rfl
    | value v =>
      cases m.xmap (canonAddr src) with
      | none => rfl
      | some e => cases e.signalled <;> rfl

theorem tap_base (m : UMux) (src : Addr) (k : Kind) (x : XView) : (tap m src k x).1.base = m.base := by
  rw [tap_eq]
  split
  · rfl
  · split <;> rfl

theorem inbound_eq (m : UMux) (src : Addr) (k : Kind) (x : XView) (pid : Nat) :
    IceModel.UniMux.inbound m src k x pid =
      if m.base.closed then (m, { main := .base .dropped }) else
      ({ (tap m src k x).1 with base := (IceModel.UdpMux.inbound (tap m src k x).1.base src k pid).1 },
       { main := .base (IceModel.UdpMux.inbound (tap m src k x).1.base src k pid).2, fx := (tap m src k x).2 }) := rfl

theorem inbound_closed (b : Mux) (src : Addr) (k : Kind) (pid : Nat) (h : b.closed = true) :
    IceModel.UdpMux.inbound b src k pid = (b, .dropped) := by
  unfold IceModel.UdpMux.inbound
  rw [if_pos h]

theorem inbound_base (m : UMux) (src : Addr) (k : Kind) (x : XView) (pid : Nat) :
    (IceModel.UniMux.inbound m src k x pid).1.base = (IceModel.UdpMux.inbound m.base src k pid).1 := by
  rw [inbound_eq]
  rcases Bool.eq_false_or_eq_true m.base.closed with h | h
  · rw [if_pos h, inbound_closed _ _ _ _ h]
  · rw [if_neg (by simp [h])]
    simp only [tap_base]

theorem inbound_main (m : UMux) (src : Addr) (k : Kind) (x : XView) (pid : Nat) :
    (IceModel.UniMux.inbound m src k x pid).2.main = .base (IceModel.UdpMux.inbound m.base src k pid).2 := by
  rw [inbound_eq]
  rcases Bool.eq_false_or_eq_true m.base.closed with h | h
  · rw [if_pos h, inbound_closed _ _ _ _ h]
  · rw [if_neg (by simp [h])]
    simp only [tap_base]

/-- `cached` in projection form -/
def cachedW (m : UMux) (a : Addr) (e : XEntry) : (Nat → Waiter) × List (Nat × WRes) :=
  if e.signalled then (m.waiter, []) else wakeAll m a .noMap

theorem cached_eq (m : UMux) (a : Addr) :
    cached m a =
      match m.xmap a with
      | none => (m, [], none)
      | some e =>
        if e.expiresAt < m.now then
          ({ m with xmap := setX m.xmap a none, waiter := (cachedW m a e).1 }, (cachedW m a e).2, none)
        else (m, [], e.addr) := by
  unfold cached cachedW
  cases m.xmap a with
  | none => rfl
  | some e =>
    dsimp only []

theorem cached_base (m : UMux) (a : Addr) : (cached m a).1.base = m.base := by
  rw [cached_eq]
  split
  · rfl
  · split <;> rfl

theorem cached_now (m : UMux) (a : Addr) : (cached m a).1.now = m.now := by
  rw [cached_eq]
  split
  · rfl
  · split <;> rfl

theorem cached_ttl (m : UMux) (a : Addr) : (cached m a).1.ttl = m.ttl := by
  rw [cached_eq]
  split
  · rfl
  · split <;> rfl

theorem cached_started (m : UMux) (a : Addr) : (cached m a).1.started = m.started := by
  rw [cached_eq]
  split
  · rfl
  · split <;> rfl

theorem cached_nwaiters (m : UMux) (a : Addr) : (cached m a).1.nwaiters = m.nwaiters := by
  rw [cached_eq]
  split
  · rfl
  · split <;> rfl

/-- the entry `writeSTUN` leaves in the table -/
def withEntry (m : UMux) (a : Addr) : UMux :=
  match m.xmap a with
  | some _ => m
  | none => { m with xmap := setX m.xmap a (some { addr := none, signalled := false, expiresAt := m.now + m.ttl }),
                     started := if a ∈ m.started then m.started else m.started ++ [a] }

theorem withEntry_base (m : UMux) (a : Addr) : (withEntry m a).base = m.base := by
  unfold withEntry; split <;> rfl

theorem withEntry_now (m : UMux) (a : Addr) : (withEntry m a).now = m.now := by
  unfold withEntry; split <;> rfl

theorem withEntry_nwaiters (m : UMux) (a : Addr) : (withEntry m a).nwaiters = m.nwaiters := by
  unfold withEntry; split <;> rfl

theorem withEntry_waiter (m : UMux) (a : Addr) : (withEntry m a).waiter = m.waiter := by
  unfold withEntry; split <;> rfl

/-- `xorStart` in projection form -/
theorem xorStart_eq (m : UMux) (srv : Addr) (d : Nat) :
    xorStart m srv d =
      let a := canonAddr srv
      let w := m.nwaiters
      let m1 := (cached m a).1
      let woke := (cached m a).2.1
      match (cached m a).2.2 with
      | some v =>
        ({ m1 with nwaiters := w + 1, waiter := upd m1.waiter w { srv := a, deadlineAt := m1.now + d, res := some (.ok v) } },
         { main := .started w false, fx := { woke := woke ++ [(w, .ok v)] } })
      | none =>
        let m2 := withEntry m1 a
        if m2.base.closed then
          ({ m2 with nwaiters := w + 1, waiter := upd m2.waiter w { srv := a, deadlineAt := m2.now + d, res := some .writeErr } },
           { main := .started w false, fx := { woke := woke ++ [(w, .writeErr)] } })
        else if d = 0 then
          ({ m2 with nwaiters := w + 1, nreqs := m2.nreqs + 1,
                     waiter := upd m2.waiter w { srv := a, deadlineAt := m2.now, res := some .timeout } },
           { main := .started w true, fx := { woke := woke ++ [(w, .timeout)] } })
        else
          ({ m2 with nwaiters := w + 1, nreqs := m2.nreqs + 1,
                     waiter := upd m2.waiter w { srv := a, deadlineAt := m2.now + d, res := none } },
           { main := .started w true, fx := { woke := woke } }) := by
  unfold xorStart withEntry
  rcases hc : cached m (canonAddr srv) with ⟨m1, woke, hit⟩
  rfl

theorem xorStart_base (m : UMux) (srv : Addr) (d : Nat) : (xorStart m srv d).1.base = m.base := by
  rw [xorStart_eq]
  simp only []
  split
  · exact cached_base m _
  · split
    · show (withEntry _ _).base = _
      rw [withEntry_base, cached_base]
    · split
      · show (withEntry _ _).base = _
        rw [withEntry_base, cached_base]
      · show (withEntry _ _).base = _
        rw [withEntry_base, cached_base]

theorem step_base (m : UMux) (op : UOp) :
    (IceModel.UniMux.step m op).1.base = (IceModel.UdpMux.run m.base (proj op)).1 := by
  cases op with
  | base op =>
    cases op with
    | inbound src k pid => exact inbound_base m src k _ pid
    | getConn u v6 => rfl
    | writeTo h dst => rfl
    | removeByUfrag u => rfl
    | closeHandle h => rfl
    | watcherRun c => rfl
    | closeMux => rfl
    | read h => rfl
  | inbound src k x pid => exact inbound_base m src k x pid
  | getConnForURL u url v6 => rfl
  | xorStart srv d => exact xorStart_base m srv d
  | tick dt => rfl

theorem run_cons (m : UMux) (op : UOp) (ops : List UOp) :
    IceModel.UniMux.run m (op :: ops) =
      ((IceModel.UniMux.run (IceModel.UniMux.step m op).1 ops).1,
       (op, (IceModel.UniMux.step m op).2) :: (IceModel.UniMux.run (IceModel.UniMux.step m op).1 ops).2) := rfl

theorem base_run_append (b : Mux) (l1 l2 : List Op) :
    (IceModel.UdpMux.run b (l1 ++ l2)).1 = (IceModel.UdpMux.run (IceModel.UdpMux.run b l1).1 l2).1 := by
  induction l1 generalizing b with
  | nil => rfl
  | cons op l1 ih =>
    show (IceModel.UdpMux.run b (op :: (l1 ++ l2))).1 = _
    rw [IceProofs.UdpMux.run_cons, IceProofs.UdpMux.run_cons]
    exact ih _

/-- **The layer never touches the embedded mux**: after any run its state is the plain mux model's state
after the projected run. -/
theorem run_base (ops : List UOp) (m : UMux) :
    (IceModel.UniMux.run m ops).1.base = (IceModel.UdpMux.run m.base (projAll ops)).1 := by
  induction ops generalizing m with
  | nil => rfl
  | cons op ops ih =>
    rw [run_cons]
    show (IceModel.UniMux.run _ ops).1.base = (IceModel.UdpMux.run m.base (proj op ++ projAll ops)).1
    rw [ih, base_run_append, step_base]

/-! ## the interception rule in closed form -/

/-- what the layer takes: exactly the decodable STUN messages carrying a well-formed XOR-MAPPED-ADDRESS whose
canonical source has a table entry — whatever their class, transaction id, and the state of the entry -/
theorem tap_learned_iff (m : UMux) (src : Addr) (k : Kind) (x : XView) (a : Addr) (v : Nat) :
    (tap m src k x).2.learned = some (a, v) ↔
      decodable k = true ∧ x.xa = .value v ∧ a = canonAddr src ∧ (m.xmap (canonAddr src)).isSome = true := by
  rw [tap_eq]
  cases hd : decodable k
  · simp
  · simp only [Bool.not_true, Bool.false_eq_true, if_false, true_and]
    cases hx : x.xa with
    | absent => simp
    | malformed => simp
    | value v' =>
      cases he : m.xmap (canonAddr src) with
      | none => simp
      | some e =>
        simp only [Option.some.injEq, Prod.mk.injEq, XA.value.injEq, Option.isSome_some, and_true]
        constructor
        · rintro ⟨h1, h2⟩; exact ⟨h2, h1.symm⟩
        · rintro ⟨h1, h2⟩; exact ⟨h2.symm, h1⟩

/-- nothing is taken ⇒ the layer's state is untouched -/
theorem tap_none (m : UMux) (src : Addr) (k : Kind) (x : XView) (h : (tap m src k x).2.learned = none) :
    tap m src k x = (m, {}) := by
  rw [tap_eq] at h ⊢
  by_cases hd : (!decodable k) = true
  · rw [if_pos hd]
  · rw [if_neg hd] at h ⊢
    cases hx : x.xa with
    | absent => rfl
    | malformed => rfl
    | value v =>
      cases he : m.xmap (canonAddr src) with
      | none => rfl
      | some e => rw [hx, he] at h; cases h

theorem tap_xmap_other (m : UMux) (src : Addr) (k : Kind) (x : XView) (b : Addr) (hb : b ≠ canonAddr src) :
    (tap m src k x).1.xmap b = m.xmap b := by
  rw [tap_eq]
  split
  · rfl
  · split
    · simp only [setX, if_neg hb]
    · rfl

theorem tap_xmap_self (m : UMux) (src : Addr) (k : Kind) (x : XView) (v : Nat)
    (h : (tap m src k x).2.learned = some (canonAddr src, v)) :
    ∃ e, m.xmap (canonAddr src) = some e ∧
      (tap m src k x).1.xmap (canonAddr src) = some { e with addr := some v, signalled := true } := by
  rw [tap_eq] at h ⊢
  by_cases hd : (!decodable k) = true
  · rw [if_pos hd] at h; cases h
  · rw [if_neg hd] at h ⊢
    cases hx : x.xa with
    | absent => rw [hx] at h; cases h
    | malformed => rw [hx] at h; cases h
    | value v' =>
      cases he : m.xmap (canonAddr src) with
      | none => rw [hx, he] at h; cases h
      | some e =>
        rw [hx, he] at h
        simp only [Option.some.injEq, Prod.mk.injEq, true_and] at h
        subst h
        exact ⟨e, rfl, by simp [setX]⟩

theorem tap_started (m : UMux) (src : Addr) (k : Kind) (x : XView) : (tap m src k x).1.started = m.started := by
  rw [tap_eq]; split
  · rfl
  · split <;> rfl

theorem tap_now (m : UMux) (src : Addr) (k : Kind) (x : XView) : (tap m src k x).1.now = m.now := by
  rw [tap_eq]; split
  · rfl
  · split <;> rfl

theorem tap_nwaiters (m : UMux) (src : Addr) (k : Kind) (x : XView) : (tap m src k x).1.nwaiters = m.nwaiters := by
  rw [tap_eq]; split
  · rfl
  · split <;> rfl

/-! ## invariant of the layer's own state -/

/-- the invariant, with the entry of `a` possibly missing (the state between `cachedXORMappedAddr` and
`writeSTUN` inside one call) -/
structure XInvX (x : Option Addr) (m : UMux) : Prop where
  /-- table keys are canonical addresses recorded in `started` -/
  key : ∀ a e, m.xmap a = some e → canonAddr a = a ∧ a ∈ m.started
  /-- entries never disappear -/
  ent : ∀ a, a ∈ m.started → some a ≠ x → (m.xmap a).isSome = true
  /-- pending ⇔ the channel is open -/
  pend : ∀ a e, m.xmap a = some e → (e.addr = none ↔ e.signalled = false)
  /-- a blocked call hangs on the pending entry of its server, its timer in the future -/
  blocked : ∀ i, i < m.nwaiters → (m.waiter i).res = none →
    (∃ e, m.xmap (m.waiter i).srv = some e ∧ e.signalled = false) ∧ m.now < (m.waiter i).deadlineAt

abbrev XInv (m : UMux) : Prop := XInvX none m

theorem xinv_init (ttl : Nat) : XInv (IceModel.UniMux.init ttl) :=
  { key := fun a e h => by cases h
    ent := fun a h => by cases h
    pend := fun a e h => by cases h
    blocked := fun i h => absurd h (Nat.not_lt_zero i) }

theorem xinv_congr {x : Option Addr} (m m' : UMux) (h1 : m'.xmap = m.xmap) (h2 : m'.started = m.started) (h3 : m'.now = m.now)
    (h4 : m'.nwaiters = m.nwaiters) (h5 : m'.waiter = m.waiter) (hi : XInvX x m) : XInvX x m' :=
  { key := by rw [h1, h2]; exact hi.key
    ent := by rw [h1, h2]; exact hi.ent
    pend := by rw [h1]; exact hi.pend
    blocked := by rw [h1, h3, h4, h5]; exact hi.blocked }

theorem xinv_tap (m : UMux) (hi : XInv m) (src : Addr) (k : Kind) (x : XView) : XInv (tap m src k x).1 := by
  rw [tap_eq]
  by_cases hd : (!decodable k) = true
  · rw [if_pos hd]; exact hi
  · rw [if_neg hd]
    cases hx : x.xa with
    | absent => exact hi
    | malformed => exact hi
    | value v =>
      cases he : m.xmap (canonAddr src) with
      | none => exact hi
      | some e =>
        dsimp only []
        refine { key := ?_, ent := ?_, pend := ?_, blocked := ?_ }
        · intro a e' h
          dsimp only [] at h ⊢
          by_cases ha : a = canonAddr src
          · subst ha; exact hi.key _ e he
          · rw [setX, if_neg ha] at h; exact hi.key a e' h
        · intro a h _
          dsimp only [] at h ⊢
          by_cases ha : a = canonAddr src
          · simp [setX, ha]
          · rw [setX, if_neg ha]; exact hi.ent a h (by simp)
        · intro a e' h
          dsimp only [] at h
          by_cases ha : a = canonAddr src
          · rw [setX, if_pos ha] at h
            injection h with h; subst h
            simp
          · rw [setX, if_neg ha] at h; exact hi.pend a e' h
        · intro i hn hr
          dsimp only [] at hn hr ⊢
          -- the call is still blocked: it was blocked before, on another server
          have key : (m.waiter i).res = none ∧ (m.waiter i).srv ≠ canonAddr src ∧ (tapW m (canonAddr src) e v).1 i = m.waiter i := by
            unfold tapW at hr ⊢
            rcases Bool.eq_false_or_eq_true e.signalled with hs | hs
            · rw [if_pos hs] at hr ⊢
              refine ⟨hr, ?_, rfl⟩
              intro hsrv
              obtain ⟨⟨e', h1, h2⟩, _⟩ := hi.blocked i hn hr
              rw [hsrv, he] at h1
              injection h1 with h1; subst h1
              rw [hs] at h2; cases h2
            · rw [if_neg (by simp [hs])] at hr ⊢
              rw [wakeAll_fst] at hr ⊢
              by_cases hc : i < m.nwaiters ∧ (m.waiter i).res = none ∧ (m.waiter i).srv = canonAddr src
              · rw [if_pos hc] at hr; cases hr
              · rw [if_neg hc] at hr ⊢
                exact ⟨hr, fun hsrv => hc ⟨hn, hr, hsrv⟩, rfl⟩
          obtain ⟨k1, k2, k3⟩ := key
          rw [k3]
          obtain ⟨⟨e', h1, h2⟩, h3⟩ := hi.blocked i hn k1
          exact ⟨⟨e', by rw [setX, if_neg k2]; exact h1, h2⟩, h3⟩

theorem cached_hit (m : UMux) (a : Addr) (v : Nat) (h : (cached m a).2.2 = some v) :
    (cached m a).1 = m ∧ (cached m a).2.1 = [] ∧ ∃ e, m.xmap a = some e ∧ e.addr = some v := by
  rw [cached_eq] at h ⊢
  cases he : m.xmap a with
  | none => rw [he] at h; cases h
  | some e =>
    rw [he] at h
    dsimp only [] at h ⊢
    by_cases hx : e.expiresAt < m.now
    · rw [if_pos hx] at h; cases h
    · rw [if_neg hx] at h ⊢
      exact ⟨rfl, rfl, e, rfl, h⟩

/-- after `cachedXORMappedAddr` without a hit: the invariant with the entry of `a` possibly missing, and what
is left at `a` is a pending entry -/
theorem xinv_cached (m : UMux) (hi : XInv m) (a : Addr) (h : (cached m a).2.2 = none) :
    XInvX (some a) (cached m a).1 ∧
      ((cached m a).1.xmap a = none ∨ ∃ e, (cached m a).1.xmap a = some e ∧ e.signalled = false) := by
  rw [cached_eq] at h ⊢
  have weaken : XInvX (some a) m :=
    { key := hi.key, ent := fun b hb _ => hi.ent b hb (by simp), pend := hi.pend, blocked := hi.blocked }
  cases he : m.xmap a with
  | none => exact ⟨weaken, Or.inl he⟩
  | some e =>
    rw [he] at h
    dsimp only [] at h ⊢
    by_cases hx : e.expiresAt < m.now
    · rw [if_pos hx]
      refine ⟨{ key := ?_, ent := ?_, pend := ?_, blocked := ?_ }, Or.inl (by simp [setX])⟩
      · intro b e' hb
        dsimp only [] at hb ⊢
        by_cases hba : b = a
        · rw [setX, if_pos hba] at hb; cases hb
        · rw [setX, if_neg hba] at hb; exact hi.key b e' hb
      · intro b hb hne
        dsimp only [] at hb ⊢
        have hba : b ≠ a := fun e => hne (by rw [e])
        rw [setX, if_neg hba]; exact hi.ent b hb (by simp)
      · intro b e' hb
        dsimp only [] at hb
        by_cases hba : b = a
        · rw [setX, if_pos hba] at hb; cases hb
        · rw [setX, if_neg hba] at hb; exact hi.pend b e' hb
      · intro i hn hr
        dsimp only [] at hn hr ⊢
        have key : (m.waiter i).res = none ∧ (m.waiter i).srv ≠ a ∧ (cachedW m a e).1 i = m.waiter i := by
          unfold cachedW at hr ⊢
          rcases Bool.eq_false_or_eq_true e.signalled with hs | hs
          · rw [if_pos hs] at hr ⊢
            refine ⟨hr, ?_, rfl⟩
            intro hsrv
            obtain ⟨⟨e', h1, h2⟩, _⟩ := hi.blocked i hn hr
            rw [hsrv, he] at h1
            injection h1 with h1; subst h1
            rw [hs] at h2; cases h2
          · rw [if_neg (by simp [hs])] at hr ⊢
            rw [wakeAll_fst] at hr ⊢
            by_cases hc : i < m.nwaiters ∧ (m.waiter i).res = none ∧ (m.waiter i).srv = a
            · rw [if_pos hc] at hr; cases hr
            · rw [if_neg hc] at hr ⊢
              exact ⟨hr, fun hsrv => hc ⟨hn, hr, hsrv⟩, rfl⟩
        obtain ⟨k1, k2, k3⟩ := key
        rw [k3]
        obtain ⟨⟨e', h1, h2⟩, h3⟩ := hi.blocked i hn k1
        exact ⟨⟨e', by rw [setX, if_neg k2]; exact h1, h2⟩, h3⟩
    · rw [if_neg hx] at h ⊢
      exact ⟨weaken, Or.inr ⟨e, he, (hi.pend a e he).mp h⟩⟩

/-- `writeSTUN` restores the invariant and leaves a pending entry at `a` -/
theorem xinv_withEntry (m : UMux) (a : Addr) (hc : canonAddr a = a) (hi : XInvX (some a) m)
    (hp : m.xmap a = none ∨ ∃ e, m.xmap a = some e ∧ e.signalled = false) :
    XInv (withEntry m a) ∧ ∃ e, (withEntry m a).xmap a = some e ∧ e.signalled = false := by
  unfold withEntry
  cases he : m.xmap a with
  | some e =>
    dsimp only []
    rcases hp with hp | ⟨e', hp, hs⟩
    · rw [he] at hp; cases hp
    · rw [he] at hp; injection hp with hp; subst hp
      refine ⟨{ key := hi.key, ent := ?_, pend := hi.pend, blocked := hi.blocked }, e, he, hs⟩
      intro b hb _
      by_cases hba : b = a
      · rw [hba, he]; rfl
      · exact hi.ent b hb (fun e => hba (Option.some.inj e))
  | none =>
    dsimp only []
    refine ⟨{ key := ?_, ent := ?_, pend := ?_, blocked := ?_ },
      { addr := none, signalled := false, expiresAt := m.now + m.ttl }, by simp [setX], rfl⟩
    · intro b e' hb
      dsimp only [] at hb ⊢
      by_cases hba : b = a
      · subst hba
        refine ⟨hc, ?_⟩
        split
        · assumption
        · simp
      · rw [setX, if_neg hba] at hb
        obtain ⟨k1, k2⟩ := hi.key b e' hb
        refine ⟨k1, ?_⟩
        split
        · exact k2
        · exact List.mem_append_left _ k2
    · intro b hb _
      dsimp only [] at hb ⊢
      by_cases hba : b = a
      · simp [setX, hba]
      · rw [setX, if_neg hba]
        have hb' : b ∈ m.started := by
          split at hb
          · exact hb
          · rcases List.mem_append.mp hb with h | h
            · exact h
            · simp at h; exact absurd h hba
        exact hi.ent b hb' (fun e => hba (Option.some.inj e))
    · intro b e' hb
      dsimp only [] at hb
      by_cases hba : b = a
      · rw [setX, if_pos hba] at hb
        injection hb with hb; subst hb
        simp
      · rw [setX, if_neg hba] at hb; exact hi.pend b e' hb
    · intro i hn hr
      dsimp only [] at hn hr ⊢
      obtain ⟨⟨e', h1, h2⟩, h3⟩ := hi.blocked i hn hr
      have hne : (m.waiter i).srv ≠ a := fun e => by rw [e, he] at h1; cases h1
      exact ⟨⟨e', by rw [setX, if_neg hne]; exact h1, h2⟩, h3⟩

/-- registering one more call: it has returned, or it blocks on a pending entry with a positive deadline -/
theorem xinv_addWaiter (m : UMux) (hi : XInv m) (w : Waiter)
    (hw : w.res = none → (∃ e, m.xmap w.srv = some e ∧ e.signalled = false) ∧ m.now < w.deadlineAt)
    (m' : UMux) (h1 : m'.xmap = m.xmap) (h2 : m'.started = m.started) (h3 : m'.now = m.now)
    (h4 : m'.nwaiters = m.nwaiters + 1) (h5 : m'.waiter = upd m.waiter m.nwaiters w) : XInv m' :=
  { key := by rw [h1, h2]; exact hi.key
    ent := by rw [h1, h2]; exact hi.ent
    pend := by rw [h1]; exact hi.pend
    blocked := by
      rw [h1, h3, h4, h5]
      intro i hn hr
      by_cases hiw : i = m.nwaiters
      · subst hiw
        rw [upd_apply, if_pos rfl] at hr ⊢
        exact hw hr
      · rw [upd_ne _ _ hiw] at hr ⊢
        exact hi.blocked i (by omega) hr }

theorem xinv_xorStart (m : UMux) (hi : XInv m) (srv : Addr) (d : Nat) : XInv (xorStart m srv d).1 := by
  rw [xorStart_eq]
  dsimp only []
  cases hh : (cached m (canonAddr srv)).2.2 with
  | some v =>
    dsimp only []
    obtain ⟨k1, _, _⟩ := cached_hit m _ v hh
    rw [k1]
    exact xinv_addWaiter m hi { srv := canonAddr srv, deadlineAt := m.now + d, res := some (.ok v) }
      (fun h => by cases h) _ rfl rfl rfl rfl rfl
  | none =>
    dsimp only []
    obtain ⟨i1, i2⟩ := xinv_cached m hi _ hh
    obtain ⟨j1, e, j2, j3⟩ := xinv_withEntry _ _ (canonAddr_idem srv) i1 i2
    have hnw : (withEntry (cached m (canonAddr srv)).1 (canonAddr srv)).nwaiters = m.nwaiters := by
      rw [withEntry_nwaiters, cached_nwaiters]
    split
    · exact xinv_addWaiter _ j1 { srv := canonAddr srv, deadlineAt := _, res := some .writeErr }
        (fun h => by cases h) _ rfl rfl rfl (by rw [hnw]) (by rw [hnw])
    · split
      · exact xinv_addWaiter _ j1 { srv := canonAddr srv, deadlineAt := _, res := some .timeout }
          (fun h => by cases h) _ rfl rfl rfl (by rw [hnw]) (by rw [hnw])
      · next hd =>
        exact xinv_addWaiter _ j1
          { srv := canonAddr srv, deadlineAt := (withEntry (cached m (canonAddr srv)).1 (canonAddr srv)).now + d, res := none }
          (fun _ => ⟨⟨e, j2, j3⟩, by show _ < _ + d; omega⟩) _ rfl rfl rfl (by rw [hnw]) (by rw [hnw])

theorem xinv_tick (m : UMux) (hi : XInv m) (dt : Nat) : XInv (tick m dt).1 := by
  unfold tick
  refine { key := hi.key, ent := hi.ent, pend := hi.pend, blocked := ?_ }
  intro i hn hr
  dsimp only [] at hn hr ⊢
  by_cases hc : i < m.nwaiters ∧ (m.waiter i).res = none ∧ (m.waiter i).deadlineAt ≤ m.now + dt
  · rw [if_pos hc] at hr; cases hr
  · rw [if_neg hc] at hr ⊢
    obtain ⟨k1, _⟩ := hi.blocked i hn hr
    exact ⟨k1, by have : ¬ (m.waiter i).deadlineAt ≤ m.now + dt := fun h => hc ⟨hn, hr, h⟩; omega⟩

theorem xinv_inbound (m : UMux) (hi : XInv m) (src : Addr) (k : Kind) (x : XView) (pid : Nat) :
    XInv (IceModel.UniMux.inbound m src k x pid).1 := by
  rw [inbound_eq]
  split
  · exact hi
  · exact xinv_congr (tap m src k x).1 _ rfl rfl rfl rfl rfl (xinv_tap m hi src k x)

theorem xinv_step (m : UMux) (hi : XInv m) (op : UOp) : XInv (IceModel.UniMux.step m op).1 := by
  cases op with
  | base op =>
    cases op with
    | inbound src k pid => exact xinv_inbound m hi src k _ pid
    | getConn u v6 => exact xinv_congr m _ rfl rfl rfl rfl rfl hi
    | writeTo h dst => exact xinv_congr m _ rfl rfl rfl rfl rfl hi
    | removeByUfrag u => exact xinv_congr m _ rfl rfl rfl rfl rfl hi
    | closeHandle h => exact xinv_congr m _ rfl rfl rfl rfl rfl hi
    | watcherRun c => exact xinv_congr m _ rfl rfl rfl rfl rfl hi
    | closeMux => exact xinv_congr m _ rfl rfl rfl rfl rfl hi
    | read h => exact xinv_congr m _ rfl rfl rfl rfl rfl hi
  | inbound src k x pid => exact xinv_inbound m hi src k x pid
  | getConnForURL u url v6 => exact xinv_congr m _ rfl rfl rfl rfl rfl hi
  | xorStart srv d => exact xinv_xorStart m hi srv d
  | tick dt => exact xinv_tick m hi dt

theorem xinv_run (ops : List UOp) (m : UMux) (hi : XInv m) : XInv (IceModel.UniMux.run m ops).1 := by
  induction ops generalizing m with
  | nil => exact hi
  | cons op ops ih => rw [run_cons]; exact ih _ (xinv_step m hi op)

/-! ## who is released by a datagram the layer takes -/

theorem mem_blockedOn (m : UMux) (a : Addr) (i : Nat) :
    i ∈ blockedOn m a ↔ i < m.nwaiters ∧ (m.waiter i).res = none ∧ (m.waiter i).srv = a := by
  unfold blockedOn
  simp only [List.mem_filter, List.mem_range, Bool.and_eq_true, decide_eq_true_eq, Option.isNone_iff_eq_none]

/-- the calls released by a taken datagram are exactly the calls blocked on its (canonical) source, each
returning the address the datagram carried -/
theorem tap_woke (m : UMux) (hi : XInv m) (src : Addr) (k : Kind) (x : XView) (v : Nat)
    (h : (tap m src k x).2.learned = some (canonAddr src, v)) :
    (tap m src k x).2.woke = (blockedOn m (canonAddr src)).map (fun i => (i, WRes.ok v)) := by
  rw [tap_eq] at h ⊢
  by_cases hd : (!decodable k) = true
  · rw [if_pos hd] at h; cases h
  · rw [if_neg hd] at h ⊢
    cases hx : x.xa with
    | absent => rw [hx] at h; cases h
    | malformed => rw [hx] at h; cases h
    | value v' =>
      cases he : m.xmap (canonAddr src) with
      | none => rw [hx, he] at h; cases h
      | some e =>
        rw [hx, he] at h
        simp only [Option.some.injEq, Prod.mk.injEq, true_and] at h
        subst h
        dsimp only []
        unfold tapW
        rcases Bool.eq_false_or_eq_true e.signalled with hs | hs
        · rw [if_pos hs]
          have : blockedOn m (canonAddr src) = [] := by
            rw [List.eq_nil_iff_forall_not_mem]
            intro i hi'
            rw [mem_blockedOn] at hi'
            obtain ⟨⟨e', h1, h2⟩, _⟩ := hi.blocked i hi'.1 hi'.2.1
            rw [hi'.2.2, he] at h1
            injection h1 with h1; subst h1
            rw [hs] at h2; cases h2
          rw [this]; rfl
        · rw [if_neg (by simp [hs])]; rfl

theorem tap_woke_none (m : UMux) (src : Addr) (k : Kind) (x : XView) (h : (tap m src k x).2.learned = none) :
    (tap m src k x).2.woke = [] := by
  rw [tap_none m src k x h]

/-! ## `started` in terms of the history -/

theorem withEntry_started (m : UMux) (hi : ∀ a e, m.xmap a = some e → a ∈ m.started) (a b : Addr) :
    b ∈ (withEntry m a).started ↔ b ∈ m.started ∨ b = a := by
  unfold withEntry
  cases he : m.xmap a with
  | some e =>
    dsimp only []
    constructor
    · exact Or.inl
    · rintro (h | h)
      · exact h
      · rw [h]; exact hi a e he
  | none =>
    dsimp only []
    split
    · next hm =>
      constructor
      · exact Or.inl
      · rintro (h | h)
        · exact h
        · rw [h]; exact hm
    · simp

theorem xorStart_started (m : UMux) (hi : XInv m) (srv : Addr) (d : Nat) (b : Addr) :
    b ∈ (xorStart m srv d).1.started ↔ b ∈ m.started ∨ b = canonAddr srv := by
  rw [xorStart_eq]
  dsimp only []
  cases hh : (cached m (canonAddr srv)).2.2 with
  | some v =>
    dsimp only []
    obtain ⟨k1, _, e, k2, _⟩ := cached_hit m _ v hh
    rw [k1]
    show b ∈ m.started ↔ _
    constructor
    · exact Or.inl
    · rintro (h | h)
      · exact h
      · rw [h]; exact (hi.key _ e k2).2
  | none =>
    dsimp only []
    obtain ⟨i1, _⟩ := xinv_cached m hi _ hh
    have := withEntry_started (cached m (canonAddr srv)).1 (fun a e h => (i1.key a e h).2) (canonAddr srv) b
    rw [cached_started] at this
    split
    · exact this
    · split
      · exact this
      · exact this

theorem step_started (m : UMux) (hi : XInv m) (op : UOp) (b : Addr) :
    b ∈ (IceModel.UniMux.step m op).1.started ↔
      b ∈ m.started ∨ ∃ srv d, op = .xorStart srv d ∧ canonAddr srv = b := by
  have inb : ∀ src k x pid, (IceModel.UniMux.inbound m src k x pid).1.started = m.started := by
    intro src k x pid
    rw [inbound_eq]
    split
    · rfl
    · exact tap_started m src k x
  have triv : ∀ (m' : UMux), m'.started = m.started → (∀ srv d, op ≠ .xorStart srv d) →
      (b ∈ m'.started ↔ b ∈ m.started ∨ ∃ srv d, op = .xorStart srv d ∧ canonAddr srv = b) := by
    intro m' h1 h2
    rw [h1]
    constructor
    · exact Or.inl
    · rintro (h | ⟨srv, d, h, _⟩)
      · exact h
      · exact absurd h (h2 srv d)
  cases op with
  | base op =>
    cases op with
    | inbound src k pid => exact triv _ (inb src k _ pid) (fun _ _ h => by cases h)
    | getConn u v6 => exact triv _ rfl (fun _ _ h => by cases h)
    | writeTo h dst => exact triv _ rfl (fun _ _ h => by cases h)
    | removeByUfrag u => exact triv _ rfl (fun _ _ h => by cases h)
    | closeHandle h => exact triv _ rfl (fun _ _ h => by cases h)
    | watcherRun c => exact triv _ rfl (fun _ _ h => by cases h)
    | closeMux => exact triv _ rfl (fun _ _ h => by cases h)
    | read h => exact triv _ rfl (fun _ _ h => by cases h)
  | inbound src k x pid => exact triv _ (inb src k x pid) (fun _ _ h => by cases h)
  | getConnForURL u url v6 => exact triv _ rfl (fun _ _ h => by cases h)
  | tick dt => exact triv _ rfl (fun _ _ h => by cases h)
  | xorStart srv d =>
    show b ∈ (xorStart m srv d).1.started ↔ _
    rw [xorStart_started m hi srv d b]
    constructor
    · rintro (h | h)
      · exact Or.inl h
      · exact Or.inr ⟨srv, d, rfl, h.symm⟩
    · rintro (h | ⟨srv', d', h1, h2⟩)
      · exact Or.inl h
      · injection h1 with h1 _; subst h1; exact Or.inr h2.symm

/-- a key is in the table's history iff `GetXORMappedAddr` was called for a server with that canonical address -/
theorem mem_started_iff (ops : List UOp) (m : UMux) (hi : XInv m) (b : Addr) :
    b ∈ (IceModel.UniMux.run m ops).1.started ↔
      b ∈ m.started ∨ ∃ srv d, UOp.xorStart srv d ∈ ops ∧ canonAddr srv = b := by
  induction ops generalizing m with
  | nil => simp [IceModel.UniMux.run]
  | cons op ops ih =>
    rw [run_cons]
    show b ∈ (IceModel.UniMux.run _ ops).1.started ↔ _
    rw [ih _ (xinv_step m hi op), step_started m hi op b]
    constructor
    · rintro ((h | ⟨srv, d, h1, h2⟩) | ⟨srv, d, h1, h2⟩)
      · exact Or.inl h
      · exact Or.inr ⟨srv, d, by rw [h1]; exact List.mem_cons_self, h2⟩
      · exact Or.inr ⟨srv, d, List.mem_cons_of_mem _ h1, h2⟩
    · rintro (h | ⟨srv, d, h1, h2⟩)
      · exact Or.inl (Or.inl h)
      · rcases List.mem_cons.mp h1 with h1 | h1
        · exact Or.inl (Or.inr ⟨srv, d, h1.symm, h2⟩)
        · exact Or.inr ⟨srv, d, h1, h2⟩

/-! ## one datagram, at the level of `inbound` -/

theorem inbound_fx (m : UMux) (src : Addr) (k : Kind) (x : XView) (pid : Nat) :
    (IceModel.UniMux.inbound m src k x pid).2.fx = if m.base.closed then {} else (tap m src k x).2 := by
  rw [inbound_eq]; split <;> rfl

theorem inbound_xmap (m : UMux) (src : Addr) (k : Kind) (x : XView) (pid : Nat) :
    (IceModel.UniMux.inbound m src k x pid).1.xmap = if m.base.closed then m.xmap else (tap m src k x).1.xmap := by
  rw [inbound_eq]; split <;> rfl

theorem inbound_waiter (m : UMux) (src : Addr) (k : Kind) (x : XView) (pid : Nat) :
    (IceModel.UniMux.inbound m src k x pid).1.waiter = if m.base.closed then m.waiter else (tap m src k x).1.waiter := by
  rw [inbound_eq]; split <;> rfl

end IceProofs.UniMux
