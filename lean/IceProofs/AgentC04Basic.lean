import IceProofs.AgentInboundData
import IceModel.AgentCore
import IceProofs.Basic
/-!
# C04 — basic vocabulary: notification traces, paths, frames, and the "quiet" functions of AgentCore

`states o` = the `cbState` notifications inside an output list, in order.  `pathFrom R s l` = the list `l`
is a path of the relation `R` starting at `s`; `endState s l` = where it ends.  `Frame a a'` collects the
fields that almost no function touches; `Quiet a a'` adds `connState` and `selected`.
-/
namespace IceProofs.AgentC04
open IceModel.AgentCore

/-! ## traces and paths -/

/-- the connection-state notifications contained in an output list, in order -/
def states : List Out → List ConnState
  | [] => []
  | .cbState s :: r => s :: states r
  | .dgram _ _ _ :: r => states r
  | .data _ _ _ :: r => states r
  | .cbPair _ _ :: r => states r
  | .cbCand _ :: r => states r
  | .res _ :: r => states r

@[simp] theorem states_nil : states [] = [] := rfl

@[simp] theorem states_append (o o' : List Out) : states (o ++ o') = states o ++ states o' := by
  induction o with
  | nil => rfl
  | cons x r ih => cases x <;> simp [states, ih]

@[simp] theorem states_cbState (s : ConnState) : states [.cbState s] = [s] := rfl
@[simp] theorem states_res (s : String) : states [.res s] = [] := rfl
@[simp] theorem states_cbPair (x y : Nat) : states [.cbPair x y] = [] := rfl
@[simp] theorem states_dgram (x y : Nat) (m : Msg) : states [.dgram x y m] = [] := rfl

theorem mem_states {o : List Out} {s : ConnState} : s ∈ states o ↔ Out.cbState s ∈ o := by
  induction o with
  | nil => simp
  | cons x r ih => cases x <;> simp [states, ih]

/-- `l` is a path of `R` starting at `s` -/
def pathFrom (R : ConnState → ConnState → Bool) : ConnState → List ConnState → Bool
  | _, [] => true
  | s, t :: r => R s t && pathFrom R t r

/-- last element of `s :: l` -/
def endState (s : ConnState) : List ConnState → ConnState
  | [] => s
  | t :: r => endState t r

@[simp] theorem endState_nil (s : ConnState) : endState s [] = s := rfl
@[simp] theorem pathFrom_nil (R) (s : ConnState) : pathFrom R s [] = true := rfl

theorem endState_append (s : ConnState) (l l' : List ConnState) :
    endState s (l ++ l') = endState (endState s l) l' := by
  induction l generalizing s with
  | nil => rfl
  | cons t r ih => simp [endState, ih]

theorem pathFrom_append (R) (s : ConnState) (l l' : List ConnState) :
    pathFrom R s (l ++ l') = (pathFrom R s l && pathFrom R (endState s l) l') := by
  induction l generalizing s with
  | nil => simp
  | cons t r ih => simp [pathFrom, endState, ih, Bool.and_assoc]

theorem pathFrom_mono {R R' : ConnState → ConnState → Bool} (h : ∀ p n, R p n = true → R' p n = true)
    (s : ConnState) (l : List ConnState) (hp : pathFrom R s l = true) : pathFrom R' s l = true := by
  induction l generalizing s with
  | nil => rfl
  | cons t r ih =>
    simp only [pathFrom, Bool.and_eq_true] at hp ⊢
    exact ⟨h _ _ hp.1, ih _ hp.2⟩

/-- the last element of a non-empty path is a member -/
theorem endState_mem_or (s : ConnState) (l : List ConnState) : (l = [] ∧ endState s l = s) ∨ endState s l ∈ l := by
  induction l generalizing s with
  | nil => left; exact ⟨rfl, rfl⟩
  | cons t r ih =>
    right
    rcases ih t with ⟨h1, h2⟩ | h
    · simp [endState, h1]
    · simp [endState, h]

/-! ## frames -/

/-- fields no function but `start` / `close` / `addLocalCandidate` touches -/
structure Frame (a a' : Agent) : Prop where
  cfg : a'.cfg = a.cfg
  closed : a'.closed = a.closed
  started : a'.started = a.started
  ctimeout : a'.checkingTimeout = a.checkingTimeout
  locals_nil : a.locals = [] → a'.locals = []

theorem Frame.refl (a : Agent) : Frame a a := ⟨rfl, rfl, rfl, rfl, fun h => h⟩

theorem Frame.trans {a b c : Agent} (h1 : Frame a b) (h2 : Frame b c) : Frame a c :=
  ⟨h2.cfg.trans h1.cfg, h2.closed.trans h1.closed, h2.started.trans h1.started, h2.ctimeout.trans h1.ctimeout,
   fun h => h2.locals_nil (h1.locals_nil h)⟩

/-- a function that neither changes the connection state nor the selection -/
structure Quiet (a a' : Agent) : Prop where
  frame : Frame a a'
  connState : a'.connState = a.connState
  selected : a'.selected = a.selected
  cstart : a'.checkingStart = a.checkingStart
  lastSeen : a'.lastSeen = a.lastSeen

theorem Quiet.refl (a : Agent) : Quiet a a := ⟨Frame.refl a, rfl, rfl, rfl, rfl⟩

theorem Quiet.trans {a b c : Agent} (h1 : Quiet a b) (h2 : Quiet b c) : Quiet a c :=
  ⟨h1.frame.trans h2.frame, h2.connState.trans h1.connState, h2.selected.trans h1.selected,
   h2.cstart.trans h1.cstart, h2.lastSeen.trans h1.lastSeen⟩

/-- `Quiet` and no notification in the output -/
def QuietO (a : Agent) (r : Agent × List Out) : Prop := Quiet a r.1 ∧ states r.2 = []

theorem QuietO.refl (a : Agent) : QuietO a (a, []) := ⟨Quiet.refl a, rfl⟩

theorem QuietO.trans {a : Agent} {r r' : Agent × List Out} (h1 : QuietO a r) (h2 : QuietO r.1 r') :
    QuietO a (r'.1, r.2 ++ r'.2) :=
  ⟨h1.1.trans h2.1, by simp [h1.2, h2.2]⟩

/-! ## quiet building blocks -/

theorem updCand_nil (uid : Nat) (f : Cand → Cand) : updCand [] uid f = [] := rfl

theorem modPair_quiet (a : Agent) (id : Nat) (f : Pair → Pair) : Quiet a (a.modPair id f) :=
  ⟨⟨rfl, rfl, rfl, rfl, fun h => h⟩, rfl, rfl, rfl, rfl⟩

theorem seenLocalSent_quiet (a : Agent) (uid now : Nat) : Quiet a (a.seenLocalSent uid now) :=
  ⟨⟨rfl, rfl, rfl, rfl, fun h => by simp [Agent.seenLocalSent, h, updCand]⟩, rfl, rfl, rfl, rfl⟩

theorem seenRemoteRecv_quiet (a : Agent) (uid now : Nat) : Quiet a (a.seenRemoteRecv uid now) :=
  ⟨⟨rfl, rfl, rfl, rfl, fun h => h⟩, rfl, rfl, rfl, rfl⟩

theorem invalidatePending_quiet (a : Agent) (now : Nat) : Quiet a (a.invalidatePending now) :=
  ⟨⟨rfl, rfl, rfl, rfl, fun h => h⟩, rfl, rfl, rfl, rfl⟩

theorem requestCheck_quiet (a : Agent) : Quiet a a.requestCheck := ⟨⟨rfl, rfl, rfl, rfl, fun h => h⟩, rfl, rfl, rfl, rfl⟩

theorem resetSelector_quiet (a : Agent) (now : Nat) : Quiet a (a.resetSelector now) :=
  ⟨⟨rfl, rfl, rfl, rfl, fun h => h⟩, rfl, rfl, rfl, rfl⟩

theorem addPair_quiet (a : Agent) (l r : Cand) : Quiet a (a.addPair l r).1 :=
  ⟨⟨rfl, rfl, rfl, rfl, fun h => h⟩, rfl, rfl, rfl, rfl⟩

theorem takePending_quiet (a : Agent) (now tid : Nat) : Quiet a (a.takePending now tid).1 := by
  unfold Agent.takePending
  simp only
  split
  · exact (invalidatePending_quiet a now).trans ⟨⟨rfl, rfl, rfl, rfl, fun h => h⟩, rfl, rfl, rfl, rfl⟩
  · exact invalidatePending_quiet a now

theorem sendRequest_quiet (a : Agent) (now : Nat) (l r : Cand) (uc : Bool) (nom : Option Nat) :
    QuietO a (a.sendRequest now l r uc nom) := by
  unfold Agent.sendRequest
  simp only
  refine ⟨?_, rfl⟩
  refine Quiet.trans ?_ (seenLocalSent_quiet _ _ _)
  split
  · exact ⟨⟨rfl, rfl, rfl, rfl, fun h => h⟩, rfl, rfl, rfl, rfl⟩
  · exact ⟨⟨rfl, rfl, rfl, rfl, fun h => h⟩, rfl, rfl, rfl, rfl⟩

theorem ping_quiet (a : Agent) (now : Nat) (l r : Cand) : QuietO a (a.ping now l r) :=
  sendRequest_quiet a now l r false none

theorem nominate_quiet (a : Agent) (now : Nat) (p : Pair) : QuietO a (a.nominate now p) := by
  unfold Agent.nominate
  split
  · exact sendRequest_quiet _ _ _ _ _ _
  · exact QuietO.refl a

theorem sendSuccess_quiet (a : Agent) (now : Nat) (m : Msg) (l r : Cand) : QuietO a (a.sendSuccess now m l r) := by
  unfold Agent.sendSuccess
  simp only
  refine ⟨?_, rfl⟩
  refine Quiet.trans ?_ (seenLocalSent_quiet _ _ _)
  split
  · exact modPair_quiet _ _ _
  · exact Quiet.refl _

theorem keepalive_quiet (a : Agent) (now : Nat) : QuietO a (a.keepalive now) := by
  unfold Agent.keepalive
  split
  · exact QuietO.refl a
  · split
    · split
      · exact ping_quiet _ _ _ _
      · exact QuietO.refl a
    · exact QuietO.refl a

theorem keepalive_none (a : Agent) (now : Nat) (h : a.selected = none) : a.keepalive now = (a, []) := by
  unfold Agent.keepalive
  simp [h]

/-- `pingAllCandidates` -/
theorem pingAll_quiet (a : Agent) (now : Nat) : QuietO a (a.pingAll now) := by
  unfold Agent.pingAll
  refine List.foldl_inv (fun acc => QuietO a acc) _ _ _ (QuietO.refl a) ?_
  intro acc id h
  obtain ⟨b, o⟩ := acc
  simp only
  split
  · exact h
  · rename_i p hp
    have hq : Quiet a b := h.1
    have ho : states o = [] := h.2
    by_cases hw : p.state = .waiting
    · simp only [hw, beq_self_eq_true, ↓reduceIte, Bool.not_true, Bool.false_eq_true]
      split
      · exact ⟨hq.trans ((modPair_quiet _ _ _).trans (modPair_quiet _ _ _)), ho⟩
      · split
        · rename_i l r _ _
          have hp := ping_quiet (b.modPair id fun q => { q with state := .inProgress }) now l r
          exact ⟨hq.trans ((modPair_quiet _ _ _).trans (hp.1.trans (modPair_quiet _ _ _))), by simp [ho, hp.2]⟩
        · exact ⟨hq.trans (modPair_quiet _ _ _), ho⟩
    · have hw' : (p.state == PairState.waiting) = false := by simpa using hw
      simp only [hw', Bool.false_eq_true, ↓reduceIte]
      split
      · exact h
      · split
        · exact ⟨hq.trans (modPair_quiet _ _ _), ho⟩
        · split
          · rename_i l r _ _
            have hp := ping_quiet b now l r
            exact ⟨hq.trans (hp.1.trans (modPair_quiet _ _ _)), by simp [ho, hp.2]⟩
          · exact h


theorem writeVia_quiet (a : Agent) (now : Nat) (p : Pair) (len : Nat) : QuietO a (a.writeVia now p len) := by
  unfold Agent.writeVia
  split
  · simp only
    refine ⟨?_, rfl⟩
    split
    · exact (seenLocalSent_quiet _ _ _).trans (modPair_quiet _ _ _)
    · exact seenLocalSent_quiet _ _ _
  · exact ⟨Quiet.refl a, rfl⟩

theorem write_quiet (a : Agent) (now len : Nat) (sl : Bool) : QuietO a (a.write now len sl) := by
  unfold Agent.write
  split
  · exact ⟨Quiet.refl a, rfl⟩
  · split
    · exact ⟨Quiet.refl a, rfl⟩
    · split
      · exact ⟨Quiet.refl a, rfl⟩
      · rename_i p _
        have h := writeVia_quiet a now p len
        exact ⟨h.1.trans ⟨⟨rfl, rfl, rfl, rfl, fun h => h⟩, rfl, rfl, rfl, rfl⟩, h.2⟩

theorem writeToPair_quiet (a : Agent) (now id len : Nat) (sl : Bool) : QuietO a (a.writeToPair now id len sl) := by
  unfold Agent.writeToPair
  split
  · exact ⟨Quiet.refl a, rfl⟩
  · split
    · exact ⟨Quiet.refl a, rfl⟩
    · split
      · exact ⟨Quiet.refl a, rfl⟩
      · split
        · exact ⟨Quiet.refl a, rfl⟩
        · exact writeVia_quiet _ _ _ _

theorem inboundData_quiet (a : Agent) (now : Nat) (l : Cand) (src len : Nat) : QuietO a (a.inboundData now l src len) := by
  have tail : ∀ (b : Agent), Quiet a b → Quiet a (b.enqueue len) := by
    intro b hb
    refine hb.trans ?_
    unfold Agent.enqueue
    simp only
    split
    · split
      · exact ⟨⟨rfl, rfl, rfl, rfl, fun h => h⟩, rfl, rfl, rfl, rfl⟩
      · exact ⟨⟨rfl, rfl, rfl, rfl, fun h => h⟩, rfl, rfl, rfl, rfl⟩
    · exact ⟨⟨rfl, rfl, rfl, rfl, fun h => h⟩, rfl, rfl, rfl, rfl⟩
  rw [IceProofs.InboundData.inboundData_eq]
  cases hv : IceProofs.InboundData.validated a now l src with
  | none => exact ⟨Quiet.refl a, rfl⟩
  | some b =>
    have hb : Quiet a b := by
      rcases IceProofs.InboundData.validated_cases hv with ⟨ru, rfl⟩ | ⟨r, _, rfl⟩
      · exact seenRemoteRecv_quiet _ _ _
      · exact (seenRemoteRecv_quiet a r.uid now).trans ⟨⟨rfl, rfl, rfl, rfl, fun h => h⟩, rfl, rfl, rfl, rfl⟩
    simp only
    split
    · exact ⟨tail b hb, rfl⟩
    · exact ⟨hb, rfl⟩

/-- `Quiet` without the clause about `locals` (for `addLocalCandidate`) -/
structure Same (a a' : Agent) : Prop where
  cfg : a'.cfg = a.cfg
  closed : a'.closed = a.closed
  started : a'.started = a.started
  ctimeout : a'.checkingTimeout = a.checkingTimeout
  connState : a'.connState = a.connState
  selected : a'.selected = a.selected
  cstart : a'.checkingStart = a.checkingStart
  lastSeen : a'.lastSeen = a.lastSeen

theorem Quiet.same {a a' : Agent} (q : Quiet a a') : Same a a' :=
  ⟨q.frame.cfg, q.frame.closed, q.frame.started, q.frame.ctimeout, q.connState, q.selected, q.cstart, q.lastSeen⟩

theorem Same.trans {a b c : Agent} (h1 : Same a b) (h2 : Same b c) : Same a c :=
  ⟨h2.cfg.trans h1.cfg, h2.closed.trans h1.closed, h2.started.trans h1.started, h2.ctimeout.trans h1.ctimeout,
   h2.connState.trans h1.connState, h2.selected.trans h1.selected, h2.cstart.trans h1.cstart, h2.lastSeen.trans h1.lastSeen⟩

/-- `addCandidate` (local): quiet except that it adds a local candidate -/
theorem addLocalCandidate_same (a : Agent) (c : Cand) :
    Same a (a.addLocalCandidate c).1 ∧ states (a.addLocalCandidate c).2 = [] := by
  unfold Agent.addLocalCandidate
  simp only
  split
  · exact ⟨(Quiet.refl a).same, rfl⟩
  · split
    · exact ⟨(Quiet.refl a).same, rfl⟩
    · refine ⟨?_, rfl⟩
      refine Same.trans ?_ (requestCheck_quiet _).same
      refine List.foldl_inv (fun b => Same a b) _ _ _ ⟨rfl, rfl, rfl, rfl, rfl, rfl, rfl, rfl⟩ ?_
      intro b r hb
      exact hb.trans (addPair_quiet _ _ _).same

end IceProofs.AgentC04
