import IceProofs.AgentC04Basic
/-!
# C04 — the invariant `Good`, `setConnState`, and the functions whose only effect on the connection
state is through `select` (→ Connected): `replaceRemoteInPairs`, `addRemoteCandidate`, `handleSuccess`,
`cldHandleRequest`, `handleInbound`.
-/
namespace IceProofs.AgentC04
open IceModel.AgentCore

/-- invariant of every reachable agent that is not closed -/
structure Good (a : Agent) : Prop where
  notClosed : a.closed = false
  live : a.connState ≠ .closed ∧ a.connState ≠ .unknown ∧ a.connState ≠ .completed
  newIff : a.connState = .new ↔ a.started = false
  sel : a.selected.isSome = true ↔ (a.connState = .connected ∨ a.connState = .disconnected)

theorem Good.of_same {a a' : Agent} (g : Good a) (q : Same a a') : Good a' := by
  obtain ⟨_, hc, hs, _, hcs, hsel, _, _⟩ := q
  refine ⟨hc ▸ g.notClosed, hcs ▸ g.live, ?_, ?_⟩
  · rw [hcs, hs]; exact g.newIff
  · rw [hcs, hsel]; exact g.sel

theorem Good.of_quiet {a a' : Agent} (g : Good a) (q : Quiet a a') : Good a' := g.of_same q.same

theorem Good.started_of_sel {a : Agent} (g : Good a) (h : a.selected.isSome = true) : a.started = true := by
  have hc := g.sel.mp h
  have : a.connState ≠ .new := by rcases hc with hc | hc <;> rw [hc] <;> decide
  cases hs : a.started
  · exact absurd (g.newIff.mpr hs) this
  · rfl

theorem Good.not_failed_of_sel {a : Agent} (g : Good a) (h : a.selected.isSome = true) : a.connState ≠ .failed := by
  rcases g.sel.mp h with hc | hc <;> rw [hc] <;> decide

/-! ## `setConnState` -/

theorem setConnState_connState (a : Agent) (s : ConnState) : (a.setConnState s).1.connState = s := by
  unfold Agent.setConnState
  split
  · rename_i h; simpa using h
  · rfl

theorem setConnState_states (a : Agent) (s : ConnState) :
    states (a.setConnState s).2 = if a.connState = s then [] else [s] := by
  unfold Agent.setConnState
  by_cases h : a.connState = s <;> simp [h]

theorem setConnState_same (a : Agent) (s : ConnState) (h : a.connState = s) : a.setConnState s = (a, []) := by
  unfold Agent.setConnState
  simp [h]

theorem setConnState_nf (a : Agent) (s : ConnState) (hf : s ≠ .failed) :
    (a.setConnState s).1 = { a with connState := s } := by
  unfold Agent.setConnState
  by_cases h : a.connState = s
  · subst h; simp
  · simp [h, hf]

theorem setConnState_failed (a : Agent) (h : a.connState ≠ .failed) :
    a.setConnState .failed = ({ a.wipe with connState := .failed }, [.cbState .failed]) := by
  unfold Agent.setConnState
  simp [h]

theorem Good.okInb {a : Agent} (g : Good a) (hs : a.started = true) (hn : a.connState ≠ .connected) :
    (a.connState == .checking || a.connState == .disconnected || a.connState == .failed) = true := by
  have h1 := g.live
  have h2 : a.connState ≠ .new := fun h => by have := g.newIff.mp h; simp [hs] at this
  cases hc : a.connState <;> simp_all

/-! ## `select` and friends -/

/-- source states from which re-selecting the selected pair can notify: only Disconnected -/
def okResel : ConnState → Bool := fun s => s == .disconnected

/-- source states from which an inbound STUN message can lead to Connected -/
def okInb : ConnState → Bool := fun s => s == .checking || s == .disconnected || s == .failed

/-- at most one notification, and it is `connected`, from a source state allowed by `ok` -/
structure SelEff (ok : ConnState → Bool) (a : Agent) (r : Agent × List Out) : Prop where
  frame : Frame a r.1
  cstart : r.1.checkingStart = a.checkingStart
  lastSeen : r.1.lastSeen = a.lastSeen
  good : Good r.1
  out : (states r.2 = [] ∧ r.1.connState = a.connState) ∨
        (states r.2 = [.connected] ∧ a.connState ≠ .connected ∧ ok a.connState = true ∧
          r.1.connState = .connected)

theorem SelEff.of_quiet {ok : ConnState → Bool} {a : Agent} {r : Agent × List Out} (g : Good a) (q : QuietO a r) : SelEff ok a r :=
  ⟨q.1.frame, q.1.cstart, q.1.lastSeen, g.of_quiet q.1, Or.inl ⟨q.2, q.1.connState⟩⟩

theorem SelEff.refl {ok : ConnState → Bool} {a : Agent} (g : Good a) : SelEff ok a (a, []) := SelEff.of_quiet g (QuietO.refl a)

theorem SelEff.mono {ok ok' : ConnState → Bool} {a : Agent} {r : Agent × List Out} (hm : ∀ s, ok s = true → ok' s = true)
    (h : SelEff ok a r) : SelEff ok' a r :=
  ⟨h.frame, h.cstart, h.lastSeen, h.good, by
    rcases h.out with h1 | ⟨h1, h2, h3, h4⟩
    · exact Or.inl h1
    · exact Or.inr ⟨h1, h2, hm _ h3, h4⟩⟩

theorem SelEff.comp {ok : ConnState → Bool} {a : Agent} {r r' : Agent × List Out} (h1 : SelEff ok a r) (h2 : SelEff ok r.1 r') :
    SelEff ok a (r'.1, r.2 ++ r'.2) := by
  refine ⟨h1.frame.trans h2.frame, h2.cstart.trans h1.cstart, h2.lastSeen.trans h1.lastSeen, h2.good, ?_⟩
  rcases h1.out with ⟨e1, c1⟩ | ⟨e1, n1, k1, c1⟩ <;> rcases h2.out with ⟨e2, c2⟩ | ⟨e2, n2, k2, c2⟩
  · exact Or.inl ⟨by simp [e1, e2], c2.trans c1⟩
  · exact Or.inr ⟨by simp [e1, e2], c1 ▸ n2, c1 ▸ k2, c2⟩
  · exact Or.inr ⟨by simp [e1, e2], n1, k1, c2.trans c1⟩
  · exact absurd c1 n2

/-- precompose with a quiet change of the agent -/
theorem SelEff.after_quiet {ok : ConnState → Bool} {a b : Agent} {r : Agent × List Out} (q : Quiet a b) (h : SelEff ok b r) :
    SelEff ok a r := by
  refine ⟨q.frame.trans h.frame, h.cstart.trans q.cstart, h.lastSeen.trans q.lastSeen, h.good, ?_⟩
  rw [← q.connState]; exact h.out

/-- postcompose with a quiet change of the agent -/
theorem SelEff.then_quiet {ok : ConnState → Bool} {a : Agent} {r : Agent × List Out} {c : Agent} (h : SelEff ok a r) (q : Quiet r.1 c) :
    SelEff ok a (c, r.2) := by
  have := h.comp (SelEff.of_quiet (ok := ok) h.good (r := (c, [])) ⟨q, rfl⟩)
  simpa using this

/-- the agent `select` hands to `setConnState` -/
def selPre (a : Agent) (id : Nat) : Agent :=
  { (a.modPair id fun p => { p with nominated := true }) with selected := some id, onConnectedFired := true }

theorem select_fst (a : Agent) (id : Nat) : (a.select id).1 = ((selPre a id).setConnState .connected).1 := rfl

theorem select_states (a : Agent) (id : Nat) : states (a.select id).2 = states ((selPre a id).setConnState .connected).2 := by
  unfold Agent.select
  simp [selPre]

theorem select_eff {ok : ConnState → Bool} (a : Agent) (id : Nat) (g : Good a) (hs : a.started = true)
    (hok : a.connState ≠ .connected → ok a.connState = true) : SelEff ok a (a.select id) := by
  have e1 : (a.select id).1 = { selPre a id with connState := .connected } := by
    rw [select_fst, setConnState_nf _ _ (by decide)]
  have e2 : states (a.select id).2 = if a.connState = .connected then [] else [.connected] := by
    rw [select_states, setConnState_states]; rfl
  refine ⟨?_, ?_, ?_, ?_, ?_⟩
  · rw [e1]; exact ⟨rfl, rfl, rfl, rfl, fun h => h⟩
  · rw [e1]; rfl
  · rw [e1]; rfl
  · rw [e1]
    refine ⟨g.notClosed, by simp, ?_, by simp [selPre]⟩
    constructor
    · intro h; simp at h
    · intro h; exact absurd (show a.started = false from h) (by simp [hs])
  · by_cases h : a.connState = .connected
    · left; rw [e2, e1]; simp [h]
    · right; rw [e2, e1]; simp [h]; exact hok h

/-- `select` of the pair that is already selected -/
theorem select_eff_resel (a : Agent) (id : Nat) (g : Good a) (hsel : a.selected.isSome = true) :
    SelEff okResel a (a.select id) :=
  select_eff a id g (g.started_of_sel hsel) (fun hn => by
    rcases g.sel.mp hsel with h | h
    · exact absurd h hn
    · rw [h]; rfl)

theorem replaceRemoteInPairs_eff (a : Agent) (old c : Cand) (g : Good a) :
    SelEff okResel a (a.replaceRemoteInPairs old c) := by
  unfold Agent.replaceRemoteInPairs
  refine List.foldl_inv (fun acc => SelEff okResel a acc) _ _ _ (SelEff.refl g) ?_
  intro acc id h
  obtain ⟨b, o⟩ := acc
  simp only
  split
  · split
    · rename_i p _ _
      split
      · rename_i hsel
        have q : Quiet b (b.modPair id fun q => { q with r := c.uid, prioOverride := some (b.pairPrio p) }) := modPair_quiet _ _ _
        have hsel' : (b.modPair id fun q => { q with r := c.uid, prioOverride := some (b.pairPrio p) }).selected.isSome = true := by
          simp at hsel; simp [hsel]
        exact h.comp (SelEff.after_quiet q (select_eff_resel _ id (h.good.of_quiet q) hsel'))
      · exact h.then_quiet (modPair_quiet _ _ _)
    · exact h
  · exact h


theorem foldl_quiet {α : Type} (f : Agent → α → Agent) (hf : ∀ b x, Quiet b (f b x)) (l : List α) (b : Agent) :
    Quiet b (l.foldl f b) :=
  List.foldl_inv (fun x => Quiet b x) _ _ _ (Quiet.refl b) (fun x y hx => hx.trans (hf x y))

theorem addRemoteCandidate_eff (a : Agent) (c : Cand) (g : Good a) :
    SelEff okResel a ((a.addRemoteCandidate c).1, (a.addRemoteCandidate c).2.1) := by
  have main : ∀ (a1 : Agent) (c : Cand) (replaced : List Cand), Quiet a a1 →
      SelEff okResel a (replaced.foldl (fun (acc : Agent × List Out) (old : Cand) =>
        let r := acc.1.replaceRemoteInPairs old c
        let a : Agent := r.1
        let a : Agent := { a with caches := a.caches.map fun (x : Nat × Nat × Nat) => if x.2.2 == old.uid then (x.1, x.2.1, c.uid) else x }
        (a, acc.2 ++ r.2)) (a1, [])) := by
    intro a1 c replaced q
    refine List.foldl_inv (fun acc => SelEff okResel a acc) _ _ _ (SelEff.of_quiet g ⟨q, rfl⟩) ?_
    intro acc old h
    have h2 := replaceRemoteInPairs_eff acc.1 old c h.good
    show SelEff okResel a ({ (acc.1.replaceRemoteInPairs old c).1 with caches := (acc.1.replaceRemoteInPairs old c).1.caches.map fun (x : Nat × Nat × Nat) => if x.2.2 == old.uid then (x.1, x.2.1, c.uid) else x }, acc.2 ++ (acc.1.replaceRemoteInPairs old c).2)
    refine h.comp (r' := (_, _)) (h2.then_quiet ?_)
    exact ⟨⟨rfl, rfl, rfl, rfl, fun h => h⟩, rfl, rfl, rfl, rfl⟩
  unfold Agent.addRemoteCandidate
  split
  · exact SelEff.refl g
  · split
    · exact SelEff.refl g
    · simp only
      refine SelEff.then_quiet (main _ _ _ ?q) ?_
      case q => exact ⟨⟨rfl, rfl, rfl, rfl, fun h => h⟩, rfl, rfl, rfl, rfl⟩
      refine Quiet.trans ?_ (requestCheck_quiet _)
      refine Quiet.trans ?q1 (foldl_quiet _ ?hf _ _)
      case q1 => exact ⟨⟨rfl, rfl, rfl, rfl, fun h => h⟩, rfl, rfl, rfl, rfl⟩
      case hf =>
        intro b x
        split
        · exact Quiet.refl b
        · exact addPair_quiet _ _ _


/-! ## inbound STUN -/

/-! `handleSuccess`: the block after the validity update, cut into the controlling decision, the controlled
decision and the bookkeeping that follows it (the equation is checked by `rfl`) -/
def hsCtl (a : Agent) (p : Pair) (pd : Pending) : Agent × List Out :=
  match pd.nom with
  | some v =>
    let superseded := match a.answeredNomination with | none => false | some w => v ≤ w
    if superseded then (a, [])
    else ({ a with answeredNomination := some v }).select p.id
  | none => if a.selected.isNone then a.select p.id else (a, [])

def hsCld (a : Agent) (p : Pair) : Agent × List Out :=
  match p.deferredNom with
  | some v =>
    let superseded := match a.lastNomination with | none => true | some last => v < last
    if superseded then (a, [])
    else if a.selected != some p.id then a.select p.id else (a, [])
  | none =>
    match a.selected.bind a.pairById with
    | none => a.select p.id
    | some sp =>
      if sp.id != p.id && a.lastNomination.isSome then (a, [])
      else if sp.id != p.id && (!needsPrioCheck a.cfg || a.pairPrio sp ≤ a.pairPrio p) then a.select p.id
      else (a, [])

def hsBlock (a : Agent) (p : Pair) (pd : Pending) : Agent × List Out :=
  if a.controlling then
    if pd.useCand then hsCtl a p pd else (a, [])
  else
    if p.nomOnSuccess then
      ((hsCld a p).1.modPair p.id fun p => { p with nomOnSuccess := false, deferredNom := none }, (hsCld a p).2)
    else (a, [])

theorem hs_eq (a : Agent) (now : Nat) (m : Msg) (l r : Cand) (src : Nat) :
    a.handleSuccess now m l r src =
    match (a.takePending now m.tid).2 with
    | none => ((a.takePending now m.tid).1, [])
    | some pd =>
      if !(pd.net == l.net && pd.dest == src && pd.src == l.addr) then ((a.takePending now m.tid).1, [])
      else
        match (a.takePending now m.tid).1.findPair l r with
        | none => ((a.takePending now m.tid).1, [])
        | some p =>
          ((hsBlock ((a.takePending now m.tid).1.modPair p.id fun q =>
                { q with state := .succeeded, gResp := true, gRespUC := q.gRespUC || pd.useCand }) p pd).1.modPair p.id
              (Pair.gotResponse now pd.ts),
           (hsBlock ((a.takePending now m.tid).1.modPair p.id fun q =>
                { q with state := .succeeded, gResp := true, gRespUC := q.gRespUC || pd.useCand }) p pd).2) := by
  unfold Agent.handleSuccess
  rcases a.takePending now m.tid with ⟨a1, pend⟩
  cases pend with
  | none => rfl
  | some pd =>
    simp only []
    split
    · rfl
    · cases a1.findPair l r <;> rfl

theorem hsCtl_eff (a : Agent) (p : Pair) (pd : Pending) (g : Good a) (hs : a.started = true) :
    SelEff okInb a (hsCtl a p pd) := by
  have sel : ∀ (x : Agent) id', Quiet a x → SelEff okInb a (x.select id') := fun x id' q =>
    SelEff.after_quiet q (select_eff _ id' (g.of_quiet q) (q.frame.started.trans hs)
      (Good.okInb (g.of_quiet q) (q.frame.started.trans hs)))
  unfold hsCtl
  simp only
  repeat' split
  all_goals first
    | exact SelEff.refl g
    | exact sel _ _ (Quiet.refl a)
    | exact sel _ _ ⟨⟨rfl, rfl, rfl, rfl, fun h => h⟩, rfl, rfl, rfl, rfl⟩

theorem hsCld_eff (a : Agent) (p : Pair) (g : Good a) (hs : a.started = true) :
    SelEff okInb a (hsCld a p) := by
  unfold hsCld
  simp only
  repeat' split
  all_goals first
    | exact SelEff.refl g
    | exact select_eff _ _ g hs (Good.okInb g hs)

theorem hsBlock_eff (a : Agent) (p : Pair) (pd : Pending) (g : Good a) (hs : a.started = true) :
    SelEff okInb a (hsBlock a p pd) := by
  unfold hsBlock
  split
  · split
    · exact hsCtl_eff a p pd g hs
    · exact SelEff.refl g
  · split
    · exact (hsCld_eff a p g hs).then_quiet (modPair_quiet _ _ _)
    · exact SelEff.refl g

theorem handleSuccess_eff (a : Agent) (now : Nat) (m : Msg) (l r : Cand) (src : Nat) (g : Good a) (hs : a.started = true) :
    SelEff okInb a (a.handleSuccess now m l r src) := by
  rw [hs_eq]
  have q0 := takePending_quiet a now m.tid
  generalize a.takePending now m.tid = tp at q0
  obtain ⟨b, pend⟩ := tp
  simp only at q0 ⊢
  have gb := g.of_quiet q0
  have hsb : b.started = true := q0.frame.started.trans hs
  refine SelEff.after_quiet q0 ?_
  split
  · exact SelEff.refl gb
  · split
    · exact SelEff.refl gb
    · split
      · exact SelEff.refl gb
      · refine SelEff.then_quiet (r := hsBlock _ _ _) ?_ (modPair_quiet _ _ _)
        exact SelEff.after_quiet (modPair_quiet _ _ _)
          (hsBlock_eff _ _ _ (gb.of_quiet (modPair_quiet _ _ _)) ((modPair_quiet _ _ _).frame.started.trans hsb))

theorem QuietO.then_quiet {a : Agent} {r : Agent × List Out} {c : Agent} (h : QuietO a r) (q : Quiet r.1 c) : QuietO a (c, r.2) :=
  ⟨h.1.trans q, h.2⟩

theorem QuietO.after_quiet {a b : Agent} {r : Agent × List Out} (q : Quiet a b) (h : QuietO b r) : QuietO a r :=
  ⟨q.trans h.1, h.2⟩

theorem ctlHandleRequest_quiet (a : Agent) (now : Nat) (m : Msg) (l r : Cand) : QuietO a (a.ctlHandleRequest now m l r) := by
  unfold Agent.ctlHandleRequest
  have q0 := sendSuccess_quiet a now m l r
  generalize a.sendSuccess now m l r = ss at q0
  obtain ⟨b, o⟩ := ss
  simp only
  have nomq : ∀ (x : Agent) (np : Option Nat) (p : Pair), Quiet b x → QuietO a ((({ x with nominatedPair := np } : Agent).nominate now p).1, o ++ (({ x with nominatedPair := np } : Agent).nominate now p).2) := by
    intro x np p hx
    have hq : Quiet x ({ x with nominatedPair := np } : Agent) := ⟨⟨rfl, rfl, rfl, rfl, fun h => h⟩, rfl, rfl, rfl, rfl⟩
    have hn := nominate_quiet ({ x with nominatedPair := np } : Agent) now p
    have h1 : Quiet a b := q0.1
    have h2 : states o = [] := q0.2
    exact ⟨h1.trans (hx.trans (hq.trans hn.1)), by simp [h2, hn.2]⟩
  split
  · exact q0.then_quiet ((addPair_quiet _ _ _).trans (modPair_quiet _ _ _))
  · split
    · split
      · exact q0.then_quiet (modPair_quiet _ _ _)
      · split
        · split
          · exact nomq _ _ _ (modPair_quiet _ _ _)
          · exact q0.then_quiet (modPair_quiet _ _ _)
        · split
          · exact nomq _ _ _ (modPair_quiet _ _ _)
          · exact q0.then_quiet (modPair_quiet _ _ _)
    · exact q0.then_quiet (modPair_quiet _ _ _)

/-! `cldHandleRequest` cut into stages (the equation is checked by `rfl`) -/
def cld1 (a : Agent) (l r : Cand) : Agent × Pair :=
  match a.findPair l r with
  | some p => (a, p)
  | none => a.addPair l r

def cldAccept (a : Agent) (m : Msg) (nominated : Bool) : Agent × Bool :=
  if !nominated then (a, true) else
  match m.nom with
  | none => (a, true)
  | some v =>
    match a.lastNomination with
    | none => ({ a with lastNomination := some v }, true)
    | some last => if v > last then ({ a with lastNomination := some v }, true) else (a, false)

def cldSel' (a : Agent) (m : Msg) (id : Nat) : Agent × List Out :=
  match a.pairById id with
  | none => (a, [])
  | some p =>
    if p.state == .succeeded then
      let sw := match a.selected.bind a.pairById with
        | none => true
        | some sp =>
          if sp.id == id then false
          else if m.nom.isSome then true
          else if a.lastNomination.isSome then false
          else !needsPrioCheck a.cfg || a.pairPrio sp < a.pairPrio p
      if sw then a.select id else (a, [])
    else if m.nom.isSome || p.deferredNom.isNone then
      (a.modPair id fun p => { p with nomOnSuccess := true, deferredNom := m.nom }, [])
    else (a, [])

def cldSel (a : Agent) (m : Msg) (id : Nat) (nominated : Bool) : Agent × List Out :=
  if nominated then
    cldSel' (if a.cfg.lite then a.modPair id fun p => { p with state := .succeeded } else a) m id
  else (a, [])

def cldPing (a : Agent) (now : Nat) (l r : Cand) (id : Nat) : Agent × List Out :=
  match a.pairById id with
  | some p =>
    if !a.cfg.lite && (p.state != .succeeded || a.selected.isNone) then a.ping now l r else (a, [])
  | none => (a, [])

theorem cld_eq (a : Agent) (now : Nat) (m : Msg) (l r : Cand) :
    a.cldHandleRequest now m l r =
      (let x1 := cld1 a l r
       let id := x1.2.id
       let a2 := x1.1.modPair id fun p => { p with reqRecv := p.reqRecv + 1, gReq := true, gNomReq := p.gNomReq || m.useCand || m.nom.isSome }
       let nominated := m.useCand || m.nom.isSome
       let x3 := cldAccept a2 m nominated
       if nominated && !x3.2 then x3.1.sendSuccess now m l r
       else
         let x5 := cldSel x3.1 m id nominated
         let x6 := x5.1.sendSuccess now m l r
         let x7 := cldPing x6.1 now l r id
         (x7.1, x5.2 ++ x6.2 ++ x7.2)) := rfl

theorem cld1_quiet (a : Agent) (l r : Cand) : Quiet a (cld1 a l r).1 := by
  unfold cld1
  split
  · exact Quiet.refl a
  · exact addPair_quiet _ _ _

theorem cldAccept_quiet (a : Agent) (m : Msg) (n : Bool) : Quiet a (cldAccept a m n).1 := by
  unfold cldAccept
  repeat' split
  all_goals first | exact Quiet.refl a | exact ⟨⟨rfl, rfl, rfl, rfl, fun h => h⟩, rfl, rfl, rfl, rfl⟩

theorem cldPing_quiet (a : Agent) (now : Nat) (l r : Cand) (id : Nat) : QuietO a (cldPing a now l r id) := by
  unfold cldPing
  repeat' split
  all_goals first | exact QuietO.refl a | exact ping_quiet _ _ _ _

theorem cldSel'_eff (a : Agent) (m : Msg) (id : Nat) (g : Good a) (hs : a.started = true) :
    SelEff okInb a (cldSel' a m id) := by
  unfold cldSel'
  simp only
  repeat' split
  all_goals first
    | exact SelEff.refl g
    | exact select_eff _ _ g hs (Good.okInb g hs)
    | exact SelEff.of_quiet g ⟨modPair_quiet _ _ _, rfl⟩

theorem cldSel_eff (a : Agent) (m : Msg) (id : Nat) (n : Bool) (g : Good a) (hs : a.started = true) :
    SelEff okInb a (cldSel a m id n) := by
  unfold cldSel
  split
  · split
    · exact SelEff.after_quiet (modPair_quiet _ _ _) (cldSel'_eff _ m id (g.of_quiet (modPair_quiet _ _ _)) hs)
    · exact cldSel'_eff a m id g hs
  · exact SelEff.refl g

theorem cldHandleRequest_eff (a : Agent) (now : Nat) (m : Msg) (l r : Cand) (g : Good a) (hs : a.started = true) :
    SelEff okInb a (a.cldHandleRequest now m l r) := by
  rw [cld_eq]
  simp only
  have q1 := cld1_quiet a l r
  generalize cld1 a l r = x1 at q1
  have q2 : Quiet a (x1.1.modPair x1.2.id fun p => { p with reqRecv := p.reqRecv + 1, gReq := true, gNomReq := p.gNomReq || m.useCand || m.nom.isSome }) :=
    q1.trans (modPair_quiet _ _ _)
  generalize (x1.1.modPair x1.2.id fun p => { p with reqRecv := p.reqRecv + 1, gReq := true, gNomReq := p.gNomReq || m.useCand || m.nom.isSome }) = a2 at q2
  have q3 := q2.trans (cldAccept_quiet a2 m (m.useCand || m.nom.isSome))
  generalize cldAccept a2 m (m.useCand || m.nom.isSome) = x3 at q3
  have g3 := g.of_quiet q3
  split
  · exact SelEff.of_quiet g (QuietO.after_quiet q3 (sendSuccess_quiet _ _ _ _ _))
  · have h5 := cldSel_eff x3.1 m x1.2.id (m.useCand || m.nom.isSome) g3 (q3.frame.started.trans hs)
    generalize cldSel x3.1 m x1.2.id (m.useCand || m.nom.isSome) = x5 at h5
    have h6 := sendSuccess_quiet x5.1 now m l r
    generalize x5.1.sendSuccess now m l r = x6 at h6
    have h7 := cldPing_quiet x6.1 now l r x1.2.id
    generalize cldPing x6.1 now l r x1.2.id = x7 at h7
    have h67 : SelEff okInb x5.1 (x7.1, x6.2 ++ x7.2) := SelEff.of_quiet h5.good (h6.trans h7)
    have := (SelEff.after_quiet q3 h5).comp h67
    simpa [List.append_assoc] using this

/-! `handleInbound` cut into stages -/
def hiDiscover (a : Agent) (l : Cand) (src : Nat) (m : Msg) (rc : Option Cand) : Agent × List Out × Option Cand :=
  match rc with
  | some r => (a, [], some r)
  | none =>
    let c : Cand := { uid := 0, ty := 3, net := l.net, addr := src, comp := l.comp, rel := some 0,
                      prio := match m.prio with | some p => if p == 0 then prflxPriority l.net l.comp else p | none => prflxPriority l.net l.comp }
    a.addRemoteCandidate c

def hiReq (a : Agent) (now : Nat) (m : Msg) (l r : Cand) (o0 : List Out) : Agent × List Out :=
  let (a, o) := if a.controlling then a.ctlHandleRequest now m l r else a.cldHandleRequest now m l r
  (a.seenRemoteRecv r.uid now, o0 ++ o)

def hiRole (a : Agent) (now : Nat) (m : Msg) (l r : Cand) (o0 : List Out) : Agent × List Out :=
  match m.role with
  | some (ctl, tb) =>
    if ctl == a.controlling then
      if roleConflictKeeps a.controlling a.tieBreaker tb then
        let a := a.seenLocalSent l.uid now
        (a, o0 ++ [.dgram l.addr r.addr { cls := 3, tid := m.tid, key := some a.localPwd, errCode := some 487 }])
      else
        (({ a with controlling := !a.controlling }).resetSelector now, o0)
    else hiReq a now m l r o0
  | none => hiReq a now m l r o0

theorem hi_eq (a : Agent) (now : Nat) (l : Cand) (src : Nat) (m : Msg) :
    a.handleInbound now l src m =
      (if !(m.method == 1 && (m.cls == 2 || m.cls == 0 || m.cls == 1)) then (a, [])
       else
        let rc := a.findRemote l.net src
        if m.cls == 2 then
          if m.key != some a.remotePwd then (a, [])
          else match rc with
            | none => (a, [])
            | some r =>
              let x := a.handleSuccess now m l r src
              (x.1.seenRemoteRecv r.uid now, x.2)
        else if m.cls == 0 then
          if m.user != some (a.localUfrag ++ ":" ++ a.remoteUfrag) then (a, [])
          else if m.key != some a.localPwd then (a, [])
          else
            let x := hiDiscover a l src m rc
            match x.2.2 with
            | none => (x.1, x.2.1)
            | some r => hiRole x.1 now m l r x.2.1
        else
          match rc with
          | some r => (a.seenRemoteRecv r.uid now, [])
          | none => (a, [])) := rfl

theorem hiDiscover_eff (a : Agent) (l : Cand) (src : Nat) (m : Msg) (rc : Option Cand) (g : Good a) :
    SelEff okResel a ((hiDiscover a l src m rc).1, (hiDiscover a l src m rc).2.1) := by
  unfold hiDiscover
  split
  · exact SelEff.refl g
  · exact addRemoteCandidate_eff _ _ g

theorem hiReq_eff {a0 : Agent} (a : Agent) (now : Nat) (m : Msg) (l r : Cand) (o0 : List Out)
    (h0 : SelEff okInb a0 (a, o0)) (hs : a.started = true) : SelEff okInb a0 (hiReq a now m l r o0) := by
  unfold hiReq
  simp only
  have g : Good a := h0.good
  split
  · have h := ctlHandleRequest_quiet a now m l r
    exact h0.comp (r' := (_, _)) (SelEff.of_quiet g (h.then_quiet (seenRemoteRecv_quiet _ _ _)))
  · have h := cldHandleRequest_eff a now m l r g hs
    exact h0.comp (r' := (_, _)) (h.then_quiet (seenRemoteRecv_quiet _ _ _))

theorem hiRole_eff {a0 : Agent} (a : Agent) (now : Nat) (m : Msg) (l r : Cand) (o0 : List Out)
    (h0 : SelEff okInb a0 (a, o0)) (hs : a.started = true) : SelEff okInb a0 (hiRole a now m l r o0) := by
  unfold hiRole
  have g : Good a := h0.good
  split
  · split
    · split
      · simp only
        have := h0.comp (r' := (a.seenLocalSent l.uid now, [Out.dgram l.addr r.addr { cls := 3, tid := m.tid, key := some a.localPwd, errCode := some 487 }]))
          (SelEff.of_quiet g ⟨seenLocalSent_quiet _ _ _, rfl⟩)
        exact this
      · exact h0.then_quiet (c := ({ a with controlling := !a.controlling } : Agent).resetSelector now)
          ⟨⟨rfl, rfl, rfl, rfl, fun h => h⟩, rfl, rfl, rfl, rfl⟩
    · exact hiReq_eff a now m l r o0 h0 hs
  · exact hiReq_eff a now m l r o0 h0 hs

theorem handleInbound_eff (a : Agent) (now : Nat) (l : Cand) (src : Nat) (m : Msg) (g : Good a) (hs : a.started = true) :
    SelEff okInb a (a.handleInbound now l src m) := by
  rw [hi_eq]
  split
  · exact SelEff.refl g
  · simp only
    split
    · split
      · exact SelEff.refl g
      · split
        · exact SelEff.refl g
        · exact (handleSuccess_eff a now m l _ src g hs).then_quiet (seenRemoteRecv_quiet _ _ _)
    · split
      · split
        · exact SelEff.refl g
        · split
          · exact SelEff.refl g
          · have h := (hiDiscover_eff a l src m (a.findRemote l.net src) g).mono (ok' := okInb) (fun s h => by unfold okResel at h; unfold okInb; simp at h; simp [h])
            generalize hiDiscover a l src m (a.findRemote l.net src) = x at h
            obtain ⟨b, o0, rc⟩ := x
            simp only at h ⊢
            split
            · exact h
            · exact hiRole_eff b now m l _ o0 h (h.frame.started.trans hs)
      · split
        · exact SelEff.of_quiet g ⟨seenRemoteRecv_quiet _ _ _, rfl⟩
        · exact SelEff.refl g
end IceProofs.AgentC04
