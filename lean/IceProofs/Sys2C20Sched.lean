import IceProofs.Sys2C20Inv
/-!
# C20 on `Sys2` — induction principle over the schedules of an exchange

`sched_run`: a predicate `R h s` on (history, system state) that implies `Session`, is indifferent to the clock and to
the removal of datagrams in flight, and is preserved by one agent event — an API call, a timer tick, or the delivery of
a datagram about which `R` knows `D` — is preserved by every system event that is neither Restart nor Close, keeps the
session and issues no nomination with value 0.
-/
namespace IceProofs.C20S
open IceModel.AgentCore IceModel.Sys2 IceProofs.Sys2Run IceProofs.Agent IceProofs.Sys2C05

/-- a filter on API events, lifted to system events (hub events always pass) -/
def sysK (K : Ev → Bool) : SysEv → Bool
  | .api _ e => K e
  | _ => true

/-- Restart and Close are outside an exchange -/
def sysKeeps : SysEv → Bool := sysK keeps

theorem keeps_of_not_api {ev : Ev} (h : ev.isApi = false) : keeps ev = true := by
  cases ev <;> first | rfl | cases h

theorem isApi_not_inbound {ev : Ev} (h : ev.isApi = true) : ∀ now la src m, ev ≠ .inbound now la src m := by
  intro now la src m heq
  subst heq
  cases h


/-- history after the hub hands datagram `d` over in state `s` -/
def hstepHand (h : Hist) (s : Sys) (d : Dgram) : Hist :=
  if s.blocked.contains (d.src, d.dst) then h
  else match s.owner (s.unmapped d.dst) with
    | none => h
    | some X => hstep h X (s.agent X) (evOf s d)

theorem hstepSys_api (h : Hist) (s : Sys) (X : Bool) (ev : Ev) :
    hstepSys h s (.api X ev) = if ev.isApi then hstep h X (s.agent X) ev else h := by
  simp only [hstepSys, microEvs]
  split <;> rfl

theorem hstepSys_deliver (h : Hist) (s : Sys) (k : Nat) :
    hstepSys h s (.deliver k) = match s.inflight[k]? with | none => h | some d => hstepHand h s d := by
  simp only [hstepSys, microEvs, hstepHand]
  cases s.inflight[k]? with
  | none => rfl
  | some d =>
    simp only []
    split
    · rfl
    · cases s.owner (s.unmapped d.dst) <;> rfl

theorem hstepSys_dup (h : Hist) (s : Sys) (k : Nat) :
    hstepSys h s (.dup k) = match s.inflight[k]? with | none => h | some d => hstepHand h s d := by
  simp only [hstepSys, microEvs, hstepHand]
  cases s.inflight[k]? with
  | none => rfl
  | some d =>
    simp only []
    split
    · rfl
    · cases s.owner (s.unmapped d.dst) <;> rfl

theorem hstepSys_drop (h : Hist) (s : Sys) (k : Nat) : hstepSys h s (.drop k) = h := rfl

theorem hstepSys_advance (h : Hist) (s : Sys) (now : Nat) :
    hstepSys h s (.advance now) =
      if s.hasB then hstep (hstep h false s.a (.advance now)) true s.b (.advance now)
      else hstep h false s.a (.advance now) := by
  simp only [hstepSys, microEvs]
  cases s.hasB <;> rfl

theorem agentEv_nat' (s : Sys) (X : Bool) (e : Ev) : (s.agentEv X e).1.nat = s.nat := (agentEv_topo s X e).1

section
variable (K : Ev → Bool) (R : Hist → Sys → Prop) (D : Hist → Sys → Dgram → Prop) (Z : List Nomination → Prop)

/-- what `sched_run` asks of `R` (`K` = the API events allowed; hub events are always allowed; `Z` = what is assumed of the
log of issued nominations after the event) -/
structure SchedOKZ : Prop where
  hub : ∀ ev, ev.isApi = false → K ev = true
  sess : ∀ h s, R h s → Session s
  dgram : ∀ h s, R h s → ∀ d ∈ s.inflight, D h s d
  dframe : ∀ h s s' d, D h s d → s'.a = s.a → s'.b = s.b → s'.nat = s.nat → D h s' d
  frame : ∀ h s s', R h s → s'.a = s.a → s'.b = s.b → s'.nat = s.nat → (∀ d ∈ s'.inflight, d ∈ s.inflight) → R h s'
  agent : ∀ h s X ev, R h s → K ev = true →
    ((∀ now la src m, ev ≠ .inbound now la src m) ∨ ∃ d, D h s d ∧ ev = evOf s d) →
    Session (s.agentEv X ev).1 → Z (hstep h X (s.agent X) ev).issued →
    R (hstep h X (s.agent X) ev) (s.agentEv X ev).1

/-- … with "every value issued is positive" for `Z` -/
abbrev SchedOK : Prop := SchedOKZ K R D (fun l => ∀ x ∈ l, 0 < x.1)

variable {K R D Z}

theorem sched_handOver (ok : SchedOKZ K R D Z) {h : Hist} {s1 : Sys} (q : R h s1) (d : Dgram) (hd : D h s1 d)
    (hsess : Session (s1.handOver d).1) (hz : Z (hstepHand h s1 d).issued) :
    R (hstepHand h s1 d) (s1.handOver d).1 := by
  unfold hstepHand at hz ⊢
  rw [handOver_eq] at hsess ⊢
  by_cases hb : s1.blocked.contains (d.src, d.dst) = true
  · rw [if_pos hb]; rw [if_pos hb]; exact q
  · rw [if_neg hb] at hsess hz ⊢
    rw [if_neg hb]
    cases ho : s1.owner (s1.unmapped d.dst) with
    | none => exact q
    | some X =>
      rw [ho] at hsess hz
      have hk : K (evOf s1 d) = true := ok.hub _ (by unfold evOf; cases d.p <;> rfl)
      have hs' : Session (s1.agentEv X (evOf s1 d)).1 := by
        cases X
        · exact hsess
        · exact hsess
      have := ok.agent h s1 X (evOf s1 d) q hk (Or.inr ⟨d, hd, rfl⟩) hs' hz
      cases X
      · exact this
      · exact this

/-- the two timer ticks of `advance` -/
theorem sched_advance (ok : SchedOKZ K R D Z) {h : Hist} {s : Sys} (q : R h s) (now : Nat)
    (hsess : Session (Sys.run s (.advance now)))
    (hz : Z (if s.hasB then hstep (hstep h false s.a (.advance now)) true s.b (.advance now)
                 else hstep h false s.a (.advance now)).issued) :
    R (if s.hasB then hstep (hstep h false s.a (.advance now)) true s.b (.advance now)
       else hstep h false s.a (.advance now)) (Sys.run s (.advance now)) := by
  have hrun : Sys.run s (.advance now) = (s.advance now).1 := rfl
  rw [hrun] at hsess ⊢
  rw [advance_eq] at hsess ⊢
  generalize hs0 : ({ s with now := now } : Sys) = s0 at hsess ⊢
  have ha0 : s0.a = s.a := by rw [← hs0]
  have hb0 : s0.b = s.b := by rw [← hs0]
  have hh0 : s0.hasB = s.hasB := by rw [← hs0]
  have q0 : R h s0 := ok.frame h s s0 q ha0 hb0 (by rw [← hs0]) (fun x hx => by rw [← hs0] at hx; exact hx)
  have hB : (s0.agentEv false (.advance now)).1.hasB = s.hasB := hh0 ▸ (agentEv_topo s0 false (.advance now)).2.2
  rw [hB] at hsess ⊢
  rw [← ha0, ← hb0] at hz ⊢
  have hni : ∀ n la src m, Ev.advance now ≠ .inbound n la src m := by intro n la src m hh; cases hh
  have hkk : K (.advance now) = true := ok.hub _ rfl
  cases hh : s.hasB with
  | false =>
    rw [hh] at hsess hz
    rw [if_neg (by simp)] at hsess hz ⊢
    rw [if_neg (by simp)]
    exact ok.agent h s0 false (.advance now) q0 hkk (Or.inl hni) hsess hz
  | true =>
    rw [hh] at hsess hz
    rw [if_pos rfl] at hsess hz ⊢
    rw [if_pos rfl]
    -- A's tick: its post-state is A's state in the final state
    have hsA : Session (s0.agentEv false (.advance now)).1 := by
      obtain ⟨h1, h2, h3, h4, h5, h6, h7, h8, h9⟩ := ok.sess h s0 q0
      obtain ⟨g1, g2, g3, g4, g5, g6, g7, g8, g9⟩ := hsess
      exact ⟨g1, h2, g3, h4, g5, h6, g7, h8, h9⟩
    have hzA : Z (hstep h false s0.a (.advance now)).issued := hz
    have q1 := ok.agent h s0 false (.advance now) q0 hkk (Or.inl hni) hsA hzA
    generalize hs1 : (s0.agentEv false (.advance now)).1 = s1 at hsess q1 ⊢
    have hb1 : s1.b = s0.b := by rw [← hs1]; exact rfl
    have q2 := ok.agent _ s1 true (.advance now) q1 hkk (Or.inl hni) hsess (by
      have e : s1.agent true = s0.b := hb1
      rw [e]; exact hz)
    have e : s1.agent true = s0.b := hb1
    rw [e] at q2
    exact q2

/-- **One system event.** -/
theorem sched_run (ok : SchedOKZ K R D Z) {h : Hist} {s : Sys} (q : R h s) (e : SysEv)
    (hk : sysK K e = true) (hsess : Session (Sys.run s e)) (hz : Z (hstepSys h s e).issued) :
    R (hstepSys h s e) (Sys.run s e) := by
  cases e with
  | api X ev =>
    rw [hstepSys_api] at hz ⊢
    simp only [Sys.run, Sys.runOut] at hsess ⊢
    by_cases hapi : ev.isApi = true
    · rw [if_pos hapi] at hsess hz ⊢
      rw [if_pos hapi]
      have hs' : Session (s.agentEv X ev).1 := by
        cases X
        · exact hsess
        · exact hsess
      have := ok.agent h s X ev q hk (Or.inl (isApi_not_inbound hapi)) hs' hz
      cases X
      · exact this
      · exact this
    · rw [if_neg hapi]; rw [if_neg hapi]; exact q
  | deliver k =>
    rw [hstepSys_deliver] at hz ⊢
    show R _ (s.deliver k false).1
    have hsess' : Session (s.deliver k false).1 := hsess
    rw [deliver_eq] at hsess' ⊢
    cases hkk : s.inflight[k]? with
    | none => exact q
    | some d =>
      rw [hkk] at hsess' hz
      have hmem : d ∈ s.inflight := List.mem_of_getElem? hkk
      have q1 : R h ({ s with inflight := removeAt s.inflight k } : Sys) :=
        ok.frame h s _ q rfl rfl rfl (fun x hx => mem_removeAt hx)
      have hd1 : D h ({ s with inflight := removeAt s.inflight k } : Sys) d :=
        ok.dframe h s _ d (ok.dgram h s q d hmem) rfl rfl rfl
      exact sched_handOver ok q1 d hd1 hsess' hz
  | dup k =>
    rw [hstepSys_dup] at hz ⊢
    show R _ (s.deliver k true).1
    have hsess' : Session (s.deliver k true).1 := hsess
    rw [deliver_eq] at hsess' ⊢
    cases hkk : s.inflight[k]? with
    | none => exact q
    | some d =>
      rw [hkk] at hsess' hz
      have hmem : d ∈ s.inflight := List.mem_of_getElem? hkk
      exact sched_handOver ok q d (ok.dgram h s q d hmem) hsess' hz
  | drop k =>
    exact ok.frame h s _ q rfl rfl rfl (fun x hx => mem_removeAt hx)
  | advance now =>
    rw [hstepSys_advance] at hz ⊢
    exact sched_advance ok q now hsess hz

end

/-! ## the same without history and session: predicates on system states along ALL schedules -/

section
variable (Q : Sys → Prop) (D : Sys → Dgram → Prop)

structure ClosOK : Prop where
  dgram : ∀ s, Q s → ∀ d ∈ s.inflight, D s d
  dframe : ∀ s s' d, D s d → s'.a = s.a → s'.b = s.b → D s' d
  frame : ∀ s s', Q s → s'.a = s.a → s'.b = s.b → (∀ d ∈ s'.inflight, d ∈ s.inflight) → Q s'
  agent : ∀ s X ev, Q s → ((∀ now la src m, ev ≠ .inbound now la src m) ∨ ∃ d, D s d ∧ ev = evOf s d) →
    Q (s.agentEv X ev).1

variable {Q D}

theorem clos_handOver (ok : ClosOK Q D) {s1 : Sys} (q : Q s1) (d : Dgram) (hd : D s1 d) : Q (s1.handOver d).1 := by
  rw [handOver_eq]
  split
  · exact q
  · split
    · exact q
    · rename_i X _
      have := ok.agent s1 X (evOf s1 d) q (Or.inr ⟨d, hd, rfl⟩)
      cases X
      · exact this
      · exact this

theorem clos_run (ok : ClosOK Q D) {s : Sys} (q : Q s) (e : SysEv) : Q (Sys.run s e) := by
  cases e with
  | api X ev =>
    simp only [Sys.run, Sys.runOut]
    by_cases hapi : ev.isApi = true
    · rw [if_pos hapi]
      have := ok.agent s X ev q (Or.inl (isApi_not_inbound hapi))
      cases X
      · exact this
      · exact this
    · rw [if_neg hapi]; exact q
  | deliver k =>
    show Q (s.deliver k false).1
    rw [deliver_eq]
    cases hkk : s.inflight[k]? with
    | none => exact q
    | some d =>
      have hmem : d ∈ s.inflight := List.mem_of_getElem? hkk
      have q1 : Q ({ s with inflight := removeAt s.inflight k } : Sys) :=
        ok.frame s _ q rfl rfl (fun x hx => mem_removeAt hx)
      exact clos_handOver ok q1 d (ok.dframe s _ d (ok.dgram s q d hmem) rfl rfl)
  | dup k =>
    show Q (s.deliver k true).1
    rw [deliver_eq]
    cases hkk : s.inflight[k]? with
    | none => exact q
    | some d => exact clos_handOver ok q d (ok.dgram s q d (List.mem_of_getElem? hkk))
  | drop k => exact ok.frame s _ q rfl rfl (fun x hx => mem_removeAt hx)
  | advance now =>
    show Q (s.advance now).1
    rw [advance_eq]
    have q0 : Q ({ s with now := now } : Sys) := ok.frame s _ q rfl rfl (fun x hx => hx)
    have hni : ∀ n la src m, Ev.advance now ≠ .inbound n la src m := by intro n la src m hh; cases hh
    have q1 := ok.agent _ false (.advance now) q0 (Or.inl hni)
    split
    · exact ok.agent _ true (.advance now) q1 (Or.inl hni)
    · exact q1

theorem clos_runs (ok : ClosOK Q D) {s : Sys} (q : Q s) (es : List SysEv) : Q (Sys.runs s es) := by
  induction es generalizing s with
  | nil => exact q
  | cons e es ih =>
    simp only [Sys.runs, List.foldl_cons]
    exact ih (clos_run ok q e)

end

end IceProofs.C20S
