import IceProofs.Sys2C01LiveFairSys
import IceProofs.AgentC07Ctl
/-!
# C01 liveness, layer 18b — a clock advance (timer ticks) makes no remote address known
-/
namespace IceProofs.C01Live
open IceModel.AgentCore IceModel.Sys2 IceProofs.Sys2Run IceProofs.C01 IceProofs.Agent IceProofs.C03

/-- a lookup by network type and address misses on a list with the same `(uid, net, addr)` keys -/
theorem find?_netAddr_none_of_key {l l' : List Cand}
    (h : l'.map IceProofs.AgentC07.ckey = l.map IceProofs.AgentC07.ckey) (net x : Nat)
    (hc : l.find? (fun c => c.net == net && c.addr == x) = none) :
    l'.find? (fun c => c.net == net && c.addr == x) = none := by
  induction l generalizing l' with
  | nil =>
    cases l' with
    | nil => rfl
    | cons _ _ => simp at h
  | cons y ys ih =>
    cases l' with
    | nil => simp at h
    | cons y' ys' =>
      simp only [List.map_cons, List.cons.injEq] at h
      obtain ⟨hy, hys⟩ := h
      have hn : y'.net = y.net := congrArg (fun k => k.2.1) hy
      have ha : y'.addr = y.addr := congrArg (fun k => k.2.2) hy
      rw [List.find?_cons] at hc ⊢
      rw [hn, ha]
      split at hc
      · cases hc
      · exact ih hys hc

/-- the timer path keeps the remote keys or wipes the remote list: an unknown address stays unknown -/
theorem runTimers_unknown (a : Agent) (T fuel : Nat) {net x : Nat} (h : a.findRemote net x = none) :
    (a.runTimers T fuel).1.findRemote net x = none := by
  rcases (IceProofs.AgentC07.Fr_runTimers a T fuel).cands with hk | hw
  · exact find?_netAddr_none_of_key hk.2.1 net x h
  · unfold Agent.findRemote
    rw [hw.2.1]
    rfl

section
variable {T0 H T : Nat} {a : Agent}

set_option linter.unusedVariables false in
/-- the timer ticks of a clock advance add no remote candidate (they only stamp candidates): an address unknown before
is unknown after
(`Good` and the horizon bound are not needed: the frame `AgentC07.Fr_runTimers` is unconditional) -/
theorem advance_unknown (hg : Good T0 H a) (hT : T ≤ H) {net x : Nat} (h : a.findRemote net x = none) :
    (step a (.advance T)).1.findRemote net x = none :=
  runTimers_unknown a T 100000 h

end

end IceProofs.C01Live
