import IceProofs.AgentC02
import IceProofs.AgentC02Frame
/-!
# C02 at the level of `step`: the quiescence invariant and the transaction-id frame of every event
-/
namespace IceProofs.AgentC02
open IceModel.AgentCore

/-- Quiescence: a running agent has no forced tick waiting.  (`step` runs a forced tick at the end of the
event that requested it, so between events nothing is waiting.) -/
def Q (a : Agent) : Prop := a.started → ¬ a.closed → a.forcePending = false

instance (a : Agent) : Decidable (Q a) := by unfold Q; infer_instance

theorem Q_of_frame {a b : Agent} (h : Frame a b) (q : Q a) : Q b := by
  unfold Q at *
  rw [h.started, h.closed, h.fp]
  exact q

theorem Q_runForced (a : Agent) (now : Nat) : Q (a.runForced now).1 := by
  rcases runForced_cases a now with ⟨h, hn⟩ | ⟨h, _, _⟩
  · rw [h]
    intro h1 h2
    cases hf : a.forcePending with
    | false => rfl
    | true => exact absurd ⟨h1, by simpa using h2, hf⟩ hn
  · intro _ _
    exact h

theorem Q_of_closed {a : Agent} (h : a.closed = true) : Q a := fun _ h2 => absurd h h2

/-- `Q` is preserved by every event, from ANY state satisfying it. -/
theorem Q_step (a : Agent) (ev : Ev) (q : Q a) : Q (step a ev).1 := by
  cases ev with
  | addLocal now c =>
    show Q ((a.addLocalCandidate c).1.runForced now).1
    exact Q_runForced _ _
  | addRemote now c =>
    simp only [step]
    split
    · exact q
    · split
      · exact q
      · exact Q_runForced _ _
  | start now ctl ru rp =>
    simp only [step]
    repeat' split
    all_goals first
      | exact q
      | exact Q_runForced _ _
  | setRemoteCreds ru rp =>
    simp only [step]
    repeat' split
    all_goals exact q
  | advance now => exact Q_of_frame (frame_runTimers a now _) q
  | inbound now la src m =>
    simp only [step]
    repeat' split
    all_goals first
      | exact q
      | exact Q_runForced _ _
  | inboundData now la src len s =>
    simp only [step]
    repeat' split
    all_goals first
      | exact q
      | exact Q_of_frame (frame_inboundData _ _ _ _ _) q
  | write now len s => exact Q_of_frame (frame_write _ _ _ _) q
  | writeToPair now id len s => exact Q_of_frame (frame_writeToPair _ _ _ _ _) q
  | read =>
    simp only [step]
    repeat' split
    all_goals exact q
  | renominate now la ri v =>
    simp only [step]
    repeat' split
    all_goals first
      | exact q
      | exact Q_of_frame ((frame_sendRequest _ _ _ _ _ _).congr rfl rfl rfl rfl rfl rfl) q
  | restart now u p =>
    simp only [step]
    split
    · exact q
    · exact Q_of_frame (frame_doRestart _ _ _ _) q
  | close =>
    simp only [step]
    split
    · exact q
    · apply Q_of_closed
      exact (frame_setConnState _ _).closed

/-! ## Transaction ids across every event -/

theorem tid_fields {a b : Agent} (h4 : b.tag = a.tag) (h5 : b.nextTid = a.nextTid) (h6 : b.pending = a.pending) :
    TidFrame a b := TidFrame.of_fields h4 h5 (fun _ h => h6 ▸ h)

theorem tid_step (a : Agent) (ev : Ev) : TidFrame a (step a ev).1 := by
  cases ev with
  | addLocal now c =>
    simp only [step]
    exact (tid_addLocalCandidate _ _).trans (tid_runForced _ _)
  | addRemote now c =>
    simp only [step]
    split
    · exact TidFrame.refl _
    · split
      · exact TidFrame.refl _
      · exact (tid_addRemoteCandidate _ _).trans (tid_runForced _ _)
  | start now ctl ru rp =>
    simp only [step]
    repeat' split
    all_goals try exact TidFrame.refl _
    refine TidFrame.trans ?_ (tid_runForced _ _)
    have h := frame_setConnState (({ a with controlling := ctl, remoteUfrag := ru, remotePwd := rp, started := true } : Agent).resetSelector now) .checking
    exact ⟨h.tag, h.tid, h.pend⟩
  | setRemoteCreds ru rp =>
    simp only [step]
    repeat' split
    all_goals first
      | exact TidFrame.refl _
      | exact tid_fields rfl rfl rfl
  | advance now => exact (frame_runTimers a now _).toTidFrame
  | inbound now la src m =>
    simp only [step]
    repeat' split
    all_goals first
      | exact TidFrame.refl _
      | exact (tid_handleInbound _ _ _ _ _).trans (tid_runForced _ _)
  | inboundData now la src len s =>
    simp only [step]
    repeat' split
    all_goals first
      | exact TidFrame.refl _
      | exact (frame_inboundData _ _ _ _ _).toTidFrame
  | write now len s => exact (frame_write _ _ _ _).toTidFrame
  | writeToPair now id len s => exact (frame_writeToPair _ _ _ _ _).toTidFrame
  | read =>
    simp only [step]
    repeat' split
    all_goals first
      | exact TidFrame.refl _
      | exact tid_fields rfl rfl rfl
  | renominate now la ri v =>
    simp only [step]
    repeat' split
    all_goals first
      | exact TidFrame.refl _
      | exact Frame.toTidFrame (Frame.congr (frame_sendRequest _ _ _ _ _ _) rfl rfl rfl rfl rfl rfl)
  | restart now u p =>
    simp only [step]
    split
    · exact TidFrame.refl _
    · exact (frame_doRestart _ _ _ _).toTidFrame
  | close =>
    simp only [step]
    split
    · exact TidFrame.refl _
    · refine TidFrame.trans ?_ (frame_setConnState _ _).toTidFrame
      exact tid_fields rfl rfl rfl

/-- the state after a list of events -/
def run (a : Agent) (evs : List Ev) : Agent := evs.foldl (fun a e => (step a e).1) a

theorem tid_run (a : Agent) (evs : List Ev) : TidFrame a (run a evs) := by
  unfold run
  induction evs generalizing a with
  | nil => exact TidFrame.refl _
  | cons e es ih => exact (tid_step a e).trans (ih _)

theorem Q_run (a : Agent) (evs : List Ev) (q : Q a) : Q (run a evs) := by
  unfold run
  induction evs generalizing a with
  | nil => exact q
  | cons e es ih => exact ih _ (Q_step a e q)

/-! ## Restart -/

theorem doRestart_fields (a : Agent) (now : Nat) (u p : String) :
    (a.doRestart now u p).1.pending = [] ∧ (a.doRestart now u p).1.localUfrag = u ∧
    (a.doRestart now u p).1.localPwd = p ∧ (a.doRestart now u p).1.remoteUfrag = "" ∧
    (a.doRestart now u p).1.remotePwd = "" ∧ (a.doRestart now u p).1.remotes = [] ∧
    (a.doRestart now u p).1.nextTid = a.nextTid ∧ (a.doRestart now u p).1.tag = a.tag := by
  unfold Agent.doRestart
  dsimp only
  split
  · unfold Agent.setConnState
    split
    · exact ⟨rfl, rfl, rfl, rfl, rfl, rfl, rfl, rfl⟩
    · rw [if_neg (by decide)]
      exact ⟨rfl, rfl, rfl, rfl, rfl, rfl, rfl, rfl⟩
  · exact ⟨rfl, rfl, rfl, rfl, rfl, rfl, rfl, rfl⟩

theorem step_restart (a : Agent) (now : Nat) (u p : String) (hc : a.closed = false) :
    (step a (.restart now u p)).1 = (a.doRestart now u p).1 := by
  simp only [step, hc]
  rfl

/-! ## `step` on inbound STUN -/

theorem step_inbound_inactive (a : Agent) (now la src : Nat) (m : Msg) (h : a.started = false ∨ a.closed = true) :
    step a (.inbound now la src m) = (a, []) := by
  simp only [step]
  rcases h with h | h <;> simp [h]

theorem step_inbound_nolocal (a : Agent) (now la src : Nat) (m : Msg) (h : a.localByAddr la = none) :
    step a (.inbound now la src m) = (a, []) := by
  simp only [step, h]
  split <;> rfl

/-- a running, quiescent agent: `step` on an inbound STUN message is `handleInbound` on the receiving local
candidate whenever that emits nothing and leaves `forcePending` alone -/
theorem step_inbound_active (a : Agent) (now la src : Nat) (m : Msg) (l : Cand) (b : Agent)
    (hs : a.started = true) (hc : a.closed = false) (hf : a.forcePending = false)
    (hl : a.localByAddr la = some l) (hb : a.handleInbound now l src m = (b, []))
    (h3 : b.forcePending = a.forcePending) :
    step a (.inbound now la src m) = (b, []) := by
  simp only [step, hs, hc, hl, hb]
  have : b.runForced now = (b, []) := by
    unfold Agent.runForced
    simp [h3, hf]
  simp [this]

/-- if `handleInbound` is a no-op on every local candidate, `step` is a no-op for a quiescent agent -/
theorem step_inbound_noop (a : Agent) (now la src : Nat) (m : Msg) (q : Q a)
    (hb : ∀ l, a.handleInbound now l src m = (a, [])) :
    step a (.inbound now la src m) = (a, []) := by
  cases hs : a.started with
  | false => exact step_inbound_inactive a now la src m (Or.inl hs)
  | true =>
    cases hc : a.closed with
    | true => exact step_inbound_inactive a now la src m (Or.inr hc)
    | false =>
      cases hl : a.localByAddr la with
      | none => exact step_inbound_nolocal a now la src m hl
      | some l =>
        exact step_inbound_active a now la src m l a hs hc (q (by simp [hs]) (by simp [hc])) hl (hb l) rfl

end IceProofs.AgentC02
