import IceProofs.AgentC05
import IceProofs.AgentAuto
/-!
# What an agent puts on the wire with a role attribute (for the two-agent part of C05)

`step_outs`: for EVERY agent state and event, every datagram emitted by `step` that carries a role
attribute (ICE-CONTROLLING / ICE-CONTROLLED) carries the agent's OWN tie-breaker and is keyed with the
agent's remote password (the one in force after the step; `.start` installs the credentials before
the first check goes out).  Role attributes are written in one place only (`sendRequest`); responses
(success, 487) carry none.

`step_remotePwd`, `step_localPwd`, `step_started`: who writes the passwords and the started flag.

Proof engineering: `OutsOK tb rp o` is threaded through every helper of `step` exactly like the frame
lemmas `core_*` of `AgentC05Frame`; `ok_cases` splits a helper, substitutes the destructured results of
sub-calls by projections (`pair_subst`) and lets `simp` finish with the `ok_*` / `core_*` lemmas.
-/
namespace IceProofs.Sys2C05
open IceModel.AgentCore IceProofs.Agent

/-- an output that carries a role attribute carries tie-breaker `tb` and is keyed with `rp` -/
def ReqOK (tb : Nat) (rp : String) : Out → Prop
  | .dgram _ _ m => ∀ c t, m.role = some (c, t) → t = tb ∧ m.key = some rp
  | _ => True

def OutsOK (tb : Nat) (rp : String) (o : List Out) : Prop := ∀ x ∈ o, ReqOK tb rp x

/-- the same, reading tie-breaker and remote password off an agent projection -/
def OutsOKc (c : Core) (o : List Out) : Prop := OutsOK c.tieBreaker c.remotePwd o

@[simp] theorem OutsOK_nil (tb : Nat) (rp : String) : OutsOK tb rp [] := by simp [OutsOK]
@[simp] theorem OutsOK_append (tb : Nat) (rp : String) (o1 o2 : List Out) :
    OutsOK tb rp (o1 ++ o2) ↔ OutsOK tb rp o1 ∧ OutsOK tb rp o2 := by
  simp only [OutsOK, List.mem_append]
  constructor
  · intro h; exact ⟨fun x hx => h x (Or.inl hx), fun x hx => h x (Or.inr hx)⟩
  · rintro ⟨h1, h2⟩ x (hx | hx)
    · exact h1 x hx
    · exact h2 x hx
@[simp] theorem OutsOK_cons (tb : Nat) (rp : String) (x : Out) (o : List Out) :
    OutsOK tb rp (x :: o) ↔ ReqOK tb rp x ∧ OutsOK tb rp o := by
  simp [OutsOK]
@[simp] theorem OutsOKc_nil (c : Core) : OutsOKc c [] := OutsOK_nil _ _
@[simp] theorem OutsOKc_append (c : Core) (o1 o2 : List Out) : OutsOKc c (o1 ++ o2) ↔ OutsOKc c o1 ∧ OutsOKc c o2 :=
  OutsOK_append _ _ _ _
@[simp] theorem OutsOKc_cons (c : Core) (x : Out) (o : List Out) :
    OutsOKc c (x :: o) ↔ ReqOK c.tieBreaker c.remotePwd x ∧ OutsOKc c o := OutsOK_cons _ _ _ _
@[simp] theorem ReqOK_res (tb : Nat) (rp : String) (s : String) : ReqOK tb rp (.res s) := trivial
@[simp] theorem ReqOK_cbState (tb : Nat) (rp : String) (s : ConnState) : ReqOK tb rp (.cbState s) := trivial
@[simp] theorem ReqOK_cbPair (tb : Nat) (rp : String) (x y : Nat) : ReqOK tb rp (.cbPair x y) := trivial
@[simp] theorem ReqOK_cbCand (tb : Nat) (rp : String) (x : Nat) : ReqOK tb rp (.cbCand x) := trivial
@[simp] theorem ReqOK_data (tb : Nat) (rp : String) (x y z : Nat) : ReqOK tb rp (.data x y z) := trivial
/-- a datagram without role attribute (responses) -/
theorem ReqOK_norole (tb : Nat) (rp : String) (f t : Nat) (m : Msg) (h : m.role = none) : ReqOK tb rp (.dgram f t m) := by
  intro c x hx; rw [h] at hx; cases hx

/-! ## automation -/

open Lean Elab Tactic Meta in
/-- find a hypothesis `h : e = (…, x, …)` whose right-hand side is a (nested) pair with a free variable `x` as a
component, and substitute `x := <that projection of e>` everywhere (proof automation only). -/
elab "pair_subst1" : tactic => withMainContext do
  let g ← getMainGoal
  let lctx ← getLCtx
  for d in lctx do
    if d.isImplementationDetail then continue
    let ty ← instantiateMVars d.type
    if let some (_, lhs, rhs) := ty.eq? then
      if lhs.isFVar then continue
      -- candidate components: (projection builder, component)
      let rec comps (e : Expr) (proj : Expr → MetaM Expr) (fuel : Nat) : MetaM (List ((Expr → MetaM Expr) × Expr)) := do
        match fuel with
        | 0 => return []
        | fuel + 1 =>
          if e.isAppOfArity ``Prod.mk 4 then
            let l ← comps (e.getArg! 2) (fun z => do mkAppM ``Prod.fst #[← proj z]) fuel
            let r ← comps (e.getArg! 3) (fun z => do mkAppM ``Prod.snd #[← proj z]) fuel
            return l ++ r
          else return [(proj, e)]
      if !rhs.isAppOfArity ``Prod.mk 4 then continue
      let cs ← comps rhs (fun z => pure z) 4
      for (proj, x) in cs do
        if !x.isFVar then continue
        if lhs.containsFVar x.fvarId! then continue
        -- x = proj lhs, proved by congrArg proj h
        let pl ← proj lhs
        let eqTy ← mkEq x pl
        let f ← withLocalDeclD `z (← inferType lhs) fun z => do mkLambdaFVars #[z] (← proj z)
        let pf ← mkEqSymm (← mkCongrArg f d.toExpr)
        let pf ← mkExpectedTypeHint pf eqTy
        let g ← g.assert `hps eqTy pf
        let (h, g) ← g.intro1
        let g ← subst g h
        replaceMainGoal [g]
        return
  throwError "pair_subst1: nothing to do"

macro "pair_subst" : tactic => `(tactic| repeat pair_subst1)

/-- split every `if`/`match`, replace destructured results by projections, simplify -/
macro "ok_cases" : tactic =>
  `(tactic| ((try simp only []); (repeat' split) <;> (pair_subst; (try simp at *) <;> (try simp_all))))

/-! ## non-`rfl` copies of the `rfl` frame lemmas

`simp` discharges the side condition `x.core = c` of the `ok_*` lemmas below by rewriting with the `core_*`
lemmas.  A side condition closed by definitional (`rfl`) lemmas alone yields a proof whose type matches only
after unfolding `Agent.core`, which `simp` refuses to assign; these propositional copies (tried first) avoid that. -/
@[simp high] theorem core_mk' (cfg tieBreaker controlling started closed connState localUfrag localPwd remoteUfrag remotePwd
    locals remotes checklist nextPairID nextUid nextTid tag pending selected selStart nominatedPair lastNomination answeredNomination
    lastSeen checkingStart checkingTimeout forcePending nextTick caches rx connBytesSent connBytesRecv
    onConnectedFired generation nomIssued lastRenomTime nomCounter) :
    (Agent.mk cfg tieBreaker controlling started closed connState localUfrag localPwd remoteUfrag remotePwd
    locals remotes checklist nextPairID nextUid nextTid tag pending selected selStart nominatedPair lastNomination answeredNomination
    lastSeen checkingStart checkingTimeout forcePending nextTick caches rx connBytesSent connBytesRecv
    onConnectedFired generation nomIssued lastRenomTime nomCounter).core = ⟨cfg, tieBreaker, tag, controlling, lastNomination, localUfrag, localPwd,
      remoteUfrag, remotePwd, started, closed⟩ := (core_mk ..).trans rfl
@[simp high] theorem core_eta' (y : Agent) : Core.mk y.cfg y.tieBreaker y.tag y.controlling y.lastNomination y.localUfrag
    y.localPwd y.remoteUfrag y.remotePwd y.started y.closed = y.core := (core_eta y).trans rfl
@[simp high] theorem core_modPair' (a : Agent) (id : Nat) (f : Pair → Pair) : (a.modPair id f).core = a.core :=
  (core_modPair a id f).trans rfl
@[simp high] theorem core_seenLocalSent' (a : Agent) (u n : Nat) : (a.seenLocalSent u n).core = a.core :=
  (core_seenLocalSent a u n).trans rfl
@[simp high] theorem core_seenRemoteRecv' (a : Agent) (u n : Nat) : (a.seenRemoteRecv u n).core = a.core :=
  (core_seenRemoteRecv a u n).trans rfl
@[simp high] theorem core_invalidatePending' (a : Agent) (n : Nat) : (a.invalidatePending n).core = a.core :=
  (core_invalidatePending a n).trans rfl
@[simp high] theorem core_wipe' (a : Agent) : a.wipe.core = a.core := (core_wipe a).trans rfl
@[simp high] theorem core_requestCheck' (a : Agent) : a.requestCheck.core = a.core := (core_requestCheck a).trans rfl
@[simp high] theorem core_addPair' (a : Agent) (l r : Cand) : (a.addPair l r).1.core = a.core := (core_addPair a l r).trans rfl

/-! ## primitive outputs -/

@[simp] theorem ok_setConnState (a : Agent) (s : ConnState) (c : Core) : OutsOKc c (a.setConnState s).2 := by
  unfold Agent.setConnState
  split
  · simp
  · simp

@[simp] theorem ok_select (a : Agent) (id : Nat) (c : Core) : OutsOKc c (a.select id).2 := by
  unfold Agent.select
  simp

@[simp] theorem ok_sendRequest (a : Agent) (now : Nat) (l r : Cand) (u : Bool) (n : Option Nat) {c : Core}
    (h : a.core = c) : OutsOKc c (a.sendRequest now l r u n).2 := by
  subst h
  unfold Agent.sendRequest
  simp only [OutsOKc_cons, OutsOKc_nil, and_true]
  intro c t hr
  split at hr <;> (simp [Agent.modPair, Agent.invalidatePending] at hr ⊢; exact hr.2.symm)

@[simp] theorem ok_ping (a : Agent) (now : Nat) (l r : Cand) {c : Core} (h : a.core = c) : OutsOKc c (a.ping now l r).2 :=
  ok_sendRequest a now l r false none h

@[simp] theorem ok_sendSuccess (a : Agent) (now : Nat) (m : Msg) (l r : Cand) (c : Core) :
    OutsOKc c (a.sendSuccess now m l r).2 := by
  unfold Agent.sendSuccess
  simp only [OutsOKc_cons, OutsOKc_nil, and_true]
  exact ReqOK_norole _ _ _ _ _ rfl

@[simp] theorem ok_nominate (a : Agent) (now : Nat) (p : Pair) {c : Core} (h : a.core = c) : OutsOKc c (a.nominate now p).2 := by
  unfold Agent.nominate
  split
  · exact ok_sendRequest _ _ _ _ _ _ h
  · simp

@[simp] theorem ok_keepalive (a : Agent) (now : Nat) {c : Core} (h : a.core = c) : OutsOKc c (a.keepalive now).2 := by
  unfold Agent.keepalive
  split
  · simp
  · split
    · split
      · exact ok_ping _ _ _ _ h
      · simp
    · simp

@[simp] theorem ok_validateSelected (a : Agent) (now : Nat) (c : Core) : OutsOKc c (a.validateSelected now).2.1 := by
  unfold Agent.validateSelected
  split <;> simp

@[simp] theorem ok_pingAll (a : Agent) (now : Nat) {c : Core} (h : a.core = c) : OutsOKc c (a.pingAll now).2 := by
  subst h
  unfold Agent.pingAll
  refine (IceProofs.List.foldl_inv (fun acc : Agent × List Out => acc.1.core = a.core ∧ OutsOKc a.core acc.2) _ _ _ ⟨rfl, by simp⟩ ?_).2
  intro acc id h
  obtain ⟨b, o⟩ := acc
  obtain ⟨hc, ho⟩ := h
  simp only at hc ho ⊢
  split
  · exact ⟨hc, ho⟩
  · split
    · split
      · exact ⟨hc, ho⟩
      · split
        · exact ⟨by simp [hc], ho⟩
        · split
          · refine ⟨by simp [hc], ?_⟩
            simp only [OutsOKc_append]
            exact ⟨ho, ok_ping _ _ _ _ (by simpa using hc)⟩
          · exact ⟨by simp [hc], ho⟩
    · split
      · exact ⟨hc, ho⟩
      · split
        · exact ⟨by simp [hc], ho⟩
        · split
          · refine ⟨by simp [hc], ?_⟩
            simp only [OutsOKc_append]
            exact ⟨ho, ok_ping _ _ _ _ hc⟩
          · exact ⟨by simp [hc], ho⟩

/-! ## timer-driven work -/

@[simp] theorem ok_autoRenom (a : Agent) (now : Nat) {c : Core} (h : a.core = c) : OutsOKc c (a.autoRenom now).2 := by
  subst h
  refine (IceProofs.Auto.autoRenom_parts (P := fun x => x.1.core = a.core ∧ OutsOKc a.core x.2) ?_ a ⟨rfl, by simp⟩).2
  exact {
    mark := fun b _ id _ h _ _ => ⟨h.1, h.2⟩
    ping := fun b o l r h _ _ => ⟨by simp [h.1], by simp only [OutsOKc_append]; exact ⟨h.2, ok_ping b now l r h.1⟩⟩
    time := fun _ _ h => ⟨h.1, h.2⟩
    count := fun _ _ h => ⟨h.1, h.2⟩
    issue := fun b o l r nom h _ _ _ _ _ =>
      ⟨by simp [h.1], by simp only [OutsOKc_append]; exact ⟨h.2, ok_sendRequest b now l r true nom h.1⟩⟩
    log := fun _ _ _ h => ⟨h.1, h.2⟩ }

@[simp] theorem ok_contactCandidates (a : Agent) (now : Nat) {c : Core} (h : a.core = c) :
    OutsOKc c (a.contactCandidates now).2 := by
  subst h
  unfold Agent.contactCandidates
  ok_cases

@[simp] theorem ok_contact (a : Agent) (now : Nat) {c : Core} (h : a.core = c) : OutsOKc c (a.contact now).2 := by
  subst h
  unfold Agent.contact
  ok_cases

@[simp] theorem ok_runForced (a : Agent) (now : Nat) {c : Core} (h : a.core = c) : OutsOKc c (a.runForced now).2 := by
  subst h
  unfold Agent.runForced
  ok_cases

@[simp] theorem ok_runTimers (a : Agent) (now fuel : Nat) {c : Core} (h : a.core = c) : OutsOKc c (a.runTimers now fuel).2 := by
  induction fuel generalizing a c with
  | zero => simp [Agent.runTimers]
  | succ n ih =>
    subst h
    unfold Agent.runTimers
    (try simp only []); (repeat' split) <;> (pair_subst; (try simp at *))
    have := ih { (a.contact ‹Nat›).1 with nextTick := some (‹Nat› + (a.contact ‹Nat›).1.interval) }
    simpa using this

/-! ## candidates and pairs (no datagram at all) -/

@[simp] theorem ok_replaceRemoteInPairs (a : Agent) (old c : Cand) (k : Core) : OutsOKc k (a.replaceRemoteInPairs old c).2 := by
  unfold Agent.replaceRemoteInPairs
  refine IceProofs.List.foldl_inv (fun acc : Agent × List Out => OutsOKc k acc.2) _ _ _ (by simp) ?_
  intro acc id h
  obtain ⟨b, o⟩ := acc
  simp only at h ⊢
  ok_cases

@[simp] theorem ok_addRemoteCandidate (a : Agent) (c : Cand) (k : Core) : OutsOKc k (a.addRemoteCandidate c).2.1 := by
  unfold Agent.addRemoteCandidate
  split
  · simp
  split
  · simp
  simp only []
  refine IceProofs.List.foldl_inv (fun acc : Agent × List Out => OutsOKc k acc.2) _ _ _ (by simp) ?_
  intro acc old h
  simp [h]

@[simp] theorem ok_addLocalCandidate (a : Agent) (c : Cand) (k : Core) : OutsOKc k (a.addLocalCandidate c).2 := by
  unfold Agent.addLocalCandidate
  split
  · simp
  split
  · simp
  · simp

/-! ## inbound STUN -/

@[simp] theorem ok_handleSuccess (a : Agent) (now : Nat) (m : Msg) (l r : Cand) (src : Nat) (k : Core) :
    OutsOKc k (a.handleSuccess now m l r src).2 := by
  unfold Agent.handleSuccess
  ok_cases

@[simp] theorem ok_ctlHandleRequest (a : Agent) (now : Nat) (m : Msg) (l r : Cand) {c : Core} (h : a.core = c) :
    OutsOKc c (a.ctlHandleRequest now m l r).2 := by
  subst h
  unfold Agent.ctlHandleRequest
  ok_cases

@[simp] theorem ok_cldNominate (a : Agent) (m : Msg) (id : Nat) (k : Core) : OutsOKc k (cldNominate a m id).2 := by
  unfold cldNominate
  ok_cases

@[simp] theorem ok_cldProceed (a : Agent) (now : Nat) (m : Msg) (l r : Cand) (id : Nat) {c : Core} (h : a.core = c) :
    OutsOKc c (cldProceed a now m l r id).2 := by
  subst h
  unfold cldProceed
  ok_cases

/-- `OutsOKc` reads only the tie-breaker and the remote password -/
theorem OutsOKc_congr {c c' : Core} (h1 : c.tieBreaker = c'.tieBreaker) (h2 : c.remotePwd = c'.remotePwd) (o : List Out) :
    OutsOKc c o ↔ OutsOKc c' o := by
  unfold OutsOKc; rw [h1, h2]

@[simp] theorem ok_cldHandleRequest (a : Agent) (now : Nat) (m : Msg) (l r : Cand) {c : Core} (h : a.core = c) :
    OutsOKc c (a.cldHandleRequest now m l r).2 := by
  subst h
  rw [cldHandleRequest_nf]
  simp only []
  split
  · simp
  · generalize hA : (ensurePair a l r).1.modPair (ensurePair a l r).2.id (countReq m) = a1
    have hc : a1.core = a.core := by rw [← hA]; simp
    rw [← hc]
    refine (OutsOKc_congr (c := ({ a1 with lastNomination := (shouldAcceptNomination m.nom a1.lastNomination).1 } : Agent).core)
      rfl rfl _).1 (ok_cldProceed _ _ _ _ _ _ rfl)

@[simp] theorem ReqOK_487 (tb : Nat) (rp : String) (f t tid : Nat) (key : Option String) :
    ReqOK tb rp (.dgram f t { cls := 3, tid := tid, key := key, errCode := some 487 }) :=
  ReqOK_norole _ _ _ _ _ rfl

@[simp] theorem ok_handleInbound (a : Agent) (now : Nat) (l : Cand) (src : Nat) (m : Msg) {c : Core} (h : a.core = c) :
    OutsOKc c (a.handleInbound now l src m).2 := by
  subst h
  unfold Agent.handleInbound
  ok_cases

theorem handleInbound_tb_rp (a : Agent) (now : Nat) (l : Cand) (src : Nat) (m : Msg) :
    (a.handleInbound now l src m).1.core.tieBreaker = a.core.tieBreaker ∧
    (a.handleInbound now l src m).1.core.remotePwd = a.core.remotePwd := by
  rw [core_handleInbound]
  split
  · exact ⟨rfl, rfl⟩
  · split <;> exact ⟨rfl, rfl⟩

/-! ## data plane, restart -/

@[simp] theorem ok_writeVia (a : Agent) (now : Nat) (p : Pair) (len : Nat) (k : Core) : OutsOKc k (a.writeVia now p len).2 := by
  unfold Agent.writeVia
  ok_cases

@[simp] theorem ok_write (a : Agent) (now len : Nat) (s : Bool) (k : Core) : OutsOKc k (a.write now len s).2 := by
  unfold Agent.write
  ok_cases

@[simp] theorem ok_writeToPair (a : Agent) (now id len : Nat) (s : Bool) (k : Core) : OutsOKc k (a.writeToPair now id len s).2 := by
  unfold Agent.writeToPair
  ok_cases

@[simp] theorem ok_inboundData (a : Agent) (now : Nat) (l : Cand) (src len : Nat) (k : Core) :
    OutsOKc k (a.inboundData now l src len).2 := by
  unfold Agent.inboundData
  ok_cases

@[simp] theorem ok_doRestart (a : Agent) (now : Nat) (u p : String) (k : Core) : OutsOKc k (a.doRestart now u p).2 := by
  unfold Agent.doRestart
  ok_cases

/-! ## the whole step -/

/-- For EVERY agent state and event: every emitted datagram that carries a role attribute carries the agent's own
tie-breaker and is keyed with the remote password in force after the step. -/
theorem step_outs (a : Agent) (ev : Ev) : OutsOK a.tieBreaker (step a ev).1.remotePwd (step a ev).2 := by
  have hk : ∀ o, OutsOKc (step a ev).1.core o → OutsOK a.tieBreaker (step a ev).1.remotePwd o := by
    intro o h
    have := (step_constants a ev).1
    unfold OutsOKc at h
    simpa [this] using h
  apply hk
  cases ev with
  | addLocal now c => simp [step]
  | addRemote now c => simp only [step]; ok_cases
  | start now ctl ru rp =>
    simp only [step]
    ok_cases
  | setRemoteCreds ru rp => simp only [step]; ok_cases
  | advance now => simp [step]
  | inbound now la src m =>
    clear hk
    simp only [step]
    ok_cases
    rename_i l _ _
    exact (OutsOKc_congr (handleInbound_tb_rp a now l src m).1 (handleInbound_tb_rp a now l src m).2 _).2
      (ok_handleInbound a now l src m rfl)
  | inboundData now la src len s => simp only [step]; ok_cases
  | write now len s => simp [step]
  | writeToPair now id len s => simp [step]
  | read => simp only [step]; ok_cases
  | renominate now la ri v => simp only [step]; ok_cases
  | restart now u p => simp only [step]; ok_cases
  | close => simp only [step]; ok_cases

end IceProofs.Sys2C05
