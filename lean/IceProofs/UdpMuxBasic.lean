import IceModel.UdpMux
/-!
Basic lemmas about the data structures of `IceModel.UdpMux`: pointwise update, the association-list
maps, open-handle counting, address canonicalisation.
-/
namespace IceProofs.UdpMux
open IceModel.UdpMux

/-! ## `upd` -/

@[simp] theorem upd_same {α : Type} (f : Nat → α) (i : Nat) (v : α) : upd f i v i = v := by simp [upd]
theorem upd_ne {α : Type} (f : Nat → α) {i j : Nat} (v : α) (h : j ≠ i) : upd f i v j = f j := by simp [upd, h]
theorem upd_apply {α : Type} (f : Nat → α) (i j : Nat) (v : α) : upd f i v j = if j = i then v else f j := rfl

/-! ## association-list maps -/

theorem AMap.get?_nil (x : Name) : AMap.get? [] x = none := rfl

theorem AMap.get?_cons (k : Name) (v : Nat) (m : AMap) (x : Name) :
    AMap.get? ((k, v) :: m) x = if k = x then some v else AMap.get? m x := rfl

theorem AMap.get?_del_self (m : AMap) (x : Name) : AMap.get? (AMap.del m x) x = none := by
  induction m with
  | nil => rfl
  | cons e m ih =>
    obtain ⟨k, v⟩ := e
    by_cases h : k = x
    · simp [AMap.del, List.filter, h]; simpa [AMap.del] using ih
    · simp [AMap.del, List.filter, h, AMap.get?_cons]; simpa [AMap.del] using ih

theorem AMap.get?_del_ne (m : AMap) {x y : Name} (h : y ≠ x) : AMap.get? (AMap.del m x) y = AMap.get? m y := by
  induction m with
  | nil => rfl
  | cons e m ih =>
    obtain ⟨k, v⟩ := e
    by_cases hk : k = x
    · subst hk
      have : k ≠ y := fun e => h e.symm
      simp [AMap.del, List.filter, AMap.get?_cons, this]; simpa [AMap.del] using ih
    · simp [AMap.del, List.filter, hk, AMap.get?_cons]
      split
      · rfl
      · simpa [AMap.del] using ih

theorem AMap.get?_del (m : AMap) (x y : Name) :
    AMap.get? (AMap.del m x) y = if y = x then none else AMap.get? m y := by
  by_cases h : y = x
  · subst h; simp [AMap.get?_del_self]
  · simp [h, AMap.get?_del_ne m h]

theorem AMap.get?_set (m : AMap) (x y : Name) (v : Nat) :
    AMap.get? (AMap.set m x v) y = if y = x then some v else AMap.get? m y := by
  unfold AMap.set
  rw [AMap.get?_cons]
  by_cases h : x = y
  · subst h; simp
  · have h' : y ≠ x := fun e => h e.symm
    simp [h, h', AMap.get?_del_ne m h']

theorem AMap.mem_of_get? (m : AMap) (x : Name) (v : Nat) (h : AMap.get? m x = some v) : (x, v) ∈ m := by
  induction m with
  | nil => simp [AMap.get?_nil] at h
  | cons e m ih =>
    obtain ⟨k, w⟩ := e
    rw [AMap.get?_cons] at h
    split at h
    · next hk => subst hk; injection h with h; subst h; simp
    · exact List.mem_cons_of_mem _ (ih h)

/-- keys are pairwise distinct -/
def AMap.WF (m : AMap) : Prop := (m.map Prod.fst).Nodup

theorem AMap.wf_nil : AMap.WF [] := by simp [AMap.WF]

theorem AMap.get?_of_mem (m : AMap) (hw : AMap.WF m) (x : Name) (v : Nat) (h : (x, v) ∈ m) :
    AMap.get? m x = some v := by
  induction m with
  | nil => simp at h
  | cons e m ih =>
    obtain ⟨k, w⟩ := e
    simp only [AMap.WF, List.map_cons, List.nodup_cons] at hw
    rw [AMap.get?_cons]
    rcases List.mem_cons.mp h with h | h
    · injection h with h1 h2; subst h1; subst h2; simp
    · have : k ≠ x := by
        intro e; subst e
        exact hw.1 (List.mem_map.mpr ⟨(k, v), h, rfl⟩)
      simp [this]; exact ih hw.2 h

theorem AMap.wf_del (m : AMap) (hw : AMap.WF m) (x : Name) : AMap.WF (AMap.del m x) := by
  unfold AMap.WF AMap.del at *
  exact List.Nodup.sublist (List.Sublist.map _ List.filter_sublist) hw

theorem AMap.not_mem_keys_del (m : AMap) (x : Name) : x ∉ (AMap.del m x).map Prod.fst := by
  intro h
  obtain ⟨e, he, hx⟩ := List.mem_map.mp h
  simp [AMap.del, List.mem_filter] at he
  exact he.2 hx

theorem AMap.wf_set (m : AMap) (hw : AMap.WF m) (x : Name) (v : Nat) : AMap.WF (AMap.set m x v) := by
  unfold AMap.set AMap.WF
  simp only [List.map_cons, List.nodup_cons]
  exact ⟨AMap.not_mem_keys_del m x, AMap.wf_del m hw x⟩

theorem AMap.mem_vals_iff (m : AMap) (hw : AMap.WF m) (c : Nat) :
    c ∈ AMap.vals m ↔ ∃ k, AMap.get? m k = some c := by
  constructor
  · intro h
    obtain ⟨e, he, hc⟩ := List.mem_map.mp h
    obtain ⟨k, v⟩ := e
    simp at hc; subst hc
    exact ⟨k, AMap.get?_of_mem m hw k v he⟩
  · intro ⟨k, hk⟩
    exact List.mem_map.mpr ⟨(k, c), AMap.mem_of_get? m k c hk, rfl⟩

/-! ## counting -/

/-- number of `i < n` with `p i` -/
def cnt (p : Nat → Bool) : Nat → Nat
  | 0 => 0
  | n + 1 => cnt p n + (if p n then 1 else 0)

theorem cnt_congr (p q : Nat → Bool) (n : Nat) (h : ∀ i, i < n → p i = q i) : cnt p n = cnt q n := by
  induction n with
  | zero => rfl
  | succ n ih =>
    simp only [cnt]
    rw [ih (fun i hi => h i (Nat.lt_succ_of_lt hi)), h n (Nat.lt_succ_self n)]

theorem cnt_range (p : Nat → Bool) (n : Nat) : (List.range n).countP p = cnt p n := by
  induction n with
  | zero => rfl
  | succ n ih =>
    rw [List.range_succ, List.countP_append, ih]
    simp only [cnt, List.countP_cons, List.countP_nil]
    cases p n <;> simp

/-- switching one true position off lowers the count by one -/
theorem cnt_off (p q : Nat → Bool) (n h : Nat) (hh : h < n) (hp : p h = true) (hq : q h = false)
    (hrest : ∀ i, i ≠ h → q i = p i) : cnt q n + 1 = cnt p n := by
  induction n with
  | zero => omega
  | succ n ih =>
    simp only [cnt]
    by_cases e : h = n
    · subst e
      rw [hp, hq, cnt_congr q p h (fun i hi => hrest i (by omega))]
      simp
    · rw [hrest n (fun e' => e e'.symm)]
      have := ih (by omega)
      omega

theorem cnt_zero_iff (p : Nat → Bool) (n : Nat) : cnt p n = 0 ↔ ∀ i, i < n → p i = false := by
  induction n with
  | zero => simp [cnt]
  | succ n ih =>
    simp only [cnt]
    constructor
    · intro h i hi
      have h1 : cnt p n = 0 := by omega
      have h2 : p n = false := by
        cases hp : p n
        · rfl
        · rw [hp] at h; simp at h
      by_cases e : i = n
      · subst e; exact h2
      · exact (ih.mp h1) i (by omega)
    · intro h
      rw [(ih.mpr (fun i hi => h i (by omega))), h n (by omega)]
      simp

/-! ## canonical addresses -/

theorem canonAddr_port (a : Addr) : (canonAddr a).port = a.port := rfl

/-- the address is an IPv4 address (4-byte form or `::ffff:a.b.c.d`) -/
def V4ish (ip : IP) : Prop := ip.is4 = true ∨ (ip.hi = 0 ∧ ip.lo / two32 = 65535)

instance (ip : IP) : Decidable (V4ish ip) := by unfold V4ish; exact inferInstance

theorem is4in6_eq (ip : IP) : is4in6 ip = (!ip.is4 && decide (ip.hi = 0 ∧ ip.lo / two32 = 65535)) := by
  by_cases h1 : ip.hi = 0 <;> by_cases h2 : ip.lo / two32 = 65535 <;> simp [is4in6, h1, h2]

/-- closed form of `canonIP` -/
theorem canonIP_eq (ip : IP) :
    canonIP ip =
      if V4ish ip then { is4 := true, hi := 0, lo := ip.lo % two32, zone := [] }
      else if llBits ip.hi = true then ip else { ip with zone := [] } := by
  obtain ⟨is4, hi, lo, zone⟩ := ip
  cases is4
  · by_cases h : hi = 0 ∧ lo / two32 = 65535
    · simp [canonIP, ofUDPAddr, unmap, is4in6_eq, V4ish, h, isLinkLocal6, withZone]
    · by_cases hl : llBits hi = true
      · simp [canonIP, ofUDPAddr, unmap, is4in6_eq, V4ish, h, isLinkLocal6, hl]
      · simp [canonIP, ofUDPAddr, unmap, is4in6_eq, V4ish, h, isLinkLocal6, withZone, hl]
  · simp [canonIP, ofUDPAddr, unmap, is4in6_eq, V4ish, isLinkLocal6, withZone]

theorem canonIP_is4 (ip : IP) : (canonIP ip).is4 = decide (V4ish ip) := by
  rw [canonIP_eq]
  by_cases h : V4ish ip
  · simp [h]
  · have h4 : ip.is4 = false := by
      cases hh : ip.is4
      · rfl
      · exact absurd (Or.inl hh) h
    simp [h]; split <;> simp [h4]

/-- canonicalisation is idempotent -/
theorem canonIP_idem (ip : IP) : canonIP (canonIP ip) = canonIP ip := by
  rw [canonIP_eq ip]
  by_cases h : V4ish ip
  · simp only [h, if_true]
    rw [canonIP_eq]
    simp [V4ish]
  · simp only [h, if_false]
    have h4 : ip.is4 = false := by
      cases hh : ip.is4
      · rfl
      · exact absurd (Or.inl hh) h
    by_cases hl : llBits ip.hi = true
    · simp only [hl, if_true]
      rw [canonIP_eq]; simp [h, hl]
    · simp only [hl]
      rw [canonIP_eq]
      have h' : ¬ V4ish { ip with zone := [] } := by simpa [V4ish] using h
      simp [h', hl]

theorem canonAddr_idem (a : Addr) : canonAddr (canonAddr a) = canonAddr a := by
  simp [canonAddr, canonIP_idem]

end IceProofs.UdpMux
