import IceProofs.AgentC03OwnFrame
import IceProofs.AgentC05
/-!
# C01 liveness, layer 0 — vocabulary of the per-agent frame

`LK T0 now ex a a'` ("live keep"): what every helper of `step` leaves alone on the paths a loss-free suffix
can take (no API call, no role switch, no timeout): candidates keep their identity (only activity timestamps
move), remote candidates and pairs are only appended, a pair keeps its ends, validity and the deferred
nomination mark (the mark is consumed only by the response that acts upon it — then, under `LInv`, a pair is
selected), the selection stays, the nominated pair stays, a pending transaction stays until it is
answered (`ex`) or expires (`now`), and the bookkeeping invariant `LInv` is kept.

`Timely T0 H a`: no timeout of agent `a` can fire at a tick in `[T0, H]`.
-/
namespace IceProofs.C01Live
open IceModel.AgentCore

/-! ## lists: position-wise relations -/

/-- every position of `l` is still present in `l'` and related (`l'` = pointwise image of `l` ++ new elements) -/
def IdxKeep {α : Type} (R : α → α → Prop) (l l' : List α) : Prop :=
  ∀ (i : Nat) (x : α), l[i]? = some x → ∃ x', l'[i]? = some x' ∧ R x x'

theorem IdxKeep.refl {α : Type} {R : α → α → Prop} (hR : ∀ x, R x x) (l : List α) : IdxKeep R l l :=
  fun _ x h => ⟨x, h, hR x⟩

theorem IdxKeep.trans {α : Type} {R : α → α → Prop} (hR : ∀ x y z, R x y → R y z → R x z) {l1 l2 l3 : List α}
    (h1 : IdxKeep R l1 l2) (h2 : IdxKeep R l2 l3) : IdxKeep R l1 l3 := by
  intro i x hx
  obtain ⟨y, hy, r1⟩ := h1 i x hx
  obtain ⟨z, hz, r2⟩ := h2 i y hy
  exact ⟨z, hz, hR _ _ _ r1 r2⟩

theorem IdxKeep.trans2 {α : Type} {R1 R2 R3 : α → α → Prop} (hR : ∀ x y z, R1 x y → R2 y z → R3 x z) {l1 l2 l3 : List α}
    (h1 : IdxKeep R1 l1 l2) (h2 : IdxKeep R2 l2 l3) : IdxKeep R3 l1 l3 := by
  intro i x hx
  obtain ⟨y, hy, r1⟩ := h1 i x hx
  obtain ⟨z, hz, r2⟩ := h2 i y hy
  exact ⟨z, hz, hR _ _ _ r1 r2⟩

theorem IdxKeep.mono {α : Type} {R R' : α → α → Prop} (hR : ∀ x y, R x y → R' x y) {l l' : List α}
    (h : IdxKeep R l l') : IdxKeep R' l l' := by
  intro i x hx
  obtain ⟨y, hy, r⟩ := h i x hx
  exact ⟨y, hy, hR _ _ r⟩

theorem IdxKeep.map {α : Type} {R : α → α → Prop} (f : α → α) (l : List α) (hf : ∀ x ∈ l, R x (f x)) :
    IdxKeep R l (l.map f) := by
  intro i x hx
  refine ⟨f x, by simp [hx], hf x (List.mem_of_getElem? hx)⟩

theorem IdxKeep.append {α : Type} {R : α → α → Prop} (hR : ∀ x, R x x) (l e : List α) : IdxKeep R l (l ++ e) := by
  intro i x hx
  refine ⟨x, ?_, hR x⟩
  have hi : i < l.length := by
    rcases Nat.lt_or_ge i l.length with h | h
    · exact h
    · rw [List.getElem?_eq_none h] at hx; cases hx
  rw [List.getElem?_append_left hi]; exact hx

theorem IdxKeep.tail {α : Type} {R : α → α → Prop} {x y : α} {l l' : List α} (h : IdxKeep R (x :: l) (y :: l')) :
    IdxKeep R l l' := by
  intro i z hz
  have := h (i + 1) z (by simpa using hz)
  simpa using this

theorem IdxKeep.cons_inv {α : Type} {R : α → α → Prop} {x : α} {l l' : List α} (h : IdxKeep R (x :: l) l') :
    ∃ y t, l' = y :: t ∧ R x y ∧ IdxKeep R l t := by
  obtain ⟨y, hy, r⟩ := h 0 x (by simp)
  cases l' with
  | nil => simp at hy
  | cons y' t =>
    simp at hy
    subst hy
    exact ⟨y', t, rfl, r, h.tail⟩

theorem IdxKeep.mem {α : Type} {R : α → α → Prop} {l l' : List α} (h : IdxKeep R l l') {x : α} (hx : x ∈ l) :
    ∃ x' ∈ l', R x x' := by
  obtain ⟨i, hi⟩ := List.getElem?_of_mem hx
  obtain ⟨x', hx', r⟩ := h i x hi
  exact ⟨x', List.mem_of_getElem? hx', r⟩

/-- first-match stability: if related elements agree on the predicate, the first match of `l` is related to the
first match of `l'`. -/
theorem IdxKeep.find? {α : Type} {R : α → α → Prop} {l l' : List α} (h : IdxKeep R l l') (P P' : α → Bool)
    (hP : ∀ x x', R x x' → P' x' = P x) {x : α} (hx : l.find? P = some x) :
    ∃ x', l'.find? P' = some x' ∧ R x x' := by
  induction l generalizing l' with
  | nil => simp at hx
  | cons y ys ih =>
    obtain ⟨y', t, rfl, r, ht⟩ := h.cons_inv
    rw [List.find?_cons] at hx
    rw [List.find?_cons]
    cases hy : P y with
    | true =>
      rw [hy] at hx
      simp at hx
      subst hx
      rw [hP _ _ r, hy]
      exact ⟨y', rfl, r⟩
    | false =>
      rw [hy] at hx
      rw [hP _ _ r, hy]
      exact ih ht hx

theorem find?_filter_of {α : Type} (l : List α) (q P : α → Bool) {x : α} (hx : l.find? P = some x) (hq : q x = true) :
    (l.filter q).find? P = some x := by
  induction l with
  | nil => simp at hx
  | cons y ys ih =>
    rw [List.find?_cons] at hx
    cases hy : P y with
    | true =>
      rw [hy] at hx; simp at hx; subst hx
      simp [hq, hy]
    | false =>
      rw [hy] at hx
      rw [List.filter_cons]
      split
      · rw [List.find?_cons, hy]; exact ih hx
      · exact ih hx

theorem find?_append_of {α : Type} (l e : List α) (P : α → Bool) {x : α} (hx : l.find? P = some x) :
    (l ++ e).find? P = some x := by
  rw [List.find?_append, hx]; rfl

/-! ## candidates and pairs -/

/-- a candidate without its activity timestamps -/
def ckey (c : Cand) : Cand := { c with lastRecv := none, lastSent := none }

/-- same candidate; the last-received time is unchanged or was refreshed at a time `≥ T0` -/
structure CKeep (T0 : Nat) (c c' : Cand) : Prop where
  key : ckey c' = ckey c
  recv : c'.lastRecv = c.lastRecv ∨ ∃ t, T0 ≤ t ∧ c'.lastRecv = some t

theorem CKeep.refl (T0 : Nat) (c : Cand) : CKeep T0 c c := ⟨rfl, Or.inl rfl⟩

theorem CKeep.trans {T0 : Nat} {a b c : Cand} (h1 : CKeep T0 a b) (h2 : CKeep T0 b c) : CKeep T0 a c := by
  refine ⟨h2.key.trans h1.key, ?_⟩
  rcases h2.recv with e | e
  · rw [e]; exact h1.recv
  · exact Or.inr e

theorem ckey_uid {c c' : Cand} (h : ckey c' = ckey c) : c'.uid = c.uid :=
  show (ckey c').uid = (ckey c).uid from congrArg Cand.uid h
theorem ckey_addr {c c' : Cand} (h : ckey c' = ckey c) : c'.addr = c.addr :=
  show (ckey c').addr = (ckey c).addr from congrArg Cand.addr h
theorem ckey_net {c c' : Cand} (h : ckey c' = ckey c) : c'.net = c.net :=
  show (ckey c').net = (ckey c).net from congrArg Cand.net h
theorem ckey_ty {c c' : Cand} (h : ckey c' = ckey c) : c'.ty = c.ty :=
  show (ckey c').ty = (ckey c).ty from congrArg Cand.ty h
theorem ckey_rel {c c' : Cand} (h : ckey c' = ckey c) : c'.rel = c.rel :=
  show (ckey c').rel = (ckey c).rel from congrArg Cand.rel h
theorem ckey_prio {c c' : Cand} (h : ckey c' = ckey c) : c'.prio = c.prio :=
  show (ckey c').prio = (ckey c).prio from congrArg Cand.prio h

theorem ckey_equal {c c' d d' : Cand} (hc : ckey c' = ckey c) (hd : ckey d' = ckey d) : c'.equal d' = c.equal d := by
  have t1 : c'.tt = c.tt := show (ckey c').tt = (ckey c).tt from congrArg Cand.tt hc
  have t2 : d'.tt = d.tt := show (ckey d').tt = (ckey d).tt from congrArg Cand.tt hd
  simp only [Cand.equal, Cand.taEqual, ckey_net hc, ckey_net hd, ckey_addr hc, ckey_addr hd, ckey_ty hc, ckey_ty hd,
    ckey_rel hc, ckey_rel hd, t1, t2, Cand.udpResolved]

/-- a pair keeps its identity, its ends, its validity and the deferred-nomination mark — the mark is consumed only
by the success response that acts upon it (`S`: the agent has a selected pair afterwards) -/
structure PKeep (S : Prop) (p p' : Pair) : Prop where
  id : p'.id = p.id
  l : p'.l = p.l
  r : p'.r = p.r
  succ : p.state = .succeeded → p'.state = .succeeded
  nomOn : p.nomOnSuccess = true → p'.nomOnSuccess = true ∨ S

theorem PKeep.refl {S : Prop} (p : Pair) : PKeep S p p := ⟨rfl, rfl, rfl, fun h => h, fun h => Or.inl h⟩
theorem PKeep.trans {S1 S2 S3 : Prop} {p q r : Pair} (h1 : PKeep S1 p q) (h2 : PKeep S2 q r) (s1 : S1 → S3)
    (s2 : S2 → S3) : PKeep S3 p r :=
  ⟨h2.id.trans h1.id, h2.l.trans h1.l, h2.r.trans h1.r, fun h => h2.succ (h1.succ h), fun h =>
    (h1.nomOn h).elim (fun h' => (h2.nomOn h').imp (fun x => x) s2) (fun x => Or.inr (s1 x))⟩
theorem PKeep.mono {S S' : Prop} {p q : Pair} (h : PKeep S p q) (hs : S → S') : PKeep S' p q :=
  ⟨h.id, h.l, h.r, h.succ, fun x => (h.nomOn x).imp (fun y => y) hs⟩

/-! ## the bookkeeping invariant -/

/-- remote candidates: UDP4, a known type, pairwise distinct transport addresses -/
def CandsOK (l : List Cand) : Prop :=
  (∀ c ∈ l, c.net = 0 ∧ 1 ≤ c.ty ∧ c.ty ≤ 4) ∧ l.Pairwise (fun x y => x.addr ≠ y.addr)

def NoDefer (a : Agent) : Prop := ∀ p ∈ a.checklist, p.deferredNom = none

def SuccEnds (a : Agent) : Prop :=
  ∀ p ∈ a.checklist, p.state = .succeeded → (a.localOf p.l).isSome = true ∧ (a.remoteOf p.r).isSome = true

def NomOK (a : Agent) : Prop :=
  ∀ id, a.nominatedPair = some id → ∃ p ∈ a.checklist, p.id = id ∧ p.state = .succeeded

def PendOK (a : Agent) : Prop :=
  (∀ pd ∈ a.pending, pd.tid < 2 * a.nextTid + a.tag) ∧ a.pending.Pairwise (fun x y => x.tid ≠ y.tid)

def SelConn (a : Agent) : Prop := a.selected.isSome = true → a.connState = .connected

structure LInv (a : Agent) : Prop where
  ids : IceProofs.C03.IdsOK a
  remOK : CandsOK a.remotes
  noDefer : NoDefer a
  succEnds : SuccEnds a
  nomOK : NomOK a
  pendOK : PendOK a
  selConn : SelConn a

/-! ## the frame -/

structure LK (T0 now : Nat) (ex : Option Nat) (a a' : Agent) : Prop where
  locals : a'.locals.map ckey = a.locals.map ckey
  remotes : IdxKeep (CKeep T0) a.remotes a'.remotes
  pairs : IdxKeep (PKeep (LInv a → a'.selected.isSome = true)) a.checklist a'.checklist
  selStart : a'.selStart = a.selStart
  sel : a.selected.isSome = true → a'.selected.isSome = true
  conn : a.connState ≠ .failed → a'.connState ≠ .failed
  notCk : a.connState ≠ .checking → a'.connState ≠ .checking
  nom : ∀ id, a.nominatedPair = some id → a'.nominatedPair = some id
  pend : ∀ tid pd, a.pending.find? (·.tid == tid) = some pd → now - pd.ts < maxBindingRequestTimeout →
    some tid ≠ ex → a'.pending.find? (·.tid == tid) = some pd
  inv : LInv a → LInv a'

theorem LK.refl (T0 now : Nat) (ex : Option Nat) (a : Agent) : LK T0 now ex a a :=
  ⟨rfl, IdxKeep.refl (CKeep.refl T0) _, IdxKeep.refl PKeep.refl _, rfl, fun h => h, fun h => h, fun h => h, fun _ h => h, fun _ _ h _ _ => h, fun h => h⟩

theorem LK.trans {T0 now : Nat} {ex : Option Nat} {a b c : Agent} (h1 : LK T0 now ex a b) (h2 : LK T0 now ex b c) :
    LK T0 now ex a c :=
  ⟨h2.locals.trans h1.locals, IdxKeep.trans (R := CKeep T0) (fun _ _ _ x y => CKeep.trans x y) h1.remotes h2.remotes,
   IdxKeep.trans2 (R1 := PKeep (LInv a → b.selected.isSome = true)) (R2 := PKeep (LInv b → c.selected.isSome = true))
     (R3 := PKeep (LInv a → c.selected.isSome = true))
     (fun _ _ _ x y => PKeep.trans x y (fun f i => h2.sel (f i)) (fun f i => f (h1.inv i))) h1.pairs h2.pairs,
   h2.selStart.trans h1.selStart,
   fun h => h2.sel (h1.sel h), fun h => h2.conn (h1.conn h), fun h => h2.notCk (h1.notCk h),
   fun id h => h2.nom id (h1.nom id h),
   fun tid pd h hy hne => h2.pend tid pd (h1.pend tid pd h hy hne) hy hne, fun h => h2.inv (h1.inv h)⟩

/-- nothing consumed is stronger than something consumed -/
theorem LK.weaken {T0 now : Nat} {ex : Option Nat} {a a' : Agent} (h : LK T0 now none a a') : LK T0 now ex a a' :=
  { h with pend := fun tid pd hf hy _ => h.pend tid pd hf hy (by simp) }

/-- a later evaluation time asks less of the pending list -/
theorem LK.mono_now {T0 now now' : Nat} {ex : Option Nat} {a a' : Agent} (h : LK T0 now ex a a') (hn : now ≤ now') :
    LK T0 now' ex a a' :=
  { h with pend := fun tid pd hf hy hne => h.pend tid pd hf (by omega) hne }

/-! ## timeouts -/

/-- a silence of `d` ns trips neither the disconnected nor the failed timeout — and the agent is not configured to
renominate by itself (`WithAutomaticRenomination` together with `WithRenomination`): the liveness statements are about
ordinary ICE, in which a connected controlling agent sends keepalives on its selected pair only and never a nomination
value (with the automatic option the pair it ends on depends on the round-trip times of the schedule) -/
def QuietFor (cfg : Config) (d : Nat) : Prop :=
  (cfg.disconnectedTimeout = 0 ∨ d ≤ cfg.disconnectedTimeout) ∧
  (cfg.failedTimeout = 0 ∨ d ≤ cfg.failedTimeout + cfg.disconnectedTimeout) ∧
  (cfg.autoRenom && cfg.enableRenomination) = false

instance (cfg : Config) (d : Nat) : Decidable (QuietFor cfg d) := by unfold QuietFor; infer_instance

theorem QuietFor.mono {cfg : Config} {d d' : Nat} (h : QuietFor cfg d) (hd : d' ≤ d) : QuietFor cfg d' :=
  ⟨h.1.imp id (fun x => Nat.le_trans hd x), h.2.1.imp id (fun x => Nat.le_trans hd x), h.2.2⟩

/-- no timeout of the agent fires at a tick in `[T0, H]`: the checking deadline lies beyond `H`, and the remote
candidate of the selected pair was heard recently enough. -/
structure Timely (T0 H : Nat) (a : Agent) : Prop where
  ck : a.checkingTimeout = 0 ∨
    (H - T0 ≤ a.checkingTimeout ∧ (a.lastSeen = .checking → H ≤ a.checkingStart + a.checkingTimeout))
  span : QuietFor a.cfg (H - T0)
  sel : ∀ id, a.selected = some id → ∃ p r t, a.pairById id = some p ∧ a.remoteOf p.r = some r ∧
    r.lastRecv = some t ∧ QuietFor a.cfg (H - t)

/-- a started, open, full agent on which no timeout fires in `[T0, H]`. -/
structure Good (T0 H : Nat) (a : Agent) : Prop where
  full : a.cfg.lite = false
  started : a.started = true
  open_ : a.closed = false
  noForce : a.forcePending = false
  alive : a.connState ≠ .failed
  locOK : CandsOK a.locals
  linv : LInv a
  timely : Timely T0 H a
  tick : ∃ t, a.nextTick = some t ∧ T0 ≤ t

/-- no role conflict: a role attribute, if present, names the other role -/
def NoConflict (a : Agent) (m : Msg) : Prop := ∀ ctl tb, m.role = some (ctl, tb) → ctl ≠ a.controlling

instance (a : Agent) (m : Msg) : Decidable (NoConflict a m) := by
  unfold NoConflict
  cases h : m.role with
  | none => exact isTrue (by intro _ _ h'; cases h')
  | some x =>
    obtain ⟨c, t⟩ := x
    by_cases hc : c = a.controlling
    · exact isFalse (fun hh => hh c t rfl hc)
    · exact isTrue (by intro c' t' h'; cases h'; exact hc)

end IceProofs.C01Live
