import IceProofs.Sys2C20Defs
import IceProofs.Sys2C20RespQ
/-!
# C20 on `Sys2` — where success responses and transaction ids come from 
-/
namespace IceProofs.C20S
open IceModel.AgentCore IceProofs.Agent

/-- A Binding success response is emitted only while an inbound Binding request with the same transaction id is handled
by a selector: the request is not a role conflict, and on a controlled agent it is the request handed to the controlled
selector (`cldDeliversEv`).  Any state, any event. -/
theorem step_out_resp (a : Agent) (e : Ev) (f t : Nat) (m : Msg)
    (hm : Out.dgram f t m ∈ (step a e).2) (hc : m.cls = 2) :
    ∃ now la src m', e = .inbound now la src m' ∧ m'.cls = 0 ∧ m'.tid = m.tid ∧ roleConflict a m' = none ∧
      (a.controlling = false → cldDeliversEv a e = some m') := by
  by_cases hin : ∃ now la src m', e = .inbound now la src m'
  · obtain ⟨now, la, src, m', rfl⟩ := hin
    rw [C03.step_inbound_proj] at hm
    split at hm
    · simp at hm
    · rename_i hg
      split at hm
      · simp at hm
      · rename_i l hl
        rcases List.mem_append.mp hm with hm | hm
        · obtain ⟨ha, hs, hn, ht⟩ := handleInbound_resp a now l src m' f t m hm hc
          refine ⟨now, la, src, m', rfl, ha.2.1, ht.symm, hn, ?_⟩
          intro hctl
          have hd : cldDelivers a l src m' = true :=
            (cldDelivers_iff a l src m').2 ⟨ha, hs, hctl, (roleConflict_eq_none a m').1 hn⟩
          simp [cldDeliversEv, inboundOn, hg, hl, hd]
        · exact ((r_runForced _ now (fun _ => False)).mem hm hc).elim
  · exact ((step_noresp a e (fun now la src m' h => hin ⟨now, la, src, m', h⟩) (fun _ => False)).mem hm hc).elim

/-- Transaction ids are handed out from the counter: `nextTid` never decreases; every Binding request emitted and every
transaction added by a step carries an id `2 * k + tag` with `nextTid ≤ k < nextTid'`.  Any state, any event. -/
theorem step_tids (a : Agent) (e : Ev) :
    a.nextTid ≤ (step a e).1.nextTid ∧
    (∀ f t m, Out.dgram f t m ∈ (step a e).2 → m.cls = 0 →
      ∃ k, m.tid = 2 * k + a.tag ∧ a.nextTid ≤ k ∧ k < (step a e).1.nextTid) ∧
    (∀ pd ∈ (step a e).1.pending, pd ∈ a.pending ∨
      ∃ k, pd.tid = 2 * k + a.tag ∧ a.nextTid ≤ k ∧ k < (step a e).1.nextTid) := by
  have hf := IceProofs.AgentC02.tid_step a e
  have hn := nt_step a e
  have hs := sq_step a e
  have hu : UP a.tag (fun pd => pd ∈ a.pending) (step a e).1 :=
    u_step a.tag (fun pd => pd ∈ a.pending) a e ⟨rfl, fun pd h => Or.inl h⟩
  refine ⟨hf.tid, ?_, ?_⟩
  · intro f t m hm hc
    obtain ⟨k, h1, h2, h3⟩ := hs.mem hm hc
    exact ⟨k, h1, h2, by rw [hn]; exact h3⟩
  · intro pd hpd
    rcases hu.2 pd hpd with h | ⟨k, h1, h2⟩
    · exact Or.inl h
    · rcases hf.pend pd hpd with h | h
      · exact Or.inl h
      · exact Or.inr ⟨k, h1, by omega, h2⟩

/-- A `RenominateCandidate` that is not refused emits exactly the nomination: every Binding request in the outputs
carries USE-CANDIDATE, the value iff it is positive, and the id `2 * nextTid + tag`; every transaction that was not
outstanding before carries that id. -/
theorem step_issue_tid (a : Agent) (e : Ev) (v la ra : Nat) (h : issueOf a e = some (v, la, ra)) :
    (∀ f t m, Out.dgram f t m ∈ (step a e).2 → m.cls = 0 →
      m.tid = 2 * a.nextTid + a.tag ∧ m.useCand = true ∧ m.nom = (if 0 < v then some v else none)) ∧
    (∀ pd ∈ (step a e).1.pending, pd ∈ a.pending ∨ pd.tid = 2 * a.nextTid + a.tag) := by
  obtain ⟨now, ri, l, r, rfl, hc, hen, hl, hr, hp, _⟩ := issueOf_inv h
  rw [step_renominate_ok a now la ri v l r hc hen hl hr hp]
  constructor
  · intro f t m hm _
    rw [sendRequest_out] at hm
    simp only [List.cons_append, List.nil_append, List.mem_cons, Out.dgram.injEq, reduceCtorEq, List.not_mem_nil,
      or_false] at hm
    obtain ⟨_, _, rfl⟩ := hm
    exact ⟨rfl, rfl, rfl⟩
  · intro pd hpd
    change pd ∈ (a.sendRequest now l r true (if v > 0 then some v else none)).1.pending at hpd
    rw [sendRequest_pending] at hpd
    rcases List.mem_append.mp hpd with hpd | hpd
    · exact Or.inl (mem_invalidatePending hpd)
    · right
      rw [List.mem_singleton.mp hpd]

end IceProofs.C20S
