import IceProofs.Sys2C01LiveChain
/-!
# C01 liveness, layer 6 — waves

`wave s` delivers, in order, every datagram that is in flight in `s` (new datagrams queue up behind them).
A transaction whose request is in flight has its response in flight after one wave (`wave_ch1`), and is complete
after the next (`wave_ch2`).
-/
namespace IceProofs.C01Live
open IceModel.AgentCore IceModel.Sys2 IceProofs.Sys2Run IceProofs.C01 IceProofs.Agent

/-- deliver the head of the queue `n` times -/
def flushN : Nat → Sys → Sys
  | 0, s => s
  | n + 1, s => flushN n (Sys.run s (.deliver 0))

/-- deliver everything that is in flight now -/
def wave (s : Sys) : Sys := flushN s.inflight.length s

/-- the events of `flushN` -/
theorem flushN_runs (n : Nat) (s : Sys) : flushN n s = Sys.runs s (List.replicate n (.deliver 0)) := by
  induction n generalizing s with
  | zero => rfl
  | succ n ih => rw [flushN, ih]; rfl

theorem run_deliver0_nil (s : Sys) (h : s.inflight = []) : Sys.run s (.deliver 0) = s := by
  simp [Sys.run, Sys.runOut, Sys.deliver, h]

section
variable {nat blocked : List (Nat × Nat)} {SLA SLB SR : Nat → Prop} {liteA liteB : Bool} {T0 H : Nat} {c : Bool}

theorem SysOK.deliver0 {s : Sys} (h : SysOK nat blocked SLA SLB SR liteA liteB T0 H c s) :
    SysOK nat blocked SLA SLB SR liteA liteB T0 H c (Sys.run s (.deliver 0)) := h.deliver 0 false

theorem SysOK.flushN {s : Sys} (h : SysOK nat blocked SLA SLB SR liteA liteB T0 H c s) (n : Nat) :
    SysOK nat blocked SLA SLB SR liteA liteB T0 H c (flushN n s) := by
  induction n generalizing s with
  | zero => exact h
  | succ n ih => exact ih h.deliver0

theorem SysOK.wave {s : Sys} (h : SysOK nat blocked SLA SLB SR liteA liteB T0 H c s) :
    SysOK nat blocked SLA SLB SR liteA liteB T0 H c (wave s) := h.flushN _

/-! ## what a delivery keeps -/

theorem HasSucc.keep {s s' : Sys} {hd : Dgram} {t : List Dgram} (he : Effect T0 s s' hd t) {x : Bool} (g : HasSucc s x) :
    HasSucc s' x := by
  obtain ⟨p, hp, hs⟩ := g
  rcases he.cases with ⟨_, e, _⟩ | ⟨y, m, _, _, _, _, ho, k, _⟩
  · exact ⟨p, by rw [e]; exact hp, hs⟩
  · by_cases hxy : x = y
    · subst hxy
      obtain ⟨p', hp', kp⟩ := k.mem_pair hp
      exact ⟨p', hp', kp.succ hs⟩
    · have e : s'.agent x = s.agent x := by rw [bool_ne_eq_not hxy]; exact ho
      exact ⟨p, by rw [e]; exact hp, hs⟩

theorem Sel.keep {s s' : Sys} {hd : Dgram} {t : List Dgram} (he : Effect T0 s s' hd t) {x : Bool} (g : Sel s x) : Sel s' x := by
  unfold Sel at *
  rcases he.cases with ⟨_, e, _⟩ | ⟨y, m, _, _, _, _, ho, k, _⟩
  · rw [e]; exact g
  · by_cases hxy : x = y
    · subst hxy; exact k.sel g
    · have e : s'.agent x = s.agent x := by rw [bool_ne_eq_not hxy]; exact ho
      rw [e]; exact g

theorem Goal.keep {s s' : Sys} {hd : Dgram} {t : List Dgram} (he : Effect T0 s s' hd t) {x : Bool} {uc nomOn : Bool}
    (g : Goal c s x uc nomOn) : Goal c s' x uc nomOn :=
  ⟨HasSucc.keep he g.1, fun hc => Sel.keep he (g.2 hc)⟩

/-! ## the two levels of a transaction -/

/-- the response is in flight (or the transaction is complete) -/
def Ch2 (c : Bool) (s : Sys) (x : Bool) (tid la ra : Nat) (uc nomOn : Bool) (ts : Nat) : Prop :=
  Goal c s x uc nomOn ∨ (Ob s x tid la ra uc nomOn ts ∧ ∃ d ∈ s.inflight, RespD s x tid la ra d)

/-- the request or the response is in flight (or the transaction is complete) -/
def Ch1 (c : Bool) (s : Sys) (x : Bool) (tid la ra : Nat) (uc nomOn : Bool) (ts : Nat) : Prop :=
  Ch2 c s x tid la ra uc nomOn ts ∨ (Ob s x tid la ra uc nomOn ts ∧ ∃ d ∈ s.inflight, ReqD s x tid la ra uc d)

/-- … at one of the first `n` positions of the queue -/
def Ch2At (c : Bool) (n : Nat) (s : Sys) (x : Bool) (tid la ra : Nat) (uc nomOn : Bool) (ts : Nat) : Prop :=
  Goal c s x uc nomOn ∨ (Ob s x tid la ra uc nomOn ts ∧ ∃ i, i < n ∧ ∃ d, s.inflight[i]? = some d ∧ RespD s x tid la ra d)

def Ch1At (c : Bool) (n : Nat) (s : Sys) (x : Bool) (tid la ra : Nat) (uc nomOn : Bool) (ts : Nat) : Prop :=
  Ch2 c s x tid la ra uc nomOn ts ∨
    (Ob s x tid la ra uc nomOn ts ∧ ∃ i, i < n ∧ ∃ d, s.inflight[i]? = some d ∧ ReqD s x tid la ra uc d)

variable {x : Bool} {tid la ra : Nat} {uc nomOn : Bool} {ts : Nat}

/-- one delivery: a pending response stays pending unless it is the one delivered, which completes the transaction
or (not verifying) changes nothing -/
theorem head_mem {s : Sys} {hd : Dgram} {t : List Dgram} (hs : s.inflight = hd :: t) : hd ∈ s.inflight := by
  rw [hs]; exact List.mem_cons_self

theorem resp_keep {s s' : Sys} (h : SysOK nat blocked SLA SLB SR liteA liteB T0 H c s) {hd : Dgram} {t : List Dgram}
    (he : Effect T0 s s' hd t) (hmem : hd ∈ s.inflight) (hob : Ob s x tid la ra uc nomOn ts) :
    Goal c s' x uc nomOn ∨ Ob s' x tid la ra uc nomOn ts := by
  by_cases hq : ∃ m, hd.p = .stun m ∧ m.cls = 2 ∧ m.tid = tid
  · obtain ⟨m, hm, hc, ht⟩ := hq
    exact (hop_resp h he hmem hob hm hc ht).1
  · exact Or.inr (hob.keep h he (fun m hm hc ht _ => hq ⟨m, hm, hc, ht⟩))

/-- the verifying response itself is delivered -/
theorem resp_fin {s s' : Sys} (h : SysOK nat blocked SLA SLB SR liteA liteB T0 H c s) {hd : Dgram} {t : List Dgram}
    (he : Effect T0 s s' hd t) (hmem : hd ∈ s.inflight) (hob : Ob s x tid la ra uc nomOn ts) (hr : RespD s x tid la ra hd) :
    Goal c s' x uc nomOn := by
  obtain ⟨_, _, m, hm, hc, hmeth, ht, hkey⟩ := hr
  exact (hop_resp h he hmem hob hm hc ht).2 hmeth hkey

theorem resp_step {s : Sys} (h : SysOK nat blocked SLA SLB SR liteA liteB T0 H c s) {hd : Dgram} {t : List Dgram}
    (hs : s.inflight = hd :: t) (hob : Ob s x tid la ra uc nomOn ts) :
    Goal c (Sys.run s (.deliver 0)) x uc nomOn ∨ Ob (Sys.run s (.deliver 0)) x tid la ra uc nomOn ts :=
  resp_keep h (deliver0_effect h hs).2 (head_mem hs) hob

theorem resp_done {s : Sys} (h : SysOK nat blocked SLA SLB SR liteA liteB T0 H c s) {hd : Dgram} {t : List Dgram}
    (hs : s.inflight = hd :: t) (hob : Ob s x tid la ra uc nomOn ts) (hr : RespD s x tid la ra hd) :
    Goal c (Sys.run s (.deliver 0)) x uc nomOn :=
  resp_fin h (deliver0_effect h hs).2 (head_mem hs) hob hr

/-- a transaction in progress survives ANY delivery or duplication (of any datagram in flight) -/
theorem Ch2.keep {s s' : Sys} (h : SysOK nat blocked SLA SLB SR liteA liteB T0 H c s) {hd : Dgram} {t : List Dgram}
    (he : Effect T0 s s' hd t) (hmem : hd ∈ s.inflight) (hall : ∀ d ∈ s.inflight, d ∈ t ∨ d = hd)
    (g : Ch2 c s x tid la ra uc nomOn ts) : Ch2 c s' x tid la ra uc nomOn ts := by
  rcases g with g | ⟨hob, d, hd', hr⟩
  · exact Or.inl (g.keep he)
  · rcases hall d hd' with hin | heq
    · rcases resp_keep h he hmem hob with g | hob'
      · exact Or.inl g
      · exact Or.inr ⟨hob', d, he.mem_tail hin, hr.keep he⟩
    · subst heq
      exact Or.inl (resp_fin h he hmem hob hr)

theorem Ch1.keep {s s' : Sys} (h : SysOK nat blocked SLA SLB SR liteA liteB T0 H c s) {hd : Dgram} {t : List Dgram}
    (he : Effect T0 s s' hd t) (hmem : hd ∈ s.inflight) (hall : ∀ d ∈ s.inflight, d ∈ t ∨ d = hd)
    (g : Ch1 c s x tid la ra uc nomOn ts) : Ch1 c s' x tid la ra uc nomOn ts := by
  rcases g with g | ⟨hob, d, hd', hr⟩
  · exact Or.inl (g.keep h he hmem hall)
  · rcases hall d hd' with hin | heq
    · rcases resp_keep h he hmem hob with g | hob'
      · exact Or.inl (Or.inl g)
      · exact Or.inr ⟨hob', d, he.mem_tail hin, hr.keep he⟩
    · subst heq
      obtain ⟨k1, ⟨d', hd1, hr1⟩, _⟩ := hop_req h he hmem hob hr
      exact Or.inl (Or.inr ⟨k1, d', hd1, hr1⟩)

theorem Ch2.step {s : Sys} (h : SysOK nat blocked SLA SLB SR liteA liteB T0 H c s)
    (g : Ch2 c s x tid la ra uc nomOn ts) : Ch2 c (Sys.run s (.deliver 0)) x tid la ra uc nomOn ts := by
  cases hs : s.inflight with
  | nil => rw [run_deliver0_nil s hs]; exact g
  | cons hd t =>
    obtain ⟨_, he⟩ := deliver0_effect h hs
    rcases g with g | ⟨hob, d, hd', hr⟩
    · exact Or.inl (g.keep he)
    · rw [hs] at hd'
      rcases List.mem_cons.mp hd' with e | hmem
      · subst e
        exact Or.inl (resp_done h hs hob hr)
      · rcases resp_step h hs hob with g | hob'
        · exact Or.inl g
        · exact Or.inr ⟨hob', d, he.mem_tail hmem, hr.keep he⟩

theorem getElem?_tail_of {α : Type} {l t : List α} {hd : α} (hs : l = hd :: t) {i : Nat} {d : α}
    (h : l[i + 1]? = some d) : t[i]? = some d := by
  subst hs; simpa using h

theorem Effect.getElem_tail {s s' : Sys} {hd : Dgram} {t : List Dgram} (he : Effect T0 s s' hd t) {i : Nat} {d : Dgram}
    (h : t[i]? = some d) : s'.inflight[i]? = some d := by
  have hi : i < t.length := by
    rcases Nat.lt_or_ge i t.length with h' | h'
    · exact h'
    · rw [List.getElem?_eq_none h'] at h; cases h
  rcases he.cases with ⟨e, _, _⟩ | ⟨x, m, _, _, _, _, _, _, e⟩
  · rw [e]; exact h
  · rw [e, List.getElem?_append_left hi]; exact h

theorem Ch2At.step {s : Sys} (h : SysOK nat blocked SLA SLB SR liteA liteB T0 H c s) {n : Nat}
    (g : Ch2At c (n + 1) s x tid la ra uc nomOn ts) : Ch2At c n (Sys.run s (.deliver 0)) x tid la ra uc nomOn ts := by
  cases hs : s.inflight with
  | nil =>
    rcases g with g | ⟨_, i, _, d, hd', _⟩
    · rw [run_deliver0_nil s hs]; exact Or.inl g
    · rw [hs] at hd'; simp at hd'
  | cons hd t =>
    obtain ⟨_, he⟩ := deliver0_effect h hs
    rcases g with g | ⟨hob, i, hi, d, hd', hr⟩
    · exact Or.inl (g.keep he)
    · cases i with
      | zero =>
        rw [hs] at hd'
        simp at hd'
        subst hd'
        exact Or.inl (resp_done h hs hob hr)
      | succ i =>
        rcases resp_step h hs hob with g | hob'
        · exact Or.inl g
        · exact Or.inr ⟨hob', i, by omega, d, he.getElem_tail (getElem?_tail_of hs hd'), hr.keep he⟩

theorem Ch1At.step {s : Sys} (h : SysOK nat blocked SLA SLB SR liteA liteB T0 H c s) {n : Nat}
    (g : Ch1At c (n + 1) s x tid la ra uc nomOn ts) : Ch1At c n (Sys.run s (.deliver 0)) x tid la ra uc nomOn ts := by
  rcases g with g | ⟨hob, i, hi, d, hd', hr⟩
  · exact Or.inl (g.step h)
  · cases hs : s.inflight with
    | nil => rw [hs] at hd'; simp at hd'
    | cons hd t =>
      obtain ⟨_, he⟩ := deliver0_effect h hs
      cases i with
      | zero =>
        rw [hs] at hd'
        simp at hd'
        subst hd'
        obtain ⟨k1, ⟨d', hd1, hr1⟩, _⟩ := hop_req h (deliver0_effect h hs).2 (head_mem hs) hob hr
        exact Or.inl (Or.inr ⟨k1, d', hd1, hr1⟩)
      | succ i =>
        rcases resp_step h hs hob with g | hob'
        · exact Or.inl (Or.inl g)
        · exact Or.inr ⟨hob', i, by omega, d, he.getElem_tail (getElem?_tail_of hs hd'), hr.keep he⟩

/-! ## waves -/

theorem Ch2.flushN {s : Sys} (h : SysOK nat blocked SLA SLB SR liteA liteB T0 H c s) (n : Nat)
    (g : Ch2 c s x tid la ra uc nomOn ts) : Ch2 c (flushN n s) x tid la ra uc nomOn ts := by
  induction n generalizing s with
  | zero => exact g
  | succ n ih => exact ih h.deliver0 (g.step h)

theorem Ch2At.flushN {s : Sys} (h : SysOK nat blocked SLA SLB SR liteA liteB T0 H c s) (n : Nat)
    (g : Ch2At c n s x tid la ra uc nomOn ts) : Goal c (flushN n s) x uc nomOn := by
  induction n generalizing s with
  | zero =>
    rcases g with g | ⟨_, i, hi, _⟩
    · exact g
    · omega
  | succ n ih => exact ih h.deliver0 (g.step h)

theorem Ch1At.flushN {s : Sys} (h : SysOK nat blocked SLA SLB SR liteA liteB T0 H c s) (n : Nat)
    (g : Ch1At c n s x tid la ra uc nomOn ts) : Ch2 c (flushN n s) x tid la ra uc nomOn ts := by
  induction n generalizing s with
  | zero =>
    rcases g with g | ⟨_, i, hi, _⟩
    · exact g
    · omega
  | succ n ih => exact ih h.deliver0 (g.step h)

theorem mem_getElem_lt {α : Type} {l : List α} {d : α} (h : d ∈ l) : ∃ i, i < l.length ∧ l[i]? = some d := by
  obtain ⟨i, hi⟩ := List.getElem?_of_mem h
  refine ⟨i, ?_, hi⟩
  rcases Nat.lt_or_ge i l.length with h' | h'
  · exact h'
  · rw [List.getElem?_eq_none h'] at hi; cases hi

/-- a response in flight is consumed by the next wave -/
theorem wave_ch2 {s : Sys} (h : SysOK nat blocked SLA SLB SR liteA liteB T0 H c s)
    (g : Ch2 c s x tid la ra uc nomOn ts) : Goal c (wave s) x uc nomOn := by
  apply Ch2At.flushN h
  rcases g with g | ⟨hob, d, hd, hr⟩
  · exact Or.inl g
  · obtain ⟨i, hi, he⟩ := mem_getElem_lt hd
    exact Or.inr ⟨hob, i, hi, d, he, hr⟩

/-- a request in flight is answered within the next wave -/
theorem wave_ch1 {s : Sys} (h : SysOK nat blocked SLA SLB SR liteA liteB T0 H c s)
    (g : Ch1 c s x tid la ra uc nomOn ts) : Ch2 c (wave s) x tid la ra uc nomOn ts := by
  apply Ch1At.flushN h
  rcases g with g | ⟨hob, d, hd, hr⟩
  · exact Or.inl g
  · obtain ⟨i, hi, he⟩ := mem_getElem_lt hd
    exact Or.inr ⟨hob, i, hi, d, he, hr⟩

theorem Ch1.step {s : Sys} (h : SysOK nat blocked SLA SLB SR liteA liteB T0 H c s)
    (g : Ch1 c s x tid la ra uc nomOn ts) : Ch1 c (Sys.run s (.deliver 0)) x tid la ra uc nomOn ts := by
  rcases g with g | ⟨hob, d, hd, hr⟩
  · exact Or.inl (g.step h)
  · obtain ⟨i, hi, he⟩ := mem_getElem_lt hd
    have : Ch1At c (i + 1) s x tid la ra uc nomOn ts := Or.inr ⟨hob, i, by omega, d, he, hr⟩
    rcases this.step h with g | ⟨hob', j, _, d', hd', hr'⟩
    · exact Or.inl g
    · exact Or.inr ⟨hob', d', List.mem_of_getElem? hd', hr'⟩

theorem Goal.flushN {s : Sys} (h : SysOK nat blocked SLA SLB SR liteA liteB T0 H c s) (n : Nat)
    (g : Goal c s x uc nomOn) : Goal c (flushN n s) x uc nomOn := by
  induction n generalizing s with
  | zero => exact g
  | succ n ih =>
    cases hs : s.inflight with
    | nil => rw [IceProofs.C01Live.flushN, run_deliver0_nil s hs]; exact ih h g
    | cons hd t => exact ih h.deliver0 (g.keep (deliver0_effect h hs).2)

end

end IceProofs.C01Live
