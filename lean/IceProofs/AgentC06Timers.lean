import IceProofs.AgentC06Handlers
/-!
# C06 — the timer path (`contact`, `runForced`, `runTimers`): an evolution, or the Failed wipe
-/
namespace IceProofs.AgentC06
open IceModel.AgentCore

/-- all bookkeeping fields (and `pending`) literally equal -/
structure SameCore (a a' : Agent) : Prop where
  checklist : a'.checklist = a.checklist
  locals : a'.locals = a.locals
  remotes : a'.remotes = a.remotes
  caches : a'.caches = a.caches
  selected : a'.selected = a.selected
  pending : a'.pending = a.pending
  nextUid : a'.nextUid = a.nextUid
  nextPairID : a'.nextPairID = a.nextPairID
  cfg : a'.cfg = a.cfg
  closed : a'.closed = a.closed
  nominatedPair : a'.nominatedPair = a.nominatedPair
  connState : a'.connState = a.connState

theorem SameCore.refl (a : Agent) : SameCore a a := ⟨rfl, rfl, rfl, rfl, rfl, rfl, rfl, rfl, rfl, rfl, rfl, rfl⟩

theorem SameCore.trans {a b c : Agent} (h1 : SameCore a b) (h2 : SameCore b c) : SameCore a c :=
  ⟨h2.checklist.trans h1.checklist, h2.locals.trans h1.locals, h2.remotes.trans h1.remotes,
   h2.caches.trans h1.caches, h2.selected.trans h1.selected, h2.pending.trans h1.pending,
   h2.nextUid.trans h1.nextUid, h2.nextPairID.trans h1.nextPairID, h2.cfg.trans h1.cfg,
   h2.closed.trans h1.closed, h2.nominatedPair.trans h1.nominatedPair, h2.connState.trans h1.connState⟩

theorem SameCore.same {a a' : Agent} (h : SameCore a a') : Same a a' :=
  Same.of_fields h.checklist h.locals h.remotes h.caches h.nextUid h.nextPairID h.cfg h.closed h.selected
    h.nominatedPair h.connState

/-- `a'` is what a transition to Failed leaves behind, seen from `a` -/
structure WF (a a' : Agent) : Prop where
  wiped : Wiped a'
  failed : a'.connState = .failed
  nextUid : a'.nextUid = a.nextUid
  nextPairID : a'.nextPairID = a.nextPairID
  cfg : a'.cfg = a.cfg
  closed : a'.closed = a.closed
  nom : a'.nominatedPair = a.nominatedPair ∨ a'.nominatedPair = none ∨
    ∃ id, a'.nominatedPair = some id ∧ id ∈ idsOf a

inductive EvoW (a a' : Agent) : Prop
  | evo (h : Evo a a')
  | wf (h : WF a a')

theorem Inv.wf {a a' : Agent} (h : Inv a) (w : WF a a') : Inv a' := by
  obtain ⟨h1, h2, h3, h5, _, h4⟩ := w.wiped
  refine ⟨?_, ?_, ?_, ?_, ?_⟩
  · unfold InvS keysOf lcsOf rcsOf
    rw [h1, h2, h3, h4, w.nextUid, w.nextPairID, w.cfg, w.closed]
    exact h.s.wiped
  · intro id hid; rw [h5] at hid; exact absurd hid (by simp)
  · intro id hid; rw [h5] at hid; exact absurd hid (by simp)
  · intro id hid
    rw [w.nextPairID]
    rcases w.nom with h10 | h10 | ⟨id', h10, hm⟩
    · exact h.c.nomLe id (h10 ▸ hid)
    · rw [h10] at hid; exact absurd hid (by simp)
    · rw [h10] at hid
      have : id' = id := by simpa using hid
      subst this
      obtain ⟨k, hk, hk1⟩ := mem_ids_iff_keys.1 hm
      exact hk1 ▸ h.s.idsLe k hk
  · intro id _
    exact Or.inr (Or.inl w.failed)

theorem Inv.evoW {a a' : Agent} (h : Inv a) (w : EvoW a a') : Inv a' := by
  cases w with
  | evo e => exact h.evo e
  | wf w => exact h.wf w

theorem WF.l_evo {a b c : Agent} (e : Evo a b) (w : WF b c) : WF a c :=
  { w with
    nextUid := w.nextUid.trans e.nextUid
    nextPairID := w.nextPairID.trans e.nextPairID
    cfg := w.cfg.trans e.cfg
    closed := w.closed.trans e.closed
    nom := by
      rcases w.nom with h | h | ⟨id, h, hm⟩
      · rw [h]; exact e.nom
      · exact Or.inr (Or.inl h)
      · exact Or.inr (Or.inr ⟨id, h, e.ids ▸ hm⟩) }

theorem WF.r_core {a b c : Agent} (w : WF a b) (s : SameCore b c) : WF a c := by
  obtain ⟨h1, h2, h3, h4, h5, h6⟩ := w.wiped
  exact ⟨⟨s.checklist.trans h1, s.locals.trans h2, s.remotes.trans h3, s.selected.trans h4,
    s.pending.trans h5, s.caches.trans h6⟩, s.connState.trans w.failed, s.nextUid.trans w.nextUid,
    s.nextPairID.trans w.nextPairID, s.cfg.trans w.cfg, s.closed.trans w.closed, s.nominatedPair ▸ w.nom⟩

theorem EvoW.l_evo {a b c : Agent} (e : Evo a b) (w : EvoW b c) : EvoW a c := by
  cases w with
  | evo e' => exact .evo (e.trans e')
  | wf w => exact .wf (w.l_evo e)

theorem EvoW.r_core {a b c : Agent} (w : EvoW a b) (s : SameCore b c) : EvoW a c := by
  cases w with
  | evo e => exact .evo (e.r_same s.same)
  | wf w => exact .wf (w.r_core s)

theorem EvoW.refl (a : Agent) : EvoW a a := .evo (Evo.refl a)

/-! ## `validateSelectedPair`, keepalive -/

theorem EvoW.setConnState (a : Agent) (s : ConnState) (hsel : a.selected.isSome) :
    EvoW a (a.setConnState s).1 := by
  by_cases hs : s = .failed
  · subst hs
    by_cases hc : a.connState = .failed
    · rw [setConnState_same a _ hc]; exact EvoW.refl a
    · rw [setConnState_failed a hc]
      exact .wf ⟨⟨rfl, rfl, rfl, rfl, rfl, rfl⟩, rfl, rfl, rfl, rfl, rfl, Or.inl rfl⟩
  · exact .evo (Evo.setConnState a s hs hsel)

theorem EvoW.validateSelected (a : Agent) (now : Nat) : EvoW a (a.validateSelected now).1 := by
  unfold Agent.validateSelected
  split
  · exact EvoW.refl a
  · rename_i p hp
    have hsel : a.selected.isSome := by
      cases hs : a.selected with
      | none => rw [hs] at hp; simp at hp
      | some _ => rfl
    exact EvoW.setConnState a _ hsel

theorem keepalive_none (a : Agent) (now : Nat) (h : a.selected = none) : (a.keepalive now).1 = a := by
  unfold Agent.keepalive
  simp [h]

theorem EvoW.keepalive {a b : Agent} (w : EvoW a b) (now : Nat) : EvoW a (b.keepalive now).1 := by
  cases w with
  | evo e => exact .evo (e.r_same (Same.keepalive b now))
  | wf w => rw [keepalive_none b now w.wiped.2.2.2.1]; exact .wf w

/-- the shared shape "validate, then keepalive if a pair was selected" -/
theorem EvoW.validateKeepalive (a : Agent) (now : Nat) :
    EvoW a (let (a, o, ok) := a.validateSelected now
            if ok then let (a, o') := a.keepalive now; (a, o ++ o') else (a, o)).1 := by
  have h := EvoW.validateSelected a now
  generalize a.validateSelected now = vs at h
  obtain ⟨b, o, ok⟩ := vs
  simp only [] at h ⊢
  split
  · exact h.keepalive now
  · exact h

theorem EvoW.autoRenom {a b : Agent} (w : EvoW a b) (now : Nat) : EvoW a (b.autoRenom now).1 := by
  cases w with
  | evo e => exact .evo (e.r_same (Same.autoRenom b now))
  | wf w => rw [IceProofs.Auto.autoRenom_wiped b now w.wiped.1 w.wiped.2.2.2.1]; exact .wf w

/-- the controlling selector's shape "validate, then keepalive and the automatic renomination if a pair was selected" -/
theorem EvoW.validateKeepaliveAuto (a : Agent) (now : Nat) :
    EvoW a (let (a, o, ok) := a.validateSelected now
            if ok then let (a, o') := a.keepalive now; let (a, o'') := a.autoRenom now; (a, o ++ o' ++ o'')
            else (a, o)).1 := by
  have h := EvoW.validateSelected a now
  generalize a.validateSelected now = vs at h
  obtain ⟨b, o, ok⟩ := vs
  simp only [] at h ⊢
  split
  · exact (h.keepalive now).autoRenom now
  · exact h

theorem EvoW.contactCandidates (a : Agent) (now : Nat) : EvoW a (a.contactCandidates now).1 := by
  unfold Agent.contactCandidates
  split
  · split
    · exact EvoW.validateKeepaliveAuto a now
    · split
      · exact .evo (Same.nominate a now _).evo
      · split
        · exact EvoW.refl a
        · split
          · rename_i p hp
            have hid : p.id ∈ idsOf a := mem_ids_iff.2 ⟨p, bestBy_mem hp, rfl⟩
            split
            · split
              · refine .evo ?_
                evo_auto
              · exact .evo (Same.pingAll a now).evo
            · exact .evo (Same.pingAll a now).evo
          · exact .evo (Same.pingAll a now).evo
  · split
    · have h := EvoW.validateSelected a now
      generalize a.validateSelected now = vs at h
      obtain ⟨b, o, ok⟩ := vs
      exact h
    · split
      · exact EvoW.validateKeepalive a now
      · exact .evo (Same.pingAll a now).evo

/-! ## `contact`, `runForced`, `runTimers` -/

theorem EvoW.contact (a : Agent) (now : Nat) : EvoW a (a.contact now).1 := by
  unfold Agent.contact
  split
  · exact EvoW.refl a
  · extract_lets fin b
    have hfin : ∀ x : Agent × List Out, SameCore x.1 (fin x).1 := fun x =>
      ⟨rfl, rfl, rfl, rfl, rfl, rfl, rfl, rfl, rfl, rfl, rfl, rfl⟩
    clear_value fin
    split
    · exact (EvoW.refl a).r_core (hfin (a, []))
    · have eb : Evo a b := by
        simp only [b]; split
        · exact Same.evo rfl
        · exact Evo.refl a
      have hb : b.connState = .checking := by
        rename_i hc
        simp only [b]; split <;> exact hc
      clear_value b
      split
      · -- checking timeout: Failed
        refine EvoW.r_core (EvoW.l_evo eb ?_) (hfin _)
        have : b.connState ≠ .failed := by rw [hb]; simp
        rw [setConnState_failed b this]
        exact .wf ⟨⟨rfl, rfl, rfl, rfl, rfl, rfl⟩, rfl, rfl, rfl, rfl, rfl, Or.inl rfl⟩
      · exact (EvoW.l_evo eb (EvoW.contactCandidates b now)).r_core (hfin _)
    · exact (EvoW.contactCandidates a now).r_core (hfin _)

theorem contact_failed (a : Agent) (now : Nat) (h : a.connState = .failed) : SameCore a (a.contact now).1 := by
  unfold Agent.contact
  split
  · exact SameCore.refl a
  · split
    · exact ⟨rfl, rfl, rfl, rfl, rfl, rfl, rfl, rfl, rfl, rfl, rfl, rfl⟩
    · rename_i hc; rw [h] at hc; exact absurd hc (by simp)
    · rename_i hc _; exact absurd h hc

theorem EvoW.runForced (a : Agent) (now : Nat) : EvoW a (a.runForced now).1 := by
  unfold Agent.runForced
  split
  · have h : EvoW a (({ a with forcePending := false }).contact now).1 :=
      EvoW.l_evo (b := { a with forcePending := false }) (Same.evo rfl) (EvoW.contact _ now)
    generalize ({ a with forcePending := false }).contact now = c at h
    obtain ⟨b, o⟩ := c
    exact h.r_core ⟨rfl, rfl, rfl, rfl, rfl, rfl, rfl, rfl, rfl, rfl, rfl, rfl⟩
  · exact EvoW.refl a

theorem runTimers_failed (a : Agent) (now fuel : Nat) (h : a.connState = .failed) :
    SameCore a (a.runTimers now fuel).1 := by
  induction fuel generalizing a with
  | zero => exact SameCore.refl a
  | succ n ih =>
    unfold Agent.runTimers
    split
    · split
      · rename_i t _ _
        have hc := contact_failed a t h
        generalize a.contact t = c at hc
        obtain ⟨b, o⟩ := c
        simp only [] at hc ⊢
        have hb : SameCore a { b with nextTick := some (t + b.interval) } :=
          hc.trans ⟨rfl, rfl, rfl, rfl, rfl, rfl, rfl, rfl, rfl, rfl, rfl, rfl⟩
        have := ih { b with nextTick := some (t + b.interval) } (hb.connState.trans h)
        generalize Agent.runTimers { b with nextTick := some (t + b.interval) } now n = rt at this
        obtain ⟨c, o'⟩ := rt
        exact hb.trans this
      · exact SameCore.refl a
    · exact SameCore.refl a

theorem EvoW.runTimers (a : Agent) (now fuel : Nat) : EvoW a (a.runTimers now fuel).1 := by
  induction fuel generalizing a with
  | zero => exact EvoW.refl a
  | succ n ih =>
    unfold Agent.runTimers
    split
    · split
      · rename_i t _ _
        have hc := EvoW.contact a t
        generalize a.contact t = c at hc
        obtain ⟨b, o⟩ := c
        simp only [] at hc ⊢
        have hb : EvoW a { b with nextTick := some (t + b.interval) } :=
          hc.r_core ⟨rfl, rfl, rfl, rfl, rfl, rfl, rfl, rfl, rfl, rfl, rfl, rfl⟩
        have h2 := ih { b with nextTick := some (t + b.interval) }
        have h3 := fun hf => runTimers_failed { b with nextTick := some (t + b.interval) } now n hf
        generalize Agent.runTimers { b with nextTick := some (t + b.interval) } now n = rt at h2 h3
        obtain ⟨c, o'⟩ := rt
        simp only [] at h2 h3 ⊢
        cases hb with
        | evo e => exact EvoW.l_evo e h2
        | wf w => exact .wf (w.r_core (h3 w.failed))
      · exact EvoW.refl a
    · exact EvoW.refl a

end IceProofs.AgentC06
