import IceProofs.Sys2C01LiveWave
/-!
# C01 liveness, layer 7 — the controlled agent follows the nomination

`hop_nom`: a USE-CANDIDATE request of the controlling agent `c` over a `Link`, handed to the controlled agent, makes
it select a pair or open a transaction of its own on the pair it marked (`DP`).

`Linked`: whenever the controlling agent has a selected pair — or a success response to one of its USE-CANDIDATE
transactions is in flight — the controlled agent has a selected pair or such a transaction in progress.  (This is
the provenance of a selection: the response exists only because the controlled agent handled the nomination.)
-/
namespace IceProofs.C01Live
open IceModel.AgentCore IceModel.Sys2 IceProofs.Sys2Run IceProofs.C01 IceProofs.Agent

section
variable {nat blocked : List (Nat × Nat)} {SLA SLB SR : Nat → Prop} {liteA liteB : Bool} {T0 H : Nat} {c : Bool}

/-- datagram `d` is a nomination request of the controlling agent on the route `la → ra` -/
def NomD (c : Bool) (s : Sys) (la ra : Nat) (d : Dgram) : Prop :=
  d.src = la ∧ d.dst = ra ∧ ∃ m, d.p = .stun m ∧ IsReq (s.agent c) true m

/-- progress of the controlled agent: a selected pair, or a transaction of its own on a marked pair in progress
(`fresh`: opened at the current time) -/
def DP (c : Bool) (s : Sys) (fresh : Bool) : Prop :=
  Sel s (!c) ∨ ∃ tid lb rb ts, Ch1 c s (!c) tid lb rb false true ts ∧ (fresh = true → ts = s.now)

theorem run_deliver0_now {s : Sys} (h : SysOK nat blocked SLA SLB SR liteA liteB T0 H c s) :
    (Sys.run s (.deliver 0)).now = s.now := by
  cases hs : s.inflight with
  | nil => rw [run_deliver0_nil s hs]
  | cons hd t => exact (deliver0_effect h hs).2.now

theorem Sel.step {s : Sys} (h : SysOK nat blocked SLA SLB SR liteA liteB T0 H c s) {x : Bool} (g : Sel s x) :
    Sel (Sys.run s (.deliver 0)) x := by
  cases hs : s.inflight with
  | nil => rw [run_deliver0_nil s hs]; exact g
  | cons hd t => exact g.keep (deliver0_effect h hs).2

theorem Sel.flushN {s : Sys} (h : SysOK nat blocked SLA SLB SR liteA liteB T0 H c s) (n : Nat) {x : Bool} (g : Sel s x) :
    Sel (flushN n s) x := by
  induction n generalizing s with
  | zero => exact g
  | succ n ih => exact ih h.deliver0 (g.step h)

theorem DP.step {s : Sys} (h : SysOK nat blocked SLA SLB SR liteA liteB T0 H c s) {fresh : Bool} (g : DP c s fresh) :
    DP c (Sys.run s (.deliver 0)) fresh := by
  rcases g with g | ⟨tid, lb, rb, ts, g, hf⟩
  · exact Or.inl (g.step h)
  · exact Or.inr ⟨tid, lb, rb, ts, g.step h, fun hfr => by rw [run_deliver0_now h]; exact hf hfr⟩

theorem DP.flushN {s : Sys} (h : SysOK nat blocked SLA SLB SR liteA liteB T0 H c s) (n : Nat) {fresh : Bool}
    (g : DP c s fresh) : DP c (flushN n s) fresh := by
  induction n generalizing s with
  | zero => exact g
  | succ n ih => exact ih h.deliver0 (g.step h)

theorem DP.weaken {s : Sys} {fresh : Bool} (g : DP c s fresh) : DP c s false := by
  rcases g with g | ⟨tid, lb, rb, ts, g, _⟩
  · exact Or.inl g
  · exact Or.inr ⟨tid, lb, rb, ts, g, fun hf => by cases hf⟩

/-- the nomination request reaches the controlled agent -/
theorem hop_nom {s s' : Sys} (h : SysOK nat blocked SLA SLB SR liteA liteB T0 H c s) {hd : Dgram} {t : List Dgram}
    (he : Effect T0 s s' hd t) (hmem : hd ∈ s.inflight) {la ra : Nat} (hl : Link s c la ra) (hn : NomD c s la ra hd) :
    DP c s' true := by
  obtain ⟨e1, e2, m, hm, hreqm⟩ := hn
  have hnb : (hd.src, hd.dst) ∉ s.blocked := by rw [e1, e2]; exact hl.fwd
  have hown : s.owner (s.unmapped hd.dst) = some (!c) := by rw [e2]; exact hl.ownR
  rcases he.cases with ⟨_, _, hw⟩ | ⟨y, m', hm', hown', _, hst, ho, k, hfl⟩
  · rcases hw with hw | hw
    · exact absurd hw hnb
    · rw [hown] at hw; cases hw
  · rw [hown] at hown'
    cases hown'
    rw [hm] at hm'
    cases hm'
    rw [e1, e2] at hst hfl
    have hux := h.paired.ufrag c
    have hpx := h.paired.pwd c
    have huy := h.paired.ufrag (!c)
    rw [Bool.not_not] at huy
    have hauth : AuthRequest (s.agent (!c)) m :=
      ⟨hreqm.method, hreqm.cls, by rw [hreqm.user, hux, huy], by rw [hreqm.key, hpx]⟩
    have hnc : NoConflict (s.agent (!c)) m := by
      intro ctl tb hr
      rw [hreqm.role] at hr
      simp only [Option.some.injEq, Prod.mk.injEq] at hr
      rw [← hr.1, h.paired.role, h.paired.role]
      cases c <;> decide
    have hflt : (s.agent (!c)).cfg.blockedIPs.contains (ipOf (s.mapped la)) = false := by
      have := ((h.flight hd hmem).2 m hm hreqm.cls (!c) (by rw [hreqm.key, hpx])).2.2
      rw [e1] at this
      exact this
    obtain ⟨l, hl'⟩ := Option.isSome_iff_exists.mp (owner_some_local s hl.ownR)
    have hctl : (s.agent (!c)).controlling = false := by rw [h.paired.role]; cases c <;> rfl
    rcases step_request_nominates h.time0 h.timeH (h.good (!c)) (h.c06 (!c)) hl' hauth hnc hflt hctl hreqm.uc hreqm.nom with
      hsel | ⟨l', rc, q, mt, f1, f2, f3, f4, f5, f6, f7⟩
    · left
      show (s'.agent (!c)).selected.isSome = true
      rw [hst]; exact hsel
    · right
      rw [← hst] at f1 f2 f3 f7
      refine ⟨mt.tid, s.unmapped ra, s.mapped la, s'.now, Or.inr ⟨⟨he.net.link hl.mirror,
        ⟨_, f7, rfl, rfl, rfl, rfl, rfl, ?_⟩, ⟨l', rc, q, f1, f2, f3, fun _ => Or.inl f4⟩, ?_⟩,
        _, by rw [hfl]; exact List.mem_append_right _ (mem_dgramsOf_of_dgram f5), rfl, rfl, mt, rfl,
        f6.congr (he.ids (!c)), rfl⟩, fun _ => rfl⟩
      · simp [pendOf, he.now]
      · simp [maxBindingRequestTimeout]

/-- the controlled agent's progress survives any delivery or duplication -/
theorem DP.keep {s s' : Sys} (h : SysOK nat blocked SLA SLB SR liteA liteB T0 H c s) {hd : Dgram} {t : List Dgram}
    (he : Effect T0 s s' hd t) (hmem : hd ∈ s.inflight) (hall : ∀ d ∈ s.inflight, d ∈ t ∨ d = hd) {fresh : Bool}
    (g : DP c s fresh) : DP c s' fresh := by
  rcases g with g | ⟨tid, lb, rb, ts, g, hf⟩
  · exact Or.inl (g.keep he)
  · exact Or.inr ⟨tid, lb, rb, ts, g.keep h he hmem hall, fun hfr => by rw [he.now]; exact hf hfr⟩

/-! ## a nomination in flight -/

/-- the controlled agent has progressed, or a nomination request over a `Link` is among the first `n` datagrams -/
def UAt (c : Bool) (n : Nat) (s : Sys) : Prop :=
  DP c s true ∨ ∃ la ra, Link s c la ra ∧ ∃ i, i < n ∧ ∃ d, s.inflight[i]? = some d ∧ NomD c s la ra d

theorem NomD.keep {s s' : Sys} {hd : Dgram} {t : List Dgram} (he : Effect T0 s s' hd t) {la ra : Nat} {d : Dgram}
    (h : NomD c s la ra d) : NomD c s' la ra d := by
  obtain ⟨h1, h2, m, h3, h4⟩ := h
  exact ⟨h1, h2, m, h3, h4.congr (he.ids c)⟩

theorem UAt.step {s : Sys} (h : SysOK nat blocked SLA SLB SR liteA liteB T0 H c s) {n : Nat} (g : UAt c (n + 1) s) :
    UAt c n (Sys.run s (.deliver 0)) := by
  rcases g with g | ⟨la, ra, hl, i, hi, d, hd', hn⟩
  · exact Or.inl (g.step h)
  · cases hs : s.inflight with
    | nil => rw [hs] at hd'; simp at hd'
    | cons hd t =>
      obtain ⟨_, he⟩ := deliver0_effect h hs
      cases i with
      | zero =>
        rw [hs] at hd'
        simp at hd'
        subst hd'
        exact Or.inl (hop_nom h (deliver0_effect h hs).2 (head_mem hs) hl hn)
      | succ i =>
        exact Or.inr ⟨la, ra, he.net.link hl, i, by omega, d, he.getElem_tail (getElem?_tail_of hs hd'), hn.keep he⟩

theorem UAt.flushN {s : Sys} (h : SysOK nat blocked SLA SLB SR liteA liteB T0 H c s) (n : Nat) (g : UAt c n s) :
    DP c (flushN n s) true := by
  induction n generalizing s with
  | zero =>
    rcases g with g | ⟨_, _, _, i, hi, _⟩
    · exact g
    · omega
  | succ n ih => exact ih h.deliver0 (g.step h)

/-- a nomination request in flight is handled within the next wave -/
theorem wave_nom {s : Sys} (h : SysOK nat blocked SLA SLB SR liteA liteB T0 H c s) {la ra : Nat} (hl : Link s c la ra)
    {d : Dgram} (hd : d ∈ s.inflight) (hn : NomD c s la ra d) : DP c (wave s) true := by
  apply UAt.flushN h
  obtain ⟨i, hi, he⟩ := mem_getElem_lt hd
  exact Or.inr ⟨la, ra, hl, i, hi, d, he, hn⟩

/-- the controlled agent's own transaction completes within two waves -/
theorem wave_dp {s : Sys} (h : SysOK nat blocked SLA SLB SR liteA liteB T0 H c s) {fresh : Bool} (g : DP c s fresh) :
    Sel (wave (wave s)) (!c) := by
  rcases g with g | ⟨tid, lb, rb, ts, g, _⟩
  · exact (g.flushN h _).flushN h.wave _
  · have g2 := wave_ch1 h g
    have g3 := wave_ch2 h.wave g2
    exact g3.2 (by cases c <;> simp)

end

/-! ## provenance of the controlling agent's selection -/

section
variable {nat blocked : List (Nat × Nat)} {SLA SLB SR : Nat → Prop} {liteA liteB : Bool} {T0 H : Nat} {c : Bool}

/-- the controlling agent has a selected pair, or a success response to one of its pending USE-CANDIDATE
transactions is in flight -/
def NomSeen (c : Bool) (s : Sys) : Prop :=
  Sel s c ∨ ∃ d ∈ s.inflight, ∃ m, d.p = .stun m ∧ m.cls = 2 ∧ ∃ pd ∈ (s.agent c).pending, pd.tid = m.tid ∧ pd.useCand = true

/-- `P0` stands for "`NomSeen` held already when the round's deliveries began" -/
def LinkedJ (c : Bool) (P0 : Prop) (s : Sys) : Prop := NomSeen c s → DP c s true ∨ P0

theorem sinv_resp_tid {s : Sys} {LA LB : Log} (h : SInv nat blocked SLA SLB SR liteA liteB s LA LB)
    {d : Dgram} (hd : d ∈ s.inflight) {m : Msg} (hm : d.p = .stun m) (hc : m.cls = 2) :
    ∃ z n, n < (s.agent z).nextTid ∧ m.tid = 2 * n + (if z then 1 else 0) := by
  obtain ⟨l0, r0, hlog, _⟩ := h.k2 d hd m hm hc
  rcases List.mem_append.mp hlog with hl | hl
  · obtain ⟨n, hn, e⟩ := h.invA.logOK _ hl
    exact ⟨false, n, hn, e⟩
  · obtain ⟨n, hn, e⟩ := h.invB.logOK _ hl
    exact ⟨true, n, hn, e⟩

/-- a pending transaction of the controlling agent whose id was already issued before the delivery was pending
before it -/
theorem pending_old {s s' : Sys} (h : SysOK nat blocked SLA SLB SR liteA liteB T0 H c s)
    (h' : SysOK nat blocked SLA SLB SR liteA liteB T0 H c s') {hd : Dgram} {t : List Dgram} (he : Effect T0 s s' hd t)
    {pd : Pending} (hpd : pd ∈ (s'.agent c).pending) {z : Bool} {n : Nat} (hn : n < (s.agent z).nextTid)
    (ht : pd.tid = 2 * n + (if z then 1 else 0)) : pd ∈ (s.agent c).pending := by
  obtain ⟨LA, LB, hsi⟩ := h.sinv
  obtain ⟨LA', LB', hsi'⟩ := h'.sinv
  rcases he.cases with ⟨_, e, _⟩ | ⟨y, m, _, _, _, hst, ho, _, _⟩
  · rw [e] at hpd; exact hpd
  · by_cases hcy : c = y
    · subst hcy
      rw [hst] at hpd
      rcases (IceProofs.AgentC02.tid_step (s.agent c) _).pend pd hpd with hold | hnew
      · exact hold
      · exfalso
        rw [sinv_tag hsi c] at hnew
        have hp' : pd ∈ (s'.agent c).pending := by rw [hst]; exact hpd
        obtain ⟨n', _, en'⟩ := sinv_pend_tid hsi' c hp'
        by_cases hzc : z = c
        · subst hzc; omega
        · cases z <;> cases c <;> simp at hzc ht en' <;> omega
    · have e : s'.agent c = s.agent c := by rw [bool_ne_eq_not hcy]; exact ho
      rw [e] at hpd; exact hpd

theorem runForced_selected {now : Nat} {b : Agent} (hg : Good0 T0 H b) (hn : now ≤ H) :
    (b.runForced now).1.selected = b.selected := by
  unfold Agent.runForced
  split
  · have ht : Timely T0 H ({ b with forcePending := false } : Agent) := ⟨hg.timely.ck, hg.timely.span, hg.timely.sel⟩
    have hv := ht.valOK hn
    have hck := ht.ckOK hn
    have := contact_selected ({ b with forcePending := false } : Agent) hv hck
    rcases hk : Agent.contact { b with forcePending := false } now with ⟨a1, o1⟩
    rw [hk] at this
    exact this
  · rfl

/-- `LinkedJ` is kept by every delivery: the controlling agent cannot become selected, nor can a response to one
of its nominations appear, unless the controlled agent has handled the nomination. -/
theorem LinkedJ.keep {s s' : Sys} (h : SysOK nat blocked SLA SLB SR liteA liteB T0 H c s)
    (h' : SysOK nat blocked SLA SLB SR liteA liteB T0 H c s') {hd : Dgram} {t : List Dgram}
    (he : Effect T0 s s' hd t) (hhd : hd ∈ s.inflight) (hall : ∀ d ∈ s.inflight, d ∈ t ∨ d = hd) (hsub : ∀ d ∈ t, d ∈ s.inflight)
    {P0 : Prop} (hj : LinkedJ c P0 s) : LinkedJ c P0 s' := by
  · intro hseen'
    by_cases hseen : NomSeen c s
    · rcases hj hseen with g | g
      · exact Or.inl (g.keep h he hhd hall)
      · exact Or.inr g
    · left
      obtain ⟨LA, LB, hsi⟩ := h.sinv
      rcases hseen' with hsel | ⟨d', hd', m', hm', hc', pd, hpd, hpt, hpu⟩
      · -- the controlling agent became selected: impossible without a response to a nomination
        exfalso
        rcases he.cases with ⟨_, e, _⟩ | ⟨y, m, hm, hown, _, hst, ho, _, _⟩
        · exact hseen (Or.inl (by unfold Sel at *; rw [e] at hsel; exact hsel))
        · by_cases hcy : c = y
          · subst hcy
            unfold Sel at hsel
            rw [hst, IceProofs.C03.step_inbound_proj] at hsel
            simp only [(h.good c).open_, (h.good c).started, Bool.not_true, Bool.or_self, Bool.false_eq_true, if_false] at hsel
            cases hl : (s.agent c).localByAddr (s.unmapped hd.dst) with
            | none => rw [hl] at hsel; exact hseen (Or.inl hsel)
            | some l =>
              rw [hl] at hsel
              simp only [] at hsel
              have hok := (h.flight hd hhd).hok hm c
              have g0 := handleInbound_good0 h.time0 (h.good c) l (localByAddr_spec hl).1 (s.mapped hd.src) m hok
              rw [runForced_selected g0 h.timeH] at hsel
              have hctl : (s.agent c).controlling = true := by rw [h.paired.role]; simp
              rcases ctl_select_needs_uc (s.agent c) s.now l (s.mapped hd.src) m hctl (fun ha => (hok ha).2) hsel with
                hold | ⟨hcls, pd, hpd, hpt, hpu⟩
              · exact hseen (Or.inl hold)
              · exact hseen (Or.inr ⟨hd, hhd, m, hm, hcls, pd, hpd, hpt, hpu⟩)
          · have e : s'.agent c = s.agent c := by rw [bool_ne_eq_not hcy]; exact ho
            exact hseen (Or.inl (by unfold Sel at *; rw [e] at hsel; exact hsel))
      · -- a response to a nomination is in flight
        rcases he.cases with ⟨e1, e, _⟩ | ⟨y, m, hm, hown, hnb, hst, ho, k, hfl⟩
        · exfalso
          rw [e1] at hd'
          rw [e] at hpd
          exact hseen (Or.inr ⟨d', hsub d' hd', m', hm', hc', pd, hpd, hpt, hpu⟩)
        · rw [hfl] at hd'
          rcases List.mem_append.mp hd' with hold | hnew
          · exfalso
            have hdm : d' ∈ s.inflight := hsub d' hold
            obtain ⟨z, n, hn, en⟩ := sinv_resp_tid hsi hdm hm' hc'
            have := pending_old h h' he hpd hn (hpt.trans en)
            exact hseen (Or.inr ⟨d', hdm, m', hm', hc', pd, this, hpt, hpu⟩)
          · -- emitted by this delivery: an answer to the authenticated request `m`
            have hok := (h.flight hd hhd).hok hm y
            obtain ⟨_, hresp⟩ := step_inbound_reqs h.time0 h.timeH (h.good y) (s.unmapped hd.dst) (s.mapped hd.src) m hok
            obtain ⟨_, hm0, htid, hauth⟩ := hresp _ _ _ (mem_dgramsOf_stun hnew hm') (by rw [hc']; decide)
            obtain ⟨z, n, hn, en⟩ := sinv_flight_tid hsi hhd hm hm0
            have hpold := pending_old h h' he hpd hn ((hpt.trans htid).trans en)
            obtain ⟨q1, q2, q3, q4⟩ := h.agree hd hhd m hm hm0 pd hpold (hpt.trans htid) hpu
            exact hop_nom h he hhd q4 ⟨rfl, rfl, m, hm, q1⟩


theorem LinkedJ.step {s : Sys} (h : SysOK nat blocked SLA SLB SR liteA liteB T0 H c s) {P0 : Prop} (hj : LinkedJ c P0 s) :
    LinkedJ c P0 (Sys.run s (.deliver 0)) := by
  cases hs : s.inflight with
  | nil => rw [run_deliver0_nil s hs]; exact hj
  | cons hd t =>
    obtain ⟨h', he⟩ := deliver0_effect h hs
    refine hj.keep h h' he (head_mem hs) ?_ ?_
    · intro d hd'
      rw [hs] at hd'
      rcases List.mem_cons.mp hd' with e | e
      · exact Or.inr e
      · exact Or.inl e
    · intro d hd'
      rw [hs]; exact List.mem_cons_of_mem _ hd'

end

end IceProofs.C01Live
