import IceProofs.Sys2C20FrameS
import IceProofs.AgentAuto
/-!
# C20 on `Sys2` — frame walk for `answeredNomination`

`Agent.ansv` projects an agent on the single field `answeredNomination`.  Every helper of `step` leaves the
projection alone; the writers are `resetSelector` (Start, Restart, lost role conflict) and the controlling branch
of `handleSuccess`.
-/
namespace IceProofs.C20S

structure AnsV where
  v : Option Nat

end IceProofs.C20S

namespace IceModel.AgentCore
/-- the greatest answered renomination value of the controlling selector, boxed -/
def Agent.ansv (a : Agent) : IceProofs.C20S.AnsV := ⟨a.answeredNomination⟩
end IceModel.AgentCore

namespace IceProofs.C20S
open IceModel.AgentCore IceProofs.Agent

@[simp] theorem ansv_mk (cfg tieBreaker controlling started closed connState localUfrag localPwd remoteUfrag remotePwd
    locals remotes checklist nextPairID nextUid nextTid tag pending selected selStart nominatedPair lastNomination answeredNomination
    lastSeen checkingStart checkingTimeout forcePending nextTick caches rx connBytesSent connBytesRecv
    onConnectedFired generation nomIssued lastRenomTime nomCounter) :
    (Agent.mk cfg tieBreaker controlling started closed connState localUfrag localPwd remoteUfrag remotePwd
    locals remotes checklist nextPairID nextUid nextTid tag pending selected selStart nominatedPair lastNomination answeredNomination
    lastSeen checkingStart checkingTimeout forcePending nextTick caches rx connBytesSent connBytesRecv
    onConnectedFired generation nomIssued lastRenomTime nomCounter).ansv = ⟨answeredNomination⟩ := rfl

@[simp] theorem ansv_eta (y : Agent) : AnsV.mk y.answeredNomination = y.ansv := rfl
theorem ansv_v (a : Agent) : a.ansv.v = a.answeredNomination := rfl

theorem ansv_field {a b : Agent} (h : b.ansv = a.ansv) : b.answeredNomination = a.answeredNomination :=
  congrArg AnsV.v h

theorem fst_ansv {α : Type} {x : Agent × α} {a' : Agent} {r : α} (h : x = (a', r)) : a'.ansv = x.1.ansv := by
  subst h; rfl

open Lean Elab Tactic Meta in
/-- for every hypothesis `h : e = (a', r)` with `a' : Agent` add `a'.ansv = e.1.ansv` (proof automation only) -/
elab "ansv_pair_eqs" : tactic => withMainContext do
  let lctx ← getLCtx
  for d in lctx do
    if d.isImplementationDetail then continue
    let ty ← instantiateMVars d.type
    if let some (_, _, rhs) := ty.eq? then
      if rhs.isAppOfArity ``Prod.mk 4 then
        try
          let pf ← mkAppM ``fst_ansv #[d.toExpr]
          let t ← inferType pf
          liftMetaTactic fun g => do
            let g ← g.assert `hc t pf
            let (_, g) ← g.intro1
            return [g]
        catch _ => pure ()

/-- split every `if`/`match`, turn the equations of destructured calls into `ansv` facts, simplify -/
macro "ansv_cases" : tactic =>
  `(tactic| ((try simp only []); (repeat' split) <;> (ansv_pair_eqs; (try simp at *) <;> (try simp_all))))

/-! ### record updates -/
@[simp] theorem ansv_modPair (a : Agent) (id : Nat) (f : Pair → Pair) : (a.modPair id f).ansv = a.ansv := rfl
@[simp] theorem ansv_seenLocalSent (a : Agent) (u n : Nat) : (a.seenLocalSent u n).ansv = a.ansv := rfl
@[simp] theorem ansv_seenRemoteRecv (a : Agent) (u n : Nat) : (a.seenRemoteRecv u n).ansv = a.ansv := rfl
@[simp] theorem ansv_invalidatePending (a : Agent) (n : Nat) : (a.invalidatePending n).ansv = a.ansv := rfl
@[simp] theorem ansv_wipe (a : Agent) : a.wipe.ansv = a.ansv := rfl
@[simp] theorem ansv_requestCheck (a : Agent) : a.requestCheck.ansv = a.ansv := rfl

@[simp] theorem ansv_setConnState (a : Agent) (s : ConnState) : (a.setConnState s).1.ansv = a.ansv := by
  unfold Agent.setConnState
  split
  · rfl
  · split <;> rfl

@[simp] theorem ansv_select (a : Agent) (id : Nat) : (a.select id).1.ansv = a.ansv := by
  unfold Agent.select
  simp

/-! ### sending -/
@[simp] theorem ansv_sendRequest (a : Agent) (now : Nat) (l r : Cand) (u : Bool) (n : Option Nat) :
    (a.sendRequest now l r u n).1.ansv = a.ansv := by
  unfold Agent.sendRequest
  simp
  split <;> simp

@[simp] theorem ansv_ping (a : Agent) (now : Nat) (l r : Cand) : (a.ping now l r).1.ansv = a.ansv := by
  unfold Agent.ping; simp

@[simp] theorem ansv_sendSuccess (a : Agent) (now : Nat) (m : Msg) (l r : Cand) :
    (a.sendSuccess now m l r).1.ansv = a.ansv := by
  unfold Agent.sendSuccess
  simp
  split <;> simp

@[simp] theorem ansv_pingAll (a : Agent) (now : Nat) : (a.pingAll now).1.ansv = a.ansv := by
  unfold Agent.pingAll
  refine IceProofs.List.foldl_inv (fun acc : Agent × List Out => acc.1.ansv = a.ansv) _ _ _ rfl ?_
  · intro acc id h
    obtain ⟨b, o⟩ := acc
    simp only at h ⊢
    split
    · exact h
    · split
      · split
        · exact h
        · split
          · simp [h]
          · split <;> simp [h]
      · split
        · exact h
        · split
          · simp [h]
          · split <;> simp [h]

/-! ### timer-driven work -/
@[simp] theorem ansv_validateSelected (a : Agent) (now : Nat) : (a.validateSelected now).1.ansv = a.ansv := by
  unfold Agent.validateSelected
  split <;> simp

@[simp] theorem ansv_keepalive (a : Agent) (now : Nat) : (a.keepalive now).1.ansv = a.ansv := by
  unfold Agent.keepalive
  split
  · rfl
  · split
    · split <;> simp
    · rfl

@[simp] theorem ansv_nominate (a : Agent) (now : Nat) (p : Pair) : (a.nominate now p).1.ansv = a.ansv := by
  unfold Agent.nominate
  split <;> simp

@[simp] theorem ansv_autoRenom (a : Agent) (now : Nat) : (a.autoRenom now).1.ansv = a.ansv :=
  IceProofs.Auto.autoRenom_proj Agent.ansv now (fun _ _ _ => rfl) (fun b l r u n => ansv_sendRequest b now l r u n)
    (fun _ _ => rfl) (fun _ _ => rfl) (fun _ _ => rfl) a

@[simp] theorem ansv_contactCandidates (a : Agent) (now : Nat) : (a.contactCandidates now).1.ansv = a.ansv := by
  unfold Agent.contactCandidates
  ansv_cases

@[simp] theorem ansv_contact (a : Agent) (now : Nat) : (a.contact now).1.ansv = a.ansv := by
  unfold Agent.contact
  split
  · rfl
  · split
    · simp
    · simp only []
      split <;> simp <;> split <;> simp
    · simp

@[simp] theorem ansv_runForced (a : Agent) (now : Nat) : (a.runForced now).1.ansv = a.ansv := by
  unfold Agent.runForced
  ansv_cases

@[simp] theorem ansv_runTimers (a : Agent) (now fuel : Nat) : (a.runTimers now fuel).1.ansv = a.ansv := by
  induction fuel generalizing a with
  | zero => rfl
  | succ n ih =>
    unfold Agent.runTimers
    ansv_cases

/-! ### candidates and pairs -/
@[simp] theorem ansv_addPair (a : Agent) (l r : Cand) : (a.addPair l r).1.ansv = a.ansv := rfl

@[simp] theorem ansv_replaceRemoteInPairs (a : Agent) (old c : Cand) :
    (a.replaceRemoteInPairs old c).1.ansv = a.ansv := by
  unfold Agent.replaceRemoteInPairs
  refine IceProofs.List.foldl_inv (fun acc : Agent × List Out => acc.1.ansv = a.ansv) _ _ _ rfl ?_
  intro acc id h
  obtain ⟨b, o⟩ := acc
  simp only at h ⊢
  ansv_cases

@[simp] theorem ansv_addRemoteCandidate (a : Agent) (c : Cand) : (a.addRemoteCandidate c).1.ansv = a.ansv := by
  unfold Agent.addRemoteCandidate
  split
  · rfl
  split
  · rfl
  simp only [ansv_requestCheck]
  refine IceProofs.List.foldl_inv (fun b : Agent => b.ansv = a.ansv) _ _ _ ?_ ?_
  · simp only [ansv_mk, ansv_eta]
    refine IceProofs.List.foldl_inv (fun acc : Agent × List Out => acc.1.ansv = a.ansv) _ _ _ ?_ ?_
    · simp
    · intro acc old h
      simp [h]
  · intro b l h
    split <;> simp [h]

@[simp] theorem ansv_addLocalCandidate (a : Agent) (c : Cand) : (a.addLocalCandidate c).1.ansv = a.ansv := by
  unfold Agent.addLocalCandidate
  split
  · rfl
  split
  · rfl
  simp only [ansv_requestCheck]
  refine IceProofs.List.foldl_inv (fun b : Agent => b.ansv = a.ansv) _ _ _ ?_ ?_
  · simp
  · intro b l h
    simp [h]

/-! ### inbound STUN (everything except the writer `handleSuccess`) -/
@[simp] theorem ansv_takePending (a : Agent) (now tid : Nat) : (a.takePending now tid).1.ansv = a.ansv := by
  unfold Agent.takePending
  ansv_cases

@[simp] theorem ansv_ctlHandleRequest (a : Agent) (now : Nat) (m : Msg) (l r : Cand) :
    (a.ctlHandleRequest now m l r).1.ansv = a.ansv := by
  unfold Agent.ctlHandleRequest
  ansv_cases

@[simp] theorem ansv_cldNominate (a : Agent) (m : Msg) (id : Nat) : (cldNominate a m id).1.ansv = a.ansv := by
  unfold cldNominate
  ansv_cases

@[simp] theorem ansv_cldProceed (a : Agent) (now : Nat) (m : Msg) (l r : Cand) (id : Nat) :
    (cldProceed a now m l r id).1.ansv = a.ansv := by
  unfold cldProceed
  ansv_cases

@[simp] theorem ansv_ensurePair (a : Agent) (l r : Cand) : (ensurePair a l r).1.ansv = a.ansv := by
  unfold ensurePair
  split <;> rfl

@[simp] theorem ansv_cldHandleRequest (a : Agent) (now : Nat) (m : Msg) (l r : Cand) :
    (a.cldHandleRequest now m l r).1.ansv = a.ansv := by
  rw [cldHandleRequest_nf]
  simp only []
  split
  · simp
  · simp

/-! ### data plane -/
@[simp] theorem ansv_writeVia (a : Agent) (now : Nat) (p : Pair) (len : Nat) : (a.writeVia now p len).1.ansv = a.ansv := by
  unfold Agent.writeVia
  ansv_cases

@[simp] theorem ansv_write (a : Agent) (now len : Nat) (s : Bool) : (a.write now len s).1.ansv = a.ansv := by
  unfold Agent.write
  ansv_cases

@[simp] theorem ansv_writeToPair (a : Agent) (now id len : Nat) (s : Bool) :
    (a.writeToPair now id len s).1.ansv = a.ansv := by
  unfold Agent.writeToPair
  ansv_cases

@[simp] theorem ansv_inboundData (a : Agent) (now : Nat) (l : Cand) (src len : Nat) :
    (a.inboundData now l src len).1.ansv = a.ansv := by
  unfold Agent.inboundData Agent.enqueue
  ansv_cases

end IceProofs.C20S
