import IceProofs.Sys2C01LiveRetx
import IceProofs.AgentC07Ctl
/-!
# C01 liveness, layer 22 — the controlled agent's tick on a network that is quiet FOR THE CONTROLLING AGENT'S ROUTES

`QuietR`: nothing in flight is deliverable and every (local address, known remote address) route of the controlling agent
`c` is undeliverable; then the ticks of `c` before the controlled agent's tick change nothing that matters (their
checks are undeliverable), so `nextTick d ≤ nextTick c` (`TickReqD`) is not needed.
-/
namespace IceProofs.C01Live
open IceModel.AgentCore IceModel.Sys2 IceProofs.Sys2Run IceProofs.C01 IceProofs.Agent IceProofs.C03

theorem mem_dgramsOf_stun {o : List Out} {d : Dgram} {m : Msg} (h : d ∈ dgramsOf o) (hp : d.p = .stun m) :
    Out.dgram d.src d.dst m ∈ o := by
  unfold dgramsOf at h
  obtain ⟨x, hx, hfx⟩ := List.mem_filterMap.mp h
  cases x with
  | dgram f t m' =>
    simp only [Option.some.injEq] at hfx
    subst hfx
    simp only [Payload.stun.injEq] at hp
    subst hp
    exact hx
  | data f t n =>
    simp only [Option.some.injEq] at hfx
    subst hfx
    cases hp
  | _ => simp at hfx

/-- every route of `c` is undeliverable -/
def RoutesUndeliv (c : Bool) (s : Sys) : Prop :=
  ∀ l ∈ (s.agent c).locals, ∀ r ∈ (s.agent c).remotes, (l.addr, r.addr) ∈ s.blocked ∨ s.owner (s.unmapped r.addr) = none

instance (c : Bool) (s : Sys) : Decidable (RoutesUndeliv c s) := by unfold RoutesUndeliv; infer_instance

theorem addr_of_ckey_mem {l l' : List Cand} (h : l'.map IceProofs.AgentC07.ckey = l.map IceProofs.AgentC07.ckey)
    {y : Cand} (hy : y ∈ l') : ∃ z ∈ l, z.addr = y.addr := by
  have : IceProofs.AgentC07.ckey y ∈ l.map IceProofs.AgentC07.ckey := by rw [← h]; exact List.mem_map_of_mem hy
  obtain ⟨z, hz, e⟩ := List.mem_map.mp this
  exact ⟨z, hz, congrArg (fun k => k.2.2) e⟩

/-- the quiet start, routes version -/
structure QuietR (c : Bool) (td x : Nat) (s : Sys) : Prop where
  und : ∀ dg ∈ s.inflight, Undeliv s dg
  tick : (s.agent (!c)).nextTick = some td
  now : s.now ≤ td
  routes : RoutesUndeliv c s
  unk : (s.agent c).findRemote 0 x = none

section
variable {nat blocked : List (Nat × Nat)} {SLA SLB SR : Nat → Prop} {liteA liteB : Bool} {T0 H J L : Nat} {c : Bool}

/-- **the ticks of `c` before the controlled agent's tick change nothing that matters** -/
theorem quiet_prefix2
    (AR : ∀ {T : Nat} {a : Agent} {f t : Nat} {m : Msg}, Good T0 H a → T ≤ H → Out.dgram f t m ∈ (step a (.advance T)).2 →
      (∃ l ∈ a.locals, l.addr = f) ∧ (∃ r ∈ a.remotes, r.addr = t))
    {s : Sys} {es : List SysEv} {td x : Nat} (h : FInv nat blocked SLA SLB SR liteA liteB T0 H J c s)
    (hs : SufOK c H J s es) (w : QuietR c td x s) (hend : td < (Sys.runs s es).now) :
    ∃ e1 T e2, es = e1 ++ SysEv.advance T :: e2 ∧ (Sys.runs s e1).agent (!c) = s.agent (!c) ∧ SameNet s (Sys.runs s e1) ∧
      ((Sys.runs s e1).agent c).findRemote 0 x = none ∧ (Sys.runs s e1).now ≤ T ∧ td ≤ T ∧ T ≤ td + 2000000000 + J ∧ T ≤ H := by
  induction es generalizing s with
  | nil => exact absurd hend (by have := w.now; show ¬ td < s.now; omega)
  | cons e es ih =>
    have step_of : ∀ s', Sys.run s e = s' → s'.agent (!c) = s.agent (!c) → SameNet s s' →
        FInv nat blocked SLA SLB SR liteA liteB T0 H J c s' → QuietR c td x s' →
        ∃ e1 T e2, e :: es = e1 ++ SysEv.advance T :: e2 ∧ (Sys.runs s e1).agent (!c) = s.agent (!c) ∧
          SameNet s (Sys.runs s e1) ∧ ((Sys.runs s e1).agent c).findRemote 0 x = none ∧
          (Sys.runs s e1).now ≤ T ∧ td ≤ T ∧ T ≤ td + 2000000000 + J ∧ T ≤ H := by
      intro s' hrun hag hnet h' w'
      have hend' : td < (Sys.runs (Sys.run s e) es).now := hend
      have hs2 := hs.2
      rw [hrun] at hend' hs2
      obtain ⟨e1, T, e2, q1, q2, q3, q4⟩ := ih h' hs2 w' hend'
      refine ⟨e :: e1, T, e2, by rw [q1]; rfl, ?_, ?_, ?_⟩
      · show (Sys.runs (Sys.run s e) e1).agent (!c) = _
        rw [hrun, q2, hag]
      · show SameNet s (Sys.runs (Sys.run s e) e1)
        rw [hrun]
        exact ⟨q3.1.trans hnet.1, q3.2.1.trans hnet.2.1, fun y => (q3.2.2 y).trans (hnet.2.2 y)⟩
      · show ((Sys.runs (Sys.run s e) e1).agent c).findRemote 0 x = none ∧ (Sys.runs (Sys.run s e) e1).now ≤ T ∧ _
        rw [hrun]; exact q4
    rcases ev_view hs.1 with e' | ⟨k, keep, hd, hk, e'⟩ | ⟨T, t1, hev, hleT, hH, ht1, hT, e'⟩
    · exact step_of s e' rfl ⟨rfl, rfl, fun _ => rfl⟩ h w
    · obtain ⟨h1, eff, _⟩ := h.deliver keep hk
      rw [← e'] at h1 eff
      have hmem : hd ∈ s.inflight := List.mem_of_getElem? hk
      rcases eff.cases with ⟨hfl, hag, _⟩ | ⟨y, m, _, hown, hnb, _⟩
      · have hu : ∀ y, (Sys.run s e).unmapped y = s.unmapped y := fun y => by simp [Sys.unmapped, eff.net.1]
        refine step_of _ rfl (hag (!c)) eff.net h1 ⟨?_, by rw [hag (!c)]; exact w.tick, by rw [eff.now]; exact w.now, ?_,
          by rw [hag c]; exact w.unk⟩
        · intro dg hdg
          rw [hfl] at hdg
          have := w.und dg (mem_of_mem_restOf hdg)
          unfold Undeliv at this ⊢
          rw [eff.net.2.1, eff.net.2.2, hu]
          exact this
        · intro l hl r hr
          rw [hag c] at hl hr
          have := w.routes l hl r hr
          rw [eff.net.2.1, eff.net.2.2, hu]
          exact this
      · rcases w.und hd hmem with hw | hw
        · exact absurd hw hnb
        · rw [hown] at hw; cases hw
    · rcases Nat.lt_or_ge T td with hlt | hge
      · obtain ⟨h1, eff, _, _, _⟩ := h.advance hleT hH ht1 hT
        rw [← e'] at h1 eff
        have hu : ∀ y, (Sys.run s e).unmapped y = s.unmapped y := fun y => by simp [Sys.unmapped, eff.net.1]
        have hdq : step (s.agent (!c)) (.advance T) = (s.agent (!c), []) := step_advance_early (h.ok.good (!c)) w.tick hlt
        have hagd : (Sys.run s e).agent (!c) = s.agent (!c) := by rw [eff.agent (!c), hdq]
        -- what `c` sent is undeliverable
        have hcout : ∀ dg ∈ dgramsOf (step (s.agent c) (.advance T)).2, dg ∈ (Sys.run s e).inflight → Undeliv s dg := by
          intro dg hdg hin
          obtain ⟨m, hm⟩ := (h1.ok.flight dg hin).1
          obtain ⟨⟨l, hl, el⟩, r, hr, er⟩ := AR (h.ok.good c) hH (mem_dgramsOf_stun hdg hm)
          have := w.routes l hl r hr
          unfold Undeliv
          rw [← el, ← er]
          exact this
        have hund : ∀ dg ∈ (Sys.run s e).inflight, Undeliv s dg := by
          intro dg hdg
          have hdg' := hdg
          rw [eff.flight] at hdg'
          rcases List.mem_append.mp hdg' with hh | hb
          · rcases List.mem_append.mp hh with h0 | ha
            · exact w.und dg h0
            · cases c
              · exact hcout dg ha hdg
              · have e0 : s.a = s.agent (!true) := rfl
                rw [e0, hdq] at ha
                simp [dgramsOf] at ha
          · cases c
            · have e0 : s.b = s.agent (!false) := rfl
              rw [e0, hdq] at hb
              simp [dgramsOf] at hb
            · exact hcout dg hb hdg
        refine step_of _ rfl hagd eff.net h1 ⟨?_, by rw [hagd]; exact w.tick, by rw [eff.now]; exact Nat.le_of_lt hlt, ?_, ?_⟩
        · intro dg hdg
          have := hund dg hdg
          unfold Undeliv at this ⊢
          rw [eff.net.2.1, eff.net.2.2, hu]
          exact this
        · intro l hl r hr
          rw [eff.agent c] at hl hr
          rw [eff.net.2.1, eff.net.2.2, hu]
          rcases (IceProofs.AgentC07.Fr_runTimers (s.agent c) T 100000).cands with hk | hw
          · obtain ⟨l0, hl0, el⟩ := addr_of_ckey_mem hk.1 hl
            obtain ⟨r0, hr0, er⟩ := addr_of_ckey_mem hk.2.1 hr
            rw [← el, ← er]
            exact w.routes l0 hl0 r0 hr0
          · have : l ∈ ([] : List Cand) := by rw [← hw.1]; exact hl
            cases this
        · rw [eff.agent c]
          exact runTimers_unknown _ _ _ w.unk
      · subst hev
        obtain ⟨t', ht', l1, l2⟩ := h.tick
        rw [ht1] at ht'; cases ht'
        have := w.now
        exact ⟨[], T, es, rfl, rfl, ⟨rfl, rfl, fun _ => rfl⟩, w.unk, hleT, hge, by omega, hH⟩

/-- **the first valid pair through the controlled agent's tick, routes version** -/
theorem tick_valid2
    (AR : ∀ {T : Nat} {a : Agent} {f t : Nat} {m : Msg}, Good T0 H a → T ≤ H → Out.dgram f t m ∈ (step a (.advance T)).2 →
      (∃ l ∈ a.locals, l.addr = f) ∧ (∃ r ∈ a.remotes, r.addr = t))
    {s : Sys} {es : List SysEv} {la ra td : Nat} (h : FInv nat blocked SLA SLB SR liteA liteB T0 H J c s)
    (hs : SufOK c H J s es) (hf : FairL L s es) (hL : J + 2 * L < maxBindingRequestTimeout)
    (w : QuietR c td (s.mapped la) s) (hlink : Link s (!c) la ra) (hsel : (s.agent (!c)).selected = none)
    (hpair : ∃ p ∈ (s.agent (!c)).checklist, (p.state = .waiting ∨ p.state = .inProgress) ∧
      p.reqCount ≤ (s.agent (!c)).cfg.maxBindingRequests ∧
      ∃ l r, (s.agent (!c)).localOf p.l = some l ∧ (s.agent (!c)).remoteOf p.r = some r ∧ l.addr = la ∧ r.addr = ra)
    (hend : td + 2000000000 + J + 3 * L < (Sys.runs s es).now) : ValidBy c (td + 2000000000 + J + 3 * L) s es := by
  obtain ⟨e1, T, e2, q1, hagd, hnet, hunk, hn1, hge, hTb, hTH⟩ := quiet_prefix2 AR h hs w (by omega)
  subst q1
  obtain ⟨h1, h2, hs2, hrun⟩ := split_ev h hs
  obtain ⟨_, _, t1, ht1, hT⟩ := hs.tail.1
  obtain ⟨_, eff, _, _, _⟩ := h1.advance hn1 hTH ht1 hT
  obtain ⟨p, hp, hst, hb, l, r, hl, hr, ela, era⟩ := hpair
  have hgd := h1.ok.good (!c)
  have hctl : ((Sys.runs s e1).agent (!c)).controlling = false := by rw [h1.ok.paired.role]; cases c <;> rfl
  obtain ⟨m, hout, hreq⟩ := cld_tick_ping hgd hTH (by rw [hagd]; exact w.tick) hge hctl (by rw [hagd]; exact hsel)
    (by rw [hagd]; exact hp) hst (by rw [hagd]; exact hb) (by rw [hagd]; exact hl) (by rw [hagd]; exact hr)
  rw [ela, era] at hout
  have hin : ({ src := la, dst := ra, p := .stun m } : Dgram) ∈ ((Sys.runs s e1).advance T).1.inflight := by
    rw [eff.flight]
    have := mem_dgramsOf_of_dgram hout
    cases c
    · exact List.mem_append_right _ this
    · exact List.mem_append_left _ (List.mem_append_right _ this)
  obtain ⟨i, hi⟩ := List.getElem?_of_mem hin
  have hm2 : ((Sys.runs s e1).advance T).1.mapped la = s.mapped la := by simp [Sys.mapped, eff.net.1, hnet.1]
  have hunk2 : (((Sys.runs s e1).advance T).1.agent c).findRemote 0 (((Sys.runs s e1).advance T).1.mapped la) = none := by
    rw [hm2, eff.agent c]
    exact runTimers_unknown _ _ _ hunk
  rw [Sys.runs_append] at hend
  have hnow2 : ((Sys.runs s e1).advance T).1.now = T := eff.now
  have hv := disc_valid h2 hs2 hf.after_ev hL hi ⟨rfl, rfl, m, rfl, hreq.congr (eff.ids (!c)), rfl⟩
    (eff.net.link (hnet.link hlink)) hunk2
    (by show ((Sys.runs s e1).advance T).1.now + 3 * L < (Sys.runs ((Sys.runs s e1).advance T).1 e2).now
        rw [hnow2]; exact Nat.lt_of_le_of_lt (by omega) hend)
  have hsplit : e1 ++ SysEv.advance T :: e2 = (e1 ++ [SysEv.advance T]) ++ e2 := by simp
  rw [hsplit]
  refine ValidBy.append ?_
  have hr2 : Sys.runs s (e1 ++ [SysEv.advance T]) = ((Sys.runs s e1).advance T).1 := by rw [Sys.runs_append]; rfl
  rw [hr2]
  refine hv.mono ?_
  show ((Sys.runs s e1).advance T).1.now + 3 * L ≤ _
  rw [hnow2]; omega

/-- **the quiet start condition, routes version** (decidable): as `TickReqD`, but instead of "the controlled agent's
timer is due not later than the controlling agent's": every (local address, known remote address) route of the
controlling agent is undeliverable -/
def TickReq2D (c : Bool) (s : Sys) : Prop :=
  (∀ dg ∈ s.inflight, Undeliv s dg) ∧ RoutesUndeliv c s ∧ (s.agent (!c)).selected = none ∧
  (match (s.agent (!c)).nextTick with
    | some td => s.now ≤ td
    | none => False) ∧
  ∃ p ∈ (s.agent (!c)).checklist, (p.state = .waiting ∨ p.state = .inProgress) ∧
    p.reqCount ≤ (s.agent (!c)).cfg.maxBindingRequests ∧
    match (s.agent (!c)).localOf p.l, (s.agent (!c)).remoteOf p.r with
    | some l, some r => Link s (!c) l.addr r.addr ∧ (s.agent c).findRemote 0 (s.mapped l.addr) = none
    | _, _ => False

instance (c : Bool) (s : Sys) : Decidable (TickReq2D c s) := by
  unfold TickReq2D
  refine @instDecidableAnd _ _ _ (@instDecidableAnd _ _ _ (@instDecidableAnd _ _ _ (@instDecidableAnd _ _ ?_ ?_)))
  · split <;> infer_instance
  · refine @List.decidableBEx _ _ (fun p => ?_) _
    refine @instDecidableAnd _ _ _ (@instDecidableAnd _ _ _ ?_)
    split <;> infer_instance

/-- the time of the controlled agent's next tick (0 if none) -/
def cldTick (c : Bool) (s : Sys) : Nat := ((s.agent (!c)).nextTick).getD 0

theorem tick_valid2_D
    (AR : ∀ {T : Nat} {a : Agent} {f t : Nat} {m : Msg}, Good T0 H a → T ≤ H → Out.dgram f t m ∈ (step a (.advance T)).2 →
      (∃ l ∈ a.locals, l.addr = f) ∧ (∃ r ∈ a.remotes, r.addr = t))
    {s : Sys} {es : List SysEv} (h : FInv nat blocked SLA SLB SR liteA liteB T0 H J c s)
    (hs : SufOK c H J s es) (hf : FairL L s es) (hL : J + 2 * L < maxBindingRequestTimeout) (hd : TickReq2D c s)
    (hend : cldTick c s + 2000000000 + J + 3 * L < (Sys.runs s es).now) :
    ValidBy c (cldTick c s + 2000000000 + J + 3 * L) s es := by
  obtain ⟨h1, hro, h2, h3, p, hp, hst, hb, h4⟩ := hd
  cases htd : (s.agent (!c)).nextTick with
  | none => rw [htd] at h3; exact h3.elim
  | some td =>
    rw [htd] at h3
    have e : cldTick c s = td := by unfold cldTick; rw [htd]; rfl
    rw [e] at hend ⊢
    cases hl : (s.agent (!c)).localOf p.l with
    | none => rw [hl] at h4; exact h4.elim
    | some l =>
      cases hr : (s.agent (!c)).remoteOf p.r with
      | none => rw [hl, hr] at h4; exact h4.elim
      | some r =>
        rw [hl, hr] at h4
        exact tick_valid2 AR h hs hf hL ⟨h1, htd, h3, hro, h4.2⟩ h4.1 h2 ⟨p, hp, hst, hb, l, r, hl, hr, rfl, rfl⟩ hend

end

end IceProofs.C01Live
